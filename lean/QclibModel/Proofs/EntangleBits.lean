import QclibModel.Model.Entangle
import QclibModel.Spec.Entangle
/-
  C20 — index arithmetic of `_get_iota`: it deletes bit `j`; deletion/insertion are mutually
  inverse; bounds; bit-level (tensor split) characterisation.
-/
namespace Qclib.Ent

theorem delBit_eq_bits (j b : Nat) :
    delBit j b = ((b >>> (j + 1)) <<< j) ||| (b &&& (2 ^ j - 1)) := by
  unfold delBit
  rw [Nat.and_two_pow_sub_one_eq_mod, ← Nat.shiftLeft_add_eq_or_of_lt (Nat.mod_lt _ (Nat.two_pow_pos j)),
    Nat.shiftLeft_eq, Nat.shiftRight_eq_div_pow]

theorem insBit_eq_bits (j : Nat) (c : Bool) (r : Nat) :
    insBit j c r = (((r >>> j) <<< (j + 1)) ||| ((if c then 1 else 0) <<< j)) ||| (r &&& (2 ^ j - 1)) := by
  unfold insBit
  have hlt : r % 2 ^ j < 2 ^ j := Nat.mod_lt _ (Nat.two_pow_pos j)
  have h1 : (r >>> j) <<< (j + 1) + ((if c then 1 else 0) <<< j) + r % 2 ^ j
      = (((r >>> j) <<< (j + 1)) ||| ((if c then 1 else 0) <<< j)) ||| (r % 2 ^ j) := by
    have e1 : (r >>> j) <<< (j + 1) = ((r >>> j) <<< 1) <<< j := by
      rw [← Nat.shiftLeft_add, Nat.add_comm]
    have hc : (if c then 1 else 0 : Nat) < 2 ^ 1 := by cases c <;> simp
    have e2 : ((r >>> j) <<< 1) <<< j + ((if c then 1 else 0) <<< j)
        = ((r >>> j) <<< 1 + (if c then 1 else 0)) <<< j := by
      simp only [Nat.shiftLeft_eq]; rw [Nat.add_mul]
    rw [e1, e2, Nat.shiftLeft_add_eq_or_of_lt hlt, Nat.shiftLeft_add_eq_or_of_lt hc]
    congr 1
    apply Nat.eq_of_testBit_eq; intro i
    simp only [Nat.testBit_shiftLeft, Nat.testBit_or]
    cases decide (i ≥ j) <;> simp
  rw [Nat.and_two_pow_sub_one_eq_mod, ← h1]
  simp only [Nat.shiftLeft_eq, Nat.shiftRight_eq_div_pow]
  cases c <;> simp

/-- Bits of `delBit`: below `j` unchanged, from `j` on shifted down by one. -/
theorem testBit_delBit (j b i : Nat) :
    (delBit j b).testBit i = b.testBit (if i < j then i else i + 1) := by
  rw [delBit_eq_bits]
  simp only [Nat.testBit_or, Nat.testBit_shiftLeft, Nat.testBit_shiftRight, Nat.testBit_and,
    Nat.testBit_two_pow_sub_one]
  by_cases h : i < j
  · simp [h, Nat.not_le.mpr h]
  · have h' : j ≤ i := Nat.le_of_not_lt h
    have e : j + 1 + (i - j) = i + 1 := by omega
    simp [h, h', e]

/-- Bits of `insBit`: below `j` those of `r`, at `j` the inserted bit, above `j` shifted up. -/
theorem testBit_insBit (j : Nat) (c : Bool) (r i : Nat) :
    (insBit j c r).testBit i
      = if i < j then r.testBit i else if i = j then c else r.testBit (i - 1) := by
  rw [insBit_eq_bits]
  simp only [Nat.testBit_or, Nat.testBit_shiftLeft, Nat.testBit_shiftRight, Nat.testBit_and,
    Nat.testBit_two_pow_sub_one]
  by_cases h : i < j
  · have h1 : ¬ (i ≥ j + 1) := by omega
    have h2 : ¬ (i ≥ j) := by omega
    simp [h, h1, h2]
  · by_cases h3 : i = j
    · subst h3
      have h1 : ¬ (i ≥ i + 1) := by omega
      cases c <;> simp [h1]
    · have h1 : i ≥ j + 1 := by omega
      have h2 : i ≥ j := by omega
      have e : j + (i - (j + 1)) = i - 1 := by omega
      have e2 : i - j ≠ 0 := by omega
      have hb : ((if c then 1 else 0 : Nat)).testBit (i - j) = false := by
        cases c
        · simp
        · simp only [if_true]
          rw [Nat.testBit_eq_decide_div_mod_eq]
          have : 1 / 2 ^ (i - j) = 0 := Nat.div_eq_of_lt (Nat.one_lt_two_pow e2)
          simp [this]
      simp [h, h3, h1, h2, e, hb]

theorem testBit_insBit_self (j : Nat) (c : Bool) (r : Nat) : (insBit j c r).testBit j = c := by
  rw [testBit_insBit]; simp

theorem insBit_delBit (j b : Nat) : insBit j (b.testBit j) (delBit j b) = b := by
  apply Nat.eq_of_testBit_eq; intro i
  rw [testBit_insBit]
  by_cases h : i < j
  · simp [h, testBit_delBit]
  · by_cases h3 : i = j
    · simp [h3]
    · have h4 : ¬ (i - 1 < j) := by omega
      have e : i - 1 + 1 = i := by omega
      simp [h, h3, testBit_delBit, h4, e]

theorem delBit_insBit (j : Nat) (c : Bool) (r : Nat) : delBit j (insBit j c r) = r := by
  apply Nat.eq_of_testBit_eq; intro i
  rw [testBit_delBit]
  by_cases h : i < j
  · simp [h, testBit_insBit]
  · have h1 : ¬ (i + 1 < j) := by omega
    have h2 : i + 1 ≠ j := by omega
    simp [h, testBit_insBit, h1, h2]

theorem testBit_false_of_lt {b n i : Nat} (hb : b < 2 ^ n) (hi : n ≤ i) : b.testBit i = false :=
  Nat.testBit_lt_two_pow (Nat.lt_of_lt_of_le hb (Nat.pow_le_pow_right (by decide) hi))

theorem delBit_lt {j n b : Nat} (hj : j < n) (hb : b < 2 ^ n) : delBit j b < 2 ^ (n - 1) := by
  apply Nat.lt_pow_two_of_testBit; intro i hi
  rw [testBit_delBit]
  apply testBit_false_of_lt hb
  split <;> omega

theorem insBit_lt {j n : Nat} (c : Bool) {r : Nat} (hj : j < n) (hr : r < 2 ^ (n - 1)) :
    insBit j c r < 2 ^ n := by
  apply Nat.lt_pow_two_of_testBit; intro i hi
  rw [testBit_insBit]
  have h1 : ¬ (i < j) := by omega
  have h2 : i ≠ j := by omega
  simp only [h1, h2, if_false]
  exact testBit_false_of_lt hr (by omega)

/-- Two labels with the same deleted-bit label and the same bit `j` are equal. -/
theorem insBit_injective {j : Nat} {c c' : Bool} {r r' : Nat}
    (h : insBit j c r = insBit j c' r') : c = c' ∧ r = r' := by
  constructor
  · have := congrArg (fun x => x.testBit j) h
    simpa [testBit_insBit_self] using this
  · have := congrArg (delBit j) h
    simpa [delBit_insBit] using this

/-- **`_get_iota` deletes bit `j`.**  For `j < n`, `b < 2^n` and a selector in `{0,1}` the model of
`_get_iota(j, n, s, b)` returns (`bit j of b == s`, `b` with bit `j` squeezed out). -/
theorem getIota_eq {j n b : Nat} (hj : j < n) (hb : b < 2 ^ n) (s : Bool) :
    getIota j n (if s then 1 else 0) b = some (b.testBit j == s, delBit j b) := by
  have hs : ((if s then 1 else 0 : Nat) = 0 ∨ (if s then 1 else 0 : Nat) = 1) := by cases s <;> simp
  unfold getIota
  rw [if_pos hs]
  simp only []
  congr 2
  · -- the selector comparison
    have hv : (1 <<< j &&& b) >>> j = if b.testBit j then 1 else 0 := by
      apply Nat.eq_of_testBit_eq; intro i
      simp only [Nat.testBit_shiftRight, Nat.testBit_and, Nat.one_shiftLeft, Nat.testBit_two_pow]
      by_cases hi : i = 0
      · subst hi; cases b.testBit j <;> simp
      · have : ¬ (j = j + i) := by omega
        have hz : ∀ c : Bool, ((if c then 1 else 0 : Nat)).testBit i = false := by
          intro c; cases c
          · simp
          · simp only [if_true]; rw [Nat.testBit_eq_decide_div_mod_eq]
            have : 1 / 2 ^ i = 0 := Nat.div_eq_of_lt (Nat.one_lt_two_pow hi)
            simp [this]
        simp [hi, hz]
    rw [hv]
    cases b.testBit j <;> cases s <;> simp
  · -- the new basis state
    rw [delBit_eq_bits]
    have hlow : (2 ^ n - 1) >>> (n - j) = 2 ^ j - 1 := by
      apply Nat.eq_of_testBit_eq; intro i
      simp only [Nat.testBit_shiftRight, Nat.testBit_two_pow_sub_one]
      congr 1; apply propext; omega
    have hhigh : (b &&& (2 ^ n - 1 &&& (2 ^ n - 1) <<< (j + 1))) >>> 1 = (b >>> (j + 1)) <<< j := by
      apply Nat.eq_of_testBit_eq; intro i
      simp only [Nat.testBit_shiftRight, Nat.testBit_and, Nat.testBit_shiftLeft,
        Nat.testBit_two_pow_sub_one]
      by_cases hi : i ≥ j
      · have e : j + 1 + (i - j) = 1 + i := by omega
        by_cases hin : 1 + i < n
        · have h2 : 1 + i ≥ j + 1 := by omega
          have h3 : 1 + i - (j + 1) < n := by omega
          simp [hi, e, hin, h2, h3]
        · have : b.testBit (1 + i) = false := testBit_false_of_lt hb (by omega)
          simp [hi, e, this]
      · have h2 : ¬ (1 + i ≥ j + 1) := by omega
        simp [hi, h2]
    rw [hlow, hhigh]
    exact Nat.shiftLeft_add_eq_or_of_lt (by
      rw [Nat.and_two_pow_sub_one_eq_mod]; exact Nat.mod_lt _ (Nat.two_pow_pos j)) _

end Qclib.Ent
