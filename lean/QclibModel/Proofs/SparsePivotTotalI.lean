import QclibModel.Proofs.SparsePivotTotalG
import QclibModel.Proofs.SparseCvoTotalRccx
/-
  C06 — PivotInitialize with auxiliaries (part I): renaming the wires of a circuit by an involution
  `ρ` conjugates its semantics by the relabelling `b ↦ b ∘ ρ` (`semSG_relab`, for `cx` / `rccx`
  gates — the alphabet of `_mcxvchain`).
-/
namespace Qclib.Sparse
open Qclib

section
/-- pull a state back along the wire renaming `ρ` -/
def relab {R : Type} (ρ : Nat → Nat) (ψ : State R) : State R := fun b => ψ (fun i => b (ρ i))

theorem relab_relab {R : Type} (ρ : Nat → Nat) (hρ : ∀ i, ρ (ρ i) = i) (ψ : State R) :
    relab ρ (relab ρ ψ) = ψ := by
  funext b
  show ψ (fun i => b (ρ (ρ i))) = ψ b
  simp only [hρ]

variable {Θ R : Type} [CommRing R] [RotSem Θ R]

theorem setBit_comp (ρ : Nat → Nat) (hρ : ∀ i, ρ (ρ i) = i) (b : Bits) (t : Nat) (v : Bool) :
    (fun i => setBit (fun j => b (ρ j)) t v (ρ i)) = setBit b (ρ t) v := by
  funext i
  unfold setBit
  by_cases h : i = ρ t
  · subst h; simp [hρ]
  · have : ρ i ≠ t := fun e => h (by rw [← e, hρ])
    simp [h, this, hρ]

theorem flipBit_comp (ρ : Nat → Nat) (hρ : ∀ i, ρ (ρ i) = i) (b : Bits) (t : Nat) :
    (fun i => flipBit (fun j => b (ρ j)) t (ρ i)) = flipBit b (ρ t) := by
  funext i
  unfold flipBit
  by_cases h : i = ρ t
  · subst h; simp [hρ]
  · have : ρ i ≠ t := fun e => h (by rw [← e, hρ])
    simp [h, this, hρ]

theorem applyMcu_relab (ρ : Nat → Nat) (hρ : ∀ i, ρ (ρ i) = i) (cs : List (Nat × Bool))
    (m : Mat2 R) (t : Nat) (ψ : State R) :
    applyMcu (cs.map (fun cv => (ρ cv.1, cv.2))) m (ρ t) ψ
      = relab ρ (applyMcu cs m t (relab ρ ψ)) := by
  funext b
  have hc : ctrlOk (cs.map (fun cv => (ρ cv.1, cv.2))) b = ctrlOk cs (fun i => b (ρ i)) := by
    simp [ctrlOk, List.all_map, Function.comp_def]
  show applyMcu _ m (ρ t) ψ b = applyMcu cs m t (relab ρ ψ) (fun i => b (ρ i))
  unfold applyMcu
  rw [hc]
  have e : ∀ v, relab ρ ψ (setBit (fun i => b (ρ i)) t v) = ψ (setBit b (ρ t) v) := by
    intro v
    show ψ (fun i => setBit (fun j => b (ρ j)) t v (ρ i)) = _
    rw [setBit_comp ρ hρ]
  have e0 : relab ρ ψ (fun i => b (ρ i)) = ψ b := by
    show ψ (fun i => b (ρ (ρ i))) = ψ b
    simp only [hρ]
  simp only [e, e0]

theorem applyRccx_relab (iu : R) (ρ : Nat → Nat) (hρ : ∀ i, ρ (ρ i) = i) (a c t : Nat)
    (ψ : State R) :
    applyRccx iu (ρ a) (ρ c) (ρ t) ψ = relab ρ (applyRccx iu a c t (relab ρ ψ)) := by
  funext b
  show applyRccx iu (ρ a) (ρ c) (ρ t) ψ b = applyRccx iu a c t (relab ρ ψ) (fun i => b (ρ i))
  unfold applyRccx
  have e : ∀ v, relab ρ ψ (setBit (fun i => b (ρ i)) t v) = ψ (setBit b (ρ t) v) := by
    intro v
    show ψ (fun i => setBit (fun j => b (ρ j)) t v (ρ i)) = _
    rw [setBit_comp ρ hρ]
  have e0 : relab ρ ψ (fun i => b (ρ i)) = ψ b := by
    show ψ (fun i => b (ρ (ρ i))) = ψ b
    simp only [hρ]
  simp only [e, e0]

/-- the alphabet of `_mcxvchain` -/
def isRC : SG Θ → Bool
  | .rccx _ _ _ => true
  | .cx _ _ _ => true
  | _ => false

theorem denoteSG_relab (iu : R) (dn : List Nat → List (Amp Θ) → State R → State R)
    (ρ : Nat → Nat) (hρ : ∀ i, ρ (ρ i) = i) (g : SG Θ) (hg : isRC g = true) (ψ : State R) :
    denoteSG iu dn (g.mapWires ρ) ψ = relab ρ (denoteSG iu dn g (relab ρ ψ)) := by
  cases g with
  | rccx a c t => exact applyRccx_relab iu ρ hρ a c t ψ
  | cx c t cv => exact applyMcu_relab ρ hρ [(c, cv)] Mat2.X t ψ
  | _ => exact absurd hg (by simp [isRC])

theorem semSG_relab (iu : R) (dn : List Nat → List (Amp Θ) → State R → State R)
    (ρ : Nat → Nat) (hρ : ∀ i, ρ (ρ i) = i) (gs : List (SG Θ)) (hg : ∀ g ∈ gs, isRC g = true)
    (ψ : State R) :
    semSG iu dn (gs.map (SG.mapWires ρ)) ψ = relab ρ (semSG iu dn gs (relab ρ ψ)) := by
  induction gs generalizing ψ with
  | nil => exact (relab_relab ρ hρ ψ).symm
  | cons g gs ih =>
    rw [List.map_cons, semSG_cons, semSG_cons, ih (fun g' h' => hg g' (List.mem_cons_of_mem _ h')),
      denoteSG_relab iu dn ρ hρ g (hg g (List.mem_cons_self ..)), relab_relab ρ hρ]

theorem applyIf_X (c : Bits → Bool) (t : Nat) (φ : State R) (β : Bits) :
    applyIf c Mat2.X t φ β = φ (if c β then flipBit β t else β) := by
  unfold applyIf
  by_cases h : c β = true
  · rw [if_pos h, if_pos h, ← setBit_not]
    cases hb : β t <;> simp [Mat2.X]
  · rw [if_neg h, if_neg h]

/-- a wire-renamed block that denotes `applyIf c X tgt` is the relabelling
"flip `ρ tgt` iff `c (b ∘ ρ)`" -/
theorem permCirc_of_relab_applyIf (iu : R) (dn : List Nat → List (Amp Θ) → State R → State R)
    (ρ : Nat → Nat) (hρ : ∀ i, ρ (ρ i) = i) (gs : List (SG Θ)) (hg : ∀ g ∈ gs, isRC g = true)
    (c : Bits → Bool) (tgt : Nat)
    (hsem : ∀ ψ : State R, semSG iu dn gs ψ = applyIf c Mat2.X tgt ψ) :
    PermCirc iu dn (gs.map (SG.mapWires ρ))
      (fun b => if c (fun i => b (ρ i)) then flipBit b (ρ tgt) else b) := by
  intro ψ b
  rw [semSG_relab iu dn ρ hρ gs hg, hsem]
  show applyIf c Mat2.X tgt (relab ρ ψ) (fun i => b (ρ i)) = _
  rw [applyIf_X]
  show _ = ψ (if c (fun i => b (ρ i)) = true then flipBit b (ρ tgt) else b)
  by_cases h : c (fun i => b (ρ i)) = true
  · rw [if_pos h, if_pos h]
    show ψ (fun i => flipBit (fun j => b (ρ j)) tgt (ρ i)) = _
    rw [flipBit_comp ρ hρ]
  · rw [if_neg h, if_neg h]
    show ψ (fun i => b (ρ (ρ i))) = ψ b
    simp only [hρ]

end
end Qclib.Sparse
