import Mathlib.Tactic.FieldSimp
import QclibModel.Proofs.EntangleAlg
/-
  C20 — Meyer–Wallach: closed form, range, zero ⇔ pure marginals ⇔ proportional slices,
  product states.
-/
namespace Qclib.Ent
open Finset Complex

/-- `mwValue = 2·(1 − (1/n)·Σ_k Tr ρ_k²)` on unit vectors. -/
theorem mwValue_eq_purity {n : ℕ} (hn : 0 < n) (ψ : ℕ → ℂ) (h1 : nrm2 (2 ^ n) ψ = 1) :
    mwValue n ψ = 2 * (1 - (1 / (n : ℝ)) * ∑ k ∈ range n, purity n ψ k) := by
  have hp : ∑ k ∈ range n, purity n ψ k
      = (n : ℝ) - 2 * ∑ k ∈ range n, crossSum (2 ^ (n - 1)) (slice ψ k false) (slice ψ k true) := by
    rw [sum_congr rfl (fun k hk => purity_eq (mem_range.mp hk) ψ h1), sum_sub_distrib, ← mul_sum]
    simp
  have hn' : (n : ℝ) ≠ 0 := by exact_mod_cast hn.ne'
  unfold mwValue
  rw [hp]
  field_simp
  ring

theorem mwValue_nonneg (n : ℕ) (ψ : ℕ → ℂ) : 0 ≤ mwValue n ψ := by
  unfold mwValue
  apply mul_nonneg
  · exact sum_nonneg fun _ _ => crossSum_nonneg _ _ _
  · positivity

theorem mwValue_le_one {n : ℕ} (hn : 0 < n) (ψ : ℕ → ℂ) (h1 : nrm2 (2 ^ n) ψ = 1) :
    mwValue n ψ ≤ 1 := by
  have hn' : (0 : ℝ) < n := by exact_mod_cast hn
  have hs : ∑ k ∈ range n, crossSum (2 ^ (n - 1)) (slice ψ k false) (slice ψ k true)
      ≤ ∑ _k ∈ range n, (1 / 4 : ℝ) :=
    sum_le_sum fun k hk => crossSum_le_quarter (mem_range.mp hk) ψ h1
  rw [sum_const, card_range, nsmul_eq_mul] at hs
  unfold mwValue
  calc _ ≤ ((n : ℝ) * (1 / 4)) * (4 / n) := by
        apply mul_le_mul_of_nonneg_right hs; positivity
    _ = 1 := by field_simp

/-- `mwValue = 0` iff every per-qubit cross sum vanishes. -/
theorem mwValue_eq_zero_iff {n : ℕ} (hn : 0 < n) (ψ : ℕ → ℂ) :
    mwValue n ψ = 0 ↔ ∀ k, k < n → crossSum (2 ^ (n - 1)) (slice ψ k false) (slice ψ k true) = 0 := by
  have hn' : (4 / (n : ℝ)) ≠ 0 := by
    have : (0 : ℝ) < n := by exact_mod_cast hn
    positivity
  unfold mwValue
  rw [mul_eq_zero, or_iff_left hn', sum_eq_zero_iff_of_nonneg (fun _ _ => crossSum_nonneg _ _ _)]
  simp only [mem_range]

/-- The cross sum vanishes iff all 2×2 minors vanish. -/
theorem crossSum_eq_zero_iff (m : ℕ) (u v : ℕ → ℂ) :
    crossSum m u v = 0 ↔ ∀ i j, i < m → j < m → u i * v j = u j * v i := by
  unfold crossSum
  rw [sum_eq_zero_iff_of_nonneg (fun _ _ => sum_nonneg fun _ _ => normSq_nonneg _)]
  constructor
  · intro h
    have hlt : ∀ i j, i < j → j < m → u i * v j = u j * v i := by
      intro i j hij hj
      have := h j (mem_range.mpr hj)
      rw [sum_eq_zero_iff_of_nonneg (fun _ _ => normSq_nonneg _)] at this
      have := this i (mem_range.mpr hij)
      rw [normSq_eq_zero] at this
      exact sub_eq_zero.mp this
    intro i j hi hj
    rcases Nat.lt_trichotomy i j with hij | hij | hij
    · exact hlt i j hij hj
    · subst hij; rfl
    · exact (hlt j i hij hi).symm
  · intro h j hj
    rw [sum_eq_zero_iff_of_nonneg (fun _ _ => normSq_nonneg _)]
    intro i hi
    have hj' := mem_range.mp hj
    have hi' := mem_range.mp hi
    rw [normSq_eq_zero, h i j (by omega) hj']; ring

/-- All minors vanish iff the two vectors are proportional. -/
theorem crossSum_eq_zero_iff_proportional (m : ℕ) (u v : ℕ → ℂ) :
    crossSum m u v = 0 ↔ Proportional m u v := by
  rw [crossSum_eq_zero_iff]
  constructor
  · intro h
    by_cases hv : ∃ j, j < m ∧ v j ≠ 0
    · obtain ⟨j, hj, hvj⟩ := hv
      exact ⟨v j, u j, Or.inl hvj, fun i hi => by rw [mul_comm, h i j hi hj]⟩
    · refine ⟨0, 1, Or.inr one_ne_zero, fun i hi => ?_⟩
      have : v i = 0 := by
        by_contra hne; exact hv ⟨i, hi, hne⟩
      simp [this]
  · rintro ⟨a, b, hab, h⟩ i j hi hj
    rcases hab with ha | hb
    · apply mul_left_cancel₀ ha
      calc a * (u i * v j) = (a * u i) * v j := by ring
        _ = (b * v i) * v j := by rw [h i hi]
        _ = (b * v j) * v i := by ring
        _ = (a * u j) * v i := by rw [h j hj]
        _ = a * (u j * v i) := by ring
    · apply mul_left_cancel₀ hb
      calc b * (u i * v j) = u i * (b * v j) := by ring
        _ = u i * (a * u j) := by rw [h j hj]
        _ = u j * (a * u i) := by ring
        _ = u j * (b * v i) := by rw [h i hi]
        _ = b * (u j * v i) := by ring

/-- Slices of a product state factor through the acted qubit. -/
theorem slice_prodState {n k : ℕ} (hk : k < n) (f : ℕ → Bool → ℂ) (c : Bool) (r : ℕ) :
    slice (prodState n f) k c r
      = f k c * ∏ i ∈ (range n).erase k,
          f i (if i < k then r.testBit i else r.testBit (i - 1)) := by
  unfold slice prodState
  rw [← mul_prod_erase (range n) _ (mem_range.mpr hk), testBit_insBit_self]
  congr 1
  apply prod_congr rfl
  intro i hi
  have hik : i ≠ k := (mem_erase.mp hi).1
  rw [testBit_insBit]
  simp [hik]

theorem crossSum_prodState {n k : ℕ} (hk : k < n) (f : ℕ → Bool → ℂ) :
    crossSum (2 ^ (n - 1)) (slice (prodState n f) k false) (slice (prodState n f) k true) = 0 := by
  rw [crossSum_eq_zero_iff]
  intro i j _ _
  rw [slice_prodState hk, slice_prodState hk, slice_prodState hk, slice_prodState hk]
  ring

end Qclib.Ent
