import QclibModel.Proofs.TreeRoute
import Mathlib.Tactic.Ring
/-
  Finite sums over all assignments of a list of wires (`sumOver`), for amplitude functions
  `Bits → K` over a commutative ring:

  * unfolding, append, congruence, linearity, pulling out independent factors
  * the sum does not depend on the values of the summed wires (`sumOver_setBit_mem`,
    `sumOver_agree`); duplicates in the wire list are allowed everywhere
  * Fubini: the sum is invariant under permutations of the wire list (`sumOver_perm`)
  * change of variables along `swapBits` / `swapPairs` (`sumOver_swapBits`, `sumOver_swapPairs`)
    with the induced wire renamings `swapWire` / `pairsWire`.
-/
namespace Qclib

section
variable {K : Type} [CommRing K]

/-- Sum of `f` over all assignments of the wires in `ws` (the other wires as in `b`). -/
def sumOver (ws : List Nat) (f : Bits → K) (b : Bits) : K :=
  match ws with
  | [] => f b
  | w :: ws => sumOver ws f (setBit b w false) + sumOver ws f (setBit b w true)

/-! ### 1. Unfolding -/

theorem sumOver_nil (f : Bits → K) (b : Bits) : sumOver [] f b = f b := rfl

theorem sumOver_cons (w : Nat) (ws : List Nat) (f : Bits → K) (b : Bits) :
    sumOver (w :: ws) f b
      = sumOver ws f (setBit b w false) + sumOver ws f (setBit b w true) := rfl

/-! ### 2. Append -/

theorem sumOver_append (ws1 ws2 : List Nat) (f : Bits → K) (b : Bits) :
    sumOver (ws1 ++ ws2) f b = sumOver ws1 (sumOver ws2 f) b := by
  induction ws1 generalizing b with
  | nil => rfl
  | cons w ws ih => rw [List.cons_append, sumOver_cons, sumOver_cons, ih, ih]

/-! ### 3. Congruence -/

theorem sumOver_congr (ws : List Nat) (f g : Bits → K) (h : ∀ b, f b = g b) (b : Bits) :
    sumOver ws f b = sumOver ws g b := by
  have : f = g := funext h
  rw [this]

/-! ### 4. Linearity -/

theorem sumOver_add (ws : List Nat) (f g : Bits → K) (b : Bits) :
    sumOver ws (fun b => f b + g b) b = sumOver ws f b + sumOver ws g b := by
  induction ws generalizing b with
  | nil => rfl
  | cons w ws ih =>
    simp only [sumOver_cons, ih]
    ring

theorem sumOver_const_mul (ws : List Nat) (c : K) (f : Bits → K) (b : Bits) :
    sumOver ws (fun b => c * f b) b = c * sumOver ws f b := by
  induction ws generalizing b with
  | nil => rfl
  | cons w ws ih =>
    simp only [sumOver_cons, ih]
    ring

theorem sumOver_mul_const (ws : List Nat) (c : K) (f : Bits → K) (b : Bits) :
    sumOver ws (fun b => f b * c) b = sumOver ws f b * c := by
  induction ws generalizing b with
  | nil => rfl
  | cons w ws ih =>
    simp only [sumOver_cons, ih]
    ring

theorem sumOver_zero (ws : List Nat) (b : Bits) :
    sumOver ws (fun _ => (0 : K)) b = 0 := by
  induction ws generalizing b with
  | nil => rfl
  | cons w ws ih => simp only [sumOver_cons, ih, add_zero]

theorem sumOver_neg (ws : List Nat) (f : Bits → K) (b : Bits) :
    sumOver ws (fun b => - f b) b = - sumOver ws f b := by
  induction ws generalizing b with
  | nil => rfl
  | cons w ws ih =>
    simp only [sumOver_cons, ih]
    ring

/-! ### 5. Pulling out a factor that does not depend on the summed wires -/

theorem sumOver_mul_left (ws : List Nat) (g f : Bits → K)
    (hg : ∀ b w v, w ∈ ws → g (setBit b w v) = g b) (b : Bits) :
    sumOver ws (fun b => g b * f b) b = g b * sumOver ws f b := by
  induction ws generalizing b with
  | nil => rfl
  | cons w ws ih =>
    have hg' : ∀ b w' v, w' ∈ ws → g (setBit b w' v) = g b :=
      fun b w' v hw' => hg b w' v (List.mem_cons_of_mem _ hw')
    simp only [sumOver_cons]
    rw [ih hg', ih hg', hg b w false (List.mem_cons_self ..), hg b w true (List.mem_cons_self ..)]
    ring

theorem sumOver_mul_right (ws : List Nat) (f g : Bits → K)
    (hg : ∀ b w v, w ∈ ws → g (setBit b w v) = g b) (b : Bits) :
    sumOver ws (fun b => f b * g b) b = sumOver ws f b * g b := by
  rw [sumOver_congr ws (fun b => f b * g b) (fun b => g b * f b) (fun b => mul_comm _ _),
    sumOver_mul_left ws g f hg, mul_comm]

/-! ### 6, 7. Only the non-summed wires of the label matter (duplicates allowed) -/

theorem sumOver_agree (ws : List Nat) (f : Bits → K) (b b' : Bits)
    (h : ∀ i, i ∉ ws → b i = b' i) : sumOver ws f b = sumOver ws f b' := by
  induction ws generalizing b b' with
  | nil =>
    have : b = b' := funext fun i => h i (by simp)
    rw [this]
  | cons w ws ih =>
    have key : ∀ v : Bool, ∀ i, i ∉ ws → setBit b w v i = setBit b' w v i := by
      intro v i hi
      by_cases hiw : i = w
      · subst hiw; rw [setBit_eq, setBit_eq]
      · rw [setBit_ne _ _ hiw, setBit_ne _ _ hiw]
        exact h i (by simp [hiw, hi])
    rw [sumOver_cons, sumOver_cons, ih _ _ (key false), ih _ _ (key true)]

theorem sumOver_setBit_mem (ws : List Nat) (f : Bits → K) (b : Bits) (w : Nat) (v : Bool)
    (hw : w ∈ ws) : sumOver ws f (setBit b w v) = sumOver ws f b := by
  apply sumOver_agree
  intro i hi
  have : i ≠ w := fun e => hi (e ▸ hw)
  exact setBit_ne _ _ this

/-- Setting several summed wires does not change the sum either. -/
theorem sumOver_clr (ws : List Nat) (f : Bits → K) (b : Bits) :
    sumOver ws f (clr ws b) = sumOver ws f b := by
  apply sumOver_agree
  intro i hi
  simp [clr, hi]

/-! ### 8. Fubini -/

theorem sumOver_swap (x y : Nat) (ws : List Nat) (f : Bits → K) (b : Bits) :
    sumOver (y :: x :: ws) f b = sumOver (x :: y :: ws) f b := by
  simp only [sumOver_cons]
  by_cases h : x = y
  · subst h
    simp only [setBit_setBit]
  · have h' : y ≠ x := fun e => h e.symm
    rw [setBit_comm b false false h', setBit_comm b false true h', setBit_comm b true false h',
      setBit_comm b true true h']
    ring

theorem sumOver_perm (ws ws' : List Nat) (h : ws.Perm ws') (f : Bits → K) (b : Bits) :
    sumOver ws f b = sumOver ws' f b := by
  induction h generalizing b with
  | nil => rfl
  | cons x _ ih => rw [sumOver_cons, sumOver_cons, ih, ih]
  | swap x y l => exact sumOver_swap x y l f b
  | trans _ _ ih1 ih2 => rw [ih1, ih2]

end

/-! ### 9. Renaming one wire pair -/

/-- The transposition of the wires `x` and `y`. -/
def swapWire (x y w : Nat) : Nat := if w = x then y else if w = y then x else w

theorem swapWire_left (x y : Nat) : swapWire x y x = y := by simp [swapWire]

theorem swapWire_right (x y : Nat) : swapWire x y y = x := by
  by_cases h : y = x <;> simp [swapWire, h]

theorem swapWire_other (x y : Nat) {w : Nat} (hx : w ≠ x) (hy : w ≠ y) : swapWire x y w = w := by
  simp [swapWire, hx, hy]

theorem swapWire_invol (x y w : Nat) : swapWire x y (swapWire x y w) = w := by
  by_cases hx : w = x
  · subst hx; rw [swapWire_left, swapWire_right]
  · by_cases hy : w = y
    · subst hy; rw [swapWire_right, swapWire_left]
    · rw [swapWire_other x y hx hy, swapWire_other x y hx hy]

/-- `swapBits` is precomposition with `swapWire`. -/
theorem swapBits_apply (x y : Nat) (b : Bits) (i : Nat) :
    swapBits x y b i = b (swapWire x y i) := by
  by_cases hx : i = x
  · subst hx; rw [swapBits_left, swapWire_left]
  · by_cases hy : i = y
    · subst hy; rw [swapBits_right, swapWire_right]
    · rw [swapBits_other_tr _ _ _ hx hy, swapWire_other x y hx hy]

/-- Holds for all `x`, `y` (also `x = y`, where both `swapBits x x` and `swapWire x x` are the
identity). -/
theorem swapBits_setBit (x y w : Nat) (v : Bool) (b : Bits) :
    swapBits x y (setBit b w v) = setBit (swapBits x y b) (swapWire x y w) v := by
  funext i
  rw [swapBits_apply]
  by_cases h : i = swapWire x y w
  · subst h; rw [swapWire_invol, setBit_eq, setBit_eq]
  · have h' : swapWire x y i ≠ w := fun e => h (by rw [← e, swapWire_invol])
    rw [setBit_ne _ _ h', setBit_ne _ _ h, swapBits_apply]

section
variable {K : Type} [CommRing K]

/-- Change of variables along a wire swap; no hypothesis on `x`, `y` needed. -/
theorem sumOver_swapBits' (x y : Nat) (ws : List Nat) (f : Bits → K) (b : Bits) :
    sumOver ws (fun b => f (swapBits x y b)) b
      = sumOver (ws.map (swapWire x y)) f (swapBits x y b) := by
  induction ws generalizing b with
  | nil => rfl
  | cons w ws ih =>
    rw [List.map_cons, sumOver_cons, sumOver_cons, ih, ih, swapBits_setBit, swapBits_setBit]

theorem sumOver_swapBits (x y : Nat) (_hxy : x ≠ y) (ws : List Nat) (f : Bits → K) (b : Bits) :
    sumOver ws (fun b => f (swapBits x y b)) b
      = sumOver (ws.map (swapWire x y)) f (swapBits x y b) :=
  sumOver_swapBits' x y ws f b

end

/-! ### 10. Renaming along a list of wire pairs -/

/-- The wire renaming induced by `swapPairs` (last pair first, like `swapPairs`). -/
def pairsWire : List (Nat × Nat) → Nat → Nat
  | [], w => w
  | (x, y) :: ps, w => swapWire x y (pairsWire ps w)

theorem pairsWire_nil (w : Nat) : pairsWire [] w = w := rfl

theorem pairsWire_cons (x y : Nat) (ps : List (Nat × Nat)) (w : Nat) :
    pairsWire ((x, y) :: ps) w = swapWire x y (pairsWire ps w) := rfl

section
variable {K : Type} [CommRing K]

/-- Change of variables along `swapPairs`; no hypothesis on the pairs needed. -/
theorem sumOver_swapPairs' (ps : List (Nat × Nat)) (ws : List Nat) (f : Bits → K) (b : Bits) :
    sumOver ws (fun b => f (swapPairs ps b)) b
      = sumOver (ws.map (pairsWire ps)) f (swapPairs ps b) := by
  induction ps generalizing f with
  | nil =>
    have : (pairsWire []) = id := rfl
    rw [this, List.map_id]
    rfl
  | cons p ps ih =>
    obtain ⟨x, y⟩ := p
    have hm : ws.map (pairsWire ((x, y) :: ps)) = (ws.map (pairsWire ps)).map (swapWire x y) := by
      rw [List.map_map]; rfl
    rw [hm, swapPairs_cons, ← sumOver_swapBits' x y]
    exact ih (fun b => f (swapBits x y b))

theorem sumOver_swapPairs (ps : List (Nat × Nat)) (_hne : ∀ p ∈ ps, p.1 ≠ p.2) (ws : List Nat)
    (f : Bits → K) (b : Bits) :
    sumOver ws (fun b => f (swapPairs ps b)) b
      = sumOver (ws.map (pairsWire ps)) f (swapPairs ps b) :=
  sumOver_swapPairs' ps ws f b

end

theorem pairsWire_other (ps : List (Nat × Nat)) (w : Nat)
    (hw : ∀ p ∈ ps, p.1 ≠ w ∧ p.2 ≠ w) : pairsWire ps w = w := by
  induction ps with
  | nil => rfl
  | cons p ps ih =>
    obtain ⟨x, y⟩ := p
    have h0 := hw (x, y) (List.mem_cons_self ..)
    rw [pairsWire_cons, ih (fun p hp => hw p (List.mem_cons_of_mem _ hp))]
    exact swapWire_other x y (Ne.symm h0.1) (Ne.symm h0.2)

theorem pairsWire_fst (ps : List (Nat × Nat)) (hnd : PairsNodup ps) :
    ∀ p ∈ ps, pairsWire ps p.1 = p.2 := by
  induction ps with
  | nil => intro p hp; cases hp
  | cons q ps ih =>
    obtain ⟨x, y⟩ := q
    obtain ⟨_, hdis, hnd'⟩ := hnd.cons
    intro p hp
    rw [pairsWire_cons]
    rcases List.mem_cons.1 hp with rfl | hp
    · rw [pairsWire_other ps x (fun p hp => (hdis p hp).1)]
      exact swapWire_left x y
    · rw [ih hnd' p hp]
      exact swapWire_other x y (hdis p hp).1.2 (hdis p hp).2.2

theorem pairsWire_snd (ps : List (Nat × Nat)) (hnd : PairsNodup ps) :
    ∀ p ∈ ps, pairsWire ps p.2 = p.1 := by
  induction ps with
  | nil => intro p hp; cases hp
  | cons q ps ih =>
    obtain ⟨x, y⟩ := q
    obtain ⟨_, hdis, hnd'⟩ := hnd.cons
    intro p hp
    rw [pairsWire_cons]
    rcases List.mem_cons.1 hp with rfl | hp
    · rw [pairsWire_other ps y (fun p hp => (hdis p hp).2)]
      exact swapWire_right x y
    · rw [ih hnd' p hp]
      exact swapWire_other x y (hdis p hp).1.1 (hdis p hp).2.1

/-- A wire outside all pairs is fixed by the renaming and keeps its value under `swapPairs`. -/
theorem swapPairs_other_of_pairsWire (ps : List (Nat × Nat)) (b : Bits) (w : Nat)
    (hw : ∀ p ∈ ps, p.1 ≠ w ∧ p.2 ≠ w) : swapPairs ps b (pairsWire ps w) = b w := by
  rw [pairsWire_other ps w hw, swapPairs_other ps b w hw]

#print axioms sumOver_swapPairs
#print axioms sumOver_perm

end Qclib
