import QclibModel.Proofs.SparseMergeTotalA
/-
  C06 — whole-circuit theorem for `MergeInitialize`, part B: the gates emitted by
  `_preprocess_states` are exactly the recorded key operations; the `merge` dictionary update; the
  merge gate takes the state of the merged dictionary to the state of the unmerged one.
-/
namespace Qclib.Sparse.Mrg
open Qclib

/-! ### `_preprocess_states`: gates ↔ key operations -/

/-- `st` is `st0` relabelled by the allowed operations `ops`, and the gates appended to the
circuit are those of `ops`, in order. -/
structure Trk (n dif : Nat) (st0 st : MSt ℝ) (ops : List KOp) : Prop where
  rel : Rel st0 st ops
  ok : OkOps n dif ops
  gates : st.gates = st0.gates ++ ops.map KOp.mergeSG

theorem Trk.refl (n dif : Nat) (st0 : MSt ℝ) : Trk n dif st0 st0 [] :=
  ⟨⟨rfl, rfl, (mapKeys_id _).symm⟩, by intro o ho; simp at ho, by simp⟩

theorem Trk.applyX {n dif : Nat} {st0 st : MSt ℝ} {ops : List KOp} (h : Trk n dif st0 st ops)
    (q : Nat) (hq : q < n) : Trk n dif st0 (applyX st q) (ops ++ [KOp.x q]) := by
  refine ⟨h.rel.applyX q, h.ok.snoc (show (KOp.x q).ok n dif from hq), ?_⟩
  show st.gates ++ [SG.x q] = _
  rw [h.gates, List.map_append, List.append_assoc]; rfl

theorem Trk.applyCx {n dif : Nat} {st0 st : MSt ℝ} {ops : List KOp} (h : Trk n dif st0 st ops)
    (t : Nat) (htd : t ≠ dif) (ht : t < n) :
    Trk n dif st0 (applyCx st dif t) (ops ++ [KOp.cx dif t]) := by
  refine ⟨h.rel.applyCx dif t, h.ok.snoc (show (KOp.cx dif t).ok n dif from ⟨rfl, htd, ht⟩), ?_⟩
  show st.gates ++ [SG.cx dif t true] = _
  rw [h.gates, List.map_append, List.append_assoc]; rfl

theorem trk_equalize_fold (n dif : Nat) (st0 : MSt ℝ) (idxs : List Nat) (hd : dif ∉ idxs)
    (hn : ∀ b ∈ idxs, b < n) (st : MSt ℝ) (ops : List KOp) (h : Trk n dif st0 st ops) :
    ∃ ops', Trk n dif st0 (idxs.foldl
      (fun st b => if bitAt st.b1 b != bitAt st.b2 b then applyCx st dif b else st) st) ops' := by
  induction idxs generalizing st ops with
  | nil => exact ⟨ops, h⟩
  | cons b rest ih =>
    have hbd : b ≠ dif := fun e => hd (e ▸ List.mem_cons_self)
    have hbn : b < n := hn b List.mem_cons_self
    have hd' : dif ∉ rest := fun h => hd (List.mem_cons_of_mem _ h)
    have hn' : ∀ b ∈ rest, b < n := fun x hx => hn x (List.mem_cons_of_mem _ hx)
    simp only [List.foldl_cons]
    split
    · exact ih hd' hn' _ _ (h.applyCx b hbd hbn)
    · exact ih hd' hn' _ _ h

theorem trk_nots_fold (n dif : Nat) (st0 : MSt ℝ) (dq : List Nat)
    (hn : ∀ b ∈ dq, b < n) (st : MSt ℝ) (ops : List KOp) (h : Trk n dif st0 st ops) :
    ∃ ops', Trk n dif st0 (dq.foldl
      (fun st b => if bitAt st.b2 b != true then applyX st b else st) st) ops' := by
  induction dq generalizing st ops with
  | nil => exact ⟨ops, h⟩
  | cons b rest ih =>
    have hbn : b < n := hn b List.mem_cons_self
    have hn' : ∀ b ∈ rest, b < n := fun x hx => hn x (List.mem_cons_of_mem _ hx)
    simp only [List.foldl_cons]
    split
    · exact ih hn' _ _ (h.applyX b hbn)
    · exact ih hn' _ _ h

/-- `_preprocess_states` appends exactly the gates of the key operations it records. -/
theorem trk_preprocess (n dif : Nat) (dq : List Nat) (st0 : MSt ℝ) (hl1 : st0.b1.length = n)
    (hdn : dif < n) (hqn : ∀ q ∈ dq, q < n) :
    ∃ ops, Trk n dif st0 (preprocess st0 dif dq) ops := by
  obtain ⟨st1, ops1, hst1, h1⟩ :
      ∃ st1 ops1, st1 = (if bitAt st0.b1 dif != true then applyX st0 dif else st0) ∧
        Trk n dif st0 st1 ops1 := by
    by_cases h : (bitAt st0.b1 dif != true) = true
    · exact ⟨_, _, by rw [if_pos h], (Trk.refl n dif st0).applyX dif hdn⟩
    · exact ⟨_, _, by rw [if_neg h], Trk.refl n dif st0⟩
  have hlen1 : st1.b1.length = n := by
    rw [h1.rel.1]; exact applyOps_length n dif ops1 h1.ok _ hl1
  have hidx_d : dif ∉ (List.range st1.b1.length).erase dif :=
    fun h => (List.Nodup.mem_erase_iff List.nodup_range).mp h |>.1 rfl
  have hidx_n : ∀ b ∈ (List.range st1.b1.length).erase dif, b < n := by
    intro b hb
    have := List.mem_of_mem_erase hb
    rw [List.mem_range, hlen1] at this; exact this
  obtain ⟨ops2, h2⟩ := trk_equalize_fold n dif st0 _ hidx_d hidx_n st1 ops1 h1
  obtain ⟨ops3, h3⟩ := trk_nots_fold n dif st0 dq hqn _ ops2 h2
  have hpre : preprocess st0 dif dq = applyNots (equalize st1 dif) dq := by
    unfold preprocess; rw [hst1]
  rw [hpre]
  exact ⟨ops3, h3⟩

/-! ### the `merge` dictionary update -/

theorem mergeUpdate_cons (kv : Str × Amp ℝ) (d : Dict ℝ) (p1 p2 : Str) (N : ℝ) :
    mergeUpdate (kv :: d) p1 p2 N =
      if kv.1 = p2 then mergeUpdate d p1 p2 N
      else (if kv.1 = p1 then (kv.1, (⟨N, 0, false⟩ : Amp ℝ)) else kv) :: mergeUpdate d p1 p2 N := by
  unfold mergeUpdate
  rw [List.filter_cons]
  by_cases h : kv.1 = p2
  · have e : (kv.1 != p2) = false := by simp [h]
    rw [e, if_pos h]; rfl
  · have e : (kv.1 != p2) = true := by simpa using h
    rw [e, if_pos rfl, if_neg h, List.map_cons]
    by_cases h' : kv.1 = p1
    · have e' : (kv.1 == p1) = true := by simpa using h'
      rw [if_pos e', if_pos h']; rfl
    · have e' : ¬ (kv.1 == p1) = true := by simpa using h'
      rw [if_neg e', if_neg h']

/-- lookups after `pop(bitstr2); d[bitstr1] = norm` -/
theorem lookup_mergeUpdate (d : Dict ℝ) (p1 p2 : Str) (N : ℝ) (hne : p1 ≠ p2) (k : Str) :
    (mergeUpdate d p1 p2 N).lookup k =
      if k = p2 then none
      else if k = p1 then (d.lookup p1).map (fun _ => (⟨N, 0, false⟩ : Amp ℝ))
      else d.lookup k := by
  induction d with
  | nil => simp [mergeUpdate, lookup_nil]
  | cons kv d ih =>
    rw [mergeUpdate_cons]
    by_cases h2 : kv.1 = p2
    · rw [if_pos h2, ih]
      by_cases k2 : k = p2
      · simp [k2]
      · have e1 : ¬ kv.1 = k := fun e => k2 (e.symm.trans h2)
        have e2 : ¬ kv.1 = p1 := fun e => hne (e.symm.trans h2)
        simp only [k2, if_false, lookup_cons, e1, e2]
    · rw [if_neg h2]
      by_cases h1 : kv.1 = p1
      · rw [if_pos h1, lookup_cons, ih]
        by_cases k2 : k = p2
        · simp [k2, h2]
        · by_cases k1 : k = p1
          · simp [k1, h1, lookup_cons, hne]
          · have : ¬ kv.1 = k := fun e => k1 (e.symm.trans h1)
            simp [k1, k2, this, lookup_cons]
      · rw [if_neg h1, lookup_cons, ih]
        by_cases k2 : k = p2
        · simp [k2, h2]
        · by_cases k1 : k = p1
          · have : ¬ kv.1 = k := fun e => h1 (e.trans k1)
            simp [k1, hne, h1, lookup_cons]
          · simp [k1, k2, lookup_cons]

theorem keys_mergeUpdate (d : Dict ℝ) (p1 p2 : Str) (N : ℝ) :
    (mergeUpdate d p1 p2 N).keys = d.keys.filter (fun k => k != p2) := by
  induction d with
  | nil => rfl
  | cons kv d ih =>
    rw [mergeUpdate_cons, keys_cons, List.filter_cons]
    by_cases h2 : kv.1 = p2
    · simp [h2, ih]
    · have : (kv.1 != p2) = true := by simpa using h2
      rw [if_neg h2, this, if_pos rfl, keys_cons, ih]
      by_cases h1 : kv.1 = p1 <;> simp [h1]

theorem mem_mergeUpdate (d : Dict ℝ) (p1 p2 : Str) (N : ℝ) (kv : Str × Amp ℝ)
    (h : kv ∈ mergeUpdate d p1 p2 N) : kv ∈ d ∨ kv = (p1, (⟨N, 0, false⟩ : Amp ℝ)) := by
  induction d with
  | nil => simp [mergeUpdate] at h
  | cons kv0 d ih =>
    rw [mergeUpdate_cons] at h
    by_cases h2 : kv0.1 = p2
    · rw [if_pos h2] at h
      rcases ih h with h | h
      · exact Or.inl (List.mem_cons_of_mem _ h)
      · exact Or.inr h
    · rw [if_neg h2, List.mem_cons] at h
      rcases h with h | h
      · by_cases h1 : kv0.1 = p1
        · rw [if_pos h1, h1] at h; exact Or.inr h
        · rw [if_neg h1] at h; rw [h]; exact Or.inl List.mem_cons_self
      · rcases ih h with h | h
        · exact Or.inl (List.mem_cons_of_mem _ h)
        · exact Or.inr h

theorem length_mergeUpdate (d : Dict ℝ) (p1 p2 : Str) (N : ℝ) (hnd : d.keys.Nodup)
    (hp2 : p2 ∈ d.keys) : (mergeUpdate d p1 p2 N).length + 1 = d.length := by
  have e1 : (mergeUpdate d p1 p2 N).length = (mergeUpdate d p1 p2 N).keys.length := by
    simp [Dict.keys]
  have e2 : d.length = d.keys.length := by simp [Dict.keys]
  rw [e1, e2, keys_mergeUpdate, ← hnd.erase_eq_filter, List.length_erase_of_mem hp2]
  have : 0 < d.keys.length := List.length_pos_of_mem hp2
  omega

/-! ### squared norm of a dictionary -/

/-- `|a|²` -/
def _root_.Qclib.Sparse.Amp.absSq (a : Amp ℝ) : ℝ := a.re * a.re + a.im * a.im

/-- `Σ_k |a_k|²` -/
def dictSq (d : Dict ℝ) : ℝ := (d.map (fun kv => kv.2.absSq)).sum

def sqOf (d : Dict ℝ) (k : Str) : ℝ :=
  match d.lookup k with
  | some a => a.absSq
  | none => 0

theorem dictSq_cons (kv : Str × Amp ℝ) (d : Dict ℝ) : dictSq (kv :: d) = kv.2.absSq + dictSq d := by
  simp [dictSq]

theorem dictSq_mapKeys (f : Str → Str) (d : Dict ℝ) : dictSq (d.mapKeys f) = dictSq d := by
  simp [dictSq, Dict.mapKeys, List.map_map, Function.comp_def]

theorem sqOf_cons (kv : Str × Amp ℝ) (d : Dict ℝ) (k : Str) :
    sqOf (kv :: d) k = if kv.1 = k then kv.2.absSq else sqOf d k := by
  unfold sqOf; rw [lookup_cons]; by_cases h : kv.1 = k <;> simp [h]

theorem sqOf_not_mem (d : Dict ℝ) (k : Str) (h : k ∉ d.keys) : sqOf d k = 0 := by
  unfold sqOf; rw [lookup_none_of_not_mem d k h]

theorem dictSq_mergeUpdate_aux (d : Dict ℝ) (p1 p2 : Str) (N : ℝ) (hne : p1 ≠ p2)
    (hnd : d.keys.Nodup) :
    dictSq (mergeUpdate d p1 p2 N) + sqOf d p1 + sqOf d p2
      = dictSq d + (if p1 ∈ d.keys then N * N else 0) := by
  induction d with
  | nil => simp [mergeUpdate, dictSq, sqOf, lookup_nil, Dict.keys]
  | cons kv d ih =>
    rw [keys_cons, List.nodup_cons] at hnd
    have ih' := ih hnd.2
    rw [mergeUpdate_cons, sqOf_cons, sqOf_cons, dictSq_cons, keys_cons]
    by_cases h2 : kv.1 = p2
    · have e1 : ¬ kv.1 = p1 := fun e => hne (e.symm.trans h2)
      have z : sqOf d p2 = 0 := sqOf_not_mem d p2 (h2 ▸ hnd.1)
      have m : (p1 ∈ kv.1 :: Dict.keys d) ↔ p1 ∈ Dict.keys d := by
        rw [List.mem_cons]; constructor
        · rintro (h | h)
          · exact absurd h.symm e1
          · exact h
        · exact Or.inr
      rw [if_pos h2, if_neg e1, if_pos h2]
      simp only [m]
      rw [z] at ih'
      linarith
    · rw [if_neg h2, if_neg h2, dictSq_cons]
      by_cases h1 : kv.1 = p1
      · have z : sqOf d p1 = 0 := sqOf_not_mem d p1 (h1 ▸ hnd.1)
        have nm : p1 ∉ Dict.keys d := h1 ▸ hnd.1
        have m : p1 ∈ kv.1 :: Dict.keys d := by rw [h1]; exact List.mem_cons_self
        rw [if_pos h1, if_pos h1, if_pos m]
        rw [z, if_neg nm] at ih'
        have : (⟨N, 0, false⟩ : Amp ℝ).absSq = N * N := by simp [Amp.absSq]
        rw [this]
        linarith
      · have m : (p1 ∈ kv.1 :: Dict.keys d) ↔ p1 ∈ Dict.keys d := by
          rw [List.mem_cons]; constructor
          · rintro (h | h)
            · exact absurd h.symm h1
            · exact h
          · exact Or.inr
        rw [if_neg h1, if_neg h1]
        simp only [m]
        linarith

/-- the merge keeps `Σ|a_k|²` when the new amplitude is the norm of the pair -/
theorem dictSq_mergeUpdate (d : Dict ℝ) (p1 p2 : Str) (N : ℝ) (hne : p1 ≠ p2)
    (hnd : d.keys.Nodup) (a1 a2 : Amp ℝ) (hl1 : d.lookup p1 = some a1) (hl2 : d.lookup p2 = some a2)
    (hN : N * N = a1.absSq + a2.absSq) : dictSq (mergeUpdate d p1 p2 N) = dictSq d := by
  have h := dictSq_mergeUpdate_aux d p1 p2 N hne hnd
  have m : p1 ∈ d.keys := mem_keys.mpr ⟨a1, lookup_mem d p1 a1 hl1⟩
  rw [if_pos m] at h
  have s1 : sqOf d p1 = a1.absSq := by unfold sqOf; rw [hl1]
  have s2 : sqOf d p2 = a2.absSq := by unfold sqOf; rw [hl2]
  rw [s1, s2] at h
  linarith

/-! ### the merge gate -/

theorem wireKey_setBit_eq (n : Nat) (b : Bits) (dif : Nat) (v : Bool) (hdn : dif < n) (p : Str)
    (hp : p.length = n) (hpv : bitAt p dif = v) :
    wireKey n (setBit b dif v) = p ↔ ∀ j, j ≠ dif → bitAt (wireKey n b) j = bitAt p j := by
  constructor
  · intro h j hj
    rw [← h, bitAt_wireKey, bitAt_wireKey, setBit_ne b v hj]
  · intro h
    apply eq_of_bitAt _ _ (by rw [wireKey_length, hp])
    intro j
    by_cases hj : j = dif
    · subst hj; rw [bitAt_wireKey, if_pos hdn, setBit_eq, hpv]
    · rw [← h j hj, bitAt_wireKey, bitAt_wireKey, setBit_ne b v hj]

theorem bitAt_wireKey_setBit (n : Nat) (b : Bits) (dif : Nat) (v : Bool) (hdn : dif < n) :
    bitAt (wireKey n (setBit b dif v)) dif = v := by
  rw [bitAt_wireKey, if_pos hdn, setBit_eq]

theorem ofReal_amp (N : ℝ) : (⟨N, 0, false⟩ : Amp ℝ).toC = (N : ℂ) := by
  apply Complex.ext <;> simp [Amp.toC]

/-- **The merge gate on the state of the merged dictionary.**  `dp` is the dictionary after the
preprocessing, `p1`/`p2` the pair (`1`/`0` on `dif`, equal elsewhere), the controls `dq` (all
required `1`) hold on a key of `dp` iff it is `p1` or `p2`; `M` is a 2×2 matrix whose second column
times `N` is `(a₂, a₁)`.  Then the (ideal) multi-controlled `M` on `dif` takes the state of
`mergeUpdate dp p1 p2 N` (amplitude `N` on `p1`, `p2` removed) to the state of `dp`: `a₁` on `p1`,
`a₂` on `p2`, every other key untouched, zero elsewhere.  Label pairs on which the controls hold
but which carry no key keep amplitude `0` on both partners. -/
theorem merge_gate_dictState (n dif : Nat) (dq : List Nat) (hdn : dif < n) (hdq : dif ∉ dq)
    (hqn : ∀ q ∈ dq, q < n) (dp : Dict ℝ) (hlen : ∀ k ∈ dp.keys, k.length = n) (p1 p2 : Str)
    (hp1 : p1 ∈ dp.keys) (hp2 : p2 ∈ dp.keys) (h1 : bitAt p1 dif = true)
    (h2 : bitAt p2 dif = false) (hag : ∀ j, j ≠ dif → bitAt p1 j = bitAt p2 j)
    (hfire : ∀ k ∈ dp.keys,
      ctrlOk (dq.map (fun q => (q, true))) (lab k) = true ↔ (k = p1 ∨ k = p2))
    (a1 a2 : Amp ℝ) (hl1 : dp.lookup p1 = some a1) (hl2 : dp.lookup p2 = some a2) (N : ℝ)
    (M : Mat2 ℂ) (hb : M.b * (N : ℂ) = a2.toC) (hd : M.d * (N : ℂ) = a1.toC) (ψ0 : State ℂ) :
    applyMcu (dq.map (fun q => (q, true))) M dif (dictState n (mergeUpdate dp p1 p2 N) ψ0)
      = dictState n dp ψ0 := by
  funext b
  have hne : p1 ≠ p2 := by intro e; rw [e, h2] at h1; cases h1
  have hc_key : ∀ c : Bits, ctrlOk (dq.map (fun q => (q, true))) (lab (wireKey n c))
      = ctrlOk (dq.map (fun q => (q, true))) c := by
    intro c
    rw [Bool.eq_iff_iff, ctrlOk_ones, ctrlOk_ones]
    constructor <;> intro h q hq
    · rw [← lab_wireKey n c q (hqn q hq)]; exact h q hq
    · rw [lab_wireKey n c q (hqn q hq)]; exact h q hq
  have hc_set : ∀ v, ctrlOk (dq.map (fun q => (q, true))) (setBit b dif v)
      = ctrlOk (dq.map (fun q => (q, true))) b := by
    intro v
    rw [Bool.eq_iff_iff, ctrlOk_ones, ctrlOk_ones]
    constructor <;> intro h q hq
    · rw [← setBit_ne b v (fun e : q = dif => hdq (e ▸ hq))]; exact h q hq
    · rw [setBit_ne b v (fun e : q = dif => hdq (e ▸ hq))]; exact h q hq
  -- amplitudes of the merged dictionary
  have amp_m : ∀ k, ampOf (mergeUpdate dp p1 p2 N) k
      = if k = p2 then 0 else if k = p1 then (N : ℂ) else ampOf dp k := by
    intro k
    unfold ampOf
    rw [lookup_mergeUpdate dp p1 p2 N hne k]
    by_cases k2 : k = p2
    · simp [k2]
    · by_cases k1 : k = p1
      · simp only [k1, if_false, if_true, hl1, Option.map_some, hne]
        exact ofReal_amp N
      · simp [k1, k2]
  have a1e : ampOf dp p1 = a1.toC := by unfold ampOf; rw [hl1]
  have a2e : ampOf dp p2 = a2.toC := by unfold ampOf; rw [hl2]
  unfold applyMcu
  by_cases hc : ctrlOk (dq.map (fun q => (q, true))) b = true
  · rw [if_pos hc]
    have hk1 : wireKey n (setBit b dif true) ∈ dp.keys → wireKey n (setBit b dif true) = p1 := by
      intro hm
      have := (hfire _ hm).mp (by rw [hc_key, hc_set]; exact hc)
      rcases this with e | e
      · exact e
      · have := bitAt_wireKey_setBit n b dif true hdn
        rw [e, h2] at this; cases this
    have hk0 : wireKey n (setBit b dif false) ∈ dp.keys → wireKey n (setBit b dif false) = p2 := by
      intro hm
      have := (hfire _ hm).mp (by rw [hc_key, hc_set]; exact hc)
      rcases this with e | e
      · have := bitAt_wireKey_setBit n b dif false hdn
        rw [e, h1] at this; cases this
      · exact e
    have hiff : wireKey n (setBit b dif true) = p1 ↔ wireKey n (setBit b dif false) = p2 := by
      rw [wireKey_setBit_eq n b dif true hdn p1 (hlen p1 hp1) h1,
        wireKey_setBit_eq n b dif false hdn p2 (hlen p2 hp2) h2]
      constructor
      · intro h j hj; rw [h j hj, hag j hj]
      · intro h j hj; rw [h j hj, hag j hj]
    have hclr : ∀ v, clr n (setBit b dif v) = clr n b := fun v => clr_setBit n b dif v hdn
    by_cases e : wireKey n (setBit b dif true) = p1
    · have e0 := hiff.mp e
      have s1 : dictState n (mergeUpdate dp p1 p2 N) ψ0 (setBit b dif true)
          = (N : ℂ) * ψ0 (clr n b) := by
        unfold dictState; rw [amp_m, e, hclr]; simp [hne]
      have s0 : dictState n (mergeUpdate dp p1 p2 N) ψ0 (setBit b dif false) = 0 := by
        unfold dictState; rw [amp_m, e0]; simp
      rw [s1, s0]
      cases hbd : b dif
      · have : wireKey n b = p2 := by rw [← e0, setBit_self' b dif false hbd]
        simp only [Bool.false_eq_true, if_false]
        unfold dictState
        rw [this, a2e, ← hb]; ring
      · have : wireKey n b = p1 := by rw [← e, setBit_self' b dif true hbd]
        simp only [if_true]
        unfold dictState
        rw [this, a1e, ← hd]; ring
    · have e0 : ¬ wireKey n (setBit b dif false) = p2 := fun h => e (hiff.mpr h)
      have n1 : wireKey n (setBit b dif true) ∉ dp.keys := fun hm => e (hk1 hm)
      have n0 : wireKey n (setBit b dif false) ∉ dp.keys := fun hm => e0 (hk0 hm)
      have z1 : ∀ v, ampOf dp (wireKey n (setBit b dif v)) = 0 := by
        intro v; cases v
        · exact ampOf_not_mem dp _ n0
        · exact ampOf_not_mem dp _ n1
      have zm : ∀ v, dictState n (mergeUpdate dp p1 p2 N) ψ0 (setBit b dif v) = 0 := by
        intro v
        unfold dictState
        rw [amp_m]
        by_cases k2 : wireKey n (setBit b dif v) = p2
        · simp [k2]
        · have k1 : ¬ wireKey n (setBit b dif v) = p1 := by
            intro h; cases v
            · have := bitAt_wireKey_setBit n b dif false hdn
              rw [h, h1] at this; cases this
            · exact e h
          simp [k1, k2, z1 v]
      rw [zm true, zm false]
      have : dictState n dp ψ0 b = 0 := by
        unfold dictState
        have := z1 (b dif)
        rw [setBit_self] at this
        rw [this]; simp
      rw [this]; simp
  · rw [if_neg hc]
    have k1 : ¬ wireKey n b = p1 := by
      intro h
      apply hc
      rw [← hc_key, h]; exact (hfire p1 hp1).mpr (Or.inl rfl)
    have k2 : ¬ wireKey n b = p2 := by
      intro h
      apply hc
      rw [← hc_key, h]; exact (hfire p2 hp2).mpr (Or.inr rfl)
    unfold dictState
    rw [amp_m, if_neg k2, if_neg k1]

end Qclib.Sparse.Mrg
