import QclibModel.Proofs.CnotBasic
/-
  C10 helper lemmas, part 3: the GENERATED `_cnot_count_estimate_ccd` (a double `for` loop translated
  to nested `List.foldl`) equals the structural count of the column-by-column schedule `ccdShape`.
-/
namespace Qclib.Cnot
open Qclib.Py Qclib.Gen.CnotCount

theorem raw_flatMap {α : Type} (l : List α) (f : α → List Prim) :
    raw (l.flatMap f) = (l.map (fun x => raw (f x))).sum := by
  induction l with
  | nil => simp
  | cons a l ih => simp [List.flatMap_cons, ih]

theorem foldl_add_of_mem (f : Int → Nat → Int) (g : Nat → Nat) (l : List Nat)
    (h : ∀ acc : Int, ∀ x ∈ l, f acc x = acc + (g x : Int)) (a : Int) :
    l.foldl f a = a + ((l.map g).sum : Nat) := by
  induction l generalizing a with
  | nil => simp
  | cons x l ih =>
    rw [List.foldl_cons, h a x (List.mem_cons_self ..), ih (fun acc y hy => h acc y (List.mem_cons_of_mem _ hy))]
    simp only [List.map_cons, List.sum_cons]
    omega

theorem pyRange_zero (n : Nat) : pyRange 0 (n : Int) = (List.range n).map (fun i => (0 : Int) + Int.ofNat i) := by
  simp [pyRange]

theorem pySum_filter (p : Int → Bool) (l : List Int) :
    pySum (l.map (fun q => pyB2I (p q))) = ((l.filter p).length : Int) := by
  induction l with
  | nil => rfl
  | cons a l ih =>
    simp only [pySum] at ih
    simp only [pySum, List.map_cons, List.sum_cons, List.filter_cons, ih]
    cases h : p a <;> simp [pyB2I] <;> omega

theorem pyLen_pyRange_zero (t : Nat) : pyLen (pyRange 0 (t : Int)) = (t : Int) := by
  simp [pyLen, pyRange]

theorem pyPow_two_pred (x : Nat) : pyPow 2 (((x : Int) + 1) - 1) - 1 = ((2 ^ x - 1 : Nat) : Int) := by
  have e : ((x : Int) + 1) - 1 = (x : Int) := by omega
  rw [e, pyPow_two x]
  have := two_pow_pos' x
  omega

/-- what `_g_k` appends for bit `i` of column `k` -/
def stepPrims (n k i : Nat) : List Prim :=
  let target : Nat := n - i - 1
  let others : List Int := pyRange 0 target ++ pyRange (target + 1) n
  let kbin := pyBin k n
  (if isometry.k_s k i = 0 ∧ isometry.b k (i + 1) ≠ 0
    then [Prim.ucgd ((others.filter (fun q => pyBit kbin q)).length)] else [])
  ++ [if target = 0 then Prim.u1 else Prim.ucgd target]

theorem gkShape_eq (n k : Nat) : gkShape n k = (List.range n).flatMap (stepPrims n k) := rfl

theorem step_eq (n k i : Nat) (hi : i < n) (acc : Int) :
    (let target : Int := (((n : Int) - (i : Int)) - 1)
     let control : List Int := (pyRange 0 target)
     let ancilla : List Int := (pyRange (target + 1) (n : Int))
     let cnots : Int :=
       if (((isometry.k_s (k : Int) (i : Int)) = 0) ∧ ((isometry.b (k : Int) ((i : Int) + 1)) ≠ 0)) then
         let n_qubits : Int := ((pySum ((control ++ ancilla).map (fun (q : Int) => pyB2I (pyBit (pyBin (k : Int) (n : Int)) q)))) + 1)
         let cnots : Int := (acc + ((pyPow 2 (n_qubits - 1)) - 1))
         cnots
       else
         acc
     let n_qubits : Int := ((pyLen control) + 1)
     let cnots : Int := (cnots + ((pyPow 2 (n_qubits - 1)) - 1))
     cnots) = acc + (raw (stepPrims n k i) : Int) := by
  have ht : (((n : Int) - (i : Int)) - 1) = ((n - i - 1 : Nat) : Int) := by omega
  simp only [ht, stepPrims, pyLen_pyRange_zero, pyPow_two_pred]
  rw [pySum_filter (fun q => pyBit (pyBin (k : Int) (n : Int)) q), pyPow_two_pred]
  by_cases hc : isometry.k_s (k : Int) (i : Int) = 0 ∧ isometry.b (k : Int) ((i : Int) + 1) ≠ 0
  · simp only [hc, and_self, ne_eq, not_false_eq_true, if_true, raw_append, raw_cons, raw_nil, Prim.cost]
    by_cases h0 : n - i - 1 = 0
    · simp only [h0, if_true] <;> omega
    · simp only [h0, if_false] <;> omega
  · simp only [hc, if_false, raw_append, raw_cons, raw_nil, Prim.cost]
    by_cases h0 : n - i - 1 = 0
    · simp only [h0, if_true] <;> omega
    · simp only [h0, if_false] <;> omega

theorem est_ccd (n m : Nat) :
    isometry.cnot_count_estimate_ccd (n : Int) (m : Int) = (raw (ccdShape n m) : Int) := by
  unfold isometry.cnot_count_estimate_ccd
  simp only [pyPow_two m, pyRange_zero, List.foldl_map]
  have inner : ∀ (k : Nat) (acc : Int),
      List.foldl (fun (cnots : Int) (i : Nat) =>
        (let target : Int := (((n : Int) - ((0 : Int) + Int.ofNat i)) - 1)
         let control : List Int := (pyRange 0 target)
         let ancilla : List Int := (pyRange (target + 1) (n : Int))
         let cnots : Int :=
           if (((isometry.k_s ((0 : Int) + Int.ofNat k) ((0 : Int) + Int.ofNat i)) = 0) ∧ ((isometry.b ((0 : Int) + Int.ofNat k) (((0 : Int) + Int.ofNat i) + 1)) ≠ 0)) then
             let n_qubits : Int := ((pySum ((control ++ ancilla).map (fun (q : Int) => pyB2I (pyBit (pyBin ((0 : Int) + Int.ofNat k) (n : Int)) q)))) + 1)
             let cnots : Int := (cnots + ((pyPow 2 (n_qubits - 1)) - 1))
             cnots
           else
             cnots
         let n_qubits : Int := ((pyLen control) + 1)
         let cnots : Int := (cnots + ((pyPow 2 (n_qubits - 1)) - 1))
         cnots)) acc (List.range n) = acc + (raw (gkShape n k) : Int) := by
    intro k acc
    rw [gkShape_eq, raw_flatMap]
    apply foldl_add_of_mem _ (fun i => raw (stepPrims n k i))
    intro a i hi
    have hi' : i < n := List.mem_range.mp hi
    have z1 : (0 : Int) + Int.ofNat i = (i : Int) := by simp
    have z2 : (0 : Int) + Int.ofNat k = (k : Int) := by simp
    rw [z1, z2]
    exact step_eq n k i hi' a
  simp only [inner]
  rw [foldl_add_of_mem (fun acc k => acc + (raw (gkShape n k) : Int)) (fun k => raw (gkShape n k)) _ (fun _ _ _ => rfl)]
  simp only [ccdShape, raw_append, raw_flatMap]
  by_cases hm : m = 0
  · subst hm; simp
  · have hpos : (m : Int) > 0 := by omega
    have h2 : 2 ≤ 2 ^ m := by
      have : 2 ^ 1 ≤ 2 ^ m := Nat.pow_le_pow_right (by omega) (by omega)
      simpa using this
    simp only [hpos, if_true, hm, if_false, raw_cons, raw_nil, Prim.cost]
    omega

end Qclib.Cnot
