import QclibModel.Model.Plesch
import QclibModel.Spec.Tree
import QclibModel.Proofs.SemLemmas
import QclibModel.Proofs.SchmidtAlg
/-
  C01 (low-rank assembly): lemmas about the register-block semantics of `Model/Plesch.lean` —
  reading / writing a register (`regVal`, `setReg`), a block acting on a state that vanishes when a
  wire of the register is set, `semP` on lists, and the label map of a CNOT fan-out.
-/
namespace Qclib.Plesch
open Qclib.Schmidt

/-! ### numbers and bits -/

theorem eq_of_testBit_lt {a b k : Nat} (ha : a < 2 ^ k) (hb : b < 2 ^ k)
    (h : ∀ j, j < k → a.testBit j = b.testBit j) : a = b := by
  apply Nat.eq_of_testBit_eq
  intro i
  by_cases hi : i < k
  · exact h i hi
  · have hk : 2 ^ k ≤ 2 ^ i := Nat.pow_le_pow_right (by decide) (by omega)
    rw [Nat.testBit_lt_two_pow (Nat.lt_of_lt_of_le ha hk),
      Nat.testBit_lt_two_pow (Nat.lt_of_lt_of_le hb hk)]

theorem testBit_false_of_lt {x k j : Nat} (hx : x < 2 ^ k) (hj : k ≤ j) : x.testBit j = false :=
  Nat.testBit_lt_two_pow (Nat.lt_of_lt_of_le hx (Nat.pow_le_pow_right (by decide) hj))

theorem exists_high_bit {x e : Nat} (h : ¬ x < 2 ^ e) : ∃ j, e ≤ j ∧ x.testBit j = true := by
  apply Classical.byContradiction
  intro hn
  apply h
  apply Nat.lt_pow_two_of_testBit
  intro i hi
  cases hb : x.testBit i
  · rfl
  · exact absurd ⟨i, hi, hb⟩ hn

theorem exists_bit_ne {x y : Nat} (h : x ≠ y) : ∃ j, x.testBit j ≠ y.testBit j := by
  apply Classical.byContradiction
  intro hn
  apply h
  apply Nat.eq_of_testBit_eq
  intro i
  apply Classical.byContradiction
  intro hi
  exact hn ⟨i, hi⟩

/-! ### lists -/

theorem getElem_mem_take {l : List Nat} {e j : Nat} (hj : j < e) (hl : j < l.length) :
    l[j] ∈ l.take e := by
  have h : j < (l.take e).length := by rw [List.length_take]; omega
  have := List.getElem_mem h
  rwa [List.getElem_take] at this

theorem getElem_not_mem_take {l : List Nat} (hnd : l.Nodup) {e j : Nat} (hj : e ≤ j)
    (hl : j < l.length) : l[j] ∉ l.take e := by
  intro hm
  obtain ⟨i, hi, heq⟩ := List.mem_iff_getElem.mp hm
  rw [List.getElem_take] at heq
  have hi' : i < e := by rw [List.length_take] at hi; omega
  have hil : i < l.length := by rw [List.length_take] at hi; omega
  have := (hnd.getElem_inj_iff (hi := hil) (hj := hl)).mp heq
  omega

/-! ### reading and writing a register -/

theorem regVal_lt (reg : List Nat) (b : Bits) : regVal reg b < 2 ^ reg.length := by
  induction reg with
  | nil => simp [regVal]
  | cons q qs ih =>
    simp only [regVal, List.length_cons, Nat.pow_succ]
    split <;> omega

theorem regVal_testBit (reg : List Nat) (b : Bits) (i : Nat) (hi : i < reg.length) :
    (regVal reg b).testBit i = b reg[i] := by
  induction reg generalizing i with
  | nil => simp at hi
  | cons q qs ih =>
    cases i with
    | zero =>
      simp only [regVal, Nat.testBit_zero, List.getElem_cons_zero]
      cases b q <;> simp
    | succ i =>
      simp only [regVal, Nat.testBit_succ, List.getElem_cons_succ]
      have : ((if b q = true then 1 else 0) + 2 * regVal qs b) / 2 = regVal qs b := by
        split <;> omega
      rw [this]
      exact ih i (by simpa using hi)

theorem regVal_congr (reg : List Nat) (b b' : Bits) (h : ∀ w ∈ reg, b w = b' w) :
    regVal reg b = regVal reg b' := by
  induction reg with
  | nil => rfl
  | cons q qs ih =>
    simp only [regVal]
    rw [h q (List.mem_cons_self), ih (fun w hw => h w (List.mem_cons_of_mem _ hw))]

theorem setReg_getElem {reg : List Nat} (hnd : reg.Nodup) (x : Nat) (b : Bits) (i : Nat)
    (hi : i < reg.length) : setReg reg x b reg[i] = x.testBit i := by
  simp only [setReg, List.getElem_mem, if_true]
  rw [hnd.idxOf_getElem i hi]

theorem setReg_not_mem (reg : List Nat) (x : Nat) (b : Bits) {w : Nat} (h : w ∉ reg) :
    setReg reg x b w = b w := by
  simp [setReg, h]

theorem regVal_setReg {reg : List Nat} (hnd : reg.Nodup) (x : Nat) (hx : x < 2 ^ reg.length)
    (b : Bits) : regVal reg (setReg reg x b) = x :=
  eq_of_testBit_lt (regVal_lt _ _) hx
    (fun j hj => by rw [regVal_testBit _ _ j hj, setReg_getElem hnd _ _ j hj])

theorem regVal_setReg_other (reg reg' : List Nat) (hd : ∀ w ∈ reg, w ∉ reg') (x : Nat) (b : Bits) :
    regVal reg (setReg reg' x b) = regVal reg b :=
  regVal_congr _ _ _ (fun w hw => setReg_not_mem _ _ _ (hd w hw))

theorem clr_of_mem (ws : List Nat) (b : Bits) {i : Nat} (h : i ∈ ws) : clr ws b i = false := by
  simp [clr, h]

theorem clr_of_not_mem (ws : List Nat) (b : Bits) {i : Nat} (h : i ∉ ws) : clr ws b i = b i := by
  simp [clr, h]

theorem setReg_zero (reg : List Nat) (b : Bits) : setReg reg 0 b = clr reg b := by
  funext w
  simp [setReg, clr]

theorem setReg_nil (x : Nat) (b : Bits) : setReg [] x b = b := by
  funext w
  simp [setReg]

section Sem
variable {R : Type} [CommRing R]

/-! ### finite sums -/

theorem sumTo_only_zero (N : Nat) (hN : 0 < N) (f : Nat → R)
    (h : ∀ x, 0 < x → x < N → f x = 0) : sumTo N f = f 0 := by
  rw [sumTo_eq_sum]
  apply Finset.sum_eq_single 0
  · intro x hx hx0
    exact h x (Nat.pos_of_ne_zero hx0) (Finset.mem_range.mp hx)
  · intro h0
    exact absurd (Finset.mem_range.mpr hN) h0

theorem sumTo_mul_right (N : Nat) (f : Nat → R) (k : R) :
    sumTo N (fun x => f x * k) = sumTo N f * k := by
  rw [sumTo_eq_sum, sumTo_eq_sum, Finset.sum_mul]

theorem sumTo_mul_left (N : Nat) (f : Nat → R) (k : R) :
    sumTo N (fun x => k * f x) = k * sumTo N f := by
  rw [sumTo_eq_sum, sumTo_eq_sum, Finset.mul_sum]

/-! ### `semP` -/

theorem semP_nil (ψ : State R) : semP ([] : List (PG R)) ψ = ψ := rfl

theorem semP_cons (g : PG R) (c : List (PG R)) (ψ : State R) :
    semP (g :: c) ψ = semP c (denoteP g ψ) := rfl

theorem semP_append (c1 c2 : List (PG R)) (ψ : State R) :
    semP (c1 ++ c2) ψ = semP c2 (semP c1 ψ) := by
  simp [semP, List.foldl_append]

theorem denoteP_cx (c t : Nat) (ψ : State R) (b : Bits) :
    denoteP (PG.cx c t) ψ b = if b c then ψ (flipBit b t) else ψ b := by
  rw [← setBit_not]
  simp only [denoteP, applyMcu, ctrlOk, Mat2.X]
  cases hc : b c <;> cases h : b t <;> simp [hc]

/-- A block on the empty register with entry `1` is the identity. -/
theorem denoteP_block_nil_one (ψ : State R) :
    denoteP (PG.block [] (fun _ _ => (1 : R))) ψ = ψ := by
  funext b
  simp [denoteP, applyBlock, sumTo, setReg_nil]

/-- A block acting on a state that vanishes whenever a wire of the register is set: only column 0
of the matrix matters. -/
theorem applyBlock_zeroOn {reg : List Nat} (hnd : reg.Nodup) (m : Nat → Nat → R) (ψ : State R)
    (hz : ∀ b, (∃ w ∈ reg, b w = true) → ψ b = 0) (b : Bits) :
    applyBlock reg m ψ b = m (regVal reg b) 0 * ψ (clr reg b) := by
  unfold applyBlock
  rw [sumTo_only_zero _ (Nat.pos_of_ne_zero (by simp)), setReg_zero]
  intro x hx0 hxN
  obtain ⟨j, hj⟩ := Nat.exists_testBit_of_ne_zero (Nat.ne_of_gt hx0)
  have hjl : j < reg.length := by
    apply Classical.byContradiction
    intro hn
    rw [testBit_false_of_lt hxN (by omega)] at hj
    cases hj
  rw [hz _ ⟨reg[j], List.getElem_mem hjl, by rw [setReg_getElem hnd _ _ j hjl, hj]⟩, mul_zero]

/-! ### CNOT fan-out -/

/-- Label map of one CNOT (pull-back: new amplitude at `b` = old amplitude at `cxBit c t b`). -/
def cxBit (c t : Nat) (b : Bits) : Bits := if b c then flipBit b t else b

/-- Label map of a list of CNOTs applied head first. -/
def fan : List (Nat × Nat) → Bits → Bits
  | [], b => b
  | ct :: r, b => cxBit ct.1 ct.2 (fan r b)

theorem semP_cxs (cxs : List (Nat × Nat)) (ψ : State R) (b : Bits) :
    semP (cxs.map (fun ct => PG.cx ct.1 ct.2)) ψ b = ψ (fan cxs b) := by
  induction cxs generalizing ψ with
  | nil => rfl
  | cons ct r ih =>
    rw [List.map_cons, semP_cons, ih, denoteP_cx]
    simp only [fan, cxBit]
    split <;> rfl

theorem cxBit_ne (c t : Nat) (b : Bits) {w : Nat} (h : w ≠ t) : cxBit c t b w = b w := by
  unfold cxBit
  split
  · exact flipBit_ne b h
  · rfl

theorem cxBit_eq (c t : Nat) (b : Bits) : cxBit c t b t = xor (b t) (b c) := by
  unfold cxBit
  split
  · rename_i h; rw [flipBit_eq, h]; simp
  · rename_i h; simp at h; rw [h]; simp

theorem fan_not_target (cxs : List (Nat × Nat)) (b : Bits) {w : Nat}
    (h : w ∉ cxs.map Prod.snd) : fan cxs b w = b w := by
  induction cxs with
  | nil => rfl
  | cons ct r ih =>
    simp only [List.map_cons, List.mem_cons, not_or] at h
    rw [fan, cxBit_ne _ _ _ h.1, ih h.2]

theorem fan_target (cxs : List (Nat × Nat)) (hnd : (cxs.map Prod.snd).Nodup)
    (hc : ∀ p ∈ cxs, p.1 ∉ cxs.map Prod.snd) (b : Bits) (p : Nat × Nat) (hp : p ∈ cxs) :
    fan cxs b p.2 = xor (b p.2) (b p.1) := by
  induction cxs with
  | nil => simp at hp
  | cons ct r ih =>
    rw [List.map_cons, List.nodup_cons] at hnd
    have hcr : ∀ q ∈ r, q.1 ∉ r.map Prod.snd := by
      intro q hq hm
      exact hc q (List.mem_cons_of_mem _ hq) (by rw [List.map_cons]; exact List.mem_cons_of_mem _ hm)
    rcases List.mem_cons.mp hp with rfl | hpr
    · have h1 : p.1 ∉ r.map Prod.snd := by
        intro hm
        exact hc p List.mem_cons_self (by rw [List.map_cons]; exact List.mem_cons_of_mem _ hm)
      rw [fan, cxBit_eq, fan_not_target r b hnd.1, fan_not_target r b h1]
    · have hne : p.2 ≠ ct.2 := by
        intro he
        exact hnd.1 (he ▸ List.mem_map.mpr ⟨p, hpr, rfl⟩)
      rw [fan, cxBit_ne _ _ _ hne, ih hnd.2 hcr hpr]

end Sem

end Qclib.Plesch
