import QclibModel.Model.SparseMerge
import QclibModel.Proofs.SemLemmas
/-
  C06 — string tracking: `_compute_op_x` / `_compute_op_cx` on a key are the reversible action of
  the emitted `x` / `cx` gate on the basis label of that key.
-/
namespace Qclib.Sparse
open Qclib

/-- basis label of a key: wire `i` carries character `i` (merge convention) -/
def lab (s : Str) : Bits := fun i => bitAt s i

theorem take_cons_drop_eq_set (s : Str) (i : Nat) (v : Bool) (h : i < s.length) :
    s.take i ++ [v] ++ s.drop (i + 1) = s.set i v := by
  rw [List.set_eq_take_append_cons_drop]; simp [h]

theorem bitAt_set (s : Str) (i j : Nat) (v : Bool) (h : i < s.length) :
    bitAt (s.set i v) j = if j = i then v else bitAt s j := by
  unfold bitAt
  rw [List.getD_eq_getElem?_getD, List.getD_eq_getElem?_getD, List.getElem?_set]
  by_cases hij : i = j
  · subst hij; simp [h]
  · have : ¬ j = i := fun e => hij e.symm
    simp [hij, this]

theorem computeOpX_eq (s : Str) (i : Nat) (h : i < s.length) :
    computeOpX s i = s.set i (!bitAt s i) := by
  unfold computeOpX
  cases hb : bitAt s i
  · simp only [beq_self_eq_true, if_true, Bool.not_false]; exact take_cons_drop_eq_set s i true h
  · have : (true == false) = false := rfl
    simp only [this, Bool.false_eq_true, if_false, Bool.not_true]; exact take_cons_drop_eq_set s i false h

theorem computeOpCx_eq (s : Str) (c t : Nat) (h : t < s.length) :
    computeOpCx s c t = if bitAt s c then s.set t (!bitAt s t) else s := by
  unfold computeOpCx
  cases hb : bitAt s c
  · have : (false == true) = false := rfl
    simp [this]
  · simp only [beq_self_eq_true, if_true]; exact take_cons_drop_eq_set s t _ h

theorem computeOpX_length (s : Str) (i : Nat) (h : i < s.length) :
    (computeOpX s i).length = s.length := by
  rw [computeOpX_eq s i h, List.length_set]

theorem computeOpCx_length (s : Str) (c t : Nat) (h : t < s.length) :
    (computeOpCx s c t).length = s.length := by
  rw [computeOpCx_eq s c t h]; split <;> simp

theorem bitAt_computeOpX (s : Str) (i j : Nat) (h : i < s.length) :
    bitAt (computeOpX s i) j = if j = i then !bitAt s i else bitAt s j := by
  rw [computeOpX_eq s i h, bitAt_set s i j _ h]

theorem bitAt_computeOpCx (s : Str) (c t j : Nat) (h : t < s.length) :
    bitAt (computeOpCx s c t) j = if j = t ∧ bitAt s c = true then !bitAt s t else bitAt s j := by
  rw [computeOpCx_eq s c t h]
  cases hb : bitAt s c
  · simp
  · simp only [if_true, bitAt_set s t j _ h, and_true]

theorem lab_computeOpX (s : Str) (i : Nat) (h : i < s.length) :
    lab (computeOpX s i) = flipBit (lab s) i := by
  funext j
  simp only [lab, flipBit, bitAt_computeOpX s i j h]
  by_cases e : j = i
  · subst e; simp
  · simp [e]

theorem lab_computeOpCx (s : Str) (c t : Nat) (h : t < s.length) :
    lab (computeOpCx s c t) = if lab s c then flipBit (lab s) t else lab s := by
  funext j
  by_cases hb : bitAt s c = true
  · have hl : lab s c = true := hb
    rw [if_pos hl]
    simp only [lab, bitAt_computeOpCx s c t j h, hb, and_true, flipBit]
    by_cases e : j = t
    · subst e; simp
    · simp [e]
  · have hl : ¬ lab s c = true := hb
    rw [if_neg hl]
    simp [lab, bitAt_computeOpCx s c t j h, hb]

end Qclib.Sparse
