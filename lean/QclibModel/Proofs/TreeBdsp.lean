import QclibModel.Proofs.TreeSplitSem
import QclibModel.Proofs.TreeDcsp
import QclibModel.Proofs.TreeSplitMarg
import QclibModel.Proofs.TreeChain
/-
  C11: assembling allocation + closed form + statistics for the model of `BdspInitialize`.
-/
namespace Qclib
open RotSem

/-! ### The wires of the allocated tree are the split-tree wires -/

section
variable {F : Type}

theorem wiresS_eq_allocWires (sl : Nat) : ∀ (h lvl : Nat) (t : BT (AV F)) (qs : List Nat),
    complete h t → allocCount sl lvl h ≤ qs.length → ∀ t' rest,
    addRegAux sl lvl t qs = some (t', rest) → wiresS sl lvl t' = allocWires t'
  | 0, _, .nil, qs, _, _, t', rest, he => by
    simp only [addRegAux, Option.some.injEq, Prod.mk.injEq] at he
    rw [← he.1]; rfl
  | 0, _, .node .., _, hc, _, _, _, _ => by simp [complete] at hc
  | h+1, _, .nil, _, hc, _, _, _, _ => by simp [complete] at hc
  | h+1, lvl, .node v l r, qs, hc, hlen, t', rest, he => by
    obtain ⟨t'', he'', spec⟩ := addRegAux_complete sl (h+1) lvl (.node v l r) qs hc hlen
    rw [he''] at he
    simp only [Option.some.injEq, Prod.mk.injEq] at he
    obtain ⟨rfl, -⟩ := he
    by_cases hlt : lvl < sl
    · have hcnt : allocCount sl lvl (h+1)
          = 1 + allocCount sl (lvl+1) h + allocCount sl (lvl+1) h := by simp [allocCount, hlt]
      rw [hcnt] at hlen
      cases qs with
      | nil => simp at hlen
      | cons q qs0 =>
        simp only [List.length_cons] at hlen
        obtain ⟨l', hl', -⟩ := addRegAux_complete sl h (lvl+1) l qs0 hc.1 (by omega)
        obtain ⟨r', hr', -⟩ := addRegAux_complete sl h (lvl+1) r
          (qs0.drop (allocCount sl (lvl+1) h)) hc.2 (by simp only [List.length_drop]; omega)
        have ihl := wiresS_eq_allocWires sl h (lvl+1) l qs0 hc.1 (by omega) _ _ hl'
        have ihr := wiresS_eq_allocWires sl h (lvl+1) r _ hc.2
          (by simp only [List.length_drop]; omega) _ _ hr'
        simp only [addRegAux, hlt, if_true, hl', hr', Option.some.injEq, Prod.mk.injEq] at he''
        rw [← he''.1, wS_lt sl hlt, allocWires_node _ _ _ q rfl, ihl, ihr]
        simp [wire]
    · have hcnt : allocCount sl lvl (h+1) = h + 1 := by simp [allocCount, hlt]
      obtain ⟨v', l', r', rfl, -, -⟩ := (complete_succ_iff h t'').1 spec.shape
      rw [wS_ge sl hlt, spec.spineW, spec.wires, hcnt]

end

theorem addRegister_some {F : Type} {t : BT (AV F)} {sl : Nat} {a : Alloc F}
    (ha : addRegister t sl = some a) :
    addRegAux sl 0 t (qubitOrder a.noutput a.nqubits) = some (a.tree, a.rest) := by
  unfold addRegister at ha
  simp only [] at ha
  split at ha
  · simp at ha
  · split at ha
    · simp at ha
    · rename_i c hc t' rest heq
      simp only [Option.some.injEq] at ha
      rw [← ha]
      exact heq

/-! ### Squared moduli -/

theorem normSq_nodeAmpW (w : Nat) (v : QV ℝ) (b : Bits) :
    Complex.normSq (nodeAmpW w v b : ℂ) = if b w then sin2 v.y else cos2 v.y := by
  unfold nodeAmpW cos2 sin2
  split
  · show Complex.normSq (((Real.sin (v.y / 2) : ℝ) : ℂ)
      * Complex.exp (((v.z / 2 : ℝ) : ℂ) * Complex.I)) = _
    rw [Complex.normSq_mul, normSq_exp_I, Complex.normSq_ofReal]; ring
  · show Complex.normSq (((Real.cos (v.y / 2) : ℝ) : ℂ)
      * Complex.exp (-(((v.z / 2 : ℝ) : ℂ) * Complex.I))) = _
    have : -(((v.z / 2 : ℝ) : ℂ) * Complex.I) = (((-(v.z / 2) : ℝ)) : ℂ) * Complex.I := by
      push_cast; ring
    rw [this, Complex.normSq_mul, normSq_exp_I, Complex.normSq_ofReal]; ring

theorem normSq_chainAmp : ∀ (ws : List Nat) (t : BT (QV ℝ)) (b : Bits),
    Complex.normSq (chainAmp ws t b : ℂ) = spW cos2 sin2 ws t b
  | [], _, _ => by simp [chainAmp, spW]
  | _ :: _, .nil, _ => by simp [chainAmp, spW]
  | w :: ws, .node v l r, b => by
    simp only [chainAmp, spW, Complex.normSq_mul, normSq_nodeAmpW]
    cases b w
    · simp only [Bool.false_eq_true, if_false, normSq_chainAmp ws l b]
    · simp only [if_true, normSq_chainAmp ws r b]

theorem normSq_treeAmpS (o : TOps ℝ) (sl : Nat) : ∀ (t : BT (QV ℝ)) (lvl : Nat) (b : Bits),
    Complex.normSq (treeAmpS o sl lvl t b : ℂ) = treeProbS o cos2 sin2 sl lvl t b
  | .nil, _, _ => by simp [treeAmpS, treeProbS]
  | .node v l r, lvl, b => by
    by_cases hlt : lvl < sl
    · simp only [treeAmpS, treeProbS, hlt, if_true, Complex.normSq_mul, normSq_nodeAmp,
        normSq_treeAmpS o sl l, normSq_treeAmpS o sl r]
    · simp only [treeAmpS, treeProbS, hlt, if_false, normSq_chainAmp]

/-! ### What the model of `BdspInitialize` produces -/

structure BdspSpec {F : Type} (o : TOps F) (n s : Nat) (leaves : Nat → SV F) (out : TreeOut F) :
    Prop where
  gates_eq : out.gates = topDown o (n - s) 0 out.alloc.tree ++ bottomUp o (n - s) 0 out.alloc.tree
  shape : complete n out.alloc.tree
  angles_eq : angles out.alloc.tree = angleTree o (stateTree o n leaves)
  wires : wiresS (n - s) 0 out.alloc.tree = qubitOrder n ((s + 1) * 2^(n - s) - 1)
  spineW : leftSpine out.alloc.tree = (List.range n).reverse
  width : out.alloc.circWidth = (s + 1) * 2^(n - s) - 1

theorem bdsp_spec {F : Type} (o : TOps F) (n s : Nat) (hs : 1 ≤ s) (hn : s ≤ n)
    (leaves : Nat → SV F) :
    ∃ out, bdsp o (2^n) leaves (some s) = some out ∧ BdspSpec o n s leaves out := by
  obtain ⟨m, rfl⟩ : ∃ m, n = m + 1 := ⟨n - 1, by omega⟩
  have hc := angleTree_complete o m leaves
  obtain ⟨a, ha, hq, hno', hw, -, hws, spec⟩ := addRegister_complete (m+1) s hs hn _ hc
  have hnq : a.nqubits = (s + 1) * 2^(m + 1 - s) - 1 := by omega
  have hle : m + 1 ≤ a.nqubits := by have := width_ge (m+1) s hn; omega
  refine ⟨⟨s, bdspDeclared (2^(m+1)) s, a, m + 1 - s,
      topDown o (m + 1 - s) 0 a.tree ++ bottomUp o (m + 1 - s) 0 a.tree⟩, ?_, ?_⟩
  · simp only [bdsp, Nat.log2_two_pow, Option.getD_some, ha]
    rw [if_neg (by omega)]
  · have hreg := addRegister_some ha
    have hno : a.noutput = m + 1 := hno'
    rw [hno] at hreg
    have hcnt : allocCount (m + 1 - s) 0 (m+1) ≤ (qubitOrder (m+1) a.nqubits).length := by
      rw [qubitOrder_length _ _ hle]
      have h2 := allocCount_closed (m + 1 - s) (m + 1 - s) 0 (m+1) (by omega) (by omega)
      rw [show m + 1 - (m + 1 - s) = s by omega] at h2
      have h3 : (s + 1) * 2^(m + 1 - s) = 2^(m + 1 - s) + 2^(m + 1 - s) * s := by
        rw [Nat.mul_comm, Nat.mul_add, Nat.mul_one, Nat.add_comm]
      omega
    have hwS := wiresS_eq_allocWires (m + 1 - s) (m+1) 0 _ _ hc hcnt _ _ hreg
    refine ⟨rfl, spec.shape, spec.angles_eq, ?_, ?_, ?_⟩
    · show wiresS (m + 1 - s) 0 a.tree = _
      rw [hwS, hws, hnq]
    · show leftSpine a.tree = _
      rw [spec.spineW, qubitOrder_take]
    · show a.circWidth = _
      rw [hw, hnq]

/-! ### The theorem -/

theorem realTOps_chainSem : ChainSem realTOps ℂ :=
  chainSem (R := ℂ) realTOps (fun x => x / 2) (fun x => decide (x = 0)) rfl
    (fun a => by ring) (fun a b => by ring) (fun a h => by simpa using h)
    realTOps_neZero rfl

/-- **Output marginals of `BdspInitialize`** (model, exact arithmetic): every `n ≥ 1`, every
split `1 ≤ s ≤ n`, every unit vector `a`, every input state `ψ` whose `W = (s+1)·2^(n-s) − 1`
circuit wires are `|0⟩` (spectator wires in any state): summing the squared modulus of the
output amplitude over all assignments of the ancilla wires `n … W − 1` gives `|a_k|²` (times
the squared modulus of the input amplitude on the spectators), `k` = number read on the output
wires `0 … n−1`. -/
theorem bdsp_marginal (n s : Nat) (hs : 1 ≤ s) (hn : s ≤ n) (a : Nat → ℂ)
    (hunit : sumSq n (leavesOf a) = 1)
    (out : TreeOut ℝ) (hout : bdsp realTOps (2^n) (leavesOf a) (some s) = some out)
    (ψ : State ℂ) (hψ : ZeroOn (List.range ((s + 1) * 2^(n - s) - 1)) ψ) (b : Bits) :
    sumOver (List.range' n ((s + 1) * 2^(n - s) - 1 - n))
        (fun x => Complex.normSq (sem out.gates ψ x)) b
      = Complex.normSq (a (bitsVal n b))
        * Complex.normSq (ψ (clr (List.range ((s + 1) * 2^(n - s) - 1)) b)) := by
  obtain ⟨out', hout', hsp⟩ := bdsp_spec realTOps n s hs hn (leavesOf a)
  rw [hout] at hout'
  cases hout'
  obtain ⟨m, rfl⟩ : ∃ m, n = m + 1 := ⟨n - 1, by omega⟩
  have hle : m + 1 ≤ (s + 1) * 2^(m + 1 - s) - 1 := by
    have := width_ge (m+1) s hn; omega
  have hmem : ∀ w, w ∈ wiresS (m + 1 - s) 0 out.alloc.tree
      ↔ w ∈ List.range ((s + 1) * 2^(m + 1 - s) - 1) := by
    intro w; rw [hsp.wires, mem_qubitOrder _ _ hle, List.mem_range]
  have hnd : (wiresS (m + 1 - s) 0 out.alloc.tree).Nodup := by
    rw [hsp.wires]; exact qubitOrder_nodup _ _
  have hψ' : ZeroOn (wiresS (m + 1 - s) 0 out.alloc.tree) ψ :=
    ZeroOn_congr _ _ (fun w => (hmem w).symm) ψ hψ
  -- closed form, squared
  have hcl : ∀ x, Complex.normSq (sem out.gates ψ x)
      = treeProbS realTOps cos2 sin2 (m + 1 - s) 0 out.alloc.tree x
        * Complex.normSq (ψ (clr (List.range ((s + 1) * 2^(m + 1 - s) - 1)) x)) := by
    intro x
    rw [hsp.gates_eq, bdsp_closedS realTOps realTOps_neZero realTOps_chainSem (m + 1 - s) (m+1)
      out.alloc.tree hsp.shape hnd ψ hψ' x, Complex.normSq_mul, normSq_treeAmpS,
      clr_congr _ _ hmem]
  rw [sumOver_congr _ _ _ hcl]
  -- the ancilla wires are exactly `ancS tree`
  have hperm : (ancS (m + 1 - s) 0 out.alloc.tree).Perm
      (List.range' (m+1) ((s + 1) * 2^(m + 1 - s) - 1 - (m+1))) := by
    have h1 := spine_ancS_perm (m + 1 - s) 0 out.alloc.tree
    rw [hsp.wires, qubitOrder_eq _ _ hle, hsp.spineW] at h1
    exact ((List.perm_append_left_iff _).1 h1).trans (List.reverse_perm _)
  rw [← sumOver_perm _ _ hperm]
  have hanc : ∀ w ∈ ancS (m + 1 - s) 0 out.alloc.tree,
      w ∈ List.range ((s + 1) * 2^(m + 1 - s) - 1) := by
    intro w hw
    have : w ∈ wiresS (m + 1 - s) 0 out.alloc.tree :=
      (spine_ancS_perm (m + 1 - s) 0 out.alloc.tree).subset (List.mem_append_right _ hw)
    exact (hmem w).1 this
  rw [sumOver_mul_right _ _ _ (by
    intro x w v hw
    congr 2
    funext i
    by_cases hi : i ∈ List.range ((s + 1) * 2^(m + 1 - s) - 1)
    · rw [clr_mem _ _ hi, clr_mem _ _ hi]
    · rw [clr_not_mem _ _ hi, clr_not_mem _ _ hi,
        setBit_ne _ _ (fun (h : i = w) => hi (by rw [h]; exact hanc w hw))])]
  congr 1
  have hcs : ∀ y : ℝ, cos2 y + sin2 y = 1 := fun y => by
    unfold cos2 sin2; exact Real.cos_sq_add_sin_sq _
  have hs0 : ∀ y : ℝ, realTOps.neZero y = false → sin2 y = 0 := fun y hy => by
    rw [realTOps_neZero y hy]; simp [sin2]
  rw [treeProbS_marginal realTOps cos2 sin2 hcs hs0 (m + 1 - s) (m+1) 0 _ hsp.shape hnd,
    spineProbS_eq_spW realTOps cos2 sin2 hs0 (m + 1 - s) (m+1) 0 _ hsp.shape hnd, hsp.spineW,
    spW_pathProb cos2 sin2 (m+1) _ hsp.shape, hsp.angles_eq]
  have hk := bitsVal_lt (m+1) b
  have := tree_path_product_unit m (leavesOf a) (fun k => norm_nonneg _) hunit (bitsVal (m+1) b) hk
  unfold cos2 sin2
  rw [this]
  show ‖a (bitsVal (m+1) b)‖ ^ 2 = _
  rw [Complex.normSq_eq_norm_sq]

#print axioms bdsp_marginal

end Qclib
