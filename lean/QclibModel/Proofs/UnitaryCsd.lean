import QclibModel.Props.C13
import QclibModel.Proofs.SemLemmas
import QclibModel.Model.Unitary
import Mathlib.Data.Matrix.Block
import Mathlib.Algebra.Star.Basic
import Mathlib.Tactic.Ring
/-
  C02 — the cosine–sine step of `qclib/unitary.py::build_unitary`.

      right_gates, theta, left_gates = scipy.linalg.cossin(gate, size/2, size/2, separate=True)
      …left circuit (left_gates = vdh, applied first)…
      ucry = ucr(RYGate, list(2*theta), CZGate, False)      on [n-1] + range(n-1)
      right_gates[1][:, len(theta)//2:] = -right_gates[1][:, len(theta)//2:]
      …right circuit (right_gates = u, applied last)…

  (i)   amplitude level, all `k`: the `last_control=False` circuit is `CZ ∘ multiplexer`
        (`csd_nolast`), and the Y-multiplexer with doubled angles is the `CS` block (`csd_mux…`).
  (ii)  block level (Mathlib matrices): negating the right half of the columns of `u1` is
        multiplication by `CZ`, so the two `CZ` cancel and the circuit operator is `u · CS · vdh`.
  (iii) the list function `Qclib.Uni.negRightHalf` of the model negates exactly the entries with
        column index `≥ h`.
-/
namespace Qclib.Uni
open Qclib RotSem

/-! ### (i) amplitude level -/

section Amp
variable {Θ R : Type} [AddCommGroup Θ] [CommRing R] [RotSem Θ R] [RotLaws Θ R]

omit [AddCommGroup Θ] [RotLaws Θ R] in
/-- `CZ ∘ CZ = id` in the amplitude semantics, for any pair of wires. -/
theorem denote_cz_cz (c t : Nat) (ψ : State R) :
    denote (G.cz c t : G Θ) (denote (G.cz c t : G Θ) ψ) = ψ := by
  funext b
  rw [denote_cz, denote_cz]
  cases b c <;> cases b t <;> simp

/-- **The middle circuit without its last entangler.**  Same hypotheses as `C13_nolast` (angle
halving `half`, the "negligible" test fires only on `0`); axis `Y`, entangler `CZ`, `k+1 ≥ 1`
controls.  The circuit `ucr(RY, a, CZ, last_control=False)` denotes the ideal multiplexer followed
by the omitted entangler `CZ(k+1, 0)` (ucr-local wires: `0` = RY target, `k+1` = last control):
as operators, `nolast = CZ · Mux`. -/
theorem csd_nolast (half : Θ → Θ) (negl : Θ → Bool)
    (hhalf : ∀ a, half a + half a = a) (hadd : ∀ a b, half (a + b) = half a + half b)
    (hnegl : ∀ a, negl a = true → a = 0)
    (k : Nat) (a : Nat → Θ) (ψ : State R) :
    sem (ucr (stdOps half negl) Axis.Y Ent.CZ (k+1) a false) ψ
      = denote (G.cz (k+1) 0 : G Θ) (muxIdeal Axis.Y (k+1) a ψ) := by
  have h := C13_nolast (R := R) half negl hhalf hadd hnegl Axis.Y Ent.CZ rfl k a ψ
  rw [sem_append, sem_single] at h
  rw [← h]
  exact (denote_cz_cz _ _ _).symm

omit [RotLaws Θ R] in
/-- **The Y-multiplexer with doubled angles is the `CS` block.**  Where the control wires read `j`
the multiplexer applies to the target wire the matrix `[[c_j, -s_j], [s_j, c_j]]` with
`c_j = cs (θ j + θ j)`, `s_j = sn (θ j + θ j)`.  In the `ℝ → ℂ` instance (`Proofs/RotReal.lean`)
`cs φ = cos(φ/2)`, `sn φ = sin(φ/2)`, so `c_j = cos θ_j`, `s_j = sin θ_j`: exactly the
`[[C, -S], [S, C]]` of `scipy.linalg.cossin`, block index = the target wire (the top qubit). -/
theorem csd_mux (k : Nat) (θ : Nat → Θ) (ψ : State R) :
    muxIdeal Axis.Y k (fun j => θ j + θ j) ψ
      = applyFam (fun b => (⟨cs (θ (ctrlIdx k b) + θ (ctrlIdx k b)),
                             -(sn (θ (ctrlIdx k b) + θ (ctrlIdx k b))),
                             sn (θ (ctrlIdx k b) + θ (ctrlIdx k b)),
                             cs (θ (ctrlIdx k b) + θ (ctrlIdx k b))⟩ : Mat2 R)) 0 ψ := rfl

omit [RotLaws Θ R] in
/-- Pointwise form of `csd_mux`: with `j` the number on the control wires of label `b`, the new
amplitude at `b` is `c_j ψ(b₀) - s_j ψ(b₁)` if the target reads `0` and `s_j ψ(b₀) + c_j ψ(b₁)` if
it reads `1` (`b₀`, `b₁`: `b` with the target wire set to `0`, `1`). -/
theorem csd_mux_apply (k : Nat) (θ : Nat → Θ) (ψ : State R) (b : Bits) :
    muxIdeal Axis.Y k (fun j => θ j + θ j) ψ b
      = if b 0 then sn (θ (ctrlIdx k b) + θ (ctrlIdx k b)) * ψ (setBit b 0 false)
                    + cs (θ (ctrlIdx k b) + θ (ctrlIdx k b)) * ψ (setBit b 0 true)
        else cs (θ (ctrlIdx k b) + θ (ctrlIdx k b)) * ψ (setBit b 0 false)
              - sn (θ (ctrlIdx k b) + θ (ctrlIdx k b)) * ψ (setBit b 0 true) := by
  rw [csd_mux]
  simp only [applyFam]
  split
  · rfl
  · ring

/-- **Middle circuit of `build_unitary`, amplitude level, all sizes.**  The circuit
`ucr(RY, 2·θ, CZ, last_control=False)` with `k+1` controls denotes: the `CS` multiplexer
(`csd_mux`), then `CZ` between the last control (ucr-local wire `k+1`, global wire `n-2`) and the
target (ucr-local wire `0`, global wire `n-1`). -/
theorem csd_middle (half : Θ → Θ) (negl : Θ → Bool)
    (hhalf : ∀ a, half a + half a = a) (hadd : ∀ a b, half (a + b) = half a + half b)
    (hnegl : ∀ a, negl a = true → a = 0)
    (k : Nat) (θ : Nat → Θ) (ψ : State R) :
    sem (ucr (stdOps half negl) Axis.Y Ent.CZ (k+1) (fun j => θ j + θ j) false) ψ
      = denote (G.cz (k+1) 0 : G Θ)
          (applyFam (fun b => (⟨cs (θ (ctrlIdx (k+1) b) + θ (ctrlIdx (k+1) b)),
                                 -(sn (θ (ctrlIdx (k+1) b) + θ (ctrlIdx (k+1) b))),
                                 sn (θ (ctrlIdx (k+1) b) + θ (ctrlIdx (k+1) b)),
                                 cs (θ (ctrlIdx (k+1) b) + θ (ctrlIdx (k+1) b))⟩ : Mat2 R)) 0 ψ) := by
  rw [csd_nolast half negl hhalf hadd hnegl, csd_mux]

/-- **Absorption of the omitted `CZ`, amplitude level.**  Whatever the right circuit `Rt` does, if
it is preceded by `CZ(k+1, 0)` (that is what negating the right half of the columns of
`right_gates[1]` amounts to, see `right_absorb` / `negRight_eq`), then after the
`last_control=False` middle circuit the result is `Rt` applied to the ideal `CS` multiplexer. -/
theorem csd_absorb (half : Θ → Θ) (negl : Θ → Bool)
    (hhalf : ∀ a, half a + half a = a) (hadd : ∀ a b, half (a + b) = half a + half b)
    (hnegl : ∀ a, negl a = true → a = 0)
    (k : Nat) (a : Nat → Θ) (Rt : State R → State R) (ψ : State R) :
    Rt (denote (G.cz (k+1) 0 : G Θ) (sem (ucr (stdOps half negl) Axis.Y Ent.CZ (k+1) a false) ψ))
      = Rt (muxIdeal Axis.Y (k+1) a ψ) := by
  rw [csd_nolast half negl hhalf hadd hnegl, denote_cz_cz]

end Amp

/-! ### (ii) block level -/

section Blocks
open Matrix
variable {R κ : Type} [CommRing R] [Fintype κ] [DecidableEq κ]

/-- `Z` on the qubit below the top one: `+1` on the left half of the columns, `-1` on the right. -/
def Zh (R κ : Type) [CommRing R] [DecidableEq κ] : Matrix (κ ⊕ κ) (κ ⊕ κ) R :=
  fromBlocks 1 0 0 (-1)

/-- `CZ` between the top qubit (outer sum) and the one below (inner sum). -/
def CZm (R κ : Type) [CommRing R] [DecidableEq κ] : Matrix ((κ ⊕ κ) ⊕ (κ ⊕ κ)) ((κ ⊕ κ) ⊕ (κ ⊕ κ)) R :=
  fromBlocks 1 0 0 (Zh R κ)

/-- The mutant sign matrix: `-1` on the LEFT half of the columns. -/
def Zl (R κ : Type) [CommRing R] [DecidableEq κ] : Matrix (κ ⊕ κ) (κ ⊕ κ) R :=
  fromBlocks (-1) 0 0 1

theorem Zh_mul_Zh : Zh R κ * Zh R κ = 1 := by
  simp [Zh, fromBlocks_multiply, fromBlocks_one]

theorem CZm_mul_CZm : CZm R κ * CZm R κ = 1 := by
  simp [CZm, fromBlocks_multiply, Zh_mul_Zh, fromBlocks_one]

/-- **`m[:, h:] = -m[:, h:]` is right multiplication by `Zh`** (left half of the columns kept). -/
theorem negRight_eq_inl {ρ : Type} (u1 : Matrix ρ (κ ⊕ κ) R) (i : ρ) (j : κ) :
    (u1 * Zh R κ) i (Sum.inl j) = u1 i (Sum.inl j) := by
  simp [Zh, Matrix.mul_apply, Fintype.sum_sum_type, Matrix.one_apply]

/-- **`m[:, h:] = -m[:, h:]` is right multiplication by `Zh`** (right half of the columns negated). -/
theorem negRight_eq_inr {ρ : Type} (u1 : Matrix ρ (κ ⊕ κ) R) (i : ρ) (j : κ) :
    (u1 * Zh R κ) i (Sum.inr j) = - u1 i (Sum.inr j) := by
  simp [Zh, Matrix.mul_apply, Fintype.sum_sum_type, Matrix.one_apply]

/-- Both halves of `negRight_eq`. -/
theorem negRight_eq {ρ : Type} (u1 : Matrix ρ (κ ⊕ κ) R) (i : ρ) :
    (∀ j, (u1 * Zh R κ) i (Sum.inl j) = u1 i (Sum.inl j))
      ∧ (∀ j, (u1 * Zh R κ) i (Sum.inr j) = - u1 i (Sum.inr j)) :=
  ⟨negRight_eq_inl u1 i, negRight_eq_inr u1 i⟩

/-- `diag(u0, u1 · Zh) = diag(u0, u1) · CZ`. -/
theorem right_absorb (u0 u1 : Matrix (κ ⊕ κ) (κ ⊕ κ) R) :
    fromBlocks u0 0 0 (u1 * Zh R κ) = fromBlocks u0 0 0 u1 * CZm R κ := by
  simp [CZm, fromBlocks_multiply]

/-- **The cosine–sine step, block level.**  For all blocks `u0 u1 v0 v1` and every middle
operator `M`: the right circuit with the sign-flipped `u1`, after `CZ · M` (the
`last_control=False` multiplexer, `csd_nolast`), after the left circuit, equals
`diag(u0,u1) · M · diag(v0,v1)` — the two `CZ` cancel. -/
theorem csd_step_blocks (u0 u1 v0 v1 : Matrix (κ ⊕ κ) (κ ⊕ κ) R)
    (M : Matrix ((κ ⊕ κ) ⊕ (κ ⊕ κ)) ((κ ⊕ κ) ⊕ (κ ⊕ κ)) R) :
    fromBlocks u0 0 0 (u1 * Zh R κ) * (CZm R κ * M) * fromBlocks v0 0 0 v1
      = fromBlocks u0 0 0 u1 * M * fromBlocks v0 0 0 v1 := by
  rw [right_absorb, Matrix.mul_assoc (fromBlocks u0 0 0 u1), ← Matrix.mul_assoc (CZm R κ),
    CZm_mul_CZm, Matrix.one_mul]

/-- **The cosine–sine step reproduces the input.**  If `X = diag(u0,u1) · CS · diag(v0,v1)` (the
specification of `scipy.linalg.cossin`, an explicit hypothesis) then the synthesised circuit
operator — left blocks, then `CZ · CS`, then the right blocks with the right half of the columns
of `u1` negated — is `X`. -/
theorem csd_step (X CS : Matrix ((κ ⊕ κ) ⊕ (κ ⊕ κ)) ((κ ⊕ κ) ⊕ (κ ⊕ κ)) R)
    (u0 u1 v0 v1 : Matrix (κ ⊕ κ) (κ ⊕ κ) R)
    (hX : X = fromBlocks u0 0 0 u1 * CS * fromBlocks v0 0 0 v1) :
    fromBlocks u0 0 0 (u1 * Zh R κ) * (CZm R κ * CS) * fromBlocks v0 0 0 v1 = X := by
  rw [hX, csd_step_blocks]

/-- Non-vacuity of `csd_step`: `θ = π/2` (`C = 0`, `S = 1`), `κ = Unit`, over `ℤ`, with
blocks `u0 = u1 = v0 = v1 = 1`: the hypothesis holds with
`X = CS = [[0, -1], [1, 0]] ⊗ 1`, and the circuit operator is that `X`. -/
example :
    fromBlocks (1 : Matrix (Unit ⊕ Unit) (Unit ⊕ Unit) ℤ) 0 0 (1 * Zh ℤ Unit)
      * (CZm ℤ Unit * fromBlocks 0 (-1) 1 0) * fromBlocks 1 0 0 1 = fromBlocks 0 (-1) 1 0 :=
  csd_step _ _ 1 1 1 1 (by simp [fromBlocks_one])

/-- Non-vacuity / mutation contrast over `ℤ`, `κ = Unit`, all blocks the identity: the correct
sign flip (right half) gives back `diag(u0,u1) · M · diag(v0,v1) = 1` … -/
example :
    fromBlocks (1 : Matrix (Unit ⊕ Unit) (Unit ⊕ Unit) ℤ) 0 0 (1 * Zh ℤ Unit) * (CZm ℤ Unit * 1)
      * fromBlocks 1 0 0 1 = 1 := by
  rw [csd_step_blocks]; simp [fromBlocks_one]

/-- … while negating the LEFT half of the columns instead (the mutant `Zl`) does not: the entry
at (top = 1, next = 0) is `-1` instead of `1`. -/
example :
    fromBlocks (1 : Matrix (Unit ⊕ Unit) (Unit ⊕ Unit) ℤ) 0 0 (1 * Zl ℤ Unit) * (CZm ℤ Unit * 1)
      * fromBlocks 1 0 0 1 ≠ 1 := by
  intro h
  have h' := congrFun (congrFun h (Sum.inr (Sum.inl ()))) (Sum.inr (Sum.inl ()))
  simp [Zl, CZm, Zh, fromBlocks_multiply, fromBlocks_one] at h'

end Blocks

/-! ### (iii) the list model of the sign flip -/

/-- `Qclib.Uni.negRightHalf neg h rows` (the model of `m[:, h:] = -m[:, h:]`) keeps every entry
with column index `< h` and applies `neg` to every entry with column index `≥ h`; rows and row
lengths are unchanged. -/
theorem negRightHalf_getD {α : Type} (neg : α → α) (h : Nat) (rows : List (List α)) (z : α)
    (i j : Nat) (hi : i < rows.length) (hj : j < (rows.getD i []).length) :
    ((negRightHalf neg h rows).getD i []).getD j z
      = if j < h then (rows.getD i []).getD j z else neg ((rows.getD i []).getD j z) := by
  have hrow : (negRightHalf neg h rows).getD i []
      = (rows.getD i []).mapIdx (fun j x => if j < h then x else neg x) := by
    simp [negRightHalf, List.getD_eq_getElem?_getD, hi]
  rw [hrow]
  simp only [List.getD_eq_getElem?_getD, List.getElem?_mapIdx] at hj ⊢
  rw [List.getElem?_eq_getElem hj]
  simp only [Option.map_some, Option.getD_some]

theorem negRightHalf_length {α : Type} (neg : α → α) (h : Nat) (rows : List (List α)) :
    (negRightHalf neg h rows).length = rows.length := by
  simp [negRightHalf]

end Qclib.Uni
