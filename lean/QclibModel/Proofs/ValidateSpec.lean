import QclibModel.Proofs.Validate
/-
  C16: what each validator skeleton accepts, in exact arithmetic.  The skeletons below (`expDense`,
  `expIso`, `expU2`, `expUnitary`) are the step lists the proofs were written for; `Props/C16.lean`
  checks (`rfl`) that the lists generated from the current source are these, so a change of a
  test, a tolerance, a `raise` or the order of the statements invalidates the property theorems.
-/
set_option linter.unusedSimpArgs false
namespace Qclib.Validate

open Finset

variable {K : Type} [Field K] [LinearOrder K] [IsStrictOrderedRing K]

/-! ### decomposition lemmas for the interpreter -/

section interp
variable {α : Type} (o : NOps α) (A : Arr α)

theorem runStep_log2_ok (d : Dim) : runStep o A (.log2 d) = .ok () ↔ A.dim d ≠ 0 := by
  simp only [runStep]; split <;> simp_all

theorem runStep_rejectIf_ok (c : Cond) (e : String) :
    runStep o A (.rejectIf c e) = .ok () ↔ evalCond o A c = .ok false := by
  simp only [runStep]
  cases h : evalCond o A c with
  | error x => simp
  | ok b => cases b <;> simp

theorem evalCond_not_ok (c : Cond) (b : Bool) :
    evalCond o A (.not c) = .ok b ↔ evalCond o A c = .ok (!b) := by
  rw [evalCond]
  cases h : evalCond o A c with
  | error x => simp
  | ok v => cases v <;> cases b <;> simp

theorem evalCond_or_false (a b : Cond) :
    evalCond o A (.or a b) = .ok false ↔ evalCond o A a = .ok false ∧ evalCond o A b = .ok false := by
  rw [evalCond]
  cases h : evalCond o A a with
  | error x => simp
  | ok v => cases v <;> simp

theorem evalCond_atom (a : Atom) : evalCond o A (.atom a) = evalAtom o A a := by rw [evalCond]

theorem evalAtom_logIsInt (d : Dim) (b : Bool) :
    evalAtom o A (.logIsInt d) = .ok b ↔ A.dim d ≠ 0 ∧ isPow2 (A.dim d) = b := by
  simp only [evalAtom]; split <;> simp_all

theorem evalAtom_logEqZero (d : Dim) (b : Bool) :
    evalAtom o A (.logEqZero d) = .ok b ↔ A.dim d ≠ 0 ∧ (A.dim d == 1) = b := by
  simp only [evalAtom]; split <;> simp_all

theorem evalAtom_logNeg (d : Dim) (b : Bool) :
    evalAtom o A (.logNeg d) = .ok b ↔ A.dim d ≠ 0 ∧ b = false := by
  simp only [evalAtom]; split <;> simp_all [eq_comm]

theorem evalAtom_logGt_false (a b : Dim) :
    evalAtom o A (.logGt a b) = .ok false ↔ A.dim a ≠ 0 ∧ A.dim b ≠ 0 ∧ A.dim a ≤ A.dim b := by
  simp only [evalAtom]
  split
  · rename_i h
    simp only [Bool.or_eq_true, decide_eq_true_eq] at h
    simp only [reduceCtorEq, false_iff, not_and, not_le]
    intro ha hb
    rcases h with h | h <;> contradiction
  · rename_i h
    simp only [Bool.or_eq_true, decide_eq_true_eq, not_or] at h
    simp only [Except.ok.injEq, decide_eq_false_iff_not, not_lt]
    exact ⟨fun hh => ⟨h.1, h.2, hh⟩, fun hh => hh.2.2⟩

theorem evalAtom_normClose (r a : Dec) :
    evalAtom o A (.normClose r a) = .ok (mathIsclose o r a (vecNormSq o A) (o.ofNat 1)) := rfl
theorem evalAtom_gramClose (sd : Side) (r a : Dec) :
    evalAtom o A (.gramClose sd r a) = .ok (gramCloseB o A sd r a) := rfl
theorem evalAtom_ndimNe (k : Nat) : evalAtom o A (.ndimNe k) = .ok (A.ndim != k) := rfl
theorem evalAtom_rowsNeCols : evalAtom o A .rowsNeCols = .ok (A.rows != A.cols) := rfl
theorem evalAtom_shapeNe (r c : Nat) :
    evalAtom o A (.shapeNe r c) = .ok (!(A.ndim == 2 && A.rows == r && A.cols == c)) := rfl

end interp

/-! ### the four skeletons -/

/-- `Initialize._get_num_qubits`:
```
self.num_qubits = log2(len(params))
if self.num_qubits == 0 or not self.num_qubits.is_integer(): raise ValueError(…)
if not isclose(sum(np.absolute(params) ** 2), 1.0, rel_tol=0.0, abs_tol=1e-10): raise ValueError(…)
``` -/
def expDense : List Step := [
  .log2 .rows,
  .rejectIf (.or (.atom (.logEqZero .rows)) (.not (.atom (.logIsInt .rows)))) "ValueError",
  .rejectIf (.not (.atom (.normClose ⟨0, 0⟩ ⟨1, 10⟩))) "ValueError"]

/-- `decompose` + `_check_isometry` + `_is_isometry` (numpy defaults `rtol=1e-5`, `atol=1e-8`). -/
def expIso : List Step := [
  .log2 .rows,
  .log2 .cols,
  .rejectIf (.or (.not (.atom (.logIsInt .rows))) (.atom (.logNeg .rows))) "ValueError",
  .rejectIf (.or (.not (.atom (.logIsInt .cols))) (.atom (.logNeg .cols))) "ValueError",
  .rejectIf (.atom (.logGt .cols .rows)) "ValueError",
  .rejectIf (.not (.atom (.gramClose .left ⟨1, 5⟩ ⟨1, 8⟩))) "ValueError"]

/-- `check_u2`. -/
def expU2 : List Step := [
  .rejectIf (.atom (.shapeNe 2 2)) "ValueError",
  .rejectIf (.not (.atom (.gramClose .right ⟨1, 5⟩ ⟨1, 8⟩))) "ValueError"]

/-- the guard of `unitary()` (qiskit `is_unitary_matrix` defaults `rtol=1e-5`, `atol=1e-8`). -/
def expUnitary : List Step := [
  .rejectIf (.or (.atom (.ndimNe 2)) (.or (.atom .rowsNeCols) (.not (.atom (.logIsInt .rows))))) "ValueError",
  .rejectIf (.not (.atom (.gramClose .left ⟨1, 5⟩ ⟨1, 8⟩))) "ValueError"]

/-! ### validity conditions, as the property states them -/

/-- a state vector: length `2^n`, `n ≥ 1`, and `|Σ|a_k|² − 1| ≤ 10⁻¹⁰` -/
def DenseValid (A : Arr K) : Prop :=
  ∃ n, 1 ≤ n ∧ A.rows = 2 ^ n ∧ |normSqSum A - 1| ≤ 1 / 10 ^ 10

/-- an isometry: `2^n × 2^m`, `m ≤ n` (i.e. `cols ≤ rows`), every entry of `V†V` within
`10⁻⁸ + 10⁻⁵·δ_ij` of `δ_ij` -/
def IsoValid (A : Arr K) : Prop :=
  (∃ n, A.rows = 2 ^ n) ∧ (∃ m, A.cols = 2 ^ m) ∧ A.cols ≤ A.rows ∧
    GramClose (1 / 10 ^ 5) (1 / 10 ^ 8) A.cols (gramLRe A) (gramLIm A)

/-- a one-qubit operator: shape `(2,2)` and every entry of `U U†` within tolerance of `δ_ij` -/
def U2Valid (A : Arr K) : Prop :=
  A.ndim = 2 ∧ A.rows = 2 ∧ A.cols = 2 ∧ GramClose (1 / 10 ^ 5) (1 / 10 ^ 8) 2 (gramRRe A) (gramRIm A)

/-- a unitary: two-dimensional, square, `2^n × 2^n`, every entry of `U†U` within tolerance of `δ_ij` -/
def UnitaryValid (A : Arr K) : Prop :=
  A.ndim = 2 ∧ A.rows = A.cols ∧ (∃ n, A.rows = 2 ^ n) ∧
    GramClose (1 / 10 ^ 5) (1 / 10 ^ 8) A.cols (gramLRe A) (gramLIm A)

omit [LinearOrder K] [IsStrictOrderedRing K] in
theorem dec_1_5 : (⟨1, 5⟩ : Dec).val K = 1 / 10 ^ 5 := by simp [Dec.val]
omit [LinearOrder K] [IsStrictOrderedRing K] in
theorem dec_1_8 : (⟨1, 8⟩ : Dec).val K = 1 / 10 ^ 8 := by simp [Dec.val]
omit [LinearOrder K] [IsStrictOrderedRing K] in
theorem dec_1_10 : (⟨1, 10⟩ : Dec).val K = 1 / 10 ^ 10 := by simp [Dec.val]
omit [LinearOrder K] [IsStrictOrderedRing K] in
theorem dec_0_0 : (⟨0, 0⟩ : Dec).val K = 0 := by simp [Dec.val]

theorem pow2_ne_zero_of (n k : Nat) (h : n = 2 ^ k) : n ≠ 0 := by
  subst h; positivity

theorem expDense_ok_iff (A : Arr K) : run (fieldNOps K) A expDense = .ok () ↔ DenseValid A := by
  rw [run_ok_iff]
  simp only [expDense, List.forall_mem_cons, List.not_mem_nil, false_imp_iff, implies_true, and_true,
    runStep_log2_ok, runStep_rejectIf_ok, evalCond_or_false, evalCond_not_ok, evalCond_atom,
    evalAtom_logEqZero, evalAtom_logIsInt, Arr.dim, Bool.not_false, evalAtom_normClose, evalAtom_gramClose, evalAtom_ndimNe, evalAtom_rowsNeCols,
    evalAtom_shapeNe, Except.ok.injEq,
    mathIsclose_iff, vecNormSq_eq, dec_0_0, dec_1_10, isPow2_iff, beq_eq_false_iff_ne, ne_eq]
  rw [closeTo1_rel0 _ _ (by positivity)]
  unfold DenseValid
  constructor
  · rintro ⟨h0, ⟨⟨_, h1⟩, _, ⟨k, hk⟩⟩, hs⟩
    refine ⟨k, ?_, hk, hs⟩
    rcases Nat.eq_zero_or_pos k with rfl | hpos
    · exact absurd hk h1
    · exact hpos
  · rintro ⟨n, hn, hr, hs⟩
    have h0 : A.rows ≠ 0 := pow2_ne_zero_of _ _ hr
    refine ⟨h0, ⟨⟨h0, ?_⟩, h0, ⟨n, hr⟩⟩, hs⟩
    rw [hr]
    intro h
    have : 2 ^ 1 ≤ 2 ^ n := Nat.pow_le_pow_right (by norm_num) hn
    omega

theorem expIso_ok_iff (A : Arr K) : run (fieldNOps K) A expIso = .ok () ↔ IsoValid A := by
  rw [run_ok_iff]
  simp only [expIso, List.forall_mem_cons, List.not_mem_nil, false_imp_iff, implies_true, and_true,
    runStep_log2_ok, runStep_rejectIf_ok, evalCond_or_false, evalCond_not_ok, evalCond_atom,
    evalAtom_logNeg, evalAtom_logIsInt, evalAtom_logGt_false, Arr.dim, Bool.not_false,
    evalAtom_normClose, evalAtom_gramClose, evalAtom_ndimNe, evalAtom_rowsNeCols, evalAtom_shapeNe, Except.ok.injEq, gramCloseB_left_iff, dec_1_5, dec_1_8, isPow2_iff, ne_eq]
  unfold IsoValid
  constructor
  · rintro ⟨_, _, ⟨⟨_, hr⟩, _⟩, ⟨⟨_, hc⟩, _⟩, ⟨_, _, hle⟩, hg⟩
    exact ⟨hr, hc, hle, hg⟩
  · rintro ⟨⟨n, hr⟩, ⟨m, hc⟩, hle, hg⟩
    have h0 : A.rows ≠ 0 := pow2_ne_zero_of _ _ hr
    have h1 : A.cols ≠ 0 := pow2_ne_zero_of _ _ hc
    exact ⟨h0, h1, ⟨⟨h0, ⟨n, hr⟩⟩, h0⟩, ⟨⟨h1, ⟨m, hc⟩⟩, h1⟩, ⟨h1, h0, hle⟩, hg⟩

theorem expU2_ok_iff (A : Arr K) : run (fieldNOps K) A expU2 = .ok () ↔ U2Valid A := by
  rw [run_ok_iff]
  simp only [expU2, List.forall_mem_cons, List.not_mem_nil, false_imp_iff, implies_true, and_true,
    runStep_rejectIf_ok, evalCond_not_ok, evalCond_atom, Bool.not_false, evalAtom_gramClose,
    evalAtom_shapeNe, Except.ok.injEq, gramCloseB_right_iff, dec_1_5, dec_1_8, Bool.not_eq_false', Bool.and_eq_true,
    beq_iff_eq]
  unfold U2Valid
  constructor
  · rintro ⟨⟨⟨h1, h2⟩, h3⟩, hg⟩
    rw [h2] at hg
    exact ⟨h1, h2, h3, hg⟩
  · rintro ⟨h1, h2, h3, hg⟩
    refine ⟨⟨⟨h1, h2⟩, h3⟩, ?_⟩
    rw [h2]; exact hg

theorem expUnitary_ok_iff (A : Arr K) : run (fieldNOps K) A expUnitary = .ok () ↔ UnitaryValid A := by
  rw [run_ok_iff]
  simp only [expUnitary, List.forall_mem_cons, List.not_mem_nil, false_imp_iff, implies_true, and_true,
    runStep_rejectIf_ok, evalCond_or_false, evalCond_not_ok, evalCond_atom, Bool.not_false,
    evalAtom_normClose, evalAtom_gramClose, evalAtom_ndimNe, evalAtom_rowsNeCols, evalAtom_shapeNe, evalAtom_logIsInt, Arr.dim, Except.ok.injEq, gramCloseB_left_iff, dec_1_5, dec_1_8, isPow2_iff,
    bne_eq_false_iff_eq, ne_eq]
  unfold UnitaryValid
  constructor
  · rintro ⟨⟨h1, h2, _, h3⟩, hg⟩
    exact ⟨h1, h2, h3, hg⟩
  · rintro ⟨h1, h2, ⟨n, h3⟩, hg⟩
    exact ⟨⟨h1, h2, pow2_ne_zero_of _ _ h3, ⟨n, h3⟩⟩, hg⟩

/-- an invalid input is rejected, and the exception is a `ValueError` -/
theorem reject_of_not_valid (A : Arr K) (l : List Step) (hl : onlyValueError l = true) (P : Prop)
    (hiff : run (fieldNOps K) A l = .ok () ↔ P) (hP : ¬ P) :
    run (fieldNOps K) A l = .error "ValueError" := by
  rcases run_dichotomy (fieldNOps K) A l hl with h | h
  · exact absurd (hiff.1 h) hP
  · exact h

end Qclib.Validate
