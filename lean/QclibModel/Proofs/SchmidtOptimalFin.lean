import QclibModel.Proofs.SchmidtOptimal
import QclibModel.Proofs.SchmidtAlg
/-
  C07, optimality of the truncation: transfer of the abstract Eckart–Young–Mirsky bound
  (`Proofs/SchmidtOptimal.lean`) to the explicit finite sums (`sumTo`, `composeMat`, `inner2`,
  `gramCols`, `gramRows`) in which `C07_fidelity` is stated.  Scalars: `ℝ` or `ℂ` (`RCLike`).
-/
namespace Qclib.Schmidt
open Finset

variable {𝕜 : Type} [RCLike 𝕜]

/-- The first `m` entries of a sequence as a vector of `EuclideanSpace 𝕜 (Fin m)`. -/
noncomputable def vecOf (m : ℕ) (x : ℕ → 𝕜) : EuclideanSpace 𝕜 (Fin m) :=
  WithLp.toLp 2 (fun i : Fin m => x i)

theorem inner_vecOf (m : ℕ) (x y : ℕ → 𝕜) :
    inner 𝕜 (vecOf m x) (vecOf m y) = sumTo m (fun i => star (x i) * y i) := by
  unfold vecOf
  rw [EuclideanSpace.inner_toLp_toLp, sumTo_eq_sum, Finset.sum_range]
  unfold dotProduct
  exact Finset.sum_congr rfl (fun i _ => by simp [mul_comm])

theorem orthonormal_of_gramCols (rows k : ℕ) (U : ℕ → ℕ → 𝕜)
    (hU : ∀ i j, i < k → j < k → gramCols rows U i j = if i = j then 1 else 0) :
    Orthonormal 𝕜 (fun i : Fin k => vecOf rows (fun x => U x i)) := by
  rw [orthonormal_iff_ite]
  intro i j
  rw [inner_vecOf]
  have := hU i j i.isLt j.isLt
  simp only [gramCols] at this
  rw [this]
  simp only [Fin.val_inj]

theorem orthonormal_of_gramRows (cols k : ℕ) (V : ℕ → ℕ → 𝕜)
    (hV : ∀ i j, i < k → j < k → gramRows cols V i j = if i = j then 1 else 0) :
    Orthonormal 𝕜 (fun i : Fin k => vecOf cols (fun y => V i y)) := by
  rw [orthonormal_iff_ite]
  intro i j
  rw [inner_vecOf]
  have := hV i j i.isLt j.isLt
  simp only [gramRows] at this
  rw [this]
  simp only [Fin.val_inj]

/-- The matrix `Σ_{j<r} a_j ⊗ b_j` (rank `≤ r`; every matrix of rank `≤ r` has this form). -/
def sumOuter (r : ℕ) (a b : ℕ → ℕ → 𝕜) : ℕ → ℕ → 𝕜 :=
  fun x y => sumTo r (fun j => a j x * b j y)

/-- `⟪T, M⟫` in terms of the abstract pairing. -/
theorem inner2_sumOuter_compose (rows cols k r : ℕ) (U V : ℕ → ℕ → 𝕜) (s : ℕ → ℝ)
    (a b : ℕ → ℕ → 𝕜) :
    inner2 star rows cols (sumOuter r a b) (composeMat k U (fun i => (s i : 𝕜)) V)
      = ∑ j : Fin r, pairing 𝕜 k s (fun i => vecOf rows (fun x => U x i))
          (fun i => vecOf cols (fun y => V i y)) (vecOf rows (a j)) (vecOf cols (b j)) := by
  rw [← Finset.sum_range (fun j => pairing 𝕜 k s (fun i => vecOf rows (fun x => U x i))
          (fun i => vecOf cols (fun y => V i y)) (vecOf rows (a j)) (vecOf cols (b j)))]
  simp only [pairing, inner_vecOf, inner2, sumOuter, composeMat, sumTo_eq_sum]
  have hL : ∀ x y, star (∑ j ∈ range r, a j x * b j y) * (∑ i ∈ range k, U x i * (s i : 𝕜) * V i y)
      = ∑ j ∈ range r, ∑ i ∈ range k,
          star (a j x * b j y) * (U x i * (s i : 𝕜) * V i y) := by
    intro x y; rw [star_sum, Finset.sum_mul_sum]
  have hR : ∀ j i, (s i : 𝕜) * (∑ x ∈ range rows, star (a j x) * U x i)
        * (∑ y ∈ range cols, star (b j y) * V i y)
      = ∑ x ∈ range rows, ∑ y ∈ range cols,
          (s i : 𝕜) * ((star (a j x) * U x i) * (star (b j y) * V i y)) := by
    intro j i
    rw [mul_assoc, Finset.sum_mul_sum, Finset.mul_sum]
    refine Finset.sum_congr rfl (fun x _ => ?_)
    rw [Finset.mul_sum]
  simp only [hL, hR]
  rw [sum4_reorder]
  refine Finset.sum_congr rfl (fun j _ => Finset.sum_congr rfl (fun i _ => ?_))
  refine Finset.sum_congr rfl (fun x _ => Finset.sum_congr rfl (fun y _ => ?_))
  simp only [star_mul']
  ring

/-- `‖T‖_F²` in terms of the Gram matrices of the factors. -/
theorem frob_sumOuter (rows cols r : ℕ) (a b : ℕ → ℕ → 𝕜) :
    sumTo rows (fun x => sumTo cols (fun y => ‖sumOuter r a b x y‖ ^ 2))
      = RCLike.re (∑ j : Fin r, ∑ j' : Fin r,
          inner 𝕜 (vecOf rows (a j)) (vecOf rows (a j'))
            * inner 𝕜 (vecOf cols (b j)) (vecOf cols (b j'))) := by
  have key : ((sumTo rows (fun x => sumTo cols (fun y => ‖sumOuter r a b x y‖ ^ 2)) : ℝ) : 𝕜)
      = ∑ j : Fin r, ∑ j' : Fin r,
          inner 𝕜 (vecOf rows (a j)) (vecOf rows (a j'))
            * inner 𝕜 (vecOf cols (b j)) (vecOf cols (b j')) := by
    rw [← Finset.sum_range (fun j => ∑ j' : Fin r,
          inner 𝕜 (vecOf rows (a j)) (vecOf rows (a j'))
            * inner 𝕜 (vecOf cols (b j)) (vecOf cols (b j')))]
    have : ∀ j, ∑ j' : Fin r, inner 𝕜 (vecOf rows (a j)) (vecOf rows (a j'))
            * inner 𝕜 (vecOf cols (b j)) (vecOf cols (b j'))
        = ∑ j' ∈ range r, inner 𝕜 (vecOf rows (a j)) (vecOf rows (a j'))
            * inner 𝕜 (vecOf cols (b j)) (vecOf cols (b j')) := by
      intro j
      rw [← Finset.sum_range (fun j' => inner 𝕜 (vecOf rows (a j)) (vecOf rows (a j'))
            * inner 𝕜 (vecOf cols (b j)) (vecOf cols (b j')))]
    simp only [this]
    simp only [inner_vecOf, sumTo_eq_sum]
    push_cast
    have hL : ∀ x y, ((‖sumOuter r a b x y‖ : 𝕜)) ^ 2
        = ∑ j ∈ range r, ∑ j' ∈ range r, star (a j x * b j y) * (a j' x * b j' y) := by
      intro x y
      rw [← RCLike.conj_mul, sumOuter, sumTo_eq_sum, ← RCLike.star_def, star_sum,
        Finset.sum_mul_sum]
    have hR : ∀ j j', (∑ x ∈ range rows, star (a j x) * a j' x)
          * (∑ y ∈ range cols, star (b j y) * b j' y)
        = ∑ x ∈ range rows, ∑ y ∈ range cols,
            (star (a j x) * a j' x) * (star (b j y) * b j' y) := by
      intro j j'
      rw [Finset.sum_mul_sum]
    simp only [hL, hR]
    rw [sum4_reorder]
    refine Finset.sum_congr rfl (fun j _ => Finset.sum_congr rfl (fun j' _ => ?_))
    refine Finset.sum_congr rfl (fun x _ => Finset.sum_congr rfl (fun y _ => ?_))
    simp only [star_mul']
    ring
  rw [← key, RCLike.ofReal_re]

/-- **Optimality, rank `r`.**  Explicit-sum form of `pairing_rank_le`. -/
theorem optimal_rank (rows cols k r : ℕ) (hrk : r ≤ k) (U V : ℕ → ℕ → 𝕜) (s : ℕ → ℝ)
    (hU : ∀ i j, i < k → j < k → gramCols rows U i j = if i = j then 1 else 0)
    (hV : ∀ i j, i < k → j < k → gramRows cols V i j = if i = j then 1 else 0)
    (hs : ∀ i j, i ≤ j → j < k → s j ≤ s i) (hs0 : ∀ i, i < k → 0 ≤ s i)
    (a b : ℕ → ℕ → 𝕜) :
    ‖inner2 star rows cols (sumOuter r a b) (composeMat k U (fun i => (s i : 𝕜)) V)‖ ^ 2
      ≤ sumTo r (fun i => s i ^ 2)
        * sumTo rows (fun x => sumTo cols (fun y => ‖sumOuter r a b x y‖ ^ 2)) := by
  rw [inner2_sumOuter_compose, frob_sumOuter, sumTo_eq_sum]
  exact pairing_rank_le k r hrk s hs hs0 _ _ (orthonormal_of_gramCols rows k U hU)
    (orthonormal_of_gramRows cols k V hV) (fun j : Fin r => vecOf rows (a j))
    (fun j : Fin r => vecOf cols (b j))

/-- **Optimality, rank one.**  `|⟪a ⊗ b, M⟫|² ≤ s₀² ‖a‖² ‖b‖²`. -/
theorem optimal_rank1 (rows cols k : ℕ) (U V : ℕ → ℕ → 𝕜) (s : ℕ → ℝ)
    (hU : ∀ i j, i < k → j < k → gramCols rows U i j = if i = j then 1 else 0)
    (hV : ∀ i j, i < k → j < k → gramRows cols V i j = if i = j then 1 else 0)
    (hs : ∀ i j, i ≤ j → j < k → s j ≤ s i) (hs0 : ∀ i, i < k → 0 ≤ s i)
    (a b : ℕ → 𝕜) :
    ‖inner2 star rows cols (fun x y => a x * b y) (composeMat k U (fun i => (s i : 𝕜)) V)‖ ^ 2
      ≤ s 0 ^ 2 * sumTo rows (fun x => ‖a x‖ ^ 2) * sumTo cols (fun y => ‖b y‖ ^ 2) := by
  have h1 := inner2_sumOuter_compose rows cols k 1 U V s (fun _ => a) (fun _ => b)
  have hT : sumOuter 1 (fun _ => a) (fun _ => b) = fun x y => a x * b y := by
    funext x y
    simp [sumOuter, sumTo]
  rw [hT] at h1
  rw [h1]
  simp only [Finset.univ_unique, Fin.default_eq_zero, Finset.sum_singleton]
  have hn : ∀ (m : ℕ) (x : ℕ → 𝕜), ‖vecOf m x‖ ^ 2 = sumTo m (fun i => ‖x i‖ ^ 2) := by
    intro m x
    have h := inner_vecOf m x x
    rw [inner_self_eq_norm_sq_to_K] at h
    have h' : ((‖vecOf m x‖ ^ 2 : ℝ) : 𝕜) = ((sumTo m (fun i => ‖x i‖ ^ 2) : ℝ) : 𝕜) := by
      rw [sumTo_eq_sum] at h ⊢
      push_cast
      rw [h]
      exact Finset.sum_congr rfl (fun i _ => by rw [← RCLike.conj_mul, RCLike.star_def])
    exact_mod_cast h'
  rw [← hn rows a, ← hn cols b]
  refine pairing_rank1_le k s _ _ (orthonormal_of_gramCols rows k U hU)
    (orthonormal_of_gramRows cols k V hV) (s 0) (fun i hi => ?_) _ _
  rw [abs_of_nonneg (hs0 i hi)]
  exact hs 0 i (Nat.zero_le i) hi

/-- `⟪A, B⟫ = conj ⟪B, A⟫` for the entry-wise inner product. -/
theorem inner2_star_symm {K : Type} [CommRing K] [StarRing K] (rows cols : ℕ) (A B : ℕ → ℕ → K) :
    inner2 star rows cols A B = star (inner2 star rows cols B A) := by
  simp only [inner2, sumTo_eq_sum, star_sum]
  refine Finset.sum_congr rfl (fun x _ => Finset.sum_congr rfl (fun y _ => ?_))
  rw [star_mul', star_star, mul_comm]

theorem norm_inner2_symm (rows cols : ℕ) (A B : ℕ → ℕ → 𝕜) :
    ‖inner2 star rows cols A B‖ = ‖inner2 star rows cols B A‖ := by
  rw [inner2_star_symm, norm_star]

theorem sumTo_ofReal (k : ℕ) (f : ℕ → ℝ) :
    sumTo k (fun i => ((f i : ℝ) : 𝕜)) = ((sumTo k f : ℝ) : 𝕜) := by
  rw [sumTo_eq_sum, sumTo_eq_sum]
  push_cast
  rfl

end Qclib.Schmidt
