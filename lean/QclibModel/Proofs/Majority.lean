import QclibModel.Model.Majority
import QclibModel.Proofs.SemLemmas
import Mathlib.Data.Nat.Choose.Sum
import Mathlib.Algebra.BigOperators.Intervals
import Mathlib.Algebra.Group.Nat.Even
import Mathlib.Tactic.Ring
import Mathlib.Tactic.Linarith
/-
  C05 (majority gate): helper lemmas.

  A. `binom` (Pascal rows) is `Nat.choose`.
  B. Parity identity: for `p < w`, `∑_{j<w} C(j,p)·C(w,j+1)` is odd.
  C. Number of `k`-sublists of `l` all of whose members satisfy `q` is `C(#q in l, k)`.
  D. A list of `mcx` gates on one target not among the controls flips the target iff an odd
     number of the gates fire.
-/
namespace Qclib
open Finset

/-! ### A. Pascal rows -/

theorem nextRow_length (r : List Nat) : (nextRow r).length = r.length + 1 := by
  simp [nextRow]

theorem pascalRow_length (n : Nat) : (pascalRow n).length = n + 1 := by
  induction n with
  | zero => rfl
  | succ n ih => simp [pascalRow, nextRow_length, ih]

theorem nextRow_get_zero (r : List Nat) : (nextRow r)[0]?.getD 0 = r[0]?.getD 0 := by
  cases r <;> simp [nextRow]

theorem nextRow_get_succ (r : List Nat) (k : Nat) :
    (nextRow r)[k + 1]?.getD 0 = r[k]?.getD 0 + r[k + 1]?.getD 0 := by
  unfold nextRow
  rw [List.getElem?_zipWith, List.getElem?_cons_succ]
  by_cases h1 : k < r.length
  · by_cases h2 : k + 1 < r.length
    · rw [List.getElem?_append_left h2, List.getElem?_eq_getElem h1, List.getElem?_eq_getElem h2]
      simp
    · have h3 : r.length ≤ k + 1 := by omega
      rw [List.getElem?_append_right h3, List.getElem?_eq_getElem h1, List.getElem?_eq_none h3]
      have : k + 1 - r.length = 0 := by omega
      simp [this]
  · have h3 : r.length ≤ k := by omega
    rw [List.getElem?_eq_none h3, List.getElem?_eq_none (by omega : r.length ≤ k + 1)]
    simp

theorem binom_eq_choose (n k : Nat) : binom n k = n.choose k := by
  simp only [binom, List.getD_eq_getElem?_getD]
  induction n generalizing k with
  | zero =>
    cases k with
    | zero => rfl
    | succ k => simp [pascalRow]
  | succ n ih =>
    cases k with
    | zero => simp only [pascalRow, nextRow_get_zero, ih 0, Nat.choose_zero_right]
    | succ k => simp only [pascalRow, nextRow_get_succ, ih k, ih (k + 1), Nat.choose_succ_succ]

/-! ### C. Counting sublists -/

theorem combos_count {α : Type} (q : α → Bool) (k : Nat) (l : List α) :
    ((combos k l).filter (fun s => s.all q)).length = (l.countP q).choose k := by
  induction l generalizing k with
  | nil =>
    cases k <;> simp [combos, List.filter]
  | cons a l ih =>
    cases k with
    | zero => simp [combos, List.filter]
    | succ k =>
      simp only [combos, List.filter_append, List.length_append, List.filter_map,
        List.length_map]
      have hf : (combos k l).filter ((fun s => s.all q) ∘ fun x => a :: x)
          = if q a then (combos k l).filter (fun s => s.all q) else [] := by
        by_cases ha : q a = true
        · simp only [ha, if_true]
          congr 1
          funext s
          simp [ha]
        · simp only [ha]
          have : ((fun s : List α => s.all q) ∘ fun x => a :: x) = fun _ => false := by
            funext s
            simp [ha]
          simp [this]
      rw [hf, ih (k + 1)]
      by_cases ha : q a = true
      · simp only [ha, if_true, ih k, List.countP_cons_of_pos ha, Nat.choose_succ_succ]
      · simp [ha, List.countP_cons_of_neg ha]

/-! ### D. A list of `mcx` gates on one target -/

section Sem
variable {Θ R : Type} [CommRing R] [RotSem Θ R]

theorem ctrlOk_map_true (cs : List Nat) (b : Bits) :
    ctrlOk (cs.map (fun c => (c, true))) b = cs.all (fun c => b c) := by
  induction cs with
  | nil => rfl
  | cons c cs ih =>
    simp only [ctrlOk, List.map_cons, List.all_cons] at ih ⊢
    rw [ih]; simp

theorem denote_mcx (cs : List Nat) (t : Nat) (ψ : State R) (b : Bits) :
    denote (G.mcx cs t : G Θ) ψ b = if cs.all (fun c => b c) then ψ (flipBit b t) else ψ b := by
  rw [← setBit_not]
  simp only [denote, applyMcu, ctrlOk_map_true, Mat2.X]
  cases hc : cs.all (fun c => b c) <;> cases h : b t <;> simp

/-- Number of control lists in `l` all of whose wires are set in `b`. -/
def numFire (l : List (List Nat)) (b : Bits) : Nat :=
  (l.filter (fun s => s.all (fun c => b c))).length

theorem all_flipBit_of_not_mem {s : List Nat} {t : Nat} (h : t ∉ s) (b : Bits) :
    s.all (fun c => flipBit b t c) = s.all (fun c => b c) := by
  induction s with
  | nil => rfl
  | cons c s ih =>
    have hc : c ≠ t := fun e => h (e ▸ List.mem_cons_self)
    have hs : t ∉ s := fun e => h (List.mem_cons_of_mem _ e)
    simp only [List.all_cons, ih hs, flipBit_ne b hc]

theorem numFire_flipBit {l : List (List Nat)} {t : Nat} (h : ∀ s ∈ l, t ∉ s) (b : Bits) :
    numFire l (flipBit b t) = numFire l b := by
  unfold numFire
  congr 1
  apply List.filter_congr
  intro s hs
  exact all_flipBit_of_not_mem (h s hs) b

theorem sem_mcx_list (l : List (List Nat)) (t : Nat) (h : ∀ s ∈ l, t ∉ s) (ψ : State R)
    (b : Bits) :
    sem (l.map (fun s => (G.mcx s t : G Θ))) ψ b
      = ψ (if numFire l b % 2 = 1 then flipBit b t else b) := by
  induction l generalizing ψ with
  | nil => simp [sem, numFire]
  | cons s l ih =>
    have hs : t ∉ s := h s (List.mem_cons_self)
    have hl : ∀ s' ∈ l, t ∉ s' := fun s' hs' => h s' (List.mem_cons_of_mem _ hs')
    have hstep : sem ((s :: l).map (fun s => (G.mcx s t : G Θ))) ψ
        = sem (l.map (fun s => (G.mcx s t : G Θ))) (denote (G.mcx s t : G Θ) ψ) := rfl
    rw [hstep, ih hl, denote_mcx]
    have hcount : numFire (s :: l) b
        = (if s.all (fun c => b c) then 1 else 0) + numFire l b := by
      unfold numFire
      by_cases hf : s.all (fun c => b c) = true
      · rw [List.filter_cons_of_pos (by simpa using hf)]; simp [hf]; omega
      · rw [List.filter_cons_of_neg (by simpa using hf)]; simp [hf]
    by_cases hp : numFire l b % 2 = 1
    · simp only [hp, if_true, all_flipBit_of_not_mem hs, flipBit_flipBit, hcount]
      by_cases hf : s.all (fun c => b c) = true
      · have : (1 + numFire l b) % 2 ≠ 1 := by omega
        simp [hf, this]
      · simp [hf, hp]
    · simp only [hp, if_false, hcount]
      by_cases hf : s.all (fun c => b c) = true
      · have : (1 + numFire l b) % 2 = 1 := by omega
        simp [hf, this]
      · simp [hf, hp]

end Sem

/-! ### B. The parity identity -/

/-- `E(w) = ∑_{j ≤ w} C(j,p)·C(w,j) = C(w,p)·2^(w-p)`. -/
theorem sum_choose_mul (p w : Nat) (hp : p ≤ w) :
    ∑ j ∈ range (w + 1), j.choose p * w.choose j = w.choose p * 2 ^ (w - p) := by
  have h1 : ∑ j ∈ range (w + 1), j.choose p * w.choose j
      = ∑ j ∈ Ico p (w + 1), j.choose p * w.choose j := by
    rw [range_eq_Ico]
    symm
    apply sum_subset
    · intro x hx; simp only [mem_Ico] at hx ⊢; omega
    · intro x hx hx'
      simp only [mem_Ico] at hx hx'
      have : x < p := by omega
      simp [Nat.choose_eq_zero_of_lt this]
  rw [h1, sum_Ico_eq_sum_range]
  have h2 : ∀ i ∈ range (w + 1 - p),
      (p + i).choose p * w.choose (p + i) = w.choose p * (w - p).choose i := by
    intro i _
    rw [mul_comm, Nat.choose_mul (Nat.le_add_right p i)]
    simp
  rw [sum_congr rfl h2, ← mul_sum]
  have : w + 1 - p = (w - p) + 1 := by omega
  rw [this, Nat.sum_range_choose]

/-- `T(w) = ∑_{j < w} C(j,p)·C(w,j+1)`. -/
def majT (p w : Nat) : Nat := ∑ j ∈ range w, j.choose p * w.choose (j + 1)

theorem majT_succ (p w : Nat) :
    majT p (w + 1) = (∑ j ∈ range (w + 1), j.choose p * w.choose j) + majT p w := by
  unfold majT
  have : ∀ j, j.choose p * (w + 1).choose (j + 1)
      = j.choose p * w.choose j + j.choose p * w.choose (j + 1) := by
    intro j; rw [Nat.choose_succ_succ]; ring
  simp only [this, sum_add_distrib]
  congr 1
  rw [sum_range_succ]
  simp [Nat.choose_eq_zero_of_lt (Nat.lt_succ_self w)]

theorem majT_of_le (p w : Nat) (h : w ≤ p) : majT p w = 0 := by
  unfold majT
  apply sum_eq_zero
  intro j hj
  have : j < p := by have := mem_range.mp hj; omega
  simp [Nat.choose_eq_zero_of_lt this]

theorem majT_odd (p w : Nat) (h : p < w) : majT p w % 2 = 1 := by
  induction w with
  | zero => omega
  | succ w ih =>
    rw [majT_succ]
    by_cases hw : p < w
    · rw [sum_choose_mul p w (by omega)]
      have h2 : 2 ^ (w - p) = 2 * 2 ^ (w - p - 1) := by
        rw [← pow_succ']; congr 1; omega
      have := ih hw
      rw [h2, ← mul_assoc, mul_comm (w.choose p) 2, mul_assoc]
      omega
    · have hpw : p = w := by omega
      subst hpw
      rw [sum_choose_mul p p (le_refl _), majT_of_le p p (le_refl _)]
      simp

end Qclib
