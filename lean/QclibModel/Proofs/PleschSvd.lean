import QclibModel.Proofs.PleschAssembly
/-
  C01 (SVD assembly, T4): the circuit assembled by `SVDInitialize._define_initialize`
  (singular values on `reg_b`, CNOT fan-out `reg_b[k] → reg_a[k]`, `U` on `reg_b`, `V.T` on `reg_a`,
  NO `reverse_bits`) maps `|0…0⟩` to the target, amplitude by amplitude, for every `n` — given the
  SVD specification and the specifications of the three sub-circuits.  The state is reshaped to
  `2^(n//2) × 2^(n//2 + n%2)` (rows = the HIGH `n//2` bits of the index); `reg_a` are the low
  `n//2 + n%2` circuit qubits (= low index bits, the column), `reg_b` the high ones (the row).
-/
namespace Qclib.Plesch
open Qclib.Schmidt

/-! ### the registers of `svdPlan` -/

theorem svdPlan_regs (n : Nat) :
    (svdPlan n).regA = List.range (n / 2 + n % 2) ∧
    (svdPlan n).regB = (List.range (n / 2)).map (fun k => n / 2 + n % 2 + k) ∧
    (svdPlan n).cxs = fanList (svdPlan n).regA (svdPlan n).regB (n / 2) := ⟨rfl, rfl, rfl⟩

theorem regVal_range (k : Nat) (b : Bits) : regVal (List.range k) b = bitsVal k b := by
  have h1 := regVal_lt (List.range k) b
  rw [List.length_range] at h1
  apply eq_of_testBit_lt h1 (bitsVal_lt k b)
  intro j hj
  rw [regVal_testBit _ _ j (by rw [List.length_range]; exact hj), List.getElem_range,
    bitsVal_testBit k b j hj]

/-- The index on `k + h` wires splits into the low `k` wires and the `h` wires above them. -/
theorem bitsVal_split (k h : Nat) (b : Bits) :
    bitsVal (k + h) b
      = 2 ^ k * regVal ((List.range h).map (fun i => k + i)) b + bitsVal k b := by
  have hB := regVal_lt ((List.range h).map (fun i => k + i)) b
  rw [List.length_map, List.length_range] at hB
  have hlo := bitsVal_lt k b
  have hlt : 2 ^ k * regVal ((List.range h).map (fun i => k + i)) b + bitsVal k b < 2 ^ (k + h) := by
    rw [Nat.pow_add]
    have : 2 ^ k * (regVal ((List.range h).map (fun i => k + i)) b + 1) ≤ 2 ^ k * 2 ^ h :=
      Nat.mul_le_mul_left _ hB
    rw [Nat.mul_add] at this
    omega
  apply eq_of_testBit_lt (bitsVal_lt _ b) hlt
  intro j hj
  rw [bitsVal_testBit _ b j hj, Nat.testBit_two_pow_mul_add _ hlo]
  by_cases hjk : j < k
  · rw [if_pos hjk, bitsVal_testBit k b j hjk]
  · rw [if_neg hjk, regVal_testBit _ _ (j - k) (by rw [List.length_map, List.length_range]; omega),
      List.getElem_map, List.getElem_range]
    congr 1
    omega

section Main
variable {R : Type} [CommRing R]

/-- **SVD assembly (T4).**  `h = n // 2`, `k = n // 2 + n % 2`.  Hypotheses about the callees:
`hsvd` — `np.linalg.svd` specification on the reshaped state: `v[r·2^k + c] = Σ_{j<2^h} U[r,j]·
(t_j·nrm)·V[j,c]` (`t = d/‖d‖`, `nrm = ‖d‖`); `hMsv` — the sub-circuit for the singular values
(nested `SVDInitialize` or `TopDownInitialize`) has first column `t`; `hMU`, `hMV` — the unitaries
placed on `reg_b`, `reg_a` are `U` and `V.T` (only the first `2^h` columns of `V.T` matter).
Then for every input `ψ` vanishing whenever one of the wires `0…n-1` is set and every label `b`:
`nrm · (output amplitude at b) = v[index of b] · ψ(b with wires 0…n-1 cleared)`. -/
theorem svd_assembly (n : Nat) (v : Nat → R) (U V : Nat → Nat → R) (t : Nat → R) (nrm : R)
    (hsvd : ∀ r c, r < 2 ^ (n / 2) → c < 2 ^ (n / 2 + n % 2) →
      v (r * 2 ^ (n / 2 + n % 2) + c) = sumTo (2 ^ (n / 2)) (fun j => U r j * (t j * nrm) * V j c))
    (Msv MU MV : Nat → Nat → R)
    (hMsv : ∀ x, x < 2 ^ (n / 2) → Msv x 0 = t x)
    (hMU : ∀ x j, x < 2 ^ (n / 2) → j < 2 ^ (n / 2) → MU x j = U x j)
    (hMV : ∀ y j, y < 2 ^ (n / 2 + n % 2) → j < 2 ^ (n / 2) → MV y j = V j y)
    (ψ : State R) (hz : ZeroOn (List.range n) ψ) (b : Bits) :
    nrm * semP (svdCirc n Msv MU MV) ψ b = v (bitsVal n b) * ψ (clr (List.range n) b) := by
  obtain ⟨hA, hB, hcx⟩ := svdPlan_regs n
  generalize hh : n / 2 = h at *
  generalize hk : h + n % 2 = k at *
  have hn : n = k + h := by omega
  have hlenA : (svdPlan n).regA.length = k := by rw [hA, List.length_range]
  have hlenB : (svdPlan n).regB.length = h := by rw [hB, List.length_map, List.length_range]
  have hAnd : (svdPlan n).regA.Nodup := by rw [hA]; exact List.nodup_range
  have hBnd : (svdPlan n).regB.Nodup := by
    rw [hB]
    apply List.Nodup.map_on _ List.nodup_range
    intro x _ y _ hxy
    have hxy' : k + x = k + y := hxy
    omega
  have hmemB : ∀ w, w ∈ (svdPlan n).regB ↔ k ≤ w ∧ w < k + h := by
    intro w
    rw [hB, List.mem_map]
    constructor
    · rintro ⟨i, hi, rfl⟩
      have := List.mem_range.mp hi
      omega
    · rintro ⟨h1, h2⟩
      exact ⟨w - k, List.mem_range.mpr (by omega), by omega⟩
  have hAB : ∀ w ∈ (svdPlan n).regA, w ∉ (svdPlan n).regB := by
    intro w hwA hwB
    rw [hA] at hwA
    have := List.mem_range.mp hwA
    have := (hmemB w).mp hwB
    omega
  have hmem : ∀ w, w ∈ (svdPlan n).regA ++ (svdPlan n).regB ↔ w ∈ List.range n := by
    intro w
    rw [List.mem_append, hmemB, hA, List.mem_range, List.mem_range]
    omega
  have hz' : ∀ b', (∃ w ∈ (svdPlan n).regA ++ (svdPlan n).regB, b' w = true) → ψ b' = 0 :=
    ZeroOn_congr _ _ (fun w => (hmem w).symm) ψ hz
  have hcirc : svdCirc n Msv MU MV
      = [PG.block ((svdPlan n).regB.take h) Msv] ++
        (fanList (svdPlan n).regA (svdPlan n).regB h).map (fun ct => PG.cx ct.1 ct.2) ++
        [PG.block (svdPlan n).regB MU, PG.block (svdPlan n).regA MV] := by
    unfold svdCirc
    simp only []
    rw [hcx, List.take_of_length_le (by omega)]
  rw [hcirc, plesch_assembly_regs_sum _ _ hAnd hBnd hAB h (by omega) (by omega) Msv MU MV ψ hz' b,
    clr_congr _ _ hmem b]
  -- registers = row / column of the index
  have hyA : regVal (svdPlan n).regA b = bitsVal k b := by rw [hA]; exact regVal_range k b
  have hidx : bitsVal n b = regVal (svdPlan n).regB b * 2 ^ k + bitsVal k b := by
    have hs := bitsVal_split k h b
    rw [← hn] at hs
    rw [hs, hB, Nat.mul_comm]
  have hxlt : regVal (svdPlan n).regB b < 2 ^ h := by
    have := regVal_lt (svdPlan n).regB b
    rwa [hlenB] at this
  have hylt : bitsVal k b < 2 ^ k := bitsVal_lt k b
  rw [hidx, hsvd _ _ hxlt hylt, hyA, ← mul_assoc, ← sumTo_mul_left]
  congr 1
  apply sumTo_congr
  intro j hj
  rw [hMsv j hj, hMU _ j hxlt hj, hMV _ j hylt hj]
  ring

end Main

/-- Non-vacuity of `svd_assembly`: two qubits (`h = k = 1`), `3|00⟩ + 5|11⟩` over `ℤ`
(`U = V = I₂`, `t = (3, 5)`, `nrm = 1`), input `|00⟩`. -/
example (b : Bits) :
    let v : Nat → Int := fun i => if i = 0 then 3 else if i = 3 then 5 else 0
    let I2 : Nat → Nat → Int := fun r j => if r = j then 1 else 0
    let t : Nat → Int := fun j => if j = 0 then 3 else 5
    let ψ0 : State Int := fun b => if b 0 || b 1 then 0 else 1
    1 * semP (svdCirc 2 (fun x _ => t x) I2 I2) ψ0 b
      = v (bitsVal 2 b) * ψ0 (clr (List.range 2) b) := by
  intro v I2 t ψ0
  refine svd_assembly 2 v I2 I2 t 1 ?_ _ _ _ (fun _ _ => rfl) (fun _ _ _ _ => rfl) ?_ ψ0 ?_ b
  · intro r c hr hc
    have hr' : r = 0 ∨ r = 1 := by simp at hr; omega
    have hc' : c = 0 ∨ c = 1 := by simp at hc; omega
    rcases hr' with rfl | rfl <;> rcases hc' with rfl | rfl <;> decide
  · intro y j _ _
    show I2 y j = I2 j y
    simp only [I2, eq_comm]
  · rintro b' ⟨w, hw, hb'⟩
    have : w = 0 ∨ w = 1 := by
      have := List.mem_range.mp hw; omega
    rcases this with rfl | rfl <;> simp [ψ0, hb']

end Qclib.Plesch
