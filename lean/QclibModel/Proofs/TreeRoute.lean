import QclibModel.Proofs.SemLemmas
import QclibModel.Spec.Tree
/-
  Routing lemma of the controlled-swap network of
  `qclib/state_preparation/util/tree_walk.py::_apply_cswaps` (model: `cswapChain`, `applyCswaps`
  in Model/Tree.lean; specification: `chainPairs`, `swapPairs`, `cswapPerm` in Spec/Tree.lean),
  for every tree shape and height:

  * the gate list is `cswap c` mapped over `chainPairs l r`                  (`cswapChain_eq`)
  * its denotation is the relabelling `cswapPerm`                            (`sem_applyCswaps`)
  * `chainPairs l r` zips the `left` spine with the `leftmost` spine         (`chainPairs_eq_zip`)
  * on labels `swapPairs` exchanges the two components of every pair and fixes every other
    wire, and is an involution                                               (`swapPairs_*`)
  * all of it combined                                                        (`cswap_routing`)
-/
namespace Qclib

section
variable {Θ R : Type} [CommRing R] [RotSem Θ R]

/-! ### 1. The gate list -/

theorem cswapChain_eq (c : Nat) (l r : BT (QV Θ)) :
    cswapChain c l r = (chainPairs l r).map (fun p => G.cswap c p.1 p.2) := by
  induction l generalizing r with
  | nil => simp [cswapChain, chainPairs]
  | node vl ll lr ihl _ =>
    cases r with
    | nil => simp [cswapChain, chainPairs]
    | node vr rl rr => simp [cswapChain, chainPairs, ihl]

/-! ### Labels: `swapBits` -/

theorem swapBits_left (x y : Nat) (b : Bits) : swapBits x y b x = b y := by simp [swapBits]

theorem swapBits_right (x y : Nat) (b : Bits) : swapBits x y b y = b x := by
  by_cases h : y = x <;> simp [swapBits, h]

theorem swapBits_other_tr (x y : Nat) (b : Bits) {w : Nat} (hx : w ≠ x) (hy : w ≠ y) :
    swapBits x y b w = b w := by simp [swapBits, hx, hy]

theorem swapBits_invol (x y : Nat) (b : Bits) : swapBits x y (swapBits x y b) = b := by
  funext i
  by_cases hx : i = x
  · subst hx; rw [swapBits_left, swapBits_right]
  · by_cases hy : i = y
    · subst hy; rw [swapBits_right, swapBits_left]
    · rw [swapBits_other_tr _ _ _ hx hy, swapBits_other_tr _ _ _ hx hy]

/-! ### 6c. Wires outside the pairs are untouched (no `Nodup` needed) -/

theorem swapPairs_nil (b : Bits) : swapPairs [] b = b := rfl

theorem swapPairs_cons (x y : Nat) (ps : List (Nat × Nat)) (b : Bits) :
    swapPairs ((x, y) :: ps) b = swapBits x y (swapPairs ps b) := rfl

theorem swapPairs_other (ps : List (Nat × Nat)) (b : Bits) (w : Nat)
    (hw : ∀ p ∈ ps, p.1 ≠ w ∧ p.2 ≠ w) : swapPairs ps b w = b w := by
  induction ps with
  | nil => rfl
  | cons p ps ih =>
    obtain ⟨x, y⟩ := p
    have h0 := hw (x, y) (List.mem_cons_self ..)
    rw [swapPairs_cons, swapBits_other_tr _ _ _ (Ne.symm h0.1) (Ne.symm h0.2)]
    exact ih (fun p hp => hw p (List.mem_cons_of_mem _ hp))

/-! ### 2, 3, 4. Denotation -/

theorem denote_cswap (c x y : Nat) (ψ : State R) (b : Bits) :
    denote (G.cswap c x y : G Θ) ψ b = ψ (if b c then swapBits x y b else b) := rfl

theorem sem_cons (g : G Θ) (gs : Circ Θ) (ψ : State R) :
    sem (g :: gs) ψ = sem gs (denote g ψ) := rfl

theorem sem_cswaps (c : Nat) (ps : List (Nat × Nat)) (hc : ∀ p ∈ ps, p.1 ≠ c ∧ p.2 ≠ c)
    (ψ : State R) (b : Bits) :
    sem (ps.map (fun p => (G.cswap c p.1 p.2 : G Θ))) ψ b
      = ψ (if b c then swapPairs ps b else b) := by
  induction ps generalizing ψ with
  | nil => simp [sem_nil, swapPairs_nil]
  | cons p ps ih =>
    obtain ⟨x, y⟩ := p
    have hc' : ∀ p ∈ ps, p.1 ≠ c ∧ p.2 ≠ c := fun p hp => hc p (List.mem_cons_of_mem _ hp)
    rw [List.map_cons, sem_cons, ih hc', denote_cswap]
    cases hb : b c
    · simp [hb]
    · have : swapPairs ps b c = true := by rw [swapPairs_other ps b c hc', hb]
      simp [this, swapPairs_cons]

theorem sem_applyCswaps (o : TOps Θ) (v : QV Θ) (l r : BT (QV Θ))
    (hc : ∀ p ∈ chainPairs l r, p.1 ≠ wire v.q ∧ p.2 ≠ wire v.q) (ψ : State R) (b : Bits) :
    sem (applyCswaps o (.node v l r)) ψ b = ψ (cswapPerm o (.node v l r) b) := by
  cases hz : o.neZero v.y
  · simp [applyCswaps, cswapPerm, hz, sem_nil]
  · simp only [applyCswaps, cswapPerm, hz, if_true, Bool.true_and]
    rw [cswapChain_eq, sem_cswaps _ _ hc]

/-! ### 5. `chainPairs` zips the two spines -/

theorem BT.size_leftmost_le {α : Type} (v : α) (l r : BT α) :
    (BT.leftmost (.node v l r)).size ≤ l.size + r.size := by
  simp only [BT.leftmost]
  split <;> omega

theorem lmSpineAux_nil (f : Nat) : lmSpineAux f (.nil : BT (QV Θ)) = [] := by
  cases f <;> rfl

/-- Any two fuels that are at least the size of the tree give the same `leftmost` spine. -/
theorem lmSpineAux_fuel (f g : Nat) (t : BT (QV Θ)) (hf : t.size ≤ f) (hg : t.size ≤ g) :
    lmSpineAux f t = lmSpineAux g t := by
  induction f generalizing g t with
  | zero =>
    cases t with
    | nil => rw [lmSpineAux_nil, lmSpineAux_nil]
    | node v l r => simp [BT.size] at hf
  | succ f ih =>
    cases t with
    | nil => rw [lmSpineAux_nil, lmSpineAux_nil]
    | node v l r =>
      cases g with
      | zero => simp [BT.size] at hg
      | succ g =>
        have hs := BT.size_leftmost_le v l r
        simp only [BT.size] at hf hg
        simp only [lmSpineAux]
        rw [ih g _ (by omega) (by omega)]

/-- More fuel than `size` does not change `lmSpineAux`. -/
theorem lmSpineAux_size (f : Nat) (t : BT (QV Θ)) (hf : t.size ≤ f) :
    lmSpineAux f t = lmSpine t :=
  lmSpineAux_fuel f t.size t hf (Nat.le_refl _)

theorem lmSpine_nil : lmSpine (.nil : BT (QV Θ)) = [] := rfl

theorem lmSpine_node (v : QV Θ) (l r : BT (QV Θ)) :
    lmSpine (.node v l r) = wire v.q :: lmSpine (BT.leftmost (.node v l r)) := by
  show lmSpineAux (l.size + r.size + 1) (.node v l r) = _
  simp only [lmSpineAux]
  rw [lmSpineAux_size _ _ (BT.size_leftmost_le v l r)]

theorem chainPairs_eq_zip (l r : BT (QV Θ)) :
    chainPairs l r = List.zip (leftSpine l) (lmSpine r) := by
  induction l generalizing r with
  | nil => simp [chainPairs, leftSpine]
  | node vl ll lr ihl _ =>
    cases r with
    | nil => simp [chainPairs, lmSpine_nil]
    | node vr rl rr =>
      rw [lmSpine_node]
      simp only [chainPairs, leftSpine, List.zip_cons_cons, ihl]

/-! ### 6. Routing on labels -/

/-- The first components followed by the second components are pairwise distinct. -/
def PairsNodup (ps : List (Nat × Nat)) : Prop := (ps.map Prod.fst ++ ps.map Prod.snd).Nodup

theorem PairsNodup.cons {x y : Nat} {ps : List (Nat × Nat)} (h : PairsNodup ((x, y) :: ps)) :
    x ≠ y ∧ (∀ p ∈ ps, (p.1 ≠ x ∧ p.2 ≠ x) ∧ (p.1 ≠ y ∧ p.2 ≠ y)) ∧ PairsNodup ps := by
  unfold PairsNodup at h ⊢
  simp only [List.map_cons, List.cons_append, List.nodup_cons, List.nodup_append, List.mem_append,
    List.mem_cons, List.mem_map, not_or, ne_eq] at h ⊢
  obtain ⟨⟨hx1, hxy, hx2⟩, h1, ⟨hy2, h2⟩, h12⟩ := h
  refine ⟨hxy, ?_, h1, h2, fun a ha c hc => h12 a ha c (Or.inr hc)⟩
  intro p hp
  refine ⟨⟨fun e => hx1 ⟨p, hp, e⟩, fun e => hx2 ⟨p, hp, e⟩⟩, fun e => ?_, fun e => hy2 ⟨p, hp, e⟩⟩
  exact h12 p.1 ⟨p, hp, rfl⟩ y (Or.inl rfl) e

theorem swapPairs_fst_mem (ps : List (Nat × Nat)) (hnd : PairsNodup ps) (b : Bits) :
    ∀ p ∈ ps, swapPairs ps b p.1 = b p.2 := by
  induction ps with
  | nil => intro p hp; cases hp
  | cons q ps ih =>
    obtain ⟨x, y⟩ := q
    obtain ⟨_, hdis, hnd'⟩ := hnd.cons
    intro p hp
    rw [swapPairs_cons]
    rcases List.mem_cons.1 hp with rfl | hp
    · rw [swapBits_left]
      exact swapPairs_other ps b y (fun p hp => (hdis p hp).2)
    · rw [swapBits_other_tr _ _ _ (hdis p hp).1.1 (hdis p hp).2.1]
      exact ih hnd' p hp

theorem swapPairs_snd_mem (ps : List (Nat × Nat)) (hnd : PairsNodup ps) (b : Bits) :
    ∀ p ∈ ps, swapPairs ps b p.2 = b p.1 := by
  induction ps with
  | nil => intro p hp; cases hp
  | cons q ps ih =>
    obtain ⟨x, y⟩ := q
    obtain ⟨_, hdis, hnd'⟩ := hnd.cons
    intro p hp
    rw [swapPairs_cons]
    rcases List.mem_cons.1 hp with rfl | hp
    · rw [swapBits_right]
      exact swapPairs_other ps b x (fun p hp => (hdis p hp).1)
    · rw [swapBits_other_tr _ _ _ (hdis p hp).1.2 (hdis p hp).2.2]
      exact ih hnd' p hp

theorem swapPairs_fst (ps : List (Nat × Nat))
    (hnd : (ps.map Prod.fst ++ ps.map Prod.snd).Nodup) (b : Bits) (i : Nat) (h : i < ps.length) :
    swapPairs ps b (ps[i].1) = b (ps[i].2) :=
  swapPairs_fst_mem ps hnd b _ (List.getElem_mem h)

theorem swapPairs_snd (ps : List (Nat × Nat))
    (hnd : (ps.map Prod.fst ++ ps.map Prod.snd).Nodup) (b : Bits) (i : Nat) (h : i < ps.length) :
    swapPairs ps b (ps[i].2) = b (ps[i].1) :=
  swapPairs_snd_mem ps hnd b _ (List.getElem_mem h)

theorem swapPairs_invol (ps : List (Nat × Nat))
    (hnd : (ps.map Prod.fst ++ ps.map Prod.snd).Nodup) (b : Bits) :
    swapPairs ps (swapPairs ps b) = b := by
  funext w
  by_cases h1 : ∃ p ∈ ps, p.1 = w
  · obtain ⟨p, hp, rfl⟩ := h1
    rw [swapPairs_fst_mem ps hnd _ p hp, swapPairs_snd_mem ps hnd _ p hp]
  · by_cases h2 : ∃ p ∈ ps, p.2 = w
    · obtain ⟨p, hp, rfl⟩ := h2
      rw [swapPairs_snd_mem ps hnd _ p hp, swapPairs_fst_mem ps hnd _ p hp]
    · have hw : ∀ p ∈ ps, p.1 ≠ w ∧ p.2 ≠ w :=
        fun p hp => ⟨fun e => h1 ⟨p, hp, e⟩, fun e => h2 ⟨p, hp, e⟩⟩
      rw [swapPairs_other ps _ w hw, swapPairs_other ps _ w hw]

/-! ### 7. The routing statement for one node -/

/-- If the node's angle is non-zero and its qubit reads 1, after the network the wires of the left
child's spine carry what the right child's leftmost spine carried and vice versa, every other wire
(in particular the node's own qubit) is unchanged; if the angle is zero or the qubit reads 0
nothing moves. -/
theorem cswap_routing (o : TOps Θ) (v : QV Θ) (l r : BT (QV Θ))
    (hnd : ((chainPairs l r).map Prod.fst ++ (chainPairs l r).map Prod.snd).Nodup)
    (hc : ∀ p ∈ chainPairs l r, p.1 ≠ wire v.q ∧ p.2 ≠ wire v.q) (b : Bits) :
    ((o.neZero v.y && b (wire v.q)) = true →
        (∀ p ∈ chainPairs l r,
          cswapPerm o (.node v l r) b p.1 = b p.2 ∧ cswapPerm o (.node v l r) b p.2 = b p.1)
        ∧ (∀ w, (∀ p ∈ chainPairs l r, p.1 ≠ w ∧ p.2 ≠ w) → cswapPerm o (.node v l r) b w = b w)
        ∧ cswapPerm o (.node v l r) b (wire v.q) = b (wire v.q))
    ∧ ((o.neZero v.y && b (wire v.q)) = false → cswapPerm o (.node v l r) b = b) := by
  refine ⟨fun ht => ?_, fun hf => ?_⟩
  · have e : cswapPerm o (.node v l r) b = swapPairs (chainPairs l r) b := by
      simp only [cswapPerm, ht, if_true]
    rw [e]
    exact ⟨fun p hp => ⟨swapPairs_fst_mem _ hnd b p hp, swapPairs_snd_mem _ hnd b p hp⟩,
      fun w hw => swapPairs_other _ b w hw, swapPairs_other _ b _ hc⟩
  · simp only [cswapPerm, hf]
    rfl

/-- The same in terms of the two spines: position `i` of the left child's `left` spine and position
`i` of the right child's `leftmost` spine exchange their contents (as far as both spines reach). -/
theorem cswap_routing_spine (o : TOps Θ) (v : QV Θ) (l r : BT (QV Θ))
    (hnd : ((chainPairs l r).map Prod.fst ++ (chainPairs l r).map Prod.snd).Nodup) (b : Bits)
    (ht : (o.neZero v.y && b (wire v.q)) = true)
    (i : Nat) (hl : i < (leftSpine l).length) (hr : i < (lmSpine r).length) :
    cswapPerm o (.node v l r) b ((leftSpine l)[i]) = b ((lmSpine r)[i])
      ∧ cswapPerm o (.node v l r) b ((lmSpine r)[i]) = b ((leftSpine l)[i]) := by
  have e : cswapPerm o (.node v l r) b = swapPairs (chainPairs l r) b := by
    simp only [cswapPerm, ht, if_true]
  have hm : ((leftSpine l)[i], (lmSpine r)[i]) ∈ chainPairs l r := by
    rw [chainPairs_eq_zip]
    have hi : i < (List.zip (leftSpine l) (lmSpine r)).length := by
      rw [List.length_zip]; omega
    have := List.getElem_mem hi
    rwa [List.getElem_zip] at this
  rw [e]
  exact ⟨swapPairs_fst_mem _ hnd b _ hm, swapPairs_snd_mem _ hnd b _ hm⟩

end

#print axioms sem_applyCswaps
#print axioms cswap_routing
#print axioms cswap_routing_spine

end Qclib
