import QclibModel.Proofs.SemLemmas
import QclibModel.Proofs.UnitaryIso
import Mathlib.Data.Matrix.Block
import Mathlib.Data.Matrix.Mul
import Mathlib.Algebra.BigOperators.Ring.Finset
import Mathlib.Tactic.Ring
/-
  C02/C03 — "an `n`-qubit gate list denotes the `2^n × 2^n` matrix `M`", on top of the
  amplitude-function semantics.

  * `QI n = Idx Unit n`: the index set of `n` qubits as an `n`-fold sum; the OUTER summand is the TOP
    qubit (wire `n-1`), so `Matrix.fromBlocks` is literally "block structure over the top qubit"
    and the Mathlib block lemmas (`fromBlocks_multiply`, …) apply.
  * `enc n b : QI n` reads the wires `0 … n-1` of a label; `over n j b` overwrites them with `j`;
    `natOf n j` is the little-endian number (wire `i` has weight `2^i`).
  * `applyMat n M ψ b = Σ_j M (enc n b) j · ψ (over n j b)`: `M` acting on the wires `0 … n-1`
    (little-endian), identity on every other wire, for EVERY state `ψ`.
  * composition laws: product of matrices ↔ composition of transformers (`applyMat_mul`),
    block-diagonal ↔ multiplexer on the top wire (`applyMat_blockDiag`), `M ⊕ M` ↔ the same
    transformer one level down (`applyMat_same`), 2×2 blocks of diagonals ↔ `applyFam` on the
    top wire (`applyMat_diagBlocks`).
-/
namespace Qclib.Uni
open Qclib Matrix

/-- index set of `n` qubits; outer `Sum` = the top qubit (wire `n-1`). -/
abbrev QI (n : Nat) : Type := Idx Unit n

/-- decidable equality on `Idx κ t` by recursion (the step is the `Sum` instance). -/
@[instance_reducible]
def Idx.decEq {κ : Type} [DecidableEq κ] : (t : Nat) → DecidableEq (Idx κ t)
  | 0 => (inferInstance : DecidableEq κ)
  | t + 1 => @instDecidableEqSum _ _ (Idx.decEq t) (Idx.decEq t)

instance {κ : Type} [DecidableEq κ] (t : Nat) : DecidableEq (Idx κ t) := Idx.decEq t

/-- the wires `0 … n-1` of a label as an index. -/
def enc : (n : Nat) → Bits → QI n
  | 0, _ => ()
  | n + 1, b => if b n then Sum.inr (enc n b) else Sum.inl (enc n b)

/-- bit `q` of an index (`false` for `q ≥ n`). -/
def bitOf : (n : Nat) → QI n → Nat → Bool
  | 0, _, _ => false
  | n + 1, Sum.inl j, q => if q = n then false else bitOf n j q
  | n + 1, Sum.inr j, q => if q = n then true else bitOf n j q

/-- overwrite the wires `0 … n-1` of `b` with the index `j`. -/
def over (n : Nat) (j : QI n) (b : Bits) : Bits := fun q => if q < n then bitOf n j q else b q

/-- little-endian number of an index: wire `i` has weight `2^i`. -/
def natOf : (n : Nat) → QI n → Nat
  | 0, _ => 0
  | n + 1, Sum.inl j => natOf n j
  | n + 1, Sum.inr j => natOf n j + 2 ^ n

/-! ### labels -/

theorem enc_succ_true (n : Nat) (b : Bits) (h : b n = true) :
    enc (n + 1) b = (Sum.inr (enc n b) : QI (n + 1)) := by
  show (if b n then (Sum.inr (enc n b) : QI (n + 1)) else Sum.inl (enc n b)) = _
  rw [if_pos h]

theorem enc_succ_false (n : Nat) (b : Bits) (h : b n = false) :
    enc (n + 1) b = (Sum.inl (enc n b) : QI (n + 1)) := by
  show (if b n then (Sum.inr (enc n b) : QI (n + 1)) else Sum.inl (enc n b)) = _
  rw [if_neg (by rw [h]; exact Bool.false_ne_true)]

theorem bitOf_inl (n : Nat) (j : QI n) (q : Nat) :
    bitOf (n + 1) (Sum.inl j : QI (n + 1)) q = if q = n then false else bitOf n j q := rfl

theorem bitOf_inr (n : Nat) (j : QI n) (q : Nat) :
    bitOf (n + 1) (Sum.inr j : QI (n + 1)) q = if q = n then true else bitOf n j q := rfl

/-- a sum over the indices of `n+1` qubits splits over the top qubit. -/
theorem sum_QI_succ {M : Type} [AddCommMonoid M] (n : Nat) (f : QI (n + 1) → M) :
    ∑ j, f j = (∑ j : QI n, f (Sum.inl j)) + ∑ j : QI n, f (Sum.inr j) :=
  Fintype.sum_sum_type (α₁ := QI n) (α₂ := QI n) f

theorem enc_congr (n : Nat) {b b' : Bits} (h : ∀ q, q < n → b q = b' q) : enc n b = enc n b' := by
  induction n with
  | zero => rfl
  | succ n ih =>
    have e := ih (fun q hq => h q (Nat.lt_succ_of_lt hq))
    have hn := h n (Nat.lt_succ_self n)
    cases hb : b n
    · rw [enc_succ_false n b hb, enc_succ_false n b' (hn ▸ hb), e]
    · rw [enc_succ_true n b hb, enc_succ_true n b' (hn ▸ hb), e]

theorem over_ge (n : Nat) (j : QI n) (b : Bits) {q : Nat} (h : n ≤ q) : over n j b q = b q := by
  simp only [over, if_neg (Nat.not_lt.mpr h)]

theorem over_lt (n : Nat) (j : QI n) (b : Bits) {q : Nat} (h : q < n) :
    over n j b q = bitOf n j q := by
  simp only [over, if_pos h]

theorem over_succ_inl (n : Nat) (j : QI n) (b : Bits) :
    over (n + 1) (Sum.inl j : QI (n + 1)) b = setBit (over n j b) n false := by
  funext q
  simp only [over, setBit, bitOf_inl]
  by_cases h1 : q = n
  · subst h1; simp
  · by_cases h2 : q < n
    · simp [h1, h2, Nat.lt_succ_of_lt h2]
    · have : ¬ q < n + 1 := by omega
      simp [h1, h2, this]

theorem over_succ_inr (n : Nat) (j : QI n) (b : Bits) :
    over (n + 1) (Sum.inr j : QI (n + 1)) b = setBit (over n j b) n true := by
  funext q
  simp only [over, setBit, bitOf_inr]
  by_cases h1 : q = n
  · subst h1; simp
  · by_cases h2 : q < n
    · simp [h1, h2, Nat.lt_succ_of_lt h2]
    · have : ¬ q < n + 1 := by omega
      simp [h1, h2, this]

theorem enc_setBit_ge (n : Nat) (b : Bits) {t : Nat} (v : Bool) (h : n ≤ t) :
    enc n (setBit b t v) = enc n b :=
  enc_congr n (fun q hq => setBit_ne b v (by omega))

theorem enc_over (n : Nat) (j : QI n) (b : Bits) : enc n (over n j b) = j := by
  induction n generalizing b with
  | zero => rfl
  | succ n ih =>
    cases j with
    | inl j =>
      rw [over_succ_inl, enc_succ_false n _ (setBit_eq _ _ _),
        enc_setBit_ge n _ false (Nat.le_refl n), ih]
    | inr j =>
      rw [over_succ_inr, enc_succ_true n _ (setBit_eq _ _ _),
        enc_setBit_ge n _ true (Nat.le_refl n), ih]

theorem over_over (n : Nat) (j k : QI n) (b : Bits) : over n k (over n j b) = over n k b := by
  funext q
  simp only [over]
  split <;> rfl

theorem bitOf_enc (n : Nat) (b : Bits) {q : Nat} (h : q < n) : bitOf n (enc n b) q = b q := by
  induction n with
  | zero => omega
  | succ n ih =>
    cases hb : b n
    · rw [enc_succ_false n b hb, bitOf_inl]
      by_cases hq : q = n
      · rw [if_pos hq, hq, hb]
      · rw [if_neg hq]; exact ih (by omega)
    · rw [enc_succ_true n b hb, bitOf_inr]
      by_cases hq : q = n
      · rw [if_pos hq, hq, hb]
      · rw [if_neg hq]; exact ih (by omega)

theorem over_enc (n : Nat) (b : Bits) : over n (enc n b) b = b := by
  funext q
  simp only [over]
  split
  · exact bitOf_enc n b (by assumption)
  · rfl

/-- overwriting the low `n` wires commutes with setting a wire `≥ n`. -/
theorem over_setBit_ge (n : Nat) (j : QI n) (b : Bits) {t : Nat} (v : Bool) (h : n ≤ t) :
    over n j (setBit b t v) = setBit (over n j b) t v := by
  funext q
  simp only [over, setBit]
  by_cases hq : q < n
  · have : q ≠ t := by omega
    simp [hq, this]
  · simp [hq]

/-! ### the action of a matrix on the wires `0 … n-1` -/

section act
variable {R : Type} [CommRing R]

/-- `M` acting on the wires `0 … n-1` (little-endian), identity on every other wire. -/
def applyMat (n : Nat) (M : Matrix (QI n) (QI n) R) (ψ : State R) : State R :=
  fun b => ∑ j, M (enc n b) j * ψ (over n j b)

/-- a transformer denotes the matrix `M` on the wires `0 … n-1`. -/
def DenotesMat (n : Nat) (T : State R → State R) (M : Matrix (QI n) (QI n) R) : Prop :=
  ∀ ψ, T ψ = applyMat n M ψ

/-- product of matrices ↔ composition (the right factor acts first). -/
theorem applyMat_mul (n : Nat) (A B : Matrix (QI n) (QI n) R) (ψ : State R) :
    applyMat n (A * B) ψ = applyMat n A (applyMat n B ψ) := by
  funext b
  simp only [applyMat, enc_over, over_over, Matrix.mul_apply, Finset.sum_mul, Finset.mul_sum]
  rw [Finset.sum_comm]
  refine Finset.sum_congr rfl (fun j _ => Finset.sum_congr rfl (fun k _ => ?_))
  ring

theorem applyMat_one (n : Nat) (ψ : State R) : applyMat n (1 : Matrix (QI n) (QI n) R) ψ = ψ := by
  funext b
  simp only [applyMat, Matrix.one_apply]
  rw [Finset.sum_eq_single (enc n b)]
  · rw [if_pos rfl, one_mul, over_enc]
  · intro j _ hj
    rw [if_neg (Ne.symm hj), zero_mul]
  · intro h; exact absurd (Finset.mem_univ _) h

/-- general 2×2 block matrix over the top wire `n`. -/
theorem applyMat_blocks (n : Nat) (A B C D : Matrix (QI n) (QI n) R) (ψ : State R) (b : Bits) :
    applyMat (n + 1) (fromBlocks A B C D : Matrix (QI (n + 1)) (QI (n + 1)) R) ψ b
      = if b n then
          (∑ j, C (enc n b) j * ψ (setBit (over n j b) n false))
            + ∑ j, D (enc n b) j * ψ (setBit (over n j b) n true)
        else
          (∑ j, A (enc n b) j * ψ (setBit (over n j b) n false))
            + ∑ j, B (enc n b) j * ψ (setBit (over n j b) n true) := by
  simp only [applyMat]
  rw [sum_QI_succ]
  cases hb : b n
  · rw [enc_succ_false n b hb]
    simp only [fromBlocks_apply₁₁, fromBlocks_apply₁₂, over_succ_inl, over_succ_inr,
      Bool.false_eq_true, if_false]
  · rw [enc_succ_true n b hb]
    simp only [fromBlocks_apply₂₁, fromBlocks_apply₂₂, over_succ_inl, over_succ_inr, if_true]

/-- block-diagonal ↔ multiplexer on the top wire. -/
theorem applyMat_blockDiag (n : Nat) (A D : Matrix (QI n) (QI n) R) (ψ : State R) (b : Bits) :
    applyMat (n + 1) (fromBlocks A 0 0 D : Matrix (QI (n + 1)) (QI (n + 1)) R) ψ b
      = if b n then applyMat n D ψ b else applyMat n A ψ b := by
  rw [applyMat_blocks]
  by_cases hb : b n = true
  · have e : ∀ j, setBit (over n j b) n true = over n j b := fun j =>
      setBit_self' _ _ _ (by rw [over_ge n j b (Nat.le_refl n), hb])
    simp only [if_pos hb, Matrix.zero_apply, zero_mul, Finset.sum_const_zero, zero_add, e, applyMat]
  · have hb' : b n = false := by simpa using hb
    have e : ∀ j, setBit (over n j b) n false = over n j b := fun j =>
      setBit_self' _ _ _ (by rw [over_ge n j b (Nat.le_refl n), hb'])
    simp only [if_neg hb, Matrix.zero_apply, zero_mul, Finset.sum_const_zero, add_zero, e, applyMat]

/-- tensor with the identity on the top wire ↔ the same transformer (a circuit on the `n` low
wires, used inside an `n+1`-wire circuit, denotes `M ⊕ M`). -/
theorem applyMat_same (n : Nat) (M : Matrix (QI n) (QI n) R) (ψ : State R) :
    applyMat (n + 1) (fromBlocks M 0 0 M : Matrix (QI (n + 1)) (QI (n + 1)) R) ψ = applyMat n M ψ := by
  funext b
  rw [applyMat_blockDiag]
  split <;> rfl

/-- 2×2 blocks of diagonal matrices ↔ a uniformly controlled one-qubit gate on the top wire whose
2×2 matrix is read off at the index of the low wires. -/
theorem applyMat_diagBlocks (n : Nat) (p q r s : QI n → R) (ψ : State R) :
    applyMat (n + 1) (fromBlocks (diagonal p) (diagonal q) (diagonal r) (diagonal s)
        : Matrix (QI (n + 1)) (QI (n + 1)) R) ψ
      = applyFam (fun b => ⟨p (enc n b), q (enc n b), r (enc n b), s (enc n b)⟩) n ψ := by
  funext b
  rw [applyMat_blocks]
  have key : ∀ (d : QI n → R) (v : Bool),
      (∑ j, (diagonal d : Matrix (QI n) (QI n) R) (enc n b) j * ψ (setBit (over n j b) n v))
        = d (enc n b) * ψ (setBit b n v) := by
    intro d v
    rw [Finset.sum_eq_single (enc n b)]
    · rw [diagonal_apply_eq, over_enc]
    · intro j _ hj
      rw [diagonal_apply_ne _ (Ne.symm hj), zero_mul]
    · intro h; exact absurd (Finset.mem_univ _) h
  simp only [key, applyFam]

end act

end Qclib.Uni
