import QclibModel.Proofs.CnotBasic
/-
  C10 helper lemmas, part 5: what the GENERATED bit helpers `_a`, `_b`, `_k_s` of isometry.py compute.
-/
namespace Qclib.Cnot
open Qclib.Py Qclib.Gen.CnotCount

theorem and_two_pow (k i : Nat) : k &&& 2^i = 2^i * ((k / 2^i) % 2) := by
  apply Nat.eq_of_testBit_eq
  intro j
  simp only [Nat.testBit_and, Nat.testBit_two_pow, Nat.testBit_two_pow_mul]
  by_cases h : i = j
  · subst h; simp [Nat.testBit_eq_decide_div_mod_eq]
  · rw [show (k / 2 ^ i) % 2 = (k / 2 ^ i) % 2 ^ 1 from rfl, Nat.testBit_mod_two_pow]
    by_cases h2 : j ≥ i
    · have : ¬ (j - i < 1) := by omega
      simp [h, this]
    · simp [h, h2]
theorem a_eq (k i : Nat) : isometry.a (k:Int) (i:Int) = ((k / 2^i : Nat) : Int) := by
  unfold isometry.a
  rw [pyPow_two, Int.fdiv_eq_ediv_of_nonneg _ (Int.natCast_nonneg _), Int.natCast_ediv]
theorem b_eq (k i : Nat) : isometry.b (k:Int) (i:Int) = ((k % 2^i : Nat) : Int) := by
  unfold isometry.b
  rw [a_eq, pyPow_two]
  have h := Nat.div_add_mod k (2^i)
  have h3 : ((2 ^ i * (k / 2 ^ i) + k % 2 ^ i : Nat) : Int) = (k : Int) := by rw [h]
  rw [Int.natCast_add, Int.natCast_mul] at h3
  rw [Int.mul_comm]
  omega
theorem k_s_eq (k i : Nat) : isometry.k_s (k:Int) (i:Int) = (((k / 2^i) % 2 : Nat) : Int) := by
  unfold isometry.k_s
  rw [pyPow_two]
  have h1 : pyAnd (k : Int) ((2^i : Nat) : Int) = ((k &&& 2^i : Nat) : Int) := by
    unfold pyAnd
    rw [if_pos (Int.natCast_nonneg k), if_pos (Int.natCast_nonneg _), Int.toNat_natCast, Int.toNat_natCast]
    rfl
  rw [h1, and_two_pow, Int.fdiv_eq_ediv_of_nonneg _ (Int.natCast_nonneg _), ← Int.natCast_ediv,
    Nat.mul_div_cancel_left _ (Nat.two_pow_pos i)]

end Qclib.Cnot
