import QclibModel.Spec.Mixed
/-
  C14 helper lemmas that need only core Lean: `clog2`, register reading, control literals.
-/
namespace Qclib.Mixed

/-! ### `clog2` = least exponent -/

theorem clog2Go_spec (k : Nat) : ∀ fuel a, (∀ a', a' < a → 2 ^ a' < k) → k ≤ 2 ^ (a + fuel) →
    k ≤ 2 ^ clog2Go k fuel a ∧ ∀ a', k ≤ 2 ^ a' → clog2Go k fuel a ≤ a' := by
  intro fuel
  induction fuel with
  | zero =>
    intro a hlow hup
    refine ⟨by simpa [clog2Go] using hup, ?_⟩
    intro a' ha'
    show a ≤ a'
    apply Nat.le_of_not_lt
    intro hlt
    have := hlow a' hlt
    omega
  | succ fuel ih =>
    intro a hlow hup
    unfold clog2Go
    by_cases h : k ≤ 2 ^ a
    · rw [if_pos h]
      refine ⟨h, ?_⟩
      intro a' ha'
      apply Nat.le_of_not_lt
      intro hlt
      have := hlow a' hlt
      omega
    · rw [if_neg h]
      apply ih (a + 1)
      · intro a' ha'
        by_cases e : a' = a
        · subst e; omega
        · exact hlow a' (by omega)
      · have : a + 1 + fuel = a + (fuel + 1) := by omega
        rw [this]; exact hup

theorem clog2_spec (k : Nat) : k ≤ 2 ^ clog2 k ∧ ∀ a, k ≤ 2 ^ a → clog2 k ≤ a := by
  unfold clog2
  apply clog2Go_spec k k 0
  · intro a' h; omega
  · simpa using Nat.le_of_lt (Nat.lt_two_pow_self (n := k))

theorem le_two_pow_clog2 (k : Nat) : k ≤ 2 ^ clog2 k := (clog2_spec k).1

theorem clog2_le {k a : Nat} (h : k ≤ 2 ^ a) : clog2 k ≤ a := (clog2_spec k).2 a h

theorem clog2_two_pow (n : Nat) : clog2 (2 ^ n) = n := by
  apply Nat.le_antisymm (clog2_le (Nat.le_refl _))
  exact (Nat.pow_le_pow_iff_right (by omega : 1 < 2)).1 (le_two_pow_clog2 (2 ^ n))

/-- minimality in the usual form: one bit fewer does not suffice. -/
theorem two_pow_clog2_pred_lt {k : Nat} (hk : 2 ≤ k) : 2 ^ (clog2 k - 1) < k := by
  apply Nat.lt_of_not_le
  intro h
  have h1 := clog2_le h
  have h2 : clog2 k ≠ 0 := by
    intro e
    have := le_two_pow_clog2 k
    rw [e] at this
    omega
  omega

theorem isPow2Pos_two_pow {n : Nat} (hn : 1 ≤ n) : isPow2Pos (2 ^ n) = true := by
  unfold isPow2Pos
  rw [clog2_two_pow]
  have : 2 ^ 1 ≤ 2 ^ n := Nat.pow_le_pow_right (by omega) hn
  simp only [Nat.pow_one] at this
  simp [this]

/-! ### Flat index ↔ (data index, aux index) -/

theorem index_div {a x i : Nat} (hi : i < 2 ^ a) : (x * 2 ^ a + i) / 2 ^ a = x := by
  rw [Nat.add_comm, Nat.add_mul_div_right _ _ (Nat.two_pow_pos a), Nat.div_eq_of_lt hi, Nat.zero_add]

theorem index_mod {a x i : Nat} (hi : i < 2 ^ a) : (x * 2 ^ a + i) % 2 ^ a = i := by
  rw [Nat.add_comm, Nat.add_mul_mod_self_right, Nat.mod_eq_of_lt hi]

theorem index_testBit_low {a x i : Nat} (hi : i < 2 ^ a) {j : Nat} (hj : j < a) :
    (x * 2 ^ a + i).testBit j = i.testBit j := by
  rw [Nat.mul_comm, Nat.testBit_two_pow_mul_add x hi, if_pos hj]

theorem index_testBit_high {a x i : Nat} (hi : i < 2 ^ a) (j : Nat) :
    (x * 2 ^ a + i).testBit (a + j) = x.testBit j := by
  rw [Nat.mul_comm, Nat.testBit_two_pow_mul_add x hi, if_neg (by omega)]
  congr 1; omega

/-! ### Registers -/

theorem readReg_lt (lo len : Nat) (b : Bits) : readReg lo len b < 2 ^ len := by
  induction len with
  | zero => simp [readReg]
  | succ len ih =>
    unfold readReg
    rw [Nat.pow_succ]
    split <;> omega

theorem readReg_congr {lo len : Nat} {b b' : Bits}
    (h : ∀ j, lo ≤ j → j < lo + len → b j = b' j) : readReg lo len b = readReg lo len b' := by
  induction len with
  | zero => rfl
  | succ len ih =>
    unfold readReg
    rw [ih (fun j h1 h2 => h j h1 (by omega)), h (lo + len) (by omega) (by omega)]

theorem readReg_clear_self (lo len : Nat) (b : Bits) : readReg lo len (clearReg lo len b) = 0 := by
  have : ∀ m, m ≤ len → readReg lo m (clearReg lo len b) = 0 := by
    intro m
    induction m with
    | zero => intro _; rfl
    | succ m ih =>
      intro hm
      unfold readReg
      rw [ih (by omega)]
      have : clearReg lo len b (lo + m) = false := by
        unfold clearReg
        rw [if_pos ⟨by omega, by omega⟩]
      rw [this]; rfl
  exact this len (Nat.le_refl _)

theorem readReg_clear_other {lo len lo' len' : Nat} (b : Bits) (h : lo + len ≤ lo') :
    readReg lo len (clearReg lo' len' b) = readReg lo len b := by
  apply readReg_congr
  intro j _ h2
  unfold clearReg
  rw [if_neg (by omega)]

/-- wire `j` of the register holds bit `j` of the number it reads -/
theorem readReg_testBit (len : Nat) (b : Bits) (j : Nat) :
    (readReg 0 len b).testBit j = (decide (j < len) && b j) := by
  induction len generalizing j with
  | zero => simp [readReg]
  | succ len ih =>
    unfold readReg
    have hlt := readReg_lt 0 len b
    have e : readReg 0 len b + (if b (0 + len) then 2 ^ len else 0)
        = 2 ^ len * (b len).toNat + readReg 0 len b := by
      rw [Nat.zero_add]
      cases b len <;> simp [Nat.add_comm]
    rw [e, Nat.testBit_two_pow_mul_add _ hlt]
    by_cases hj : j < len
    · rw [if_pos hj, ih]
      simp [hj, Nat.lt_succ_of_lt hj]
    · rw [if_neg hj]
      by_cases e2 : j = len
      · subst e2
        cases b j <;> simp
      · have h3 : ¬ j < len + 1 := by omega
        have h4 : j - len ≠ 0 := by omega
        cases b len <;> simp [h3]
        · obtain ⟨m, hm⟩ : ∃ m, j - len = m + 1 := ⟨j - len - 1, by omega⟩
          rw [hm, Nat.testBit_succ]; simp

/-- qiskit's flat little-endian index splits into (data index)·2^a + (aux index). -/
theorem readReg_split (a n : Nat) (b : Bits) :
    readReg 0 (a + n) b = readReg a n b * 2 ^ a + readReg 0 a b := by
  induction n with
  | zero => simp [readReg]
  | succ n ih =>
    show readReg 0 (a + n) b + (if b (0 + (a + n)) then 2 ^ (a + n) else 0)
      = (readReg a n b + (if b (a + n) then 2 ^ n else 0)) * 2 ^ a + readReg 0 a b
    rw [ih, Nat.zero_add, Nat.add_mul]
    split
    · rw [Nat.pow_add, Nat.mul_comm (2 ^ n) (2 ^ a)]; omega
    · omega

/-! ### Control literals: `f"{i:0{a}b}"` read by qiskit selects "aux register reads `i`" -/

theorem foldl_bits_acc (l : List Bool) (acc : Nat) :
    l.foldl (fun acc b => 2 * acc + b.toNat) acc
      = acc * 2 ^ l.length + l.foldl (fun acc b => 2 * acc + b.toNat) 0 := by
  induction l generalizing acc with
  | nil => simp
  | cons h t ih =>
    simp only [List.foldl_cons, List.length_cons]
    rw [ih (2 * acc + h.toNat), ih (2 * 0 + h.toNat), Nat.pow_succ]
    simp only [Nat.mul_zero, Nat.zero_add, Nat.add_mul]
    rw [Nat.mul_comm 2 acc, Nat.mul_assoc, Nat.mul_comm 2 (2 ^ t.length)]
    omega

/-- the binary string the code formats, parsed back by `int(·, 2)`, is the index itself. -/
theorem ctrlStateInt_str (a i : Nat) : ctrlStateInt (ctrlStateStr a i) = i % 2 ^ a := by
  induction a with
  | zero => simp [ctrlStateInt, ctrlStateStr, Nat.mod_one]
  | succ a ih =>
    unfold ctrlStateInt ctrlStateStr at *
    rw [List.range_succ, List.reverse_append, List.map_append]
    simp only [List.reverse_cons, List.reverse_nil, List.nil_append, List.map_cons, List.map_nil,
      List.singleton_append, List.foldl_cons]
    rw [foldl_bits_acc, ih, Nat.mod_pow_succ, Nat.toNat_testBit]
    simp only [List.length_map, List.length_reverse, List.length_range, Nat.mul_zero, Nat.zero_add]
    rw [Nat.mul_comm (2 ^ a)]
    omega

theorem ctrlOk_ctrlLits_iff {a i : Nat} (hi : i < 2 ^ a) (b : Bits) :
    ctrlOk (ctrlLits a i) b = true ↔ readReg 0 a b = i := by
  unfold ctrlOk ctrlLits
  rw [ctrlStateInt_str, Nat.mod_eq_of_lt hi]
  simp only [List.all_map, List.all_eq_true, List.mem_range, Function.comp, beq_iff_eq]
  constructor
  · intro h
    apply Nat.eq_of_testBit_eq
    intro j
    rw [readReg_testBit]
    by_cases hj : j < a
    · simp [hj, h j hj]
    · have : i < 2 ^ j := Nat.lt_of_lt_of_le hi (Nat.pow_le_pow_right (by omega) (by omega))
      simp [hj, Nat.testBit_lt_two_pow this]
  · intro h j hj
    rw [← h, readReg_testBit]
    simp [hj]

end Qclib.Mixed
