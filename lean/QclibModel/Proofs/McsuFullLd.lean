import QclibModel.Proofs.McsuFullWf
import QclibModel.Proofs.McsuCircuit
import QclibModel.Proofs.McxLinear
/-
  C04 (part A), unconditional circuit statement for `Ldmcsu.linear_depth_mcv`: the hypothesis
  `IdealMv` of `C04_ldmcsu_circuit` is discharged by C05 (`body_exact` / `ctrl_exact`, i.e.
  `C05_vchain`) on the wire lists of `C04_slices`, for the V-chain and for its `.inverse()`.
-/
set_option linter.unusedSectionVars false
namespace Qclib.Mcsu
open RotSem

/-! ### Wire lists as layouts -/

theorem nodup_getD_inj (ws : List Nat) (hn : ws.Nodup) (i j : Nat) (hi : i < ws.length)
    (hj : j < ws.length) (e : ws.getD i 0 = ws.getD j 0) : i = j := by
  have ei : ws.getD i 0 = ws[i] := by simp [List.getD_eq_getElem?_getD, hi]
  have ej : ws.getD j 0 = ws[j] := by simp [List.getD_eq_getElem?_getD, hj]
  rw [ei, ej] at e
  exact (List.Nodup.getElem_inj_iff hn).mp e

/-- A duplicate-free wire list `controls ++ ancillas ++ targets` read through `getD` is a
`VLayout`. -/
theorem vlayout_of_nodup (ws : List Nat) (k nt : Nat) (hn : ws.Nodup)
    (hl : ws.length = k + (k - 2) + nt) :
    VLayout k nt (fun i => ws.getD i 0) (fun i => ws.getD (k + i) 0)
      (fun i => ws.getD (k + (k - 2) + i) 0) := by
  constructor
  · intro i j hi hj e
    exact nodup_getD_inj ws hn i j (by omega) (by omega) e
  · intro i j hi hj e
    have := nodup_getD_inj ws hn (k + i) (k + j) (by omega) (by omega) e
    omega
  · intro i j hi hj e
    have := nodup_getD_inj ws hn (k + (k - 2) + i) (k + (k - 2) + j) (by omega) (by omega) e
    omega
  · intro i j hi hj e
    have := nodup_getD_inj ws hn i (k + j) (by omega) (by omega) e
    omega
  · intro i j hi hj e
    have := nodup_getD_inj ws hn i (k + (k - 2) + j) (by omega) (by omega) e
    omega
  · intro i j hi hj e
    have := nodup_getD_inj ws hn (k + i) (k + (k - 2) + j) (by omega) (by omega) e
    omega

theorem litsOf_eq_map (cw : List Nat) (r : List Bool) :
    litsOf cw r = (List.range cw.length).map (fun i => (cw.getD i 0, r.getD i true)) := by
  induction cw generalizing r with
  | nil => rfl
  | cons c cw ih =>
    rw [List.length_cons, List.range_succ_eq_map, List.map_cons, List.map_map]
    cases r with
    | nil =>
      rw [litsOf, ih []]
      simp [Function.comp_def]
    | cons v r =>
      rw [litsOf, ih r]
      simp [Function.comp_def]

/-- The control literals C05 reads off a wire list are the literals C04 reads off the control
list. -/
theorem patLits_eq_litsOf (cw rest : List Nat) (cs : Option (List Bool)) :
    patLits cw.length (fun i => (cw ++ rest).getD i 0) cs = litsOf cw (cs.getD []).reverse := by
  rw [litsOf_eq_map, patLits]
  apply List.map_congr_left
  intro i hi
  have hi' := List.mem_range.mp hi
  have e1 : (cw ++ rest).getD i 0 = cw.getD i 0 := by
    rw [List.getD_eq_getElem?_getD, List.getD_eq_getElem?_getD, List.getElem?_append_left hi']
  have e2 : csBit cs i = (cs.getD []).reverse.getD i true := by
    cases cs with
    | none => simp [csBit]
    | some p => rfl
  rw [e1, e2]

theorem map_getD_range (pre ts : List Nat) :
    (List.range ts.length).map (fun i => (pre ++ ts).getD (pre.length + i) 0) = ts := by
  apply List.ext_getElem
  · simp
  · intro i h1 h2
    simp only [List.getElem_map, List.getElem_range]
    rw [List.getD_eq_getElem?_getD, List.getElem?_append_right (by omega)]
    simp [h2]

theorem mcxIdeal_single {R : Type} [CommRing R] (lits : List (Nat × Bool)) (t : Nat)
    (ψ : State R) : mcxIdeal lits [t] ψ = applyMcu lits Mat2.X t ψ := by
  funext b
  simp only [mcxIdeal, applyMcu, flipAll_cons, flipAll_nil, Mat2.X, ← setBit_not]
  cases ctrlOk lits b <;> cases h : b t <;> simp

/-! ### The expanded V-chain and its inverse on a wire list -/

section chain
variable {Θ R : Type} [AddCommGroup Θ] [CommRing R] [RotSem Θ R] [RotLaws Θ R]

/-- **`C05_vchain` on the wire lists of C04.**  On a duplicate-free list `cw ++ anc ++ ts`
(`|anc| = |cw| - 2`, at least one control and one target) the expanded
`McxVchainDirty(|cw|, |ts|, cs).definition` *and* its `invCirc` both denote "flip every wire of
`ts` iff control `cw[i]` reads `cs[::-1][i]`" on every state. -/
theorem vchain_on_list (a : McxAngles Θ) (hp : Pi8 R a) (cw anc ts : List Nat)
    (cs : Option (List Bool)) (hn : (cw ++ anc ++ ts).Nodup) (ha : anc.length = cw.length - 2)
    (h1 : 1 ≤ cw.length) (ht : 1 ≤ ts.length) (c : Circ Θ)
    (hc : expandMcxv a cw.length ts.length (cw ++ anc ++ ts) cs false = some c) (inv : Bool)
    (ψ : State R) :
    sem (if inv then invCirc (fun x : Θ => -x) c else c) ψ
      = mcxIdeal (litsOf cw (cs.getD []).reverse) ts ψ := by
  have hk0 : ¬ cw.length = 0 := by omega
  simp only [expandMcxv, if_neg hk0] at hc
  have hl : (cw ++ anc ++ ts).length = cw.length + (cw.length - 2) + ts.length := by
    simp only [List.length_append, ha]
  have L := vlayout_of_nodup (cw ++ anc ++ ts) cw.length ts.length hn hl
  -- the C05 theorem (proof of `C05_vchain`)
  have hex : ∀ φ : State R, sem c φ
      = mcxIdeal (patLits cw.length (fun i => (cw ++ anc ++ ts).getD i 0) cs)
          ((List.range ts.length).map (fun i => (cw ++ anc ++ ts).getD (cw.length + (cw.length - 2) + i) 0)) φ := by
    intro φ
    have h := hc
    simp only [vchainW] at h
    split at h
    · exact absurd h (by simp)
    · split at h
      · exact absurd h (by simp)
      · rename_i xs hxs
        simp only [Option.some.injEq] at h
        subst h
        exact ctrl_exact cw.length _ cs _ xs _ hxs L.hcc
          (fun φ' => body_exact a hp cw.length ts.length h1 ht _ _ _ L false (Or.inl rfl) φ') φ
  have e1 : patLits cw.length (fun i => (cw ++ anc ++ ts).getD i 0) cs
      = litsOf cw (cs.getD []).reverse := by
    rw [List.append_assoc]; exact patLits_eq_litsOf cw (anc ++ ts) cs
  have e2 : (List.range ts.length).map
      (fun i => (cw ++ anc ++ ts).getD (cw.length + (cw.length - 2) + i) 0) = ts := by
    have := map_getD_range (cw ++ anc) ts
    rwa [List.length_append, ha] at this
  rw [e1, e2] at hex
  cases inv with
  | false => exact hex ψ
  | true =>
    simp only [if_true]
    refine invCirc_sem_of_invol c (ok_vchainW a _ _ _ _ _ L cs false false c hc) _ ?_ hex ψ
    intro φ
    apply mcxIdeal_invol
    intro cv hcv hm
    have hw := litsOf_wires cw _ cv hcv
    have := List.nodup_append.mp hn
    exact this.2.2 cv.1 (List.mem_append_left _ hw) cv.1 hm rfl

/-- The V-chain constructor of the skeleton, read by its expansion, is the ideal MCX (one
target). -/
theorem expMcx_mv (a : McxAngles Θ) (hp : Pi8 R a) (cw anc : List Nat) (t : Nat)
    (cs : Option (List Bool)) (hn : (cw ++ anc ++ [t]).Nodup) (ha : anc.length = cw.length - 2)
    (h1 : 1 ≤ cw.length) (c : Circ Θ)
    (hc : expandMcxv a cw.length 1 (cw ++ anc ++ [t]) cs false = some c) (inv : Bool)
    (ψ : State R) :
    (expMcx a (fun x : Θ => -x) : McxSem R).mv cw.length 1 (cw ++ anc ++ [t]) cs false inv ψ
      = applyMcu (litsOf cw (cs.getD []).reverse) Mat2.X t ψ := by
  simp only [expMcx, hc]
  rw [← mcxIdeal_single]
  exact vchain_on_list a hp cw anc [t] cs hn ha h1 (by simp) c hc inv ψ

end chain

/-! ### `linear_depth_mcv`, unconditionally -/

section ld
variable {K Θ R : Type} [AddCommGroup Θ] [CommRing R] [RotSem Θ R] [RotLaws Θ R]

omit [AddCommGroup Θ] in
theorem expandSG_mcxv_some (a : McxAngles Θ) (neg : Θ → Θ) (k nt : Nat) (ws : List Nat)
    (cs : Option (List Bool)) (ao inv : Bool) (m : List (MG K Θ))
    (h : expandSG a neg (SG.mcxv k nt ws cs ao inv : SG K) = some m) :
    ∃ c, expandMcxv a k nt ws cs ao = some c := by
  simp only [expandSG, Option.map_eq_some_iff] at h
  obtain ⟨c, hc, -⟩ := h
  exact ⟨c, hc⟩

/-- The first-half MCX of the model, expanded. -/
theorem mcxHalf1_full (a : McxAngles Θ) (hp : Pi8 R a) (ι : CMat K → Mat2 R) (cw : List Nat)
    (t : Nat) (cs : Option (List Bool)) (hk : 2 ≤ cw.length) (hn : (cw ++ [t]).Nodup)
    (m : List (MG K Θ))
    (hm : expandSG a (fun x : Θ => -x) (mcxHalf1 cw [t] cs : SG K) = some m) (ψ : State R) :
    denoteSG ι (rh Θ) (expMcx a (fun x : Θ => -x)) (mcxHalf1 cw [t] cs) ψ
      = applyMcu (litsOf (ctl1 cw) (csK1 (cs.getD []) cw.length).reverse) Mat2.X t ψ := by
  obtain ⟨c, hc⟩ := expandSG_mcxv_some a _ _ _ _ _ _ _ m hm
  have hl := ctl1_length cw (by omega)
  simp only [List.length_singleton, wires1_parts, ← hl] at hc
  have h := expMcx_mv a hp (ctl1 cw) (anc1 cw) t (cs.map (csK1 · cw.length))
    (by rw [← wires1_parts]; exact wires1_nodup cw [t] hn)
    (by rw [anc1_length cw hk, hl])
    (by rw [hl]; unfold k1; omega) c hc false ψ
  rw [hl, map_getD_csK1] at h
  simpa [denoteSG, mcxHalf1, wires1_parts] using h

/-- The second-half MCX of the model and its `.inverse()`, expanded. -/
theorem mcxHalf2_full (a : McxAngles Θ) (hp : Pi8 R a) (ι : CMat K → Mat2 R) (cw : List Nat)
    (t : Nat) (cs : Option (List Bool)) (inv0 inv : Bool) (hk : 2 ≤ cw.length)
    (hn : (cw ++ [t]).Nodup) (m : List (MG K Θ))
    (hm : expandSG a (fun x : Θ => -x) (mcxHalf2 cw [t] cs false inv0 : SG K) = some m)
    (ψ : State R) :
    denoteSG ι (rh Θ) (expMcx a (fun x : Θ => -x)) (mcxHalf2 cw [t] cs false inv) ψ
      = applyMcu (litsOf (ctl2 cw) (csK2 (cs.getD []) cw.length).reverse) Mat2.X t ψ := by
  obtain ⟨c, hc⟩ := expandSG_mcxv_some a _ _ _ _ _ _ _ m hm
  have hl := ctl2_length cw
  simp only [List.length_singleton, wires2_parts, ← hl] at hc
  have h := expMcx_mv a hp (ctl2 cw) (anc2 cw) t (cs.map (csK2 · cw.length))
    (by rw [← wires2_parts]; exact wires2_nodup cw [t] hn)
    (by rw [anc2_length cw hk, hl])
    (by rw [hl]; unfold k2; omega) c hc inv ψ
  rw [hl, map_getD_csK2] at h
  simpa [denoteSG, mcxHalf2, wires2_parts] using h

/-- `linear_depth_mcv` with its MCX constructors read by their expansion (every gate of the list
has one) denotes the ideal multi-controlled gate. -/
theorem linearDepthMcv_exp (o : ROps K) (a : McxAngles Θ) (hp : Pi8 R a) (ι : CMat K → Mat2 R)
    (u : CMat K) (cw : List Nat) (t : Nat) (cs : Option (List Bool)) (gs : List (SG K))
    (hk : 2 ≤ cw.length) (hn : (cw ++ [t]).Nodup)
    (hg : linearDepthMcv o u cw t cs false = some gs)
    (hx : ∀ g ∈ gs, ∃ m : List (MG K Θ), expandSG a (fun x : Θ => -x) g = some m)
    (hA : ι (computeGateA o (getXZ o u).1 (getXZ o u).2)
        * ι (adj o (computeGateA o (getXZ o u).1 (getXZ o u).2)) = 1)
    (hA' : ι (adj o (computeGateA o (getXZ o u).1 (getXZ o u).2))
        * ι (computeGateA o (getXZ o u).1 (getXZ o u).2) = 1)
    (ψ : State R) :
    semSG ι (rh Θ) (expMcx a (fun x : Θ => -x)) gs ψ
      = applyMcu (litsOf cw (cs.getD []).reverse)
          (coreW (ι (computeGateA o (getXZ o u).1 (getXZ o u).2))
            (ι (adj o (computeGateA o (getXZ o u).1 (getXZ o u).2)))) t ψ := by
  have htc : t ∉ cw := by
    intro h
    have := List.nodup_append.mp hn
    exact this.2.2 t h t (by simp) rfl
  set opA := computeGateA o (getXZ o u).1 (getXZ o u).2 with hopA
  unfold linearDepthMcv at hg
  simp only [← hopA, unGate] at hg
  by_cases h1 : unitaryOk o opA = true <;> by_cases h2 : unitaryOk o (adj o opA) = true <;>
    simp [h1, h2] at hg
  subst hg
  obtain ⟨m1, hm1⟩ := hx (mcxHalf1 cw [t] cs) (by simp)
  obtain ⟨m2, hm2⟩ := hx (mcxHalf2 cw [t] cs false false) (by simp)
  have e1 := fun φ => mcxHalf1_full a hp ι cw t cs hk hn m1 hm1 φ
  have e2 := fun inv φ => mcxHalf2_full a hp ι cw t cs false inv hk hn m2 hm2 φ
  simp only [semSG, List.foldl_cons, List.foldl_nil, e1, e2]
  simp only [denoteSG]
  have hc := core_seq (litsOf (ctl1 cw) (csK1 (cs.getD []) cw.length).reverse)
    (litsOf (ctl2 cw) (csK2 (cs.getD []) cw.length).reverse) t (ι opA) (ι (adj o opA)) hA hA'
    (litsOf_avoids _ _ t (fun h => htc (List.mem_of_mem_take h)))
    (litsOf_avoids _ _ t (fun h => htc (List.mem_of_mem_drop h))) ψ
  rw [pattern_split] at hc
  exact hc

/-- **`linear_depth_mcv`, expanded to primitive gates, denotes the ideal multi-controlled gate** —
no hypothesis about the MCX sub-circuits. -/
theorem linearDepthMcv_full (o : ROps K) (a : McxAngles Θ) (hp : Pi8 R a) (ι : CMat K → Mat2 R)
    (u : CMat K) (cw : List Nat) (t : Nat) (cs : Option (List Bool)) (gs : List (SG K))
    (ms : List (MG K Θ)) (hk : 2 ≤ cw.length) (hn : (cw ++ [t]).Nodup)
    (hg : linearDepthMcv o u cw t cs false = some gs)
    (hx : expandAll a (fun x : Θ => -x) gs = some ms)
    (hA : ι (computeGateA o (getXZ o u).1 (getXZ o u).2)
        * ι (adj o (computeGateA o (getXZ o u).1 (getXZ o u).2)) = 1)
    (hA' : ι (adj o (computeGateA o (getXZ o u).1 (getXZ o u).2))
        * ι (computeGateA o (getXZ o u).1 (getXZ o u).2) = 1)
    (ψ : State R) :
    semMG ι ms ψ
      = applyMcu (litsOf cw (cs.getD []).reverse)
          (coreW (ι (computeGateA o (getXZ o u).1 (getXZ o u).2))
            (ι (adj o (computeGateA o (getXZ o u).1 (getXZ o u).2)))) t ψ := by
  rw [expandAll_sem a _ ι gs ms hx]
  exact linearDepthMcv_exp o a hp ι u cw t cs gs hk hn hg (expandAll_mem a _ gs ms hx) hA hA' ψ

/-! ### The expansion exists for every accepted pattern -/

omit [AddCommGroup Θ] in
theorem ctrlXs_defined' (k : Nat) (c : Nat → Nat) (cs : Option (List Bool))
    (hp : ∀ p, cs = some p → p.length ≤ k) : ∃ xs : Circ Θ, ctrlXs k c cs = some xs := by
  cases cs with
  | none => exact ⟨[], rfl⟩
  | some p =>
    have hp' := hp p rfl
    simp only [ctrlXs]
    rw [if_pos]
    · exact ⟨_, rfl⟩
    · rw [List.all_eq_true]
      intro i hi
      have := List.mem_range.mp hi
      rw [List.length_reverse] at this
      simp only [Bool.or_eq_true, decide_eq_true_eq]
      right
      omega

omit [AddCommGroup Θ] in
theorem expandMcxv_defined (a : McxAngles Θ) (k nt : Nat) (ws : List Nat) (cs : Option (List Bool))
    (ao : Bool) (hnt : 1 ≤ nt) (hp : ∀ p, cs = some p → p.length ≤ k) :
    ∃ c, expandMcxv a k nt ws cs ao = some c := by
  unfold expandMcxv
  split
  · exact ⟨[], rfl⟩
  · rename_i hk
    obtain ⟨xs, hxs⟩ := ctrlXs_defined' (Θ := Θ) k (fun i => ws.getD i 0) cs hp
    have h0 : ¬ (k = 0 ∨ nt = 0) := by omega
    simp only [vchainW, if_neg h0, hxs]
    exact ⟨_, rfl⟩

theorem csK1_length_le (p : List Bool) (k : Nat) : (csK1 p k).length ≤ k1 k := by
  simp only [csK1, List.length_reverse, List.length_take]; omega

theorem csK2_length_le (p : List Bool) (k : Nat) (h : p.length ≤ k) : (csK2 p k).length ≤ k2 k := by
  simp only [csK2, List.length_reverse, List.length_drop]
  have := k1_add_k2 k
  omega

omit [AddCommGroup Θ] in
/-- Every gate `linear_depth_mcv` emits has an expansion when the pattern is no longer than the
control register (in particular for all `2^k` patterns of length `k`, and for `None`). -/
theorem linearDepthMcv_expands (o : ROps K) (a : McxAngles Θ) (neg : Θ → Θ) (u : CMat K)
    (cw : List Nat) (t : Nat) (cs : Option (List Bool)) (gso : Bool) (gs : List (SG K))
    (hp : ∀ p, cs = some p → p.length ≤ cw.length)
    (hg : linearDepthMcv o u cw t cs gso = some gs) :
    ∀ g ∈ gs, ∃ m : List (MG K Θ), expandSG a neg g = some m := by
  set opA := computeGateA o (getXZ o u).1 (getXZ o u).2 with hopA
  unfold linearDepthMcv at hg
  simp only [← hopA, unGate] at hg
  by_cases h1 : unitaryOk o opA = true <;> by_cases h2 : unitaryOk o (adj o opA) = true <;>
    simp [h1, h2] at hg
  subst hg
  have hv1 : ∀ _inv : Bool, ∃ m : List (MG K Θ), expandSG a neg (mcxHalf1 cw [t] cs : SG K) = some m := by
    intro _
    obtain ⟨c, hc⟩ := expandMcxv_defined a (k1 cw.length) 1 (wires1 cw [t])
      (cs.map (csK1 · cw.length)) false (by omega) (by
        intro p hp'
        cases cs with
        | none => simp at hp'
        | some q =>
          simp only [Option.map_some, Option.some.injEq] at hp'
          subst hp'
          exact csK1_length_le q _)
    exact ⟨(if false = true then invCirc neg c else c).map MG.prim, by
      simp only [mcxHalf1, expandSG, List.length_singleton, hc, Option.map_some]⟩
  have hv2 : ∀ ao inv, ∃ m : List (MG K Θ),
      expandSG a neg (mcxHalf2 cw [t] cs ao inv : SG K) = some m := by
    intro ao inv
    obtain ⟨c, hc⟩ := expandMcxv_defined a (k2 cw.length) 1 (wires2 cw [t])
      (cs.map (csK2 · cw.length)) ao (by omega) (by
        intro p hp'
        cases cs with
        | none => simp at hp'
        | some q =>
          simp only [Option.map_some, Option.some.injEq] at hp'
          subst hp'
          exact csK2_length_le q _ (hp q rfl))
    exact ⟨(if inv = true then invCirc neg c else c).map MG.prim, by
      simp only [mcxHalf2, expandSG, List.length_singleton, hc, Option.map_some]⟩
  intro g hg
  simp only [List.mem_append, List.mem_cons, List.not_mem_nil, or_false] at hg
  rcases hg with hg | hg
  · cases gso
    · simp only [Bool.false_eq_true, if_false, List.mem_singleton] at hg
      subst hg; exact hv1 false
    · simp at hg
  · rcases hg with rfl | rfl | rfl | rfl | rfl | rfl | rfl
    · exact ⟨_, rfl⟩
    · exact hv2 _ _
    · exact ⟨_, rfl⟩
    · exact hv1 false
    · exact ⟨_, rfl⟩
    · exact hv2 _ _
    · exact ⟨_, rfl⟩

end ld
end Qclib.Mcsu
