import QclibModel.Spec.Tree
/-
  C11: level counts, register widths and the `_add_register` walk on complete trees (all heights,
  all split levels).  Core Lean only.
-/
namespace Qclib

/-! ### Complete trees -/

section
variable {α : Type}

theorem complete_zero_iff (t : BT α) : complete 0 t ↔ t = .nil := by
  cases t <;> simp [complete]

theorem complete_succ_iff (n : Nat) (t : BT α) :
    complete (n+1) t ↔ ∃ v l r, t = .node v l r ∧ complete n l ∧ complete n r := by
  cases t with
  | nil => simp [complete]
  | node v l r =>
    constructor
    · intro h; exact ⟨v, l, r, rfl, h.1, h.2⟩
    · rintro ⟨v', l', r', h, hl, hr⟩
      cases h; exact ⟨hl, hr⟩

theorem complete_size : ∀ (n : Nat) (t : BT α), complete n t → n ≤ t.size
  | 0, _, _ => Nat.zero_le _
  | n+1, .nil, h => by simp [complete] at h
  | n+1, .node v l r, h => by
    have := complete_size n l h.1
    simp only [BT.size]; omega

theorem complete_isNil (n : Nat) (t : BT α) (h : complete n t) : t.isNil = (n == 0) := by
  cases n <;> cases t <;> simp_all [complete, BT.isNil]

theorem complete_leftmost (n : Nat) (t : BT α) (h : complete (n+1) t) :
    t.leftmost = t.left := by
  obtain ⟨v, l, r, rfl, hl, hr⟩ := (complete_succ_iff n t).1 h
  simp only [BT.leftmost, BT.left]
  cases n with
  | zero =>
    rw [(complete_zero_iff l).1 hl, (complete_zero_iff r).1 hr]; rfl
  | succ n =>
    rw [complete_isNil _ _ hl]; rfl

/-! ### `level_nodes` -/

theorem children_complete_zero (nodes : List (BT α)) (hc : ∀ t ∈ nodes, complete 1 t) :
    children nodes = [] := by
  induction nodes with
  | nil => rfl
  | cons t ts ih =>
    obtain ⟨v, l, r, rfl, hl, hr⟩ := (complete_succ_iff 0 t).1 (hc t (List.mem_cons_self ..))
    rw [(complete_zero_iff l).1 hl, (complete_zero_iff r).1 hr]
    simp only [children, List.flatMap_cons] at ih ⊢
    rw [ih (fun t ht => hc t (List.mem_cons_of_mem _ ht))]
    rfl

theorem children_complete_succ (h : Nat) (nodes : List (BT α))
    (hc : ∀ t ∈ nodes, complete (h+2) t) :
    (∀ t ∈ children nodes, complete (h+1) t) ∧ (children nodes).length = 2 * nodes.length := by
  induction nodes with
  | nil => exact ⟨by simp [children], rfl⟩
  | cons t ts ih =>
    obtain ⟨v, l, r, rfl, hl, hr⟩ := (complete_succ_iff (h+1) t).1 (hc t (List.mem_cons_self ..))
    obtain ⟨ih1, ih2⟩ := ih (fun t ht => hc t (List.mem_cons_of_mem _ ht))
    have hln : l.nonNil = [l] := by simp [BT.nonNil, complete_isNil _ _ hl]
    have hrn : r.nonNil = [r] := by simp [BT.nonNil, complete_isNil _ _ hr]
    have hcs : children (BT.node v l r :: ts) = l :: r :: children ts := by
      simp only [children, List.flatMap_cons, BT.left, BT.right, hln, hrn]; rfl
    rw [hcs]
    refine ⟨?_, by simp only [List.length_cons, ih2]; omega⟩
    intro t ht
    rcases List.mem_cons.1 ht with rfl | ht
    · exact hl
    rcases List.mem_cons.1 ht with rfl | ht
    · exact hr
    · exact ih1 t ht

theorem levelCountsAux_complete : ∀ (h fuel : Nat) (nodes : List (BT α)), h < fuel → nodes ≠ [] →
    (∀ t ∈ nodes, complete (h+1) t) →
    levelCountsAux fuel nodes = (List.range (h+1)).map (fun i => nodes.length * 2^i)
  | 0, fuel+1, nodes, _, hne, hc => by
    have he : nodes.isEmpty = false := by cases nodes <;> simp_all
    simp only [levelCountsAux, he, children_complete_zero nodes hc]
    cases fuel <;> simp [levelCountsAux, List.range_succ]
  | h+1, fuel+1, nodes, hf, hne, hc => by
    have he : nodes.isEmpty = false := by cases nodes <;> simp_all
    obtain ⟨hc', hlen⟩ := children_complete_succ h nodes hc
    have hne' : children nodes ≠ [] := by
      intro h0
      rw [h0] at hlen
      cases nodes <;> simp_all
    simp only [levelCountsAux, he]
    rw [levelCountsAux_complete h fuel (children nodes) (by omega) hne' hc', hlen]
    rw [List.range_succ_eq_map (n := h+1), List.map_cons, List.map_map]
    simp only [Bool.false_eq_true, if_false, Nat.pow_zero, Nat.mul_one]
    congr 1
    apply List.map_congr_left
    intro i _
    simp only [Function.comp, Nat.pow_succ]
    ac_rfl

def pow2s (n : Nat) : List Nat := (List.range n).map (fun i => 2^i)

theorem levelCounts_complete (n : Nat) (t : BT α) (h : complete (n+1) t) :
    levelCounts t = pow2s (n+1) := by
  unfold levelCounts pow2s
  rw [levelCountsAux_complete n (t.size + 1) [t] (by have := complete_size _ _ h; omega)
    (by simp) (by simpa using h)]
  simp

theorem pow2s_length (n : Nat) : (pow2s n).length = n := by simp [pow2s]

theorem pow2s_sum (n : Nat) : (pow2s n).sum + 1 = 2^n := by
  induction n with
  | zero => simp [pow2s]
  | succ n ih =>
    unfold pow2s at ih ⊢
    rw [List.range_succ, List.map_append, List.sum_append]
    simp only [List.map_cons, List.map_nil, List.sum_cons, List.sum_nil, Nat.pow_succ]
    omega

theorem pow2s_take (n k : Nat) (hk : k ≤ n) : (pow2s n).take k = pow2s k := by
  unfold pow2s
  rw [← List.map_take, List.take_range, Nat.min_eq_left hk]

theorem pow2s_get (n k : Nat) (hk : k < n) : (pow2s n)[k]? = some (2^k) := by
  simp [pow2s, hk]

end

/-! ### `_add_register` on complete trees -/

section
variable {F : Type}

/-- Number of qubits `_add_register` pops for a complete sub-tree with `h` levels rooted at
level `lvl`. -/
def allocCount (sl : Nat) : Nat → Nat → Nat
  | _, 0 => 0
  | lvl, h+1 => if lvl < sl then 1 + allocCount sl (lvl+1) h + allocCount sl (lvl+1) h else h+1

theorem allocWires_nil : allocWires (.nil : BT (QV F)) = [] := rfl

theorem allocWires_node (v : QV F) (l r : BT (QV F)) (q : Nat) (hq : v.q = some q) :
    allocWires (.node v l r) = q :: (allocWires l ++ allocWires r) := by
  simp [allocWires, BT.preorder, hq]

theorem allocWires_unalloc (t : BT (AV F)) : allocWires (unalloc t) = [] := by
  induction t with
  | nil => rfl
  | node v l r ihl ihr =>
    simp only [allocWires, unalloc, BT.map, BT.preorder] at ihl ihr ⊢
    simp [ihl, ihr]

theorem complete_unalloc : ∀ (n : Nat) (t : BT (AV F)), complete n t → complete n (unalloc t)
  | 0, .nil, _ => trivial
  | 0, .node .., h => by simp [complete] at h
  | n+1, .nil, h => by simp [complete] at h
  | n+1, .node v l r, h => ⟨complete_unalloc n l h.1, complete_unalloc n r h.2⟩

def angles (t : BT (QV F)) : BT (AV F) := t.map fun v => ⟨v.y, v.z⟩

theorem angles_unalloc (t : BT (AV F)) : angles (unalloc t) = t := by
  induction t with
  | nil => rfl
  | node v l r ihl ihr =>
    simp only [angles, unalloc, BT.map] at ihl ihr ⊢
    rw [ihl, ihr]

theorem chainOk_complete : ∀ (h : Nat) (l r : BT (QV F)), complete h l → complete h r →
    spineOk l = true → spineOk r = true → chainOk l r = true
  | 0, .nil, _, _, _, _, _ => by simp [chainOk]
  | 0, .node .., _, h, _, _, _ => by simp [complete] at h
  | h+1, .nil, _, hl, _, _, _ => by simp [complete] at hl
  | h+1, .node .., .nil, _, hr, _, _ => by simp [complete] at hr
  | h+1, .node vl ll lr, .node vr rl rr, hl, hr, sl, sr => by
    have hlm := complete_leftmost h (.node vr rl rr) hr
    simp only [BT.left] at hlm
    simp only [spineOk, Bool.and_eq_true] at sl sr
    simp only [chainOk, hasQ, hlm, Bool.and_eq_true]
    exact ⟨⟨sl.1, sr.1⟩, chainOk_complete h ll rl hl.1 hr.1 sl.2 sr.2⟩

/-- What `_add_register` establishes on a complete sub-tree. -/
structure AllocSpec (sl lvl h : Nat) (t : BT (AV F)) (qs : List Nat) (t' : BT (QV F)) : Prop where
  wires : allocWires t' = qs.take (allocCount sl lvl h)
  shape : complete h t'
  angles_eq : angles t' = t
  spine : spineOk t' = true
  spineW : leftSpine t' = qs.take h
  reads : readsOk sl lvl t' = true
  /-- every node gets a qubit when the sub-tree ends at most one level below the split -/
  allq : lvl + h ≤ sl + 1 → allQ t' = true

theorem addRegAux_complete (sl : Nat) : ∀ (h lvl : Nat) (t : BT (AV F)) (qs : List Nat),
    complete h t → allocCount sl lvl h ≤ qs.length →
    ∃ t', addRegAux sl lvl t qs = some (t', qs.drop (allocCount sl lvl h))
      ∧ AllocSpec sl lvl h t qs t'
  | 0, lvl, .nil, qs, _, _ =>
    ⟨.nil, by simp [addRegAux, allocCount], ⟨by simp [allocCount, allocWires_nil], trivial, rfl, rfl,
      by simp [leftSpine], rfl, fun _ => rfl⟩⟩
  | 0, _, .node .., _, h, _ => by simp [complete] at h
  | h+1, _, .nil, _, hc, _ => by simp [complete] at hc
  | h+1, lvl, .node v l r, qs, hc, hlen => by
    by_cases hlt : lvl < sl
    · -- above the split: both children
      have hcnt : allocCount sl lvl (h+1)
          = 1 + allocCount sl (lvl+1) h + allocCount sl (lvl+1) h := by simp [allocCount, hlt]
      rw [hcnt] at hlen ⊢
      cases qs with
      | nil => simp at hlen
      | cons q qs0 =>
        simp only [List.length_cons] at hlen
        obtain ⟨l', hl', sl'⟩ := addRegAux_complete sl h (lvl+1) l qs0 hc.1 (by omega)
        obtain ⟨r', hr', sr'⟩ := addRegAux_complete sl h (lvl+1) r
          (qs0.drop (allocCount sl (lvl+1) h)) hc.2 (by simp only [List.length_drop]; omega)
        refine ⟨.node ⟨v.y, v.z, some q⟩ l' r', ?_, ?_⟩
        · simp only [addRegAux, hlt, if_true, hl', hr', List.drop_drop]
          rw [show 1 + allocCount sl (lvl+1) h + allocCount sl (lvl+1) h
            = (allocCount sl (lvl+1) h + allocCount sl (lvl+1) h) + 1 by omega, List.drop_succ_cons]
        · constructor
          · rw [allocWires_node _ _ _ q rfl, sl'.wires, sr'.wires, hcnt,
              show 1 + allocCount sl (lvl+1) h + allocCount sl (lvl+1) h
                = (allocCount sl (lvl+1) h + allocCount sl (lvl+1) h) + 1 by omega,
              List.take_succ_cons, List.take_add]
          · exact ⟨sl'.shape, sr'.shape⟩
          · simp only [angles, BT.map]
            have h1 := sl'.angles_eq
            have h2 := sr'.angles_eq
            simp only [angles] at h1 h2
            rw [h1, h2]
          · simp [spineOk, sl'.spine]
          · simp only [leftSpine, wire, Option.getD_some, sl'.spineW, List.take_succ_cons]
          · simp only [readsOk, hlt, if_true, Option.isSome_some, Bool.true_and, Bool.and_eq_true]
            exact ⟨⟨chainOk_complete h l' r' sl'.shape sr'.shape sl'.spine sr'.spine, sl'.reads⟩,
              sr'.reads⟩
          · intro hh
            simp only [allQ, Option.isSome_some, Bool.true_and, Bool.and_eq_true]
            exact ⟨sl'.allq (by omega), sr'.allq (by omega)⟩
    · -- from the split downwards: the left chain only
      have hcnt : allocCount sl lvl (h+1) = h + 1 := by simp [allocCount, hlt]
      have hcnt' : allocCount sl (lvl+1) h = h := by
        cases h with
        | zero => rfl
        | succ h => simp only [allocCount]; rw [if_neg (by omega)]
      rw [hcnt] at hlen ⊢
      cases qs with
      | nil => simp at hlen
      | cons q qs0 =>
        simp only [List.length_cons] at hlen
        obtain ⟨l', hl', sl'⟩ := addRegAux_complete sl h (lvl+1) l qs0 hc.1 (by omega)
        rw [hcnt'] at hl'
        cases h with
        | zero =>
          have hl0 := (complete_zero_iff l).1 hc.1
          have hr0 := (complete_zero_iff r).1 hc.2
          subst hl0 hr0
          refine ⟨.node ⟨v.y, v.z, some q⟩ .nil .nil, by simp [addRegAux, hlt, BT.isNil], ?_⟩
          exact ⟨by simp [allocWires_node ⟨v.y, v.z, some q⟩ .nil .nil q rfl, allocWires_nil, allocCount, hlt],
            ⟨trivial, trivial⟩, rfl, by simp [spineOk], by simp [leftSpine, wire],
            by simp [readsOk, hlt, spineOk], fun _ => by simp [allQ]⟩
        | succ h =>
          have hnil : l.isNil = false := by rw [complete_isNil _ _ hc.1]; rfl
          refine ⟨.node ⟨v.y, v.z, some q⟩ l' (unalloc r), ?_, ?_⟩
          · simp only [addRegAux, hlt, if_false, hnil, Bool.false_eq_true, hl', List.drop_succ_cons]
          · have hw := sl'.wires
            rw [hcnt'] at hw
            constructor
            · rw [allocWires_node _ _ _ q rfl, hw, allocWires_unalloc, List.append_nil, hcnt,
                List.take_succ_cons]
            · exact ⟨sl'.shape, complete_unalloc _ _ hc.2⟩
            · simp only [angles, BT.map]
              have h1 := sl'.angles_eq
              have h2 := angles_unalloc r
              simp only [angles] at h1 h2
              rw [h1, h2]
            · simp [spineOk, sl'.spine]
            · simp only [leftSpine, wire, Option.getD_some, sl'.spineW, List.take_succ_cons]
            · simp only [readsOk, hlt, if_false]
              simp [spineOk, sl'.spine]
            · intro hh; omega

/-- Closed form of the pop count: `d` levels above the split, `h ≥ d` levels in total. -/
theorem allocCount_closed (sl : Nat) : ∀ (d lvl h : Nat), lvl + d = sl → d ≤ h →
    allocCount sl lvl h + 1 = 2^d + 2^d * (h - d)
  | 0, lvl, h, hd, _ => by
    cases h with
    | zero => simp [allocCount]
    | succ h => simp only [allocCount]; rw [if_neg (by omega)]; simp; omega
  | d+1, lvl, 0, _, hh => by omega
  | d+1, lvl, h+1, hd, hh => by
    have ih := allocCount_closed sl d (lvl+1) h (by omega) (by omega)
    simp only [allocCount]
    rw [if_pos (by omega), Nat.pow_succ, show h + 1 - (d + 1) = h - d by omega]
    have : 2 ^ d * 2 * (h - d) = 2 * (2 ^ d * (h - d)) := by ac_rfl
    rw [this]
    omega

theorem allocCount_ge (sl : Nat) : ∀ (h lvl : Nat), h ≤ allocCount sl lvl h
  | 0, _ => Nat.zero_le _
  | h+1, lvl => by
    have := allocCount_ge sl h (lvl+1)
    simp only [allocCount]
    split <;> omega

/-! ### The qubit list and `add_register` -/

theorem qubitOrder_length (n nq : Nat) (h : n ≤ nq) : (qubitOrder n nq).length = nq := by
  unfold qubitOrder
  split <;> simp <;> omega

theorem mem_qubitOrder (n nq : Nat) (h : n ≤ nq) (w : Nat) : w ∈ qubitOrder n nq ↔ w < nq := by
  unfold qubitOrder
  split
  · simp only [List.mem_append, List.mem_reverse, List.mem_range, List.mem_range'_1]; omega
  · simp only [List.append_nil, List.mem_reverse, List.mem_range]; omega

theorem nodup_reverse' {l : List Nat} (h : l.Nodup) : l.reverse.Nodup := by
  rw [List.Nodup, List.pairwise_reverse]
  exact h.imp (fun h => Ne.symm h)

theorem qubitOrder_nodup (n nq : Nat) : (qubitOrder n nq).Nodup := by
  unfold qubitOrder
  have h1 : (List.range n).reverse.Nodup := nodup_reverse' List.nodup_range
  split
  · rw [List.nodup_append]
    refine ⟨h1, nodup_reverse' List.nodup_range', ?_⟩
    intro a ha b hb
    simp only [List.mem_reverse, List.mem_range, List.mem_range'_1] at ha hb
    omega
  · simpa using h1

theorem qubitOrder_take (n nq : Nat) : (qubitOrder n nq).take n = (List.range n).reverse := by
  unfold qubitOrder
  rw [List.take_append_of_le_length (by simp)]
  exact List.take_of_length_le (by simp)

theorem two_pow_ge (d : Nat) : d + 1 ≤ 2^d := by
  induction d with
  | zero => simp
  | succ d ih => rw [Nat.pow_succ]; omega

theorem width_ge (n s : Nat) (hn : s ≤ n) : n + 1 ≤ (s + 1) * 2^(n - s) := by
  have := two_pow_ge (n - s)
  have h2 : (s + 1) * (n - s + 1) ≤ (s + 1) * 2^(n - s) := Nat.mul_le_mul_left _ this
  have h3 : n + 1 ≤ (s + 1) * (n - s + 1) := by
    rw [Nat.mul_add, Nat.mul_one, Nat.add_mul, Nat.one_mul]
    have : 0 ≤ s * (n - s) := Nat.zero_le _
    omega
  omega

/-- `add_register` on a complete tree with `n` levels and split `s` (`start_level = n - s`). -/
theorem addRegister_complete (n s : Nat) (hs : 1 ≤ s) (hn : s ≤ n) (t : BT (AV F))
    (ht : complete n t) :
    ∃ a, addRegister t (n - s) = some a
      ∧ a.nqubits + 1 = (s + 1) * 2^(n - s) ∧ a.noutput = n ∧ a.circWidth = a.nqubits
      ∧ a.rest = [] ∧ allocWires a.tree = qubitOrder n a.nqubits
      ∧ AllocSpec (n - s) 0 n t (qubitOrder n a.nqubits) a.tree := by
  obtain ⟨m, rfl⟩ : ∃ m, n = m + 1 := ⟨n - 1, by omega⟩
  have hlc := levelCounts_complete m t ht
  have hget : (pow2s (m+1))[m + 1 - s]? = some (2^(m + 1 - s)) := pow2s_get _ _ (by omega)
  have hsum := pow2s_sum (m + 1 - s)
  have hcl := allocCount_closed (m + 1 - s) (m + 1 - s) 0 (m+1) (by omega) (by omega)
  rw [show m + 1 - (m + 1 - s) = s by omega] at hcl
  have hge := allocCount_ge (m + 1 - s) (m+1) 0
  -- the value of `nqubits`
  let nq := ((pow2s (m+1)).take (m + 1 - s)).sum + 2^(m + 1 - s) * (m + 1 - (m + 1 - s))
  have hnq : nq = allocCount (m + 1 - s) 0 (m+1) := by
    show ((pow2s (m+1)).take (m + 1 - s)).sum + 2^(m + 1 - s) * (m + 1 - (m + 1 - s)) = _
    rw [pow2s_take _ _ (by omega), show m + 1 - (m + 1 - s) = s by omega]
    omega
  have hle : m + 1 ≤ nq := by rw [hnq]; exact hge
  obtain ⟨t', ht', spec⟩ := addRegAux_complete (m + 1 - s) (m+1) 0 t (qubitOrder (m+1) nq) ht
    (by rw [qubitOrder_length _ _ hle, hnq]; exact Nat.le_refl _)
  have hdrop : (qubitOrder (m+1) nq).drop (allocCount (m + 1 - s) 0 (m+1)) = [] := by
    apply List.drop_of_length_le
    rw [qubitOrder_length _ _ hle, hnq]; exact Nat.le_refl _
  have htake : (qubitOrder (m+1) nq).take (allocCount (m + 1 - s) 0 (m+1)) = qubitOrder (m+1) nq := by
    apply List.take_of_length_le
    rw [qubitOrder_length _ _ hle, hnq]; exact Nat.le_refl _
  refine ⟨⟨t', nq, m+1, m + 1 + (nq - (m+1)), []⟩, ?_, ?_, rfl, ?_, rfl, ?_, spec⟩
  · simp only [addRegister, hlc, hget, pow2s_length]
    show (match addRegAux (m + 1 - s) 0 t (qubitOrder (m+1) nq) with
      | none => none
      | some (t', rest) => some (⟨t', nq, m+1, m + 1 + (nq - (m+1)), rest⟩ : Alloc F)) = _
    rw [ht', hdrop]
  · show nq + 1 = _
    rw [hnq, hcl, Nat.mul_comm (s+1), Nat.mul_add, Nat.mul_one, Nat.add_comm]
  · show m + 1 + (nq - (m+1)) = nq
    omega
  · show allocWires t' = _
    rw [spec.wires, htake]

theorem treeWires_eq_allocWires : ∀ (t : BT (QV F)), allQ t = true → treeWires t = allocWires t
  | .nil, _ => rfl
  | .node v l r, h => by
    simp only [allQ, Bool.and_eq_true] at h
    obtain ⟨⟨hq, hl⟩, hr⟩ := h
    obtain ⟨q, hq'⟩ := Option.isSome_iff_exists.1 hq
    have e1 := treeWires_eq_allocWires l hl
    have e2 := treeWires_eq_allocWires r hr
    rw [allocWires_node v l r q hq', ← e1, ← e2]
    simp [treeWires, BT.preorder, wire, hq']

end

end Qclib
