import QclibModel.Proofs.UnitaryFullMat
import QclibModel.Proofs.UnitaryCsd
import QclibModel.Proofs.UnitaryDemux
import QclibModel.Proofs.TreeUcrW
/-
  C02 — the placement gap: semantics of the gate list the model REALLY emits for the middle
  circuit of `build_unitary`,

      place (ucr(RY, 2θ, CZ, last_control=False)) ([n-1] + range(n-1)),

  on the wires it really uses, first as an amplitude transformer (`middle_sem`: the CS multiplexer
  on the top wire `n-1` indexed by the little-endian number on the wires `0 … n-2`, followed by the
  omitted `CZ(n-2, n-1)`), then as a matrix on the `n` wires (`middle_mat`: `CZ · CS(θ)`), and the
  matrix of the `UCRZ(-2·arg d)` multiplexer on the same wires (`ucrz_mat`: `D ⊕ D⁻¹`).
-/
namespace Qclib.Uni
open Qclib Matrix RotSem

/-- control of ucr level `j ≥ 1` sits on wire `j-1` once placed on `[n-1] + range(n-1)`. -/
def lowW : Nat → Nat := fun j => j - 1

theorem topFirst_getD (m i : Nat) (hi : i ≤ m + 1) :
    (topFirst (m + 2)).getD i 0 = rhoW (m + 1) lowW i := by
  cases i with
  | zero => rfl
  | succ j =>
    show (List.range (m + 1)).getD j 0 = j
    rw [List.getD_eq_getElem?_getD, List.getElem?_range (by omega)]
    rfl

/-- `place … (topFirst (m+2))` of a `ucr` with `m+1` controls is the renaming target ↦ `m+1`,
control of level `j` ↦ wire `j-1`. -/
theorem place_topFirst {Θ : Type} (o : AOps Θ) (ax : Axis) (e : Ent) (m : Nat) (a : Nat → Θ)
    (last : Bool) :
    place (ucr o ax e (m + 1) a last) (topFirst (m + 2))
      = (ucr o ax e (m + 1) a last).map (G.mapWires (rhoW (m + 1) lowW)) :=
  ucr_map_congr o ax e _ _ (m + 1) (fun i hi => topFirst_getD m i hi) a last

/-- the number the placed multiplexer reads on its controls is the little-endian number on the
wires `0 … n-1`. -/
theorem ctrlIdxW_low (n : Nat) (b : Bits) : ctrlIdxW lowW n b = natOf n (enc n b) := by
  induction n with
  | zero => rfl
  | succ n ih =>
    show ctrlIdxW lowW n b + (if b n then 2 ^ n else 0) = _
    cases hb : b n
    · rw [enc_succ_false n b hb]
      show _ = natOf n (enc n b)
      rw [ih]; simp
    · rw [enc_succ_true n b hb]
      show _ = natOf n (enc n b) + 2 ^ n
      rw [ih]; simp

section amp
variable {Θ R : Type} [AddCommGroup Θ] [CommRing R] [RotSem Θ R] [RotLaws Θ R]

/-- the CS block `[[c, -s], [s, c]]` for the (undoubled) angle `θ`: `c = cs(θ+θ)`, `s = sn(θ+θ)`
(`cos θ`, `sin θ` in the `ℝ → ℂ` instance). -/
def csBlock (θ : Θ) : Mat2 R := ⟨cs (θ + θ), -(sn (θ + θ)), sn (θ + θ), cs (θ + θ)⟩

omit [AddCommGroup Θ] [RotLaws Θ R] in
theorem denote_cz_fam (c t : Nat) (ψ : State R) :
    denote (G.cz c t : G Θ) ψ = applyFam (fun b => if b c then (Mat2.Z : Mat2 R) else 1) t ψ :=
  applyMcu_one_at c t Mat2.Z ψ

/-- **Middle circuit of `build_unitary` on the wires the model uses, amplitude level, all sizes.**
The gate list `place (ucr(RY, 2θ, CZ, False)) ([n-1] + range(n-1))`, `n = m+2`, denotes on every
state: the CS multiplexer on the top wire `m+1` whose block is selected by the little-endian number
on the wires `0 … m`, followed by `CZ(m, m+1)` — the omitted last entangler, sitting between the
two top wires. -/
theorem middle_sem (half : Θ → Θ) (negl : Θ → Bool)
    (hhalf : ∀ a, half a + half a = a) (hadd : ∀ a b, half (a + b) = half a + half b)
    (hnegl : ∀ a, negl a = true → a = 0) (m : Nat) (θ : Nat → Θ) (ψ : State R) :
    sem (place (ucr (stdOps half negl) Axis.Y Ent.CZ (m + 1) (fun j => θ j + θ j) false)
        (topFirst (m + 2))) ψ
      = denote (G.cz m (m + 1) : G Θ)
          (applyFam (fun b => (csBlock (θ (natOf (m + 1) (enc (m + 1) b))) : Mat2 R)) (m + 1) ψ) := by
  have hcw : ∀ j, 1 ≤ j → j ≤ m + 1 → lowW j ≠ m + 1 := by
    intro j h1 hj; simp only [lowW]; omega
  obtain ⟨⟨_, h⟩, _⟩ := ucr_mapWires_inv (R := R) half negl hhalf hadd hnegl
    (ax := Axis.Y) (e := Ent.CZ) rfl (m + 1) lowW (m + 1) hcw (fun j => θ j + θ j)
  rw [place_topFirst, h, denote_cz_fam]
  have hfree : BitFree (m + 1)
      (fun b => (csBlock (θ (natOf (m + 1) (enc (m + 1) b))) : Mat2 R)) := by
    intro b v
    show csBlock (θ (natOf (m + 1) (enc (m + 1) (setBit b (m + 1) v)))) = _
    rw [enc_setBit_ge (m + 1) b v (Nat.le_refl _)]
  rw [applyFam_comp_at _ _ _ hfree]
  congr 1
  funext b
  rw [EkW_succ, ctrlIdxW_low]
  rfl

end amp

/-! ### matrix level -/

section mat
variable {R : Type} [CommRing R]

/-- `Z` on the top qubit of `k+1` qubits: `diag(1, -1)` over the outer sum (`= Zh R (QI k)`). -/
def Zlow (k : Nat) : Matrix (QI (k + 1)) (QI (k + 1)) R := fromBlocks 1 0 0 (-1)

/-- `CZ` between the two top qubits of `k+2` qubits (`= CZm R (QI k)`). -/
def CZtop (k : Nat) : Matrix (QI (k + 2)) (QI (k + 2)) R :=
  fromBlocks 1 0 0 (Zlow k : Matrix (QI (k + 1)) (QI (k + 1)) R)

theorem Zlow_eq_Zh (k : Nat) : (Zlow k : Matrix (QI (k + 1)) (QI (k + 1)) R) = Zh R (QI k) := rfl

theorem CZtop_eq_CZm (k : Nat) : (CZtop k : Matrix (QI (k + 2)) (QI (k + 2)) R) = CZm R (QI k) := rfl

/-- sign of `Z` on the top qubit. -/
def zTop (k : Nat) : QI (k + 1) → R := Sum.elim (fun _ : QI k => (1 : R)) (fun _ : QI k => -1)

theorem Zlow_eq_diagonal (k : Nat) :
    (Zlow k : Matrix (QI (k + 1)) (QI (k + 1)) R) = diagonal (zTop k) := by
  have h1 : (1 : Matrix (QI k) (QI k) R) = diagonal (fun _ => (1 : R)) := diagonal_one.symm
  have h2 : (-1 : Matrix (QI k) (QI k) R) = diagonal (fun _ => (-1 : R)) := by
    rw [h1, diagonal_neg]
  rw [Zlow, h2, h1]
  exact fromBlocks_diagonal _ _

theorem zTop_enc (k : Nat) (b : Bits) : (zTop k (enc (k + 1) b) : R) = if b k then -1 else 1 := by
  cases hb : b k
  · rw [enc_succ_false k b hb]; rfl
  · rw [enc_succ_true k b hb]; rfl

theorem fromBlocks_zero_diag {n : Nat} (p s : QI n → R) :
    (fromBlocks (diagonal p) 0 0 (diagonal s) : Matrix (QI (n + 1)) (QI (n + 1)) R)
      = fromBlocks (diagonal p) (diagonal fun _ => 0) (diagonal fun _ => 0) (diagonal s) := by
  have h0 : (0 : Matrix (QI n) (QI n) R) = diagonal (fun _ => (0 : R)) := (diagonal_zero).symm
  rw [← h0]

theorem applyMat_CZtop (k : Nat) (ψ : State R) :
    applyMat (k + 2) (CZtop k : Matrix (QI (k + 2)) (QI (k + 2)) R) ψ
      = applyFam (fun b => if b k then (Mat2.Z : Mat2 R) else 1) (k + 1) ψ := by
  have h1 : (1 : Matrix (QI (k + 1)) (QI (k + 1)) R) = diagonal (fun _ => (1 : R)) :=
    diagonal_one.symm
  rw [CZtop, Zlow_eq_diagonal, h1, fromBlocks_zero_diag, applyMat_diagBlocks]
  congr 1
  funext b
  rw [zTop_enc]
  cases b k <;> rfl

end mat

section matrot
variable {Θ R : Type} [AddCommGroup Θ] [CommRing R] [RotSem Θ R] [RotLaws Θ R]

/-- the `[[C, -S], [S, C]]` matrix of `scipy.linalg.cossin` on `n+1` qubits: block index = the top
qubit, `C = diag(cs(θ_j+θ_j))`, `S = diag(sn(θ_j+θ_j))`, `j` = little-endian number on the `n` low
qubits. -/
def CSmat (n : Nat) (θ : Nat → Θ) : Matrix (QI (n + 1)) (QI (n + 1)) R :=
  fromBlocks (diagonal fun j => cs (θ (natOf n j) + θ (natOf n j)))
    (diagonal fun j => -(sn (θ (natOf n j) + θ (natOf n j))))
    (diagonal fun j => sn (θ (natOf n j) + θ (natOf n j)))
    (diagonal fun j => cs (θ (natOf n j) + θ (natOf n j)))

omit [RotLaws Θ R] in
theorem applyMat_CSmat (n : Nat) (θ : Nat → Θ) (ψ : State R) :
    applyMat (n + 1) (CSmat n θ : Matrix (QI (n + 1)) (QI (n + 1)) R) ψ
      = applyFam (fun b => (csBlock (θ (natOf n (enc n b))) : Mat2 R)) n ψ :=
  applyMat_diagBlocks n _ _ _ _ ψ

/-- **Middle circuit of `build_unitary`, matrix level, all sizes.**  The gate list the model emits
for the middle circuit on `n = m+2` qubits denotes the matrix `CZ · CS(θ)` on the wires
`0 … m+1` (little-endian, identity on every other wire), `CZ` between the two top qubits. -/
theorem middle_mat (half : Θ → Θ) (negl : Θ → Bool)
    (hhalf : ∀ a, half a + half a = a) (hadd : ∀ a b, half (a + b) = half a + half b)
    (hnegl : ∀ a, negl a = true → a = 0) (m : Nat) (θ : Nat → Θ) (ψ : State R) :
    sem (place (ucr (stdOps half negl) Axis.Y Ent.CZ (m + 1) (fun j => θ j + θ j) false)
        (topFirst (m + 2))) ψ
      = applyMat (m + 2) (CZtop m * CSmat (m + 1) θ : Matrix (QI (m + 2)) (QI (m + 2)) R) ψ := by
  rw [middle_sem half negl hhalf hadd hnegl, applyMat_mul, applyMat_CSmat, applyMat_CZtop,
    denote_cz_fam]

/-- the matrix `D ⊕ D⁻¹` of the `UCRZ(-2·α)` multiplexer on `n+1` qubits, `d_j = ex α_j · ex α_j`
(`= e^{iα_j}`), `j` = little-endian number on the `n` low qubits. -/
def DDmat (n : Nat) (α : Nat → Θ) : Matrix (QI (n + 1)) (QI (n + 1)) R :=
  fromBlocks (diagonal fun j => ex (α (natOf n j)) * ex (α (natOf n j))) 0 0
    (diagonal fun j => ex (-(α (natOf n j))) * ex (-(α (natOf n j))))

/-- **`UCRZ(-2·α)` on `[n] + range(n)`, matrix level.**  The ideal Z-multiplexer with target wire
`n` and controls `0 … n-1` (control `i` = bit `i` of the angle index) with the angles `-(α_j+α_j)`
denotes `D ⊕ D⁻¹` on the wires `0 … n`. -/
theorem ucrz_mat (n : Nat) (α : Nat → Θ) (ψ : State R) :
    applyFam (fun b => (matRZ (-(α (ctrlIdxW lowW n b) + α (ctrlIdxW lowW n b))) : Mat2 R)) n ψ
      = applyMat (n + 1) (DDmat n α : Matrix (QI (n + 1)) (QI (n + 1)) R) ψ := by
  rw [DDmat, fromBlocks_zero_diag, applyMat_diagBlocks]
  congr 1
  funext b
  rw [ctrlIdxW_low, demux_rz]

end matrot

end Qclib.Uni
