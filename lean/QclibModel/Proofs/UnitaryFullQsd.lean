import QclibModel.Proofs.UnitaryFullMiddle
import Mathlib.LinearAlgebra.Matrix.ConjTranspose
/-
  C02 — WHOLE-RECURSION assembly of `build_unitary(gate, "qsd", iso)`.

  * `runUG`: denotation of the model's list of library objects (`UG`).  `G` gates by `denote`;
    qiskit's `UCRZGate`/`UCRYGate` by their specification (the ideal multiplexer on
    `[target] + controls`, control `i` = bit `i` of the angle index) — trusted; the data-carrying
    objects (`UnitaryGate`, `UCGate`), whose matrices the shape-level model does not carry, take
    their denotation from a list supplied in circuit order.
  * `QsdSynth`: "the tape is the in-order record of kernel outputs of a run of the recursion on
    `X`, and at EVERY node the outputs satisfy the kernel's specification" (cossin: `X = diag(u0,u1) ·
    CS(θ) · diag(v0,v1)`; demultiplexing of a pair `(U1, U2)`: `U1 U2† = V diag(d²) V†`, `V V† = 1`,
    `U2† U2 = 1`, `d_j = e^{iα_j}`; a leaf `UnitaryGate(X)` on `≤ 2` qubits denotes `X`).
  * `qsd_full`: by induction over the recursion, the gate list `buildQsd` emits from that tape
    consumes exactly the tape and denotes a matrix `C` on the wires `0 … n-1` (every state,
    identity elsewhere) with `C = X` (`iso = 0`) resp. `C` and `X` agreeing on the columns whose top
    `iso` qubits read `0`.
-/
namespace Qclib.Uni
open Qclib Matrix RotSem

/-! ### semantics of the list of library objects -/

section run
variable {Θ R : Type} [Zero Θ] [CommRing R] [RotSem Θ R]

/-- denotation of a data-carrying library object: a transformer of states. -/
abbrev Leaf (R : Type) := State R → State R

/-- denotation of the objects that carry all their data.  `ucrz`/`ucry` on `ws = [target] +
controls`: the ideal multiplexer (control `ws[i+1]` = bit `i` of the angle index) — qiskit's
specification, trusted. -/
def ugDen : UG Θ → State R → State R
  | .g g => denote g
  | .ucrz as ws => applyFam (fun b => matRZ
      (as.getD (ctrlIdxW (fun j => ws.getD j 0) (ws.length - 1) b) 0)) (ws.getD 0 0)
  | .ucry as ws => applyFam (fun b => matRY
      (as.getD (ctrlIdxW (fun j => ws.getD j 0) (ws.length - 1) b) 0)) (ws.getD 0 0)
  | .unitary _ => id
  | .ucg _ _ => id

/-- run a list of library objects; `UnitaryGate`/`UCGate` consume the next supplied denotation.
Returns the final state and the unused denotations. -/
def runUG : List (UG Θ) → List (Leaf R) → State R → State R × List (Leaf R)
  | [], Ls, ψ => (ψ, Ls)
  | .unitary _ :: gs, L :: Ls, ψ => runUG gs Ls (L ψ)
  | .ucg _ _ :: gs, L :: Ls, ψ => runUG gs Ls (L ψ)
  | g :: gs, Ls, ψ => runUG gs Ls (ugDen g ψ)

theorem runUG_append (a b : List (UG Θ)) (Ls : List (Leaf R)) (ψ : State R) :
    runUG (a ++ b) Ls ψ = runUG b (runUG a Ls ψ).2 (runUG a Ls ψ).1 := by
  induction a generalizing Ls ψ with
  | nil => rfl
  | cons g a ih =>
    cases g <;> cases Ls <;> simp only [List.cons_append, runUG, ih]

theorem runUG_g (c : Circ Θ) (Ls : List (Leaf R)) (ψ : State R) :
    runUG (c.map UG.g) Ls ψ = (sem c ψ, Ls) := by
  induction c generalizing ψ with
  | nil => rfl
  | cons g c ih =>
    simp only [List.map_cons, runUG, ih]
    rfl

end run

/-! ### the recursion, unfolded -/

/-- `_unitary(list(pair), n+1, "qsd") = _qsd(gate1, gate2)` for blocks on `n` qubits: tape entry
`angle(list_d)`, `build_unitary(gate_w)`, `UCRZ(-2·angle)` on `[n] + range(n)`,
`build_unitary(gate_v)`.  (The local function `qsdPair` of `buildQsd`, named.) -/
def qsdPair {Θ} (o : UOps Θ) (n : Nat) (t : Tape Θ) : List (UG Θ) × Tape Θ :=
  let d := (pop t).1
  let w := buildQsd o n 0 (pop t).2
  let v := buildQsd o n 0 w.2
  (w.1 ++ [UG.ucrz (d.map o.negDbl) (topFirst (n + 1))] ++ v.1, v.2)

theorem buildQsd_node {Θ} (o : UOps Θ) (n iso : Nat) (tape : Tape Θ) :
    buildQsd o (n + 3) iso tape =
      (let l := if iso ≠ 0 then buildQsd o (n + 2) (iso - 1) (pop tape).2
                else qsdPair o (n + 2) (pop tape).2
       let r := qsdPair o (n + 2) l.2
       (l.1 ++ middle o (n + 3) (pop tape).1 ++ r.1, r.2)) := by
  rw [buildQsd]
  rfl

theorem buildQsd_leaf {Θ} (o : UOps Θ) (n iso : Nat) (hn : n ≤ 2) (tape : Tape Θ) :
    buildQsd o n iso tape = ([UG.unitary (List.range n)], tape) := by
  match n, hn with
  | 0, _ => rfl
  | 1, _ => rfl
  | 2, _ => rfl

/-- the angle operations of the theorems: an abelian group with halving (`stdOps`), negation, `0`. -/
def stdUOps {Θ : Type} [AddCommGroup Θ] (half : Θ → Θ) (negl : Θ → Bool) : UOps Θ :=
  ⟨stdOps half negl, Neg.neg, 0⟩

/-- block-diagonal over the top qubit, typed at the qubit-index level. -/
abbrev bd {R : Type} [Zero R] {n : Nat} (A B : Matrix (QI n) (QI n) R) :
    Matrix (QI (n + 1)) (QI (n + 1)) R := fromBlocks A 0 0 B

/-! ### leading columns (isometry mode) -/

/-- the top `t` wires `n-t … n-1` of the index read `0`. -/
def TopZero (n t : Nat) (j : QI n) : Prop := ∀ q, n - t ≤ q → q < n → bitOf n j q = false

theorem TopZero_zero (n : Nat) (j : QI n) : TopZero n 0 j := by
  intro q h1 h2; omega

theorem TopZero_inl (n t : Nat) (j : QI n) (h : TopZero n t j) :
    TopZero (n + 1) (t + 1) (Sum.inl j : QI (n + 1)) := by
  intro q h1 h2
  rw [bitOf_inl]
  by_cases hq : q = n
  · rw [if_pos hq]
  · rw [if_neg hq]; exact h q (by omega) (by omega)

theorem TopZero_succ (n t : Nat) (jj : QI (n + 1)) (h : TopZero (n + 1) (t + 1) jj) :
    ∃ j : QI n, jj = (Sum.inl j : QI (n + 1)) ∧ TopZero n t j := by
  rcases jj with j | j
  · refine ⟨j, rfl, fun q h1 h2 => ?_⟩
    have := h q (by omega) (by omega)
    rw [bitOf_inl, if_neg (by omega)] at this
    exact this
  · have := h n (by omega) (by omega)
    rw [bitOf_inr, if_pos rfl] at this
    exact absurd this (by decide)

/-- `C` and `X` have the same columns `j` with the top `t` qubits of `j` reading `0`. -/
def LeadEq {R : Type} (n t : Nat) (C X : Matrix (QI n) (QI n) R) : Prop :=
  ∀ i j, TopZero n t j → C i j = X i j

theorem LeadEq.eq {R : Type} {n : Nat} {C X : Matrix (QI n) (QI n) R} (h : LeadEq n 0 C X) :
    C = X := by
  funext i j
  exact h i j (TopZero_zero n j)

/-! ### the kernel specifications along the recursion -/

section synth
variable {Θ R : Type} [AddCommGroup Θ] [CommRing R] [StarRing R] [RotSem Θ R]

/-- what is being synthesised: one matrix on `n` qubits in isometry mode `iso`, or the pair
`diag(U1, U2)` of two `n`-qubit blocks (on `n+1` qubits). -/
inductive Goal (R : Type) where
  | one (n iso : Nat) (X : Matrix (QI n) (QI n) R)
  | pair (n : Nat) (U1 U2 : Matrix (QI n) (QI n) R)

/-- `d_j = e^{iα_j}` from the tape entry `α = np.angle(list_d)`. -/
def dOf (α : List Θ) {n : Nat} (j : QI n) : R :=
  ex (α.getD (natOf n j) 0) * ex (α.getD (natOf n j) 0)

/-- **The record of a run of `build_unitary(X, "qsd", iso)` whose kernel outputs all meet their
specifications.**  Indices: the goal, the tape (kernel angle outputs in call order: `theta` of each
`cossin`, `np.angle(list_d)` of each `_compute_gates`) and the denotations of the leaf
`UnitaryGate`s in circuit order.
* `leaf`: `size ≤ 4`: `UnitaryGate(X)` on the wires `0 … n-1` denotes `X` (little-endian) — qiskit.
* `pair` (`_qsd`/`_compute_gates` on `(U1, U2)`): the eigen equation `U1 U2† = V diag(d²) V†` with
  `V V† = 1` (after `_closest_unitary` this is an assumption), `U2† U2 = 1`, `d = e^{iα}`; the
  recursion continues on `W = D V† U2` and on `V`.
* `node` (`iso = 0`): the `cossin` specification `X = diag(u0,u1) · CS(θ) · diag(v0,v1)`; the left
  pair is `(v0, v1)`, the right pair `(u0, u1·Z)` — `u1` with the right half of its columns negated.
* `nodeIso` (`iso = t+1`): the same, but on the left only `v0` is synthesised, in mode `t`. -/
inductive QsdSynth : Goal R → Tape Θ → List (Leaf R) → Prop
  | leaf (n iso : Nat) (X : Matrix (QI n) (QI n) R) (hn : n ≤ 2) :
      QsdSynth (.one n iso X) [] [applyMat n X]
  | pair (n : Nat) (U1 U2 V : Matrix (QI n) (QI n) R) (α : List Θ)
      (tW tV : Tape Θ) (lW lV : List (Leaf R))
      (hV : V * Vᴴ = 1)
      (heig : U1 * U2ᴴ = V * diagonal (fun j => dOf α j * dOf α j) * Vᴴ)
      (hU2 : U2ᴴ * U2 = 1)
      (hW : QsdSynth (.one n 0 (diagonal (dOf α) * Vᴴ * U2)) tW lW)
      (hVs : QsdSynth (.one n 0 V) tV lV) :
      QsdSynth (.pair n U1 U2) (α :: (tW ++ tV)) (lW ++ lV)
  | node (m : Nat) (X : Matrix (QI (m + 3)) (QI (m + 3)) R)
      (u0 u1 v0 v1 : Matrix (QI (m + 2)) (QI (m + 2)) R) (θ : List Θ)
      (tL tR : Tape Θ) (lL lR : List (Leaf R))
      (hX : X = bd u0 u1 * CSmat (m + 2) (fun j => θ.getD j 0) * bd v0 v1)
      (hL : QsdSynth (.pair (m + 2) v0 v1) tL lL)
      (hR : QsdSynth (.pair (m + 2) u0 (u1 * Zlow (m + 1))) tR lR) :
      QsdSynth (.one (m + 3) 0 X) (θ :: (tL ++ tR)) (lL ++ lR)
  | nodeIso (m t : Nat) (X : Matrix (QI (m + 3)) (QI (m + 3)) R)
      (u0 u1 v0 v1 : Matrix (QI (m + 2)) (QI (m + 2)) R) (θ : List Θ)
      (tL tR : Tape Θ) (lL lR : List (Leaf R))
      (hX : X = bd u0 u1 * CSmat (m + 2) (fun j => θ.getD j 0) * bd v0 v1)
      (hL : QsdSynth (.one (m + 2) t v0) tL lL)
      (hR : QsdSynth (.pair (m + 2) u0 (u1 * Zlow (m + 1))) tR lR) :
      QsdSynth (.one (m + 3) (t + 1) X) (θ :: (tL ++ tR)) (lL ++ lR)

/-- what the induction proves for each kind of goal. -/
def Concl (o : UOps Θ) : Goal R → Tape Θ → List (Leaf R) → Prop
  | .one n iso X, tape, leaves => ∀ rest : Tape Θ, ∃ gs,
      buildQsd o n iso (tape ++ rest) = (gs, rest) ∧
      ∃ C : Matrix (QI n) (QI n) R,
        (∀ (Ls : List (Leaf R)) (ψ : State R), runUG gs (leaves ++ Ls) ψ = (applyMat n C ψ, Ls)) ∧
        LeadEq n iso C X
  | .pair n U1 U2, tape, leaves => ∀ rest : Tape Θ, ∃ gs,
      qsdPair o n (tape ++ rest) = (gs, rest) ∧
      ∀ (Ls : List (Leaf R)) (ψ : State R), runUG gs (leaves ++ Ls) ψ
        = (applyMat (n + 1) (bd U1 U2) ψ, Ls)

end synth

/-! ### the steps -/

section steps
variable {Θ R : Type} [AddCommGroup Θ] [CommRing R] [RotSem Θ R] [RotLaws Θ R]

theorem topFirst_succ_getD (n i : Nat) (hi : i ≤ n) :
    (topFirst (n + 1)).getD i 0 = rhoW n lowW i := by
  cases i with
  | zero => rfl
  | succ j =>
    show (List.range n).getD j 0 = j
    rw [List.getD_eq_getElem?_getD, List.getElem?_range (by omega)]
    rfl

theorem getD_map_negDbl (half : Θ → Θ) (negl : Θ → Bool) (d : List Θ) (i : Nat) :
    (d.map (stdUOps half negl).negDbl).getD i 0 = -(d.getD i 0 + d.getD i 0) := by
  simp only [List.getD_eq_getElem?_getD, List.getElem?_map]
  cases d[i]? with
  | none => simp
  | some x => rfl

/-- the `UCRZ(-2·angle(list_d))` object of `_qsd` on `[n] + range(n)` denotes `D ⊕ D⁻¹`. -/
theorem ucrz_den (half : Θ → Θ) (negl : Θ → Bool) (n : Nat) (α : List Θ) (ψ : State R) :
    ugDen (UG.ucrz (α.map (stdUOps half negl).negDbl) (topFirst (n + 1))) ψ
      = applyMat (n + 1) (DDmat n (fun j => α.getD j 0) : Matrix (QI (n + 1)) (QI (n + 1)) R) ψ := by
  rw [← ucrz_mat]
  have hlen : (topFirst (n + 1)).length - 1 = n := by simp [topFirst]
  have h0 : (topFirst (n + 1)).getD 0 0 = n := rfl
  show applyFam _ _ ψ = _
  rw [hlen, h0]
  congr 1
  funext b
  rw [ctrlIdxW_congr (cw' := lowW) b n (fun j h1 hj => by
    rw [topFirst_succ_getD n j hj]; cases j with
    | zero => omega
    | succ j => rfl)]
  rw [getD_map_negDbl]

variable [StarRing R]

omit [RotLaws Θ R] in
/-- `D ⊕ D⁻¹` is `D ⊕ D†` when `conj e^{ia/2} = e^{-ia/2}`. -/
theorem DDmat_eq (hex : ∀ a : Θ, star (ex a : R) = ex (-a)) (n : Nat) (α : List Θ) :
    (DDmat n (fun j => α.getD j 0) : Matrix (QI (n + 1)) (QI (n + 1)) R)
      = bd (diagonal (dOf α)) (diagonal (dOf α))ᴴ := by
  rw [DDmat, diagonal_conjTranspose]
  congr 1
  congr 1
  funext j
  simp only [dOf, Pi.star_apply, star_mul', hex]

theorem dOf_unimod (hex : ∀ a : Θ, star (ex a : R) = ex (-a)) (α : List Θ) {n : Nat} (j : QI n) :
    (dOf α j : R) * star (dOf α j) = 1 := by
  simp only [dOf, star_mul', hex]
  exact demux_rz_inv _

end steps

/-! ### the induction over the recursion -/

section main
variable {Θ R : Type} [AddCommGroup Θ] [CommRing R] [StarRing R] [RotSem Θ R] [RotLaws Θ R]

/-- matrix identity of one `_qsd` call: `(V ⊕ V)(D ⊕ D⁻¹)(W ⊕ W) = U1 ⊕ U2`. -/
theorem pair_mat (hex : ∀ a : Θ, star (ex a : R) = ex (-a)) (n : Nat)
    (U1 U2 V : Matrix (QI n) (QI n) R) (α : List Θ)
    (hV : V * Vᴴ = 1)
    (heig : U1 * U2ᴴ = V * diagonal (fun j => dOf α j * dOf α j) * Vᴴ)
    (hU2 : U2ᴴ * U2 = 1) :
    bd V V * (DDmat n (fun j => α.getD j 0) : Matrix (QI (n + 1)) (QI (n + 1)) R)
        * bd (diagonal (dOf α) * Vᴴ * U2) (diagonal (dOf α) * Vᴴ * U2) = bd U1 U2 := by
  rw [DDmat_eq hex]
  exact (demux_blocks U1 U2 V (dOf α) hV (fun j => dOf_unimod hex α j) heig hU2).symm

/-- semantics of the gate list of one `_qsd` call from the semantics of its two sub-circuits. -/
theorem pair_run (half : Θ → Θ) (negl : Θ → Bool) (hex : ∀ a : Θ, star (ex a : R) = ex (-a))
    (n : Nat) (U1 U2 V : Matrix (QI n) (QI n) R) (α : List Θ)
    (hV : V * Vᴴ = 1)
    (heig : U1 * U2ᴴ = V * diagonal (fun j => dOf α j * dOf α j) * Vᴴ)
    (hU2 : U2ᴴ * U2 = 1) (gsW gsV : List (UG Θ)) (lW lV : List (Leaf R))
    (hW : ∀ (Ls : List (Leaf R)) (ψ : State R),
      runUG gsW (lW ++ Ls) ψ = (applyMat n (diagonal (dOf α) * Vᴴ * U2) ψ, Ls))
    (hVr : ∀ (Ls : List (Leaf R)) (ψ : State R), runUG gsV (lV ++ Ls) ψ = (applyMat n V ψ, Ls))
    (Ls : List (Leaf R)) (ψ : State R) :
    runUG (gsW ++ [UG.ucrz (α.map (stdUOps half negl).negDbl) (topFirst (n + 1))] ++ gsV)
        ((lW ++ lV) ++ Ls) ψ = (applyMat (n + 1) (bd U1 U2) ψ, Ls) := by
  rw [runUG_append, runUG_append, List.append_assoc, hW]
  have h1 : ∀ (Ls' : List (Leaf R)) (φ : State R),
      runUG [UG.ucrz (α.map (stdUOps half negl).negDbl) (topFirst (n + 1))] Ls' φ
        = (ugDen (UG.ucrz (α.map (stdUOps half negl).negDbl) (topFirst (n + 1))) φ, Ls') := by
    intro Ls' φ; cases Ls' <;> rfl
  simp only [h1, hVr]
  have e1 : ∀ φ : State R, applyMat n V φ = applyMat (n + 1) (bd V V) φ :=
    fun φ => (applyMat_same n V φ).symm
  have e2 : ∀ φ : State R, applyMat n (diagonal (dOf α) * Vᴴ * U2) φ
      = applyMat (n + 1) (bd (diagonal (dOf α) * Vᴴ * U2) (diagonal (dOf α) * Vᴴ * U2)) φ :=
    fun φ => (applyMat_same n _ φ).symm
  rw [ucrz_den, e1, e2, ← applyMat_mul, ← applyMat_mul]
  exact congrArg (fun M => (applyMat (n + 1) M ψ, Ls)) (pair_mat hex n U1 U2 V α hV heig hU2)

omit [StarRing R] [AddCommGroup Θ] [RotSem Θ R] [RotLaws Θ R] in
/-- matrix identity of one `build_unitary` node: the omitted CZ and the A.1 sign flip cancel
(`csd_step_blocks`, i.e. `C02_csd_step`, at `κ = QI (m+1)`). -/
theorem node_mat (m : Nat) (u0 u1 v0 v1 : Matrix (QI (m + 2)) (QI (m + 2)) R)
    (CS : Matrix (QI (m + 3)) (QI (m + 3)) R) :
    bd u0 (u1 * Zlow (m + 1)) * (CZtop (m + 1) * CS) * bd v0 v1 = bd u0 u1 * CS * bd v0 v1 :=
  csd_step_blocks (κ := QI (m + 1)) u0 u1 v0 v1 CS

omit [StarRing R] in
/-- semantics of the gate list of one `build_unitary` node from the semantics of its left and
right parts. -/
theorem node_run (half : Θ → Θ) (negl : Θ → Bool)
    (hhalf : ∀ a, half a + half a = a) (hadd : ∀ a b, half (a + b) = half a + half b)
    (hnegl : ∀ a, negl a = true → a = 0) (m : Nat)
    (Lm Rm : Matrix (QI (m + 3)) (QI (m + 3)) R) (θ : List Θ)
    (gsL gsR : List (UG Θ)) (lL lR : List (Leaf R))
    (hL : ∀ (Ls : List (Leaf R)) (ψ : State R),
      runUG gsL (lL ++ Ls) ψ = (applyMat (m + 3) Lm ψ, Ls))
    (hR : ∀ (Ls : List (Leaf R)) (ψ : State R),
      runUG gsR (lR ++ Ls) ψ = (applyMat (m + 3) Rm ψ, Ls))
    (Ls : List (Leaf R)) (ψ : State R) :
    runUG (gsL ++ middle (stdUOps half negl) (m + 3) θ ++ gsR) ((lL ++ lR) ++ Ls) ψ
      = (applyMat (m + 3)
          (Rm * (CZtop (m + 1) * CSmat (m + 2) (fun j => θ.getD j 0)) * Lm) ψ, Ls) := by
  rw [runUG_append, runUG_append, List.append_assoc, hL]
  have hmid : ∀ (Ls' : List (Leaf R)) (φ : State R),
      runUG (middle (stdUOps half negl) (m + 3) θ) Ls' φ
        = (applyMat (m + 3) (CZtop (m + 1) * CSmat (m + 2) (fun j => θ.getD j 0)) φ, Ls') := by
    intro Ls' φ
    rw [middle, runUG_g]
    exact congrArg (fun x => (x, Ls'))
      (middle_mat half negl hhalf hadd hnegl (m + 1) (fun j => θ.getD j 0) φ)
  simp only [hmid, hR]
  rw [← applyMat_mul, ← applyMat_mul]

/-- **Whole-recursion assembly, QSD.** -/
theorem qsd_main (half : Θ → Θ) (negl : Θ → Bool)
    (hhalf : ∀ a, half a + half a = a) (hadd : ∀ a b, half (a + b) = half a + half b)
    (hnegl : ∀ a, negl a = true → a = 0) (hex : ∀ a : Θ, star (ex a : R) = ex (-a))
    {g : Goal R} {tape : Tape Θ} {leaves : List (Leaf R)} (h : QsdSynth g tape leaves) :
    Concl (stdUOps half negl) g tape leaves := by
  induction h with
  | leaf n iso X hn =>
    simp only [Concl]
    intro rest
    exact ⟨_, buildQsd_leaf _ n iso hn _, X, fun Ls ψ => rfl, fun i j _ => rfl⟩
  | pair n U1 U2 V α tW tV lW lV hV heig hU2 _ _ ihW ihV =>
    simp only [Concl] at ihW ihV ⊢
    intro rest
    obtain ⟨gsW, hbW, CW, hrW, hCW⟩ := ihW (tV ++ rest)
    obtain ⟨gsV, hbV, CV, hrV, hCV⟩ := ihV rest
    rw [hCW.eq] at hrW
    rw [hCV.eq] at hrV
    refine ⟨gsW ++ [UG.ucrz (α.map (stdUOps half negl).negDbl) (topFirst (n + 1))] ++ gsV, ?_,
      pair_run half negl hex n U1 U2 V α hV heig hU2 gsW gsV lW lV hrW hrV⟩
    simp only [qsdPair, pop, List.cons_append, List.append_assoc, hbW, hbV]
  | node m X u0 u1 v0 v1 θ tL tR lL lR hX _ _ ihL ihR =>
    simp only [Concl] at ihL ihR ⊢
    intro rest
    obtain ⟨gsL, hbL, hrL⟩ := ihL (tR ++ rest)
    obtain ⟨gsR, hbR, hrR⟩ := ihR rest
    refine ⟨gsL ++ middle (stdUOps half negl) (m + 3) θ ++ gsR, ?_, X, ?_, fun i j _ => rfl⟩
    · rw [buildQsd_node]
      simp only [pop, List.cons_append, List.append_assoc, ne_eq, not_true_eq_false, if_false,
        hbL, hbR]
    · intro Ls ψ
      rw [node_run half negl hhalf hadd hnegl m _ _ θ gsL gsR lL lR hrL hrR Ls ψ, node_mat, hX]
  | nodeIso m t X u0 u1 v0 v1 θ tL tR lL lR hX _ _ ihL ihR =>
    simp only [Concl] at ihL ihR ⊢
    intro rest
    obtain ⟨gsL, hbL, C0, hrL, hC0⟩ := ihL (tR ++ rest)
    obtain ⟨gsR, hbR, hrR⟩ := ihR rest
    refine ⟨gsL ++ middle (stdUOps half negl) (m + 3) θ ++ gsR, ?_,
      bd u0 u1 * CSmat (m + 2) (fun j => θ.getD j 0) * bd C0 C0, ?_, ?_⟩
    · rw [buildQsd_node]
      simp only [pop, List.cons_append, List.append_assoc, ne_eq, Nat.add_one_ne_zero,
        not_false_eq_true, if_true, Nat.add_sub_cancel, hbL, hbR]
    · intro Ls ψ
      have hrL' : ∀ (Ls : List (Leaf R)) (ψ : State R),
          runUG gsL (lL ++ Ls) ψ = (applyMat (m + 3) (bd C0 C0) ψ, Ls) := by
        intro Ls ψ; rw [hrL, applyMat_same]
      rw [node_run half negl hhalf hadd hnegl m _ _ θ gsL gsR lL lR hrL' hrR Ls ψ, node_mat]
    · intro i jj hjj
      obtain ⟨j, rfl, hj⟩ := TopZero_succ (m + 2) t jj hjj
      rw [hX]
      exact iso_step (bd u0 u1 * CSmat (m + 2) (fun j => θ.getD j 0)) v0 C0 v1 C0
        {j | TopZero (m + 2) t j} (fun i' j' hj' => hC0 i' j' hj') i j hj

omit [StarRing R] [AddCommGroup Θ] [RotSem Θ R] [RotLaws Θ R] in
/-- on a state supported on labels whose wires `n-t … n-1` read `0`, matrices with the same
leading columns act alike. -/
theorem applyMat_leadEq {n t : Nat} {C X : Matrix (QI n) (QI n) R} (h : LeadEq n t C X)
    (ψ : State R) (hψ : ∀ b : Bits, (∃ q, n - t ≤ q ∧ q < n ∧ b q = true) → ψ b = 0) :
    applyMat n C ψ = applyMat n X ψ := by
  funext b
  simp only [applyMat]
  refine Finset.sum_congr rfl (fun j _ => ?_)
  by_cases hj : TopZero n t j
  · rw [h _ j hj]
  · have : ∃ q, n - t ≤ q ∧ q < n ∧ bitOf n j q = true := by
      by_contra hc
      apply hj
      intro q h1 h2
      cases hb : bitOf n j q
      · rfl
      · exact absurd ⟨q, h1, h2, hb⟩ hc
    obtain ⟨q, h1, h2, hb⟩ := this
    rw [hψ (over n j b) ⟨q, h1, h2, by rw [over_lt n j b h2]; exact hb⟩, mul_zero, mul_zero]

/-- **`build_unitary(X, "qsd", iso)` as a whole** (all `n`, all `iso`): from a record of kernel
outputs that meet their specifications at every node, the model's gate list consumes exactly the
tape, uses exactly the supplied leaf denotations, and denotes on every state a matrix `C` on the
wires `0 … n-1` whose columns with the top `iso` qubits `0` are those of `X`. -/
theorem qsd_full (half : Θ → Θ) (negl : Θ → Bool)
    (hhalf : ∀ a, half a + half a = a) (hadd : ∀ a b, half (a + b) = half a + half b)
    (hnegl : ∀ a, negl a = true → a = 0) (hex : ∀ a : Θ, star (ex a : R) = ex (-a))
    {n iso : Nat} {X : Matrix (QI n) (QI n) R} {tape : Tape Θ} {leaves : List (Leaf R)}
    (h : QsdSynth (.one n iso X) tape leaves) :
    (buildUnitary (stdUOps half negl) Dec.qsd n iso tape).2 = [] ∧
    ∃ C : Matrix (QI n) (QI n) R,
      (∀ ψ : State R, runUG (buildUnitary (stdUOps half negl) Dec.qsd n iso tape).1 leaves ψ
        = (applyMat n C ψ, [])) ∧ LeadEq n iso C X := by
  have hc := qsd_main half negl hhalf hadd hnegl hex h
  simp only [Concl] at hc
  obtain ⟨gs, hb, C, hr, hC⟩ := hc []
  rw [List.append_nil] at hb
  refine ⟨by simp only [buildUnitary, hb], C, fun ψ => ?_, hC⟩
  have := hr [] ψ
  rw [List.append_nil] at this
  simp only [buildUnitary, hb, this]

end main

end Qclib.Uni
