import QclibModel.Model.Schmidt
/-
  C09: the reshape index maps of `Model/Schmidt.lean` are mutually inverse permutations, and which
  bit of the flat index ends up where.  Core Lean only.
-/
namespace Qclib.Schmidt

/-! ### bit lists -/

@[simp] theorem length_toBits (n i : Nat) : (toBits n i).length = n := by
  induction n with
  | zero => rfl
  | succ n ih => simp [toBits, ih]

theorem ofBits_lt (b : List Bool) : ofBits b < 2 ^ b.length := by
  induction b with
  | nil => simp [ofBits]
  | cons x xs ih =>
    simp only [ofBits, List.length_cons, Nat.pow_succ]
    split <;> omega

theorem mod_two_pow_succ_bit (x n : Nat) :
    x % 2 ^ (n + 1) = (if x.testBit n then 2 ^ n else 0) + x % 2 ^ n := by
  rw [Nat.mod_pow_succ, Nat.testBit_eq_decide_div_mod_eq]
  rcases Nat.mod_two_eq_zero_or_one (x / 2 ^ n) with h | h <;> simp [h] <;> omega

theorem ofBits_toBits (n i : Nat) : ofBits (toBits n i) = i % 2 ^ n := by
  induction n with
  | zero => simp [toBits, ofBits, Nat.mod_one]
  | succ n ih => simp only [toBits, ofBits, length_toBits, ih, mod_two_pow_succ_bit]

theorem toBits_congr (n i j : Nat) (h : ∀ m, m < n → i.testBit m = j.testBit m) :
    toBits n i = toBits n j := by
  induction n with
  | zero => rfl
  | succ n ih =>
    simp only [toBits]
    rw [h n (Nat.lt_succ_self n), ih (fun m hm => h m (Nat.lt_succ_of_lt hm))]

theorem toBits_ofBits (b : List Bool) : toBits b.length (ofBits b) = b := by
  induction b with
  | nil => rfl
  | cons x xs ih =>
    have hlt := ofBits_lt xs
    simp only [List.length_cons, toBits, ofBits]
    congr 1
    · cases x
      · simp only [Bool.false_eq_true, if_false, Nat.zero_add]
        exact Nat.testBit_lt_two_pow hlt
      · simp only [if_true]
        rw [Nat.testBit_two_pow_add_eq, Nat.testBit_lt_two_pow hlt]; rfl
    · have hc : toBits xs.length ((if x = true then 2 ^ xs.length else 0) + ofBits xs)
          = toBits xs.length (ofBits xs) := by
        apply toBits_congr
        intro m hm
        cases x
        · simp
        · simp only [if_true]
          exact Nat.testBit_two_pow_add_gt hm _
      rw [hc, ih]

theorem ofBits_append (a b : List Bool) :
    ofBits (a ++ b) = ofBits a * 2 ^ b.length + ofBits b := by
  induction a with
  | nil => simp [ofBits]
  | cons x xs ih =>
    simp only [List.cons_append, ofBits, ih, List.length_append, Nat.pow_add]
    split <;> simp [Nat.add_mul, Nat.add_assoc]

theorem toBits_getD (n i a : Nat) (h : a < n) :
    (toBits n i).getD a false = i.testBit (n - 1 - a) := by
  induction n generalizing a with
  | zero => omega
  | succ n ih =>
    cases a with
    | zero => simp [toBits]
    | succ a =>
      simp only [toBits, List.getD_cons_succ]
      rw [ih a (by omega)]
      congr 1; omega

theorem testBit_ofBits (b : List Bool) (a : Nat) (h : a < b.length) :
    (ofBits b).testBit (b.length - 1 - a) = b.getD a false := by
  have := toBits_getD b.length (ofBits b) a h
  rw [toBits_ofBits] at this
  exact this.symm

theorem map_getD_range (b : List Bool) :
    (List.range b.length).map (fun a => b.getD a false) = b := by
  apply List.ext_getElem
  · simp
  · intro i h1 h2
    simp [List.getD_eq_getElem?_getD, h2]

/-! ### the transposition order is a permutation of the axes -/

structure ValidAxes (n : Nat) (src : List Nat) : Prop where
  nodup : src.Nodup
  lt : ∀ a ∈ src, a < n

theorem mem_restAxes {n : Nat} {src : List Nat} {a : Nat} :
    a ∈ restAxes n src ↔ a < n ∧ a ∉ src := by
  simp [restAxes, List.mem_filter, List.mem_range]

theorem mem_sepOrder {n : Nat} {src : List Nat} (hv : ValidAxes n src) {a : Nat} :
    a ∈ sepOrder n src ↔ a < n := by
  simp only [sepOrder, List.mem_append, mem_restAxes]
  constructor
  · rintro (h | h)
    · exact h.1
    · exact hv.lt a h
  · intro h
    by_cases hs : a ∈ src
    · exact Or.inr hs
    · exact Or.inl ⟨h, hs⟩

theorem nodup_restAxes (n : Nat) (src : List Nat) : (restAxes n src).Nodup :=
  List.Pairwise.filter _ List.nodup_range

theorem nodup_sepOrder {n : Nat} {src : List Nat} (hv : ValidAxes n src) :
    (sepOrder n src).Nodup := by
  rw [sepOrder, List.nodup_append]
  refine ⟨nodup_restAxes n src, hv.nodup, ?_⟩
  intro a ha b hb hab
  subst hab
  exact (mem_restAxes.mp ha).2 hb

theorem length_sepOrder {n : Nat} {src : List Nat} (hv : ValidAxes n src) :
    (sepOrder n src).length = n := by
  have hp : (sepOrder n src).Perm (List.range n) :=
    (List.perm_ext_iff_of_nodup (nodup_sepOrder hv) List.nodup_range).mpr
      (fun a => by rw [mem_sepOrder hv, List.mem_range])
  simpa using hp.length_eq

theorem length_restAxes {n : Nat} {src : List Nat} (hv : ValidAxes n src) :
    (restAxes n src).length = n - src.length := by
  have := length_sepOrder hv
  simp only [sepOrder, List.length_append] at this
  omega

theorem length_src_le {n : Nat} {src : List Nat} (hv : ValidAxes n src) : src.length ≤ n := by
  have := length_sepOrder hv
  simp only [sepOrder, List.length_append] at this
  omega

/-! ### gather / scatter along a permutation -/

@[simp] theorem length_gather (ord : List Nat) (b : List Bool) : (gather ord b).length = ord.length := by
  simp [gather]

theorem gather_append (o1 o2 : List Nat) (b : List Bool) :
    gather (o1 ++ o2) b = gather o1 b ++ gather o2 b := by
  simp [gather]

theorem gather_getD (ord : List Nat) (b : List Bool) (p : Nat) (hp : p < ord.length) :
    (gather ord b).getD p false = b.getD ord[p] false := by
  simp [gather, List.getD_eq_getElem?_getD, hp]

/-- scatter after gather -/
theorem scatter_gather {n : Nat} {src : List Nat} (hv : ValidAxes n src) (b : List Bool)
    (hb : b.length = n) :
    (List.range n).map (fun a => (gather (sepOrder n src) b).getD ((sepOrder n src).idxOf a) false) = b := by
  have h : ∀ a ∈ List.range n,
      (gather (sepOrder n src) b).getD ((sepOrder n src).idxOf a) false = b.getD a false := by
    intro a ha
    have hmem : a ∈ sepOrder n src := (mem_sepOrder hv).mpr (List.mem_range.mp ha)
    have hlt : (sepOrder n src).idxOf a < (sepOrder n src).length := List.idxOf_lt_length_iff.mpr hmem
    rw [gather_getD _ _ _ hlt, List.getElem_idxOf hlt]
  rw [List.map_congr_left h, ← hb]
  exact map_getD_range b

/-- gather after scatter -/
theorem gather_scatter {n : Nat} {src : List Nat} (hv : ValidAxes n src) (b : List Bool)
    (hb : b.length = n) :
    gather (sepOrder n src)
      ((List.range n).map (fun a => b.getD ((sepOrder n src).idxOf a) false)) = b := by
  have hlen := length_sepOrder hv
  apply List.ext_getElem
  · simp [hlen, hb]
  · intro p h1 h2
    have hp : p < (sepOrder n src).length := by simpa using h1
    have hlt : (sepOrder n src)[p] < n := (mem_sepOrder hv).mp (List.getElem_mem hp)
    simp only [gather, List.getElem_map, List.getD_eq_getElem?_getD, List.getElem?_map,
      List.getElem?_range hlt, Option.map_some, Option.getD_some]
    rw [(nodup_sepOrder hv).idxOf_getElem p hp]
    simp [h2]

/-! ### round trips -/

theorem sepIndexAx_flat (n : Nat) (src : List Nat) (i : Nat) :
    (sepIndexAx n src i).1 * 2 ^ src.length + (sepIndexAx n src i).2
      = ofBits (gather (sepOrder n src) (toBits n i)) := by
  simp only [sepIndexAx]
  have := Nat.div_add_mod (ofBits (gather (sepOrder n src) (toBits n i))) (2 ^ src.length)
  rw [Nat.mul_comm] at this
  exact this

theorem undo_sep_index {n : Nat} {src : List Nat} (hv : ValidAxes n src) (i : Nat) (hi : i < 2 ^ n) :
    undoIndexAx n src (sepIndexAx n src i).1 (sepIndexAx n src i).2 = i := by
  unfold undoIndexAx
  simp only []
  rw [sepIndexAx_flat]
  have hlen : (gather (sepOrder n src) (toBits n i)).length = n := by
    rw [length_gather, length_sepOrder hv]
  have h1 : toBits n (ofBits (gather (sepOrder n src) (toBits n i)))
      = gather (sepOrder n src) (toBits n i) := by
    have := toBits_ofBits (gather (sepOrder n src) (toBits n i))
    rwa [hlen] at this
  rw [h1, scatter_gather hv _ (length_toBits n i), ofBits_toBits, Nat.mod_eq_of_lt hi]

theorem flat_lt {n k r c : Nat} (hk : k ≤ n) (hr : r < 2 ^ (n - k)) (hc : c < 2 ^ k) :
    r * 2 ^ k + c < 2 ^ n := by
  have h1 : (r + 1) * 2 ^ k ≤ 2 ^ (n - k) * 2 ^ k := Nat.mul_le_mul_right _ hr
  rw [← Nat.pow_add, Nat.sub_add_cancel hk] at h1
  rw [Nat.add_mul] at h1
  omega

theorem sep_undo_index {n : Nat} {src : List Nat} (hv : ValidAxes n src) (r c : Nat)
    (hr : r < 2 ^ (n - src.length)) (hc : c < 2 ^ src.length) :
    sepIndexAx n src (undoIndexAx n src r c) = (r, c) := by
  have hf := flat_lt (length_src_le hv) hr hc
  have hpos : 0 < 2 ^ src.length := Nat.pos_of_ne_zero (by simp)
  unfold sepIndexAx undoIndexAx
  simp only []
  have hlenS : ((List.range n).map (fun a =>
      (toBits n (r * 2 ^ src.length + c)).getD ((sepOrder n src).idxOf a) false)).length = n := by
    simp
  have h1 := toBits_ofBits ((List.range n).map (fun a =>
      (toBits n (r * 2 ^ src.length + c)).getD ((sepOrder n src).idxOf a) false))
  rw [hlenS] at h1
  rw [h1, gather_scatter hv _ (length_toBits n _), ofBits_toBits, Nat.mod_eq_of_lt hf]
  congr 1
  · rw [Nat.add_comm, Nat.add_mul_div_right _ _ hpos, Nat.div_eq_of_lt hc, Nat.zero_add]
  · rw [Nat.add_comm, Nat.add_mul_mod_self_right, Nat.mod_eq_of_lt hc]

theorem sepIndexAx_lt {n : Nat} {src : List Nat} (hv : ValidAxes n src) (i : Nat) :
    (sepIndexAx n src i).1 < 2 ^ (n - src.length) ∧ (sepIndexAx n src i).2 < 2 ^ src.length := by
  have hpos : 0 < 2 ^ src.length := Nat.pos_of_ne_zero (by simp)
  have hj := ofBits_lt (gather (sepOrder n src) (toBits n i))
  rw [length_gather, length_sepOrder hv] at hj
  refine ⟨?_, Nat.mod_lt _ hpos⟩
  simp only [sepIndexAx]
  rw [Nat.div_lt_iff_lt_mul hpos, ← Nat.pow_add, Nat.sub_add_cancel (length_src_le hv)]
  exact hj

theorem undoIndexAx_lt (n : Nat) (src : List Nat) (r c : Nat) : undoIndexAx n src r c < 2 ^ n := by
  unfold undoIndexAx
  have := ofBits_lt ((List.range n).map (fun a =>
      (toBits n (r * 2 ^ src.length + c)).getD ((sepOrder n src).idxOf a) false))
  simpa using this

/-! ### which bit goes where -/

theorem sepIndexAx_eq {n : Nat} {src : List Nat} (i : Nat) :
    sepIndexAx n src i
      = (ofBits (gather (restAxes n src) (toBits n i)), ofBits (gather src (toBits n i))) := by
  have hpos : 0 < 2 ^ src.length := Nat.pos_of_ne_zero (by simp)
  have hc := ofBits_lt (gather src (toBits n i))
  rw [length_gather] at hc
  simp only [sepIndexAx, sepOrder, gather_append, ofBits_append, length_gather]
  congr 1
  · rw [Nat.add_comm, Nat.add_mul_div_right _ _ hpos, Nat.div_eq_of_lt hc, Nat.zero_add]
  · rw [Nat.add_comm, Nat.add_mul_mod_self_right, Nat.mod_eq_of_lt hc]

theorem col_bit {n : Nat} {src : List Nat} (hv : ValidAxes n src) (i m : Nat) (hm : m < src.length) :
    (sepIndexAx n src i).2.testBit (src.length - 1 - m) = i.testBit (n - 1 - src[m]) := by
  rw [sepIndexAx_eq]
  simp only []
  have h := testBit_ofBits (gather src (toBits n i)) m (by simpa using hm)
  rw [length_gather] at h
  rw [h, gather_getD _ _ _ hm, toBits_getD _ _ _ (hv.lt _ (List.getElem_mem hm))]

theorem row_bit {n : Nat} {src : List Nat} (hv : ValidAxes n src) (i m : Nat)
    (hm : m < (restAxes n src).length) :
    (sepIndexAx n src i).1.testBit (n - src.length - 1 - m) = i.testBit (n - 1 - (restAxes n src)[m]) := by
  rw [sepIndexAx_eq]
  simp only []
  have h := testBit_ofBits (gather (restAxes n src) (toBits n i)) m (by simpa using hm)
  rw [length_gather, length_restAxes hv] at h
  rw [h, gather_getD _ _ _ hm,
    toBits_getD _ _ _ ((mem_restAxes.mp (List.getElem_mem hm)).1)]

/-! ### `sepAxes` produces valid axes; for natural-number partitions it is `sorted(partition)` -/

theorem hasDup_false {l : List Nat} (h : hasDup l = false) : l.Nodup := by
  induction l with
  | nil => exact List.nodup_nil
  | cons a as ih =>
    simp only [hasDup, Bool.or_eq_false_iff] at h
    rw [List.nodup_cons]
    refine ⟨?_, ih h.2⟩
    intro hmem
    have := List.contains_iff_mem.mpr hmem
    rw [h.1] at this
    exact Bool.false_ne_true this

theorem normAxis_lt {n : Nat} {a : Int} {x : Nat} (h : normAxis n a = some x) : x < n := by
  unfold normAxis at h
  split at h
  · cases h; omega
  · split at h
    · cases h; omega
    · cases h

theorem normAxes_lt {n : Nat} {l : List Int} {xs : List Nat} (h : normAxes n l = some xs) :
    ∀ a ∈ xs, a < n := by
  induction l generalizing xs with
  | nil => simp only [normAxes, Option.some.injEq] at h; subst h; simp
  | cons a as ih =>
    simp only [normAxes] at h
    split at h
    · rename_i x ys hx hys
      cases h
      intro b hb
      rcases List.mem_cons.mp hb with rfl | hb
      · exact normAxis_lt hx
      · exact ih hys b hb
    · cases h

theorem sepAxes_valid {n : Nat} {P : List Int} {src : List Nat} (h : sepAxes n P = some src) :
    ValidAxes n src := by
  unfold sepAxes at h
  split at h
  · rename_i s hs
    split at h
    · cases h
    · rename_i hd
      cases h
      exact ⟨hasDup_false (by simpa using hd), normAxes_lt hs⟩
  · cases h

theorem normAxes_nat (n : Nat) (l : List Nat) (h : ∀ a ∈ l, a < n) :
    normAxes n (l.map Int.ofNat) = some l := by
  induction l with
  | nil => rfl
  | cons a as ih =>
    have ha : a < n := h a (List.mem_cons_self)
    have := ih (fun b hb => h b (List.mem_cons_of_mem _ hb))
    simp only [List.map_cons, normAxes, this]
    have : normAxis n (Int.ofNat a) = some a := by
      unfold normAxis
      rw [if_pos ⟨by simp, by simp; omega⟩]
      simp
    rw [this]

theorem hasDup_of_nodup {l : List Nat} (h : l.Nodup) : hasDup l = false := by
  induction l with
  | nil => rfl
  | cons a as ih =>
    rw [List.nodup_cons] at h
    simp only [hasDup, Bool.or_eq_false_iff]
    refine ⟨?_, ih h.2⟩
    cases hc : as.contains a
    · rfl
    · exact absurd (List.contains_iff_mem.mp hc) h.1

/-! insertion sort -/

theorem perm_insertBy {α : Type} (le : α → α → Bool) (a : α) (l : List α) :
    (insertBy le a l).Perm (a :: l) := by
  induction l with
  | nil => exact List.Perm.refl _
  | cons b bs ih =>
    simp only [insertBy]
    split
    · exact List.Perm.refl _
    · exact ((List.Perm.cons b ih).trans (List.Perm.swap a b bs))

theorem perm_isort {α : Type} (le : α → α → Bool) (l : List α) : (isort le l).Perm l := by
  induction l with
  | nil => exact List.Perm.refl _
  | cons a as ih => exact (perm_insertBy le a _).trans (List.Perm.cons a ih)

theorem pairwise_insertBy {α : Type} (le : α → α → Bool)
    (htrans : ∀ a b c, le a b = true → le b c = true → le a c = true)
    (htot : ∀ a b, le a b = true ∨ le b a = true) (a : α) (l : List α)
    (h : List.Pairwise (fun x y => le x y = true) l) :
    List.Pairwise (fun x y => le x y = true) (insertBy le a l) := by
  induction l with
  | nil => simp [insertBy]
  | cons b bs ih =>
    rw [List.pairwise_cons] at h
    simp only [insertBy]
    split
    · rename_i hab
      rw [List.pairwise_cons]
      refine ⟨?_, List.pairwise_cons.mpr h⟩
      intro x hx
      rcases List.mem_cons.mp hx with rfl | hx
      · exact hab
      · exact htrans _ _ _ hab (h.1 x hx)
    · rename_i hab
      have hba : le b a = true := by
        rcases htot a b with h1 | h1
        · exact absurd h1 hab
        · exact h1
      rw [List.pairwise_cons]
      refine ⟨?_, ih h.2⟩
      intro x hx
      rcases List.mem_cons.mp ((perm_insertBy le a bs).mem_iff.mp hx) with rfl | hx
      · exact hba
      · exact h.1 x hx

theorem pairwise_isort {α : Type} (le : α → α → Bool)
    (htrans : ∀ a b c, le a b = true → le b c = true → le a c = true)
    (htot : ∀ a b, le a b = true ∨ le b a = true) (l : List α) :
    List.Pairwise (fun x y => le x y = true) (isort le l) := by
  induction l with
  | nil => exact List.Pairwise.nil
  | cons a as ih => exact pairwise_insertBy le htrans htot a _ ih

theorem map_insertBy {α β : Type} (r : α → α → Bool) (s : β → β → Bool) (f : α → β)
    (h : ∀ a b, r a b = s (f a) (f b)) (a : α) (l : List α) :
    (insertBy r a l).map f = insertBy s (f a) (l.map f) := by
  induction l with
  | nil => rfl
  | cons b bs ih =>
    simp only [insertBy, List.map_cons, ← h]
    split
    · rfl
    · simp [ih]

theorem map_isort {α β : Type} (r : α → α → Bool) (s : β → β → Bool) (f : α → β)
    (h : ∀ a b, r a b = s (f a) (f b)) (l : List α) :
    (isort r l).map f = isort s (l.map f) := by
  induction l with
  | nil => rfl
  | cons a as ih => simp only [isort, List.map_cons, map_insertBy r s f h, ih]

/-- For a duplicate-free partition of natural numbers `< n`, the moved axes are the partition
sorted increasingly. -/
theorem sepAxes_nat (n : Nat) (P : List Nat) (hd : P.Nodup) (hlt : ∀ a ∈ P, a < n) :
    sepAxes n (P.map Int.ofNat) = some (isort (fun a b => decide (a ≤ b)) P) := by
  unfold sepAxes
  have hm : isort (fun a b => decide (a ≤ b)) (P.map Int.ofNat)
      = (isort (fun a b => decide (a ≤ b)) P).map Int.ofNat := by
    symm
    apply map_isort
    intro a b
    simp
  have hperm := perm_isort (fun a b => decide (a ≤ b)) P
  rw [hm, normAxes_nat n _ (fun a ha => hlt a (hperm.mem_iff.mp ha))]
  simp only []
  rw [hasDup_of_nodup (hperm.nodup_iff.mpr hd)]
  simp

/-! ### an increasing list is its own sort; register placement of `LowRankInitialize` -/

theorem isort_sorted {α : Type} (le : α → α → Bool) (l : List α)
    (h : List.Pairwise (fun a b => le a b = true) l) : isort le l = l := by
  induction l with
  | nil => rfl
  | cons a as ih =>
    rw [List.pairwise_cons] at h
    simp only [isort, ih h.2]
    cases as with
    | nil => rfl
    | cons b bs => simp only [insertBy, h.1 b (List.mem_cons_self), if_true]

theorem sepAxes_increasing (n : Nat) (P : List Nat) (hs : List.Pairwise (· < ·) P)
    (hlt : ∀ a ∈ P, a < n) : sepAxes n (P.map Int.ofNat) = some P := by
  have hd : P.Nodup := hs.imp (fun h => Nat.ne_of_lt h)
  rw [sepAxes_nat n P hd hlt, isort_sorted]
  exact hs.imp (fun h => by simpa using Nat.le_of_lt h)

/-- Bit `m` (least significant = 0) of the row index is the axis `restAxes.reverse[m]`. -/
theorem row_bit_rev {n : Nat} {src : List Nat} (hv : ValidAxes n src) (i m : Nat)
    (hm : m < (restAxes n src).reverse.length) :
    (sepIndexAx n src i).1.testBit m = i.testBit (n - 1 - (restAxes n src).reverse[m]) := by
  have hlen := length_restAxes hv
  have hm' : m < (restAxes n src).length := by simpa using hm
  have h := row_bit hv i ((restAxes n src).length - 1 - m) (by omega)
  rw [List.getElem_reverse]
  rw [← h]
  congr 1
  omega

/-- Bit `m` of the column index is the axis `src.reverse[m]`. -/
theorem col_bit_rev {n : Nat} {src : List Nat} (hv : ValidAxes n src) (i m : Nat)
    (hm : m < src.reverse.length) :
    (sepIndexAx n src i).2.testBit m = i.testBit (n - 1 - src.reverse[m]) := by
  have hm' : m < src.length := by simpa using hm
  have h := col_bit hv i (src.length - 1 - m) (by omega)
  rw [List.getElem_reverse]
  rw [← h]
  congr 1
  omega

end Qclib.Schmidt
