import QclibModel.Proofs.UnitaryQrWalk
/-
  C02 — QR part of `qclib/unitary.py`: the theorems `Qclib.Uni.qr_*` about one two-level rotation
  between basis states `row ≠ col` (`< 2^n`): the walk terminates without hitting an unbound
  variable, ends with exactly one differing wire, maps the two labels simultaneously, is undone by
  `_undo_mcxs` on every label, and the MCMT sees `col ↦ |0⟩`, `row ↦ |1⟩` on the highest differing
  bit.  Core Lean only.  (`qr_sandwich*` are in `Proofs/UnitaryQr.lean`.)
-/
namespace Qclib.Uni

/-! ### bits of numbers -/

theorem bitsLE_length (n x : Nat) : (bitsLE n x).length = n := by simp [bitsLE]

theorem bitsLE_getD (n x : Nat) {q : Nat} (h : q < n) : (bitsLE n x).getD q false = x.testBit q := by
  unfold bitsLE
  rw [List.getD_eq_getElem?_getD, List.getElem?_map, List.getElem?_range h]
  rfl

theorem bitsLE_getD_ge (n x : Nat) {q : Nat} (h : n ≤ q) : (bitsLE n x).getD q false = false := by
  rw [List.getD_eq_getElem?_getD, List.getElem?_eq_none (by rw [bitsLE_length]; exact h)]
  rfl

theorem testBit_ge {n x q : Nat} (hx : x < 2 ^ n) (h : n ≤ q) : x.testBit q = false :=
  Nat.testBit_lt_two_pow (Nat.lt_of_lt_of_le hx (Nat.pow_le_pow_right (by omega) h))

/-- if `x` and `y` agree above `t`, where `x` has `0` and `y` has `1`, then `x < y`. -/
theorem lt_of_top {x y t : Nat} (hx : x.testBit t = false) (hy : y.testBit t = true)
    (hab : ∀ j, t < j → x.testBit j = y.testBit j) : x < y := by
  apply Nat.lt_of_div_lt_div (c := 2 ^ t)
  have h0x : (x / 2 ^ t) % 2 = 0 := by
    rw [Nat.mod_two_eq_zero_iff_testBit_zero, Nat.testBit_div_two_pow]; simpa using hx
  have h0y : (y / 2 ^ t) % 2 = 1 := by
    rw [Nat.mod_two_eq_one_iff_testBit_zero, Nat.testBit_div_two_pow]; simpa using hy
  have hz : x / 2 ^ t / 2 = y / 2 ^ t / 2 := by
    apply Nat.eq_of_testBit_eq
    intro i
    rw [Nat.testBit_div_two, Nat.testBit_div_two, Nat.testBit_div_two_pow, Nat.testBit_div_two_pow]
    exact hab _ (by omega)
  omega

theorem exists_top {f : Nat → Bool} : ∀ n, (∃ q, q < n ∧ f q = true) →
    ∃ t, t < n ∧ f t = true ∧ ∀ j, t < j → j < n → f j = false
  | 0, ⟨q, hq, _⟩ => by omega
  | k + 1, ⟨q, hq, hf⟩ => by
    cases hk : f k with
    | true => exact ⟨k, by omega, hk, fun j h1 h2 => by omega⟩
    | false =>
      have hqk : q ≠ k := fun e => by rw [e, hk] at hf; exact absurd hf (by decide)
      obtain ⟨t, ht, hft, htop⟩ := exists_top k ⟨q, by omega, hf⟩
      refine ⟨t, by omega, hft, fun j h1 h2 => ?_⟩
      by_cases e : j = k
      · rw [e]; exact hk
      · exact htop j h1 (by omega)

section
variable {n row col : Nat}

/-- distinct numbers `< 2^n` differ in at least one of the `n` bit positions. -/
theorem nDiff_bits_pos (hrow : row < 2 ^ n) (hcol : col < 2 ^ n) (hne : row ≠ col) :
    1 ≤ nDiff (bitsLE n row) (bitsLE n col) := by
  rw [nDiff_eq, bitsLE_length]
  apply Nat.pos_of_ne_zero
  intro h0
  apply hne
  apply Nat.eq_of_testBit_eq
  intro i
  by_cases hi : i < n
  · have := cnt_zero_none h0 hi
    simp only [diffP, bitsLE_getD n row hi, bitsLE_getD n col hi] at this
    simpa using this
  · rw [testBit_ge hrow (by omega), testBit_ge hcol (by omega)]

/-- the highest differing bit of `row` and `col`. -/
theorem bits_topDiff (hrow : row < 2 ^ n) (hcol : col < 2 ^ n) (hne : row ≠ col) :
    ∃ t, t < n ∧ TopDiff (bitsLE n row) (bitsLE n col) t ∧ row.testBit t ≠ col.testBit t ∧
      ∀ j, t < j → row.testBit j = col.testBit j := by
  have h1 := nDiff_bits_pos hrow hcol hne
  rw [nDiff_eq, bitsLE_length] at h1
  obtain ⟨t, ht, hft, htop⟩ := exists_top n (cnt_pos_exists (n := n)
    (f := diffP (bitsLE n row) (bitsLE n col)) (by omega))
  rw [diffP_true] at hft
  refine ⟨t, ht, ⟨hft, fun j hj => ?_⟩, ?_, fun j hj => ?_⟩
  · by_cases hjn : j < n
    · have := htop j hj hjn
      simpa [diffP] using this
    · rw [bitsLE_getD_ge n row (by omega), bitsLE_getD_ge n col (by omega)]
  · rw [bitsLE_getD n row ht, bitsLE_getD n col ht] at hft; exact hft
  · by_cases hjn : j < n
    · have := htop j hj hjn
      simp only [diffP, bitsLE_getD n row hjn, bitsLE_getD n col hjn] at this
      simpa using this
    · rw [testBit_ge hrow (by omega), testBit_ge hcol (by omega)]

/-- everything the later theorems need about the end state of the walk. -/
theorem walk_end (hrow : row < 2 ^ n) (hcol : col < 2 ^ n) (hne : row ≠ col) {w : Walk}
    (hw : walk n (nDiff (bitsLE n row) (bitsLE n col) - 1) (bitsLE n row) (bitsLE n col) = some w) :
    w.row.length = n ∧ w.col.length = n ∧ nDiff w.row w.col = 1 ∧
    ∃ t, t < n ∧ row.testBit t ≠ col.testBit t ∧ (∀ j, t < j → row.testBit j = col.testBit j) ∧
      w.row.getD t false = row.testBit t ∧ w.col.getD t false = col.testBit t ∧
      ∀ q, q < n → q ≠ t → w.row.getD q false = w.col.getD q false := by
  have h1 := nDiff_bits_pos hrow hcol hne
  obtain ⟨i1, i2, i3, _, i5⟩ := walk_inv _ hw (bitsLE_length n row) (bitsLE_length n col) (by omega)
  have hone : nDiff w.row w.col = 1 := by omega
  obtain ⟨t, ht, htd, hb, habove⟩ := bits_topDiff hrow hcol hne
  obtain ⟨u1, u2, u3⟩ := i5 t htd
  refine ⟨i1, i2, hone, t, ht, hb, habove, ?_, ?_, fun q hq hqt => ?_⟩
  · rw [u2, bitsLE_getD n row ht]
  · rw [u3, bitsLE_getD n col ht]
  · rw [nDiff_eq, i1] at hone
    cases hd : diffP w.row w.col q with
    | false => simpa [diffP] using hd
    | true => exact absurd (cnt_one_unique hone ht (diffP_true.mpr u1.1) hq hd) hqt
end

/-! ### lists that differ in exactly one position `t` -/

section OneDiff
variable {n t : Nat} {r c : List Bool}

theorem diffQubit_one (ht : t < n) (hd : r.getD t false ≠ c.getD t false)
    (hs : ∀ q, q < n → q ≠ t → r.getD q false = c.getD q false) : diffQubit n r c = some t := by
  unfold diffQubit
  have : (List.range n).filter (fun q => r.getD q false != c.getD q false) = [t] := by
    rw [← filter_range_eq_single ht]
    apply List.filter_congr
    intro q hq
    by_cases e : q = t
    · subst e; simpa using hd
    · rw [hs q (List.mem_range.mp hq) e]; simp [e]
  rw [this]; rfl

theorem mcmtCtrls_one (hd : r.getD t false ≠ c.getD t false)
    (hs : ∀ q, q < n → q ≠ t → r.getD q false = c.getD q false) : mcmtCtrls n r c = others n t := by
  unfold mcmtCtrls others
  apply List.filter_congr
  intro q hq
  by_cases e : q = t
  · subst e; simpa using hd
  · rw [hs q (List.mem_range.mp hq) e]; simp [e]

theorem mcmtXs_one (hd : r.getD t false ≠ c.getD t false)
    (hs : ∀ q, q < n → q ≠ t → r.getD q false = c.getD q false) : mcmtXs n r c = xsFor n t r := by
  unfold mcmtXs xsFor
  congr 1
  apply List.filter_congr
  intro q hq
  by_cases e : q = t
  · subst e
    have : (r.getD q false == c.getD q false) = false := by simpa using hd
    rw [this]; simp
  · rw [hs q (List.mem_range.mp hq) e]; simp [e]

end OneDiff

/-! ### the `qr_*` theorems -/

section Main
variable {n row col : Nat}

/-- **Theorem 1 (totality).**  For distinct basis states `row, col < 2^n` the `while n_diff > 1` loop
runs its `n_diff - 1` iterations without ever reaching the "no differing position" path of
`_apply_mcxs` (`memory` unbound), and `_append_mcmt_gate` finds its `diffqubit`: the model's
`qrRotation` returns a gate list. -/
theorem qr_walk_total (hrow : row < 2 ^ n) (hcol : col < 2 ^ n) (hne : row ≠ col) :
    (∃ w, walk n (nDiff (bitsLE n row) (bitsLE n col) - 1) (bitsLE n row) (bitsLE n col) = some w) ∧
    (∃ g, qrRotation n row col = some g) := by
  obtain ⟨w, hw⟩ := walk_total (n := n) (nDiff (bitsLE n row) (bitsLE n col) - 1)
    (bitsLE_length n row) (bitsLE_length n col) (by omega)
  refine ⟨⟨w, hw⟩, ?_⟩
  obtain ⟨_, _, _, t, ht, hb, _, e1, e2, hs⟩ := walk_end hrow hcol hne hw
  have hd : w.row.getD t false ≠ w.col.getD t false := by rw [e1, e2]; exact hb
  unfold qrRotation
  simp only [hw, diffQubit_one ht hd hs]
  exact ⟨_, rfl⟩

/-- **Theorem 2 (one differing wire).**  When the loop ends, the two bit patterns have length `n` and
differ in exactly one position. -/
theorem qr_walk_onebit (hrow : row < 2 ^ n) (hcol : col < 2 ^ n) (hne : row ≠ col) {w : Walk}
    (hw : walk n (nDiff (bitsLE n row) (bitsLE n col) - 1) (bitsLE n row) (bitsLE n col) = some w) :
    nDiff w.row w.col = 1 ∧ w.row.length = n ∧ w.col.length = n := by
  obtain ⟨h1, h2, h3, _⟩ := walk_end hrow hcol hne hw
  exact ⟨h3, h1, h2⟩

/-- **Theorem 4 (the walk maps both labels).**  The permutation made of the walk's X/MCX gates sends
every label that reads `row` on wires `0 … n-1` to one that reads the final row pattern, and — the
same gates — every label that reads `col` to one that reads the final column pattern; wires `≥ n`
are never changed (for any label). -/
theorem qr_walk_maps (hrow : row < 2 ^ n) (hcol : col < 2 ^ n) (hne : row ≠ col) {w : Walk}
    (hw : walk n (nDiff (bitsLE n row) (bitsLE n col) - 1) (bitsLE n row) (bitsLE n col) = some w)
    (b : Bits) :
    (Reads (bitsLE n row) b → Reads w.row (qgEval w.gates b)) ∧
    (Reads (bitsLE n col) b → Reads w.col (qgEval w.gates b)) ∧
    (∀ q, n ≤ q → qgEval w.gates b q = b q) := by
  have h1 := nDiff_bits_pos hrow hcol hne
  obtain ⟨_, _, _, i4, _⟩ := walk_inv _ hw (bitsLE_length n row) (bitsLE_length n col) (by omega)
  exact i4 b

/-- **Theorem 5 (`_undo_mcxs` inverts the walk).**  On EVERY basis label `b` (not only the two of
interest) replaying the saved memories in reverse undoes the walk, and vice versa. -/
theorem qr_undo_inverse {w : Walk}
    (hw : walk n (nDiff (bitsLE n row) (bitsLE n col) - 1) (bitsLE n row) (bitsLE n col) = some w)
    (b : Bits) :
    qgEval (undoMcxs n w.mems) (qgEval w.gates b) = b ∧
    qgEval w.gates (qgEval (undoMcxs n w.mems) b) = b :=
  walk_undo _ hw b

/-- **Theorem 6, general form.**  The surviving differing wire `t` is the highest bit in which `row`
and `col` differ; there the final patterns still carry the original bits of `row` and `col`; the MCMT
is controlled by all other wires `< n` in ascending order. -/
theorem qr_orientation_top (hrow : row < 2 ^ n) (hcol : col < 2 ^ n) (hne : row ≠ col) {w : Walk}
    (hw : walk n (nDiff (bitsLE n row) (bitsLE n col) - 1) (bitsLE n row) (bitsLE n col) = some w) :
    ∃ t, t < n ∧ diffQubit n w.row w.col = some t ∧
      row.testBit t ≠ col.testBit t ∧ (∀ j, t < j → row.testBit j = col.testBit j) ∧
      w.row.getD t false = row.testBit t ∧ w.col.getD t false = col.testBit t ∧
      mcmtCtrls n w.row w.col = others n t ∧ mcmtXs n w.row w.col = xsFor n t w.row := by
  obtain ⟨_, _, _, t, ht, hb, habove, e1, e2, hs⟩ := walk_end hrow hcol hne hw
  have hd : w.row.getD t false ≠ w.col.getD t false := by rw [e1, e2]; exact hb
  exact ⟨t, ht, diffQubit_one ht hd hs, hb, habove, e1, e2, mcmtCtrls_one hd hs, mcmtXs_one hd hs⟩

/-- **Theorem 6 (orientation).**  With `col < row` (what `_get_row_col` guarantees) the target `t` of
the MCMT reads `1` in the final row pattern and `0` in the final column pattern, and the controls are
all `q < n`, `q ≠ t`, ascending: the 2×2 block `[[M[col][col], M[col][row]], [M[row][col],
M[row][row]]]` acts with `|0⟩ ↔ col`, `|1⟩ ↔ row`. -/
theorem qr_orientation (hrow : row < 2 ^ n) (hlt : col < row) {w : Walk}
    (hw : walk n (nDiff (bitsLE n row) (bitsLE n col) - 1) (bitsLE n row) (bitsLE n col) = some w) :
    ∃ t, diffQubit n w.row w.col = some t ∧ t < n ∧
      w.row.getD t false = true ∧ w.col.getD t false = false ∧
      mcmtCtrls n w.row w.col = (List.range n).filter (fun q => q != t) := by
  obtain ⟨t, ht, hdq, hb, habove, e1, e2, hc, _⟩ :=
    qr_orientation_top hrow (by omega) (by omega) hw
  have hrt : row.testBit t = true := by
    cases hv : row.testBit t with
    | true => rfl
    | false =>
      have hct : col.testBit t = true := by
        cases hv2 : col.testBit t with
        | true => rfl
        | false => rw [hv, hv2] at hb; exact absurd rfl hb
      have := lt_of_top hv hct habove
      omega
  have hct : col.testBit t = false := by
    cases hv2 : col.testBit t with
    | false => rfl
    | true => rw [hrt, hv2] at hb; exact absurd rfl hb
  exact ⟨t, hdq, ht, by rw [e1, hrt], by rw [e2, hct], hc⟩

/-- **Theorem 7 (MCMT control pattern).**  After the X layer of `_append_mcmt_gate` all control wires
of the MCMT read `1` exactly when the label read the final row pattern on every wire `q < n`, `q ≠ t`
(the final column pattern is the same there); the X layer does not touch the target `t` nor wires
`≥ n`; and the identical X layer emitted after the MCMT cancels it on every label. -/
theorem qr_mcmt_pattern (hrow : row < 2 ^ n) (hcol : col < 2 ^ n) (hne : row ≠ col) {w : Walk}
    (hw : walk n (nDiff (bitsLE n row) (bitsLE n col) - 1) (bitsLE n row) (bitsLE n col) = some w)
    {t : Nat} (ht : diffQubit n w.row w.col = some t) (b : Bits) :
    ((mcmtCtrls n w.row w.col).all (fun q => qgEval (mcmtXs n w.row w.col) b q) = true ↔
      ∀ q, q < n → q ≠ t → b q = w.row.getD q false) ∧
    (∀ q, q < n → q ≠ t → w.col.getD q false = w.row.getD q false) ∧
    qgEval (mcmtXs n w.row w.col) b t = b t ∧
    (∀ q, n ≤ q → qgEval (mcmtXs n w.row w.col) b q = b q) ∧
    qgEval (mcmtXs n w.row w.col) (qgEval (mcmtXs n w.row w.col) b) = b := by
  obtain ⟨_, _, _, t', ht', hb, _, e1, e2, hs⟩ := walk_end hrow hcol hne hw
  have hd : w.row.getD t' false ≠ w.col.getD t' false := by rw [e1, e2]; exact hb
  have : t' = t := by
    have := diffQubit_one ht' hd hs
    rw [ht] at this
    injection this with this
    exact this.symm
  subst this
  rw [mcmtCtrls_one hd hs, mcmtXs_one hd hs]
  refine ⟨?_, fun q h1 h2 => (hs q h1 h2).symm, ?_, fun q hq => ?_, ?_⟩
  · have hc : (others n t').all (fun q => qgEval (xsFor n t' w.row) b q) = patMatch n t' w.row b := by
      unfold patMatch
      apply all_congr'
      intro q hq
      obtain ⟨h1, h2⟩ := mem_others.mp hq
      rw [qgEval_xsFor]
      dsimp only
      generalize w.row.getD q false = v
      cases v <;> cases b q <;> simp [h1, h2]
    rw [hc, patMatch_iff]
  · rw [qgEval_xsFor]; simp
  · rw [qgEval_xsFor]
    have : ¬ q < n := by omega
    simp [this]
  · rw [qgEval_xsFor, qgEval_xsFor]
    funext i
    dsimp only
    generalize w.row.getD i false = v
    by_cases hi : i < n ∧ i ≠ t' ∧ v = false <;> simp [hi]

/-- the X layer of the MCMT is an involution on every label, for any two patterns. -/
theorem mcmtXs_invol (n : Nat) (r c : List Bool) (b : Bits) :
    qgEval (mcmtXs n r c) (qgEval (mcmtXs n r c) b) = b := by
  unfold mcmtXs
  rw [qgEval_xs_range, qgEval_xs_range]
  funext i
  dsimp only
  generalize (r.getD i false == c.getD i false && !r.getD i false) = v
  by_cases hi : i < n ∧ v = true <;> simp [hi]

/-- **Frame inverse.**  Everything classical the rotation emits after the MCMT (X layer, then
`_undo_mcxs`) is the two-sided inverse, on every label, of everything classical it emits before the
MCMT (walk, then X layer): the rotation is `P⁻¹ · MCMT · P` for the label permutation `P`. -/
theorem qr_frame_inverse {w : Walk}
    (hw : walk n (nDiff (bitsLE n row) (bitsLE n col) - 1) (bitsLE n row) (bitsLE n col) = some w)
    (b : Bits) :
    qgEval (mcmtXs n w.row w.col ++ undoMcxs n w.mems)
        (qgEval (w.gates ++ mcmtXs n w.row w.col) b) = b ∧
    qgEval (w.gates ++ mcmtXs n w.row w.col)
        (qgEval (mcmtXs n w.row w.col ++ undoMcxs n w.mems) b) = b := by
  simp only [qgEval_append]
  constructor
  · rw [mcmtXs_invol, (walk_undo _ hw b).1]
  · rw [(walk_undo _ hw _).2, mcmtXs_invol]

/-- **Block labels.**  With `col < row`, after the walk and the X layer (`P`), the label of `row` has
all MCMT controls `1` and the target `t` at `1`; the label of `col` has all controls `1` and the
target at `0`.  So the controlled 2×2 block acts exactly on the pair `(col, row)` as `(|0⟩, |1⟩)`. -/
theorem qr_block_labels (hrow : row < 2 ^ n) (hlt : col < row) {w : Walk}
    (hw : walk n (nDiff (bitsLE n row) (bitsLE n col) - 1) (bitsLE n row) (bitsLE n col) = some w)
    {t : Nat} (ht : diffQubit n w.row w.col = some t) (b : Bits) :
    (Reads (bitsLE n row) b →
      (mcmtCtrls n w.row w.col).all (fun q => qgEval (w.gates ++ mcmtXs n w.row w.col) b q) = true ∧
      qgEval (w.gates ++ mcmtXs n w.row w.col) b t = true) ∧
    (Reads (bitsLE n col) b →
      (mcmtCtrls n w.row w.col).all (fun q => qgEval (w.gates ++ mcmtXs n w.row w.col) b q) = true ∧
      qgEval (w.gates ++ mcmtXs n w.row w.col) b t = false) := by
  have hcol : col < 2 ^ n := by omega
  have hne : row ≠ col := by omega
  obtain ⟨t', ht', htn, hr1, hc0, _⟩ := qr_orientation hrow hlt hw
  have : t' = t := by rw [ht] at ht'; injection ht' with e; exact e.symm
  subst this
  obtain ⟨_, hlr, hlc⟩ := qr_walk_onebit hrow hcol hne hw
  obtain ⟨m1, m2, _⟩ := qr_walk_maps hrow hcol hne hw b
  obtain ⟨p1, p2, p3, _, _⟩ := qr_mcmt_pattern hrow hcol hne hw ht (qgEval w.gates b)
  simp only [qgEval_append]
  constructor
  · intro hb
    have hR := m1 hb
    refine ⟨p1.mpr (fun q h1 _ => hR q (by omega)), ?_⟩
    rw [p3, hR t' (by omega), hr1]
  · intro hb
    have hC := m2 hb
    refine ⟨p1.mpr (fun q h1 h2 => by rw [hC q (by omega), p2 q h1 h2]), ?_⟩
    rw [p3, hC t' (by omega), hc0]

end Main

/-! ### non-vacuity: `n = 3`, `row = 6 = 110₂`, `col = 1 = 001₂` (three differing bits, two walk
steps) -/

/-- the hypotheses of the theorems hold, the walk exists and ends in `row' = [1,1,1]`,
`col' = [1,1,0]` (little-endian), target `t = 2`, controls `[0,1]`. -/
example :
    (6 < 2 ^ 3 ∧ 1 < 2 ^ 3 ∧ (1 : Nat) < 6) ∧
    nDiff (bitsLE 3 6) (bitsLE 3 1) = 3 ∧
    (walk 3 (nDiff (bitsLE 3 6) (bitsLE 3 1) - 1) (bitsLE 3 6) (bitsLE 3 1)).map
        (fun w => (w.row, w.col, w.mems))
      = some ([true, true, true], [true, true, false], [[2, 1, 1], [1, 2, 0]]) ∧
    ((walk 3 2 (bitsLE 3 6) (bitsLE 3 1)).bind (fun w => diffQubit 3 w.row w.col)) = some 2 ∧
    ((walk 3 2 (bitsLE 3 6) (bitsLE 3 1)).map (fun w => mcmtCtrls 3 w.row w.col)) = some [0, 1] ∧
    (qrRotation 3 6 1).isSome = true := by decide

/-- on that instance the walk moves the label of `row = 6` to `111` and of `col = 1` to `110`
(wire 2 is the MCMT target), and `_undo_mcxs` brings an unrelated label (`5`) back. -/
example :
    ((walk 3 2 (bitsLE 3 6) (bitsLE 3 1)).map (fun w =>
        ((List.range 3).map (qgEval w.gates (fun q => Nat.testBit 6 q)),
         (List.range 3).map (qgEval w.gates (fun q => Nat.testBit 1 q)),
         (List.range 3).map (qgEval (undoMcxs 3 w.mems) (qgEval w.gates (fun q => Nat.testBit 5 q))))))
      = some ([true, true, true], [true, true, false], [true, false, true]) := by decide

/-- a second instance with a non-trivial MCMT X layer: `n = 3`, `row = 5`, `col = 0`: one walk step
(target 0, pattern of `col`), then `X(1)`, the block controlled by wires `0,1` on target `2`, `X(1)`,
and the rebuilt sandwich. -/
example :
    qrRotation 3 5 0 = some
      [QG.x 1, QG.x 2, QG.mcx [1, 2] 0, QG.x 1, QG.x 2,
       QG.x 1, QG.mcmt [0, 1] 2, QG.x 1,
       QG.x 1, QG.x 2, QG.mcx [1, 2] 0, QG.x 1, QG.x 2] := by decide

/-- all `qr_*` theorems instantiated at `n = 3`, `row = 6`, `col = 1`: their hypotheses are
simultaneously satisfiable. -/
example : ∃ w t, walk 3 (nDiff (bitsLE 3 6) (bitsLE 3 1) - 1) (bitsLE 3 6) (bitsLE 3 1) = some w ∧
    diffQubit 3 w.row w.col = some t ∧ nDiff w.row w.col = 1 ∧
    w.row.getD t false = true ∧ w.col.getD t false = false ∧
    (∀ b, qgEval (undoMcxs 3 w.mems) (qgEval w.gates b) = b) ∧
    (∀ b, Reads (bitsLE 3 6) b → qgEval (w.gates ++ mcmtXs 3 w.row w.col) b t = true) ∧
    (∀ b, Reads (bitsLE 3 1) b → qgEval (w.gates ++ mcmtXs 3 w.row w.col) b t = false) := by
  have h6 : 6 < 2 ^ 3 := by decide
  have h1 : 1 < 2 ^ 3 := by decide
  obtain ⟨w, hw⟩ := (qr_walk_total h6 h1 (by decide)).1
  obtain ⟨t, ht, _, hr, hc, _⟩ := qr_orientation h6 (by decide) hw
  exact ⟨w, t, hw, ht, (qr_walk_onebit h6 h1 (by decide) hw).1, hr, hc,
    fun b => (qr_undo_inverse hw b).1,
    fun b hb => ((qr_block_labels h6 (by decide) hw ht b).1 hb).2,
    fun b hb => ((qr_block_labels h6 (by decide) hw ht b).2 hb).2⟩
