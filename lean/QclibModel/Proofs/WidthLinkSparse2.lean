import QclibModel.Proofs.WidthLinkSparse
import QclibModel.Proofs.SparsePivotTotalK
import QclibModel.Proofs.Widths
import QclibModel.Model.SparseMerge
/-
  C15 link, sparse generators, part 2 — `PivotInitialize` (Model/SparsePivot.lean): every gate of
  the modelled circuit is below `Widths.declaredWidth .pivot`, before and after the final bit
  reversal; the table's `clog2` equals the model's `ceilLog2`; idle registers.
  Helper names carry the prefix `pivot_`.  Last section: a partial step lemma for MergeInitialize
  (`merge_`).
-/
namespace Qclib
namespace WL
open Sparse

variable {α : Type}

/-! ### `⌈log₂ m⌉`: the table's `clog2` is the model's `ceilLog2` -/

theorem pivot_le_two_pow_clog2 (m : Nat) : m ≤ 2 ^ Widths.clog2 m := by
  unfold Widths.clog2
  have := Nat.lt_log2_self (n := 2 * m - 1)
  rw [Nat.pow_succ] at this
  omega

theorem pivot_clog2_eq_ceilLog2 (m : Nat) : Widths.clog2 m = ceilLog2 m := by
  obtain ⟨h1, _, h3⟩ := ceilLog2_spec m
  exact Nat.le_antisymm (Widths.clog2_le h1) (h3 _ (pivot_le_two_pow_clog2 m))

/-- width of the pivot circuit as the model computes it -/
def pivot_W (n t : Nat) (aux : Bool) : Nat := if aux then n + t - 1 else n

theorem pivot_width_eq (n m : Nat) (aux : Bool) (hm : aux = true → 2 ≤ m) :
    Widths.declaredWidth .pivot { n := n, m := m, aux := aux } = pivot_W n (ceilLog2 m) aux := by
  simp only [Widths.declaredWidth, pivot_W, pivot_clog2_eq_ceilLog2]
  cases aux
  · simp
  · have := Widths.clog2_pos (hm rfl)
    rw [pivot_clog2_eq_ceilLog2] at this
    simp
    omega

/-! ### one `_pivoting` step -/

theorem pivot_mem_remain {n t k : Nat} (h : k ∈ (List.range n).drop (n - t)) : k < n :=
  List.mem_range.mp (List.mem_of_mem_drop h)

theorem pivot_remain_length {n t : Nat} (h : t ≤ n) : ((List.range n).drop (n - t)).length = t := by
  simp only [List.length_drop, List.length_range]; omega

theorem pivot_mcxVchain_below {n : Nat} (hn : 1 ≤ n) {ctrl : List Nat} (hc : ∀ k ∈ ctrl, k < n)
    (hl : 2 ≤ ctrl.length) {tgt : Nat} (ht : tgt < n) :
    Below sgWires (n + ctrl.length - 1) (mcxVchain (α := α) n ctrl tgt) := by
  have hg : ∀ i, ctrl.getD i 0 < n := by
    intro i
    rcases sparse_getD_eq_or_mem ctrl i 0 with h | h
    · omega
    · exact hc _ h
  have hfirst : ∀ w ∈ sgWires (SG.rccx (α := α) (ctrl.getD 0 0) (ctrl.getD 1 0) (n + 0)),
      w < n + ctrl.length - 1 := by
    intro w hw
    have h0 := hg 0
    have h1 := hg 1
    simp only [sgWires, List.mem_cons, List.not_mem_nil, or_false] at hw
    rcases hw with rfl | rfl | rfl <;> omega
  have hlad : Below sgWires (n + ctrl.length - 1)
      (((List.range ctrl.length).drop 2).map
        (fun j => SG.rccx (α := α) (ctrl.getD j 0) (n + (j - 2)) (n + (j - 1)))) := by
    apply below_map
    intro j hj w hw
    have hjl := List.mem_range.mp (List.mem_of_mem_drop hj)
    have hcj := hg j
    simp only [sgWires, List.mem_cons, List.not_mem_nil, or_false] at hw
    rcases hw with rfl | rfl | rfl <;> omega
  simp only [mcxVchain]
  refine below_append.mpr ⟨below_append.mpr ⟨below_append.mpr ⟨below_append.mpr
    ⟨below_singleton.mpr hfirst, hlad⟩, below_singleton.mpr ?_⟩, below_reverse.mpr hlad⟩,
    below_singleton.mpr hfirst⟩
  intro w hw
  simp only [sgWires, List.mem_cons, List.not_mem_nil, or_false] at hw
  rcases hw with rfl | rfl <;> omega

theorem pivot_qiskitMcx_below {n : Nat} {ctrl dirty : List Nat} {tgt : Nat} (hc : ∀ k ∈ ctrl, k < n)
    (ht : tgt < n) (hd : ∀ k ∈ dirty, k < n) :
    Below sgWires n (qiskitMcx (α := α) ctrl tgt dirty) := by
  unfold qiskitMcx
  split
  · rename_i c
    apply below_singleton.mpr
    intro w hw
    have := hc c List.mem_cons_self
    simp only [sgWires, List.mem_cons, List.not_mem_nil, or_false] at hw
    rcases hw with rfl | rfl <;> omega
  · apply below_singleton.mpr
    intro w hw
    simp only [sgWires, List.mem_append, List.mem_singleton, List.not_mem_nil, or_false] at hw
    rcases hw with hw | rfl
    · exact hc w hw
    · exact ht
  · apply below_singleton.mpr
    intro w hw
    simp only [sgWires, List.mem_append, List.mem_singleton] at hw
    rcases hw with (hw | rfl) | hw
    · exact hc w hw
    · exact ht
    · exact hd w hw

theorem pivot_mcgX_below {n : Nat} {ctrl : List Nat} {tgt : Nat} (hc : ∀ k ∈ ctrl, k < n)
    (ht : tgt < n) : Below sgWires n (mcgX (α := α) ctrl tgt) := by
  unfold mcgX
  split <;>
  · apply below_singleton.mpr
    intro w hw
    simp only [sgWires, List.mem_append, List.mem_singleton] at hw
    rcases hw with hw | rfl
    · exact hc w hw
    · exact ht

theorem pivot_mem_sliceKm2 {xs : List Nat} {k w : Nat} (h : w ∈ sliceKm2 xs k) : w ∈ xs := by
  unfold sliceKm2 at h
  split at h
  · exact List.mem_of_mem_take h
  · exact (List.dropLast_sublist xs).subset h

/-- **pivot, one `_pivoting` step (pre-reversal numbering).**  For `1 ≤ t ≤ n` (and `t ≥ 2` with
auxiliaries) every gate of one step — the `cx` fan, the `x` conjugation and the multi-controlled
`X` in any of its three back-ends — touches only wires below the model's width
(`n` data wires, plus `anc j = n + j`, `j ≤ t − 2`, with auxiliaries). -/
theorem pivot_pivoting_below {n t : Nat} (aux : Bool) (ht1 : 1 ≤ t) (htn : t ≤ n)
    (haux : aux = true → 2 ≤ t) (nz zero : Str) (st : Dict α) :
    Below sgWires (pivot_W n t aux) (pivoting n t aux nz zero st).1 := by
  have hn : 1 ≤ n := by omega
  have hWn : n ≤ pivot_W n t aux := by unfold pivot_W; split <;> omega
  have hrem : ∀ k ∈ (List.range n).drop (n - t), k < n := fun k h => pivot_mem_remain h
  have htar : ∀ k ∈ List.range (n - t), k < n := fun k h => by
    have := List.mem_range.mp h; omega
  have hdiff : ((List.range (n - t)).find? (fun k => bitAt nz k != bitAt zero k)).getD 0 < n := by
    cases h : (List.range (n - t)).find? (fun k => bitAt nz k != bitAt zero k) with
    | none => simp only [Option.getD_none]; omega
    | some k => simpa using htar k (List.mem_of_find?_eq_some h)
  simp only [pivoting]
  refine below_append.mpr ⟨below_append.mpr ⟨below_append.mpr ⟨?_, ?_⟩, ?_⟩, ?_⟩
  · apply below_map
    intro k hk w hw
    have hkn : k < n := by
      rcases List.mem_append.mp hk with h | h
      · exact htar k (List.mem_of_mem_filter h)
      · exact hrem k (List.mem_of_mem_filter h)
    simp only [sgWires, List.mem_cons, List.not_mem_nil, or_false] at hw
    rcases hw with rfl | rfl <;> omega
  · apply below_map
    intro k hk w hw
    have := hrem k (List.mem_of_mem_filter hk)
    simp only [sgWires, List.mem_singleton] at hw
    omega
  · split
    · rename_i ha
      have h2 := haux ha
      have := pivot_mcxVchain_below (α := α) hn hrem (by rw [pivot_remain_length htn]; exact h2) hdiff
      rw [pivot_remain_length htn] at this
      simpa only [pivot_W, ha, if_true] using this
    · split
      · refine below_mono (pivot_qiskitMcx_below hrem hdiff ?_) hWn
        intro k hk
        exact htar k (List.mem_of_mem_erase (pivot_mem_sliceKm2 hk))
      · exact below_mono (pivot_mcgX_below hrem hdiff) hWn
  · apply below_map
    intro k hk w hw
    have := hrem k (List.mem_of_mem_filter hk)
    simp only [sgWires, List.mem_singleton] at hw
    omega

theorem pivot_loop_below {n t m : Nat} (aux : Bool) (ht1 : 1 ≤ t) (htn : t ≤ n)
    (haux : aux = true → 2 ≤ t) :
    ∀ (fuel : Nat) (st : Dict α) (g : List (SG α)) (e : List (PStep α))
      (r : Dict α × List (SG α) × List (PStep α)),
      Below sgWires (pivot_W n t aux) g → pivotLoop n t m aux fuel st g e = some r →
      Below sgWires (pivot_W n t aux) r.2.1 := by
  intro fuel
  induction fuel with
  | zero =>
    intro st g e r hg h
    unfold pivotLoop at h
    split at h
    · cases h; exact hg
    · cases h
  | succ fuel ih =>
    intro st g e r hg h
    unfold pivotLoop at h
    split at h
    · cases h; exact hg
    · split at h
      · cases h
      · rename_i heq
        cases heq
        split at h
        · cases h
        · exact ih _ _ _ r (below_append.mpr ⟨hg, pivot_pivoting_below aux ht1 htn haux _ _ _⟩) h

theorem sparse_sgWires_mapWires (f : Nat → Nat) (g : SG α) :
    sgWires (g.mapWires f) = (sgWires g).map f := by
  cases g <;> simp [SG.mapWires, sgWires]

/-- **pivot, soundness.**  Let `d` have distinct keys of `n` characters each and let the modelled
`PivotInitialize(d, aux)` be defined (`pivotInit n aux d = some out`; this forces `m = len(d) ≥ 2`,
and `m ≥ 3` with auxiliaries).  Then (a) every wire of the final gate list `out.gates` is below the
declared width `n + (if aux then max(⌈log₂ m⌉ − 1, 0) else 0)`; (b) the final list is the dense
hand-off followed by the reversed, bit-reversed (`q ↦ width − 1 − q`) pivot gates `g`, and those
pre-reversal gates are themselves below the width, so the subtraction never truncates.
Numbering: before the reversal data character `k` is wire `k` and `anc j` is wire `n + j`; after
it the ancilla register occupies wires `0 … t − 2` and the data register the wires above it
(ancilla register first, as in the declared register list). -/
theorem pivot_sound [NumOps α] {n : Nat} (aux : Bool) (d : Dict α)
    (hlen : ∀ k ∈ d.keys, k.length = n) (hnd : d.keys.Nodup) (out : PivotOut α)
    (h : pivotInit n aux d = some out) :
    Below sgWires (Widths.declaredWidth .pivot { n := n, m := d.length, aux := aux }) out.gates ∧
    ∃ (g : List (SG α)) (ws : List Nat) (v : List (Amp α)),
      out.gates = SG.dense ws v :: (g.map (SG.mapWires (fun q =>
        Widths.declaredWidth .pivot { n := n, m := d.length, aux := aux } - 1 - q))).reverse ∧
      Below sgWires (Widths.declaredWidth .pivot { n := n, m := d.length, aux := aux }) g := by
  obtain ⟨hmt, _, hmin⟩ := ceilLog2_spec d.length
  have hmn := keys_length_le_pow n d hnd hlen
  have htn : ceilLog2 d.length ≤ n := hmin n hmn
  unfold pivotInit at h
  simp only at h
  split at h
  · cases h
  · rename_i hm2
    split at h
    · cases h
    · rename_i hm3
      have hm : 2 ≤ d.length := by omega
      have ht1 : 1 ≤ ceilLog2 d.length := by
        have := Widths.clog2_pos hm
        rwa [pivot_clog2_eq_ceilLog2] at this
      have haux : aux = true → 2 ≤ ceilLog2 d.length := by
        intro ha
        subst ha
        simp only [Bool.true_and, decide_eq_true_eq] at hm3
        exact ceilLog2_ge_two _ (by omega)
      rw [pivot_width_eq n d.length aux (fun _ => hm)]
      split at h
      · cases h
      · rename_i st g e hloop
        split at h
        · cases h
        · rename_i v hv
          have hg := pivot_loop_below (m := d.length) aux ht1 htn haux _ _ _ _ _ below_nil hloop
          simp only at hg
          have hW : (if aux = true then n + ceilLog2 d.length - 1 else n)
              = pivot_W n (ceilLog2 d.length) aux := rfl
          simp only [Option.some.injEq] at h
          subst h
          simp only [hW]
          refine ⟨below_cons.mpr ⟨?_, below_reverse.mpr ?_⟩, g, _, v, rfl, hg⟩
          · intro w hw
            simp only [sgWires, List.mem_map, List.mem_range] at hw
            obtain ⟨i, hi, rfl⟩ := hw
            unfold pivot_W
            cases aux <;> simp only [if_true, if_false, Bool.false_eq_true] <;> omega
          · apply below_map
            intro a ha w hw
            rw [sparse_sgWires_mapWires, List.mem_map] at hw
            obtain ⟨q, _, rfl⟩ := hw
            have : 1 ≤ pivot_W n (ceilLog2 d.length) aux := by unfold pivot_W; split <;> omega
            omega

/-- **pivot, idle registers.**  If every key already lies in the low block (its first `n − t`
characters are `'0'`, `t = ⌈log₂ m⌉`: `_get_index_nz` returns `None` at once), the circuit is the
dense hand-off alone, so the wires touched are exactly `off … off + t − 1` with
`off = t − 1` (aux) or `0`: with auxiliaries the whole declared ancilla register `0 … t − 2`, and
for `t < n` the top `n − t` data wires, are declared but never touched. -/
theorem pivot_idle [NumOps α] {n : Nat} (aux : Bool) (d : Dict α) (out : PivotOut α)
    (hnz : getIndexNz (n - ceilLog2 d.length) d = none) (h : pivotInit n aux d = some out) :
    ∀ w, Uses sgWires w out.gates ↔
      (if aux then ceilLog2 d.length - 1 else 0) ≤ w ∧
      w < (if aux then ceilLog2 d.length - 1 else 0) + ceilLog2 d.length := by
  have hloop : pivotLoop n (ceilLog2 d.length) d.length aux d.length d [] [] = some (d, [], []) := by
    unfold pivotLoop
    simp only [hnz]
  unfold pivotInit at h
  simp only [hloop] at h
  split at h
  · cases h
  · split at h
    · cases h
    · split at h
      · cases h
      · simp only [Option.some.injEq] at h
        subst h
        intro w
        simp only [Uses, List.map_nil, List.reverse_nil, List.mem_singleton, exists_eq_left,
          sgWires, List.mem_map, List.mem_range]
        constructor
        · rintro ⟨i, hi, rfl⟩; omega
        · rintro ⟨h1, h2⟩
          exact ⟨w - (if aux = true then ceilLog2 d.length - 1 else 0), by omega, by omega⟩

/-! ### non-vacuity -/

/-- keys `"1010"`, `"0110"`, `"0100"` -/
def pivot_exP4 : Dict Unit := [([true, false, true, false], sparse_uAmp), ([false, true, true, false], sparse_uAmp),
  ([false, true, false, false], sparse_uAmp)]
/-- keys `"0010"`, `"0001"`, `"0000"` (all in the low block) -/
def pivot_exP4lo : Dict Unit := [([false, false, true, false], sparse_uAmp), ([false, false, false, true], sparse_uAmp),
  ([false, false, false, false], sparse_uAmp)]

example : (pivotInit 4 true pivot_exP4).isSome = true ∧ ∀ out ∈ pivotInit 4 true pivot_exP4,
    Below sgWires (Widths.declaredWidth .pivot { n := 4, m := 3, aux := true }) out.gates ∧
    Uses sgWires (Widths.declaredWidth .pivot { n := 4, m := 3, aux := true } - 1) out.gates ∧
    Uses sgWires 0 out.gates := by decide
example : (pivotInit 4 false pivot_exP4).isSome = true ∧ ∀ out ∈ pivotInit 4 false pivot_exP4,
    Below sgWires (Widths.declaredWidth .pivot { n := 4, m := 3, aux := false }) out.gates := by
  decide
example : (∀ k ∈ pivot_exP4.keys, k.length = 4) ∧ pivot_exP4.keys.Nodup := by decide
example : getIndexNz (4 - ceilLog2 pivot_exP4lo.length) pivot_exP4lo = none ∧
    (pivotInit 4 true pivot_exP4lo).isSome = true ∧ ∀ out ∈ pivotInit 4 true pivot_exP4lo,
    ¬ Uses sgWires 0 out.gates ∧ ¬ Uses sgWires 4 out.gates := by decide
example : Widths.clog2 5 = ceilLog2 5 := by decide

/-! ### merge (partial): the preprocessing of one merge step -/

theorem merge_applyX_below {n : Nat} {st : MSt α} {q : Nat} (h : Below sgWires n st.gates)
    (hq : q < n) : Below sgWires n (applyX st q).gates := by
  simp only [applyX]
  refine below_append.mpr ⟨h, below_singleton.mpr ?_⟩
  intro w hw
  simp only [sgWires, List.mem_singleton] at hw
  omega

theorem merge_applyCx_below {n : Nat} {st : MSt α} {c t : Nat} (h : Below sgWires n st.gates)
    (hc : c < n) (ht : t < n) : Below sgWires n (applyCx st c t).gates := by
  simp only [applyCx]
  refine below_append.mpr ⟨h, below_singleton.mpr ?_⟩
  intro w hw
  simp only [sgWires, List.mem_cons, List.not_mem_nil, or_false] at hw
  rcases hw with rfl | rfl <;> omega

theorem merge_foldl_below {n : Nat} (f : MSt α → Nat → MSt α)
    (hf : ∀ st b, b < n → Below sgWires n st.gates → Below sgWires n (f st b).gates) :
    ∀ (l : List Nat) (st : MSt α), (∀ b ∈ l, b < n) → Below sgWires n st.gates →
      Below sgWires n (l.foldl f st).gates
  | [], _, _, h => h
  | b :: l, st, hl, h => by
    simp only [List.foldl_cons]
    exact merge_foldl_below f hf l _ (fun b' hb' => hl b' (List.mem_cons_of_mem _ hb'))
      (hf st b (hl b List.mem_cons_self) h)

/-- **merge, one `_preprocess_states` call (partial).**  If the two selected strings have `n`
characters, the differing qubit `dif` and all `dif_qubits` are `< n`, and the gates emitted so far
are below `n`, then so are the gates after `_preprocess_states` (the `x`, the `cx` fan of
`_equalize_bit_string_states`, the `x` gates on `dif_qubits`).  NOT covered: that
`_select_strings` only returns indices `< n` and that the relabelled keys keep length `n` along the
`while` loop — hence no whole-circuit theorem for `MergeInitialize` here. -/
theorem merge_preprocess_below_partial {n : Nat} (st : MSt α) (dif : Nat) (dq : List Nat)
    (hb1 : st.b1.length = n) (hdif : dif < n) (hdq : ∀ q ∈ dq, q < n)
    (h : Below sgWires n st.gates) : Below sgWires n (preprocess st dif dq).gates := by
  simp only [preprocess]
  apply merge_foldl_below _ _ dq _ hdq
  · apply merge_foldl_below
    · intro st' b hb h'
      split
      · exact merge_applyCx_below h' hdif hb
      · exact h'
    · intro b hb
      have := List.mem_range.mp (List.mem_of_mem_erase hb)
      have hlen : (if (bitAt st.b1 dif != true) = true then applyX st dif else st).b1.length = n := by
        split
        · simp only [applyX, computeOpX]
          split <;> simp only [List.length_append, List.length_take, List.length_drop,
            List.length_cons, List.length_nil] <;> omega
        · exact hb1
      rw [hlen] at this
      exact this
    · split
      · exact merge_applyX_below h hdif
      · exact h
  · intro st' b hb h'
    split
    · exact merge_applyX_below h' hb
    · exact h'

/-- non-vacuity: strings `"011"`, `"100"`, `dif = 0`, `dif_qubits = [1]` emit gates, all below 3 -/
example : (preprocess (α := Unit) ⟨[false, true, true], [true, false, false],
      [([false, true, true], sparse_uAmp), ([true, false, false], sparse_uAmp)], [], []⟩ 0 [1]).gates ≠ [] ∧
    Below sgWires 3 (preprocess (α := Unit) ⟨[false, true, true], [true, false, false],
      [([false, true, true], sparse_uAmp), ([true, false, false], sparse_uAmp)], [], []⟩ 0 [1]).gates := by
  decide

end WL
end Qclib
