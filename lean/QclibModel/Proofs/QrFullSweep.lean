import QclibModel.Proofs.QrFullGivens
import Mathlib.Algebra.BigOperators.Group.List.Basic
import Mathlib.Data.List.Basic
/-
  C02 / QR — the whole Givens sweep `_build_qr_gate_sequence(gate, n)` at matrix level.

      gate_sequence = []
      for col_idx in range(N - 1):
          for row_idx in range(col_idx + 1, N):
              matrix_rotation = …(gate, col_idx, row_idx)         -- `givens`
              gate = matrix_rotation @ gate
              gate_sequence.append(matrix_rotation.conj().T)
      gate_sequence.append(gate)
      gate_sequence = list(reversed(gate_sequence))
-/
namespace Qclib.QrFull
open Matrix

variable {N : ℕ}

/-- loop state: `(gate, gate_sequence)`. -/
abbrev St (N : ℕ) := Mat N × List (Mat N)

/-- body of the inner loop for `p = (col_idx, row_idx)`. -/
noncomputable def step (st : St N) (p : Fin N × Fin N) : St N :=
  (givens st.1 p.1 p.2 * st.1, st.2 ++ [(givens st.1 p.1 p.2)ᴴ])

/-- `range(N - 1)` as indices below `N`. -/
def colRange (N : ℕ) : List (Fin N) := (List.finRange N).filter (fun c => c.val + 1 < N)

/-- `range(col_idx + 1, N)`. -/
def rowRange (c : Fin N) : List (Fin N) := (List.finRange N).filter (fun r => c < r)

/-- the two nested `for` loops, literally. -/
noncomputable def sweep (U : Mat N) : St N :=
  (colRange N).foldl (fun st c => (rowRange c).foldl (fun st r => step st (c, r)) st) (U, [])

/-- what `_build_qr_gate_sequence` returns: `reversed(gate_sequence + [gate])`. -/
noncomputable def gateSequence (U : Mat N) : List (Mat N) := ((sweep U).2 ++ [(sweep U).1]).reverse

/-- the residual `gate` after the loops (first element of the returned list). -/
noncomputable def residual (U : Mat N) : Mat N := (sweep U).1

/-- `_build_qr_circuit` appends the sub-circuit of `gate_sequence[0]` first, then `[1]`, …: the
circuit applies the list in list order, so its operator is the product in the OPPOSITE order
(`gs[last] · … · gs[1] · gs[0]`). -/
def circuitOp (gs : List (Mat N)) : Mat N := gs.reverse.prod

/-! ### the loop order as one list of `(col, row)` pairs -/

/-- the `(col_idx, row_idx)` pairs in the order the loops visit them. -/
def pairs (N : ℕ) : List (Fin N × Fin N) :=
  (colRange N).flatMap (fun c => (rowRange c).map (fun r => (c, r)))

theorem mem_pairs {p : Fin N × Fin N} : p ∈ pairs N ↔ p.1 < p.2 := by
  obtain ⟨c, r⟩ := p
  simp only [pairs, colRange, rowRange, List.mem_flatMap, List.mem_filter, List.mem_finRange,
    List.mem_map, true_and, decide_eq_true_eq, Prod.mk.injEq]
  constructor
  · rintro ⟨a, _, b, hb, rfl, rfl⟩; exact hb
  · intro h
    refine ⟨c, ?_, r, h, rfl, rfl⟩
    have := r.isLt
    have : c.val < r.val := h
    omega

/-- lexicographic order of the loop. -/
def lt2 (p q : Fin N × Fin N) : Prop := p.1 < q.1 ∨ (p.1 = q.1 ∧ p.2 < q.2)

theorem pairwise_lt_finRange (N : ℕ) : (List.finRange N).Pairwise (· < ·) := by
  rw [List.finRange, List.pairwise_ofFn]
  intro i j h; exact h

theorem pairs_sorted (N : ℕ) : (pairs N).Pairwise lt2 := by
  unfold pairs
  rw [List.pairwise_flatMap]
  constructor
  · intro c _
    rw [List.pairwise_map]
    exact ((pairwise_lt_finRange N).filter _).imp (fun h => Or.inr ⟨rfl, h⟩)
  · refine ((pairwise_lt_finRange N).filter _).imp ?_
    intro a b hab x hx y hy
    simp only [List.mem_map] at hx hy
    obtain ⟨_, _, rfl⟩ := hx
    obtain ⟨_, _, rfl⟩ := hy
    exact Or.inl hab

/-- run of the loops over an arbitrary list of pairs. -/
noncomputable def sweepOn (ps : List (Fin N × Fin N)) (st : St N) : St N := ps.foldl step st

theorem sweep_eq_sweepOn (U : Mat N) : sweep U = sweepOn (pairs N) (U, []) := by
  unfold sweep sweepOn pairs
  rw [List.foldl_flatMap]
  congr 1
  funext st c
  rw [List.foldl_map]

/-- the matrices appended to `gate_sequence`, in the order they are appended. -/
noncomputable def factors : List (Fin N × Fin N) → Mat N → List (Mat N)
  | [], _ => []
  | p :: ps, M => (givens M p.1 p.2)ᴴ :: factors ps (givens M p.1 p.2 * M)

/-- `gate` after the loops. -/
noncomputable def final : List (Fin N × Fin N) → Mat N → Mat N
  | [], M => M
  | p :: ps, M => final ps (givens M p.1 p.2 * M)

theorem sweepOn_eq (ps : List (Fin N × Fin N)) (M : Mat N) (seq : List (Mat N)) :
    sweepOn ps (M, seq) = (final ps M, seq ++ factors ps M) := by
  induction ps generalizing M seq with
  | nil => simp [sweepOn, final, factors]
  | cons p ps ih =>
    have : sweepOn (p :: ps) (M, seq) = sweepOn ps (step (M, seq) p) := rfl
    rw [this, step, ih]
    simp [final, factors]

theorem residual_eq (U : Mat N) : residual U = final (pairs N) U := by
  rw [residual, sweep_eq_sweepOn, sweepOn_eq]

theorem gateSequence_eq (U : Mat N) :
    gateSequence U = final (pairs N) U :: (factors (pairs N) U).reverse := by
  rw [gateSequence, sweep_eq_sweepOn, sweepOn_eq]; simp

/-- a predicate holds at every iteration (of the matrix at its start and the pair). -/
def SweepAll (P : Mat N → Fin N → Fin N → Prop) : List (Fin N × Fin N) → Mat N → Prop
  | [], _ => True
  | p :: ps, M => P M p.1 p.2 ∧ SweepAll P ps (givens M p.1 p.2 * M)

/-- no iteration meets `norm = 0` (the code would divide by zero: NaN entries, no exception). -/
def SweepOk (ps : List (Fin N × Fin N)) (M : Mat N) : Prop :=
  SweepAll (fun M c r => pairNorm (M c c) (M r c) ≠ 0) ps M

/-- a unitary equal to the identity outside rows/columns `c`, `r`. -/
structure IsTwoLevelUnitary (G : Mat N) (c r : Fin N) : Prop where
  mul_conjTranspose : G * Gᴴ = 1
  conjTranspose_mul : Gᴴ * G = 1
  outside : ∀ i j, (i ≠ c ∧ i ≠ r) ∨ (j ≠ c ∧ j ≠ r) → G i j = (1 : Mat N) i j

theorem givens_conjTranspose_twoLevel (M : Mat N) {c r : Fin N} (hcr : c ≠ r)
    (h : pairNorm (M c c) (M r c) ≠ 0) : IsTwoLevelUnitary (givens M c r)ᴴ c r := by
  refine ⟨?_, ?_, ?_⟩
  · rw [conjTranspose_conjTranspose]; exact conjTranspose_mul_givens M hcr h
  · rw [conjTranspose_conjTranspose]; exact givens_mul_conjTranspose M hcr h
  · intro i j hij
    unfold givens
    rw [twoLevel_conjTranspose hcr]
    exact twoLevel_outside _ _ _ _ _ _ _ _ hij

theorem givens_twoLevel (M : Mat N) {c r : Fin N} (hcr : c ≠ r)
    (h : pairNorm (M c c) (M r c) ≠ 0) : IsTwoLevelUnitary (givens M c r) c r :=
  ⟨givens_mul_conjTranspose M hcr h, conjTranspose_mul_givens M hcr h,
   fun _ _ hij => twoLevel_outside _ _ _ _ _ _ _ _ hij⟩

/-- telescoping: `R₁† · R₂† ⋯ R_k† · (R_k ⋯ R₁ · M) = M`. -/
theorem factors_prod (ps : List (Fin N × Fin N)) (hps : ∀ p ∈ ps, p.1 ≠ p.2) (M : Mat N)
    (h : SweepOk ps M) : (factors ps M ++ [final ps M]).prod = M := by
  induction ps generalizing M with
  | nil => simp [factors, final]
  | cons p ps ih =>
    obtain ⟨h1, h2⟩ := h
    have hp := hps p List.mem_cons_self
    simp only [factors, final, List.cons_append, List.prod_cons]
    rw [ih (fun q hq => hps q (List.mem_cons_of_mem _ hq)) _ h2, ← Matrix.mul_assoc,
      conjTranspose_mul_givens M hp h1, Matrix.one_mul]

theorem factors_twoLevel (ps : List (Fin N × Fin N)) (hps : ∀ p ∈ ps, p.1 ≠ p.2) (M : Mat N)
    (h : SweepOk ps M) :
    List.Forall₂ (fun G p => IsTwoLevelUnitary G p.1 p.2) (factors ps M) ps := by
  induction ps generalizing M with
  | nil => exact List.Forall₂.nil
  | cons p ps ih =>
    obtain ⟨h1, h2⟩ := h
    exact List.Forall₂.cons (givens_conjTranspose_twoLevel M (hps p List.mem_cons_self) h1)
      (ih (fun q hq => hps q (List.mem_cons_of_mem _ hq)) _ h2)

theorem factors_twoLevel_lt (ps : List (Fin N × Fin N)) (hps : ∀ p ∈ ps, p.1 < p.2) (M : Mat N)
    (h : SweepOk ps M) :
    List.Forall₂ (fun G p => IsTwoLevelUnitary G p.1 p.2 ∧ p.1 < p.2) (factors ps M) ps := by
  induction ps generalizing M with
  | nil => exact List.Forall₂.nil
  | cons p ps ih =>
    obtain ⟨h1, h2⟩ := h
    have hp := hps p List.mem_cons_self
    exact List.Forall₂.cons ⟨givens_conjTranspose_twoLevel M (ne_of_lt hp) h1, hp⟩
      (ih (fun q hq => hps q (List.mem_cons_of_mem _ hq)) _ h2)

theorem circuitOp_cons (G : Mat N) (Gs : List (Mat N)) :
    circuitOp (G :: Gs) = circuitOp Gs * G := by
  simp [circuitOp]

/-- sub-circuits applied in list order, each denoting its matrix, denote `circuitOp`. -/
theorem foldl_denotes (Ts : List ((Fin N → ℂ) → (Fin N → ℂ))) (Gs : List (Mat N))
    (h : List.Forall₂ (fun T G => ∀ v, T v = G *ᵥ v) Ts Gs) (v : Fin N → ℂ) :
    Ts.foldl (fun v T => T v) v = circuitOp Gs *ᵥ v := by
  induction h generalizing v with
  | nil => simp [circuitOp]
  | cons hTG _ ih =>
    rw [List.foldl_cons, ih, hTG, circuitOp_cons, Matrix.mulVec_mulVec]

theorem final_unitary (ps : List (Fin N × Fin N)) (hps : ∀ p ∈ ps, p.1 ≠ p.2) (M : Mat N)
    (h : SweepOk ps M) (hM : Mᴴ * M = 1) : (final ps M)ᴴ * final ps M = 1 := by
  induction ps generalizing M with
  | nil => exact hM
  | cons p ps ih =>
    obtain ⟨h1, h2⟩ := h
    have hp := hps p List.mem_cons_self
    refine ih (fun q hq => hps q (List.mem_cons_of_mem _ hq)) _ h2 ?_
    rw [conjTranspose_mul, Matrix.mul_assoc, ← Matrix.mul_assoc _ (givens M p.1 p.2) M,
      conjTranspose_mul_givens M hp h1, Matrix.one_mul, hM]

theorem pairs_ne {p : Fin N × Fin N} (hp : p ∈ pairs N) : p.1 ≠ p.2 := ne_of_lt (mem_pairs.1 hp)

/-! ### the zeros created by the sweep -/

/-- for every pair already processed the sub-diagonal entry is `0` and the pivot of its column is
a positive real. -/
def Inv (done : List (Fin N × Fin N)) (M : Mat N) : Prop :=
  ∀ q ∈ done, M q.2 q.1 = 0 ∧ ∃ x : ℝ, 0 < x ∧ M q.1 q.1 = (x : ℂ)

theorem inv_step (done : List (Fin N × Fin N)) (M : Mat N) {c r : Fin N} (hcr : c < r)
    (hclosed : ∀ q ∈ done, q.1 < q.2 ∧
      (q.1 = c ∨ (q.1 < c ∧ (q.1, c) ∈ done ∧ (q.1, r) ∈ done)))
    (hν : pairNorm (M c c) (M r c) ≠ 0) (hinv : Inv done M) :
    Inv (done ++ [(c, r)]) (givens M c r * M) := by
  have hne : c ≠ r := ne_of_lt hcr
  intro q hq
  rw [List.mem_append, List.mem_singleton] at hq
  rcases hq with hq | rfl
  · obtain ⟨c', r'⟩ := q
    obtain ⟨hlt, hcl⟩ := hclosed _ hq
    obtain ⟨hz, x, hx, hd⟩ := hinv _ hq
    simp only at hlt hcl hz hd ⊢
    rcases hcl with rfl | ⟨hc', hm1, hm2⟩
    · -- same column, an earlier row
      refine ⟨?_, _, pairNorm_pos hν, givens_mul_pivot M hne hν⟩
      by_cases hr' : r' = r
      · subst hr'; exact givens_mul_zero M hne hν
      · rw [givens_mul_other M hne (ne_of_gt hlt) hr']; exact hz
    · -- an earlier column
      have z1 : M c c' = 0 := (hinv _ hm1).1
      have z2 : M r c' = 0 := (hinv _ hm2).1
      constructor
      · by_cases h1 : r' = c
        · subst h1; rw [givens_mul_row_c M hne, z1, z2]; simp
        · by_cases h2 : r' = r
          · subst h2; rw [givens_mul_row_r M hne, z1, z2]; simp
          · rw [givens_mul_other M hne h1 h2]; exact hz
      · refine ⟨x, hx, ?_⟩
        rw [givens_mul_other M hne (ne_of_lt hc') (ne_of_lt (lt_trans hc' hcr))]; exact hd
  · exact ⟨givens_mul_zero M hne hν, _, pairNorm_pos hν, givens_mul_pivot M hne hν⟩

theorem final_inv (L : List (Fin N × Fin N)) (hs : L.Pairwise lt2)
    (hmem : ∀ p, p ∈ L ↔ p.1 < p.2) :
    ∀ (l₂ l₁ : List (Fin N × Fin N)) (M : Mat N), L = l₁ ++ l₂ → SweepOk l₂ M → Inv l₁ M →
      Inv L (final l₂ M) := by
  intro l₂
  induction l₂ with
  | nil => intro l₁ M hL _ hinv; simpa [hL, final] using hinv
  | cons p l₂ ih =>
    intro l₁ M hL hok hinv
    obtain ⟨h1, h2⟩ := hok
    obtain ⟨c, r⟩ := p
    have hL' : L = (l₁ ++ [(c, r)]) ++ l₂ := by rw [hL]; simp
    have hcr : c < r := (hmem (c, r)).1 (by rw [hL]; simp)
    rw [hL, List.pairwise_append] at hs
    obtain ⟨_, hs2, hs12⟩ := hs
    rw [List.pairwise_cons] at hs2
    -- valid pairs of an earlier column have been processed
    have hpre : ∀ c' x : Fin N, c' < c → c' < x → (c', x) ∈ l₁ := by
      intro c' x hc hx
      have hin : (c', x) ∈ L := (hmem (c', x)).2 hx
      rw [hL, List.mem_append, List.mem_cons] at hin
      rcases hin with hin | hin | hin
      · exact hin
      · exact absurd (congrArg Prod.fst hin) (ne_of_lt hc)
      · rcases hs2.1 _ hin with h | ⟨h, _⟩
        · exact absurd (lt_trans h hc) (lt_irrefl _)
        · exact absurd h (ne_of_gt hc)
    refine ih (l₁ ++ [(c, r)]) _ hL' h2 (inv_step l₁ M hcr ?_ h1 hinv)
    intro q hq
    have hq1 : q.1 < q.2 := (hmem q).1 (by rw [hL]; exact List.mem_append_left _ hq)
    refine ⟨hq1, ?_⟩
    rcases hs12 q hq (c, r) List.mem_cons_self with h | ⟨h, _⟩
    · exact Or.inr ⟨h, hpre _ _ h h, hpre _ _ h (lt_trans h hcr)⟩
    · exact Or.inl h

/-- after the whole sweep: `0` below the diagonal, positive real pivots in all columns but the
last. -/
theorem final_triangular (U : Mat N) (h : SweepOk (pairs N) U) :
    (∀ i j : Fin N, j < i → final (pairs N) U i j = 0) ∧
    (∀ c : Fin N, c.val + 1 < N → ∃ x : ℝ, 0 < x ∧ final (pairs N) U c c = (x : ℂ)) := by
  have hinv := final_inv (pairs N) (pairs_sorted N) (fun p => mem_pairs) (pairs N) [] U
    (by simp) h (by intro q hq; simp at hq)
  constructor
  · intro i j hji
    exact (hinv (j, i) (mem_pairs.2 hji)).1
  · intro c hc
    exact (hinv (c, ⟨c.val + 1, hc⟩) (mem_pairs.2 (by rw [Fin.lt_def]; simp))).2

end Qclib.QrFull
