import QclibModel.Proofs.UcgSimplify
import Mathlib.Data.List.Nodup
/-
  C12: the rank lemma of the UCGE simplification.  `_repetition_search` is given in closed form
  (which strides are accepted does not depend on the copy; the copy's mask afterwards is "no
  dropped bit set"), and the filtered operator list, read through the bits of the kept controls
  (`gather`), is the original list with the dropped bits cleared — hence, by periodicity, the
  original multiplexer.
-/
namespace Qclib.Ucg
open List

variable {α : Type}

/-! ### closed form of `_repetition_verify` and of the `while repetitions` loop -/

/-- the decision of `_repetition_verify` (it does not read the copy). -/
def verifyOk (eqv : Mat2 α → Mat2 α → Bool) (mux : Nat → Mat2 α) : (cnt base nxt : Nat) → Bool
  | 0, _, _ => true
  | cnt + 1, base, nxt => eqv (mux base) (mux nxt) && verifyOk eqv mux cnt (base + 1) (nxt + 1)

theorem repVerify_eq (eqv : Mat2 α → Mat2 α → Bool) (mux : Nat → Mat2 α) :
    ∀ (cnt base nxt : Nat) (cpy : Nat → Bool),
      repVerify eqv mux cnt base nxt cpy =
        if verifyOk eqv mux cnt base nxt then
          some (fun k => if nxt ≤ k ∧ k < nxt + cnt then false else cpy k) else none := by
  intro cnt
  induction cnt with
  | zero =>
    intro base nxt cpy
    simp only [repVerify, verifyOk, if_true]
    congr 1
    funext k
    rw [if_neg (by omega)]
  | succ cnt ih =>
    intro base nxt cpy
    rw [repVerify, verifyOk]
    by_cases he : eqv (mux base) (mux nxt) = true
    · rw [if_pos he, ih, he, Bool.true_and]
      by_cases hv : verifyOk eqv mux cnt (base + 1) (nxt + 1) = true
      · rw [if_pos hv, if_pos hv]
        congr 1
        funext k
        by_cases hk : k = nxt
        · subst hk; simp
        · by_cases hk2 : nxt + 1 ≤ k ∧ k < nxt + 1 + cnt
          · rw [if_pos hk2, if_pos (by omega)]
          · rw [if_neg hk2, if_neg hk, if_neg (by omega)]
      · rw [if_neg hv, if_neg hv]
    · rw [if_neg he]
      simp only [Bool.not_eq_true] at he
      rw [he, Bool.false_and]
      simp

/-- the decision of the `while repetitions` loop. -/
def blocksOk (eqv : Mat2 α → Mat2 α → Bool) (mux : Nat → Mat2 α) (d : Nat) : (reps base : Nat) → Bool
  | 0, _ => true
  | reps + 1, base => verifyOk eqv mux d base (base + d) && blocksOk eqv mux d reps (base + 2 * d)

/-- `k` lies in the upper half of one of the `reps` blocks of width `2d` starting at `base`. -/
def inUpper (d reps base k : Nat) : Prop := base ≤ k ∧ k < base + 2 * d * reps ∧ (k - base) / d % 2 = 1

instance (d reps base k : Nat) : Decidable (inUpper d reps base k) := by unfold inUpper; infer_instance

theorem inUpper_succ (d reps base k : Nat) (hd : 0 < d) :
    inUpper d (reps + 1) base k ↔ (base + d ≤ k ∧ k < base + d + d) ∨ inUpper d reps (base + 2 * d) k := by
  unfold inUpper
  rw [Nat.mul_add, Nat.mul_one]
  by_cases h1 : k < base + 2 * d
  · -- first block
    have hx : (k - base) / d < 2 := by
      rw [Nat.div_lt_iff_lt_mul hd]; omega
    have hge : 1 ≤ (k - base) / d ↔ d ≤ k - base := by
      rw [Nat.le_div_iff_mul_le hd, Nat.one_mul]
    constructor
    · rintro ⟨h2, _, h4⟩
      left
      have h5 : 1 ≤ (k - base) / d := by
        generalize (k - base) / d = x at *
        omega
      have : d ≤ k - base := hge.1 h5
      omega
    · rintro (h | h)
      · have : d ≤ k - base := by omega
        have h1x := hge.2 this
        exact ⟨by omega, by omega, by omega⟩
      · omega
  · have e : (k - (base + 2 * d)) / d = (k - base) / d - 2 := by
      rw [show k - (base + 2 * d) = k - base - 2 * d by omega, Nat.mul_comm 2 d, Nat.mul_comm d 2,
        Nat.mul_comm 2 d, Nat.sub_mul_div]
    have hge : 2 ≤ (k - base) / d := by
      rw [Nat.le_div_iff_mul_le hd]; omega
    constructor
    · rintro ⟨h2, h3, h4⟩
      right
      refine ⟨by omega, by omega, ?_⟩
      rw [e]; omega
    · rintro (h | ⟨h2, h3, h4⟩)
      · omega
      · rw [e] at h4
        exact ⟨by omega, by omega, by omega⟩

theorem repBlocks_eq (eqv : Mat2 α → Mat2 α → Bool) (mux : Nat → Mat2 α) (d : Nat) (hd : 0 < d) :
    ∀ (reps base : Nat) (cpy : Nat → Bool),
      repBlocks eqv mux d reps base cpy =
        if blocksOk eqv mux d reps base then
          some (fun k => if inUpper d reps base k then false else cpy k) else none := by
  intro reps
  induction reps with
  | zero =>
    intro base cpy
    simp only [repBlocks, blocksOk, if_true]
    congr 1
    funext k
    rw [if_neg]
    unfold inUpper
    omega
  | succ reps ih =>
    intro base cpy
    rw [repBlocks, blocksOk, repVerify_eq]
    by_cases hv : verifyOk eqv mux d base (base + d) = true
    · rw [if_pos hv, hv, Bool.true_and]
      dsimp only
      rw [ih]
      by_cases hb : blocksOk eqv mux d reps (base + 2 * d) = true
      · rw [if_pos hb, if_pos hb]
        congr 1
        funext k
        by_cases h1 : base + d ≤ k ∧ k < base + d + d
        · rw [if_pos ((inUpper_succ d reps base k hd).2 (Or.inl h1))]
          by_cases h2 : inUpper d reps (base + 2 * d) k
          · rw [if_pos h2]
          · rw [if_neg h2, if_pos h1]
        · by_cases h2 : inUpper d reps (base + 2 * d) k
          · rw [if_pos h2, if_pos ((inUpper_succ d reps base k hd).2 (Or.inr h2))]
          · rw [if_neg h2, if_neg h1, if_neg]
            rw [inUpper_succ d reps base k hd]
            exact fun h => h.elim h1 h2
      · rw [if_neg hb, if_neg hb]
    · rw [if_neg hv]
      simp only [Bool.not_eq_true] at hv
      rw [hv, Bool.false_and]
      simp

/-! ### closed form of `_repetition_search` -/

/-- does `_repetition_search` put the control of stride `i` into `dont_carry`? -/
def dropDec (eqv : Mat2 α → Mat2 α → Bool) (mux : Nat → Mat2 α) (len i : Nat) : Bool :=
  isPow2 i && eqv (mux i) (mux 0) && !(decide (len / (2 * i) = 0)) && blocksOk eqv mux i (len / (2 * i)) 0

theorem repStep_eq (eqv : Mat2 α → Mat2 α → Bool) (mux : Nat → Mat2 α) (len nq : Nat)
    (st : (Nat → Bool) × List Nat) (i : Nat) (hi : 0 < i) :
    repStep eqv mux len nq st i =
      if dropDec eqv mux len i then
        (fun k => if inUpper i (len / (2 * i)) 0 k then false else st.1 k, st.2 ++ [nq + Nat.log2 i + 1])
      else st := by
  unfold repStep dropDec
  by_cases hc : (isPow2 i && eqv (mux i) (mux 0)) = true
  · rw [if_pos hc, hc, Bool.true_and]
    dsimp only
    by_cases hr : len / (2 * i) = 0
    · rw [if_pos hr]
      simp [hr]
    · rw [if_neg hr, repBlocks_eq eqv mux i hi]
      by_cases hb : blocksOk eqv mux i (len / (2 * i)) 0 = true
      · simp [hb, hr]
      · simp only [Bool.not_eq_true] at hb
        simp [hb]
  · rw [if_neg hc]
    simp only [Bool.not_eq_true] at hc
    rw [hc]
    simp

theorem repFold_eq (eqv : Mat2 α → Mat2 α → Bool) (mux : Nat → Mat2 α) (len nq : Nat) :
    ∀ (l : List Nat) (st : (Nat → Bool) × List Nat), (∀ i ∈ l, 0 < i) →
      (l.foldl (repStep eqv mux len nq) st).2 =
        st.2 ++ (l.filter (dropDec eqv mux len)).map (fun i => nq + Nat.log2 i + 1)
      ∧ ∀ k, (l.foldl (repStep eqv mux len nq) st).1 k =
        (st.1 k && l.all (fun i => !(dropDec eqv mux len i && decide (inUpper i (len / (2 * i)) 0 k)))) := by
  intro l
  induction l with
  | nil => intro st _; simp
  | cons i l ih =>
    intro st hl
    have hi : 0 < i := hl i (by simp)
    obtain ⟨h1, h2⟩ := ih (repStep eqv mux len nq st i) (fun j hj => hl j (by simp [hj]))
    rw [List.foldl_cons]
    refine ⟨?_, fun k => ?_⟩
    · rw [h1, repStep_eq eqv mux len nq st i hi]
      by_cases hd : dropDec eqv mux len i = true
      · rw [if_pos hd, List.filter_cons_of_pos hd]
        simp
      · rw [if_neg hd, List.filter_cons_of_neg hd]
    · rw [h2 k, repStep_eq eqv mux len nq st i hi, List.all_cons]
      by_cases hd : dropDec eqv mux len i = true
      · rw [if_pos hd, hd]
        by_cases hu : inUpper i (len / (2 * i)) 0 k
        · simp [hu]
        · simp [hu]
      · rw [if_neg hd]
        simp only [Bool.not_eq_true] at hd
        simp [hd]

/-! ### the combinatorial rank lemma (abstract set of dropped bits) -/

/-- indices `< 2^m` none of whose dropped bits is set, in increasing order. -/
def keptL (drop : Nat → Bool) (m : Nat) : List Nat :=
  (range (2 ^ m)).filter (fun k => (range m).all (fun j => !(drop j && k.testBit j)))

/-- the kept bit positions `< m`, in increasing order. -/
def posL (drop : Nat → Bool) (m : Nat) : List Nat := (range m).filter (fun j => !drop j)

/-- `k` restricted to its kept bits below `m`. -/
def clr (drop : Nat → Bool) : Nat → Nat → Nat
  | 0, _ => 0
  | m + 1, k => clr drop m k + (if !drop m && k.testBit m then 2 ^ m else 0)

theorem clr_lt (drop : Nat → Bool) (k : Nat) : ∀ m, clr drop m k < 2 ^ m := by
  intro m
  induction m with
  | zero => simp [clr]
  | succ m ih =>
    rw [clr, Nat.pow_succ]
    split <;> omega

theorem keptL_succ (drop : Nat → Bool) (m : Nat) :
    keptL drop (m + 1) = keptL drop m ++ (if drop m then [] else (keptL drop m).map (fun k => 2 ^ m + k)) := by
  unfold keptL
  have h2 : range (2 ^ (m + 1)) = range (2 ^ m) ++ (range (2 ^ m)).map (fun x => 2 ^ m + x) := by
    rw [show 2 ^ (m + 1) = 2 ^ m + 2 ^ m by rw [Nat.pow_succ]; omega, List.range_add]
  rw [h2, List.filter_append, List.filter_map]
  congr 1
  · apply List.filter_congr
    intro k hk
    rw [List.mem_range] at hk
    rw [List.range_succ, List.all_append]
    simp [Nat.testBit_lt_two_pow hk]
  · by_cases hd : drop m = true
    · rw [if_pos hd]
      rw [List.map_eq_nil_iff, List.filter_eq_nil_iff]
      intro k _
      simp only [Function.comp, List.range_succ, List.all_append, Bool.not_eq_true]
      have hk : k < 2 ^ m := by simpa using ‹k ∈ range (2 ^ m)›
      simp [hd, Nat.testBit_two_pow_add_eq, Nat.testBit_lt_two_pow hk]
    · rw [if_neg hd]
      simp only [Bool.not_eq_true] at hd
      congr 1
      apply List.filter_congr
      intro k hk
      rw [List.mem_range] at hk
      simp only [Function.comp, List.range_succ, List.all_append]
      simp only [hd, Bool.false_and, Bool.not_false, List.all_cons, List.all_nil, Bool.and_true]
      apply Bool.eq_iff_iff.2
      simp only [List.all_eq_true, List.mem_range]
      constructor
      · intro h j hj; have := h j hj; rwa [Nat.testBit_two_pow_add_gt hj] at this
      · intro h j hj; rw [Nat.testBit_two_pow_add_gt hj]; exact h j hj

theorem posL_succ (drop : Nat → Bool) (m : Nat) :
    posL drop (m + 1) = posL drop m ++ (if drop m then [] else [m]) := by
  unfold posL
  rw [List.range_succ, List.filter_append]
  congr 1
  by_cases hd : drop m = true
  · simp [hd]
  · simp only [Bool.not_eq_true] at hd
    simp [hd]

theorem keptL_length (drop : Nat → Bool) : ∀ m, (keptL drop m).length = 2 ^ (posL drop m).length := by
  intro m
  induction m with
  | zero => simp [keptL, posL]
  | succ m ih =>
    rw [keptL_succ, posL_succ]
    by_cases hd : drop m = true
    · simp [hd, ih]
    · simp only [Bool.not_eq_true] at hd
      simp only [hd, Bool.false_eq_true, if_false, List.length_append, List.length_map,
        List.length_singleton, ih, Nat.pow_succ]
      omega

theorem gather_snoc (pos : List Nat) (p k : Nat) :
    gather (pos ++ [p]) k = gather pos k + (if k.testBit p then 2 ^ pos.length else 0) := by
  unfold gather
  rw [List.zipIdx_append]
  simp

theorem gather_posL_lt (drop : Nat → Bool) (k : Nat) :
    ∀ m, gather (posL drop m) k < 2 ^ (posL drop m).length := by
  intro m
  induction m with
  | zero => simp [gather, posL]
  | succ m ih =>
    rw [posL_succ]
    by_cases hd : drop m = true
    · simpa [hd] using ih
    · simp only [Bool.not_eq_true] at hd
      simp only [hd, Bool.false_eq_true, if_false, gather_snoc, List.length_append,
        List.length_singleton, Nat.pow_succ]
      split <;> omega

/-- **rank lemma**: the filtered list read through the kept bits is `k` with its dropped bits
cleared. -/
theorem keptL_gather (drop : Nat → Bool) (k : Nat) :
    ∀ m, (keptL drop m)[gather (posL drop m) k]? = some (clr drop m k) := by
  intro m
  induction m with
  | zero => simp [keptL, posL, gather, clr]
  | succ m ih =>
    have hlt := gather_posL_lt drop k m
    have hlen := keptL_length drop m
    rw [keptL_succ, posL_succ, clr]
    by_cases hd : drop m = true
    · simp only [hd, if_true, List.append_nil, Bool.not_true, Bool.false_and, Bool.false_eq_true,
        if_false, Nat.add_zero]
      exact ih
    · simp only [Bool.not_eq_true] at hd
      simp only [hd, Bool.false_eq_true, if_false, gather_snoc, Bool.not_false, Bool.true_and]
      by_cases hb : k.testBit m = true
      · rw [if_pos hb, if_pos hb, List.getElem?_append_right (by omega), hlen, Nat.add_sub_cancel,
          List.getElem?_map, ih]
        simp [Nat.add_comm]
      · rw [if_neg hb, if_neg hb, Nat.add_zero, Nat.add_zero, List.getElem?_append_left (by omega)]
        exact ih

/-- along every dropped bit the list is periodic ⇒ clearing the dropped bits does not change the
entry. -/
theorem mux_clr (mux : Nat → Mat2 α) (drop : Nat → Bool) (M : Nat)
    (hp : ∀ j, j < M → drop j = true → PeriodicAt mux (2 ^ M) (2 ^ j)) (k : Nat) (hk : k < 2 ^ M) :
    mux (clr drop M k) = mux k := by
  have key : ∀ m, m ≤ M → mux (clr drop m k + 2 ^ m * (k / 2 ^ m)) = mux k := by
    intro m
    induction m with
    | zero => intro _; simp [clr]
    | succ m ih =>
      intro hm
      rw [← ih (by omega)]
      have hP : 0 < 2 ^ m := pow_pos2 m
      have hc := clr_lt drop k m
      have hdiv : k / 2 ^ (m + 1) = k / 2 ^ m / 2 := div_succ m k
      have hq : k / 2 ^ m = 2 * (k / 2 ^ m / 2) + k / 2 ^ m % 2 := by omega
      have hbit : k.testBit m = decide (k / 2 ^ m % 2 = 1) := testBit_eq k m
      rw [clr, hdiv, Nat.pow_succ]
      generalize k / 2 ^ m / 2 = q at *
      generalize hr : k / 2 ^ m % 2 = r at *
      have hr2 : r < 2 := by omega
      rw [hq]
      by_cases hd : drop m = true
      · simp only [hd, Bool.not_true, Bool.false_and, Bool.false_eq_true, if_false, Nat.add_zero]
        have hper := hp m (by omega) hd
        rcases (by omega : r = 0 ∨ r = 1) with h0 | h1
        · rw [h0]; congr 1; rw [Nat.mul_add, Nat.mul_zero, Nat.add_zero, Nat.mul_assoc]
        · rw [h1]
          have hx : clr drop m k + 2 ^ m * 2 * q < 2 ^ M := by
            have h1' : k / 2 ^ m < 2 ^ M / 2 ^ m + 1 := by
              have := Nat.div_le_div_right (c := 2 ^ m) (Nat.le_of_lt hk)
              omega
            have hpow : 2 ^ M = 2 ^ m * 2 ^ (M - m) := by rw [← Nat.pow_add]; congr 1; omega
            have hlt : k / 2 ^ m < 2 ^ (M - m) := by
              rw [Nat.div_lt_iff_lt_mul hP, Nat.mul_comm, ← hpow]; exact hk
            have hpos : 1 ≤ M - m := by omega
            have hpow2 : 2 ^ (M - m) = 2 * 2 ^ (M - m - 1) := by
              rw [← Nat.pow_succ']; congr 1; omega
            rw [hpow, hpow2]
            have hq2 : q < 2 ^ (M - m - 1) := by omega
            calc clr drop m k + 2 ^ m * 2 * q < 2 ^ m + 2 ^ m * 2 * q := by omega
              _ = 2 ^ m * (2 * q + 1) := by rw [Nat.mul_add, Nat.mul_one, Nat.mul_assoc]; omega
              _ ≤ 2 ^ m * (2 * 2 ^ (M - m - 1)) := Nat.mul_le_mul_left _ (by omega)
          have hb0 : (clr drop m k + 2 ^ m * 2 * q) / 2 ^ m % 2 = 0 := by
            rw [Nat.mul_assoc, Nat.add_mul_div_left _ _ hP, Nat.div_eq_of_lt hc]
            omega
          rw [hper _ hx hb0]
          congr 1
          rw [Nat.mul_add, Nat.mul_one, Nat.mul_assoc]
          omega
      · simp only [Bool.not_eq_true] at hd
        simp only [hd, Bool.not_false, Bool.true_and, hbit]
        rcases (by omega : r = 0 ∨ r = 1) with h0 | h1
        · rw [h0]; simp [Nat.mul_assoc]
        · rw [h1]
          simp only [decide_true, if_true]
          congr 1
          rw [Nat.mul_add, Nat.mul_one, Nat.mul_assoc]
          omega
  have := key M (Nat.le_refl M)
  rwa [Nat.div_eq_of_lt hk, Nat.mul_zero, Nat.add_zero] at this

/-! ### `_simplify` in closed form and the full statement -/

/-- is control position `j` dropped for the list `mux` of length `2^m`? -/
def dropJ (eqv : Mat2 α → Mat2 α → Bool) (mux : Nat → Mat2 α) (m j : Nat) : Bool :=
  dropDec eqv mux (2 ^ m) (2 ^ j)

theorem pow_mem_range (m j : Nat) (hj : j < m) : 2 ^ j ∈ range' 1 (2 ^ m / 2) := by
  rw [List.mem_range'_1]
  have h1 : 0 < 2 ^ j := pow_pos2 j
  have h2 : 2 ^ m = 2 * 2 ^ (m - 1) := by rw [← Nat.pow_succ']; congr 1; omega
  have h3 : 2 ^ j ≤ 2 ^ (m - 1) := Nat.pow_le_pow_right (by omega) (by omega)
  omega

theorem dropDec_pow (eqv : Mat2 α → Mat2 α → Bool) (mux : Nat → Mat2 α) (len i : Nat)
    (h : dropDec eqv mux len i = true) : 2 ^ Nat.log2 i = i := by
  unfold dropDec at h
  simp only [Bool.and_eq_true] at h
  simpa [isPow2] using h.1.1.1

/-- `_simplify` of a list with `2^m` entries: the kept indices are `keptL`, `dont_carry` has no
repetitions and consists of the wires `(n - level) + j + 1` of the dropped positions `j < m`. -/
theorem simplify_closed (eqv : Mat2 α → Mat2 α → Bool) (mux : Nat → Mat2 α) (m n level : Nat) :
    (simplify eqv mux (2 ^ m) n level).2 = keptL (dropJ eqv mux m) m
    ∧ (∀ x, x ∈ (simplify eqv mux (2 ^ m) n level).1 ↔
        ∃ j, j < m ∧ dropJ eqv mux m j = true ∧ x = (n - level) + j + 1)
    ∧ (simplify eqv mux (2 ^ m) n level).1.Nodup := by
  unfold simplify
  by_cases hm : 2 ^ m > 1
  · rw [if_pos hm]
    dsimp only
    unfold repSearch
    have hpos : ∀ i ∈ range' 1 (2 ^ m / 2), 0 < i := by
      intro i hi; rw [List.mem_range'_1] at hi; omega
    obtain ⟨h1, h2⟩ := repFold_eq eqv mux (2 ^ m) (n - level) (range' 1 (2 ^ m / 2)) (fun _ => true, []) hpos
    refine ⟨?_, ?_, ?_⟩
    · unfold keptL
      apply List.filter_congr
      intro k hk
      rw [List.mem_range] at hk
      rw [h2 k, Bool.true_and]
      apply Bool.eq_iff_iff.2
      simp only [List.all_eq_true, List.mem_range, Bool.not_eq_true', Bool.and_eq_false_iff,
        decide_eq_false_iff_not]
      constructor
      · intro h j hj
        rcases h (2 ^ j) (pow_mem_range m j hj) with h | h
        · left; exact h
        · right
          cases hb : k.testBit j with
          | false => rfl
          | true =>
            exfalso; apply h
            refine ⟨Nat.zero_le _, ?_, ?_⟩
            · rw [full_len m j hj, Nat.zero_add]; exact hk
            · rw [testBit_eq] at hb
              simpa using hb
      · intro h i hi
        by_cases hd : dropDec eqv mux (2 ^ m) i = true
        · right
          have hp := dropDec_pow eqv mux _ i hd
          have hi2 : i ≤ 2 ^ m / 2 := by rw [List.mem_range'_1] at hi; omega
          rw [← hp] at hi2
          have hj := stride_lt m _ hi2
          rcases h (Nat.log2 i) hj with h' | h'
          · unfold dropJ at h'
            rw [hp, hd] at h'
            exact absurd h' (by simp)
          · intro hu
            have h3 := hu.2.2
            rw [Nat.sub_zero, ← hp] at h3
            have h4 : k.testBit (Nat.log2 i) = true := by rw [testBit_eq]; simpa using h3
            rw [h'] at h4
            exact absurd h4 (by simp)
        · left; simpa using hd
    · intro x
      rw [h1]
      simp only [List.nil_append, List.mem_map, List.mem_filter]
      constructor
      · rintro ⟨i, ⟨hi, hd⟩, rfl⟩
        have hp := dropDec_pow eqv mux _ i hd
        have hi2 : i ≤ 2 ^ m / 2 := by rw [List.mem_range'_1] at hi; omega
        rw [← hp] at hi2
        refine ⟨Nat.log2 i, stride_lt m _ hi2, ?_, rfl⟩
        unfold dropJ
        rw [hp, hd]
      · rintro ⟨j, hj, hd, rfl⟩
        refine ⟨2 ^ j, ⟨pow_mem_range m j hj, hd⟩, ?_⟩
        rw [Nat.log2_two_pow]
    · rw [h1, List.nil_append]
      apply List.Nodup.map_on
      · intro a ha b hb hab
        rw [List.mem_filter] at ha hb
        have h3 := dropDec_pow eqv mux _ a ha.2
        have h4 := dropDec_pow eqv mux _ b hb.2
        have : Nat.log2 a = Nat.log2 b := by omega
        rw [← h3, ← h4, this]
      · exact List.Nodup.filter _ (List.nodup_range' 1)
  · rw [if_neg hm]
    have hm0 : m = 0 := by
      rcases Nat.eq_zero_or_pos m with h | h
      · exact h
      · exact absurd (Nat.one_lt_two_pow (by omega)) hm
    subst hm0
    refine ⟨by simp [keptL], fun x => ?_, List.nodup_nil⟩
    simp

/-- **`_simplify`, full statement (proof level).**  For a multiplexer list of length `2^m` handled
at `tree_level = m + 1 ≤ n`: the positions `ctrl_qc` of the kept controls are the kept bit
positions in increasing order, the kept indices are `keptL`, and the filtered list read through
the kept control bits of `k` is `mux k`, for every `k < 2^m`. -/
theorem simplify_gather (o : COps α) (eqv : Mat2 α → Mat2 α → Bool) (hs : EqvSound eqv)
    (mux : Nat → Mat2 α) (m n level : Nat) (hlev : level = m + 1) (hn : level ≤ n) :
    let s := simplify eqv mux (2 ^ m) n level
    let controls := keptControls (ctrlTarg n level).1 s.1
    let pos := ctrlQc n (s.1.length + controls.length) controls
    pos = posL (dropJ eqv mux m) m ∧ s.1.length + controls.length = m ∧
      ∀ k, k < 2 ^ m → newMux o mux s.2 (gather pos k) = mux k := by
  intro s controls pos
  obtain ⟨hk, hmem, hnd⟩ := simplify_closed eqv mux m n level
  have hold : (ctrlTarg n level).1 = (range m).map (fun j => (n - level) + 1 + j) := by
    unfold ctrlTarg
    dsimp only
    rw [show n - (n - level + 1) = m by omega, List.range'_eq_map_range]
  have hctl : controls = ((range m).filter (fun j => !dropJ eqv mux m j)).map (fun j => (n - level) + 1 + j) := by
    show keptControls _ _ = _
    unfold keptControls
    rw [hold, List.filter_map]
    congr 1
    apply List.filter_congr
    intro j hj
    rw [List.mem_range] at hj
    simp only [Function.comp]
    congr 1
    apply Bool.eq_iff_iff.2
    rw [List.contains_iff_mem, hmem]
    constructor
    · rintro ⟨j', _, hd, he⟩
      have : j' = j := by omega
      rw [← this]; exact hd
    · intro hd; exact ⟨j, hj, hd, by omega⟩
  have hperm : List.Perm s.1 (((range m).filter (dropJ eqv mux m)).map (fun j => (n - level) + j + 1)) := by
    rw [List.perm_ext_iff_of_nodup hnd]
    · intro x
      rw [hmem x]
      simp only [List.mem_map, List.mem_filter, List.mem_range]
      constructor
      · rintro ⟨j, hj, hd, rfl⟩; exact ⟨j, ⟨hj, hd⟩, rfl⟩
      · rintro ⟨j, ⟨hj, hd⟩, rfl⟩; exact ⟨j, hj, hd, rfl⟩
    · apply List.Nodup.map_on
      · intro a _ b _ hab; omega
      · exact List.Nodup.filter _ List.nodup_range
  have hlen : s.1.length + controls.length = m := by
    rw [hperm.length_eq, hctl, List.length_map, List.length_map]
    have := List.length_eq_length_filter_add (l := range m) (dropJ eqv mux m)
    rw [List.length_range] at this
    exact this.symm
  have hpos : pos = posL (dropJ eqv mux m) m := by
    show ctrlQc n (s.1.length + controls.length) controls = _
    rw [hlen, hctl]
    unfold ctrlQc posL
    rw [List.map_map]
    conv_rhs => rw [← List.map_id (filter _ _)]
    apply List.map_congr_left
    intro j _
    simp only [Function.comp, id]
    omega
  refine ⟨hpos, hlen, fun k hk2 => ?_⟩
  rw [hpos]
  show newMux o mux (simplify eqv mux (2 ^ m) n level).2 _ = _
  rw [hk]
  unfold newMux
  rw [keptL_gather]
  dsimp only
  apply mux_clr mux _ m _ k hk2
  intro j hj hd
  obtain ⟨j', hx, _, hp⟩ := simplify_dropped eqv hs mux m n level ((n - level) + j + 1)
    ((hmem _).2 ⟨j, hj, hd, rfl⟩)
  have : j' = j := by omega
  rw [← this]; exact hp

end Qclib.Ucg
