import QclibModel.Proofs.SchmidtOptimalFin
import QclibModel.Proofs.SchmidtOptimalReindex
/-
  C07, optimality at the level of state vectors: the overlap of two vectors is the entry-wise
  inner product of their bipartition matrices (re-indexing by `sepIndexAx`/`undoIndexAx`), so the
  matrix bound `optimal_rank` bounds `|⟨v|t⟩|²` for every vector `t` of Schmidt rank `≤ r`.
-/
namespace Qclib.Schmidt

variable {𝕜 : Type} [RCLike 𝕜]

theorem optimal_state {n : ℕ} {src : List ℕ} (hv : ValidAxes n src) (v t : ℕ → 𝕜) (k r : ℕ)
    (hrk : r ≤ k) (U V : ℕ → ℕ → 𝕜) (s : ℕ → ℝ)
    (hU : ∀ i j, i < k → j < k →
      gramCols (2 ^ (n - src.length)) U i j = if i = j then 1 else 0)
    (hV : ∀ i j, i < k → j < k → gramRows (2 ^ src.length) V i j = if i = j then 1 else 0)
    (hs : ∀ i j, i ≤ j → j < k → s j ≤ s i) (hs0 : ∀ i, i < k → 0 ≤ s i)
    (hsvd : ∀ x y, x < 2 ^ (n - src.length) → y < 2 ^ src.length →
      sepMat n src v x y = composeMat k U (fun i => (s i : 𝕜)) V x y)
    (a b : ℕ → ℕ → 𝕜)
    (ht : ∀ x y, x < 2 ^ (n - src.length) → y < 2 ^ src.length →
      sepMat n src t x y = sumOuter r a b x y) :
    ‖sumTo (2 ^ n) (fun i => star (v i) * t i)‖ ^ 2
      ≤ sumTo r (fun i => s i ^ 2) * sumTo (2 ^ n) (fun i => ‖t i‖ ^ 2) := by
  rw [sumTo_inner_sepMat hv, inner2_congr _ _ _ (composeMat k U (fun i => (s i : 𝕜)) V) _
    (sumOuter r a b) hsvd ht, norm_inner2_symm]
  have hF : sumTo (2 ^ n) (fun i => ‖t i‖ ^ 2)
      = sumTo (2 ^ (n - src.length)) (fun x => sumTo (2 ^ src.length) (fun y =>
          ‖sumOuter r a b x y‖ ^ 2)) := by
    rw [sumTo_sep_reindex hv]
    refine sumTo_congr _ _ _ (fun x hx => sumTo_congr _ _ _ (fun y hy => ?_))
    rw [← ht x y hx hy]
    rfl
  rw [hF]
  exact optimal_rank _ _ k r hrk U V s hU hV hs hs0 a b

end Qclib.Schmidt
