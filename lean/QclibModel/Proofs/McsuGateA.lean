import QclibModel.Proofs.McsuCore
import QclibModel.Model.Mcsu
import Mathlib.Analysis.Real.Sqrt
import Mathlib.Data.Complex.Basic
import Mathlib.Tactic.Ring
import Mathlib.Tactic.LinearCombination
import Mathlib.Tactic.FieldSimp
import Mathlib.Tactic.Linarith
/-
  `Ldmcsu._compute_gate_a` over the reals (C04_gate_a): the nested square roots are two half-angle
  steps, the gate is special unitary and its fourth power is `[[z, -x], [x, conj z]]`, so that
  `(A† X A X)² = (A†)⁴ = [[conj z, x], [-x, z]]`.
-/
namespace Qclib.Mcsu
open Complex

/-- The real instance of the scalar operations: `Real.sqrt`, exact tests.  The principal fourth
root and the half-angle cosine/sine are parameters (specified where used).  `close` is moot in
exact arithmetic (the emitted matrices are proved unitary). -/
noncomputable def realOps (r4 : ℝ → ℝ → ℝ × ℝ) (cosH sinH : ℝ → ℝ) : ROps ℝ where
  zero := 0
  one := 1
  two := 2
  add := (· + ·)
  sub := (· - ·)
  mul := (· * ·)
  div := (· / ·)
  neg := fun x => -x
  sqrt := Real.sqrt
  cosH := cosH
  sinH := sinH
  root4 := r4
  isZero := fun x => decide (x = 0)
  isNeg := fun x => decide (x < 0)
  close := fun _ _ _ => true

/-- Pairs of reals as complex numbers. -/
def toC (z : Cx ℝ) : ℂ := ⟨z.re, z.im⟩
def toMat (m : CMat ℝ) : Mat2 ℂ := ⟨toC m.a, toC m.b, toC m.c, toC m.d⟩

/-- Conjugate transpose of a complex 2×2 matrix. -/
def adjC (m : Mat2 ℂ) : Mat2 ℂ :=
  ⟨(starRingEnd ℂ) m.a, (starRingEnd ℂ) m.c, (starRingEnd ℂ) m.b, (starRingEnd ℂ) m.d⟩

/-- `[[α, -β], [β, conj α]]` with `α = P + iQ` and `β = X` real. -/
def Mm (P Q X : ℝ) : Mat2 ℂ := ⟨⟨P, Q⟩, ⟨-X, 0⟩, ⟨X, 0⟩, ⟨P, -Q⟩⟩

theorem adjC_Mm (P Q X : ℝ) : adjC (Mm P Q X) = Mm P (-Q) (-X) := by
  apply Mat2.ext' <;> apply Complex.ext <;> simp [adjC, Mm]

theorem Mm_sq (P Q X : ℝ) :
    Mm P Q X * Mm P Q X = Mm (P ^ 2 - Q ^ 2 - X ^ 2) (2 * P * Q) (2 * X * P) := by
  apply Mat2.ext' <;> apply Complex.ext <;> simp [mat_mul_def, Mat2.mul, Mm] <;> ring

theorem Mm_unitary (P Q X : ℝ) (h : P ^ 2 + Q ^ 2 + X ^ 2 = 1) :
    Mm P Q X * Mm P (-Q) (-X) = 1 := by
  apply Mat2.ext' <;> apply Complex.ext <;>
    simp [mat_mul_def, mat_one_def, Mat2.one, Mat2.mul, Mm] <;>
    first | linear_combination h | ring

/-- `X · M · X = M†` for this shape, hence `M† X M X = M† M†`. -/
theorem Mm_conjX (P Q X : ℝ) :
    (Mat2.X : Mat2 ℂ) * Mm P Q X * Mat2.X = Mm P (-Q) (-X) := by
  apply Mat2.ext' <;> apply Complex.ext <;> simp [mat_mul_def, Mat2.mul, Mm, Mat2.X]

/-! ### One half-angle step -/

theorem half_step (p q x : ℝ) (hn : p ^ 2 + q ^ 2 + x ^ 2 = 1) (hs : 0 < p + 1) :
    let c := Real.sqrt ((p + 1) / 2)
    let d := Real.sqrt (2 * (p + 1))
    0 < c ∧ c ^ 2 - (q / d) ^ 2 - (x / d) ^ 2 = p ∧ 2 * c * (q / d) = q ∧ 2 * (x / d) * c = x
      ∧ c ^ 2 + (q / d) ^ 2 + (x / d) ^ 2 = 1 := by
  intro c d
  have hc2 : c ^ 2 = (p + 1) / 2 := Real.sq_sqrt (by linarith)
  have hc : 0 < c := Real.sqrt_pos.mpr (by linarith)
  have hd : d = 2 * c := by
    rw [Real.sqrt_eq_iff_eq_sq (by linarith) (by linarith), mul_pow, hc2]; ring
  have hc0 : c ≠ 0 := ne_of_gt hc
  rw [hd]
  refine ⟨hc, ?_, ?_, ?_, ?_⟩
  · field_simp
    linear_combination (4 * c ^ 2 + 2 * (1 - p)) * hc2 - hn
  · field_simp
  · field_simp
  · field_simp
    linear_combination (4 * c ^ 2 + 2 * (1 + p) - 4) * hc2 + hn

/-- In exact arithmetic the point where the code divides by zero (`Re z = -1` with `x ≠ 0`) is
not reachable by a normalised pair: `x ≠ 0` and `x² + |z|² = 1` force `Re z > -1`. -/
theorem re_gt_of_x_ne (x p q : ℝ) (hn : p ^ 2 + q ^ 2 + x ^ 2 = 1) (hx : x ≠ 0) : 0 < p + 1 := by
  have hx2 : 0 < x ^ 2 := by positivity
  nlinarith [sq_nonneg q, sq_nonneg (p - 1)]

/-! ### The scale-safe `hypot` of the model over the reals -/

theorem absK_real (r4 : ℝ → ℝ → ℝ × ℝ) (cosH sinH : ℝ → ℝ) (a : ℝ) :
    absK (realOps r4 cosH sinH) a = |a| := by
  by_cases h : a < 0
  · simp [absK, realOps, h, abs_of_neg h]
  · simp [absK, realOps, h, abs_of_nonneg (not_lt.mp h)]

theorem hyp_aux (m n : ℝ) (hm : 0 < m) :
    m * Real.sqrt (1 + n / m * (n / m)) = Real.sqrt (m * m + n * n) := by
  rw [show m * m + n * n = (m * m) * (1 + n / m * (n / m)) by field_simp]
  rw [Real.sqrt_mul (mul_self_nonneg m), Real.sqrt_mul_self hm.le]

theorem hypotK_real (r4 : ℝ → ℝ → ℝ × ℝ) (cosH sinH : ℝ → ℝ) (a b : ℝ) :
    hypotK (realOps r4 cosH sinH) a b = Real.sqrt (a * a + b * b) := by
  have ha : |a| * |a| = a * a := abs_mul_abs_self a
  have hb : |b| * |b| = b * b := abs_mul_abs_self b
  unfold hypotK
  simp only [absK_real]
  by_cases hsw : |a| - |b| < 0
  · have hbpos : 0 < |b| := by linarith [abs_nonneg a]
    simp only [realOps, hsw, decide_true, if_true, ne_of_gt hbpos, decide_false, Bool.false_eq_true, if_false]
    rw [hyp_aux _ _ hbpos, hb, ha, add_comm]
  · simp only [realOps, hsw, decide_false, Bool.false_eq_true, if_false]
    by_cases hz : |a| = 0
    · have hb0 : |b| = 0 := le_antisymm (by linarith [not_lt.mp hsw]) (abs_nonneg b)
      have a0 : a = 0 := abs_eq_zero.mp hz
      have b0 : b = 0 := abs_eq_zero.mp hb0
      simp [a0, b0]
    · have hapos : 0 < |a| := lt_of_le_of_ne (abs_nonneg a) (Ne.symm hz)
      simp only [hz, decide_false, Bool.false_eq_true, if_false]
      rw [hyp_aux _ _ hapos, ha, hb]

/-- `root` of `_compute_gate_a` is `sqrt(1 + Re z)` on a normalised pair, on either side of the
`Re z < 0` test. -/
theorem root_real (r4 : ℝ → ℝ → ℝ × ℝ) (cosH sinH : ℝ → ℝ) (x p q : ℝ)
    (hn : p ^ 2 + q ^ 2 + x ^ 2 = 1) :
    (if (realOps r4 cosH sinH).isNeg p then
        (realOps r4 cosH sinH).div (hypotK (realOps r4 cosH sinH) x q)
          ((realOps r4 cosH sinH).sqrt ((realOps r4 cosH sinH).sub (realOps r4 cosH sinH).one p))
      else (realOps r4 cosH sinH).sqrt ((realOps r4 cosH sinH).add p (realOps r4 cosH sinH).one))
      = Real.sqrt (p + 1) := by
  by_cases hp : p < 0
  · have hneg : (realOps r4 cosH sinH).isNeg p = true := by simp [realOps, hp]
    rw [if_pos hneg, hypotK_real]
    show Real.sqrt (x * x + q * q) / Real.sqrt (1 - p) = Real.sqrt (p + 1)
    rw [← Real.sqrt_div (add_nonneg (mul_self_nonneg x) (mul_self_nonneg q))]
    congr 1
    have h1 : 1 - p ≠ 0 := by linarith
    field_simp
    linear_combination hn
  · have hneg : ¬ (realOps r4 cosH sinH).isNeg p = true := by simp [realOps, hp]
    rw [if_neg hneg]
    rfl

/-- The general branch of `_compute_gate_a` as two half-angle steps. -/
theorem computeGateA_eq (r4 : ℝ → ℝ → ℝ × ℝ) (cosH sinH : ℝ → ℝ) (x p q : ℝ) (hx : x ≠ 0)
    (hn : p ^ 2 + q ^ 2 + x ^ 2 = 1) (hs : 0 < p + 1) :
    let c := Real.sqrt ((p + 1) / 2)
    let d := Real.sqrt (2 * (p + 1))
    let d2 := Real.sqrt (2 * (c + 1))
    toMat (computeGateA (realOps r4 cosH sinH) x ⟨p, q⟩)
      = Mm (Real.sqrt ((c + 1) / 2)) (q / d / d2) (x / d / d2) := by
  intro c d d2
  have hc : 0 ≤ c := Real.sqrt_nonneg _
  have hrpos : 0 < Real.sqrt (p + 1) := Real.sqrt_pos.mpr hs
  have hhalf : Real.sqrt (p + 1) / Real.sqrt 2 + 1 = c + 1 := by
    rw [← Real.sqrt_div (by linarith)]
  have hden : 2 * Real.sqrt (p + 1) * Real.sqrt (c + 1) = d * d2 := by
    show _ = Real.sqrt (2 * (p + 1)) * Real.sqrt (2 * (c + 1))
    rw [Real.sqrt_mul (by norm_num), Real.sqrt_mul (by norm_num)]
    have h2 : Real.sqrt 2 * Real.sqrt 2 = 2 := Real.mul_self_sqrt (by norm_num)
    linear_combination (-(Real.sqrt (p + 1) * Real.sqrt (c + 1))) * h2
  have e1 : q / (2 * Real.sqrt (p + 1) * Real.sqrt (c + 1)) = q / d / d2 := by rw [hden, div_div]
  have e2 : x / (2 * Real.sqrt (p + 1) * Real.sqrt (c + 1)) = x / d / d2 := by rw [hden, div_div]
  have hne : Real.sqrt (p + 1) ≠ 0 := ne_of_gt hrpos
  unfold computeGateA
  dsimp only
  rw [root_real r4 cosH sinH x p q hn]
  simp only [realOps, hx, hne, decide_false, Bool.false_eq_true, if_false, hhalf, sMat, toMat, toC,
    Cx.conj, Mm]
  apply Mat2.ext' <;> apply Complex.ext <;>
    first | rfl | exact e1 | exact e2 | exact congrArg Neg.neg e1 | exact congrArg Neg.neg e2

/-- **`_compute_gate_a`, general branch.**  For real `x ≠ 0` and `z = p + iq` with
`x² + |z|² = 1`: the matrix `A` is unitary, and the both-halves-fire product of
`linear_depth_mcv`, `(A† X A X)²`, is `[[conj z, x], [-x, z]]`. -/
theorem gate_a_general (r4 : ℝ → ℝ → ℝ × ℝ) (cosH sinH : ℝ → ℝ) (x p q : ℝ)
    (hn : x ^ 2 + (p ^ 2 + q ^ 2) = 1) (hx : x ≠ 0) :
    let A := toMat (computeGateA (realOps r4 cosH sinH) x ⟨p, q⟩)
    A * adjC A = 1 ∧ adjC A * A = 1 ∧ coreW A (adjC A) = ⟨⟨p, -q⟩, ⟨x, 0⟩, ⟨-x, 0⟩, ⟨p, q⟩⟩ := by
  have hn' : p ^ 2 + q ^ 2 + x ^ 2 = 1 := by linarith
  have hs := re_gt_of_x_ne x p q hn' hx
  obtain ⟨hc, s1, s2, s3, s4⟩ := half_step p q x hn' hs
  set c := Real.sqrt ((p + 1) / 2) with hcdef
  set d := Real.sqrt (2 * (p + 1)) with hddef
  have hs' : 0 < c + 1 := by linarith
  obtain ⟨hc', t1, t2, t3, t4⟩ := half_step c (q / d) (x / d) s4 hs'
  set c' := Real.sqrt ((c + 1) / 2) with hc'def
  set d2 := Real.sqrt (2 * (c + 1)) with hd2def
  intro A
  have hA : A = Mm c' (q / d / d2) (x / d / d2) := computeGateA_eq r4 cosH sinH x p q hx hn' hs
  have hsq1 : ∀ s : ℝ, s ^ 2 = 1 →
      Mm c' (s * (q / d / d2)) (s * (x / d / d2)) * Mm c' (s * (q / d / d2)) (s * (x / d / d2))
        = Mm c (s * (q / d)) (s * (x / d)) := by
    intro s hs2
    rw [Mm_sq]
    congr 1
    · linear_combination t1 + (-(q / d / d2) ^ 2 - (x / d / d2) ^ 2) * hs2
    · linear_combination s * t2
    · linear_combination s * t3
  have hsq2 : ∀ s : ℝ, s ^ 2 = 1 →
      Mm c (s * (q / d)) (s * (x / d)) * Mm c (s * (q / d)) (s * (x / d)) = Mm p (s * q) (s * x) := by
    intro s hs2
    rw [Mm_sq]
    congr 1
    · linear_combination s1 + (-(q / d) ^ 2 - (x / d) ^ 2) * hs2
    · linear_combination s * s2
    · linear_combination s * s3
  have hadj : adjC A = Mm c' (-(q / d / d2)) (-(x / d / d2)) := by rw [hA, adjC_Mm]
  refine ⟨?_, ?_, ?_⟩
  · rw [hadj, hA]; exact Mm_unitary _ _ _ t4
  · rw [hadj, hA]
    have := Mm_unitary c' (-(q / d / d2)) (-(x / d / d2)) (by linear_combination t4)
    simpa using this
  · have hx1 : adjC A * Mat2.X * A * Mat2.X = adjC A * adjC A := by
      rw [mat_mul_assoc, mat_mul_assoc, ← mat_mul_assoc Mat2.X A, hA, Mm_conjX, ← adjC_Mm, ← hA]
    unfold coreW
    rw [hx1, hadj]
    have h1 := hsq1 (-1) (by norm_num)
    have h2 := hsq2 (-1) (by norm_num)
    simp only [neg_mul, one_mul] at h1 h2
    rw [h1, h2]
    apply Mat2.ext' <;> apply Complex.ext <;> simp [Mm]

/-! ### The branch `x = 0` -/

/-- **`_compute_gate_a`, branch `x = 0`** (`alpha = z ** (1/4)`, `beta = 0`): from the
specification `alpha⁴ = z` of the fourth root and `|z| = 1`, the matrix is unitary and
`(A† X A X)² = [[conj z, 0], [0, z]]`.  (`z = -1`, i.e. `U = -I`, is included: it takes this
branch, not the division.) -/
theorem gate_a_diag (r4 : ℝ → ℝ → ℝ × ℝ) (cosH sinH : ℝ → ℝ) (p q : ℝ)
    (hn : p ^ 2 + q ^ 2 = 1)
    (hr : (⟨(r4 p q).1, (r4 p q).2⟩ : ℂ) ^ 4 = ⟨p, q⟩) :
    let A := toMat (computeGateA (realOps r4 cosH sinH) 0 ⟨p, q⟩)
    A * adjC A = 1 ∧ adjC A * A = 1 ∧ coreW A (adjC A) = ⟨⟨p, -q⟩, 0, 0, ⟨p, q⟩⟩ := by
  intro A
  set a := (r4 p q).1 with ha
  set b := (r4 p q).2 with hb
  have hA : A = Mm a b 0 := by
    simp only [A, computeGateA, realOps, decide_true, if_true, sMat, toMat, toC, Cx.conj, Mm]
    apply Mat2.ext' <;> apply Complex.ext <;> simp [a, b]
  -- |alpha|^2 = 1
  have hre : (a ^ 2 - b ^ 2) ^ 2 - (2 * a * b) ^ 2 = p := by
    have := congrArg Complex.re hr
    simp only [pow_succ, pow_zero, one_mul, Complex.mul_re, Complex.mul_im] at this
    linear_combination this
  have him : 2 * (a ^ 2 - b ^ 2) * (2 * a * b) = q := by
    have := congrArg Complex.im hr
    simp only [pow_succ, pow_zero, one_mul, Complex.mul_re, Complex.mul_im] at this
    linear_combination this
  have hmod : a ^ 2 + b ^ 2 = 1 := by
    have h4 : (a ^ 2 + b ^ 2) ^ 4 = 1 := by
      have : (a ^ 2 + b ^ 2) ^ 4 = ((a ^ 2 - b ^ 2) ^ 2 - (2 * a * b) ^ 2) ^ 2
          + (2 * (a ^ 2 - b ^ 2) * (2 * a * b)) ^ 2 := by ring
      rw [this, hre, him, hn]
    have hnn : 0 ≤ a ^ 2 + b ^ 2 := by positivity
    exact (pow_eq_one_iff_of_nonneg hnn (by norm_num)).mp h4
  have hadj : adjC A = Mm a (-b) (-0) := by rw [hA, adjC_Mm]
  refine ⟨?_, ?_, ?_⟩
  · rw [hadj, hA]; exact Mm_unitary _ _ _ (by linear_combination hmod)
  · rw [hadj, hA]
    have := Mm_unitary a (-b) (-0) (by linear_combination hmod)
    simpa using this
  · have hx1 : adjC A * Mat2.X * A * Mat2.X = adjC A * adjC A := by
      rw [mat_mul_assoc, mat_mul_assoc, ← mat_mul_assoc Mat2.X A, hA, Mm_conjX, ← adjC_Mm, ← hA]
    unfold coreW
    rw [hx1, hadj, Mm_sq, Mm_sq]
    apply Mat2.ext' <;> apply Complex.ext <;> simp [Mm] <;>
      first | linear_combination hre | linear_combination -him | linear_combination him

/-! ### `_get_x_z` and the Hadamard conjugation -/

/-- An SU(2) matrix `[[a, b], [-conj b, conj a]]` as pairs of reals. -/
def su2Mat (ar ai br bi : ℝ) : CMat ℝ := ⟨⟨ar, ai⟩, ⟨br, bi⟩, ⟨-br, bi⟩, ⟨ar, -ai⟩⟩

/-- The target `[[conj z, x], [-x, z]]` of `linear_depth_mcv` for the pair `(x, z)`. -/
def wMat (x : ℝ) (z : Cx ℝ) : Mat2 ℂ := ⟨⟨z.re, -z.im⟩, ⟨x, 0⟩, ⟨-x, 0⟩, ⟨z.re, z.im⟩⟩

/-- Secondary diagonal real (`b` real): `_get_x_z` returns `(U₀₁, U₁₁)` and `U` itself is
`[[conj z, x], [-x, z]]`. -/
theorem get_x_z_secondary (r4 : ℝ → ℝ → ℝ × ℝ) (cosH sinH : ℝ → ℝ) (ar ai br : ℝ) :
    let u := su2Mat ar ai br 0
    let xz := getXZ (realOps r4 cosH sinH) u
    xz = (br, ⟨ar, -ai⟩) ∧ toMat u = wMat xz.1 xz.2 ∧ xz.1 ^ 2 + (xz.2.re ^ 2 + xz.2.im ^ 2) = ar ^ 2 + ai ^ 2 + br ^ 2 := by
  intro u xz
  have h : xz = (br, ⟨ar, -ai⟩) := by
    simp [xz, u, getXZ, secondaryReal, realOps, su2Mat]
  refine ⟨h, ?_, ?_⟩
  · rw [h]; apply Mat2.ext' <;> apply Complex.ext <;> simp [toMat, toC, u, su2Mat, wMat]
  · rw [h]; ring

/-- **Hadamard conjugation.**  Main diagonal real (`a` real) and secondary diagonal not real:
`_get_x_z` returns `(-Re U₀₁, U₁₁ - i·Im U₀₁)`, and `H·U·H = [[conj z, x], [-x, z]]` for that pair
(so the H sandwich of `_define` reduces this case to the previous one); `x² + |z|² = |a|² + |b|²`. -/
theorem h_conj (r4 : ℝ → ℝ → ℝ × ℝ) (cosH sinH : ℝ → ℝ) (ar br bi : ℝ) (hb : bi ≠ 0)
    (rh : ℂ) (hrh : 2 * (rh * rh) = 1) :
    let u := su2Mat ar 0 br bi
    let xz := getXZ (realOps r4 cosH sinH) u
    let H : Mat2 ℂ := ⟨rh, rh, rh, -rh⟩
    xz = (-br, ⟨ar, -bi⟩) ∧ H * toMat u * H = wMat xz.1 xz.2
      ∧ xz.1 ^ 2 + (xz.2.re ^ 2 + xz.2.im ^ 2) = ar ^ 2 + (br ^ 2 + bi ^ 2) := by
  intro u xz H
  have h : xz = (-br, ⟨ar, -bi⟩) := by
    simp [xz, u, getXZ, secondaryReal, realOps, su2Mat, hb]
  refine ⟨h, ?_, ?_⟩
  · rw [h]
    have e : ∀ w : ℂ, rh * w * rh = w * (rh * rh) := fun w => by ring
    have hrr : rh * rh = 1 / 2 := by
      have : (2 : ℂ) ≠ 0 := two_ne_zero
      field_simp; linear_combination hrh
    apply Mat2.ext' <;>
      simp only [mat_mul_def, Mat2.mul, H, toMat, toC, u, su2Mat, wMat] <;>
      ring_nf <;> rw [show rh ^ 2 = 1 / 2 by rw [sq]; exact hrr] <;>
      apply Complex.ext <;> simp <;> ring
  · rw [h]; ring

end Qclib.Mcsu
