import QclibModel.Proofs.WidthLinkCore
import QclibModel.Model.SparseCvo
import QclibModel.Model.SparsePivot
import QclibModel.Model.SparseMerge
/-
  C15 link, sparse generators — the gate lists of the executable models of `CvoqramInitialize`
  (Model/SparseCvo.lean) only touch wires below the width the class declares
  (`Widths.declaredWidth`), and which declared wires can stay idle.  `sgWires` is the executable
  "wires a gate mentions" of the sparse alphabet `SG α`.  Core Lean only.
  Helper names carry the prefixes `sparse_` / `cvo_`; PivotInitialize is in WidthLinkSparse2.lean.
-/
namespace Qclib
namespace WL
open Sparse

variable {α : Type}

/-- All wires a sparse-generator gate mentions (controls, target, borrowed wires). -/
def sgWires : SG α → List Nat
  | .x q => [q]
  | .cx c t _ => [c, t]
  | .rccx a b t => [a, b, t]
  | .u _ _ _ q => [q]
  | .cu _ _ _ c t => [c, t]
  | .mcu _ cs _ _ _ t => cs ++ [t]
  | .mcuX _ cs t => cs ++ [t]
  | .mcxd cs t dirty => cs ++ [t] ++ dirty
  | .dense ws _ => ws

theorem sparse_getD_eq_or_mem (l : List Nat) (i d : Nat) : l.getD i d = d ∨ l.getD i d ∈ l := by
  simp only [List.getD_eq_getElem?_getD]
  cases h : l[i]? with
  | none => left; rfl
  | some x => right; exact List.mem_of_getElem? h

/-! ### cvoqram -/

theorem sparse_mem_selectControls {s : Str} {k : Nat} :
    k ∈ selectControls s ↔ k < s.length ∧ bitAt s.reverse k = true := by
  simp only [selectControls, List.mem_filter, List.mem_range]

theorem cvo_flipFlop_below {n b : Nat} {aux : Bool} {control : List Nat}
    (hc : ∀ k ∈ control, k < b) :
    Below sgWires (memW n aux b) (flipFlop (α := α) n aux control) := by
  apply below_map
  intro k hk w hw
  have := hc k hk
  simp only [sgWires, List.mem_cons, List.not_mem_nil, or_false] at hw
  rcases hw with rfl | rfl <;> (simp only [memW]; split <;> omega)

theorem cvo_ladderDown_below {n b : Nat} (hn : 1 ≤ n) (hb : 1 ≤ b) :
    ∀ (cs : List Nat) (i : Nat), (∀ c ∈ cs, c < b) → i ≤ n →
      Below sgWires (n + b) (ladderDown (α := α) n cs i).1 ∧ (ladderDown (α := α) n cs i).2 ≤ i
  | [], i, _, _ => ⟨below_nil, Nat.le_refl _⟩
  | c :: cs, i, hc, hi => by
    have ih := cvo_ladderDown_below hn hb cs (i - 1) (fun c' h => hc c' (List.mem_cons_of_mem _ h)) (by omega)
    have hcb := hc c List.mem_cons_self
    simp only [ladderDown]
    refine ⟨below_cons.mpr ⟨?_, ih.1⟩, by omega⟩
    intro w hw
    simp only [sgWires, List.mem_cons, List.not_mem_nil, or_false] at hw
    rcases hw with rfl | rfl | rfl <;> simp only [memW, ancW, if_true] <;> omega

theorem cvo_mcuVchain_below {n b : Nat} (hn : 1 ≤ n) (hb : 1 ≤ b) {control : List Nat}
    (hc : ∀ k ∈ control, k < b) (θ φ lam : α) :
    Below sgWires (n + b) (mcuVchain n control θ φ lam) := by
  have hrev : ∀ c ∈ control.reverse, c < b := fun c h => hc c (List.mem_reverse.mp h)
  have hg : ∀ i, control.reverse.getD i 0 < b := by
    intro i
    rcases sparse_getD_eq_or_mem control.reverse i 0 with h | h
    · omega
    · exact hrev _ h
  have hd := cvo_ladderDown_below (α := α) hn hb (control.reverse.drop 2) (n - 1)
    (fun c h => hrev c (List.mem_of_mem_drop h)) (by omega)
  have hfirst : ∀ w ∈ sgWires (SG.rccx (α := α) (memW n true (control.reverse.getD 0 0))
      (memW n true (control.reverse.getD 1 0)) (ancW (n - 2))), w < n + b := by
    intro w hw
    have h0 := hg 0
    have h1 := hg 1
    simp only [sgWires, List.mem_cons, List.not_mem_nil, or_false] at hw
    rcases hw with rfl | rfl | rfl <;> simp only [memW, ancW, if_true] <;> omega
  simp only [mcuVchain]
  refine below_append.mpr ⟨below_append.mpr ⟨below_append.mpr ⟨below_append.mpr
    ⟨below_singleton.mpr hfirst, hd.1⟩, below_singleton.mpr ?_⟩, below_reverse.mpr hd.1⟩,
    below_singleton.mpr hfirst⟩
  intro w hw
  have := hd.2
  simp only [sgWires, List.mem_cons, List.not_mem_nil, or_false] at hw
  rcases hw with rfl | rfl <;> (try simp only [ancW]) <;> omega

theorem cvo_loadGates_below {n b : Nat} (hn : 1 ≤ n) {aux : Bool} (method : String)
    {control : List Nat} (hc : ∀ k ∈ control, k < b) (θ φ lam : α) :
    Below sgWires (memW n aux b) (loadGates n aux method control θ φ lam) := by
  have h0 : 0 < memW n aux b := by simp only [memW]; split <;> omega
  match control, hc with
  | [], _ =>
    simp only [loadGates]
    apply below_singleton.mpr
    intro w hw
    simp only [sgWires, List.mem_cons, List.not_mem_nil, or_false] at hw
    omega
  | [c], hc =>
    have := hc c List.mem_cons_self
    simp only [loadGates]
    apply below_singleton.mpr
    intro w hw
    simp only [sgWires, List.mem_cons, List.not_mem_nil, or_false] at hw
    rcases hw with rfl | rfl
    · simp only [memW]; split <;> omega
    · exact h0
  | c1 :: c2 :: cs, hc =>
    have hb : 1 ≤ b := by have := hc c1 List.mem_cons_self; omega
    simp only [loadGates]
    split
    · rename_i haux
      subst haux
      simpa only [memW, if_true] using cvo_mcuVchain_below hn hb hc θ φ lam
    · apply below_singleton.mpr
      intro w hw
      simp only [sgWires, List.mem_append, List.mem_map, List.mem_singleton] at hw
      rcases hw with ⟨k, hk, rfl⟩ | rfl
      · have := hc k hk
        simp only [memW]; split <;> omega
      · exact h0

theorem cvo_loop_below [NumOps α] {n b : Nat} (hn : 1 ≤ n) (aux : Bool) (method : String) :
    ∀ (d : Dict α) (norm : α), (∀ kv ∈ d, ∀ k ∈ selectControls kv.1, k < b) →
      Below sgWires (memW n aux b) (cvoLoop n aux method d norm).1
  | [], _, _ => below_nil
  | (s, x) :: rest, norm, h => by
    have hs := h (s, x) List.mem_cons_self
    have ih := cvo_loop_below hn aux method rest (normNext x norm)
      (fun kv hkv => h kv (List.mem_cons_of_mem _ hkv))
    simp only [cvoLoop]
    refine below_append.mpr ⟨below_append.mpr ⟨below_append.mpr
      ⟨cvo_flipFlop_below hs, cvo_loadGates_below hn method hs _ _ _⟩, ?_⟩, ih⟩
    split
    · exact below_nil
    · exact cvo_flipFlop_below hs

theorem sparse_bitAt_reverse_last {s : Str} {n : Nat} (hs : s.length = n) (hn : 1 ≤ n) :
    bitAt s.reverse (n - 1) = bitAt s 0 := by
  subst hs
  simp only [bitAt, List.getD_eq_getElem?_getD]
  rw [List.getElem?_reverse (by omega)]
  congr 2
  omega

theorem cvo_width_eq {n : Nat} (hn : 1 ≤ n) (aux : Bool) :
    Widths.declaredWidth .cvoqram { n := n, aux := aux } = memW n aux n := by
  simp only [Widths.declaredWidth, memW]
  cases aux <;> simp <;> omega

theorem cvo_width_pred_eq {n : Nat} (hn : 1 ≤ n) (aux : Bool) :
    Widths.declaredWidth .cvoqram { n := n, aux := aux } - 1 = memW n aux (n - 1) := by
  simp only [Widths.declaredWidth, memW]
  cases aux <;> simp <;> omega

/-- **cvoqram, soundness.**  For every key length `n ≥ 1`, both settings of `with_aux`, every
back-end name and every dictionary whose keys all have `n` characters, every gate of the modelled
`CvoqramInitialize` circuit only touches wires below the declared width
`n + 1 + (if aux then n − 1 else 0)`. -/
theorem cvo_sound [NumOps α] {n : Nat} (hn : 1 ≤ n) (aux : Bool) (method : String) (d : Dict α)
    (hd : ∀ kv ∈ d, kv.1.length = n) :
    Below sgWires (Widths.declaredWidth .cvoqram { n := n, aux := aux })
      (cvoInit n aux method d).1 := by
  rw [cvo_width_eq hn]
  simp only [cvoInit]
  refine below_cons.mpr ⟨?_, cvo_loop_below hn aux method d _ ?_⟩
  · intro w hw
    simp only [sgWires, List.mem_singleton] at hw
    subst hw
    simp only [memW]; split <;> omega
  · intro kv hkv k hk
    have := (sparse_mem_selectControls.mp hk).1
    rw [hd kv hkv] at this
    exact this

theorem cvo_loop_uses [NumOps α] {n : Nat} (aux : Bool) (method : String) (k : Nat) :
    ∀ (d : Dict α) (norm : α), (∃ kv ∈ d, k ∈ selectControls kv.1) →
      Uses sgWires (memW n aux k) (cvoLoop n aux method d norm).1
  | [], _, h => by obtain ⟨kv, hkv, _⟩ := h; exact absurd hkv List.not_mem_nil
  | (s, x) :: rest, norm, h => by
    simp only [cvoLoop]
    obtain ⟨kv, hkv, hk⟩ := h
    rcases List.mem_cons.mp hkv with rfl | hrest
    · apply uses_append_left; apply uses_append_left; apply uses_append_left
      refine ⟨SG.cx 0 (memW n aux k) true, ?_, ?_⟩
      · exact List.mem_map.mpr ⟨k, hk, rfl⟩
      · simp only [sgWires, List.mem_cons, true_or, or_true]
    · exact uses_append_right _ (cvo_loop_uses aux method k rest _ ⟨kv, hrest, hk⟩)

/-- **cvoqram, tightness (top wire).**  The highest declared wire `declaredWidth − 1` is memory
qubit `n − 1`; it is touched (by a `cx` of `_flip_flop`) as soon as some key has first character
`'1'`. -/
theorem cvo_top_used [NumOps α] {n : Nat} (hn : 1 ≤ n) (aux : Bool) (method : String) (d : Dict α)
    (hd : ∀ kv ∈ d, kv.1.length = n) (h1 : ∃ kv ∈ d, bitAt kv.1 0 = true) :
    Uses sgWires (Widths.declaredWidth .cvoqram { n := n, aux := aux } - 1)
      (cvoInit n aux method d).1 := by
  rw [cvo_width_pred_eq hn]
  simp only [cvoInit]
  apply uses_cons_of
  apply cvo_loop_uses
  obtain ⟨kv, hkv, hb⟩ := h1
  refine ⟨kv, hkv, sparse_mem_selectControls.mpr ⟨?_, ?_⟩⟩
  · rw [hd kv hkv]; omega
  · have := sparse_bitAt_reverse_last (hd kv hkv) hn
    rw [this]; exact hb

/-- **cvoqram, tightness (converse).**  If no key starts with `'1'`, every gate stays below
`declaredWidth − 1`: the top memory wire is declared but never touched. -/
theorem cvo_top_unused [NumOps α] {n : Nat} (hn : 1 ≤ n) (aux : Bool) (method : String)
    (d : Dict α) (hd : ∀ kv ∈ d, kv.1.length = n) (h0 : ¬ ∃ kv ∈ d, bitAt kv.1 0 = true) :
    Below sgWires (Widths.declaredWidth .cvoqram { n := n, aux := aux } - 1)
        (cvoInit n aux method d).1 ∧
    ¬ Uses sgWires (Widths.declaredWidth .cvoqram { n := n, aux := aux } - 1)
        (cvoInit n aux method d).1 := by
  have hb : Below sgWires (Widths.declaredWidth .cvoqram { n := n, aux := aux } - 1)
        (cvoInit n aux method d).1 := by
    rw [cvo_width_pred_eq hn]
    simp only [cvoInit]
    refine below_cons.mpr ⟨?_, cvo_loop_below hn aux method d _ ?_⟩
    · intro w hw
      simp only [sgWires, List.mem_singleton] at hw
      subst hw
      simp only [memW]; split <;> omega
    · intro kv hkv k hk
      obtain ⟨hlt, hbit⟩ := sparse_mem_selectControls.mp hk
      rw [hd kv hkv] at hlt
      by_cases hk1 : k = n - 1
      · exfalso
        apply h0
        refine ⟨kv, hkv, ?_⟩
        rw [← sparse_bitAt_reverse_last (hd kv hkv) hn, ← hk1]; exact hbit
      · omega
  exact ⟨hb, not_uses_of_below hb⟩

/-- **cvoqram, flag wire.**  Wire 0 (the flag `u`) is always touched (the opening `x`). -/
theorem cvo_flag_used [NumOps α] (n : Nat) (aux : Bool) (method : String) (d : Dict α) :
    Uses sgWires 0 (cvoInit n aux method d).1 := by
  simp only [cvoInit]
  exact uses_cons_self _ (by simp only [sgWires, List.mem_singleton])

/-- `0` or a memory wire of the with-aux layout (`≥ n`): not an ancilla wire `1..n−1`. -/
def cvo_OffAnc (n : Nat) (c : List (SG α)) : Prop := ∀ g ∈ c, ∀ w ∈ sgWires g, w = 0 ∨ n ≤ w

theorem cvo_offAnc_flipFlop (n : Nat) (control : List Nat) :
    cvo_OffAnc n (flipFlop (α := α) n true control) := by
  intro g hg w hw
  obtain ⟨k, _, rfl⟩ := List.mem_map.mp hg
  simp only [sgWires, List.mem_cons, List.not_mem_nil, or_false, memW, if_true] at hw
  omega

theorem cvo_offAnc_loadGates (n : Nat) (method : String) {control : List Nat}
    (hc : control.length ≤ 1) (θ φ lam : α) :
    cvo_OffAnc n (loadGates n true method control θ φ lam) := by
  intro g hg w hw
  match control, hc with
  | [], _ =>
    simp only [loadGates, List.mem_singleton] at hg
    subst hg
    simp only [sgWires, List.mem_singleton] at hw
    omega
  | [c], _ =>
    simp only [loadGates, List.mem_singleton] at hg
    subst hg
    simp only [sgWires, List.mem_cons, List.not_mem_nil, or_false, memW, if_true] at hw
    omega
  | _ :: _ :: _, hc => simp only [List.length_cons] at hc; omega

theorem cvo_offAnc_loop [NumOps α] (n : Nat) (method : String) :
    ∀ (d : Dict α) (norm : α), (∀ kv ∈ d, (selectControls kv.1).length ≤ 1) →
      cvo_OffAnc n (cvoLoop n true method d norm).1
  | [], _, _ => fun _ h => absurd h List.not_mem_nil
  | (s, x) :: rest, norm, h => by
    have hs := h (s, x) List.mem_cons_self
    have ih := cvo_offAnc_loop n method rest (normNext x norm)
      (fun kv hkv => h kv (List.mem_cons_of_mem _ hkv))
    intro g hg
    simp only [cvoLoop, List.mem_append] at hg
    rcases hg with ((hg | hg) | hg) | hg
    · exact cvo_offAnc_flipFlop n _ g hg
    · exact cvo_offAnc_loadGates n method hs _ _ _ g hg
    · split at hg
      · exact absurd hg List.not_mem_nil
      · exact cvo_offAnc_flipFlop n _ g hg
    · exact ih g hg

/-- **cvoqram, the ancilla register can stay idle.**  With `with_aux = True`, if every key has at
most one `'1'` (so `_select_controls` returns at most one position and `_mcuvchain` is never
called), every wire mentioned by the circuit is the flag `0` or a memory wire `≥ n`: the declared
ancilla register (wires `1 … n−1`) is allocated but never touched. -/
theorem cvo_anc_untouched [NumOps α] (n : Nat) (method : String) (d : Dict α)
    (h1 : ∀ kv ∈ d, (selectControls kv.1).length ≤ 1) :
    ∀ g ∈ (cvoInit n true method d).1, ∀ w ∈ sgWires g, w = 0 ∨ n ≤ w := by
  intro g hg
  simp only [cvoInit, List.mem_cons] at hg
  rcases hg with rfl | hg
  · intro w hw
    simp only [sgWires, List.mem_singleton] at hw
    exact Or.inl hw
  · exact cvo_offAnc_loop n method d _ h1 g hg

/-! ### non-vacuity on concrete parameters (`α := Unit`, all numbers trivial) -/

instance sparse_unitNumOps : NumOps Unit where
  zero := (); one := (); two := ()
  add := fun _ _ => (); sub := fun _ _ => (); mul := fun _ _ => (); div := fun _ _ => ()
  neg := fun _ => (); sqrt := fun _ => (); asin := fun _ => (); acos := fun _ => ()
  atan2 := fun _ _ => (); pi := (); lt := fun _ _ => false

def sparse_uAmp : Amp Unit := ⟨(), (), false⟩
/-- keys `"101"`, `"011"`, `"010"` -/
def sparse_exD3 : Dict Unit := [([true, false, true], sparse_uAmp), ([false, true, true], sparse_uAmp), ([false, true, false], sparse_uAmp)]
/-- keys `"011"`, `"001"` (no key starts with `'1'`) -/
def sparse_exD3lo : Dict Unit := [([false, true, true], sparse_uAmp), ([false, false, true], sparse_uAmp)]
/-- keys `"100"`, `"010"`, `"000"` (at most one `'1'` each) -/
def sparse_exD3one : Dict Unit := [([true, false, false], sparse_uAmp), ([false, true, false], sparse_uAmp), ([false, false, false], sparse_uAmp)]

example : Below sgWires (Widths.declaredWidth .cvoqram { n := 3, aux := true })
    (cvoInit 3 true "qiskit" sparse_exD3).1 := by decide
example : Below sgWires (Widths.declaredWidth .cvoqram { n := 3, aux := false })
    (cvoInit 3 false "qiskit" sparse_exD3).1 := by decide
example : Uses sgWires (Widths.declaredWidth .cvoqram { n := 3, aux := true } - 1)
    (cvoInit 3 true "qiskit" sparse_exD3).1 := by decide
example : Uses sgWires (Widths.declaredWidth .cvoqram { n := 3, aux := false } - 1)
    (cvoInit 3 false "qiskit" sparse_exD3).1 := by decide
example : ¬ Uses sgWires (Widths.declaredWidth .cvoqram { n := 3, aux := true } - 1)
    (cvoInit 3 true "qiskit" sparse_exD3lo).1 := by decide
example : Uses sgWires 0 (cvoInit 3 true "qiskit" sparse_exD3).1 := by decide
example : ∀ kv ∈ sparse_exD3one, (selectControls kv.1).length ≤ 1 := by decide
example : ¬ Uses sgWires 1 (cvoInit 3 true "qiskit" sparse_exD3one).1 ∧
    ¬ Uses sgWires 2 (cvoInit 3 true "qiskit" sparse_exD3one).1 := by decide
/-- …while a key with two `'1'`s does reach the ancilla register. -/
example : Uses sgWires 2 (cvoInit 3 true "qiskit" sparse_exD3).1 := by decide

end WL
end Qclib
