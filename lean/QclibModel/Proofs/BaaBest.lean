import QclibModel.Spec.Baa
import QclibModel.Proofs.BaaTree
/-
  C08, `_search_best`: the node returned is a member of the list and no member is better for the
  three-key order (most CNOTs saved, then smallest largest block, then least loss).
-/
namespace Qclib.Baa

variable {K : Type} [CommRing K] [LinearOrder K]

omit [CommRing K] [LinearOrder K] in
theorem foldl_maxInt (f : Node K → Int) (xs : List (Node K)) (m0 : Int) :
    m0 ≤ xs.foldl (fun m x => if m < f x then f x else m) m0 ∧
    ∀ x ∈ xs, f x ≤ xs.foldl (fun m x => if m < f x then f x else m) m0 := by
  induction xs generalizing m0 with
  | nil => simp
  | cons y ys ih =>
    simp only [List.foldl_cons]
    by_cases hc : m0 < f y
    · simp only [hc, if_true]
      have := ih (f y)
      refine ⟨by omega, fun x hx => ?_⟩
      rcases List.mem_cons.mp hx with rfl | hx
      · exact this.1
      · exact this.2 x hx
    · simp only [hc, if_false]
      have := ih m0
      refine ⟨this.1, fun x hx => ?_⟩
      rcases List.mem_cons.mp hx with rfl | hx
      · omega
      · exact this.2 x hx

omit [CommRing K] [LinearOrder K] in
theorem foldl_minNat (f : Node K → Nat) (xs : List (Node K)) (m0 : Nat) :
    xs.foldl (fun m x => if f x < m then f x else m) m0 ≤ m0 ∧
    ∀ x ∈ xs, xs.foldl (fun m x => if f x < m then f x else m) m0 ≤ f x := by
  induction xs generalizing m0 with
  | nil => simp
  | cons y ys ih =>
    simp only [List.foldl_cons]
    by_cases hc : f y < m0
    · simp only [hc, if_true]
      have := ih (f y)
      refine ⟨by omega, fun x hx => ?_⟩
      rcases List.mem_cons.mp hx with rfl | hx
      · exact this.1
      · exact this.2 x hx
    · simp only [hc, if_false]
      have := ih m0
      refine ⟨this.1, fun x hx => ?_⟩
      rcases List.mem_cons.mp hx with rfl | hx
      · omega
      · exact this.2 x hx

omit [CommRing K] in
theorem foldl_minKey (key : Node K → K) (xs : List (Node K)) (x0 : Node K) :
    ∀ y ∈ x0 :: xs,
      key (xs.foldl (fun best y => if decide (key y < key best) then y else best) x0) ≤ key y := by
  induction xs generalizing x0 with
  | nil => intro y hy; simp at hy; subst hy; simp
  | cons z zs ih =>
    intro y hy
    simp only [List.foldl_cons]
    by_cases hc : key z < key x0
    · simp only [hc, decide_true, if_true]
      have h := ih z
      rcases List.mem_cons.mp hy with rfl | hy
      · exact le_trans (h z (by simp)) (le_of_lt hc)
      · exact h y hy
    · simp only [hc, decide_false, if_false, Bool.false_eq_true]
      have h := ih x0
      rcases List.mem_cons.mp hy with rfl | hy
      · exact h _ (by simp)
      · rcases List.mem_cons.mp hy with rfl | hy
        · exact le_trans (h x0 (by simp)) (not_lt.mp hc)
        · exact h y (by simp [hy])

omit [CommRing K] [LinearOrder K] in
theorem minDepthOf_le (l : List (Node K)) : ∀ x ∈ l, minDepthOf l ≤ maxSubsystem x := by
  cases l with
  | nil => simp
  | cons a as =>
    intro x hx
    have := foldl_minNat (fun x : Node K => maxSubsystem x) as (maxSubsystem a)
    rcases List.mem_cons.mp hx with rfl | hx
    · exact this.1
    · exact this.2 x hx

/-- `_search_best` returns a member, and no member beats it. -/
theorem searchBest_best (nodes : List (Node K)) (b : Node K)
    (h : searchBest (orderedOps K) nodes = some b) : b ∈ nodes ∧ ∀ x ∈ nodes, NoBetter x b := by
  refine ⟨searchBest_mem _ _ _ h, ?_⟩
  cases nodes with
  | nil => simp [searchBest] at h
  | cons n0 rest =>
    simp only [searchBest] at h
    have hmax := foldl_maxInt (fun x : Node K => x.totalSaved) rest n0.totalSaved
    change n0.totalSaved ≤ maxSavedOf n0 rest ∧ ∀ x ∈ rest, x.totalSaved ≤ maxSavedOf n0 rest at hmax
    generalize maxSavedOf n0 rest = M at h hmax
    generalize hl1 : (n0 :: rest).filter (fun x => x.totalSaved == M) = l1 at h
    have hb2 := firstMinBy_mem _ _ _ _ h
    obtain ⟨hb1, hbD⟩ := List.mem_filter.mp hb2
    have hbM : b.totalSaved = M := by
      rw [← hl1] at hb1
      simpa using (List.mem_filter.mp hb1).2
    have hbD' : maxSubsystem b = minDepthOf l1 := by simpa using hbD
    intro x hx
    have hxM : x.totalSaved ≤ M := by
      rcases List.mem_cons.mp hx with rfl | hx
      · exact hmax.1
      · exact hmax.2 x hx
    by_cases hlt : x.totalSaved < b.totalSaved
    · exact Or.inl hlt
    · have hxeq : x.totalSaved = M := by omega
      refine Or.inr ⟨by omega, ?_⟩
      have hx1 : x ∈ l1 := by
        rw [← hl1]
        exact List.mem_filter.mpr ⟨hx, by simp [hxeq]⟩
      have hDle := minDepthOf_le l1 x hx1
      by_cases hd : maxSubsystem b < maxSubsystem x
      · exact Or.inl hd
      · refine Or.inr ⟨by omega, ?_⟩
        have hx2 : x ∈ l1.filter (fun x => maxSubsystem x == minDepthOf l1) :=
          List.mem_filter.mpr ⟨hx1, by simp; omega⟩
        generalize l1.filter (fun x => maxSubsystem x == minDepthOf l1) = l2 at h hx2
        cases l2 with
        | nil => simp at hx2
        | cons y ys =>
          simp only [firstMinBy, Option.some.injEq, orderedOps] at h
          rw [← h]
          exact foldl_minKey (fun x => x.totalLoss) ys y x hx2

/-! ### `_search_best` succeeds on every non-empty list (any loss arithmetic) -/

theorem foldl_maxInt_attained {α : Type} (f : Node α → Int) (xs : List (Node α)) (m0 : Int) :
    xs.foldl (fun m x => if m < f x then f x else m) m0 = m0 ∨
    ∃ x ∈ xs, f x = xs.foldl (fun m x => if m < f x then f x else m) m0 := by
  induction xs generalizing m0 with
  | nil => simp
  | cons y ys ih =>
    simp only [List.foldl_cons]
    by_cases hc : m0 < f y
    · simp only [hc, if_true]
      rcases ih (f y) with h | ⟨x, hx, h⟩
      · exact Or.inr ⟨y, by simp, h.symm⟩
      · exact Or.inr ⟨x, by simp [hx], h⟩
    · simp only [hc, if_false]
      rcases ih m0 with h | ⟨x, hx, h⟩
      · exact Or.inl h
      · exact Or.inr ⟨x, by simp [hx], h⟩

theorem foldl_minNat_attained {α : Type} (f : Node α → Nat) (xs : List (Node α)) (m0 : Nat) :
    xs.foldl (fun m x => if f x < m then f x else m) m0 = m0 ∨
    ∃ x ∈ xs, f x = xs.foldl (fun m x => if f x < m then f x else m) m0 := by
  induction xs generalizing m0 with
  | nil => simp
  | cons y ys ih =>
    simp only [List.foldl_cons]
    by_cases hc : f y < m0
    · simp only [hc, if_true]
      rcases ih (f y) with h | ⟨x, hx, h⟩
      · exact Or.inr ⟨y, by simp, h.symm⟩
      · exact Or.inr ⟨x, by simp [hx], h⟩
    · simp only [hc, if_false]
      rcases ih m0 with h | ⟨x, hx, h⟩
      · exact Or.inl h
      · exact Or.inr ⟨x, by simp [hx], h⟩

theorem searchBest_isSome {α : Type} (L : LossOps α) (n0 : Node α) (rest : List (Node α)) :
    ∃ b, searchBest L (n0 :: rest) = some b := by
  simp only [searchBest]
  have h1 : ∃ x, x ∈ (n0 :: rest).filter (fun x => x.totalSaved == maxSavedOf n0 rest) := by
    rcases foldl_maxInt_attained (fun x : Node α => x.totalSaved) rest n0.totalSaved with h | ⟨x, hx, h⟩
    · exact ⟨n0, List.mem_filter.mpr ⟨by simp, by simp only [maxSavedOf, h, beq_self_eq_true]⟩⟩
    · exact ⟨x, List.mem_filter.mpr ⟨by simp [hx], by simp only [maxSavedOf, ← h, beq_self_eq_true]⟩⟩
  generalize (n0 :: rest).filter (fun x => x.totalSaved == maxSavedOf n0 rest) = l1 at h1
  have h2 : ∃ x, x ∈ l1.filter (fun x => maxSubsystem x == minDepthOf l1) := by
    cases l1 with
    | nil => obtain ⟨x, hx⟩ := h1; simp at hx
    | cons a as =>
      rcases foldl_minNat_attained (fun x : Node α => maxSubsystem x) as (maxSubsystem a) with h | ⟨x, hx, h⟩
      · exact ⟨a, List.mem_filter.mpr ⟨by simp, by simp only [minDepthOf, h, beq_self_eq_true]⟩⟩
      · exact ⟨x, List.mem_filter.mpr ⟨by simp [hx], by simp only [minDepthOf, ← h, beq_self_eq_true]⟩⟩
  generalize l1.filter (fun x => maxSubsystem x == minDepthOf l1) = l2 at h2
  cases l2 with
  | nil => obtain ⟨x, hx⟩ := h2; simp at hx
  | cons y ys => exact ⟨_, rfl⟩

end Qclib.Baa
