import QclibModel.Proofs.RotLaws
import Mathlib.Analysis.SpecialFunctions.Trigonometric.Basic
import Mathlib.Analysis.SpecialFunctions.Complex.Circle
/-
  The concrete instance of S3: angles are real numbers, amplitudes complex numbers,
  `cs θ = cos(θ/2)`, `sn θ = sin(θ/2)`, `ex θ = exp(iθ/2)`, `exb θ = exp(-iθ/2)`, `rh = 1/√2`.
-/
namespace Qclib
open Complex

noncomputable instance instRotSemReal : RotSem ℝ ℂ where
  cs θ := (Real.cos (θ / 2) : ℂ)
  sn θ := (Real.sin (θ / 2) : ℂ)
  ex θ := Complex.exp (((θ / 2 : ℝ) : ℂ) * Complex.I)
  exb θ := Complex.exp (-(((θ / 2 : ℝ) : ℂ) * Complex.I))
  rh := ((Real.sqrt 2)⁻¹ : ℝ)

instance instRotLawsReal : RotLaws ℝ ℂ where
  cs_add a b := by
    show ((Real.cos ((a + b) / 2) : ℝ) : ℂ)
      = (Real.cos (a / 2) : ℂ) * (Real.cos (b / 2) : ℂ) - (Real.sin (a / 2) : ℂ) * (Real.sin (b / 2) : ℂ)
    rw [add_div, Real.cos_add]; push_cast; ring
  sn_add a b := by
    show ((Real.sin ((a + b) / 2) : ℝ) : ℂ)
      = (Real.sin (a / 2) : ℂ) * (Real.cos (b / 2) : ℂ) + (Real.cos (a / 2) : ℂ) * (Real.sin (b / 2) : ℂ)
    rw [add_div, Real.sin_add]; push_cast; ring
  cs_zero := by
    show ((Real.cos ((0 : ℝ) / 2) : ℝ) : ℂ) = 1
    simp
  sn_zero := by
    show ((Real.sin ((0 : ℝ) / 2) : ℝ) : ℂ) = 0
    simp
  cs_neg a := by
    show ((Real.cos ((-a) / 2) : ℝ) : ℂ) = (Real.cos (a / 2) : ℂ)
    rw [neg_div, Real.cos_neg]
  sn_neg a := by
    show ((Real.sin ((-a) / 2) : ℝ) : ℂ) = -(Real.sin (a / 2) : ℂ)
    rw [neg_div, Real.sin_neg]; push_cast; ring
  ex_add a b := by
    show Complex.exp ((((a + b) / 2 : ℝ) : ℂ) * Complex.I)
      = Complex.exp (((a / 2 : ℝ) : ℂ) * Complex.I) * Complex.exp (((b / 2 : ℝ) : ℂ) * Complex.I)
    rw [← Complex.exp_add]; congr 1; push_cast; ring
  ex_zero := by
    show Complex.exp ((((0 : ℝ) / 2 : ℝ) : ℂ) * Complex.I) = 1
    simp
  exb_eq a := by
    show Complex.exp (-(((a / 2 : ℝ) : ℂ) * Complex.I))
      = Complex.exp ((((-a) / 2 : ℝ) : ℂ) * Complex.I)
    congr 1; push_cast; ring
  rh_sq := by
    show (2 : ℂ) * ((((Real.sqrt 2)⁻¹ : ℝ) : ℂ) * (((Real.sqrt 2)⁻¹ : ℝ) : ℂ)) = 1
    have h : (2 : ℝ) * ((Real.sqrt 2)⁻¹ * (Real.sqrt 2)⁻¹) = 1 := by
      rw [← mul_inv, Real.mul_self_sqrt (by norm_num : (0:ℝ) ≤ 2)]; norm_num
    exact_mod_cast h

end Qclib
