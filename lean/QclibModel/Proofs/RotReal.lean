import QclibModel.Proofs.RotLaws
import Mathlib.Analysis.SpecialFunctions.Trigonometric.Basic
import Mathlib.Analysis.SpecialFunctions.Complex.Circle
/-
  The concrete instance of S3: angles are real numbers, amplitudes complex numbers,
  `cs θ = cos(θ/2)`, `sn θ = sin(θ/2)`, `ex θ = exp(iθ/2)`, `exb θ = exp(-iθ/2)`, `rh = 1/√2`.
-/
namespace Qclib
open Complex

noncomputable instance instRotSemReal : RotSem ℝ ℂ where
  cs θ := (Real.cos (θ / 2) : ℂ)
  sn θ := (Real.sin (θ / 2) : ℂ)
  ex θ := Complex.exp (((θ / 2 : ℝ) : ℂ) * Complex.I)
  exb θ := Complex.exp (-(((θ / 2 : ℝ) : ℂ) * Complex.I))
  rh := ((Real.sqrt 2)⁻¹ : ℝ)

instance instRotLawsReal : RotLaws ℝ ℂ := by
  sorry

end Qclib
