import QclibModel.Proofs.TopDownCircuit
import QclibModel.Proofs.TopDownAngles
import QclibModel.Props.C11
/-
  C01: the top-down circuit as a whole.
  * `topDownChain_sem` — any number type with rotation laws: the gate list of the walk over an
    allocated complete tree whose left spine sits on the wires `n-1, …, 0` maps every state that
    vanishes unless those wires are `|0⟩` to (path amplitude of the index read on the wires) ×
    (input amplitude with the wires cleared).
  * `topDownInit_sem` — over ℝ/ℂ, the model of `TopDownInitialize` on a unit vector.
-/
namespace Qclib.Dense
open RotSem

section helpers
variable {α β : Type}

theorem complete_map (f : α → β) : ∀ (n : Nat) (t : BT α), complete n t → complete n (t.map f)
  | 0, .nil, _ => trivial
  | 0, .node .., h => by simp [complete] at h
  | n+1, .nil, h => by simp [complete] at h
  | n+1, .node v l r, h => ⟨complete_map f n l h.1, complete_map f n r h.2⟩

theorem valD_map (f : α → β) (d : α) (t : BT α) : (t.map f).valD (f d) = f (t.valD d) := by
  cases t <;> rfl

theorem spine_ws (n m j : Nat) (hm : m < n) (hj : j < m) :
    ((List.take m (List.range n).reverse).reverse).getD j 0 = n - m + j := by
  rw [List.getD_eq_getElem?_getD, List.getElem?_reverse (by simp; omega)]
  simp only [List.length_take, List.length_reverse, List.length_range]
  rw [List.getElem?_take_of_lt (by omega), List.getElem?_reverse (by simp; omega)]
  simp only [List.length_range]
  rw [List.getElem?_range (by omega)]
  simp only [Option.getD_some]
  omega

theorem topDown_zero {F : Type} (o : TOps F) (t : BT (QV F)) :
    topDown o 0 0 t = topDownChain o t [] [t] := by
  cases t with
  | nil => simp [topDown, topDownChain]
  | node v l r => simp [topDown]

end helpers

section abstract
variable {Θ R : Type} [AddCommGroup Θ] [CommRing R] [RotSem Θ R] [RotLaws Θ R]
variable (half : Θ → Θ) (negl : Θ → Bool)
  (hhalf : ∀ a, half a + half a = a) (hadd : ∀ a b, half (a + b) = half a + half b)
  (hnegl : ∀ a, negl a = true → a = 0)
include hhalf hadd hnegl

/-- **The top-down cascade (any rotation semantics).** -/
theorem topDownChain_sem (o : TOps Θ) (ho : o.aops = stdOps half negl) (hz : o.zero = 0)
    (hnz : ∀ x, o.neZero x = false → x = 0)
    (h : Nat) (t : BT (QV Θ)) (ht : complete (h+1) t)
    (hsp : leftSpine t = (List.range (h+1)).reverse)
    (ψ : State R) (hψ : ZeroOn (List.range (h+1)) ψ) (b : Bits) :
    sem (topDownChain o t [] [t]) ψ b
      = pathAmp (h+1) (angles t) (bitsVal (h+1) b) * ψ (clr (List.range (h+1)) b) := by
  obtain ⟨hchain, hlev⟩ := topDownChain_spec o h t ht
  rw [hchain]
  let dq : QV Θ := ⟨o.zero, o.zero, none⟩
  let Y : Nat → Nat → Θ := fun m j => ((levelNodes m [t]).map fun x => (x.valD dq).y).getD j o.zero
  let Z : Nat → Nat → Θ := fun m j => ((levelNodes m [t]).map fun x => (x.valD dq).z).getD j o.zero
  have hcas := cascade_sem (R := R) (h+1)
    (fun d => levelMux o ((leftSpine t).take d) (levelNodes d [t])) Y Z
    (fun m j => pathAmp m (angles t) j) ?_ (fun j => pathAmp_zero _ _) ?_ ψ hψ (h+1) (Nat.le_refl _) b
  · rw [hcas, Nat.sub_self, hiIdx_zero_eq_bitsVal, List.range_eq_range']
  · -- every level denotes RZ·RY on its target wire
    intro m hm ψ'
    obtain ⟨⟨rest, hrest⟩, hlen, -, hget⟩ := hlev m (by omega)
    rw [hsp] at hget ⊢
    have hw : wire ((BT.leftDesc m t).valD dq).q = h + 1 - 1 - m := by
      rw [List.getElem?_reverse (by simp; omega)] at hget
      simp only [List.length_range] at hget
      rw [List.getElem?_range (by omega)] at hget
      have := Option.some.inj hget
      simp only [dq] at this ⊢
      omega
    have hws : ∀ i, i ≤ m →
        (wire ((BT.leftDesc m t).valD dq).q :: (List.take m (List.range (h+1)).reverse).reverse).getD i 0
          = i + (h + 1 - 1 - m) := by
      intro i hi
      cases i with
      | zero => simp [hw]
      | succ j =>
        rw [List.getD_cons_succ, spine_ws (h+1) m j (by omega) (by omega)]
        omega
    have hl := levelMux_sem (R := R) half negl hhalf hadd hnegl o ho hz hnz
      ((List.range (h+1)).reverse.take m) (BT.leftDesc m t) rest m (h + 1 - 1 - m)
      (by rw [← hrest]; exact hlen) hws ψ'
    rw [hrest, hl]
    simp only [topIdx_eq_hiIdx, show h + 1 - 1 - m + 1 = h + 1 - m by omega, Y, Z, hrest, dq]
  · -- one more level of the path amplitude
    intro m hm j hj c
    have hca : complete ((h - m) + m + 1) (angles t) := by
      rw [show h - m + m + 1 = h + 1 by omega]; exact complete_map _ _ _ ht
    have hct : complete ((h - m) + m + 1) t := by
      rw [show h - m + m + 1 = h + 1 by omega]; exact ht
    have hs := pathAmp_snoc (R := R) (⟨o.zero, o.zero⟩ : AV Θ) m (h - m) (angles t) j c hca hj
    show pathAmp (m+1) (angles t) _ = pathAmp m (angles t) j * _
    rw [hs]
    congr 1
    have hg := levelNodes_get m (h - m) t j hct hj
    have hY : Y m j = ((BT.descend m j t).valD dq).y := by
      simp only [Y, List.getD_eq_getElem?_getD, List.getElem?_map, hg, Option.map_some,
        Option.getD_some]
    have hZ : Z m j = ((BT.descend m j t).valD dq).z := by
      simp only [Z, List.getD_eq_getElem?_getD, List.getElem?_map, hg, Option.map_some,
        Option.getD_some]
    have hd : (BT.descend m j (angles t)).valD (⟨o.zero, o.zero⟩ : AV Θ)
        = ⟨((BT.descend m j t).valD dq).y, ((BT.descend m j t).valD dq).z⟩ := by
      unfold angles
      rw [descend_map]
      exact valD_map (fun v : QV Θ => (⟨v.y, v.z⟩ : AV Θ)) dq _
    rw [hd, hY, hZ]
    rfl

end abstract

/-! ### The model of `TopDownInitialize` over ℝ / ℂ -/

theorem ex_sq (θ : ℝ) : (ex θ * ex θ : ℂ) = Complex.exp ((θ : ℂ) * Complex.I) := by
  show Complex.exp (((θ / 2 : ℝ) : ℂ) * Complex.I) * Complex.exp (((θ / 2 : ℝ) : ℂ) * Complex.I) = _
  rw [← Complex.exp_add]; congr 1; push_cast; ring

theorem realTOps_aops : realTOps.aops = stdOps (fun x : ℝ => x / 2) (fun x => decide (x = 0)) := rfl

/-- The model accepts every vector of length `2^n`, `n ≥ 1`, and its parts are the ones the
theorems speak about. -/
theorem topDownInit_spec {F : Type} (o : TOps F) (n : Nat) (hn : 1 ≤ n) (leaves : Nat → SV F)
    (gp : Bool) :
    ∃ out, topDownInit o n leaves gp = some out
      ∧ out.gates = topDownChain o out.alloc.tree [] [out.alloc.tree]
      ∧ complete n out.alloc.tree
      ∧ leftSpine out.alloc.tree = (List.range n).reverse
      ∧ angles out.alloc.tree = angleTree o (stateTree o n leaves)
      ∧ out.alloc.circWidth = n
      ∧ out.phase = (if gp then some (meanArg o n leaves) else none) := by
  obtain ⟨m, rfl⟩ : ∃ m, n = m + 1 := ⟨n - 1, by omega⟩
  have hc := angleTree_complete o m leaves
  obtain ⟨a, ha, -, -, hws, hsp, -, hang, hshape, -, -⟩ :=
    C11_alloc o (m+1) (m+1) hn (Nat.le_refl _) _ hc
  obtain ⟨a', ha', hq, -, hw, -, -, -⟩ := addRegister_complete (m+1) (m+1) hn (Nat.le_refl _) _ hc
  rw [Nat.sub_self] at ha ha'
  have : a' = a := Option.some.inj (ha'.symm.trans ha)
  subst this
  refine ⟨⟨stateTree o (m+1) leaves, angleTree o (stateTree o (m+1) leaves), a', topDown o 0 0 a'.tree, if gp then some (meanArg o (m+1) leaves) else none⟩,
    ?_, topDown_zero o _, hshape, hsp, hang, ?_, rfl⟩
  · simp only [topDownInit, ha]
    rw [if_neg (by omega)]
  · show a'.circWidth = m + 1
    rw [hw]
    rw [Nat.sub_self, Nat.pow_zero, Nat.mul_one] at hq
    omega

/-- **C01, top-down circuit.**  For every `n ≥ 1` and every unit vector `a`, the gate list of the
model of `TopDownInitialize(a)` (global phase included) maps every input state whose wires
`0 … n-1` are `|0⟩` to the state with amplitude `a_k` at the label reading `k` on those wires
(wire `i` = bit `i` of `k`, qiskit's little-endian order), times the input amplitude on the
remaining wires. -/
theorem topDownInit_sem (n : Nat) (hn : 1 ≤ n) (a : Nat → ℂ) (hu : sumSq n (leavesOf a) = 1)
    (out : TopDownOut ℝ) (hout : topDownInit realTOps n (leavesOf a) true = some out)
    (ψ : State ℂ) (hψ : ZeroOn (List.range n) ψ) (b : Bits) :
    sem out.circ ψ b = a (bitsVal n b) * ψ (clr (List.range n) b) := by
  obtain ⟨out', hout', hg, hc, hsp, hang, -, hph⟩ := topDownInit_spec realTOps n hn (leavesOf a) true
  have : out' = out := Option.some.inj (hout'.symm.trans hout)
  subst this
  obtain ⟨m, rfl⟩ : ∃ m, n = m + 1 := ⟨n - 1, by omega⟩
  have hscaled : ZeroOn (List.range (m+1)) (denote (G.gphase (meanArg realTOps (m+1) (leavesOf a))) ψ
      : State ℂ) := by
    intro b' hb'
    rw [denote_gphase, hψ b' hb', mul_zero]
  have hcirc : out'.circ = [G.gphase (meanArg realTOps (m+1) (leavesOf a))] ++ out'.gates := by
    simp only [TopDownOut.circ, hph, if_true]
  rw [hcirc, sem_append, sem_single, hg,
    topDownChain_sem (R := ℂ) (fun x : ℝ => x / 2) (fun x => decide (x = 0))
      (fun x => by ring) (fun x y => by ring) (fun x hx => by simpa using hx)
      realTOps realTOps_aops rfl realTOps_neZero m _ hc hsp _ hscaled b,
    hang, denote_gphase, ex_sq]
  have hk := bitsVal_lt (m+1) b
  have hp := topdown_path (m+1) a hu (bitsVal (m+1) b) hk
  rw [← hp]
  ring

/-- Without the phase correction (`global_phase = False`) the prepared state is `e^{-i·mean arg}·a`:
the only deviation is a global phase. -/
theorem topDownInit_sem_nophase (n : Nat) (hn : 1 ≤ n) (a : Nat → ℂ)
    (hu : sumSq n (leavesOf a) = 1)
    (out : TopDownOut ℝ) (hout : topDownInit realTOps n (leavesOf a) false = some out)
    (ψ : State ℂ) (hψ : ZeroOn (List.range n) ψ) (b : Bits) :
    Complex.exp (((meanArg realTOps n (leavesOf a) : ℝ) : ℂ) * Complex.I) * sem out.circ ψ b
      = a (bitsVal n b) * ψ (clr (List.range n) b) := by
  obtain ⟨out', hout', hg, hc, hsp, hang, -, hph⟩ := topDownInit_spec realTOps n hn (leavesOf a) false
  have : out' = out := Option.some.inj (hout'.symm.trans hout)
  subst this
  obtain ⟨m, rfl⟩ : ∃ m, n = m + 1 := ⟨n - 1, by omega⟩
  have hcirc : out'.circ = out'.gates := by
    simp [TopDownOut.circ, hph]
  rw [hcirc, hg,
    topDownChain_sem (R := ℂ) (fun x : ℝ => x / 2) (fun x => decide (x = 0))
      (fun x => by ring) (fun x y => by ring) (fun x hx => by simpa using hx)
      realTOps realTOps_aops rfl realTOps_neZero m _ hc hsp _ hψ b, hang]
  have hk := bitsVal_lt (m+1) b
  have hp := topdown_path (m+1) a hu (bitsVal (m+1) b) hk
  rw [← hp]
  ring

#print axioms topDownInit_sem
end Qclib.Dense
