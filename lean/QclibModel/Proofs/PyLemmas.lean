import QclibModel.Gen.PyPrelude
/-
  Facts about the run-time support of the Python -> Lean translation (`Gen/PyPrelude.lean`) on the
  arguments the code passes (natural numbers cast to `Int`).  Used by the source-tie theorems
  `Cxx_*_src`, which state that a definition re-translated from the current Python source equals the
  hand model the property theorems speak about.  Core Lean only.
-/
namespace Qclib.Py

/-- `int(np.ceil(n / 2))` on a natural number. -/
theorem pyCeilDiv_two (n : Nat) : pyCeilDiv (n : Int) 2 = (((n + 1) / 2 : Nat) : Int) := by
  unfold pyCeilDiv; omega

/-- `range(m, m + len)` on natural numbers. -/
theorem pyRange_cast (m len : Nat) :
    pyRange (m : Int) ((m + len : Nat) : Int)
      = (List.range' m len).map (fun (k : Nat) => (k : Int)) := by
  unfold pyRange
  have : (((m + len : Nat) : Int) - (m : Int)).toNat = len := by omega
  rw [this, List.range'_eq_map_range, List.map_map]
  apply List.map_congr_left
  intro i _
  simp

theorem pyLog2Floor_cast (x : Nat) : pyLog2Floor (x : Int) = ((Nat.log2 x : Nat) : Int) := by
  simp [pyLog2Floor]

theorem pyPow_cast (a e : Nat) : pyPow (a : Int) (e : Int) = ((a ^ e : Nat) : Int) := by
  simp [pyPow]

/-- `int(ceil(log2(x)))` on a power of two. -/
theorem pyLog2Ceil_two_pow (n : Nat) : pyLog2Ceil (((2 ^ n : Nat)) : Int) = (n : Int) := by
  unfold pyLog2Ceil
  cases n with
  | zero => simp
  | succ k =>
    have h2 : 2 ≤ 2 ^ (k + 1) := by
      have := Nat.one_le_two_pow (n := k); rw [Nat.pow_succ]; omega
    have hne : ¬ (((2 ^ (k + 1) : Nat) : Int) ≤ 1) := by omega
    rw [if_neg hne]
    have ht : (((2 ^ (k + 1) : Nat) : Int)).toNat - 1 = 2 ^ (k + 1) - 1 := by rw [Int.toNat_natCast]
    rw [ht]
    have hlog : Nat.log2 (2 ^ (k + 1) - 1) = k := by
      rw [Nat.log2_eq_iff (by omega)]
      constructor
      · rw [Nat.pow_succ]; have := Nat.one_le_two_pow (n := k); omega
      · have := Nat.one_le_two_pow (n := k + 1); omega
    rw [hlog]; simp

end Qclib.Py

namespace Qclib.Py

/-- `int(ceil(log2(k)))` on `k ≥ 1` is the least exponent `a` with `k ≤ 2^a`. -/
theorem pyLog2Ceil_spec (k : Nat) (hk : 1 ≤ k) :
    ∃ a : Nat, pyLog2Ceil (k : Int) = (a : Int) ∧ k ≤ 2 ^ a ∧ ∀ b, k ≤ 2 ^ b → a ≤ b := by
  unfold pyLog2Ceil
  by_cases h1 : k = 1
  · subst h1
    exact ⟨0, by simp, by simp, fun b _ => Nat.zero_le b⟩
  · have h2 : 2 ≤ k := by omega
    have hne : ¬ ((k : Int) ≤ 1) := by omega
    rw [if_neg hne]
    have ht : (k : Int).toNat - 1 = k - 1 := by rw [Int.toNat_natCast]
    rw [ht]
    have hk1 : k - 1 ≠ 0 := by omega
    refine ⟨Nat.log2 (k - 1) + 1, by simp, ?_, ?_⟩
    · have := Nat.lt_log2_self (n := k - 1); omega
    · intro b hb
      have : k - 1 < 2 ^ b := by omega
      have := (Nat.log2_lt hk1).2 this
      omega

/-- Any function that returns the least exponent `a` with `k ≤ 2^a` agrees with the translation of
`int(ceil(log2(k)))`. -/
theorem pyLog2Ceil_eq_of_least (k c : Nat) (hk : 1 ≤ k) (h1 : k ≤ 2 ^ c)
    (h2 : ∀ b, k ≤ 2 ^ b → c ≤ b) : pyLog2Ceil (k : Int) = (c : Int) := by
  obtain ⟨a, ha, ha1, ha2⟩ := pyLog2Ceil_spec k hk
  have : a = c := Nat.le_antisymm (ha2 c h1) (h2 a ha1)
  rw [ha, this]

end Qclib.Py
