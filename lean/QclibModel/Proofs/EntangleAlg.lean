import Mathlib.Data.Complex.Basic
import Mathlib.Data.Complex.BigOperators
import Mathlib.Algebra.BigOperators.Ring.Finset
import Mathlib.Algebra.Order.BigOperators.Ring.Finset
import Mathlib.Tactic.Ring
import Mathlib.Tactic.Linarith
import Mathlib.Tactic.Positivity
import Mathlib.Tactic.LinearCombination
import QclibModel.Spec.Entangle
import QclibModel.Proofs.EntangleBits
/-
  C20 — algebra: Lagrange identity, sums split along one bit, purity = 1 − 2·D.
-/
namespace Qclib.Ent
open Finset Complex

/-! ### Lagrange identity -/

/-- A symmetric double sum with zero diagonal is twice its strictly-lower-triangular part. -/
theorem sum_sum_symm (t : ℕ → ℕ → ℝ) (hs : ∀ i j, t i j = t j i) (hd : ∀ i, t i i = 0) (m : ℕ) :
    ∑ j ∈ range m, ∑ i ∈ range m, t i j = 2 * ∑ j ∈ range m, ∑ i ∈ range j, t i j := by
  induction m with
  | zero => simp
  | succ m ih =>
    rw [sum_range_succ (fun j => ∑ i ∈ range (m + 1), t i j),
      sum_range_succ (fun j => ∑ i ∈ range j, t i j)]
    have h1 : ∑ j ∈ range m, ∑ i ∈ range (m + 1), t i j
        = ∑ j ∈ range m, ∑ i ∈ range m, t i j + ∑ j ∈ range m, t m j := by
      rw [← sum_add_distrib]; exact sum_congr rfl (fun j _ => sum_range_succ _ _)
    have h2 : ∑ j ∈ range m, t m j = ∑ i ∈ range m, t i m := sum_congr rfl (fun i _ => hs m i)
    rw [h1, sum_range_succ (fun i => t i m), hd, ih, h2]; ring

theorem cross_pointwise (a b c d : ℂ) :
    normSq (a * d - b * c) = normSq a * normSq d + normSq b * normSq c
      - 2 * (((starRingEnd ℂ) a * c).re * ((starRingEnd ℂ) b * d).re
              + ((starRingEnd ℂ) a * c).im * ((starRingEnd ℂ) b * d).im) := by
  simp only [normSq_apply, mul_re, mul_im, sub_re, sub_im, conj_re, conj_im]
  ring

/-- **Lagrange identity** for complex vectors of any length `m`:
`Σ_{i<j<m} |u_i v_j − u_j v_i|² = ‖u‖²‖v‖² − |⟨u,v⟩|²`. -/
theorem lagrange (m : ℕ) (u v : ℕ → ℂ) :
    crossSum m u v = nrm2 m u * nrm2 m v - normSq (inner m u v) := by
  have hsym := sum_sum_symm (fun i j => normSq (u i * v j - u j * v i))
    (fun i j => by
      show normSq (u i * v j - u j * v i) = normSq (u j * v i - u i * v j)
      rw [← normSq_neg]; congr 1; ring)
    (fun i => by show normSq (u i * v i - u i * v i) = 0; simp) m
  set P : ℕ → ℝ := fun i => ((starRingEnd ℂ) (u i) * v i).re with hP
  set Q : ℕ → ℝ := fun i => ((starRingEnd ℂ) (u i) * v i).im with hQ
  set A : ℕ → ℝ := fun i => normSq (u i) with hA
  set B : ℕ → ℝ := fun i => normSq (v i) with hB
  have hfull : ∑ j ∈ range m, ∑ i ∈ range m, normSq (u i * v j - u j * v i)
      = 2 * ((∑ i ∈ range m, A i) * ∑ j ∈ range m, B j)
        - 2 * ((∑ i ∈ range m, P i) * (∑ i ∈ range m, P i)
          + (∑ i ∈ range m, Q i) * (∑ i ∈ range m, Q i)) := by
    have e : ∀ j i, normSq (u i * v j - u j * v i)
        = A i * B j + A j * B i - (P i * P j + Q i * Q j + (P i * P j + Q i * Q j)) := fun j i => by
      rw [cross_pointwise]; ring
    simp only [e, sum_sub_distrib, sum_add_distrib]
    have h1 : ∑ j ∈ range m, ∑ i ∈ range m, A i * B j
        = (∑ i ∈ range m, A i) * ∑ j ∈ range m, B j := by rw [sum_mul_sum, sum_comm]
    have h2 : ∑ j ∈ range m, ∑ i ∈ range m, A j * B i
        = (∑ i ∈ range m, A i) * ∑ j ∈ range m, B j := by rw [sum_mul_sum]
    have h3 : ∑ j ∈ range m, ∑ i ∈ range m, P i * P j
        = (∑ i ∈ range m, P i) * ∑ j ∈ range m, P j := by rw [sum_mul_sum, sum_comm]
    have h4 : ∑ j ∈ range m, ∑ i ∈ range m, Q i * Q j
        = (∑ i ∈ range m, Q i) * ∑ j ∈ range m, Q j := by rw [sum_mul_sum, sum_comm]
    rw [h1, h2, h3, h4]; ring
  have hin : normSq (inner m u v)
      = (∑ i ∈ range m, P i) * (∑ i ∈ range m, P i) + (∑ i ∈ range m, Q i) * (∑ i ∈ range m, Q i) := by
    unfold inner
    rw [normSq_apply, re_sum, im_sum]
  unfold crossSum nrm2
  rw [hin]
  linarith [hsym, hfull]

theorem crossSum_nonneg (m : ℕ) (u v : ℕ → ℂ) : 0 ≤ crossSum m u v :=
  sum_nonneg fun _ _ => sum_nonneg fun _ _ => normSq_nonneg _

theorem nrm2_nonneg (m : ℕ) (u : ℕ → ℂ) : 0 ≤ nrm2 m u := sum_nonneg fun _ _ => normSq_nonneg _

/-- Cauchy–Schwarz, from the Lagrange identity. -/
theorem cauchy_schwarz (m : ℕ) (u v : ℕ → ℂ) : normSq (inner m u v) ≤ nrm2 m u * nrm2 m v := by
  have := lagrange m u v; have := crossSum_nonneg m u v; linarith

/-! ### sums split along bit `j` -/

theorem sum_split_bit {M : Type} [AddCommMonoid M] {n j : ℕ} (hj : j < n) (g : ℕ → M) :
    ∑ b ∈ range (2 ^ n), g b
      = ∑ r ∈ range (2 ^ (n - 1)), g (insBit j false r) + ∑ r ∈ range (2 ^ (n - 1)), g (insBit j true r) := by
  rw [← sum_filter_add_sum_filter_not (range (2 ^ n)) (fun b => b.testBit j = false)]
  congr 1
  · apply sum_nbij' (delBit j) (insBit j false)
    · intro a ha; rw [mem_filter, mem_range] at ha; exact mem_range.mpr (delBit_lt hj ha.1)
    · intro r hr; rw [mem_filter, mem_range]
      exact ⟨insBit_lt false hj (mem_range.mp hr), testBit_insBit_self j false r⟩
    · intro a ha; rw [mem_filter] at ha
      have := insBit_delBit j a; rw [ha.2] at this; exact this
    · intro r _; exact delBit_insBit j false r
    · intro a ha; rw [mem_filter] at ha
      have := insBit_delBit j a; rw [ha.2] at this; rw [this]
  · apply sum_nbij' (delBit j) (insBit j true)
    · intro a ha; rw [mem_filter, mem_range] at ha; exact mem_range.mpr (delBit_lt hj ha.1)
    · intro r hr; rw [mem_filter, mem_range]
      refine ⟨insBit_lt true hj (mem_range.mp hr), ?_⟩
      rw [testBit_insBit_self]; simp
    · intro a ha; rw [mem_filter] at ha
      have h : a.testBit j = true := by simpa using ha.2
      have := insBit_delBit j a; rw [h] at this; exact this
    · intro r _; exact delBit_insBit j true r
    · intro a ha; rw [mem_filter] at ha
      have h : a.testBit j = true := by simpa using ha.2
      have := insBit_delBit j a; rw [h] at this; rw [this]

/-- `‖ψ‖² = ‖ι_j^0 ψ‖² + ‖ι_j^1 ψ‖²`. -/
theorem nrm2_split {n j : ℕ} (hj : j < n) (ψ : ℕ → ℂ) :
    nrm2 (2 ^ n) ψ = nrm2 (2 ^ (n - 1)) (slice ψ j false) + nrm2 (2 ^ (n - 1)) (slice ψ j true) := by
  unfold nrm2 slice
  exact sum_split_bit hj (fun b => normSq (ψ b))

/-- For a unit vector, `Tr ρ_k² = 1 − 2·D(ι_k^0 ψ, ι_k^1 ψ)`. -/
theorem purity_eq {n k : ℕ} (hk : k < n) (ψ : ℕ → ℂ) (hn : nrm2 (2 ^ n) ψ = 1) :
    purity n ψ k = 1 - 2 * crossSum (2 ^ (n - 1)) (slice ψ k false) (slice ψ k true) := by
  have h := nrm2_split hk ψ
  rw [hn] at h
  unfold purity
  simp only []
  rw [lagrange]
  generalize nrm2 (2 ^ (n - 1)) (slice ψ k false) = a at *
  generalize nrm2 (2 ^ (n - 1)) (slice ψ k true) = b at *
  have : a = 1 - b := by linarith
  subst this; ring

/-- For a unit vector each `D_k ≤ 1/4`. -/
theorem crossSum_le_quarter {n k : ℕ} (hk : k < n) (ψ : ℕ → ℂ) (hn : nrm2 (2 ^ n) ψ = 1) :
    crossSum (2 ^ (n - 1)) (slice ψ k false) (slice ψ k true) ≤ 1 / 4 := by
  have h := nrm2_split hk ψ
  rw [hn] at h
  rw [lagrange]
  have hq := normSq_nonneg (inner (2 ^ (n - 1)) (slice ψ k false) (slice ψ k true))
  generalize nrm2 (2 ^ (n - 1)) (slice ψ k false) = a at *
  generalize nrm2 (2 ^ (n - 1)) (slice ψ k true) = b at *
  nlinarith [sq_nonneg (a - b)]

end Qclib.Ent
