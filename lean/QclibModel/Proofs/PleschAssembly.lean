import QclibModel.Proofs.PleschCore
import QclibModel.Proofs.PleschDispatch
import QclibModel.Proofs.TreeDcsp
/-
  C01 (low-rank assembly): the circuit assembled by `LowRankInitialize._define_initialize`
  (phases 1–4 on the plan's registers, then `reverse_bits`) maps a state that is `|0…0⟩` on the
  wires `0…n-1` to the target vector, amplitude by amplitude, for every `n`, every increasing
  partition list and every rank — given the SVD specification and the specifications of the three
  sub-encoders (`plesch_assembly`).
-/
namespace Qclib.Plesch
open Qclib.Schmidt

/-! ### `reverse_bits` on registers -/

theorem mem_map_rev {n : Nat} {l : List Nat} (hl : ∀ a ∈ l, a < n) {w : Nat} :
    w ∈ l.map (fun q => n - 1 - q) ↔ w < n ∧ (n - 1 - w) ∈ l := by
  constructor
  · intro h
    obtain ⟨a, ha, rfl⟩ := List.mem_map.mp h
    have := hl a ha
    refine ⟨by omega, ?_⟩
    have : n - 1 - (n - 1 - a) = a := by omega
    rw [this]; exact ha
  · rintro ⟨hw, h⟩
    exact List.mem_map.mpr ⟨n - 1 - w, h, by omega⟩

theorem nodup_map_rev {n : Nat} {l : List Nat} (hnd : l.Nodup) (hl : ∀ a ∈ l, a < n) :
    (l.map (fun q => n - 1 - q)).Nodup := by
  apply List.Nodup.map_on _ hnd
  intro x hx y hy hxy
  have := hl x hx
  have := hl y hy
  have hxy' : n - 1 - x = n - 1 - y := hxy
  omega

theorem getD_map_rev {n : Nat} (l : List Nat) {j : Nat} (hj : j < l.length) :
    (l.map (fun q => n - 1 - q)).getD j 0 = n - 1 - l.getD j 0 := by
  simp only [List.getD_eq_getElem?_getD, List.getElem?_map, List.getElem?_eq_getElem hj,
    Option.map_some, Option.getD_some]

/-! ### the state-vector index of a label -/

theorem bitsVal_testBit : ∀ (n : Nat) (b : Bits) (q : Nat), q < n → (bitsVal n b).testBit q = b q
  | 0, _, _, h => by omega
  | n+1, b, q, h => by
    have hlt := bitsVal_lt n b
    simp only [bitsVal]
    by_cases hq : q < n
    · cases hb : b n
      · simp only [Bool.false_eq_true, if_false, Nat.add_zero]
        exact bitsVal_testBit n b q hq
      · simp only [if_true]
        rw [Nat.add_comm, Nat.testBit_two_pow_add_gt hq, bitsVal_testBit n b q hq]
    · have : q = n := by omega
      subst this
      cases hb : b q
      · simp only [Bool.false_eq_true, if_false, Nat.add_zero]
        exact Nat.testBit_lt_two_pow hlt
      · simp only [if_true]
        rw [Nat.add_comm, Nat.testBit_two_pow_add_eq, Nat.testBit_lt_two_pow hlt]
        rfl

section Index
variable {n : Nat} {P : List Nat} (hv : ValidAxes n P)
include hv

/-- After `reverse_bits`, the register `reg_b` reads the row index of the state-vector index. -/
theorem regVal_regB (b : Bits) :
    regVal ((restAxes n P).reverse.map (fun q => n - 1 - q)) b
      = (sepIndexAx n P (bitsVal n b)).1 := by
  have hlen : ((restAxes n P).reverse.map (fun q => n - 1 - q)).length = n - P.length := by
    rw [List.length_map, List.length_reverse, length_restAxes hv]
  have h1 := regVal_lt ((restAxes n P).reverse.map (fun q => n - 1 - q)) b
  rw [hlen] at h1
  apply eq_of_testBit_lt h1 (sepIndexAx_lt hv _).1
  intro m hm
  have hm1 : m < ((restAxes n P).reverse.map (fun q => n - 1 - q)).length := by omega
  have hm2 : m < (restAxes n P).reverse.length := by
    rw [List.length_reverse, length_restAxes hv]; exact hm
  rw [regVal_testBit _ _ m hm1, List.getElem_map, row_bit_rev hv _ m hm2]
  have ha : (restAxes n P).reverse[m] < n :=
    (mem_restAxes.mp (List.mem_reverse.mp (List.getElem_mem hm2))).1
  rw [bitsVal_testBit n b _ (by omega)]

/-- After `reverse_bits`, the register `reg_a` reads the column index. -/
theorem regVal_regA (b : Bits) :
    regVal (P.reverse.map (fun q => n - 1 - q)) b = (sepIndexAx n P (bitsVal n b)).2 := by
  have hlen : (P.reverse.map (fun q => n - 1 - q)).length = P.length := by
    rw [List.length_map, List.length_reverse]
  have h1 := regVal_lt (P.reverse.map (fun q => n - 1 - q)) b
  rw [hlen] at h1
  apply eq_of_testBit_lt h1 (sepIndexAx_lt hv _).2
  intro m hm
  have hm1 : m < (P.reverse.map (fun q => n - 1 - q)).length := by omega
  have hm2 : m < P.reverse.length := by rw [List.length_reverse]; exact hm
  rw [regVal_testBit _ _ m hm1, List.getElem_map, col_bit_rev hv _ m hm2]
  have ha : P.reverse[m] < n := hv.lt _ (List.mem_reverse.mp (List.getElem_mem hm2))
  rw [bitsVal_testBit n b _ (by omega)]

/-- The two reversed registers are exactly the wires `0 … n-1`. -/
theorem mem_regs_iff (w : Nat) :
    w ∈ P.reverse.map (fun q => n - 1 - q) ++ (restAxes n P).reverse.map (fun q => n - 1 - q)
      ↔ w ∈ List.range n := by
  have hPl : ∀ a ∈ P.reverse, a < n := fun a ha => hv.lt a (List.mem_reverse.mp ha)
  have hRl : ∀ a ∈ (restAxes n P).reverse, a < n :=
    fun a ha => (mem_restAxes.mp (List.mem_reverse.mp ha)).1
  rw [List.mem_append, mem_map_rev hPl, mem_map_rev hRl, List.mem_range, List.mem_reverse,
    List.mem_reverse, mem_restAxes]
  constructor
  · rintro (h | h) <;> exact h.1
  · intro h
    by_cases hp : n - 1 - w ∈ P
    · exact Or.inl ⟨h, hp⟩
    · exact Or.inr ⟨h, by omega, hp⟩

end Index

/-! ### the assembled circuit in the form of `plesch_assembly_regs` -/

section Circ
variable {R : Type}

/-- `lowRankCirc` written on the reversed registers `A`, `B`. -/
theorem lowRankCirc_eq {n : Nat} {P : List Nat} {lr : Int} {eff : Nat} {iso uni : String}
    {plan : Plan} (hplan : lowRankPlan n P lr eff iso uni = some plan)
    (heA : plan.ebits ≤ plan.regA.length) (heB : plan.ebits ≤ plan.regB.length)
    (Msv MU MV : Nat → Nat → R) :
    lowRankCirc n plan Msv MU MV
      = (if plan.ebits > 0
          then [PG.block ((plan.regB.map (fun q => n - 1 - q)).take plan.ebits) Msv] else []) ++
        (fanList (plan.regA.map (fun q => n - 1 - q)) (plan.regB.map (fun q => n - 1 - q))
          plan.ebits).map (fun ct => PG.cx ct.1 ct.2) ++
        [PG.block (plan.regB.map (fun q => n - 1 - q)) MU,
         PG.block (plan.regA.map (fun q => n - 1 - q)) MV] := by
  obtain ⟨_, _, _, _, _, hsv, hcx, _, _, _⟩ := lowRankPlan_some hplan
  have hcxs : (plan.cxs.map (fun ct => PG.cx ct.1 ct.2)).map (reverseBits (R := R) n)
      = (fanList (plan.regA.map (fun q => n - 1 - q)) (plan.regB.map (fun q => n - 1 - q))
          plan.ebits).map (fun ct => PG.cx ct.1 ct.2) := by
    rw [hcx, fanList, List.map_map, List.map_map, List.map_map]
    apply List.map_congr_left
    intro j hj
    have hj' : j < plan.ebits := List.mem_range.mp hj
    simp only [Function.comp, reverseBits]
    rw [getD_map_rev _ (by omega), getD_map_rev _ (by omega)]
  unfold lowRankCirc pleschCirc
  rw [List.map_append, List.map_append, hcxs, hsv]
  congr 1
  congr 1
  by_cases he : plan.ebits > 0
  · simp only [he, if_true, List.map_cons, List.map_nil, reverseBits, List.map_take]
  · simp only [he, if_false, List.map_nil]

end Circ

/-! ### T3 -/

section Main
variable {R : Type} [CommRing R]

/-- **Plesch assembly (T3).**  `n` qubits, `P` an increasing list of qubits `< n` (the partition),
`plan` the plan of `LowRankInitialize._define_initialize` (`rank` a power of two, `e_bits`,
registers, fan-out), `eff ≤ min(2^|P|, 2^(n-|P|))` (there are no more singular values than rows or
columns).  Hypotheses about the callees:
* `hsvd` — SVD specification after the rank cut: the bipartition matrix of `v` is
  `Σ_{j<rank} U[r,j]·(t_j·nrm)·V[j,c]` (`t = s/‖s‖`, `nrm = ‖s‖`; the dropped coefficients vanish);
* `hMsv` — when there is a singular-value block (`e_bits > 0`), the sub-encoder of the singular
  values has first column `t` (it prepares `t` from `|0…0⟩` on `reg_b[:e]`);
* `hMU`, `hMV` — the first `rank` columns of the encoders of `U`, `V.T` are `U[:, :rank]`,
  `V[:rank, :].T`;
* `ht0` — for `e_bits = 0` (rank 1) the code SKIPS phase 1, i.e. it uses the coefficient `1` without
  preparing anything: this is right exactly when the single normalised coefficient `t_0 = s_0/‖s‖`
  is `1`, which is what `s/‖s‖` gives for one positive singular value.  The hypothesis states it.
Then for every input `ψ` that vanishes whenever one of the wires `0…n-1` is set and every label `b`:
`nrm · (amplitude of the output at b) = v[index of b] · ψ(b with wires 0…n-1 cleared)`, where the
index of `b` is the little-endian number on wires `0…n-1` (qiskit's state-vector index). -/
theorem plesch_assembly (n : Nat) (P : List Nat) (hs : List.Pairwise (· < ·) P)
    (hlt : ∀ a ∈ P, a < n) (lr : Int) (eff : Nat) (iso uni : String) (plan : Plan)
    (hplan : lowRankPlan n P lr eff iso uni = some plan)
    (heffA : eff ≤ 2 ^ P.length) (heffB : eff ≤ 2 ^ (n - P.length))
    (v : Nat → R) (U V : Nat → Nat → R) (t : Nat → R) (nrm : R)
    (hsvd : ∀ r c, r < 2 ^ (n - P.length) → c < 2 ^ P.length →
      sepMat n P v r c = sumTo plan.rank (fun j => U r j * (t j * nrm) * V j c))
    (Msv MU MV : Nat → Nat → R)
    (hMsv : plan.ebits > 0 → ∀ x, x < plan.rank → Msv x 0 = t x)
    (hMU : ∀ x j, x < 2 ^ plan.regB.length → j < plan.rank → MU x j = U x j)
    (hMV : ∀ y j, y < 2 ^ plan.regA.length → j < plan.rank → MV y j = V j y)
    (ht0 : plan.ebits = 0 → t 0 = 1)
    (ψ : State R) (hz : ZeroOn (List.range n) ψ) (b : Bits) :
    nrm * semP (lowRankCirc n plan Msv MU MV) ψ b
      = v (bitsVal n b) * ψ (clr (List.range n) b) := by
  have hv : ValidAxes n P := ⟨hs.imp (fun h => Nat.ne_of_lt h), hlt⟩
  obtain ⟨hrr, hre, _, hregA, hregB, _, _, _, _, _⟩ := lowRankPlan_some hplan
  -- `_create_quantum_circuit` sorts the partition; an increasing list is its own sort
  have hsortP : isort (fun a b => decide (a ≤ b)) P = P :=
    isort_sorted _ P (hs.imp (fun h => by simpa using Nat.le_of_lt h))
  rw [hsortP] at hregA hregB
  -- sizes
  have hlenA : plan.regA.length = P.length := by rw [hregA, List.length_reverse]
  have hlenB : plan.regB.length = n - P.length := by
    rw [hregB, List.length_reverse, length_restAxes hv]
  obtain ⟨_, hr2⟩ := rankRule_some hrr
  have hrankA : plan.rank ≤ 2 ^ P.length := by
    rw [hr2]; exact clp2_le_of_le_pow (Nat.le_trans (cappedRank_le _ _) heffA)
  have hrankB : plan.rank ≤ 2 ^ (n - P.length) := by
    rw [hr2]; exact clp2_le_of_le_pow (Nat.le_trans (cappedRank_le _ _) heffB)
  have heA : plan.ebits ≤ plan.regA.length := by
    rw [hlenA]; rw [hre] at hrankA
    exact (Nat.pow_le_pow_iff_right (by decide)).mp hrankA
  have heB : plan.ebits ≤ plan.regB.length := by
    rw [hlenB]; rw [hre] at hrankB
    exact (Nat.pow_le_pow_iff_right (by decide)).mp hrankB
  -- the reversed registers
  have hPl : ∀ a ∈ plan.regA, a < n := by
    intro a ha; rw [hregA] at ha; exact hlt a (List.mem_reverse.mp ha)
  have hRl : ∀ a ∈ plan.regB, a < n := by
    intro a ha; rw [hregB] at ha; exact (mem_restAxes.mp (List.mem_reverse.mp ha)).1
  have hAnd : (plan.regA.map (fun q => n - 1 - q)).Nodup :=
    nodup_map_rev (by rw [hregA]; exact List.nodup_reverse.mpr hv.nodup) hPl
  have hBnd : (plan.regB.map (fun q => n - 1 - q)).Nodup :=
    nodup_map_rev (by rw [hregB]; exact List.nodup_reverse.mpr (nodup_restAxes n P)) hRl
  have hAB : ∀ w ∈ plan.regA.map (fun q => n - 1 - q), w ∉ plan.regB.map (fun q => n - 1 - q) := by
    intro w hwA hwB
    have h1 := ((mem_map_rev hPl).mp hwA).2
    have h2 := ((mem_map_rev hRl).mp hwB).2
    rw [hregA] at h1; rw [hregB] at h2
    exact (mem_restAxes.mp (List.mem_reverse.mp h2)).2 (List.mem_reverse.mp h1)
  have hmem : ∀ w, w ∈ plan.regA.map (fun q => n - 1 - q) ++ plan.regB.map (fun q => n - 1 - q)
      ↔ w ∈ List.range n := by
    intro w; rw [hregA, hregB]; exact mem_regs_iff hv w
  have hz' : ∀ b', (∃ w ∈ plan.regA.map (fun q => n - 1 - q) ++
      plan.regB.map (fun q => n - 1 - q), b' w = true) → ψ b' = 0 :=
    ZeroOn_congr _ _ (fun w => (hmem w).symm) ψ hz
  -- the singular-value block, made explicit when phase 1 is skipped
  have hlen_eA : plan.ebits ≤ (plan.regA.map (fun q => n - 1 - q)).length := by
    rw [List.length_map]; exact heA
  have hlen_eB : plan.ebits ≤ (plan.regB.map (fun q => n - 1 - q)).length := by
    rw [List.length_map]; exact heB
  have key : ∃ Msv' : Nat → Nat → R, (∀ x, x < plan.rank → Msv' x 0 = t x) ∧
      semP (lowRankCirc n plan Msv MU MV) ψ
        = semP ([PG.block ((plan.regB.map (fun q => n - 1 - q)).take plan.ebits) Msv'] ++
            (fanList (plan.regA.map (fun q => n - 1 - q)) (plan.regB.map (fun q => n - 1 - q))
              plan.ebits).map (fun ct => PG.cx ct.1 ct.2) ++
            [PG.block (plan.regB.map (fun q => n - 1 - q)) MU,
             PG.block (plan.regA.map (fun q => n - 1 - q)) MV]) ψ := by
    rw [lowRankCirc_eq hplan heA heB]
    by_cases he : plan.ebits > 0
    · exact ⟨Msv, hMsv he, by rw [if_pos he]⟩
    · have he0 : plan.ebits = 0 := by omega
      refine ⟨fun _ _ => 1, ?_, ?_⟩
      · intro x hx
        rw [hre, he0] at hx
        have : x = 0 := by omega
        subst this
        exact (ht0 he0).symm
      · rw [if_neg he, he0, List.take_zero, List.append_assoc, List.append_assoc,
          List.singleton_append, semP_cons, denoteP_block_nil_one]
        rfl
  obtain ⟨Msv', hMsv', hsem⟩ := key
  rw [hsem, plesch_assembly_regs_sum _ _ hAnd hBnd hAB _ hlen_eA hlen_eB Msv' MU MV ψ hz' b,
    clr_congr _ _ hmem b]
  -- registers = row / column index of the state-vector index
  have hxB : regVal (plan.regB.map (fun q => n - 1 - q)) b = (sepIndexAx n P (bitsVal n b)).1 := by
    rw [hregB]; exact regVal_regB hv b
  have hyA : regVal (plan.regA.map (fun q => n - 1 - q)) b = (sepIndexAx n P (bitsVal n b)).2 := by
    rw [hregA]; exact regVal_regA hv b
  rw [hxB, hyA]
  have hb := sepIndexAx_lt hv (bitsVal n b)
  have hsv := hsvd _ _ hb.1 hb.2
  simp only [sepMat] at hsv
  rw [undo_sep_index hv _ (bitsVal_lt n b)] at hsv
  rw [hsv, ← hre, ← mul_assoc, ← sumTo_mul_left]
  congr 1
  apply sumTo_congr
  intro j hj
  rw [hMsv' j hj, hMU _ j (by rw [hlenB]; exact hb.1) hj, hMV _ j (by rw [hlenA]; exact hb.2) hj]
  ring

/-- **Plesch assembly, normalised SVD** (`‖s‖ = 1`, the case of a unit target when nothing is
cut): the output amplitude at `b` is exactly `v[index of b]·ψ(b cleared)`: `|0…0⟩ ↦ v`, amplitude
by amplitude. -/
theorem plesch_assembly_unit (n : Nat) (P : List Nat) (hs : List.Pairwise (· < ·) P)
    (hlt : ∀ a ∈ P, a < n) (lr : Int) (eff : Nat) (iso uni : String) (plan : Plan)
    (hplan : lowRankPlan n P lr eff iso uni = some plan)
    (heffA : eff ≤ 2 ^ P.length) (heffB : eff ≤ 2 ^ (n - P.length))
    (v : Nat → R) (U V : Nat → Nat → R) (t : Nat → R)
    (hsvd : ∀ r c, r < 2 ^ (n - P.length) → c < 2 ^ P.length →
      sepMat n P v r c = sumTo plan.rank (fun j => U r j * t j * V j c))
    (Msv MU MV : Nat → Nat → R)
    (hMsv : plan.ebits > 0 → ∀ x, x < plan.rank → Msv x 0 = t x)
    (hMU : ∀ x j, x < 2 ^ plan.regB.length → j < plan.rank → MU x j = U x j)
    (hMV : ∀ y j, y < 2 ^ plan.regA.length → j < plan.rank → MV y j = V j y)
    (ht0 : plan.ebits = 0 → t 0 = 1)
    (ψ : State R) (hz : ZeroOn (List.range n) ψ) (b : Bits) :
    semP (lowRankCirc n plan Msv MU MV) ψ b = v (bitsVal n b) * ψ (clr (List.range n) b) := by
  have h := plesch_assembly n P hs hlt lr eff iso uni plan hplan heffA heffB v U V t 1
    (by intro r c hr hc; rw [hsvd r c hr hc]; apply sumTo_congr; intro j _; ring)
    Msv MU MV hMsv hMU hMV ht0 ψ hz b
  rwa [one_mul] at h

end Main

/-- Non-vacuity of `plesch_assembly_unit` (rank 2, one e-bit): two qubits, partition `[0]`, the
vector `3|00⟩ + 5|11⟩` over `ℤ` (`U = V = I₂`, `t = (3, 5)`), input `|00⟩`. -/
example (b : Bits) :
    let v : Nat → Int := fun i => if i = 0 then 3 else if i = 3 then 5 else 0
    let I2 : Nat → Nat → Int := fun r j => if r = j then 1 else 0
    let t : Nat → Int := fun j => if j = 0 then 3 else 5
    let ψ0 : State Int := fun b => if b 0 || b 1 then 0 else 1
    ∃ plan, lowRankPlan 2 [0] 0 2 "ccd" "qsd" = some plan ∧ plan.rank = 2 ∧
      semP (lowRankCirc 2 plan (fun x _ => t x) I2 I2) ψ0 b
        = v (bitsVal 2 b) * ψ0 (clr (List.range 2) b) := by
  intro v I2 t ψ0
  refine ⟨_, rfl, rfl, ?_⟩
  refine plesch_assembly_unit 2 [0] (by simp) (by simp) 0 2 "ccd" "qsd" _ rfl (by decide) (by decide)
    v I2 I2 t ?_ _ _ _ (fun _ _ _ => rfl) (fun _ _ _ _ => rfl) ?_ ?_ ψ0 ?_ b
  · intro r c hr hc
    have hr' : r = 0 ∨ r = 1 := by simp at hr; omega
    have hc' : c = 0 ∨ c = 1 := by simp at hc; omega
    rcases hr' with rfl | rfl <;> rcases hc' with rfl | rfl <;> decide
  · intro y j _ _
    show I2 y j = I2 j y
    simp only [I2, eq_comm]
  · intro h; exact absurd h (by decide)
  · rintro b' ⟨w, hw, hb'⟩
    have : w = 0 ∨ w = 1 := by
      have := List.mem_range.mp hw; omega
    rcases this with rfl | rfl <;> simp [ψ0, hb']

/-- Non-vacuity of `plesch_assembly` (rank 1: `e_bits = 0`, phase 1 skipped, `t₀ = 1`, `nrm = 2`):
the product vector `(6, 12, 8, 16)` on two qubits, partition `[0]`. -/
example (b : Bits) :
    let v : Nat → Int := fun i => if i = 0 then 6 else if i = 1 then 12 else if i = 2 then 8 else 16
    let U : Nat → Nat → Int := fun r _ => if r = 0 then 1 else 2
    let V : Nat → Nat → Int := fun _ c => if c = 0 then 3 else 4
    let ψ0 : State Int := fun b => if b 0 || b 1 then 0 else 1
    ∃ plan, lowRankPlan 2 [0] 1 2 "ccd" "qsd" = some plan ∧ plan.rank = 1 ∧ plan.ebits = 0 ∧
      2 * semP (lowRankCirc 2 plan (fun _ _ => 0) U (fun y j => V j y)) ψ0 b
        = v (bitsVal 2 b) * ψ0 (clr (List.range 2) b) := by
  intro v U V ψ0
  refine ⟨_, rfl, rfl, rfl, ?_⟩
  refine plesch_assembly 2 [0] (by simp) (by simp) 1 2 "ccd" "qsd" _ rfl (by decide) (by decide)
    v U V (fun _ => 1) 2 ?_ _ _ _ ?_ (fun _ _ _ _ => rfl) (fun _ _ _ _ => rfl) (fun _ => rfl) ψ0 ?_ b
  · intro r c hr hc
    have hr' : r = 0 ∨ r = 1 := by simp at hr; omega
    have hc' : c = 0 ∨ c = 1 := by simp at hc; omega
    rcases hr' with rfl | rfl <;> rcases hc' with rfl | rfl <;> decide
  · intro h
    exact absurd h (by decide)
  · rintro b' ⟨w, hw, hb'⟩
    have : w = 0 ∨ w = 1 := by
      have := List.mem_range.mp hw; omega
    rcases this with rfl | rfl <;> simp [ψ0, hb']


end Qclib.Plesch
