import QclibModel.Proofs.WidthLinkTree
/-
  C15 link, part 2 — tightness for the model of `BdspInitialize`: the top declared wire
  `(s+1)·2^(n−s) − 2` is touched by a gate when all `angle_y` are non-zero.
-/
namespace Qclib
namespace WL
namespace Tree

section
variable {F : Type}

/-- The node reached by `d` steps `left`, then one step `right`. -/
def topNode {α : Type} : Nat → BT α → BT α
  | 0, t => t.right
  | d+1, t => topNode d t.left

/-- Where `_add_register` puts the first qubit after the left spine: on the node
`left^d · right` of a sub-tree rooted `d + 1` levels above the split; it is the qubit number
`H` (= height of the sub-tree) of the list. -/
theorem topNode_alloc (sl : Nat) : ∀ (d h lvl : Nat) (t : BT (AV F)) (qs : List Nat),
    lvl + d + 1 = sl → d + 1 ≤ h → complete (h+1) t → allocCount sl lvl (h+1) ≤ qs.length →
    ∀ t' rest, addRegAux sl lvl t qs = some (t', rest) →
    ∃ vr rl rr, topNode d t' = .node vr rl rr ∧ qs[h+1]? = some (wire vr.q)
  | _, _, _, .nil, _, _, _, hc, _, _, _, _ => by simp [complete] at hc
  | d, h, lvl, .node v l r, qs, hd, hh, hc, hlen, t', rest, he => by
    have hlt : lvl < sl := by omega
    have hcnt : allocCount sl lvl (h+1)
        = 1 + allocCount sl (lvl+1) h + allocCount sl (lvl+1) h := by simp [allocCount, hlt]
    rw [hcnt] at hlen
    cases qs with
    | nil => simp at hlen
    | cons q qs0 =>
      simp only [List.length_cons] at hlen
      obtain ⟨l', hl', spl⟩ := addRegAux_complete sl h (lvl+1) l qs0 hc.1 (by omega)
      obtain ⟨r', hr', spr⟩ := addRegAux_complete sl h (lvl+1) r
        (qs0.drop (allocCount sl (lvl+1) h)) hc.2 (by simp only [List.length_drop]; omega)
      simp only [addRegAux, hlt, if_true, hl', hr', Option.some.injEq, Prod.mk.injEq] at he
      obtain ⟨rfl, -⟩ := he
      obtain ⟨h', rfl⟩ : ∃ h', h = h' + 1 := ⟨h - 1, by omega⟩
      cases d with
      | zero =>
        have hcl : allocCount sl (lvl+1) (h'+1) = h' + 1 := by
          simp [allocCount, show ¬ (lvl + 1 < sl) by omega]
        obtain ⟨vr, rl, rr, rfl, -, -⟩ := (complete_succ_iff h' r').1 spr.shape
        refine ⟨vr, rl, rr, rfl, ?_⟩
        have hsp := spr.spineW
        rw [hcl] at hsp hlen
        have hlen' : h' + 1 < qs0.length := by omega
        simp only [leftSpine] at hsp
        have h0 : ((List.drop (h'+1) qs0).take (h'+1))[0]? = some (wire vr.q) := by
          rw [← hsp]; rfl
        rw [List.getElem?_take, if_pos (by omega), List.getElem?_drop] at h0
        simpa using h0
      | succ d =>
        obtain ⟨vr, rl, rr, htn, hq⟩ := topNode_alloc sl d h' (lvl+1) l qs0 (by omega) (by omega)
          hc.1 (by omega) l' _ hl'
        exact ⟨vr, rl, rr, htn, by simpa using hq⟩

variable (o : TOps F)

/-- `bottom_up` emits the first controlled swap of the node `left^d`, whose second swapped wire
is the qubit of `left^d · right`. -/
theorem uses_bottomUp_topNode (sl : Nat) : ∀ (d h lvl : Nat) (t : BT (QV F)),
    lvl + d + 1 = sl → d + 1 ≤ h → complete (h+1) t →
    (∀ v ∈ t.preorder, o.neZero v.y = true) →
    ∀ vr rl rr, topNode d t = .node vr rl rr → Uses G.wires (wire vr.q) (bottomUp o sl lvl t)
  | _, _, _, .nil, _, _, hc, _, _, _, _, _ => by simp [complete] at hc
  | d, h, lvl, .node v l r, hd, hh, hc, hnz, vr, rl, rr, htn => by
    unfold bottomUp
    rw [if_pos (by omega)]
    obtain ⟨h', rfl⟩ : ∃ h', h = h' + 1 := ⟨h - 1, by omega⟩
    cases d with
    | zero =>
      simp only [topNode, BT.right] at htn
      subst htn
      obtain ⟨vl, ll, lr, rfl, -, -⟩ := (complete_succ_iff h' l).1 hc.1
      apply uses_append_right
      simp only [applyCswaps]
      rw [if_pos (hnz v (by simp only [BT.preorder]; exact List.mem_cons_self))]
      unfold cswapChain
      exact uses_cons_self _ (by simp [G.wires])
    | succ d =>
      simp only [topNode, BT.left] at htn
      apply uses_append_left; apply uses_append_left; apply uses_append_right
      exact uses_bottomUp_topNode sl d h' (lvl+1) l (by omega) (by omega) hc.1
        (fun v' hv' => hnz v' (by
          simp only [BT.preorder]; exact List.mem_cons_of_mem _ (List.mem_append_left _ hv')))
        vr rl rr htn

/-- The root's `ry` of a `top_down` block: emitted when `angle_y` passes both guards. -/
theorem uses_topDown_root (v : QV F) (l r : BT (QV F)) (hy : o.neZero v.y = true)
    (hng : o.aops.negl v.y = false) :
    Uses G.wires (wire v.q) (topDown o 0 0 (.node v l r)) := by
  unfold topDown
  rw [if_neg (by omega)]
  unfold topDownChain
  apply uses_append_left
  unfold levelMux
  simp only []
  apply uses_append_left
  have hany : ([BT.node v l r].map fun t => (t.valD ⟨o.zero, o.zero, none⟩).y).any o.neZero
      = true := by simp [BT.valD, hy]
  rw [if_pos hany]
  have hucr : ∀ last, ucr o.aops .Y .CX (Nat.log2 [BT.node v l r].length)
      (fun i => ([BT.node v l r].map fun t => (t.valD ⟨o.zero, o.zero, none⟩).y).getD i o.zero) last
      = [G.ry v.y 0] := by
    intro last
    show ucr o.aops .Y .CX (Nat.log2 1) _ last = _
    rw [show Nat.log2 1 = 0 by decide]
    unfold ucr
    simp [BT.valD, hng, rotG]
  rw [hucr]
  refine ⟨_, List.mem_map_of_mem List.mem_cons_self, ?_⟩
  simp [G.mapWires, G.wires, BT.valD]

theorem qubitOrder_get_top (n W : Nat) (h : n < W) : (qubitOrder n W)[n]? = some (W - 1) := by
  rw [qubitOrder_eq n W (by omega), List.getElem?_append_right (by simp)]
  simp only [List.length_reverse, List.length_range, Nat.sub_self]
  rw [List.getElem?_reverse (by simp; omega)]
  simp only [List.length_range']
  rw [List.getElem?_range' (by omega)]
  congr 1; omega

end
end Tree

open Qclib.WL.Tree

section
variable {F : Type} (o : TOps F)

/-- **BdspInitialize, tightness of the top wire.**  For every `n ≥ 1` and split `1 ≤ s ≤ n`: if
every node of the angle tree has `angle_y != 0` (the test guarding the controlled swaps and the
`ry` gates — true when all amplitudes are non-zero), and, only in the case `s = n` (no
`bottom_up` level; the circuit is the `top_down` cascade on `n` wires), the root's `angle_y` is
also not negligible for `ucr` (`abs(angle) > 1e-8`), then the top declared wire
`(s+1)·2^(n−s) − 2` is touched by a gate.  For `s < n` the gate is the first controlled swap of
the node `left^(n−s−1)` of the tree (its second swapped wire); for `s = n` it is the root's `ry`. -/
theorem bdsp_uses_top (n s : Nat) (hs : 1 ≤ s) (hn : s ≤ n) (leaves : Nat → SV F)
    (out : TreeOut F) (hout : bdsp o (2^n) leaves (some s) = some out)
    (hy : ∀ v ∈ (angleTree o (stateTree o n leaves)).preorder, o.neZero v.y = true)
    (hneg : s = n → ∀ v l r, angleTree o (stateTree o n leaves) = .node v l r →
      o.aops.negl v.y = false) :
    Uses G.wires (Widths.declaredWidth .bdsp { len := 2^n, s := s } - 1) out.gates := by
  obtain ⟨m, rfl⟩ : ∃ m, n = m + 1 := ⟨n - 1, by omega⟩
  have hc := angleTree_complete o m leaves
  obtain ⟨a, ha, hq, hno, -, -, -, spec⟩ := addRegister_complete (m+1) s hs hn _ hc
  have hreg := addRegister_some ha
  simp only [bdsp, Nat.log2_two_pow, Option.getD_some, ha] at hout
  rw [if_neg (by omega)] at hout
  simp only [Option.some.injEq] at hout
  subst hout
  rw [tree_declared_bdsp]
  show Uses G.wires _ (topDown o (m + 1 - s) 0 a.tree ++ bottomUp o (m + 1 - s) 0 a.tree)
  have hnq : a.nqubits = (s + 1) * 2^(m + 1 - s) - 1 := by omega
  have hyq : ∀ v ∈ a.tree.preorder, o.neZero v.y = true := by
    intro v hv
    have h1 : (⟨v.y, v.z⟩ : AV F) ∈ (angleTree o (stateTree o (m+1) leaves)).preorder := by
      rw [← spec.angles_eq]
      unfold angles
      rw [preorder_map]
      exact List.mem_map_of_mem hv
    exact hy _ h1
  obtain ⟨v, l, r, ht, -, -⟩ := (complete_succ_iff m a.tree).1 spec.shape
  by_cases hsn : s = m + 1
  · subst hsn
    apply uses_append_left
    rw [Nat.sub_self] at *
    have hsp := spec.spineW
    have hang := spec.angles_eq
    rw [ht] at hsp hang
    rw [qubitOrder_take, List.range_succ, List.reverse_append] at hsp
    simp only [leftSpine, List.reverse_singleton, List.singleton_append, List.cons.injEq] at hsp
    have hng := hneg rfl ⟨v.y, v.z⟩ _ _ (by rw [← hang]; rfl)
    simp only [] at hng
    rw [ht, show (m + 1 + 1) * 2 ^ 0 - 1 - 1 = m by omega, ← hsp.1]
    exact uses_topDown_root o v l r (hyq v (by rw [ht]; simp [BT.preorder])) hng
  · apply uses_append_right
    have hw2 : m + 3 ≤ (s + 1) * 2^(m + 1 - s) := by
      obtain ⟨d, hd⟩ : ∃ d, m + 1 - s = d + 1 := ⟨m - s, by omega⟩
      have h2 := two_pow_ge (d + 1)
      have h3 : (s + 1) * (d + 2) ≤ (s + 1) * 2^(d + 1) := Nat.mul_le_mul_left _ h2
      rw [hd]
      have h4 : (s + 1) * (d + 2) = s * d + 2 * s + d + 2 := by
        rw [Nat.add_mul, Nat.mul_add, Nat.one_mul]; omega
      have : 0 ≤ s * d := Nat.zero_le _
      have h5 : 1 ≤ s * d ∨ d = 0 := by
        rcases Nat.eq_zero_or_pos d with h | h
        · exact Or.inr h
        · exact Or.inl (Nat.mul_pos (by omega) h)
      omega
    rw [hno] at hreg
    have hcnt : allocCount (m + 1 - s) 0 (m+1) ≤ (qubitOrder (m+1) a.nqubits).length := by
      rw [qubitOrder_length _ _ (by omega)]
      have h2 := allocCount_closed (m + 1 - s) (m + 1 - s) 0 (m+1) (by omega) (by omega)
      rw [show m + 1 - (m + 1 - s) = s by omega] at h2
      have h3 : (s + 1) * 2^(m + 1 - s) = 2^(m + 1 - s) + 2^(m + 1 - s) * s := by
        rw [Nat.mul_comm, Nat.mul_add, Nat.mul_one, Nat.add_comm]
      omega
    obtain ⟨vr, rl, rr, htn, hget⟩ := topNode_alloc (m + 1 - s) (m - s) m 0 _ _ (by omega)
      (by omega) hc hcnt _ _ hreg
    rw [hnq, qubitOrder_get_top _ _ (by omega)] at hget
    simp only [Option.some.injEq] at hget
    rw [hget]
    exact uses_bottomUp_topNode o (m + 1 - s) (m - s) m 0 a.tree (by omega) (by omega) spec.shape
      hyq vr rl rr htn

end

/-! ### Non-vacuity (toy integer instance, kernel-evaluated) -/

/-- A toy instance whose `angle_y` never vanish (any `TOps` is admissible in the theorems). -/
def Tree.toyOpsY : TOps Int := { toyOps with div := fun a b => a + b + 1 }

-- both hypotheses of `bdsp_uses_top` hold on this instance (n = 4) …
example : ∀ v ∈ (angleTree Tree.toyOpsY (stateTree Tree.toyOpsY 4 toyLeaves)).preorder,
    Tree.toyOpsY.neZero v.y = true := by decide
example : Tree.toyOpsY.aops.negl
    ((angleTree Tree.toyOpsY (stateTree Tree.toyOpsY 4 toyLeaves)).valD ⟨0, 0⟩).y = false := by
  decide
-- … and the conclusion, checked independently, splits 1, 2, 3, 4: top wires 14, 10, 6, 3
example : onGates (bdsp Tree.toyOpsY 16 toyLeaves (some 1)) (·.gates) (Uses G.wires 14) := by decide
example : onGates (bdsp Tree.toyOpsY 16 toyLeaves (some 2)) (·.gates) (Uses G.wires 10) := by decide
example : onGates (bdsp Tree.toyOpsY 16 toyLeaves (some 3)) (·.gates) (Uses G.wires 6) := by decide
example : onGates (bdsp Tree.toyOpsY 16 toyLeaves (some 4)) (·.gates) (Uses G.wires 3) := by decide

end WL
end Qclib

