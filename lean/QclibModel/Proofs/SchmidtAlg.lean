import QclibModel.Proofs.SchmidtIndex
import Mathlib.Algebra.BigOperators.Ring.Finset
import Mathlib.Algebra.Star.BigOperators
import Mathlib.Algebra.Field.Basic
import Mathlib.Tactic.Ring
/-
  C09 / C07: finite-sum algebra of the Schmidt composition and of the truncation's overlap with
  the target.  Matrices are functions `Nat → Nat → K`; all sums are the explicit `sumTo`.
-/
namespace Qclib.Schmidt
open Finset

section Sums
variable {R : Type} [AddCommMonoid R]

theorem sumTo_eq_sum (k : Nat) (f : Nat → R) : sumTo k f = ∑ i ∈ range k, f i := by
  induction k with
  | zero => simp [sumTo]
  | succ k ih => rw [sumTo, ih, Finset.sum_range_succ]

theorem sumTo_congr (k : Nat) (f g : Nat → R) (h : ∀ i, i < k → f i = g i) : sumTo k f = sumTo k g := by
  rw [sumTo_eq_sum, sumTo_eq_sum]
  exact Finset.sum_congr rfl (fun i hi => h i (Finset.mem_range.mp hi))

/-- Terms that vanish beyond `r` may be dropped. -/
theorem sumTo_truncate (k r : Nat) (f : Nat → R) (hle : r ≤ k)
    (h0 : ∀ i, r ≤ i → i < k → f i = 0) : sumTo k f = sumTo r f := by
  induction k with
  | zero => have : r = 0 := by omega
            subst this; rfl
  | succ k ih =>
    by_cases hr : r = k + 1
    · subst hr; rfl
    · have hle' : r ≤ k := by omega
      rw [sumTo, h0 k hle' (Nat.lt_succ_self k), add_zero]
      exact ih hle' (fun i h1 h2 => h0 i h1 (Nat.lt_succ_of_lt h2))

theorem sum4_reorder (A B C D : Finset Nat) (F : Nat → Nat → Nat → Nat → R) :
    ∑ r ∈ A, ∑ c ∈ B, ∑ i ∈ C, ∑ j ∈ D, F r c i j
      = ∑ i ∈ C, ∑ j ∈ D, ∑ r ∈ A, ∑ c ∈ B, F r c i j := by
  calc ∑ r ∈ A, ∑ c ∈ B, ∑ i ∈ C, ∑ j ∈ D, F r c i j
      = ∑ r ∈ A, ∑ i ∈ C, ∑ c ∈ B, ∑ j ∈ D, F r c i j :=
        Finset.sum_congr rfl (fun _ _ => Finset.sum_comm)
    _ = ∑ i ∈ C, ∑ r ∈ A, ∑ c ∈ B, ∑ j ∈ D, F r c i j := Finset.sum_comm
    _ = ∑ i ∈ C, ∑ r ∈ A, ∑ j ∈ D, ∑ c ∈ B, F r c i j :=
        Finset.sum_congr rfl (fun _ _ => Finset.sum_congr rfl (fun _ _ => Finset.sum_comm))
    _ = ∑ i ∈ C, ∑ j ∈ D, ∑ r ∈ A, ∑ c ∈ B, F r c i j :=
        Finset.sum_congr rfl (fun _ _ => Finset.sum_comm)

end Sums

/-! ### composition returns the vector (C09) -/

theorem compose_correct {R : Type} [CommRing R] {n : Nat} {src : List Nat} (hv : ValidAxes n src)
    (v : Nat → R) (k rank : Nat) (U : Nat → Nat → R) (s : Nat → R) (V : Nat → Nat → R)
    (hsvd : ∀ r c, r < 2 ^ (n - src.length) → c < 2 ^ src.length →
      sepMat n src v r c = sumTo k (fun i => U r i * s i * V i c))
    (hle : rank ≤ k) (hzero : ∀ i, rank ≤ i → i < k → s i = 0) (i : Nat) (hi : i < 2 ^ n) :
    schmidtCompose n src rank U s V i = v i := by
  have hb := sepIndexAx_lt hv i
  have h := hsvd _ _ hb.1 hb.2
  simp only [sepMat] at h
  rw [undo_sep_index hv i hi] at h
  simp only [schmidtCompose, undoVec, composeMat]
  rw [h]
  symm
  apply sumTo_truncate _ _ _ hle
  intro j h1 h2
  rw [hzero j h1 h2]; ring

/-! ### overlaps (C07) -/

section Overlap
variable {K : Type} [CommRing K] [StarRing K]

/-- Gram matrix of the columns of `U` (`rows` entries each). -/
def gramCols (rows : Nat) (U : Nat → Nat → K) (i j : Nat) : K :=
  sumTo rows (fun r => star (U r i) * U r j)

/-- Gram matrix of the rows of `V` (`cols` entries each). -/
def gramRows (cols : Nat) (V : Nat → Nat → K) (i j : Nat) : K :=
  sumTo cols (fun c => star (V i c) * V j c)

theorem inner2_compose (rows cols k r : Nat) (U : Nat → Nat → K) (s t : Nat → K) (V : Nat → Nat → K) :
    inner2 star rows cols (composeMat k U s V) (composeMat r U t V)
      = sumTo k (fun i => sumTo r (fun j =>
          star (s i) * t j * (gramCols rows U i j * gramRows cols V i j))) := by
  simp only [inner2, composeMat, gramCols, gramRows, sumTo_eq_sum]
  have hL : ∀ a b, star (∑ i ∈ range k, U a i * s i * V i b) * (∑ j ∈ range r, U a j * t j * V j b)
      = ∑ i ∈ range k, ∑ j ∈ range r, star (U a i * s i * V i b) * (U a j * t j * V j b) := by
    intro a b; rw [star_sum, Finset.sum_mul_sum]
  have hR : ∀ i j, star (s i) * t j *
        ((∑ a ∈ range rows, star (U a i) * U a j) * (∑ b ∈ range cols, star (V i b) * V j b))
      = ∑ a ∈ range rows, ∑ b ∈ range cols,
          star (s i) * t j * ((star (U a i) * U a j) * (star (V i b) * V j b)) := by
    intro i j
    rw [Finset.sum_mul_sum, Finset.mul_sum]
    refine Finset.sum_congr rfl (fun a _ => ?_)
    rw [Finset.mul_sum]
  simp only [hL, hR]
  rw [sum4_reorder]
  refine Finset.sum_congr rfl (fun i _ => Finset.sum_congr rfl (fun j _ => ?_))
  refine Finset.sum_congr rfl (fun a _ => Finset.sum_congr rfl (fun b _ => ?_))
  simp only [star_mul']
  ring

/-- With orthonormal columns of `U` and rows of `V` (indices `< k`) the overlap of two
compositions sharing the factors is `Σ_{j<r} conj(s_j)·t_j`. -/
theorem inner2_orthonormal (rows cols k r : Nat) (hle : r ≤ k) (U : Nat → Nat → K) (s t : Nat → K)
    (V : Nat → Nat → K)
    (hU : ∀ i j, i < k → j < k → gramCols rows U i j = if i = j then 1 else 0)
    (hV : ∀ i j, i < k → j < k → gramRows cols V i j = if i = j then 1 else 0) :
    inner2 star rows cols (composeMat k U s V) (composeMat r U t V)
      = sumTo r (fun j => star (s j) * t j) := by
  rw [inner2_compose]
  have h1 : ∀ i, i < k → sumTo r (fun j => star (s i) * t j * (gramCols rows U i j * gramRows cols V i j))
      = sumTo r (fun j => if i = j then star (s i) * t j else 0) := by
    intro i hi
    apply sumTo_congr
    intro j hj
    rw [hU i j hi (by omega), hV i j hi (by omega)]
    split <;> simp
  rw [sumTo_congr _ _ _ h1]
  simp only [sumTo_eq_sum]
  rw [Finset.sum_comm]
  refine Finset.sum_congr rfl (fun j hj => ?_)
  rw [Finset.sum_ite_eq' (range k) j (fun i => star (s i) * t j)]
  have : j ∈ range k := Finset.mem_range.mpr (by have := Finset.mem_range.mp hj; omega)
  rw [if_pos this]

end Overlap

/-! ### renormalised truncation (C07) -/

section Field
variable {K : Type} [Field K] [StarRing K]

omit [StarRing K] in
theorem sumTo_div {k : Nat} (f : Nat → K) (c : K) : sumTo k (fun i => f i / c) = sumTo k f / c := by
  simp only [sumTo_eq_sum, div_eq_mul_inv, Finset.sum_mul]

omit [StarRing K] in
theorem composeMat_renorm (rank : Nat) (U : Nat → Nat → K) (s : Nat → K) (V : Nat → Nat → K) (N : K)
    (r c : Nat) : composeMat rank U (renorm N s) V r c = composeMat rank U s V r c / N := by
  simp only [composeMat, renorm]
  rw [← sumTo_div]
  apply sumTo_congr
  intro i _
  ring

/-- Overlap of the target `Σ_{i<k} u_i s_i v_i` with the renormalised `r`-term truncation is `N`,
where `N·N = Σ_{i<r} s_i²`, `N ≠ 0`; coefficients real (`star s_i = s_i`). -/
theorem overlap_truncation (rows cols k r : Nat) (hle : r ≤ k) (U : Nat → Nat → K) (s : Nat → K)
    (V : Nat → Nat → K) (N : K)
    (hU : ∀ i j, i < k → j < k → gramCols rows U i j = if i = j then 1 else 0)
    (hV : ∀ i j, i < k → j < k → gramRows cols V i j = if i = j then 1 else 0)
    (hs : ∀ i, star (s i) = s i) (hN : N ≠ 0) (hNN : N * N = sumTo r (fun i => s i * s i)) :
    inner2 star rows cols (composeMat k U s V) (composeMat r U (renorm N s) V) = N := by
  rw [inner2_orthonormal rows cols k r hle U s (renorm N s) V hU hV]
  have : sumTo r (fun j => star (s j) * renorm N s j) = sumTo r (fun i => s i * s i) / N := by
    rw [← sumTo_div]
    apply sumTo_congr
    intro i _
    simp only [renorm, hs]; ring
  rw [this, ← hNN, mul_div_assoc, div_self hN, mul_one]

theorem norm_truncation (rows cols k r : Nat) (hle : r ≤ k) (U : Nat → Nat → K) (s : Nat → K)
    (V : Nat → Nat → K) (N : K)
    (hU : ∀ i j, i < k → j < k → gramCols rows U i j = if i = j then 1 else 0)
    (hV : ∀ i j, i < k → j < k → gramRows cols V i j = if i = j then 1 else 0)
    (hs : ∀ i, star (s i) = s i) (hNs : star N = N) (hN : N ≠ 0)
    (hNN : N * N = sumTo r (fun i => s i * s i)) :
    inner2 star rows cols (composeMat r U (renorm N s) V) (composeMat r U (renorm N s) V) = 1 := by
  have hU' : ∀ i j, i < r → j < r → gramCols rows U i j = if i = j then 1 else 0 :=
    fun i j hi hj => hU i j (by omega) (by omega)
  have hV' : ∀ i j, i < r → j < r → gramRows cols V i j = if i = j then 1 else 0 :=
    fun i j hi hj => hV i j (by omega) (by omega)
  rw [inner2_orthonormal rows cols r r (Nat.le_refl r) U _ _ V hU' hV']
  have : sumTo r (fun j => star (renorm N s j) * renorm N s j)
      = sumTo r (fun i => s i * s i) / (N * N) := by
    rw [← sumTo_div]
    apply sumTo_congr
    intro i _
    simp only [renorm, star_div₀, hs, hNs]
    rw [div_mul_div_comm]
  rw [this, ← hNN, div_self (mul_ne_zero hN hN)]

theorem norm_target (rows cols k : Nat) (U : Nat → Nat → K) (s : Nat → K) (V : Nat → Nat → K)
    (hU : ∀ i j, i < k → j < k → gramCols rows U i j = if i = j then 1 else 0)
    (hV : ∀ i j, i < k → j < k → gramRows cols V i j = if i = j then 1 else 0)
    (hs : ∀ i, star (s i) = s i) :
    inner2 star rows cols (composeMat k U s V) (composeMat k U s V) = sumTo k (fun i => s i * s i) := by
  rw [inner2_orthonormal rows cols k k (Nat.le_refl k) U s s V hU hV]
  apply sumTo_congr
  intro i _
  rw [hs]

end Field

/-! ### Plesch assembly: fan-out then `U ⊗ Vᵀ` -/

theorem assembly {R : Type} [CommRing R] (A B rank : Nat) (hA : rank ≤ A) (hB : rank ≤ B)
    (U W : Nat → Nat → R) (t : Nat → R) (x' y' : Nat) :
    sumTo A (fun x => sumTo B (fun y => U x' x * W y' y * (if x = y ∧ x < rank then t x else 0)))
      = sumTo rank (fun j => U x' j * t j * W y' j) := by
  have hin : ∀ x, sumTo B (fun y => U x' x * W y' y * (if x = y ∧ x < rank then t x else 0))
      = if x < rank then U x' x * t x * W y' x else 0 := by
    intro x
    rw [sumTo_eq_sum]
    by_cases hx : x < rank
    · rw [if_pos hx, Finset.sum_eq_single x]
      · simp [hx]; ring
      · intro y _ hy
        rw [if_neg (fun h => hy h.1.symm), mul_zero]
      · intro hnot
        exact absurd (Finset.mem_range.mpr (by omega)) hnot
    · rw [if_neg hx]
      apply Finset.sum_eq_zero
      intro y _
      rw [if_neg (fun h => hx h.2), mul_zero]
  rw [sumTo_congr A _ _ (fun x _ => hin x)]
  rw [sumTo_truncate A rank _ hA (fun i h1 _ => by rw [if_neg (by omega)])]
  apply sumTo_congr
  intro i hi
  rw [if_pos hi]

/-! ### sorted singular values: what the rank rule keeps -/

theorem effRank_sorted_tail {α : Type} [LinearOrder α] (thr : α) (s : List α)
    (hs : List.Pairwise (fun a b => b ≤ a) s) (i : Nat) (hi : effRank thr s ≤ i) (h : i < s.length) :
    s[i] ≤ thr := by
  induction s generalizing i with
  | nil => simp at h
  | cons a as ih =>
    rw [List.pairwise_cons] at hs
    unfold effRank at hi
    by_cases ha : thr < a
    · rw [List.filter_cons_of_pos (by simpa using ha), List.length_cons] at hi
      cases i with
      | zero => omega
      | succ i =>
        simp only [List.getElem_cons_succ]
        exact ih hs.2 i (by unfold effRank; omega) (by simpa using h)
    · have ha' : a ≤ thr := not_lt.mp ha
      cases i with
      | zero => simpa using ha'
      | succ i =>
        simp only [List.getElem_cons_succ]
        exact le_trans (hs.1 _ (List.getElem_mem _)) ha'

end Qclib.Schmidt
