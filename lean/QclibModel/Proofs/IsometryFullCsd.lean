import QclibModel.Proofs.UnitaryFullQsd
import QclibModel.Proofs.IsometryFullKnill
/-
  C03 — scheme `'csd'`: `_csd(iso, n, m) = unitary(_extend_to_unitary(iso), "qsd", iso = n-m)`.
  Corollary of the whole-recursion theorem of C02 in isometry mode: on an input `|j0⟩ ⊗ φ` whose
  top `n-m` wires (of the `n` circuit wires) read `0`, the model's whole gate list produces
  (column `j0` of the extended unitary) `⊗ φ` — and the leading columns of the extension are the
  isometry (`C03_extend`).
-/
namespace Qclib.Iso
open Qclib Qclib.Uni Matrix RotSem

variable {Θ R : Type} [AddCommGroup Θ] [CommRing R] [StarRing R] [RotSem Θ R] [RotLaws Θ R]

omit [AddCommGroup Θ] [StarRing R] [RotSem Θ R] [RotLaws Θ R] in
/-- `|j0⟩ ⊗ φ` with the top `t` wires of `j0` reading `0` is supported on labels whose wires
`n-t … n-1` read `0`. -/
theorem ket_support (n t : Nat) (j0 : QI n) (hj0 : TopZero n t j0) (φ : State R) (b : Bits)
    (hb : ∃ q, n - t ≤ q ∧ q < n ∧ b q = true) : Knill.ket n j0 φ b = 0 := by
  obtain ⟨q, h1, h2, hq⟩ := hb
  unfold Knill.ket
  by_cases he : enc n b = j0
  · have := hj0 q h1 h2
    rw [← he, bitOf_enc n b h2, hq] at this
    exact absurd this (by decide)
  · rw [if_neg he]

/-- **scheme `'csd'` as a whole.** -/
theorem iso_csd_full (half : Θ → Θ) (negl : Θ → Bool)
    (hhalf : ∀ a, half a + half a = a) (hadd : ∀ a b, half (a + b) = half a + half b)
    (hnegl : ∀ a, negl a = true → a = 0) (hex : ∀ a : Θ, star (ex a : R) = ex (-a))
    {n iso : Nat} {U : Matrix (QI n) (QI n) R} {tape : Tape Θ} {leaves : List (Leaf R)}
    (h : QsdSynth (.one n iso U) tape leaves) (j0 : QI n) (hj0 : TopZero n iso j0)
    (φ : State R) (hφ : ∀ j b, φ (over n j b) = φ b) (b : Bits) :
    (runUG (buildUnitary (stdUOps half negl) Dec.qsd n iso tape).1 leaves (Knill.ket n j0 φ)).1 b
      = U (enc n b) j0 * φ b := by
  obtain ⟨_, C, h2, h3⟩ := qsd_full half negl hhalf hadd hnegl hex h
  rw [h2, applyMat_leadEq h3 _ (fun b hb => ket_support n iso j0 hj0 φ b hb)]
  exact Knill.applyMat_ket n U j0 φ hφ b

end Qclib.Iso
