import QclibModel.Proofs.SparsePivotTotalE
/-
  C06 — PivotInitialize, whole circuit (part F): the dense hand-off.
  `int(key, 2)` is injective on keys of equal length, `dense_state[int(key, 2)] = value` builds the
  vector whose entry at `int(s, 2)` is the dictionary's amplitude of `s` (zero if `s` is no key), and
  the statement assumed of the dense initializer (property C01), `DenseOn`.
-/
namespace Qclib.Sparse
open Qclib

variable {α : Type}

/-! ### `int(key, 2)` -/

theorem strToNat_inj (n : Nat) : ∀ s1 s2 : Str, s1.length = n → s2.length = n →
    strToNat s1 = strToNat s2 → s1 = s2 := by
  induction n with
  | zero =>
    intro s1 s2 h1 h2 _
    rw [List.length_eq_zero_iff.mp h1, List.length_eq_zero_iff.mp h2]
  | succ n ih =>
    intro s1 s2 h1 h2 h
    rcases List.eq_nil_or_concat s1 with e1 | ⟨a1, b1, e1⟩
    · rw [e1] at h1; simp at h1
    rcases List.eq_nil_or_concat s2 with e2 | ⟨a2, b2, e2⟩
    · rw [e2] at h2; simp at h2
    subst e1 e2
    simp only [List.concat_eq_append] at h h1 h2 ⊢
    rw [strToNat_append_one, strToNat_append_one] at h
    simp only [List.length_append, List.length_singleton] at h1 h2
    have hb : b1 = b2 := by
      cases b1 <;> cases b2 <;> simp at h ⊢ <;> omega
    subst hb
    have ha : strToNat a1 = strToNat a2 := by omega
    rw [ih a1 a2 (by omega) (by omega) ha]

/-! ### `dense_state` -/

/-- the zero entry of `np.zeros(2**t, dtype=complex)` -/
def zeroAmp [NumOps α] : Amp α := ⟨NumOps.zero, NumOps.zero, true⟩

/-- one pass of `dense_state[int(key, 2)] = value` -/
def denseStep (acc : Option (List (Amp α))) (kv : Str × Amp α) : Option (List (Amp α)) :=
  match acc with
  | none => none
  | some v => if strToNat kv.1 < v.length then some (v.set (strToNat kv.1) kv.2) else none

theorem denseVec_eq [NumOps α] (t : Nat) (st : Dict α) :
    denseVec t st = st.foldl denseStep (some (List.replicate (2 ^ t) zeroAmp)) := rfl

theorem denseFold_spec (z : Amp α) (st : Dict α) : ∀ (v0 : List (Amp α)),
    (∀ kv ∈ st, strToNat kv.1 < v0.length) →
    st.Pairwise (fun a b => strToNat a.1 ≠ strToNat b.1) →
    ∃ v, st.foldl denseStep (some v0) = some v ∧ v.length = v0.length ∧
      (∀ kv ∈ st, v.getD (strToNat kv.1) z = kv.2) ∧
      (∀ j, (∀ kv ∈ st, strToNat kv.1 ≠ j) → v.getD j z = v0.getD j z) := by
  induction st with
  | nil => intro v0 _ _; exact ⟨v0, rfl, rfl, by simp, fun _ _ => rfl⟩
  | cons kv rest ih =>
    intro v0 hlt hpw
    have hkv := hlt kv (List.mem_cons_self ..)
    obtain ⟨v, hv, hlen, hin, hout⟩ := ih (v0.set (strToNat kv.1) kv.2)
      (fun kv' h' => by rw [List.length_set]; exact hlt kv' (List.mem_cons_of_mem _ h'))
      (List.pairwise_cons.mp hpw).2
    refine ⟨v, ?_, by rw [hlen, List.length_set], ?_, ?_⟩
    · rw [List.foldl_cons]
      show List.foldl denseStep (if strToNat kv.1 < v0.length then some (v0.set (strToNat kv.1) kv.2) else none) rest = _
      rw [if_pos hkv, hv]
    · intro kv' hkv'
      rcases List.mem_cons.mp hkv' with rfl | h'
      · rw [hout _ (fun kv'' h'' => Ne.symm ((List.pairwise_cons.mp hpw).1 kv'' h''))]
        simp [List.getD_eq_getElem?_getD, hkv]
      · exact hin kv' h'
    · intro j hj
      rw [hout j (fun kv' h' => hj kv' (List.mem_cons_of_mem _ h'))]
      have : strToNat kv.1 ≠ j := hj kv (List.mem_cons_self ..)
      simp [List.getD_eq_getElem?_getD, this]

theorem lookup_of_mem (d : Dict α) (hnd : d.keys.Nodup) (kv : Str × Amp α) (h : kv ∈ d) :
    d.lookup kv.1 = some kv.2 := by
  induction d with
  | nil => simp at h
  | cons a d ih =>
    unfold Dict.lookup
    rw [List.find?_cons]
    have hnd' : a.1 ∉ Dict.keys d ∧ (Dict.keys d).Nodup := by
      simpa [Dict.keys] using hnd
    rcases List.mem_cons.mp h with rfl | h'
    · simp
    · have hne : a.1 ≠ kv.1 := by
        intro e
        apply hnd'.1
        rw [e]; exact List.mem_map.mpr ⟨kv, h', rfl⟩
      have : (a.1 == kv.1) = false := by simpa using hne
      rw [this]
      exact ih hnd'.2 h'

theorem lookup_none_of_not_mem (d : Dict α) (s : Str) (h : s ∉ d.keys) : d.lookup s = none := by
  unfold Dict.lookup
  rw [Option.map_eq_none_iff, List.find?_eq_none]
  intro kv hkv hc
  apply h
  have : kv.1 = s := by simpa using hc
  rw [← this]; exact List.mem_map.mpr ⟨kv, hkv, rfl⟩

/-- **`dense_state`**: the vector built from a dictionary of distinct `n`-character keys, all
`< 2^t` as integers, exists (no `IndexError`), has length `2^t`, and its entry at `int(s, 2)` is
the amplitude of `s` — the zero entry if `s` is not a key. -/
theorem denseVec_spec [NumOps α] (n t : Nat) (st : Dict α) (hnd : st.keys.Nodup)
    (hlen : ∀ k ∈ st.keys, k.length = n) (hlt : ∀ k ∈ st.keys, strToNat k < 2 ^ t) :
    ∃ v, denseVec t st = some v ∧ v.length = 2 ^ t ∧
      ∀ s : Str, s.length = n → v.getD (strToNat s) zeroAmp = (st.lookup s).getD zeroAmp := by
  have hmemk : ∀ kv ∈ st, kv.1 ∈ st.keys := fun kv h => List.mem_map.mpr ⟨kv, h, rfl⟩
  have hpw : st.Pairwise (fun a b => strToNat a.1 ≠ strToNat b.1) := by
    have h1 : st.Pairwise (fun a b => a.1 ≠ b.1) := by
      have := hnd
      unfold Dict.keys at this
      rwa [List.Nodup, List.pairwise_map] at this
    refine h1.imp_of_mem ?_
    intro a b ha hb hne e
    exact hne (strToNat_inj n a.1 b.1 (hlen _ (hmemk a ha)) (hlen _ (hmemk b hb)) e)
  obtain ⟨v, hv, hl, hin, hout⟩ := denseFold_spec zeroAmp st (List.replicate (2 ^ t) zeroAmp)
    (fun kv h => by rw [List.length_replicate]; exact hlt _ (hmemk kv h)) hpw
  refine ⟨v, by rw [denseVec_eq, hv], by rw [hl, List.length_replicate], ?_⟩
  intro s hs
  by_cases hmem : s ∈ st.keys
  · obtain ⟨kv, hkv, rfl⟩ := List.mem_map.mp hmem
    rw [hin kv hkv, lookup_of_mem st hnd kv hkv]; rfl
  · rw [lookup_none_of_not_mem st s hmem, hout]
    · simp [List.getD_eq_getElem?_getD, List.getElem?_replicate]
      split <;> rfl
    · intro kv hkv e
      apply hmem
      rw [← strToNat_inj n kv.1 s (hlen _ (hmemk kv hkv)) hs e]
      exact hmemk kv hkv

/-- relabelling the keys by a map that is injective on `n`-character keys does not change which
amplitude is found -/
theorem lookup_mapKeys_inj (n : Nat) (F : Str → Str)
    (hF : ∀ s1 s2 : Str, s1.length = n → s2.length = n → F s1 = F s2 → s1 = s2) (d : Dict α)
    (hlen : ∀ k ∈ d.keys, k.length = n) (s : Str) (hs : s.length = n) :
    (d.mapKeys F).lookup (F s) = d.lookup s := by
  induction d with
  | nil => rfl
  | cons a d ih =>
    have ha : a.1.length = n := hlen a.1 (by simp [Dict.keys])
    have hd : ∀ k ∈ Dict.keys d, k.length = n := by
      intro k hk; apply hlen; simp only [Dict.keys, List.map_cons, List.mem_cons]; right; exact hk
    have ih' := ih hd
    unfold Dict.lookup Dict.mapKeys at ih' ⊢
    rw [List.map_cons, List.find?_cons, List.find?_cons]
    have e : (F a.1 == F s) = (a.1 == s) := by
      rw [Bool.eq_iff_iff, beq_iff_eq, beq_iff_eq]
      exact ⟨fun h => hF _ _ ha hs h, fun h => by rw [h]⟩
    simp only [e]
    cases a.1 == s
    · exact ih'
    · rfl

/-! ### the dense initializer -/

/-- integer carried by the wires `ws` (qiskit convention: `ws[0]` is the least significant bit) -/
def wiresIdx (ws : List Nat) (b : Bits) : Nat := strToNat (ws.reverse.map b)

/-- the label with the wires `ws` set to `0` -/
def clearWires (ws : List Nat) (b : Bits) : Bits := fun w => if ws.contains w then false else b w

/-- **What is assumed of the dense hand-off** (`LowRankInitialize` on the wires `ws` with the
vector `v`, property C01): on a state supported on the labels whose `ws` wires are all `0` it
produces, on every label `b`, the amplitude `v[int of the bits of b on ws]` times the input amplitude
of the label with `ws` cleared.  `amp` reads a model amplitude as a scalar. -/
def DenseOn {Θ R : Type} [Mul R] [Zero R] [NumOps Θ] (amp : Amp Θ → R)
    (dn : List Nat → List (Amp Θ) → State R → State R) (ws : List Nat) (v : List (Amp Θ)) : Prop :=
  ∀ ψ : State R, (∀ b : Bits, (∃ w ∈ ws, b w = true) → ψ b = 0) →
    ∀ b : Bits, dn ws v ψ b = amp (v.getD (wiresIdx ws b) zeroAmp) * ψ (clearWires ws b)

/-- on a label whose key characters `0 … n−t−1` are `0`, the integer on the wires `0 … t−1` is
`int(key, 2)` (final frame: character `i` on wire `n−1−i`) -/
theorem wiresIdx_low (n t : Nat) (ht : t ≤ n) (b : Bits)
    (hlow : inLow n t (keyOf (fun i => n - 1 - i) n b)) :
    wiresIdx (List.range t) b = strToNat (keyOf (fun i => n - 1 - i) n b) := by
  have e : keyOf (fun i => n - 1 - i) n b
      = List.replicate (n - t) false ++ (List.range t).reverse.map b := by
    apply eq_of_bitAt _ _ (by simp [keyOf]; omega)
    intro i
    rw [bitAt_keyOf]
    by_cases hi : i < n - t
    · have := hlow i hi
      rw [bitAt_keyOf] at this
      simp only [bitAt, List.getD_eq_getElem?_getD, List.getElem?_append, List.length_replicate, hi,
        if_true, List.getElem?_replicate]
      simpa using this
    · by_cases hin : i < n
      · have h1 : i - (n - t) < t := by omega
        have h2 : t - 1 - (i - (n - t)) = n - 1 - i := by omega
        simp [bitAt, List.getD_eq_getElem?_getD, List.getElem?_append, hi, hin, h1, h2]
      · have h1 : ¬ i - (n - t) < t := by omega
        simp [bitAt, List.getD_eq_getElem?_getD, List.getElem?_append, hi, hin, h1]
  rw [e, strToNat_replicate_append]; rfl

end Qclib.Sparse
