import QclibModel.Proofs.SemLemmas
/-
  Semantic lemmas for C04 (part A): multi-controlled one-qubit gates as matrix families on the
  target wire (`applyFam`), composition of families, control literals that do not mention the
  target, commutation of families on different wires.  Self-contained on top of `SemLemmas`.
-/
namespace Qclib.Mcsu

variable {R : Type} [CommRing R]

/-! ### 2×2 matrices -/

theorem mat_mul_def (m n : Mat2 R) : m * n = Mat2.mul m n := rfl
theorem mat_one_def : (1 : Mat2 R) = Mat2.one := rfl

theorem mat_one_mul (m : Mat2 R) : 1 * m = m := by
  apply Mat2.ext' <;> simp [mat_mul_def, mat_one_def, Mat2.mul, Mat2.one]
theorem mat_mul_one (m : Mat2 R) : m * 1 = m := by
  apply Mat2.ext' <;> simp [mat_mul_def, mat_one_def, Mat2.mul, Mat2.one]
theorem mat_mul_assoc (m n p : Mat2 R) : m * n * p = m * (n * p) := by
  apply Mat2.ext' <;> simp [mat_mul_def, Mat2.mul] <;> ring
theorem mat_X_mul_X : (Mat2.X : Mat2 R) * Mat2.X = 1 := by
  apply Mat2.ext' <;> simp [mat_mul_def, mat_one_def, Mat2.mul, Mat2.one, Mat2.X]

/-! ### Families -/

/-- The family does not look at wire `t`. -/
def TFree (t : Nat) (f : Bits → Mat2 R) : Prop := ∀ b v, f (setBit b t v) = f b

theorem applyFam_comp (t : Nat) (f g : Bits → Mat2 R) (hg : TFree t g) (ψ : State R) :
    applyFam f t (applyFam g t ψ) = applyFam (fun b => f b * g b) t ψ := by
  funext b
  simp only [applyFam, setBit_eq, setBit_setBit, hg b, mat_mul_def, Mat2.mul]
  by_cases h : b t = true <;> simp [h] <;> ring

theorem applyFam_congr (t : Nat) {f g : Bits → Mat2 R} (h : ∀ b, f b = g b) (ψ : State R) :
    applyFam f t ψ = applyFam g t ψ := by
  have : f = g := funext h
  rw [this]

theorem applyFam_one (t : Nat) (ψ : State R) : applyFam (fun _ => (1 : Mat2 R)) t ψ = ψ := by
  funext b
  by_cases h : b t = true
  · simp [applyFam, h, setBit_self' b t true h, mat_one_def, Mat2.one]
  · have h' : b t = false := by simpa using h
    simp [applyFam, h', setBit_self' b t false h', mat_one_def, Mat2.one]

/-- The family of a multi-controlled gate. -/
def mcuFam (l : List (Nat × Bool)) (m : Mat2 R) : Bits → Mat2 R :=
  fun b => if ctrlOk l b then m else 1

theorem applyMcu_eq_fam (l : List (Nat × Bool)) (m : Mat2 R) (t : Nat) (ψ : State R) :
    applyMcu l m t ψ = applyFam (mcuFam l m) t ψ := by
  funext b
  by_cases hc : ctrlOk l b = true
  · simp [applyMcu, applyFam, mcuFam, hc]
  · have hc' : ctrlOk l b = false := by simpa using hc
    by_cases h : b t = true
    · simp [applyMcu, applyFam, mcuFam, hc', h, setBit_self' b t true h, mat_one_def, Mat2.one]
    · have h' : b t = false := by simpa using h
      simp [applyMcu, applyFam, mcuFam, hc', h', setBit_self' b t false h', mat_one_def, Mat2.one]

/-- No literal mentions wire `t`. -/
def Avoids (l : List (Nat × Bool)) (t : Nat) : Prop := ∀ cv ∈ l, cv.1 ≠ t

theorem ctrlOk_setBit (l : List (Nat × Bool)) (t : Nat) (h : Avoids l t) (b : Bits) (v : Bool) :
    ctrlOk l (setBit b t v) = ctrlOk l b := by
  unfold ctrlOk
  induction l with
  | nil => rfl
  | cons cv r ih =>
    have h1 : cv.1 ≠ t := h cv (by simp)
    have h2 : Avoids r t := fun x hx => h x (by simp [hx])
    simp only [List.all_cons, ih h2, setBit_ne b v h1]

theorem ctrlOk_append (l1 l2 : List (Nat × Bool)) (b : Bits) :
    ctrlOk (l1 ++ l2) b = (ctrlOk l1 b && ctrlOk l2 b) := by
  simp [ctrlOk, List.all_append]

theorem mcuFam_free (l : List (Nat × Bool)) (m : Mat2 R) (t : Nat) (h : Avoids l t) :
    TFree t (mcuFam l m) := by
  intro b v
  simp [mcuFam, ctrlOk_setBit l t h]

theorem TFree_mul {t : Nat} {f g : Bits → Mat2 R} (hf : TFree t f) (hg : TFree t g) :
    TFree t (fun b => f b * g b) := by
  intro b v; simp [hf b v, hg b v]

omit [CommRing R] in
theorem TFree_const (t : Nat) (m : Mat2 R) : TFree t (fun _ => m) := fun _ _ => rfl

/-- Families on different wires commute when neither reads the other's wire. -/
theorem applyFam_comm (s t : Nat) (hst : s ≠ t) (f g : Bits → Mat2 R) (hf : TFree t f)
    (hg : TFree s g) (ψ : State R) :
    applyFam f s (applyFam g t ψ) = applyFam g t (applyFam f s ψ) := by
  funext b
  have hts : t ≠ s := fun h => hst h.symm
  simp only [applyFam, setBit_ne _ _ hst, setBit_ne _ _ hts, hf _ _, hg _ _,
    setBit_comm _ _ _ hst]
  by_cases h1 : b s = true <;> by_cases h2 : b t = true <;> simp [h1, h2] <;> ring

end Qclib.Mcsu
