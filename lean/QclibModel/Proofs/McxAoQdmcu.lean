import QclibModel.Proofs.McxAoBracket
import QclibModel.Proofs.Mcu2OpSem
import QclibModel.Proofs.Mcu2Qdmcu
/-
  C04 (part B): `Qdmcu(U, k, ctrl_state).definition` of the model — the recursive square-root
  construction with the *real* `LinearMcx(action_only=True)` pair expanded to primitive gates —
  denotes the multi-controlled `U` on every state.

  One level (time order): `C_last(V) ; LinearMcx(ao) ; C_last(V⁻¹) ; LinearMcx(ao)⁻¹ ; recursion`
  with `V = U^(1/2^(d+1))`.  The `LinearMcx` acts on `rest ++ [last, t]`: its target is the peeled
  control `last`, its dirty ancilla the real target `t`.  By `linear_action_only_placed` the forward
  copy is `D ∘ MCX`, the inverse copy `MCX ∘ D`, `D` commutes with the gate `C_last(V⁻¹)` on `t`
  between them and `D ∘ D = id`; what remains is the ideal level `qdmcu_step`.
-/
set_option linter.unusedSectionVars false
set_option linter.unusedSimpArgs false

namespace Qclib
open Mcu2 RotSem


theorem mapM_option_map {α β : Type} (f : α → Option β) (g : α → β)
    (h : ∀ x y, f x = some y → y = g x) :
    ∀ (l : List α) (r : List β), l.mapM f = some r → r = l.map g := by
  intro l
  induction l with
  | nil => intro r hr; simp at hr; subst hr; rfl
  | cons x l ih =>
    intro r hr
    simp only [List.mapM_cons, Option.pure_def, Option.bind_eq_bind, Option.bind_eq_some_iff] at hr
    obtain ⟨y, hy, ys, hys, e⟩ := hr
    simp only [Option.some.injEq] at e
    subst e
    rw [List.map_cons, ← h x y hy, ← ih ys hys]

section
variable {Θ : Type} [AddCommGroup Θ]

theorem invG_inv (g g' : G Θ) (h : Mcu2.invG (fun x : Θ => -x) g = some g') : g' = g.inv := by
  cases g <;> simp only [Mcu2.invG, Option.some.injEq] at h <;> first | exact h.symm | exact absurd h (by simp)

theorem mcu2_invCirc_eq (c ci : Circ Θ) (h : Mcu2.invCirc (fun x : Θ => -x) c = some ci) :
    ci = Circ.inv c := by
  simp only [Mcu2.invCirc] at h
  rw [mapM_option_map _ G.inv invG_inv _ _ h, Circ.inv]
end


theorem applyMcu_congr_lits {R : Type} [Add R] [Mul R] (l l' : List (Nat × Bool))
    (h : ∀ b, ctrlOk l b = ctrlOk l' b) (M : Mat2 R) (t : Nat) (ψ : State R) :
    applyMcu l M t ψ = applyMcu l' M t ψ := by
  funext b
  simp only [applyMcu, h]

theorem ctrlOk_reverse (l : List (Nat × Bool)) (b : Bits) : ctrlOk l.reverse b = ctrlOk l b := by
  simp only [ctrlOk, List.all_reverse]

theorem patLits_qdLits (rest : List Nat) (p' : List Bool) (f : Nat → Nat)
    (hlen : p'.length = rest.length) (hf : ∀ i (h : i < rest.length), f i = rest[i]) :
    patLits rest.length f (some p') = (qdLits rest p').reverse := by
  apply List.ext_getElem
  · simp [patLits, qdLits, hlen]
  · intro i h1 h2
    have hi : i < rest.length := by simpa [patLits] using h1
    have hz : (rest.reverse.zip p').length = rest.length := by simp [hlen]
    simp only [patLits, qdLits, csBit, List.getElem_map, List.getElem_range, List.getElem_reverse,
      List.getElem_zip, hf i hi, hz]
    have e1 : rest.length - 1 - (rest.length - 1 - i) = i := by omega
    congr 1
    · simp only [e1]
    · rw [List.getD_eq_getElem?_getD, List.getElem?_eq_getElem (by simp; omega),
        List.getElem_reverse]
      simp [hlen]

theorem qw_pos (n : Nat) : qw (2 ^ n) 1 = 1 / 2 ^ n := by simp [qw]
theorem qw_neg (n : Nat) : qw (2 ^ n) (-1) = -(1 / 2 ^ n) := by simp [qw]; ring

theorem half_add (d : Nat) : (1 : ℚ) / 2 ^ (d + 1) + 1 / 2 ^ (d + 1) = 1 / 2 ^ d := by
  rw [pow_succ]
  field_simp
  ring

section
variable {Θ R : Type} [AddCommGroup Θ] [CommRing R] [RotSem Θ R] [RotLaws Θ R]

theorem qd_level (o : McxAngles Θ) (hp : Pi8 R o) (Ur Rx : ℚ → Mat2 R) (hU : OneParam Ur)
    (d : Nat) (rest : List Nat) (last t : Nat) (cv : Bool) (p' : List Bool) (lin : Circ Θ)
    (tail : List (LG Θ)) (hnd : (rest ++ [last, t]).Nodup) (hlen : p'.length = rest.length)
    (hlin : linearMcx o rest.length (some p') true = some lin)
    (htail : ∀ φ : State R, semLG Ur Rx tail φ
      = applyMcu (qdLits rest p') (Ur (1 / 2 ^ (d + 1))) t φ) (ψ : State R) :
    semLG Ur Rx ([LG.croot last t cv (2 ^ (d + 1)) 1]
        ++ (place lin (rest ++ [last, t])).map LG.prim
        ++ [LG.croot last t cv (2 ^ (d + 1)) (-1)]
        ++ (place (Circ.inv lin) (rest ++ [last, t])).map LG.prim ++ tail) ψ
      = applyMcu ((last, cv) :: qdLits rest p') (Ur (1 / 2 ^ d)) t ψ := by
  obtain ⟨D, h1, h2, -, -, h5, -, h7⟩ := linear_action_only_placed (R := R) o hp rest.length
    (some p') lin hlin (rest ++ [last, t]) hnd (by simp)
  have hg0 : (rest ++ [last, t]).getD rest.length 0 = last := by
    rw [List.getD_eq_getElem?_getD, List.getElem?_append_right (Nat.le_refl _)]
    simp
  have hg1 : (rest ++ [last, t]).getD (rest.length + 1) 0 = t := by
    rw [List.getD_eq_getElem?_getD, List.getElem?_append_right (Nat.le_succ _)]
    simp
  have hl : patLits rest.length (fun i => (rest ++ [last, t]).getD i 0) (some p')
      = (qdLits rest p').reverse := by
    apply patLits_qdLits rest p' _ hlen
    intro i hi
    rw [List.getD_eq_getElem?_getD, List.getElem?_append_left hi, List.getElem?_eq_getElem hi]
    rfl
  have hm : ∀ φ : State R, applyMcu (qdLits rest p').reverse Mat2.X last φ
      = applyMcu (qdLits rest p') Mat2.X last φ := fun φ =>
    applyMcu_congr_lits _ _ (ctrlOk_reverse _) _ _ φ
  rw [hg0, hl] at h1 h2
  rw [hg0, hg1] at h7
  -- wires
  have hnd' := List.nodup_append.mp hnd
  have hlt : last ≠ t := by
    have := hnd'.2.1
    simp at this
    exact this
  have hmem : ∀ l ∈ qdLits rest p', l.1 ∈ rest := by
    intro l hl'
    have := (List.of_mem_zip (show (l.1, l.2) ∈ rest.reverse.zip p' from hl')).1
    exact List.mem_reverse.mp this
  have hc : ∀ l ∈ qdLits rest p', l.1 ≠ last := fun l hl' e =>
    hnd'.2.2 _ (hmem l hl') last (by simp) e
  have ht : ∀ l ∈ qdLits rest p', l.1 ≠ t := fun l hl' e =>
    hnd'.2.2 _ (hmem l hl') t (by simp) e
  simp only [semLG_append, semLG_prim, semLG_cons, semLG_nil, denoteLG, h1, h2, hm, h7, h5, htail,
    qw_pos, qw_neg]
  refine qdmcu_step (Ur (1 / 2 ^ d)) (Ur (1 / 2 ^ (d + 1))) (Ur (-(1 / 2 ^ (d + 1)))) ?_ ?_ ?_
    (qdLits rest p') last t cv hlt hc ht ψ
  · rw [← hU.add, half_add]
  · rw [← hU.add, neg_add_cancel, hU.zero]
  · rw [← hU.add, add_neg_cancel, hU.zero]

/-- The recursion of `Qdmcu._define` on an arbitrary duplicate-free wire assignment, at depth `d`
(matrix `U^(1/2^d)`). -/
theorem qdmcuRec_sem (o : McxAngles Θ) (hp : Pi8 R o) (Ur Rx : ℚ → Mat2 R) (hU : OneParam Ur) :
    ∀ (fuel d : Nat) (ctrls : List Nat) (t : Nat) (pat : List Bool) (gs : List (LG Θ)),
      (ctrls ++ [t]).Nodup →
      qdmcuRec o (fun x : Θ => -x) fuel d ctrls t pat = some gs →
      ∀ ψ : State R, semLG Ur Rx gs ψ = applyMcu (qdLits ctrls pat) (Ur (1 / 2 ^ d)) t ψ := by
  intro fuel
  induction fuel with
  | zero => intro d ctrls t pat gs _ h; simp [qdmcuRec] at h
  | succ fuel ih =>
    intro d ctrls t pat gs hnd h ψ
    rw [qdmcuRec] at h
    dsimp only at h
    split at h
    · exact absurd h (by simp)
    rename_i hk0
    have hc0 : ctrls.length ≠ 0 := fun e => hk0 (Or.inl e)
    have hpl : pat.length = ctrls.length := by
      by_contra e
      exact hk0 (Or.inr e)
    split at h
    · -- one control
      rename_i hk1
      obtain ⟨c0, rfl⟩ := List.length_eq_one_iff.mp hk1
      obtain ⟨p0, rfl⟩ := List.length_eq_one_iff.mp (hpl.trans hk1)
      simp only [Option.some.injEq] at h
      subst h
      simp only [semLG_cons, semLG_nil, denoteLG, qw_pos, qdLits]
      rfl
    rename_i hk1
    split at h
    · exact absurd h (by simp)
    rename_i lin hlin
    split at h
    · exact absurd h (by simp)
    rename_i linInv hinv
    split at h
    · exact absurd h (by simp)
    rename_i tail htail
    simp only [Option.some.injEq] at h
    subst h
    have hne : ctrls ≠ [] := fun e => hc0 (by rw [e]; rfl)
    have hlast : ctrls.getD (ctrls.length - 1) 0 = ctrls.getLast hne := by
      rw [List.getD_eq_getElem?_getD, List.getElem?_eq_getElem (by omega), List.getLast_eq_getElem]
      rfl
    have hsplit : ctrls.take (ctrls.length - 1) ++ [ctrls.getD (ctrls.length - 1) 0] = ctrls := by
      rw [hlast]; exact List.take_append_getLast ctrls hne
    have hrl : (ctrls.take (ctrls.length - 1)).length = ctrls.length - 1 := by
      rw [List.length_take]; omega
    obtain ⟨cv, p', rfl⟩ : ∃ cv p', pat = cv :: p' := by
      cases pat with
      | nil => simp at hpl; omega
      | cons cv p' => exact ⟨cv, p', rfl⟩
    have hnd2 : (ctrls.take (ctrls.length - 1) ++ [ctrls.getD (ctrls.length - 1) 0, t]).Nodup := by
      have e : ctrls.take (ctrls.length - 1) ++ [ctrls.getD (ctrls.length - 1) 0, t]
          = ctrls ++ [t] := by
        conv_rhs => rw [← hsplit]
        simp
      rw [e]; exact hnd
    have hnd3 : (ctrls.take (ctrls.length - 1) ++ [t]).Nodup := by
      refine List.Nodup.sublist ?_ hnd2
      exact List.Sublist.append_left (by simp) _
    have hlen' : p'.length = (ctrls.take (ctrls.length - 1)).length := by
      rw [hrl]; simp at hpl; omega
    rw [mcu2_invCirc_eq lin linInv hinv]
    simp only [List.drop_one, List.tail_cons, List.getD_cons_zero] at hlin htail ⊢
    rw [← hrl] at hlin
    have hq : qdLits ctrls (cv :: p')
        = (ctrls.getD (ctrls.length - 1) 0, cv) :: qdLits (ctrls.take (ctrls.length - 1)) p' := by
      conv_lhs => rw [← hsplit]
      simp [qdLits]
    rw [hq]
    exact qd_level o hp Ur Rx hU d _ _ t cv p' lin tail hnd2 hlen' hlin
      (fun φ => ih (d + 1) _ t p' tail hnd3 htail φ) ψ

/-- **C04 (`Qdmcu`, full circuit).**  For every `k ≥ 1` and every pattern (`ctrl_state = None` ↦
all ones), over any commutative ring with the rotation laws and `Pi8` for the `π/4` gate
parameters, for every one-parameter group `Ur` of 2×2 matrices (`Ur r = U^r`: `croot c t cv p s`
denotes the controlled `Ur (s/p)`; this is the K4 specification of `custom_sqrtm`) and every state:
the gate list `Qdmcu(U, k, ctrl_state).definition` of the model — the controlled roots *and* the
`LinearMcx(action_only=True)` / `.inverse()` pairs expanded to primitive gates, with the real
target as their dirty ancilla — denotes "apply `U = Ur 1` to wire `k` iff control
`controls[k-1-j]` reads `ctrl_state[j]` for all `j`".  No hypothesis on the MCX sub-circuits is
left. -/
theorem qdmcu_full (o : McxAngles Θ) (hp : Pi8 R o) (Ur : ℚ → Mat2 R) (hU : OneParam Ur)
    (k : Nat) (cs : Option (List Bool)) (gs : List (LG Θ))
    (h : qdmcu o (fun x : Θ => -x) k cs = some gs) (Rx : ℚ → Mat2 R) (ψ : State R) :
    semLG Ur Rx gs ψ
      = applyMcu (qdLits (List.range k) (cs.getD (List.replicate k true))) (Ur 1) k ψ := by
  have hnd : (List.range k ++ [k]).Nodup := by
    rw [← List.range_succ]; exact List.nodup_range
  have := qdmcuRec_sem o hp Ur Rx hU (k + 1) 0 (List.range k) k _ gs hnd h ψ
  simpa using this

end

/-! ### Non-vacuity -/

/-- A genuine one-parameter group over `ℂ`: `Ur r = diag(1, e^{iπr})`, the powers of `Z = Ur 1`. -/
noncomputable def phaseGroup (r : ℚ) : Mat2 ℂ :=
  ⟨1, 0, 0, Complex.exp ((r : ℂ) * (Real.pi * Complex.I))⟩

theorem phaseGroup_oneParam : OneParam phaseGroup := by
  constructor
  · intro a b
    show _ = Mat2.mul _ _
    simp only [phaseGroup, Mat2.mul, Mat2.mk.injEq]
    refine ⟨by ring, by ring, by ring, ?_⟩
    push_cast
    rw [add_mul, Complex.exp_add]
    ring
  · show _ = Mat2.one
    simp [phaseGroup, Mat2.one]

/-- Seven controls with pattern `0110101` (the first level uses `LinearMcx(6, action_only=True)`,
the split branch with a genuinely dirty leftover), target 7, the real gate parameters, `U = Z`
with its roots `diag(1, e^{iπ/2^d})`: the model's gate list exists and denotes the multi-controlled
`Z` under exactly the literals `controls[6-j] ↦ ctrl_state[j]`. -/
example (Rx : ℚ → Mat2 ℂ) (ψ : State ℂ) :
    ∃ gs, qdmcu realAngles (fun x : ℝ => -x) 7 (some (parseCs "0110101")) = some gs ∧
      semLG phaseGroup Rx gs ψ
        = applyMcu [(6, false), (5, true), (4, true), (3, false), (2, true), (1, false), (0, true)]
            (phaseGroup 1) 7 ψ := by
  obtain ⟨gs, hgs⟩ : ∃ gs, qdmcu realAngles (fun x : ℝ => -x) 7 (some (parseCs "0110101"))
      = some gs := ⟨_, rfl⟩
  exact ⟨gs, hgs, qdmcu_full (R := ℂ) realAngles pi8_real phaseGroup phaseGroup_oneParam 7 _ gs hgs
    Rx ψ⟩

end Qclib
