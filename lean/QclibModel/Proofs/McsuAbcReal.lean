import QclibModel.Proofs.McsuAbc
import QclibModel.Proofs.McsuGateA
import QclibModel.Proofs.RotReal
/-
  Link between the executable model of `get_abc_operators` (Model/Mcsu.lean, over `ROps`) in its
  real instance (`cosH θ = cos (θ/2)`, `sinH θ = sin (θ/2)`) and the abstract rotation algebra in
  which C04_abc is proved.
-/
set_option linter.unusedSimpArgs false
namespace Qclib.Mcsu
open Complex

/-- The real instance with the true half-angle cosine and sine. -/
noncomputable def trigOps (r4 : ℝ → ℝ → ℝ × ℝ) : ROps ℝ :=
  realOps r4 (fun θ => Real.cos (θ / 2)) (fun θ => Real.sin (θ / 2))

theorem toMat_cmul (r4 : ℝ → ℝ → ℝ × ℝ) (m n : CMat ℝ) :
    toMat (cmul (trigOps r4) m n) = toMat m * toMat n := by
  apply Mat2.ext' <;> apply Complex.ext <;>
    simp [toMat, toC, cmul, Cx.add, Cx.mul, trigOps, realOps, mat_mul_def, Mat2.mul]

theorem exp_half (θ : ℝ) :
    Complex.exp (((θ / 2 : ℝ) : ℂ) * Complex.I) = ⟨Real.cos (θ / 2), Real.sin (θ / 2)⟩ := by
  rw [Complex.exp_mul_I, ← Complex.ofReal_cos, ← Complex.ofReal_sin]
  apply Complex.ext <;>
    simp only [Complex.add_re, Complex.add_im, Complex.mul_re, Complex.mul_im, Complex.ofReal_re,
      Complex.ofReal_im, Complex.I_re, Complex.I_im, Complex.neg_re, Complex.neg_im, mul_zero,
      mul_one, sub_zero, add_zero, zero_add, neg_zero, zero_mul]

theorem exp_half_neg (θ : ℝ) :
    Complex.exp (-(((θ / 2 : ℝ) : ℂ) * Complex.I)) = ⟨Real.cos (θ / 2), -Real.sin (θ / 2)⟩ := by
  rw [← neg_mul, Complex.exp_mul_I, Complex.cos_neg, Complex.sin_neg, ← Complex.ofReal_cos,
    ← Complex.ofReal_sin]
  apply Complex.ext <;>
    simp only [Complex.add_re, Complex.add_im, Complex.mul_re, Complex.mul_im, Complex.ofReal_re,
      Complex.ofReal_im, Complex.I_re, Complex.I_im, Complex.neg_re, Complex.neg_im, mul_zero,
      mul_one, sub_zero, add_zero, zero_add, neg_zero, zero_mul]

theorem toMat_rz (r4 : ℝ → ℝ → ℝ × ℝ) (θ : ℝ) :
    toMat (rzMat (trigOps r4) θ) = (matRZ θ : Mat2 ℂ) := by
  have h1 : (RotSem.exb θ : ℂ) = Complex.exp (-(((θ / 2 : ℝ) : ℂ) * Complex.I)) := rfl
  have h2 : (RotSem.ex θ : ℂ) = Complex.exp (((θ / 2 : ℝ) : ℂ) * Complex.I) := rfl
  apply Mat2.ext' <;>
    simp only [toMat, toC, rzMat, trigOps, realOps, matRZ, Cx.zero, h1, h2, exp_half, exp_half_neg] <;>
    rfl

theorem toMat_ry (r4 : ℝ → ℝ → ℝ × ℝ) (θ : ℝ) :
    toMat (ryMat (trigOps r4) θ) = (matRY θ : Mat2 ℂ) := by
  have h1 : (RotSem.cs θ : ℂ) = ((Real.cos (θ / 2) : ℝ) : ℂ) := rfl
  have h2 : (RotSem.sn θ : ℂ) = ((Real.sin (θ / 2) : ℝ) : ℂ) := rfl
  apply Mat2.ext' <;> apply Complex.ext <;>
    simp only [toMat, toC, ryMat, trigOps, realOps, matRY, h1, h2, Complex.ofReal_re,
      Complex.ofReal_im, Complex.neg_re, Complex.neg_im, neg_zero]

/-- The model's `get_abc_operators` (real instance) are the abstract `A`, `B`, `C` with
`half θ = θ / 2`. -/
theorem abcOperators_eq (r4 : ℝ → ℝ → ℝ × ℝ) (β γ δ : ℝ) :
    let r := abcOperators (trigOps r4) β γ δ
    toMat r.1 = (abcA (fun a => a / 2) β γ : Mat2 ℂ)
      ∧ toMat r.2.1 = abcB (fun a => a / 2) β γ δ
      ∧ toMat r.2.2 = abcC (fun a => a / 2) β δ := by
  intro r
  have e1 : (trigOps r4).div γ (trigOps r4).two = γ / 2 := rfl
  have e2 : (trigOps r4).neg ((trigOps r4).div γ (trigOps r4).two) = -(γ / 2) := rfl
  have e3 : (trigOps r4).neg ((trigOps r4).div ((trigOps r4).add δ β) (trigOps r4).two)
      = -((δ + β) / 2) := rfl
  have e4 : (trigOps r4).div ((trigOps r4).sub δ β) (trigOps r4).two = (δ - β) / 2 := rfl
  refine ⟨?_, ?_, ?_⟩
  · simp only [r, abcOperators, toMat_cmul, toMat_rz, toMat_ry, e1, abcA]
  · simp only [r, abcOperators, toMat_cmul, toMat_rz, toMat_ry, e2, e3, abcB]
  · simp only [r, abcOperators, toMat_rz, e4, abcC]

end Qclib.Mcsu
