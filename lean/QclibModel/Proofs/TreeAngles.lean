import QclibModel.Spec.Tree
import QclibModel.Proofs.RotLaws
import Mathlib.Analysis.SpecialFunctions.Trigonometric.Inverse
import Mathlib.Tactic.Ring
import Mathlib.Tactic.Linarith
import Mathlib.Tactic.Positivity
import Mathlib.Tactic.FieldSimp
/-
  Angle algebra of the state tree / angle tree over the reals (C11, reusable for C01):

    * `realTOps`            the real-number instance of `TOps`
    * `angleY_sin_sq/cos_sq` one node: `m² sin²(θ/2) = r²`, `m² cos²(θ/2) = l²`
    * `angleTree_complete`  the angle tree of a height-(n+1) state tree is complete (any `F`)
    * `stateTree_root_sq`   root magnitude² = sum of the squared leaf magnitudes
    * `tree_path_product`   root² · (path product of cos²/sin² to leaf k) = |a k|²
-/
namespace Qclib

/-- The tree operations over `ℝ` (Mathlib's `Real.sqrt`, `Real.arcsin`, `Real.pi`). -/
noncomputable def realTOps : TOps ℝ where
  zero := 0
  one := 1
  two := 2
  pi := Real.pi
  neg := fun x => -x
  add := fun x y => x + y
  sub := fun x y => x - y
  mul := fun x y => x * y
  div := fun x y => x / y
  sq := fun x => x ^ 2
  sqrt := Real.sqrt
  asin := Real.arcsin
  lt := fun a b => decide (a < b)
  neZero := fun x => decide (x ≠ 0)
  aops := stdOps (fun x => x / 2) (fun x => decide (x = 0))

/-! ### One node -/

/-- Over `ℝ` the clamp of `angle_y` is the clamp built into `Real.arcsin`. -/
theorem angleY_eq (m r : ℝ) :
    angleY realTOps m r = 2 * Real.arcsin (if m ≠ 0 then r / m else 0) := by
  unfold angleY
  simp only [realTOps, decide_eq_true_eq]
  generalize (if m ≠ 0 then r / m else 0) = q
  split_ifs with h1 h2
  · rw [Real.arcsin_of_le_neg_one h1.le]; ring
  · rw [Real.arcsin_of_one_le h2.le]; ring
  · rfl

theorem angleY_half_sin (m r : ℝ) (h0 : 0 ≤ r) (h1 : r ≤ m) :
    Real.sin (angleY realTOps m r / 2) = if m ≠ 0 then r / m else 0 := by
  rw [angleY_eq]
  have e : (2 * Real.arcsin (if m ≠ 0 then r / m else 0)) / 2
      = Real.arcsin (if m ≠ 0 then r / m else 0) := by ring
  rw [e]
  apply Real.sin_arcsin
  · split_ifs with hm
    · have : 0 ≤ r / m := div_nonneg h0 (h0.trans h1)
      linarith
    · norm_num
  · split_ifs with hm
    · have hm' : 0 < m := lt_of_le_of_ne (h0.trans h1) (Ne.symm hm)
      rw [div_le_one hm']; exact h1
    · norm_num

theorem angleY_sin_sq (l r m : ℝ) (_hl : 0 ≤ l) (hr : 0 ≤ r) (hm : m = Real.sqrt (l ^ 2 + r ^ 2)) :
    m ^ 2 * Real.sin (angleY realTOps m r / 2) ^ 2 = r ^ 2 := by
  have hm2 : m ^ 2 = l ^ 2 + r ^ 2 := by rw [hm, Real.sq_sqrt (by positivity)]
  have hm0 : 0 ≤ m := by rw [hm]; exact Real.sqrt_nonneg _
  have hrm : r ≤ m := by
    by_contra hlt
    have hlt := not_le.mp hlt
    nlinarith [sq_nonneg l]
  rw [angleY_half_sin m r hr hrm]
  split_ifs with h
  · field_simp
  · have h0 : m = 0 := not_not.mp h
    have hr2 : r ^ 2 = 0 := by
      have : m ^ 2 = 0 := by rw [h0]; ring
      nlinarith [sq_nonneg l, sq_nonneg r]
    rw [hr2]; ring

theorem angleY_cos_sq (l r m : ℝ) (hl : 0 ≤ l) (hr : 0 ≤ r) (hm : m = Real.sqrt (l ^ 2 + r ^ 2)) :
    m ^ 2 * Real.cos (angleY realTOps m r / 2) ^ 2 = l ^ 2 := by
  have hm2 : m ^ 2 = l ^ 2 + r ^ 2 := by rw [hm, Real.sq_sqrt (by positivity)]
  have hs := angleY_sin_sq l r m hl hr hm
  rw [Real.cos_sq']
  have e : m ^ 2 * (1 - Real.sin (angleY realTOps m r / 2) ^ 2)
      = m ^ 2 - m ^ 2 * Real.sin (angleY realTOps m r / 2) ^ 2 := by ring
  rw [e, hs, hm2]; ring

/-- Right sub-tree of norm 0 ⇒ angle 0 (the code then skips the RY and the controlled swaps). -/
theorem angleY_zero_right (m : ℝ) : angleY realTOps m 0 = 0 := by
  rw [angleY_eq]
  simp

theorem angleY_ne_zero (m r : ℝ) (hr : 0 < r) (hrm : r ≤ m) : angleY realTOps m r ≠ 0 := by
  rw [angleY_eq]
  have hm : 0 < m := lt_of_lt_of_le hr hrm
  rw [if_pos (ne_of_gt hm)]
  have : 0 < Real.arcsin (r / m) := Real.arcsin_pos.mpr (div_pos hr hm)
  linarith

/-! ### Shape -/

section
variable {F : Type} (o : TOps F)

theorem stateTree_succ_isLeaf (n : Nat) (a : Nat → SV F) :
    (stateTree o (n + 1) a).isLeaf = false := by
  cases n <;> rfl

theorem angleTree_complete (n : Nat) (a : Nat → SV F) :
    complete (n + 1) (angleTree o (stateTree o (n + 1) a)) := by
  induction n generalizing a with
  | zero => simp [stateTree, angleTree, BT.isLeaf, complete]
  | succ m ih =>
    have hl := stateTree_succ_isLeaf o m a
    have e : stateTree o (m + 1 + 1) a
        = .node ⟨o.sqrt (o.add (o.sq ((stateTree o (m + 1) a).valD ⟨o.zero, o.zero⟩).mag)
              (o.sq ((stateTree o (m + 1) (fun i => a (i + 2 ^ (m + 1)))).valD
                ⟨o.zero, o.zero⟩).mag)),
            o.div (o.add ((stateTree o (m + 1) a).valD ⟨o.zero, o.zero⟩).arg
              ((stateTree o (m + 1) (fun i => a (i + 2 ^ (m + 1)))).valD ⟨o.zero, o.zero⟩).arg)
              o.two⟩
            (stateTree o (m + 1) a) (stateTree o (m + 1) (fun i => a (i + 2 ^ (m + 1)))) := rfl
    rw [e]
    simp only [angleTree, hl]
    exact ⟨ih a, ih _⟩

end

/-! ### Root magnitude -/

/-- Sum of the squared magnitudes of the leaves `a 0 … a (2^n - 1)`. -/
def sumSq : Nat → (Nat → SV ℝ) → ℝ
  | 0, a => (a 0).mag ^ 2
  | n + 1, a => sumSq n a + sumSq n (fun i => a (i + 2 ^ n))

theorem stateTree_root_succ (n : Nat) (a : Nat → SV ℝ) :
    ((stateTree realTOps (n + 1) a).valD ⟨0, 0⟩).mag
      = Real.sqrt (((stateTree realTOps n a).valD ⟨0, 0⟩).mag ^ 2
          + ((stateTree realTOps n (fun i => a (i + 2 ^ n))).valD ⟨0, 0⟩).mag ^ 2) := rfl

theorem stateTree_root_nonneg (n : Nat) (a : Nat → SV ℝ) (h : ∀ k, 0 ≤ (a k).mag) :
    0 ≤ ((stateTree realTOps n a).valD ⟨0, 0⟩).mag := by
  cases n with
  | zero => exact h 0
  | succ n => rw [stateTree_root_succ]; exact Real.sqrt_nonneg _

theorem stateTree_root_sq (n : Nat) (a : Nat → SV ℝ) (_h : ∀ k, 0 ≤ (a k).mag) :
    ((stateTree realTOps n a).valD ⟨0, 0⟩).mag ^ 2 = sumSq n a := by
  induction n generalizing a with
  | zero => rfl
  | succ n ih =>
    rw [stateTree_root_succ, Real.sq_sqrt (by positivity), ih a _h, ih _ (fun k => _h _)]
    rfl

/-! ### Path product -/

theorem pathProb_zero {F : Type} [Mul F] [One F] (c2 s2 : F → F) (t : BT (AV F)) (k : Nat) :
    pathProb c2 s2 0 t k = 1 := by
  simp [pathProb]

theorem pathProb_angleTree_stateTree (c2 s2 : ℝ → ℝ) (n : Nat) (a : Nat → SV ℝ) (k : Nat) :
    pathProb c2 s2 (n + 1) (angleTree realTOps (stateTree realTOps (n + 1) a)) k
      = if k < 2 ^ n then
          c2 (angleY realTOps ((stateTree realTOps (n + 1) a).valD ⟨0, 0⟩).mag
                ((stateTree realTOps n (fun i => a (i + 2 ^ n))).valD ⟨0, 0⟩).mag)
            * pathProb c2 s2 n (angleTree realTOps (stateTree realTOps n a)) k
        else
          s2 (angleY realTOps ((stateTree realTOps (n + 1) a).valD ⟨0, 0⟩).mag
                ((stateTree realTOps n (fun i => a (i + 2 ^ n))).valD ⟨0, 0⟩).mag)
            * pathProb c2 s2 n (angleTree realTOps (stateTree realTOps n (fun i => a (i + 2 ^ n))))
                (k - 2 ^ n) := by
  cases n with
  | zero =>
    rw [pathProb_zero, pathProb_zero]
    rfl
  | succ m =>
    have hl := stateTree_succ_isLeaf realTOps m a
    have e : angleTree realTOps (stateTree realTOps (m + 1 + 1) a)
        = .node ⟨angleY realTOps ((stateTree realTOps (m + 1 + 1) a).valD ⟨0, 0⟩).mag
              ((stateTree realTOps (m + 1) (fun i => a (i + 2 ^ (m + 1)))).valD ⟨0, 0⟩).mag,
            angleZ realTOps ((stateTree realTOps (m + 1 + 1) a).valD ⟨0, 0⟩).arg
              ((stateTree realTOps (m + 1) (fun i => a (i + 2 ^ (m + 1)))).valD ⟨0, 0⟩).arg⟩
            (angleTree realTOps (stateTree realTOps (m + 1) a))
            (angleTree realTOps (stateTree realTOps (m + 1) (fun i => a (i + 2 ^ (m + 1))))) := by
      show (if (stateTree realTOps (m + 1) a).isLeaf then _ else _) = _
      rw [hl]
      rfl
    rw [e]
    rfl

/-- Path product for every height `n ≥ 0` (for `n = 0` the product is empty). -/
theorem tree_path_aux (n : Nat) : ∀ (a : Nat → SV ℝ), (∀ k, 0 ≤ (a k).mag) → ∀ k, k < 2 ^ n →
    ((stateTree realTOps n a).valD ⟨0, 0⟩).mag ^ 2
      * pathProb (fun θ => Real.cos (θ / 2) ^ 2) (fun θ => Real.sin (θ / 2) ^ 2) n
          (angleTree realTOps (stateTree realTOps n a)) k
    = (a k).mag ^ 2 := by
  induction n with
  | zero =>
    intro a _ k hk
    have hk0 : k = 0 := by simpa using hk
    subst hk0
    rw [pathProb_zero, mul_one]
    rfl
  | succ n ih =>
    intro a h k hk
    have h' : ∀ j, 0 ≤ (a (j + 2 ^ n)).mag := fun j => h _
    have hl := stateTree_root_nonneg n a h
    have hr := stateTree_root_nonneg n (fun i => a (i + 2 ^ n)) h'
    have hroot := stateTree_root_succ n a
    have hs := angleY_sin_sq _ _ _ hl hr hroot
    have hc := angleY_cos_sq _ _ _ hl hr hroot
    rw [pathProb_angleTree_stateTree]
    split_ifs with hlt
    · rw [← mul_assoc]
      rw [hc]
      exact ih a h k hlt
    · have hp : 2 ^ (n + 1) = 2 * 2 ^ n := by ring
      have hk' : k - 2 ^ n < 2 ^ n := by omega
      rw [← mul_assoc]
      rw [hs, ih (fun i => a (i + 2 ^ n)) h' (k - 2 ^ n) hk']
      show (a (k - 2 ^ n + 2 ^ n)).mag ^ 2 = _
      rw [Nat.sub_add_cancel (not_lt.mp hlt)]

theorem tree_path_product (n : Nat) (a : Nat → SV ℝ) (h : ∀ k, 0 ≤ (a k).mag) (k : Nat)
    (hk : k < 2 ^ (n + 1)) :
    ((stateTree realTOps (n + 1) a).valD ⟨0, 0⟩).mag ^ 2
      * pathProb (fun θ => Real.cos (θ / 2) ^ 2) (fun θ => Real.sin (θ / 2) ^ 2) (n + 1)
          (angleTree realTOps (stateTree realTOps (n + 1) a)) k
    = (a k).mag ^ 2 :=
  tree_path_aux (n + 1) a h k hk

/-- Unit vector: the path product is the Born probability of leaf `k`. -/
theorem tree_path_product_unit (n : Nat) (a : Nat → SV ℝ) (h : ∀ k, 0 ≤ (a k).mag)
    (hu : sumSq (n + 1) a = 1) (k : Nat) (hk : k < 2 ^ (n + 1)) :
    pathProb (fun θ => Real.cos (θ / 2) ^ 2) (fun θ => Real.sin (θ / 2) ^ 2) (n + 1)
        (angleTree realTOps (stateTree realTOps (n + 1) a)) k
    = (a k).mag ^ 2 := by
  have hp := tree_path_product n a h k hk
  rw [stateTree_root_sq (n + 1) a h, hu, one_mul] at hp
  exact hp

#print axioms tree_path_product
end Qclib
