import QclibModel.Proofs.Mcu2ErrNorm
/-
  C04, part B — the approximate gate `MCU`, part 6: the error bound.

  `mcu_error`: for every `k`, every pattern, every `U = P·diag(e^{iα}, e^{iβ})·P†` whose
  eigen-angles are at most `angle > 0` in modulus, every `0 < ε ≤ 2`: if the model of
  `MCU.__init__` / `_define` accepts with the base count `numBaseR angle ε` and emits `gs`, then for
  every state `ψ` and every background of the spectator wires

      Σ_labels |(⟦gs⟧ψ - C^k(U)ψ)(label)|²  ≤  ε² · Σ_labels |ψ(label)|² ,

  the sums over all `2^(k+1)` labels of the wires `0 … k`.
-/
namespace Qclib.Mcu2
open Complex

theorem zpow_two_nat (bn : Nat) (hbn : 1 ≤ bn) :
    (2 : ℝ) ^ ((bn : ℤ) - 1) = (2 : ℝ) ^ (bn - 1) := by
  have : ((bn : ℤ) - 1) = ((bn - 1 : ℕ) : ℤ) := by omega
  rw [this, zpow_natCast]

theorem mcu_error (P : Mat2 ℂ) (hP1 : P * cadj P = 1) (hP2 : cadj P * P = 1)
    (α β angle ε : ℝ) (ha : 0 < angle) (hα : |α| ≤ angle) (hβ : |β| ≤ angle)
    (h0 : 0 < ε) (h2 : ε ≤ 2) (k : Nat) (cs : Option (List Bool)) (gs : List (LG ℝ))
    (h : mcu k (numBaseR angle ε) cs = some gs) (bg : Bits) (ψ : State ℂ) :
    ∑ f : Fin (k + 1) → Bool,
        normSq (semM (urReal P (cadj P) α β) rxReal gs ψ (emb (k + 1) bg f)
          - applyMcu (patLits k (fun i => i) cs) (urReal P (cadj P) α β 1) k ψ (emb (k + 1) bg f))
      ≤ ε ^ 2 * ∑ f : Fin (k + 1) → Bool, normSq (ψ (emb (k + 1) bg f)) := by
  have hUp := urReal_oneParam P (cadj P) hP1 hP2 α β
  by_cases hk0 : k = 0
  · -- no controls: the definition is `U` itself
    subst hk0
    have hsem := mcu_sem_zero (Ur := urReal P (cadj P) α β) (Rx := rxReal) _ cs gs h ψ
    rw [hsem]
    have : patLits 0 (fun i => i) cs = [] := rfl
    rw [this]
    simp only [sub_self, map_zero, Finset.sum_const_zero]
    exact mul_nonneg (sq_nonneg ε) (Finset.sum_nonneg (fun f _ => normSq_nonneg _))
  · have hk1 : 1 ≤ k := by omega
    obtain ⟨hb0, hbk, _, _⟩ := mcu_some k hk1 _ cs gs h
    have hlits := patLits_ne k k (le_refl k) cs
    by_cases hneg : numBaseR angle ε < 0
    · -- negative count: the identity circuit; `U` itself is `ε`-close to the identity
      have hsem := mcu_sem_neg (Ur := urReal P (cadj P) α β) (Rx := rxReal) k hk1 _ hneg cs gs h ψ
      rw [hsem]
      have hθ : angle * |((1 : ℚ) : ℝ)| ≤ thetaEps ε := by
        have := (numBase_le_iff ha (ne_of_gt h0) 0).mp (by omega)
        simpa using this
      have hcl := ur_close P hP1 hP2 α β angle ε h0 h2 hα hβ 1 hθ
      exact sum_bound (k + 1) bg ⟨k, by omega⟩
        (fun b => ψ b - applyMcu (patLits k (fun i => i) cs) (urReal P (cadj P) α β 1) k ψ b) ψ ε
        (fun b => pair_bound_id _ k hlits _ ε hcl ψ b)
    · -- `1 ≤ b ≤ k`
      have hpos : 1 ≤ numBaseR angle ε := by omega
      obtain ⟨bn, hbn⟩ : ∃ bn : Nat, numBaseR angle ε = (bn : ℤ) :=
        ⟨(numBaseR angle ε).toNat, by omega⟩
      have hbn1 : 1 ≤ bn := by omega
      rw [hbn] at h
      have hsem := mcu_sem_pos hUp rxReal_oneParam rxReal_halfTurn k bn hbn1 cs gs h ψ
      rw [hsem]
      have hθ : angle * |((-(1 / 2 ^ (bn - 1)) : ℚ) : ℝ)| ≤ thetaEps ε := by
        have hs := (numBase_spec ha (ne_of_gt h0)).1
        rw [hbn, zpow_two_nat bn hbn1] at hs
        have hp : (0 : ℝ) < 2 ^ (bn - 1) := by positivity
        have : |((-(1 / 2 ^ (bn - 1)) : ℚ) : ℝ)| = 1 / 2 ^ (bn - 1) := by
          push_cast
          rw [abs_neg, abs_of_pos (by positivity)]
        rw [this, mul_one_div]
        exact hs
      have hcl := ur_close P hP1 hP2 α β angle ε h0 h2 hα hβ _ hθ
      have hiso := ur_iso P hP1 hP2 α β 1
      have hlits' := patLits_ne (k - bn + 1) k (by omega) cs
      exact sum_bound (k + 1) bg ⟨k, by omega⟩
        (fun b => applyMcu (patLits k (fun i => i) cs) (urReal P (cadj P) α β 1) k
            (applyMcu (patLits (k - bn + 1) (fun i => i) cs)
              (urReal P (cadj P) α β (-(1 / 2 ^ (bn - 1)))) k ψ) b
          - applyMcu (patLits k (fun i => i) cs) (urReal P (cadj P) α β 1) k ψ b) ψ ε
        (fun b => pair_bound _ _ k hlits hlits' _ _ hiso ε hcl ψ b)

end Qclib.Mcu2
