import QclibModel.Proofs.SemLemmas
import QclibModel.Spec.FnPoints
/-
  C18, part 1: the two-stage Toffoli ladder of `FnPointsInitialize` (all `n ≥ 2`).

  Every gate of the ladder relabels basis states, so `sem ladder ψ b = ψ (π b)`.  The down sweep
  (as a relabelling, read in *pull-back* order) is the "compute" map `fnF`, the up sweep its
  inverse `fnFinv`; neither reads or writes `c[0]`, hence `π b = flip c[0]` iff the top of the
  computed AND chain is set.  With `g` clean that bit is "x register = z".
-/
namespace Qclib
open RotSem

section
variable {Θ R : Type} [CommRing R] [RotSem Θ R]

theorem sem_cons (g : G Θ) (c : Circ Θ) (ψ : State R) : sem (g :: c) ψ = sem c (denote g ψ) := rfl

/-! ### One Toffoli with X sandwiches -/

/-- Optional X on wire `q` (emitted when the pattern bit is `0`). -/
def fnOptX (v : Bool) (q : Nat) : Circ Θ := if v then [] else [G.x q]

theorem sem_optX (v : Bool) (q : Nat) (ψ : State R) (b : Bits) :
    sem (fnOptX (Θ := Θ) v q) ψ b = ψ (if v then b else flipBit b q) := by
  cases v <;> simp [fnOptX, sem_nil, sem_single, denote_x]

/-- Relabelling of ladder stage 0: `g[0] ^= (x[0] = z 0) ∧ (x[1] = z 1)`. -/
def fnU0 (L : FnLayout) (z : Nat → Bool) (b : Bits) : Bits :=
  if (b (L.xw 0) == z 0) && (b (L.xw 1) == z 1) then flipBit b (L.gw 0) else b

/-- Relabelling of ladder stage `k ≥ 2`: `g[k-1] ^= (x[k] = z k) ∧ g[k-2]`. -/
def fnU (L : FnLayout) (z : Nat → Bool) (k : Nat) (b : Bits) : Bits :=
  if (b (L.xw k) == z k) && b (L.gw (k - 2)) then flipBit b (L.gw (k - 1)) else b

theorem flipBit3 (b : Bits) {a t : Nat} (h : a ≠ t) :
    flipBit (flipBit (flipBit b a) t) a = flipBit b t := by
  rw [flipBit_comm (flipBit b a) t a, flipBit_flipBit]

theorem sem_stage0 (L : FnLayout) (z : Nat → Bool) (h01 : L.xw 0 ≠ L.xw 1)
    (h0g : L.xw 0 ≠ L.gw 0) (h1g : L.xw 1 ≠ L.gw 0) (ψ : State R) (b : Bits) :
    sem (fnStage0 (Θ := Θ) L z) ψ b = ψ (fnU0 L z b) := by
  have e : (fnStage0 (Θ := Θ) L z) = fnOptX (z 0) (L.xw 0) ++ fnOptX (z 1) (L.xw 1)
      ++ [G.ccx (L.xw 0) (L.xw 1) (L.gw 0)] ++ fnOptX (z 0) (L.xw 0) ++ fnOptX (z 1) (L.xw 1) := by
    simp [fnStage0, fnFlipflop01, fnOptX]
  rw [e]
  simp only [sem_append, sem_single, sem_optX, denote_ccx, fnU0]
  have h10 := Ne.symm h01
  cases z 0 <;> cases z 1 <;> cases hb0 : b (L.xw 0) <;> cases hb1 : b (L.xw 1) <;>
    simp [flipBit_eq, flipBit_ne, h01, h10, hb0, hb1, flipBit_flipBit, flipBit3, h0g, h1g,
      flipBit_comm _ (L.xw 1) (L.xw 0)]

theorem sem_stage (L : FnLayout) (z : Nat → Bool) (k : Nat)
    (hxg : L.xw k ≠ L.gw (k - 2)) (hxt : L.xw k ≠ L.gw (k - 1)) (ψ : State R) (b : Bits) :
    sem (fnStage (Θ := Θ) L z k) ψ b = ψ (fnU L z k b) := by
  have e : (fnStage (Θ := Θ) L z k) = fnOptX (z k) (L.xw k)
      ++ [G.ccx (L.xw k) (L.gw (k - 2)) (L.gw (k - 1))] ++ fnOptX (z k) (L.xw k) := rfl
  rw [e]
  simp only [sem_append, sem_single, sem_optX, denote_ccx, fnU]
  cases z k <;> cases hb0 : b (L.xw k) <;> cases hb1 : b (L.gw (k - 2)) <;>
    simp [flipBit_eq, flipBit_ne, hb0, hb1, flipBit_flipBit, flipBit3, hxt, Ne.symm hxg]

/-! ### Compute / uncompute sweeps as relabellings -/

/-- Compute map after stage 0 and the stages `2 … i+1`. -/
def fnF (L : FnLayout) (z : Nat → Bool) : Nat → Bits → Bits
  | 0, b => fnU0 L z b
  | i + 1, b => fnU L z (i + 2) (fnF L z i b)

/-- Uncompute map (the same stages in the opposite order). -/
def fnFinv (L : FnLayout) (z : Nat → Bool) : Nat → Bits → Bits
  | 0, b => fnU0 L z b
  | i + 1, b => fnFinv L z i (fnU L z (i + 2) b)

variable {n : Nat} {L : FnLayout} (hw : FnWires n L)
include hw

theorem sem_stage0' (hn : 2 ≤ n) (z : Nat → Bool) (ψ : State R) (b : Bits) :
    sem (fnStage0 (Θ := Θ) L z) ψ b = ψ (fnU0 L z b) :=
  sem_stage0 L z (fun h => by have := hw.x_inj 0 1 (by omega) (by omega) h; omega)
    (hw.x_g 0 0 (by omega) (by omega)) (hw.x_g 1 0 (by omega) (by omega)) ψ b

theorem sem_stage' (z : Nat → Bool) {i : Nat} (hi : i + 2 < n) (ψ : State R) (b : Bits) :
    sem (fnStage (Θ := Θ) L z (i + 2)) ψ b = ψ (fnU L z (i + 2) b) :=
  sem_stage L z (i + 2) (hw.x_g _ _ (by omega) (by omega)) (hw.x_g _ _ (by omega) (by omega)) ψ b

theorem sem_up (hn : 2 ≤ n) (z : Nat → Bool) (i : Nat) (hi : i + 2 ≤ n) (ψ : State R) (b : Bits) :
    sem (fnStage0 (Θ := Θ) L z ++ (List.range i).flatMap (fun i => fnStage L z (i + 2))) ψ b
      = ψ (fnFinv L z i b) := by
  induction i generalizing b with
  | zero => simp [sem_stage0' hw hn, fnFinv]
  | succ i ih =>
    rw [List.range_succ, List.flatMap_append, ← List.append_assoc, sem_append]
    simp only [List.flatMap_cons, List.flatMap_nil, List.append_nil]
    rw [sem_stage' hw z (by omega), ih (by omega)]
    rfl

theorem sem_down (hn : 2 ≤ n) (z : Nat → Bool) (i : Nat) (hi : i + 2 ≤ n) (ψ : State R) (b : Bits) :
    sem ((List.range i).reverse.flatMap (fun i => fnStage (Θ := Θ) L z (i + 2)) ++ fnStage0 L z) ψ b
      = ψ (fnF L z i b) := by
  induction i generalizing ψ with
  | zero => simp [sem_stage0' hw hn, fnF]
  | succ i ih =>
    rw [List.range_succ, List.reverse_append, List.reverse_singleton, List.singleton_append,
      List.flatMap_cons, List.append_assoc, sem_append, ih (by omega)]
    rw [sem_stage' hw z (by omega)]
    rfl

/-! ### The sweeps do not involve `c[0]` and undo each other -/

theorem fnU0_flip (hn : 2 ≤ n) (z : Nat → Bool) (b : Bits) :
    fnU0 L z (flipBit b L.c0) = flipBit (fnU0 L z b) L.c0 := by
  unfold fnU0
  rw [flipBit_ne b (hw.x_c0 0 (by omega)), flipBit_ne b (hw.x_c0 1 (by omega))]
  split
  · exact flipBit_comm b L.c0 (L.gw 0)
  · rfl

theorem fnU_flip (z : Nat → Bool) {k : Nat} (hk : k < n) (hk2 : 2 ≤ k) (b : Bits) :
    fnU L z k (flipBit b L.c0) = flipBit (fnU L z k b) L.c0 := by
  unfold fnU
  rw [flipBit_ne b (hw.x_c0 k hk), flipBit_ne b (hw.g_c0 (k - 2) (by omega))]
  split
  · exact flipBit_comm b L.c0 (L.gw (k - 1))
  · rfl

theorem fnU0_invol (hn : 2 ≤ n) (z : Nat → Bool) (b : Bits) : fnU0 L z (fnU0 L z b) = b := by
  unfold fnU0
  by_cases h : ((b (L.xw 0) == z 0) && (b (L.xw 1) == z 1)) = true
  · rw [if_pos h, flipBit_ne b (hw.x_g 0 0 (by omega) (by omega)),
      flipBit_ne b (hw.x_g 1 0 (by omega) (by omega)), if_pos h, flipBit_flipBit]
  · rw [if_neg h, if_neg h]

theorem fnU_invol (z : Nat → Bool) {k : Nat} (hk : k < n) (hk2 : 2 ≤ k) (b : Bits) :
    fnU L z k (fnU L z k b) = b := by
  unfold fnU
  by_cases h : ((b (L.xw k) == z k) && b (L.gw (k - 2))) = true
  · have hne : L.gw (k - 2) ≠ L.gw (k - 1) := fun e => by
      have := hw.g_inj _ _ (by omega) (by omega) e; omega
    rw [if_pos h, flipBit_ne b (hw.x_g k (k - 1) hk (by omega)), flipBit_ne b hne, if_pos h,
      flipBit_flipBit]
  · rw [if_neg h, if_neg h]

theorem fnFinv_flip (hn : 2 ≤ n) (z : Nat → Bool) (i : Nat) (hi : i + 2 ≤ n) (b : Bits) :
    fnFinv L z i (flipBit b L.c0) = flipBit (fnFinv L z i b) L.c0 := by
  induction i generalizing b with
  | zero => exact fnU0_flip hw hn z b
  | succ i ih =>
    show fnFinv L z i (fnU L z (i + 2) (flipBit b L.c0)) = _
    rw [fnU_flip hw z (by omega) (by omega), ih (by omega)]
    rfl

theorem fnFinv_F (hn : 2 ≤ n) (z : Nat → Bool) (i : Nat) (hi : i + 2 ≤ n) (b : Bits) :
    fnFinv L z i (fnF L z i b) = b := by
  induction i with
  | zero => exact fnU0_invol hw hn z b
  | succ i ih =>
    show fnFinv L z i (fnU L z (i + 2) (fnU L z (i + 2) (fnF L z i b))) = b
    rw [fnU_invol hw z (by omega) (by omega), ih (by omega)]

/-- **Ladder as a relabelling, dirty `g` included**: the ladder flips `c[0]` exactly on the labels
whose computed chain top `(fnF … b) g[n-2]` is set, and touches nothing else. -/
theorem sem_ladder_perm (hn : 2 ≤ n) (z : Nat → Bool) (ψ : State R) (b : Bits) :
    sem (fnLadder (Θ := Θ) L n z) ψ b
      = ψ (if fnF L z (n - 2) b (L.gw (n - 2)) then flipBit b L.c0 else b) := by
  unfold fnLadder
  rw [List.append_assoc _ _ (fnStage0 L z), sem_append, sem_down hw hn z (n - 2) (by omega),
    sem_append, sem_single, denote_cx]
  split
  · rw [sem_up hw hn z (n - 2) (by omega), fnFinv_flip hw hn z _ (by omega),
      fnFinv_F hw hn z _ (by omega)]
  · rw [sem_up hw hn z (n - 2) (by omega), fnFinv_F hw hn z _ (by omega)]

/-! ### With clean `g` the chain top is "x = z" -/

theorem fnF_other (hn : 2 ≤ n) (z : Nat → Bool) (i : Nat) (b : Bits) (w : Nat)
    (hwire : ∀ k, k ≤ i → w ≠ L.gw k) : fnF L z i b w = b w := by
  induction i with
  | zero =>
    show fnU0 L z b w = b w
    unfold fnU0
    split
    · exact flipBit_ne b (hwire 0 (Nat.le_refl 0))
    · rfl
  | succ i ih =>
    show fnU L z (i + 2) (fnF L z i b) w = b w
    unfold fnU
    split
    · rw [show i + 2 - 1 = i + 1 from rfl, flipBit_ne _ (hwire (i + 1) (Nat.le_refl _))]
      exact ih (fun k hk => hwire k (by omega))
    · exact ih (fun k hk => hwire k (by omega))

theorem fnF_top (hn : 2 ≤ n) (z : Nat → Bool) (i : Nat) (hi : i + 2 ≤ n) (b : Bits)
    (hg : fnGClr L n b = true) :
    fnF L z i b (L.gw i) = (List.range (i + 2)).all (fun j => b (L.xw j) == z j) := by
  have hgk : ∀ k, k < n - 1 → b (L.gw k) = false := by
    intro k hk
    have := (List.all_eq_true.mp hg) k (List.mem_range.mpr hk)
    simpa using this
  induction i with
  | zero =>
    show fnU0 L z b (L.gw 0) = _
    unfold fnU0
    have : (List.range 2).all (fun j => b (L.xw j) == z j)
        = ((b (L.xw 0) == z 0) && (b (L.xw 1) == z 1)) := by
      simp [List.range_succ]
    rw [this]
    by_cases h : ((b (L.xw 0) == z 0) && (b (L.xw 1) == z 1)) = true
    · rw [if_pos h, flipBit_eq, hgk 0 (by omega), h]; rfl
    · rw [if_neg h, hgk 0 (by omega)]
      simpa using h
  | succ i ih =>
    have ih' := ih (by omega)
    show fnU L z (i + 2) (fnF L z i b) (L.gw (i + 1)) = _
    have hx : fnF L z i b (L.xw (i + 2)) = b (L.xw (i + 2)) :=
      fnF_other hw hn z i b _ (fun k hk => hw.x_g _ _ (by omega) (by omega))
    have hgn : fnF L z i b (L.gw (i + 1)) = false := by
      rw [fnF_other hw hn z i b _ (fun k hk e => by
        have := hw.g_inj _ _ (by omega) (by omega) e; omega)]
      exact hgk _ (by omega)
    unfold fnU
    rw [hx, show i + 2 - 2 = i from rfl, show i + 2 - 1 = i + 1 from rfl, ih']
    rw [List.range_succ (n := i + 2), List.all_append]
    simp only [List.all_cons, List.all_nil, Bool.and_true]
    by_cases h : ((b (L.xw (i + 2)) == z (i + 2))
        && (List.range (i + 2)).all (fun j => b (L.xw j) == z j)) = true
    · rw [if_pos h, flipBit_eq, hgn]
      rw [Bool.and_comm] at h
      rw [h]; rfl
    · rw [if_neg h, hgn]
      rw [Bool.and_comm] at h
      simpa using h

theorem fnXMatch_eq (z : Nat → Bool) (b : Bits) :
    fnXMatch L n z b = (List.range n).all (fun j => b (L.xw j) == z j) := by
  unfold fnXMatch fnMatch fnXbits
  rw [Bool.eq_iff_iff, List.all_eq_true, List.all_eq_true]
  constructor
  · intro h j hj
    have hj' : j < n := List.mem_range.mp hj
    have := h j hj
    simpa [hj'] using this
  · intro h j hj
    have hj' : j < n := List.mem_range.mp hj
    have := h j hj
    simpa [hj'] using this

/-- **C18 ladder (proof).**  On every label with clean work qubits the ladder flips `c[0]` iff the
x register holds `z`, and nothing else changes (in particular `g` is restored). -/
theorem fn_ladder (hn : 2 ≤ n) (z : Nat → Bool) (ψ : State R) (b : Bits)
    (hg : fnGClr L n b = true) :
    sem (fnLadder (Θ := Θ) L n z) ψ b
      = ψ (if fnXMatch L n z b then flipBit b L.c0 else b) := by
  rw [sem_ladder_perm hw hn z ψ b, fnF_top hw hn z (n - 2) (by omega) b hg,
    show n - 2 + 2 = n by omega, fnXMatch_eq hw]

end
end Qclib
