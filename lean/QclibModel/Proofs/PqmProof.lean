import QclibModel.Proofs.RotLaws
import QclibModel.Spec.Pqm
namespace Qclib
open RotSem
variable {Θ R : Type} [AddCommGroup Θ] [CommRing R] [RotSem Θ R] [RotLaws Θ R]

theorem pqm_correct (n : Nat) (classical : Bool) (pattern : Nat → Bool) (mem pat : Nat → Nat)
    (aux : Nat) (hw : PqmWires n mem pat aux) (θm θc : Θ) (ψ : State R) :
    sem (pqm n classical pattern mem pat aux θm θc) ψ
      = pqmIdeal n classical pattern mem pat aux θm θc ψ := by
  sorry
end Qclib
