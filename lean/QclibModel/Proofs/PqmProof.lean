import QclibModel.Proofs.SemLemmas
import QclibModel.Spec.Pqm
import Mathlib.Algebra.Group.Basic
import Mathlib.Tactic.Ring
/-
  C17: the pqm retrieval circuit equals its closed form `pqmIdeal` on every state.

  Structure: (1) `sem` of appended lists; (2) the XOR layer is the relabelling `pqmXs`
  (fold of the per-index conditional flips `pqmStep`), whose reverse is its inverse;
  (3) the `p` / `cp` layers are diagonal, multiplying by `c b ^ (number of set memory wires)`;
  (4) after the un-XOR the count of set wires is `pqmDist`; (5) the two Hadamards on `aux`.
-/
namespace Qclib
open RotSem

section Helpers
variable {Θ R : Type} [CommRing R] [RotSem Θ R]

/-! ### Diagonal layers -/

/-- Number of memory wires `mem k`, `k < n`, that are set in `b`. -/
def pqmCnt (mem : Nat → Nat) (n : Nat) (b : Bits) : Nat :=
  ((List.range n).filter (fun k => b (mem k))).length

theorem pqmCnt_succ (mem : Nat → Nat) (n : Nat) (b : Bits) :
    pqmCnt mem (n + 1) b = pqmCnt mem n b + (if b (mem n) then 1 else 0) := by
  unfold pqmCnt
  rw [List.range_succ, List.filter_append, List.length_append]
  cases h : b (mem n) <;> simp [h]

theorem sem_diagLayer (mem : Nat → Nat) (g : Nat → G Θ) (c : Bits → R)
    (hg : ∀ k (ψ : State R) b, denote (g k) ψ b = (if b (mem k) then c b else 1) * ψ b)
    (n : Nat) (ψ : State R) (b : Bits) :
    sem ((List.range n).map g) ψ b = c b ^ pqmCnt mem n b * ψ b := by
  induction n with
  | zero => simp [sem_nil, pqmCnt]
  | succ n ih =>
    rw [List.range_succ, List.map_append, sem_append, List.map_singleton, sem_single, hg, ih,
      pqmCnt_succ]
    cases h : b (mem n) <;> simp [pow_succ]; ring

/-! ### The XOR layer as a relabelling -/

variable (classical : Bool) (pattern : Nat → Bool) (mem pat : Nat → Nat)

/-- Pattern bit `k` as read from the label. -/
def pqmPb (k : Nat) (b : Bits) : Bool := if classical then pattern k else b (pat k)

/-- Conditional flip of memory wire `k`. -/
def pqmStep (k : Nat) (b : Bits) : Bits :=
  if pqmPb classical pattern pat k b then flipBit b (mem k) else b

/-- Gates emitted by the XOR layer for index `k`. -/
def pqmXorGate (k : Nat) : Circ Θ :=
  if classical then (if pattern k then [G.x (mem k)] else [])
  else [G.cx (pat k) (mem k)]

/-- Relabelling denoted by the XOR gates for the indices in `l` (in list order). -/
def pqmXs (l : List Nat) (b : Bits) : Bits := l.foldr (pqmStep classical pattern mem pat) b

theorem pqmXs_nil (b : Bits) : pqmXs classical pattern mem pat [] b = b := rfl

theorem pqmXs_cons (k : Nat) (l : List Nat) (b : Bits) :
    pqmXs classical pattern mem pat (k :: l) b
      = pqmStep classical pattern mem pat k (pqmXs classical pattern mem pat l b) := rfl

theorem pqmXs_append (l1 l2 : List Nat) (b : Bits) :
    pqmXs classical pattern mem pat (l1 ++ l2) b
      = pqmXs classical pattern mem pat l1 (pqmXs classical pattern mem pat l2 b) := by
  simp [pqmXs, List.foldr_append]

theorem sem_xorGate (k : Nat) (ψ : State R) (b : Bits) :
    sem (pqmXorGate (Θ := Θ) classical pattern mem pat k) ψ b
      = ψ (pqmStep classical pattern mem pat k b) := by
  unfold pqmXorGate pqmStep pqmPb
  cases classical
  · simp only [Bool.false_eq_true, if_false, sem_single, denote_cx]
    cases b (pat k) <;> simp
  · cases pattern k <;> simp [sem_single, sem_nil, denote_x]

theorem sem_xorList (l : List Nat) (ψ : State R) :
    sem (l.flatMap (pqmXorGate (Θ := Θ) classical pattern mem pat)) ψ
      = fun b => ψ (pqmXs classical pattern mem pat l b) := by
  induction l generalizing ψ with
  | nil => rfl
  | cons k l ih =>
    rw [List.flatMap_cons, sem_append, ih]
    funext b
    rw [sem_xorGate, pqmXs_cons]

theorem pqmXor_eq (n : Nat) :
    (pqmXor n classical pattern mem pat : Circ Θ)
      = (List.range n).flatMap (pqmXorGate classical pattern mem pat) := rfl

theorem xorGate_reverse (k : Nat) :
    (pqmXorGate (Θ := Θ) classical pattern mem pat k).reverse
      = pqmXorGate classical pattern mem pat k := by
  unfold pqmXorGate
  cases classical <;> cases pattern k <;> simp

theorem xorList_reverse (l : List Nat) :
    (l.flatMap (pqmXorGate (Θ := Θ) classical pattern mem pat)).reverse
      = l.reverse.flatMap (pqmXorGate classical pattern mem pat) := by
  induction l with
  | nil => rfl
  | cons k l ih =>
    rw [List.flatMap_cons, List.reverse_append, ih, List.reverse_cons, List.flatMap_append,
      xorGate_reverse]
    simp

/-! ### Properties of the relabelling under the wire hypotheses -/

variable {classical pattern mem pat} {n aux : Nat} (hw : PqmWires n mem pat aux)
include hw

theorem pqmStep_aux {k : Nat} (hk : k < n) (b : Bits) :
    pqmStep classical pattern mem pat k b aux = b aux := by
  unfold pqmStep
  split
  · exact flipBit_ne b (Ne.symm (hw.mem_aux k hk))
  · rfl

theorem pqmStep_pat {k j : Nat} (hk : k < n) (hj : j < n) (b : Bits) :
    pqmStep classical pattern mem pat k b (pat j) = b (pat j) := by
  unfold pqmStep
  split
  · exact flipBit_ne b (Ne.symm (hw.mem_pat k j hk hj))
  · rfl

theorem pqmPb_step {k j : Nat} (hk : k < n) (hj : j < n) (b : Bits) :
    pqmPb classical pattern pat j (pqmStep classical pattern mem pat k b)
      = pqmPb classical pattern pat j b := by
  unfold pqmPb
  rw [pqmStep_pat hw hk hj]

theorem pqmStep_step {k : Nat} (hk : k < n) (b : Bits) :
    pqmStep classical pattern mem pat k (pqmStep classical pattern mem pat k b) = b := by
  have h := pqmPb_step (classical := classical) (pattern := pattern) hw hk hk b
  unfold pqmStep at h ⊢
  by_cases hp : pqmPb classical pattern pat k b = true
  · rw [if_pos hp] at h ⊢
    rw [if_pos (h.trans hp), flipBit_flipBit]
  · rw [if_neg hp, if_neg hp]

theorem pqmXs_aux (l : List Nat) (hl : ∀ k ∈ l, k < n) (b : Bits) :
    pqmXs classical pattern mem pat l b aux = b aux := by
  induction l with
  | nil => rfl
  | cons k l ih =>
    rw [pqmXs_cons, pqmStep_aux hw (hl k (List.mem_cons_self ..)),
      ih (fun j hj => hl j (List.mem_cons_of_mem _ hj))]

theorem pqmPb_xs (l : List Nat) (hl : ∀ k ∈ l, k < n) {j : Nat} (hj : j < n) (b : Bits) :
    pqmPb classical pattern pat j (pqmXs classical pattern mem pat l b)
      = pqmPb classical pattern pat j b := by
  induction l with
  | nil => rfl
  | cons k l ih =>
    rw [pqmXs_cons, pqmPb_step hw (hl k (List.mem_cons_self ..)) hj,
      ih (fun j hj => hl j (List.mem_cons_of_mem _ hj))]

theorem pqmXs_mem (l : List Nat) (hl : ∀ k ∈ l, k < n) (hnd : l.Nodup) {k : Nat} (hk : k < n)
    (b : Bits) :
    pqmXs classical pattern mem pat l b (mem k)
      = if k ∈ l then (b (mem k) != pqmPb classical pattern pat k b) else b (mem k) := by
  induction l with
  | nil => simp [pqmXs_nil]
  | cons j l ih =>
    have hj : j < n := hl j (List.mem_cons_self ..)
    have hl' : ∀ k ∈ l, k < n := fun i hi => hl i (List.mem_cons_of_mem _ hi)
    have hnd' := List.nodup_cons.mp hnd
    have ih' := ih hl' hnd'.2
    rw [pqmXs_cons]
    unfold pqmStep
    rw [pqmPb_xs hw l hl' hj]
    by_cases hkj : k = j
    · subst hkj
      have hnot : k ∉ l := hnd'.1
      rw [if_neg hnot] at ih'
      rw [if_pos (List.mem_cons_self ..)]
      cases hp : pqmPb classical pattern pat k b
      · simp [ih']
      · simp [flipBit_eq, ih']
    · have hne : mem k ≠ mem j := fun h => hkj (hw.mem_inj k j hk hj h)
      have hmem : (k ∈ j :: l) ↔ k ∈ l := by simp [hkj]
      have : (if pqmPb classical pattern pat j b = true
          then flipBit (pqmXs classical pattern mem pat l b) (mem j)
          else pqmXs classical pattern mem pat l b) (mem k)
          = pqmXs classical pattern mem pat l b (mem k) := by
        split
        · exact flipBit_ne _ hne
        · rfl
      rw [this, ih']
      simp only [hmem]

theorem pqmXs_invol (l : List Nat) (hl : ∀ k ∈ l, k < n) (b : Bits) :
    pqmXs classical pattern mem pat l (pqmXs classical pattern mem pat l.reverse b) = b := by
  induction l generalizing b with
  | nil => rfl
  | cons k l ih =>
    rw [List.reverse_cons, pqmXs_append, pqmXs_cons,
      ih (fun j hj => hl j (List.mem_cons_of_mem _ hj)), pqmXs_cons, pqmXs_nil,
      pqmStep_step hw (hl k (List.mem_cons_self ..))]

theorem pqmCnt_xs (b : Bits) :
    pqmCnt mem n (pqmXs classical pattern mem pat (List.range n).reverse b)
      = pqmDist n classical pattern mem pat b := by
  unfold pqmCnt pqmDist
  congr 1
  apply List.filter_congr
  intro k hk
  have hk' : k < n := List.mem_range.mp hk
  rw [pqmXs_mem hw _ (by intro j hj; exact List.mem_range.mp (List.mem_reverse.mp hj))
    (by rw [List.Nodup, List.pairwise_reverse]
        exact (List.nodup_range (n := n)).imp (fun h => Ne.symm h)) hk']
  rw [if_pos (List.mem_reverse.mpr hk)]
  rfl

theorem pqmDist_setBit_aux (v : Bool) (b : Bits) :
    pqmDist n classical pattern mem pat (setBit b aux v)
      = pqmDist n classical pattern mem pat b := by
  unfold pqmDist
  congr 1
  apply List.filter_congr
  intro k hk
  have hk' : k < n := List.mem_range.mp hk
  rw [setBit_ne b v (hw.mem_aux k hk'), setBit_ne b v (hw.pat_aux k hk')]

/-- The circuit between the two Hadamards is diagonal. -/
theorem pqm_mid (θm θc : Θ) (φ : State R) (b : Bits) :
    sem (pqmXor n classical pattern mem pat : Circ Θ).reverse
      (sem ((List.range n).map (fun k => G.cp θc aux (mem k)))
        (sem ((List.range n).map (fun k => G.p θm (mem k)))
          (sem (pqmXor n classical pattern mem pat : Circ Θ) φ))) b
      = (if b aux then ex θc * ex θc else 1) ^ pqmDist n classical pattern mem pat b
        * ((ex θm * ex θm) ^ pqmDist n classical pattern mem pat b * φ b) := by
  have hrange : ∀ k ∈ (List.range n).reverse, k < n := fun j hj =>
    List.mem_range.mp (List.mem_reverse.mp hj)
  have hrange' : ∀ k ∈ List.range n, k < n := fun j hj => List.mem_range.mp hj
  rw [pqmXor_eq, xorList_reverse, sem_xorList, sem_xorList]
  simp only []
  rw [sem_diagLayer mem (fun k => G.cp θc aux (mem k)) (fun b => if b aux then ex θc * ex θc else 1)
      (fun k ψ b => denote_cp θc aux (mem k) ψ b),
    sem_diagLayer mem (fun k => G.p θm (mem k)) (fun _ => ex θm * ex θm)
      (fun k ψ b => denote_p θm (mem k) ψ b)]
  rw [pqmXs_invol hw _ hrange', pqmCnt_xs hw, pqmXs_aux hw _ hrange]

end Helpers

variable {Θ R : Type} [AddCommGroup Θ] [CommRing R] [RotSem Θ R] [RotLaws Θ R]

set_option linter.unusedSectionVars false in
theorem pqm_correct (n : Nat) (classical : Bool) (pattern : Nat → Bool) (mem pat : Nat → Nat)
    (aux : Nat) (hw : PqmWires n mem pat aux) (θm θc : Θ) (ψ : State R) :
    sem (pqm n classical pattern mem pat aux θm θc) ψ
      = pqmIdeal n classical pattern mem pat aux θm θc ψ := by
  funext b
  unfold pqm
  simp only [sem_append, sem_single]
  rw [denote_h, pqm_mid hw, pqm_mid hw]
  simp only [denote_h, setBit_eq, setBit_setBit, pqmDist_setBit_aux hw]
  unfold pqmIdeal
  cases b aux <;> simp <;> ring

#print axioms pqm_correct
end Qclib
