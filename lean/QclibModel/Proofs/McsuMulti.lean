import QclibModel.Proofs.McsuCore
/-
  `MultiTargetMCSU2.clinear_depth_mcv` (C04_multitarget): layers of gates on pairwise different
  target wires commute, so the shared-control chain factors into one eight-gate core per target.
-/
set_option linter.unusedSectionVars false
namespace Qclib.Mcsu

variable {R : Type} [CommRing R]

/-- A layer: matrix families on wires, applied in list order. -/
def layer (L : List ((Bits → Mat2 R) × Nat)) (ψ : State R) : State R :=
  L.foldl (fun s g => applyFam g.1 g.2 s) ψ

theorem layer_cons (g : (Bits → Mat2 R) × Nat) (L : List ((Bits → Mat2 R) × Nat)) (ψ : State R) :
    layer (g :: L) ψ = layer L (applyFam g.1 g.2 ψ) := rfl

/-- A family on wire `t` commutes with a layer on other wires when nobody reads the other's
wire. -/
theorem applyFam_layer_comm (f : Bits → Mat2 R) (t : Nat) (L : List ((Bits → Mat2 R) × Nat))
    (h : ∀ g ∈ L, g.2 ≠ t ∧ TFree t g.1 ∧ TFree g.2 f) (ψ : State R) :
    applyFam f t (layer L ψ) = layer L (applyFam f t ψ) := by
  induction L generalizing ψ with
  | nil => rfl
  | cons g L ih =>
    obtain ⟨h1, h2, h3⟩ := h g (by simp)
    rw [layer_cons, layer_cons, ih (fun g' hg' => h g' (by simp [hg'])),
      applyFam_comm t g.2 (fun e => h1 e.symm) f g.1 h3 h2]

/-- One target's data: the gate `A`, its inverse `A'`, the wire. -/
structure Tgt (R : Type) where
  A : Mat2 R
  A' : Mat2 R
  t : Nat

/-- The multi-target MCX with literals `l` (an X on every target under the same controls). -/
def lx (l : List (Nat × Bool)) (G : List (Tgt R)) : List ((Bits → Mat2 R) × Nat) :=
  G.map (fun g => (mcuFam l (Mat2.X : Mat2 R), g.t))
/-- The layer of the gates `A_j`. -/
def lu (G : List (Tgt R)) : List ((Bits → Mat2 R) × Nat) := G.map (fun g => (fun _ => g.A, g.t))
/-- The layer of the gates `A_j⁻¹`. -/
def lu' (G : List (Tgt R)) : List ((Bits → Mat2 R) × Nat) := G.map (fun g => (fun _ => g.A', g.t))

theorem lx_cons (l : List (Nat × Bool)) (g : Tgt R) (G : List (Tgt R)) :
    lx l (g :: G) = (mcuFam l (Mat2.X : Mat2 R), g.t) :: lx l G := rfl
theorem lu_cons (g : Tgt R) (G : List (Tgt R)) : lu (g :: G) = ((fun _ => g.A), g.t) :: lu G := rfl
theorem lu'_cons (g : Tgt R) (G : List (Tgt R)) : lu' (g :: G) = ((fun _ => g.A'), g.t) :: lu' G := rfl

/-- Time order of `clinear_depth_mcv`: `MCX₁, A's, MCX₂, A'⁻¹s, MCX₁, A's, MCX₂, A'⁻¹s`. -/
def multiSeq (l1 l2 : List (Nat × Bool)) (G : List (Tgt R)) (ψ : State R) : State R :=
  layer (lu' G) (layer (lx l2 G) (layer (lu G) (layer (lx l1 G)
    (layer (lu' G) (layer (lx l2 G) (layer (lu G) (layer (lx l1 G) ψ)))))))

/-- The ideal result: every target gets its own multi-controlled `(A_j' X A_j X)²`. -/
def multiIdeal (l1 l2 : List (Nat × Bool)) (G : List (Tgt R)) (ψ : State R) : State R :=
  G.foldl (fun s g => applyMcu (l1 ++ l2) (coreW g.A g.A') g.t s) ψ

/-- Hypotheses on the targets: pairwise different wires, not among the controls, `A_j A_j' = 1`. -/
structure TgtOk (l1 l2 : List (Nat × Bool)) (G : List (Tgt R)) : Prop where
  nodup : (G.map (·.t)).Nodup
  av1 : ∀ g ∈ G, Avoids l1 g.t
  av2 : ∀ g ∈ G, Avoids l2 g.t
  inv : ∀ g ∈ G, g.A * g.A' = 1 ∧ g.A' * g.A = 1

theorem TgtOk.tail {l1 l2 : List (Nat × Bool)} {g : Tgt R} {G : List (Tgt R)}
    (h : TgtOk l1 l2 (g :: G)) : TgtOk l1 l2 G :=
  ⟨(List.nodup_cons.mp (show (g.t :: G.map (·.t)).Nodup from h.nodup)).2, fun x hx => h.av1 x (by simp [hx]),
    fun x hx => h.av2 x (by simp [hx]), fun x hx => h.inv x (by simp [hx])⟩

theorem multi_seq (l1 l2 : List (Nat × Bool)) (G : List (Tgt R)) (h : TgtOk l1 l2 G)
    (ψ : State R) : multiSeq l1 l2 G ψ = multiIdeal l1 l2 G ψ := by
  induction G generalizing ψ with
  | nil => rfl
  | cons g G ih =>
    have ht := h.tail
    have hne : ∀ x ∈ G, x.t ≠ g.t := by
      intro x hx e
      have := (List.nodup_cons.mp (show (g.t :: G.map (·.t)).Nodup from h.nodup)).1
      exact this (by rw [← e]; exact List.mem_map_of_mem (f := fun y : Tgt R => y.t) hx)
    have a1 := h.av1 g (by simp)
    have a2 := h.av2 g (by simp)
    -- commutation of each head gate with each tail layer
    have cX : ∀ (l : List (Nat × Bool)), Avoids l g.t → (∀ x ∈ G, Avoids l x.t) →
        ∀ (f : Bits → Mat2 R), (∀ x ∈ G, TFree x.t f) → ∀ φ,
        applyFam f g.t (layer (lx l G) φ) = layer (lx l G) (applyFam f g.t φ) := by
      intro l hl hlG f hf φ
      apply applyFam_layer_comm
      intro p hp
      simp only [lx, List.mem_map] at hp
      obtain ⟨x, hx, rfl⟩ := hp
      exact ⟨hne x hx, mcuFam_free l _ g.t hl, hf x hx⟩
    have cU : ∀ (f : Bits → Mat2 R), (∀ x ∈ G, TFree x.t f) → ∀ φ,
        applyFam f g.t (layer (lu G) φ) = layer (lu G) (applyFam f g.t φ) := by
      intro f hf φ
      apply applyFam_layer_comm
      intro p hp
      simp only [lu, List.mem_map] at hp
      obtain ⟨x, hx, rfl⟩ := hp
      exact ⟨hne x hx, TFree_const _ _, hf x hx⟩
    have cU' : ∀ (f : Bits → Mat2 R), (∀ x ∈ G, TFree x.t f) → ∀ φ,
        applyFam f g.t (layer (lu' G) φ) = layer (lu' G) (applyFam f g.t φ) := by
      intro f hf φ
      apply applyFam_layer_comm
      intro p hp
      simp only [lu', List.mem_map] at hp
      obtain ⟨x, hx, rfl⟩ := hp
      exact ⟨hne x hx, TFree_const _ _, hf x hx⟩
    have fx1 : ∀ x ∈ G, TFree x.t (mcuFam l1 (Mat2.X : Mat2 R)) :=
      fun x hx => mcuFam_free l1 _ x.t (ht.av1 x hx)
    have fx2 : ∀ x ∈ G, TFree x.t (mcuFam l2 (Mat2.X : Mat2 R)) :=
      fun x hx => mcuFam_free l2 _ x.t (ht.av2 x hx)
    have fa : ∀ x ∈ G, TFree x.t (fun _ : Bits => g.A) := fun x _ => TFree_const _ _
    have fa' : ∀ x ∈ G, TFree x.t (fun _ : Bits => g.A') := fun x _ => TFree_const _ _
    have k1x := cX l1 a1 ht.av1
    have k2x := cX l2 a2 ht.av2
    -- push the eight head gates inward past the tail layers
    have hstep : multiSeq l1 l2 (g :: G) ψ = multiSeq l1 l2 G (coreSeq l1 l2 g.t g.A g.A' ψ) := by
      simp only [multiSeq, lx_cons, lu_cons, lu'_cons, layer_cons]
      simp only [k1x _ fx1, k1x _ fx2, k1x _ fa, k1x _ fa', k2x _ fx1, k2x _ fx2, k2x _ fa,
        k2x _ fa', cU _ fx1, cU _ fx2, cU _ fa, cU _ fa', cU' _ fx1, cU' _ fx2, cU' _ fa,
        cU' _ fa']
      simp only [coreSeq, applyMcu_eq_fam, mcuFam_nil]
    obtain ⟨i1, i2⟩ := h.inv g (by simp)
    rw [hstep, ih ht, core_seq l1 l2 g.t g.A g.A' i1 i2 a1 a2]
    rfl

end Qclib.Mcsu
