import QclibModel.Proofs.UcgColumn
/-
  C12: with `preserve_previous` and support on indices `≥ t`, every level maps a basis state
  `|j⟩`, `j < t`, to itself times a unit phase.
-/
namespace Qclib.Ucg

variable {K : Type} [Field K] [StarRing K] {nrm : K → K → K} {isZero : K → Bool}

/-- `z·|j⟩` -/
def sdelta (z : K) (j : Nat) : Vec K := fun i => if i = j then z else 0

theorem enc_eq_iff (P l l' m m' : Nat) (hl : l < P) (hl' : l' < P) :
    l + P * m = l' + P * m' ↔ l = l' ∧ m = m' := by
  constructor
  · intro h
    have h1 := congrArg (· % P) h
    have h2 := congrArg (· / P) h
    simp only [idx_mod _ _ _ hl, idx_mod _ _ _ hl', idx_div _ _ _ hl, idx_div _ _ _ hl'] at h1 h2
    exact ⟨h1, h2⟩
  · rintro ⟨rfl, rfl⟩; rfl

/-- the matrix leaves the column `b` of the pair alone. -/
def TrivialCol (m : Mat2 K) (b : Nat) : Prop :=
  if b = 1 then m.b = 0 ∧ m.d = 1 else m.a = 1 ∧ m.c = 0

omit [StarRing K] in
theorem mux_sdelta_dec (m : Nat → Mat2 K) (q : Nat) (z : K) (lo h b lj hj bj : Nat)
    (hlo : lo < 2 ^ q) (hlj : lj < 2 ^ q) (hb : b < 2) (hbj : bj < 2)
    (ht : lo = lj → h = hj → TrivialCol (m hj) bj) :
    muxApply m q (sdelta z (lj + 2 ^ q * (2 * hj + bj))) (lo + 2 ^ q * (2 * h + b))
      = sdelta z (lj + 2 ^ q * (2 * hj + bj)) (lo + 2 ^ q * (2 * h + b)) := by
  have e := muxApply_at m q (sdelta z (lj + 2 ^ q * (2 * hj + bj))) lo h hlo
  have hb' : b = 0 ∨ b = 1 := by omega
  have hbj' : bj = 0 ∨ bj = 1 := by omega
  by_cases hs : lo = lj ∧ h = hj
  · obtain ⟨rfl, rfl⟩ := hs
    have ht' := ht rfl rfl
    unfold TrivialCol at ht'
    rcases hb' with rfl | rfl <;> rcases hbj' with rfl | rfl
    · simp only [Nat.add_zero] at e ⊢
      rw [e.1]
      simp only [sdelta, enc_eq_iff _ _ _ _ _ hlo hlo] at *
      simp at ht'
      simp [ht'.1]
    · simp only [Nat.add_zero] at e ⊢
      rw [e.1]
      simp only [sdelta, enc_eq_iff _ _ _ _ _ hlo hlo] at *
      simp at ht'
      simp [ht'.1]
    · rw [e.2]
      simp only [sdelta, enc_eq_iff _ _ _ _ _ hlo hlo] at *
      simp at ht'
      simp [ht'.2]
    · rw [e.2]
      simp only [sdelta, enc_eq_iff _ _ _ _ _ hlo hlo] at *
      simp at ht'
      simp [ht'.2]
  · have n0 : ¬ (lo = lj ∧ 2 * h = 2 * hj + bj) := by rintro ⟨h1, h2⟩; exact hs ⟨h1, by omega⟩
    have n1 : ¬ (lo = lj ∧ 2 * h + 1 = 2 * hj + bj) := by rintro ⟨h1, h2⟩; exact hs ⟨h1, by omega⟩
    have n2 : ¬ (lo = lj ∧ 2 * h + b = 2 * hj + bj) := by rintro ⟨h1, h2⟩; exact hs ⟨h1, by omega⟩
    rcases hb' with rfl | rfl
    · simp only [Nat.add_zero] at e n2 ⊢
      rw [e.1]
      simp only [sdelta, enc_eq_iff _ _ _ _ _ hlo hlj, n0, n1, if_false, mul_zero, add_zero]
    · rw [e.2]
      simp only [sdelta, enc_eq_iff _ _ _ _ _ hlo hlj, n0, n1, if_false, mul_zero, add_zero]

omit [StarRing K] in
theorem mux_sdelta_pt (m : Nat → Mat2 K) (q : Nat) (z : K) (j i : Nat)
    (h : i % 2 ^ q = j % 2 ^ q → i / 2 ^ q / 2 = j / 2 ^ q / 2 →
      TrivialCol (m (j / 2 ^ q / 2)) (j / 2 ^ q % 2)) :
    muxApply m q (sdelta z j) i = sdelta z j i := by
  have := mux_sdelta_dec m q z (i % 2 ^ q) (i / 2 ^ q / 2) (i / 2 ^ q % 2) (j % 2 ^ q) (j / 2 ^ q / 2)
    (j / 2 ^ q % 2) (Nat.mod_lt _ (pow_pos2 q)) (Nat.mod_lt _ (pow_pos2 q)) (Nat.mod_lt _ (by omega))
    (Nat.mod_lt _ (by omega)) h
  rwa [idx_decomp, idx_decomp] at this

theorem buildMux_zero_pair (hN : NrmSpec nrm) (hz : ZeroSpec isZero) (bit : Bool) (c : Nat → K) (k : Nat)
    (h0 : c (2 * k) = 0) (h1 : c (2 * k + 1) = 0) :
    buildMux (ringOps K nrm isZero) bit c k = ⟨1, 0, 0, 1⟩ := by
  have hp : nrm (c (2 * k)) (c (2 * k + 1)) = 0 := by rw [h0, h1, nrm_zero hN]
  rcases muxEntry_cases (nrm := nrm) hz bit (c (2 * k)) (c (2 * k + 1)) (nrm (c (2 * k)) (c (2 * k + 1)))
    with ⟨_, hm⟩ | ⟨hp', _⟩ | ⟨hp', _⟩
  · exact hm
  · exact absurd hp hp'
  · exact absurd hp hp'

/-- when the `|0⟩` child vanishes and the target bit is `1`, the entry (diagonal operator or
identity) leaves `|0⟩` of the pair alone. -/
theorem buildMux_first_zero (hz : ZeroSpec isZero) (c : Nat → K) (k : Nat) (h0 : c (2 * k) = 0) :
    TrivialCol (buildMux (ringOps K nrm isZero) true c k) 0 := by
  unfold TrivialCol
  rw [if_neg (by omega)]
  rcases muxEntry_cases (nrm := nrm) hz true (c (2 * k)) (c (2 * k + 1)) (nrm (c (2 * k)) (c (2 * k + 1)))
    with ⟨_, hm⟩ | ⟨_, _, hm⟩ | ⟨_, hne, _⟩
  · change muxEntry _ _ _ _ _ = _ at hm
    rw [buildMux, updateParent]
    change (muxEntry _ _ _ _ (nrm _ _)).a = 1 ∧ (muxEntry _ _ _ _ (nrm _ _)).c = 0
    rw [hm]; exact ⟨rfl, rfl⟩
  · rw [buildMux, updateParent]
    change (muxEntry _ _ _ _ (nrm _ _)).a = 1 ∧ (muxEntry _ _ _ _ (nrm _ _)).c = 0
    rw [hm]; exact ⟨rfl, rfl⟩
  · exact absurd h0 hne

omit [StarRing K] in
theorem trivialCol_one (b : Nat) : TrivialCol (⟨1, 0, 0, 1⟩ : Mat2 K) b := by
  unfold TrivialCol; split <;> exact ⟨rfl, rfl⟩

/-- **One level preserves `|j⟩`, `j < t`** (`preserve_previous` on, children vanishing below
`t / 2^q`): pulled-out gate, then the UCGate circuit of the remaining multiplexer. -/
theorem level_preserve (hN : NrmSpec nrm) (hz : ZeroSpec isZero) (q t j : Nat) (hj : j < t)
    (c : Nat → K) (hsupp : ∀ k, k < t / 2 ^ q → c k = 0) (z : K)
    (d : Nat → K) (hd : ∀ k, d k * star (d k) = 1) (U : Vec K → Vec K)
    (hU : ∀ (ψ : Vec K) (i : Nat), d (i / 2 ^ q) * U ψ i
      = muxApply (replaceEntry (ringOps K nrm isZero) (buildMux (ringOps K nrm isZero) (t.testBit q) c)
          (t / 2 ^ q / 2)) q ψ i) :
    U (ctrlApply (buildMux (ringOps K nrm isZero) (t.testBit q) c (t / 2 ^ q / 2)) q t (sdelta z j))
      = sdelta (z * star (d (j / 2 ^ q))) j := by
  have hjt : j / 2 ^ q ≤ t / 2 ^ q := Nat.div_le_div_right (Nat.le_of_lt hj)
  -- A: the pulled-out gate fixes z|j⟩
  have hA : ctrlApply (buildMux (ringOps K nrm isZero) (t.testBit q) c (t / 2 ^ q / 2)) q t (sdelta z j)
      = sdelta z j := by
    funext i
    unfold ctrlApply
    split
    · rename_i hag
      refine mux_sdelta_pt _ q z j i (fun h1 h2 => ?_)
      obtain ⟨g1, g2⟩ := hag
      have dj := idx_decomp (2 ^ q) j
      have dt := idx_decomp (2 ^ q) t
      rw [← h1, g1, ← h2, g2] at dj
      have hlt : 2 ^ q * (2 * (t / 2 ^ q / 2) + j / 2 ^ q % 2) < 2 ^ q * (2 * (t / 2 ^ q / 2) + t / 2 ^ q % 2) := by
        omega
      have hlt' := Nat.lt_of_mul_lt_mul_left hlt
      have hbj : j / 2 ^ q % 2 = 0 := by omega
      have hbt : t / 2 ^ q % 2 = 1 := by omega
      have htb : t.testBit q = true := by rw [testBit_eq, hbt]; rfl
      rw [hbj, htb]
      exact buildMux_first_zero hz c _ (hsupp _ (by omega))
    · rfl
  -- B: the remaining multiplexer fixes z|j⟩
  have hB : ∀ i, muxApply (replaceEntry (ringOps K nrm isZero) (buildMux (ringOps K nrm isZero) (t.testBit q) c)
      (t / 2 ^ q / 2)) q (sdelta z j) i = sdelta z j i := by
    intro i
    refine mux_sdelta_pt _ q z j i (fun _ _ => ?_)
    unfold replaceEntry
    split
    · exact trivialCol_one _
    · rename_i hne
      rw [buildMux_zero_pair hN hz _ c _ (hsupp _ (by omega)) (hsupp _ (by omega))]
      exact trivialCol_one _
  funext i
  rw [hA]
  have hUi : U (sdelta z j) i = star (d (i / 2 ^ q)) * sdelta z j i := by
    rw [← hB i, ← hU, ← mul_assoc, mul_comm (star _), hd, one_mul]
  rw [hUi]
  unfold sdelta
  by_cases hij : i = j
  · rw [if_pos hij, if_pos hij, hij, mul_comm]
  · rw [if_neg hij, if_neg hij, mul_zero]

/-- **All levels preserve `|j⟩`, `j < t`**, up to a unit phase. -/
theorem fwd_preserve (hN : NrmSpec nrm) (hz : ZeroSpec isZero) (n t j : Nat) (hj : j < t)
    (d : Nat → Nat → K) (hd : ∀ q k, d q k * star (d q k) = 1) (v : Nat → K)
    (hv : ∀ i, i < t → v i = 0)
    (Uc : Nat → Vec K → Vec K) (hU : UcSpec nrm isZero true n t d v Uc) :
    ∀ q, q ≤ n → ∃ z : K, z * star z = 1 ∧
      fwd (preGate nrm isZero true t d v) Uc q (delta j) = sdelta z j := by
  intro q
  induction q with
  | zero => intro _; exact ⟨1, by simp, rfl⟩
  | succ q ih =>
    intro hq
    obtain ⟨z, hz1, hf⟩ := ih (by omega)
    refine ⟨z * star (d q (j / 2 ^ q)), ?_, ?_⟩
    · rw [star_mul, star_star]
      have := hd q (j / 2 ^ q)
      linear_combination (d q (j / 2 ^ q) * star (d q (j / 2 ^ q))) * hz1 + this
    · rw [fwd, hf]
      have hUq := hU q (by omega)
      simp only [usedMux, if_true, rGateAt_eq, lvlMux] at hUq
      simp only [preGate, if_true, rGateAt_eq, lvlMux]
      exact level_preserve hN hz q t j hj _ (gen_below hN _ v t hv q) z (d q) (hd q) (Uc q) hUq

end Qclib.Ucg
