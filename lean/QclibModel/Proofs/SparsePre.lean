import QclibModel.Proofs.SparseTrack
import Mathlib.Data.List.Basic
/-
  C06 — `_preprocess_states` of merge.py: the relabelling it applies to every key is a composition
  of `x q` / `cx dif t` gates (uniformly on `bitstr1`, `bitstr2` and the dictionary), such
  relabellings preserve "two keys agree on a set of positions containing `dif`", and afterwards
  `bitstr1`, `bitstr2` agree off `dif`, carry `1` / `0` on `dif` and `1` on every control.
-/
namespace Qclib.Sparse
open Qclib

variable {α : Type}

/-- key-level operations emitted by the preprocessing -/
inductive KOp where
  | x (q : Nat)
  | cx (c t : Nat)

def KOp.app : KOp → Str → Str
  | .x q, s => computeOpX s q
  | .cx c t, s => computeOpCx s c t

def applyOps (ops : List KOp) (s : Str) : Str := ops.foldl (fun s o => o.app s) s

theorem applyOps_append (a b : List KOp) (s : Str) : applyOps (a ++ b) s = applyOps b (applyOps a s) := by
  simp [applyOps, List.foldl_append]

/-- allowed operations for target `dif` on `n`-character keys -/
def KOp.ok (n dif : Nat) : KOp → Prop
  | .x q => q < n
  | .cx c t => c = dif ∧ t ≠ dif ∧ t < n

def agreeOn (a b : Str) (S : Nat → Prop) : Prop := ∀ q, S q → bitAt a q = bitAt b q

theorem KOp.app_length (n dif : Nat) (o : KOp) (ho : o.ok n dif) (s : Str) (hs : s.length = n) :
    (o.app s).length = n := by
  cases o with
  | x q => exact (computeOpX_length s q (hs ▸ ho)).trans hs
  | cx c t => exact (computeOpCx_length s c t (hs ▸ ho.2.2)).trans hs

theorem KOp.app_agree (n dif : Nat) (o : KOp) (ho : o.ok n dif) (k k' : Str) (hk : k.length = n)
    (hk' : k'.length = n) (S : Nat → Prop) (hS : S dif) :
    agreeOn (o.app k) (o.app k') S ↔ agreeOn k k' S := by
  cases o with
  | x q =>
    have hq : q < n := ho
    simp only [KOp.app, agreeOn, bitAt_computeOpX k q _ (hk ▸ hq), bitAt_computeOpX k' q _ (hk' ▸ hq)]
    constructor
    · intro h j hj
      have := h j hj
      by_cases e : j = q
      · subst e; simpa using this
      · simpa [e] using this
    · intro h j hj
      by_cases e : j = q
      · subst e; simp [h j hj]
      · simp [e, h j hj]
  | cx c t =>
    obtain ⟨rfl, htd, htn⟩ := ho
    simp only [KOp.app, agreeOn, bitAt_computeOpCx k c t _ (hk ▸ htn),
      bitAt_computeOpCx k' c t _ (hk' ▸ htn)]
    constructor
    · intro h
      have hd : bitAt k c = bitAt k' c := by
        have := h c hS
        have e : ¬ (c = t) := fun e => htd e.symm
        simpa [e] using this
      intro j hj
      have := h j hj
      by_cases e : j = t
      · subst e
        rw [hd] at this
        by_cases hb : bitAt k' c = true
        · simpa [hb] using this
        · simpa [hb] using this
      · simpa [e] using this
    · intro h j hj
      have hd : bitAt k c = bitAt k' c := h c hS
      by_cases e : j = t
      · subst e; rw [hd, h j hj]
      · simp [e, h j hj]

theorem applyOps_length (n dif : Nat) (ops : List KOp) (hops : ∀ o ∈ ops, o.ok n dif) (s : Str)
    (hs : s.length = n) : (applyOps ops s).length = n := by
  induction ops generalizing s with
  | nil => exact hs
  | cons o l ih =>
    exact ih (fun o' ho' => hops o' (List.mem_cons_of_mem _ ho')) _
      (KOp.app_length n dif o (hops o List.mem_cons_self) s hs)

theorem applyOps_agree (n dif : Nat) (ops : List KOp) (hops : ∀ o ∈ ops, o.ok n dif) (k k' : Str)
    (hk : k.length = n) (hk' : k'.length = n) (S : Nat → Prop) (hS : S dif) :
    agreeOn (applyOps ops k) (applyOps ops k') S ↔ agreeOn k k' S := by
  induction ops generalizing k k' with
  | nil => exact Iff.rfl
  | cons o l ih =>
    have ho := hops o List.mem_cons_self
    have hl : ∀ o' ∈ l, o'.ok n dif := fun o' ho' => hops o' (List.mem_cons_of_mem _ ho')
    show agreeOn (applyOps l (o.app k)) (applyOps l (o.app k')) S ↔ _
    rw [ih hl _ _ (KOp.app_length n dif o ho k hk) (KOp.app_length n dif o ho k' hk')]
    exact KOp.app_agree n dif o ho k k' hk hk' S hS

/-! ### the preprocessing applies one list of operations uniformly -/

/-- `st` is `st0` relabelled by `ops` -/
def Rel (st0 st : MSt α) (ops : List KOp) : Prop :=
  st.b1 = applyOps ops st0.b1 ∧ st.b2 = applyOps ops st0.b2 ∧
  st.d = st0.d.mapKeys (applyOps ops)

theorem mapKeys_mapKeys (d : Dict α) (f g : Str → Str) :
    (d.mapKeys f).mapKeys g = d.mapKeys (fun k => g (f k)) := by
  simp [Dict.mapKeys, List.map_map, Function.comp_def]

theorem Rel.applyX {st0 st : MSt α} {ops : List KOp} (h : Rel st0 st ops) (q : Nat) :
    Rel st0 (applyX st q) (ops ++ [KOp.x q]) := by
  obtain ⟨h1, h2, h3⟩ := h
  refine ⟨?_, ?_, ?_⟩
  · show computeOpX st.b1 q = _; rw [applyOps_append, h1]; rfl
  · show computeOpX st.b2 q = _; rw [applyOps_append, h2]; rfl
  · show st.d.mapKeys (fun k => computeOpX k q) = _
    rw [h3, mapKeys_mapKeys]
    congr 1; funext k; rw [applyOps_append]; rfl

theorem Rel.applyCx {st0 st : MSt α} {ops : List KOp} (h : Rel st0 st ops) (c t : Nat) :
    Rel st0 (applyCx st c t) (ops ++ [KOp.cx c t]) := by
  obtain ⟨h1, h2, h3⟩ := h
  refine ⟨?_, ?_, ?_⟩
  · show computeOpCx st.b1 c t = _; rw [applyOps_append, h1]; rfl
  · show computeOpCx st.b2 c t = _; rw [applyOps_append, h2]; rfl
  · show st.d.mapKeys (fun k => computeOpCx k c t) = _
    rw [h3, mapKeys_mapKeys]
    congr 1; funext k; rw [applyOps_append]; rfl

/-- invariant of `bitstr1`, `bitstr2` during the preprocessing (after the `x` on `dif`) -/
structure PreInv (n dif : Nat) (st : MSt α) : Prop where
  l1 : st.b1.length = n
  l2 : st.b2.length = n
  d1 : bitAt st.b1 dif = true
  d2 : bitAt st.b2 dif = false

def OkOps (n dif : Nat) (ops : List KOp) : Prop := ∀ o ∈ ops, o.ok n dif

theorem OkOps.snoc {n dif : Nat} {ops : List KOp} (h : OkOps n dif ops) {o : KOp} (ho : o.ok n dif) :
    OkOps n dif (ops ++ [o]) := by
  intro o' ho'
  rcases List.mem_append.mp ho' with h' | h'
  · exact h o' h'
  · rw [List.mem_singleton] at h'; subst h'; exact ho

/-- `_equalize_bit_string_states` (fold over the indices other than `dif`) -/
theorem equalize_fold (n dif : Nat) (st0 : MSt α) (idxs : List Nat) (hd : dif ∉ idxs)
    (hn : ∀ b ∈ idxs, b < n) (st : MSt α) (ops : List KOp) (hrel : Rel st0 st ops)
    (hok : OkOps n dif ops) (inv : PreInv n dif st) :
    let st' := idxs.foldl
      (fun st b => if bitAt st.b1 b != bitAt st.b2 b then applyCx st dif b else st) st
    (∃ ops', Rel st0 st' ops' ∧ OkOps n dif ops') ∧ PreInv n dif st' ∧
    ∀ j, (j ∈ idxs ∨ bitAt st.b1 j = bitAt st.b2 j) → j ≠ dif → bitAt st'.b1 j = bitAt st'.b2 j := by
  induction idxs generalizing st ops with
  | nil =>
    refine ⟨⟨ops, hrel, hok⟩, inv, ?_⟩
    intro j hj _
    rcases hj with hj | hj
    · simp at hj
    · exact hj
  | cons b rest ih =>
    have hbd : b ≠ dif := fun e => hd (e ▸ List.mem_cons_self)
    have hbn : b < n := hn b List.mem_cons_self
    have hd' : dif ∉ rest := fun h => hd (List.mem_cons_of_mem _ h)
    have hn' : ∀ b ∈ rest, b < n := fun x hx => hn x (List.mem_cons_of_mem _ hx)
    simp only [List.foldl_cons]
    by_cases hne : bitAt st.b1 b = bitAt st.b2 b
    · -- no gate
      have hstep : (if bitAt st.b1 b != bitAt st.b2 b then applyCx st dif b else st) = st := by
        simp [hne]
      rw [hstep]
      obtain ⟨r, i, e⟩ := ih hd' hn' st ops hrel hok inv
      refine ⟨r, i, ?_⟩
      intro j hj hjd
      apply e j _ hjd
      rcases hj with hj | hj
      · rcases List.mem_cons.mp hj with rfl | hj
        · exact Or.inr hne
        · exact Or.inl hj
      · exact Or.inr hj
    · have hstep : (if bitAt st.b1 b != bitAt st.b2 b then applyCx st dif b else st)
          = applyCx st dif b := by simp [hne]
      rw [hstep]
      have b1' : ∀ j, bitAt (applyCx st dif b).b1 j = if j = b then !bitAt st.b1 b else bitAt st.b1 j := by
        intro j
        show bitAt (computeOpCx st.b1 dif b) j = _
        rw [bitAt_computeOpCx _ _ _ _ (inv.l1 ▸ hbn)]; simp [inv.d1]
      have b2' : ∀ j, bitAt (applyCx st dif b).b2 j = bitAt st.b2 j := by
        intro j
        show bitAt (computeOpCx st.b2 dif b) j = _
        rw [bitAt_computeOpCx _ _ _ _ (inv.l2 ▸ hbn)]; simp [inv.d2]
      have inv' : PreInv n dif (applyCx st dif b) :=
        ⟨(computeOpCx_length _ _ _ (inv.l1 ▸ hbn)).trans inv.l1,
         (computeOpCx_length _ _ _ (inv.l2 ▸ hbn)).trans inv.l2,
         by rw [b1', if_neg (fun e : dif = b => hbd e.symm)]; exact inv.d1,
         by rw [b2']; exact inv.d2⟩
      obtain ⟨r, i, e⟩ := ih hd' hn' (applyCx st dif b) (ops ++ [KOp.cx dif b]) (hrel.applyCx dif b)
        (hok.snoc ⟨rfl, hbd, hbn⟩) inv'
      refine ⟨r, i, ?_⟩
      intro j hj hjd
      apply e j _ hjd
      by_cases hjb : j = b
      · right; subst hjb; rw [b1', b2']; simp
        cases h1 : bitAt st.b1 j <;> cases h2 : bitAt st.b2 j <;> simp_all
      · rcases hj with hj | hj
        · rcases List.mem_cons.mp hj with rfl | hj
          · exact absurd rfl hjb
          · exact Or.inl hj
        · right; rw [b1', b2']; simp [hjb, hj]

/-- `_apply_not_gates_to_qubit_index_list` (fold over the controls) -/
theorem nots_fold (n dif : Nat) (st0 : MSt α) (dq : List Nat) (hd : dif ∉ dq)
    (hn : ∀ b ∈ dq, b < n) (st : MSt α) (ops : List KOp) (hrel : Rel st0 st ops)
    (hok : OkOps n dif ops) (inv : PreInv n dif st)
    (heq : ∀ j, j ≠ dif → bitAt st.b1 j = bitAt st.b2 j) :
    let st' := dq.foldl (fun st b => if bitAt st.b2 b != true then applyX st b else st) st
    (∃ ops', Rel st0 st' ops' ∧ OkOps n dif ops') ∧ PreInv n dif st' ∧
    (∀ j, j ≠ dif → bitAt st'.b1 j = bitAt st'.b2 j) ∧
    ∀ q, (q ∈ dq ∨ bitAt st.b2 q = true) → bitAt st'.b2 q = true := by
  induction dq generalizing st ops with
  | nil =>
    refine ⟨⟨ops, hrel, hok⟩, inv, heq, ?_⟩
    intro q hq
    rcases hq with hq | hq
    · simp at hq
    · exact hq
  | cons b rest ih =>
    have hbd : b ≠ dif := fun e => hd (e ▸ List.mem_cons_self)
    have hbn : b < n := hn b List.mem_cons_self
    have hd' : dif ∉ rest := fun h => hd (List.mem_cons_of_mem _ h)
    have hn' : ∀ b ∈ rest, b < n := fun x hx => hn x (List.mem_cons_of_mem _ hx)
    simp only [List.foldl_cons]
    by_cases hb : bitAt st.b2 b = true
    · have hstep : (if bitAt st.b2 b != true then applyX st b else st) = st := by simp [hb]
      rw [hstep]
      obtain ⟨r, i, e, o⟩ := ih hd' hn' st ops hrel hok inv heq
      refine ⟨r, i, e, ?_⟩
      intro q hq
      apply o q
      rcases hq with hq | hq
      · rcases List.mem_cons.mp hq with rfl | hq
        · exact Or.inr hb
        · exact Or.inl hq
      · exact Or.inr hq
    · have hstep : (if bitAt st.b2 b != true then applyX st b else st) = applyX st b := by
        simp [hb]
      rw [hstep]
      have b1' : ∀ j, bitAt (applyX st b).b1 j = if j = b then !bitAt st.b1 b else bitAt st.b1 j := by
        intro j; exact bitAt_computeOpX _ _ _ (inv.l1 ▸ hbn)
      have b2' : ∀ j, bitAt (applyX st b).b2 j = if j = b then !bitAt st.b2 b else bitAt st.b2 j := by
        intro j; exact bitAt_computeOpX _ _ _ (inv.l2 ▸ hbn)
      have hdb : ¬ dif = b := fun e => hbd e.symm
      have inv' : PreInv n dif (applyX st b) :=
        ⟨(computeOpX_length _ _ (inv.l1 ▸ hbn)).trans inv.l1,
         (computeOpX_length _ _ (inv.l2 ▸ hbn)).trans inv.l2,
         by rw [b1', if_neg hdb]; exact inv.d1, by rw [b2', if_neg hdb]; exact inv.d2⟩
      have heq' : ∀ j, j ≠ dif → bitAt (applyX st b).b1 j = bitAt (applyX st b).b2 j := by
        intro j hj
        rw [b1', b2']
        by_cases e : j = b
        · subst e; simp [heq j hj]
        · simp [e, heq j hj]
      obtain ⟨r, i, e, o⟩ := ih hd' hn' (applyX st b) (ops ++ [KOp.x b]) (hrel.applyX b)
        (hok.snoc (show (KOp.x b).ok n dif from hbn)) inv' heq'
      refine ⟨r, i, e, ?_⟩
      intro q hq
      apply o q
      by_cases hqb : q = b
      · right; subst hqb; rw [b2']; simp; simpa using hb
      · rcases hq with hq | hq
        · rcases List.mem_cons.mp hq with rfl | hq
          · exact absurd rfl hqb
          · exact Or.inl hq
        · right; rw [b2']; simp [hqb, hq]

end Qclib.Sparse
