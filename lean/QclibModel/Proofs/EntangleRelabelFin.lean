import QclibModel.Proofs.EntangleLU
import QclibModel.Proofs.EntangleBits
import Mathlib.Logic.Equiv.Defs
/-
  C20: relabelling the qubits by a permutation `σ` of `{0..n-1}` acts on basis-state labels as a
  bit permutation `permIdx σ n` (bit `k` moves to bit `σ k`).  For every qubit `k` it induces a
  bijection `π k` of the `(n-1)`-bit remainders — the slice-wise presentation the invariance lemma
  `mwValue_relabel` needs.
-/
namespace Qclib.Ent

/-- `σ` maps `{0..n-1}` onto itself. -/
def StableOn (σ : Equiv.Perm Nat) (n : Nat) : Prop := ∀ k, σ k < n ↔ k < n

theorem StableOn.symm {σ : Equiv.Perm Nat} {n : Nat} (h : StableOn σ n) : StableOn σ.symm n := by
  intro k
  have := h (σ.symm k)
  rw [Equiv.apply_symm_apply] at this
  exact this.symm

/-- the label `b` with bit `k` moved to bit `σ k` for every `k < n` (bits `≥ n` are dropped):
bit `j < n` of the result is bit `σ⁻¹ j` of `b`. -/
def permIdx (σ : Equiv.Perm Nat) (n b : Nat) : Nat :=
  Nat.ofBits (fun j : Fin n => b.testBit (σ.symm j))

theorem testBit_permIdx (σ : Equiv.Perm Nat) (n b i : Nat) :
    (permIdx σ n b).testBit i = (decide (i < n) && b.testBit (σ.symm i)) := by
  unfold permIdx
  by_cases h : i < n
  · rw [Nat.testBit_ofBits_lt _ _ h]; simp [h]
  · rw [Nat.testBit_ofBits_ge _ _ (by omega)]; simp [h]

theorem permIdx_lt (σ : Equiv.Perm Nat) (n b : Nat) : permIdx σ n b < 2 ^ n :=
  Nat.ofBits_lt_two_pow _

/-- bit `k` of `b` is bit `σ k` of `permIdx σ n b`. -/
theorem testBit_permIdx_apply {σ : Equiv.Perm Nat} {n : Nat} (hσ : StableOn σ n) (b k : Nat) (hk : k < n) :
    (permIdx σ n b).testBit (σ k) = b.testBit k := by
  rw [testBit_permIdx, Equiv.symm_apply_apply]
  simp [(hσ k).2 hk]

/-- position `i` of the remainder, seen in the full label with bit `a` present. -/
def up (a i : Nat) : Nat := if i < a then i else i + 1
/-- position `p ≠ a` of the full label, seen in the remainder with bit `a` deleted. -/
def dn (a p : Nat) : Nat := if p < a then p else p - 1

theorem up_ne (a i : Nat) : up a i ≠ a := by unfold up; split <;> omega
theorem dn_up (a i : Nat) : dn a (up a i) = i := by unfold up dn; grind
theorem up_dn (a x : Nat) (h : x ≠ a) : up a (dn a x) = x := by unfold up dn; grind

/-- bits of the remainder of the permuted label: independent of the value `c` of the deleted
bit. -/
theorem testBit_pi (σ : Equiv.Perm Nat) (n k : Nat) (c : Bool) (r i : Nat) :
    (delBit (σ k) (permIdx σ n (insBit k c r))).testBit i =
      (decide (up (σ k) i < n) && r.testBit (dn k (σ.symm (up (σ k) i)))) := by
  rw [testBit_delBit, testBit_permIdx, testBit_insBit]
  have e : (if i < σ k then i else i + 1) = up (σ k) i := rfl
  rw [e]
  congr 1
  have hne : σ.symm (up (σ k) i) ≠ k := by
    intro h
    have := congrArg σ h
    rw [Equiv.apply_symm_apply] at this
    exact up_ne _ _ this
  unfold dn
  by_cases hp : σ.symm (up (σ k) i) < k
  · rw [if_pos hp, if_pos hp]
  · rw [if_neg hp, if_neg hne, if_neg hp]

/-- the reindexing of the remainders induced on qubit `k`. -/
def piFun (σ : Equiv.Perm Nat) (n k r : Nat) : Nat :=
  if r < 2 ^ (n - 1) then delBit (σ k) (permIdx σ n (insBit k false r)) else r

theorem piFun_lt {σ : Equiv.Perm Nat} {n : Nat} (hσ : StableOn σ n) (k : Nat) (hk : k < n) (r : Nat)
    (hr : r < 2 ^ (n - 1)) : piFun σ n k r < 2 ^ (n - 1) := by
  unfold piFun
  rw [if_pos hr]
  exact delBit_lt ((hσ k).2 hk) (permIdx_lt σ n _)

theorem piFun_inv {σ : Equiv.Perm Nat} {n : Nat} (hσ : StableOn σ n) (k : Nat) (hk : k < n) (r : Nat) :
    piFun σ.symm n (σ k) (piFun σ n k r) = r := by
  by_cases hr : r < 2 ^ (n - 1)
  · have hr' := piFun_lt hσ k hk r hr
    rw [piFun, if_pos hr']
    apply Nat.eq_of_testBit_eq
    intro i
    rw [testBit_pi, Equiv.symm_apply_apply, Equiv.symm_symm]
    rw [piFun, if_pos hr, testBit_pi]
    have hne : σ (up k i) ≠ σ k := fun h => up_ne k i (σ.injective h)
    rw [up_dn _ _ hne, Equiv.symm_apply_apply, dn_up]
    by_cases hu : up k i < n
    · simp [hu, (hσ _).2 hu]
    · have hi : n - 1 ≤ i := by unfold up at hu; split at hu <;> omega
      rw [testBit_false_of_lt hr hi]
      simp [hu]
  · have e : piFun σ n k r = r := by rw [piFun, if_neg hr]
    rw [e, piFun, if_neg hr]

/-- the bijection `π k` of `[0, 2^(n-1))` (identity elsewhere, and for `k ≥ n`). -/
def piEquiv (σ : Equiv.Perm Nat) (n : Nat) (hσ : StableOn σ n) (k : Nat) : Equiv.Perm Nat :=
  if hk : k < n then
    { toFun := piFun σ n k
      invFun := piFun σ.symm n (σ k)
      left_inv := piFun_inv hσ k hk
      right_inv := by
        intro r
        have := piFun_inv hσ.symm (σ k) ((hσ k).2 hk) r
        rwa [Equiv.symm_symm, Equiv.symm_apply_apply] at this }
  else Equiv.refl _

theorem piEquiv_apply (σ : Equiv.Perm Nat) (n : Nat) (hσ : StableOn σ n) (k : Nat) (hk : k < n) (r : Nat) :
    piEquiv σ n hσ k r = piFun σ n k r := by
  unfold piEquiv
  rw [dif_pos hk]
  rfl

theorem piEquiv_range (σ : Equiv.Perm Nat) (n : Nat) (hσ : StableOn σ n) (k r : Nat) :
    piEquiv σ n hσ k r < 2 ^ (n - 1) ↔ r < 2 ^ (n - 1) := by
  by_cases hk : k < n
  · rw [piEquiv_apply σ n hσ k hk]
    constructor
    · intro h
      by_contra hr
      rw [piFun, if_neg hr] at h
      exact hr h
    · exact piFun_lt hσ k hk r
  · unfold piEquiv
    rw [dif_neg hk]
    rfl

/-- the permuted label of `insBit k c r` is `insBit (σ k) c (π k r)`. -/
theorem permIdx_insBit {σ : Equiv.Perm Nat} {n : Nat} (hσ : StableOn σ n) (k : Nat) (hk : k < n)
    (c : Bool) (r : Nat) (hr : r < 2 ^ (n - 1)) :
    permIdx σ n (insBit k c r) = insBit (σ k) c (piFun σ n k r) := by
  have h1 := insBit_delBit (σ k) (permIdx σ n (insBit k c r))
  rw [testBit_permIdx_apply hσ _ k hk, testBit_insBit_self] at h1
  rw [← h1, piFun, if_pos hr]
  congr 1
  apply Nat.eq_of_testBit_eq
  intro i
  rw [testBit_pi, testBit_pi]

/-- **Meyer–Wallach value under a qubit permutation.**  If `ψ'` reads `ψ` through the bit
permutation `permIdx σ n`, the value is unchanged. -/
theorem mwValue_permIdx (n : Nat) (σ : Equiv.Perm Nat) (hσ : StableOn σ n) (ψ ψ' : Nat → ℂ)
    (h : ∀ b, b < 2 ^ n → ψ' b = ψ (permIdx σ n b)) : mwValue n ψ' = mwValue n ψ := by
  refine mwValue_relabel n ψ ψ' σ hσ (piEquiv σ n hσ) (piEquiv_range σ n hσ) ?_
  intro k hk c r hr
  rw [h _ (insBit_lt c hk hr), permIdx_insBit hσ k hk c r hr, piEquiv_apply σ n hσ k hk]

end Qclib.Ent
