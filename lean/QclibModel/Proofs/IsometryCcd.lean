import QclibModel.Proofs.IsometryCcdIdx
import Mathlib.Algebra.Ring.Defs
/-
  C03 — column-by-column decomposition, part 2: what the gates scheduled by `_g_k` do to a column of
  the working isometry.

  * `ccd_preserves`, `ccd_preserves_gk`: a column that vanishes on all rows `≥ k` is left unchanged
    by every gate of `G_k` (whatever 2×2 matrices are chosen) — the processed columns stay fixed;
  * `ccd_step_support`: step `i` of `G_k` turns the support invariant `Supp i` into `Supp (i+1)`
    provided the chosen matrices zero the component Lemma 2 says they zero;
  * `ccd_zeroes_column`: `G_k` maps a column that vanishes above row `k` to a multiple of `e_k`.

  Only the semiring laws `0·x = 0`, `x·0 = 0`, `1·x = x`, `0 + x = x`, `x + 0 = x` are used.
-/
namespace Qclib.Iso

variable {R : Type} [Semiring R]

/-! ### one gate on one row -/

/-- Where the gate's matrix is the identity the row is unchanged. -/
theorem applyOn_one_row (i : Nat) (M : Nat → Mat2 R) (v : Nat → R) (r : Nat)
    (h : M r = Mat2.one) : applyOn i M v r = v r := by
  unfold applyOn
  rw [h]
  cases hb : r.testBit i
  · simp [Mat2.one, row0_of_not_bit i r hb]
  · simp [Mat2.one, row1_of_bit i r hb]

/-- A pair of zeros stays a pair of zeros under any 2×2 matrix. -/
theorem applyOn_zero_pair (i : Nat) (M : Nat → Mat2 R) (v : Nat → R) (r : Nat)
    (h0 : v (row0 i r) = 0) (h1 : v (row1 i r) = 0) : applyOn i M v r = 0 := by
  unfold applyOn
  rw [h0, h1]
  split <;> simp

/-- `r` is one of the two rows of its pair. -/
theorem row_mem_pair (i r : Nat) : r = row0 i r ∨ r = row1 i r := by
  cases hb : r.testBit i
  · exact Or.inl (row0_of_not_bit i r hb).symm
  · exact Or.inr (row1_of_bit i r hb).symm

/-! ### 2. columns that vanish from row `k` on are untouched -/

/-- The UCG of step `(k, i)` leaves a column that vanishes on all rows `≥ k` unchanged, whatever
its blocks are. -/
theorem applyOn_uc_preserves (k i : Nat) (L : Nat → Mat2 R) (u : Nat → R)
    (hu : ∀ r, k ≤ r → u r = 0) : applyOn i (ucMat k i L) u = u := by
  funext r
  by_cases h : r / 2 ^ (i + 1) < ucStart k i
  · exact applyOn_one_row i _ u r (by unfold ucMat; rw [if_pos h])
  · have hge := uc_row0_ge k i r (Nat.le_of_not_lt h)
    rw [applyOn_zero_pair i _ u r (hu _ hge) (hu _ (Nat.le_trans hge (row0_le_row1 i r)))]
    exact (hu r (Nat.le_trans hge (row0_le i r))).symm

/-- The MCG of step `(k, i)` leaves a column that vanishes on all rows `≥ k` unchanged, whatever
its matrix is. -/
theorem applyOn_mc_preserves (n k i : Nat) (hi : i < n) (hk : k < 2 ^ n) (hm : hasMcg k i = true)
    (U : Mat2 R) (u : Nat → R) (hu : ∀ r, k ≤ r → u r = 0) :
    applyOn i (mcMat n k i U) u = u := by
  funext r
  cases h : mcActive n k i r
  · exact applyOn_one_row i _ u r (by unfold mcMat; rw [h]; rfl)
  · have hge := mc_row0_ge n k i r hi hk hm h
    rw [applyOn_zero_pair i _ u r (hu _ hge) (hu _ (Nat.le_trans hge (row0_le_row1 i r)))]
    exact (hu r (Nat.le_trans hge (row0_le i r))).symm

/-- **Step `(k, i)` of `G_k` leaves the processed columns unchanged.**  A column `u` that vanishes
on every row `≥ k` (in particular `e_{k'}` times a phase for `k' < k`) is mapped to itself by the
optional MCG and the UCG of step `(k, i)`, for ANY 2×2 matrices `U`, `L j` (all rows, also
`r ≥ 2^n`). -/
theorem ccd_preserves (n k i : Nat) (hi : i < n) (hk : k < 2 ^ n) (U : Mat2 R)
    (L : Nat → Mat2 R) (u : Nat → R) (hu : ∀ r, k ≤ r → u r = 0) :
    stepCol n k i U L u = u := by
  unfold stepCol
  cases hm : hasMcg k i
  · simp only [Bool.false_eq_true, if_false]
    exact applyOn_uc_preserves k i L u hu
  · simp only [if_true]
    rw [applyOn_mc_preserves n k i hi hk hm U u hu]
    exact applyOn_uc_preserves k i L u hu

/-- The same restricted to the rows `< 2^n` (rows `≥ 2^n` of `u` may hold anything): a column that
vanishes on the rows `k ≤ r < 2^n` is unchanged on the rows `< 2^n`. -/
theorem applyOn_uc_preserves_lt (n k i : Nat) (hi : i < n) (L : Nat → Mat2 R) (u : Nat → R)
    (hu : ∀ r, k ≤ r → r < 2 ^ n → u r = 0) (r : Nat) (hr : r < 2 ^ n) :
    applyOn i (ucMat k i L) u r = u r := by
  by_cases h : r / 2 ^ (i + 1) < ucStart k i
  · exact applyOn_one_row i _ u r (by unfold ucMat; rw [if_pos h])
  · have hge := uc_row0_ge k i r (Nat.le_of_not_lt h)
    rw [applyOn_zero_pair i _ u r (hu _ hge (row0_lt n i r hr))
      (hu _ (Nat.le_trans hge (row0_le_row1 i r)) (row1_lt n i r hi hr))]
    exact (hu r (Nat.le_trans hge (row0_le i r)) hr).symm

theorem applyOn_mc_preserves_lt (n k i : Nat) (hi : i < n) (hk : k < 2 ^ n)
    (hm : hasMcg k i = true) (U : Mat2 R) (u : Nat → R)
    (hu : ∀ r, k ≤ r → r < 2 ^ n → u r = 0) (r : Nat) (hr : r < 2 ^ n) :
    applyOn i (mcMat n k i U) u r = u r := by
  cases h : mcActive n k i r
  · exact applyOn_one_row i _ u r (by unfold mcMat; rw [h]; rfl)
  · have hge := mc_row0_ge n k i r hi hk hm h
    rw [applyOn_zero_pair i _ u r (hu _ hge (row0_lt n i r hr))
      (hu _ (Nat.le_trans hge (row0_le_row1 i r)) (row1_lt n i r hi hr))]
    exact (hu r (Nat.le_trans hge (row0_le i r)) hr).symm

/-- **Step `(k, i)` leaves the processed columns unchanged, rows `< 2^n` only.**  If `u` vanishes on
the rows `k ≤ r < 2^n` then `stepCol n k i U L u` agrees with `u` on every row `< 2^n`, for ANY
matrices. -/
theorem ccd_preserves_lt (n k i : Nat) (hi : i < n) (hk : k < 2 ^ n) (U : Mat2 R)
    (L : Nat → Mat2 R) (u : Nat → R) (hu : ∀ r, k ≤ r → r < 2 ^ n → u r = 0)
    (r : Nat) (hr : r < 2 ^ n) : stepCol n k i U L u r = u r := by
  unfold stepCol
  cases hm : hasMcg k i
  · simp only [Bool.false_eq_true, if_false]
    exact applyOn_uc_preserves_lt n k i hi L u hu r hr
  · simp only [if_true]
    have hmc := applyOn_mc_preserves_lt n k i hi hk hm U u hu
    rw [applyOn_uc_preserves_lt n k i hi L _ (fun r' h1 h2 => by rw [hmc r' h2]; exact hu r' h1 h2)
      r hr]
    exact hmc r hr

/-- `gkCol` unfolds to `stepCol` with the chooser's matrices. -/
theorem gkCol_succ (ch : Chooser R) (n k s : Nat) (v : Nat → R) :
    gkCol ch n k (s + 1) v =
      stepCol n k s (ch.mc k s (gkCol ch n k s v))
        (ch.uc k s (if hasMcg k s then
            applyOn s (mcMat n k s (ch.mc k s (gkCol ch n k s v))) (gkCol ch n k s v)
          else gkCol ch n k s v))
        (gkCol ch n k s v) := rfl

/-- **`G_k` leaves the processed columns unchanged**: any prefix of `s ≤ n` steps of `G_k`, with
any chooser of the 2×2 matrices, maps a column vanishing on all rows `≥ k` to itself. -/
theorem ccd_preserves_gk (ch : Chooser R) (n k s : Nat) (hs : s ≤ n) (hk : k < 2 ^ n)
    (u : Nat → R) (hu : ∀ r, k ≤ r → u r = 0) : gkCol ch n k s u = u := by
  induction s with
  | zero => rfl
  | succ s ih =>
    rw [gkCol_succ, ih (by omega)]
    exact ccd_preserves n k s (by omega) hk _ _ u hu

/-- **`G_k` leaves the processed columns unchanged, rows `< 2^n` only.** -/
theorem ccd_preserves_gk_lt (ch : Chooser R) (n k s : Nat) (hs : s ≤ n) (hk : k < 2 ^ n)
    (u : Nat → R) (hu : ∀ r, k ≤ r → r < 2 ^ n → u r = 0) (r : Nat) (hr : r < 2 ^ n) :
    gkCol ch n k s u r = u r := by
  induction s generalizing r with
  | zero => rfl
  | succ s ih =>
    rw [gkCol_succ]
    have ih' := ih (by omega)
    rw [ccd_preserves_lt n k s (by omega) hk _ _ _
      (fun r' h1 h2 => by rw [ih' r' h2]; exact hu r' h1 h2) r hr]
    exact ih' r hr

/-! ### 3. the support invariant -/

/-- `Supp n k i v`: on the rows `r < 2^n` the column `v` is supported on the rows `r ≥ k` whose `i`
low bits are those of `k`. -/
def Supp (n k i : Nat) (v : Nat → R) : Prop :=
  ∀ r, r < 2 ^ n → (r % 2 ^ i ≠ k % 2 ^ i ∨ r < k) → v r = 0

/-- What Lemma 2 gives for the MCG matrix `U` chosen from the column `w`: the row `idx2 = k + 2^i`
is zeroed. -/
def McZeroes (k i : Nat) (U : Mat2 R) (w : Nat → R) : Prop :=
  U.c * w (mcIdx k i).1 + U.d * w (mcIdx k i).2 = 0

/-- What Lemma 2 gives for the UCG blocks `L j` (`start ≤ j < 2^(n-1-i)`) chosen from the column
`w`: with `basis = _k_s(k, i)`, the component of the pair `(idx1, idx2)` other than `basis` is
zeroed. -/
def UcZeroes (n k i : Nat) (L : Nat → Mat2 R) (w : Nat → R) : Prop :=
  ∀ j, ucStart k i ≤ j → j < 2 ^ (n - 1 - i) →
    (kS k i = 0 → (L j).c * w (ucIdx k i j).1 + (L j).d * w (ucIdx k i j).2 = 0) ∧
    (kS k i = 1 → (L j).a * w (ucIdx k i j).1 + (L j).b * w (ucIdx k i j).2 = 0)

/-- `r mod 2^(i+1)` from bit `i` and the lower bits. -/
theorem mod_succ_eq (i r : Nat) :
    r % 2 ^ (i + 1) = (if r.testBit i then 2 ^ i else 0) + r % 2 ^ i := by
  have h2 : r % 2 ^ (i + 1) = r % 2 ^ i + 2 ^ i * (r / 2 ^ i % 2) := Nat.mod_pow_succ
  have h3 : r.testBit i = decide (r / 2 ^ i % 2 = 1) := Nat.testBit_eq_decide_div_mod_eq
  by_cases hb : r / 2 ^ i % 2 = 1
  · simp only [h3, hb, decide_true, if_true]; rw [hb] at h2; omega
  · have hb0 : r / 2 ^ i % 2 = 0 := by omega
    simp only [h3, hb, decide_false]; rw [hb0] at h2; simp at h2 ⊢; omega

/-- The MCG keeps the support invariant `Supp i` (it only mixes rows `r ⊇ k` bitwise, in pairs with
equal low bits). -/
theorem mc_step_supp (n k i : Nat) (hi : i < n) (hk : k < 2 ^ n) (hm : hasMcg k i = true)
    (U : Mat2 R) (w : Nat → R) (hw : Supp n k i w) :
    Supp n k i (applyOn i (mcMat n k i U) w) := by
  intro r hr hc
  cases h : mcActive n k i r
  · rw [applyOn_one_row i _ w r (by unfold mcMat; rw [h]; rfl)]
    exact hw r hr hc
  · have hge := mc_row0_ge n k i r hi hk hm h
    have hlow : r % 2 ^ i ≠ k % 2 ^ i := by
      rcases hc with hc | hc
      · exact hc
      · have := row0_le i r; omega
    apply applyOn_zero_pair
    · exact hw _ (row0_lt n i r hr) (Or.inl (by rw [(row0_parts i r).2.2]; exact hlow))
    · exact hw _ (row1_lt n i r hi hr) (Or.inl (by rw [(row1_parts i r).2.2]; exact hlow))

/-- The MCG zeroes row `k + 2^i` when its matrix satisfies Lemma 2 for the pair `(k, k + 2^i)`. -/
theorem mc_step_pivot (n k i : Nat) (hi : i < n) (hm : hasMcg k i = true)
    (U : Mat2 R) (w : Nat → R) (hU : McZeroes k i U w) :
    applyOn i (mcMat n k i U) w (k + 2 ^ i) = 0 := by
  have hlow := (hasMcg_low k i hm).1
  have hr1 : k + 2 ^ i = row1 i k := (row1_of_not_bit i k hlow).symm
  have hb : (k + 2 ^ i).testBit i = true := by rw [hr1]; exact (row1_parts i k).2.1
  have h0 : row0 i (k + 2 ^ i) = k := by
    rw [row0_of_bit _ _ hb]; omega
  have h1 : row1 i (k + 2 ^ i) = k + 2 ^ i := row1_of_bit _ _ hb
  unfold McZeroes at hU
  rw [mcIdx_eq] at hU
  unfold applyOn mcMat
  rw [mcActive_pivot n k i hi hm, h0, h1]
  simp only [hb, if_true]
  exact hU

/-- The UCG of step `(k, i)` turns `Supp i` into `Supp (i+1)`, given that row `k + 2^i` is already
zero when the MCG was scheduled and that the blocks satisfy Lemma 2. -/
theorem uc_step_supp (n k i : Nat) (hi : i < n) (L : Nat → Mat2 R) (w : Nat → R)
    (hw : Supp n k i w) (hpiv : hasMcg k i = true → w (k + 2 ^ i) = 0)
    (hL : UcZeroes n k i L w) : Supp n k (i + 1) (applyOn i (ucMat k i L) w) := by
  intro r hr hc
  have hp := two_pow_pos' i
  by_cases hJ : r / 2 ^ (i + 1) < ucStart k i
  · -- identity block
    rw [applyOn_one_row i _ w r (by unfold ucMat; rw [if_pos hJ])]
    by_cases hs : r % 2 ^ i ≠ k % 2 ^ i ∨ r < k
    · exact hw r hr hs
    · have hlo : r % 2 ^ i = k % 2 ^ i := by
        by_contra h; exact hs (Or.inl h)
      have hge : k ≤ r := by omega
      have hne : r % 2 ^ (i + 1) ≠ k % 2 ^ (i + 1) := by
        rcases hc with h | h
        · exact h
        · omega
      -- the only such row is `k + 2^i`, with bit `i` of `k` clear and the MCG scheduled
      have hdr := row_decomp i r
      have hdk := row_decomp i k
      have hst := ucStart_eq k i
      rw [mod_succ_eq i r, mod_succ_eq i k, hlo] at hne
      rw [mod_succ_eq i k] at hst
      have hcmp := mul_cmp (2 ^ i) (r / 2 ^ (i + 1)) (k / 2 ^ (i + 1))
      have hklt : k % 2 ^ i < 2 ^ i := Nat.mod_lt _ hp
      have hkbit : k.testBit i = false ∧ r = k + 2 ^ i ∧ k % 2 ^ i ≠ 0 := by
        rw [hlo] at hdr
        generalize r / 2 ^ (i + 1) = J at *
        generalize k / 2 ^ (i + 1) = A at *
        generalize k % 2 ^ i = l at *
        generalize ucStart k i = S at *
        generalize 2 ^ i = p at *
        rcases Nat.lt_trichotomy J A with h | h | h
        · have := hcmp.1 h
          cases hkb : k.testBit i <;> cases hrb : r.testBit i <;>
            simp only [hkb, hrb, if_true, Bool.false_eq_true, if_false] at hdr hdk hne hst <;> omega
        · have := hcmp.2.1 h
          cases hkb : k.testBit i <;> cases hrb : r.testBit i <;>
            simp only [hkb, hrb, if_true, Bool.false_eq_true, if_false] at hdr hdk hne hst <;>
            (try split at hst) <;> (try simp) <;> omega
        · have := hcmp.2.2 h
          cases hkb : k.testBit i <;> cases hrb : r.testBit i <;>
            simp only [hkb, hrb, if_true, Bool.false_eq_true, if_false] at hdr hdk hne hst <;>
            (try split at hst) <;> (try simp) <;> omega
      obtain ⟨hkb, hrk, hk0⟩ := hkbit
      have hm : hasMcg k i = true := by
        rw [hasMcg_iff]
        refine ⟨hkb, ?_⟩
        rw [mod_succ_eq, hkb]; simpa using hk0
      rw [hrk]; exact hpiv hm
  · -- a block `j ≥ start`
    have hJ' : ucStart k i ≤ r / 2 ^ (i + 1) := Nat.le_of_not_lt hJ
    have hge := uc_row0_ge k i r hJ'
    have hrk : k ≤ r := Nat.le_trans hge (row0_le i r)
    have hne : r % 2 ^ (i + 1) ≠ k % 2 ^ (i + 1) := by
      rcases hc with h | h
      · exact h
      · omega
    by_cases hlo : r % 2 ^ i = k % 2 ^ i
    · have hz := hL (r / 2 ^ (i + 1)) hJ' (block_lt n i r hi hr)
      rw [ucIdx_eq, ← hlo, ← row0_eq, ← row1_eq] at hz
      rw [mod_succ_eq i r, mod_succ_eq i k, hlo] at hne
      unfold applyOn ucMat
      rw [if_neg hJ]
      cases hkb : k.testBit i
      · have hrb : r.testBit i = true := by
          cases hrb : r.testBit i
          · rw [hkb, hrb] at hne; exact absurd rfl hne
          · rfl
        simp only [hrb, if_true]
        exact hz.1 ((kS_eq_zero_iff k i).2 hkb)
      · have hrb : r.testBit i = false := by
          cases hrb : r.testBit i
          · rfl
          · rw [hkb, hrb] at hne; exact absurd rfl hne
        simp only [hrb, Bool.false_eq_true, if_false]
        exact hz.2 ((kS_eq_one_iff k i).2 hkb)
    · apply applyOn_zero_pair
      · exact hw _ (row0_lt n i r hr) (Or.inl (by rw [(row0_parts i r).2.2]; exact hlo))
      · exact hw _ (row1_lt n i r hi hr) (Or.inl (by rw [(row1_parts i r).2.2]; exact hlo))

/-- **Step `(k, i)` of `G_k` advances the support invariant.**  If the column `w` is supported (on
rows `< 2^n`) on the rows `r ≥ k` with `r ≡ k (mod 2^i)`, the MCG matrix `U` zeroes row `k + 2^i`
of `w` (Lemma 2 for `_mc_unitary`; only required when the MCG is scheduled) and the UCG blocks `L j`
zero the non-`basis` row of their pair in the column AFTER the MCG (Lemma 2 for `_uc_unitaries`),
then after the step the column is supported on the rows `r ≥ k` with `r ≡ k (mod 2^(i+1))`. -/
theorem ccd_step_support (n k i : Nat) (hi : i < n) (hk : k < 2 ^ n) (U : Mat2 R)
    (L : Nat → Mat2 R) (w : Nat → R) (hw : Supp n k i w)
    (hU : hasMcg k i = true → McZeroes k i U w)
    (hL : UcZeroes n k i L (if hasMcg k i then applyOn i (mcMat n k i U) w else w)) :
    Supp n k (i + 1) (stepCol n k i U L w) := by
  unfold stepCol
  cases hm : hasMcg k i
  · rw [hm] at hL
    simp only [Bool.false_eq_true, if_false] at hL ⊢
    exact uc_step_supp n k i hi L w hw (by rw [hm]; intro h; cases h) hL
  · rw [hm] at hL
    simp only [if_true] at hL ⊢
    exact uc_step_supp n k i hi L _ (mc_step_supp n k i hi hk hm U w hw)
      (fun _ => mc_step_pivot n k i hi hm U w (hU hm)) hL

/-! ### 4. `G_k` zeroes column `k` off the pivot -/

/-- A chooser whose matrices always satisfy Lemma 2 for the columns they are computed from (for
column index `k` on `n` qubits). -/
def Chooser.Zeroing (ch : Chooser R) (n k : Nat) : Prop :=
  ∀ i, i < n → ∀ w : Nat → R,
    (hasMcg k i = true → McZeroes k i (ch.mc k i w) w) ∧ UcZeroes n k i (ch.uc k i w) w

/-- The invariant along `G_k`: after `s ≤ n` steps the column is supported on rows `r ≥ k`,
`r ≡ k (mod 2^s)`. -/
theorem ccd_gk_support (ch : Chooser R) (n k : Nat) (hk : k < 2 ^ n) (hch : ch.Zeroing n k)
    (v : Nat → R) (hv : ∀ r, r < k → v r = 0) (s : Nat) (hs : s ≤ n) :
    Supp n k s (gkCol ch n k s v) := by
  induction s with
  | zero =>
    intro r _ hc
    rcases hc with hc | hc
    · simp [Nat.mod_one] at hc
    · exact hv r hc
  | succ s ih =>
    rw [gkCol_succ]
    have hs' : s < n := by omega
    exact ccd_step_support n k s hs' hk _ _ _ (ih (by omega))
      (hch s hs' _).1 (hch s hs' _).2

/-- **`G_k` zeroes column `k` off the pivot.**  If column `k` of the working isometry vanishes on
the rows `< k` (it is orthogonal to the processed columns `e_0 … e_{k-1}`) and the chooser's matrices
satisfy Lemma 2, then after the `n` steps of `G_k` every row `r < 2^n`, `r ≠ k`, of the column is
`0`. -/
theorem ccd_zeroes_column (ch : Chooser R) (n k : Nat) (hk : k < 2 ^ n) (hch : ch.Zeroing n k)
    (v : Nat → R) (hv : ∀ r, r < k → v r = 0) :
    ∀ r, r < 2 ^ n → r ≠ k → gkCol ch n k n v r = 0 := by
  intro r hr hne
  apply ccd_gk_support ch n k hk hch v hv n (Nat.le_refl n) r hr
  rw [Nat.mod_eq_of_lt hr, Nat.mod_eq_of_lt hk]
  exact Or.inl hne

end Qclib.Iso
