import QclibModel.Proofs.UnitaryQrMain
/-
  C02 / QR — amplitude semantics (DESIGN §3, S2) of the sub-circuit `_build_qr_circuit` emits for ONE
  element of `gate_sequence`: walk (X / MCX), X layer, `MCMT(UnitaryGate([[p, q], [s, t]]))`, X
  layer, `_undo_mcxs`.  A state is an amplitude function `ψ : Bits → R`; X and MCX relabel, the MCMT
  mixes the two labels that differ in its target when all its controls read `1`.  Result
  (`rotation_amp`): for `col < row < 2^n` the sub-circuit acts on every `ψ` (spectator wires `≥ n`
  included) as the two-level matrix with block `[[p, q], [s, t]]` on `|col⟩, |row⟩`.
  Core Lean only (any `R` with `+` and `*`).
-/
namespace Qclib.QrFull
open Qclib Qclib.Uni

variable {R : Type} [Add R] [Mul R]

/-- the matrix `np.array([[a, c], [b, d]])` that `_get_row_col` hands to `UnitaryGate`:
`p = a`, `q = c`, `s = b`, `t = d`. -/
structure Blk (R : Type) where
  p : R
  q : R
  s : R
  t : R

/-- one gate acting on an amplitude function (S2): `x`, `mcx` relabel; `mcmt cs t` applies the
block to the target when every control reads `1`. -/
def ampStep (B : Blk R) : QG → (Bits → R) → (Bits → R)
  | .x q, ψ => fun b => ψ (flipBit b q)
  | .mcx cs t, ψ => fun b => if cs.all (fun c => b c) then ψ (flipBit b t) else ψ b
  | .mcmt cs t, ψ => fun b =>
      if cs.all (fun c => b c) then
        (if b t then B.s * ψ (setBit b t false) + B.t * ψ (setBit b t true)
         else B.p * ψ (setBit b t false) + B.q * ψ (setBit b t true))
      else ψ b

/-- a gate list acts in list (= circuit) order. -/
def ampSem (B : Blk R) (L : List QG) (ψ : Bits → R) : Bits → R :=
  L.foldl (fun ψ g => ampStep B g ψ) ψ

theorem ampSem_append (B : Blk R) (L₁ L₂ : List QG) (ψ : Bits → R) :
    ampSem B (L₁ ++ L₂) ψ = ampSem B L₂ (ampSem B L₁ ψ) := by
  simp [ampSem, List.foldl_append]

/-- classical gates whose label map is an involution: `x`, and `mcx` with the target not among
the controls. -/
def Good : QG → Prop
  | .x _ => True
  | .mcx cs t => t ∉ cs
  | .mcmt _ _ => False

theorem good_amp (B : Blk R) {g : QG} (hg : Good g) (ψ : Bits → R) (b : Bits) :
    ampStep B g ψ b = ψ (qgStep g b) := by
  cases g with
  | x q => rfl
  | mcx cs t =>
    simp only [ampStep, qgStep]
    by_cases h : cs.all (fun c => b c) = true <;> simp [h]
  | mcmt cs t => exact absurd hg (by simp [Good])

theorem good_invol {g : QG} (hg : Good g) (b : Bits) : qgStep g (qgStep g b) = b := by
  cases g with
  | x q => exact flipBit_flipBit' b q
  | mcx cs t =>
    by_cases h : cs.all (fun c => b c) = true
    · have s1 : qgStep (QG.mcx cs t) b = flipBit b t := by simp [qgStep, h]
      have : cs.all (fun c => flipBit b t c) = cs.all (fun c => b c) := by
        apply all_congr'
        intro x hx
        have : x ≠ t := fun e => hg (e ▸ hx)
        simp [flipBit, this]
      have s2 : qgStep (QG.mcx cs t) (flipBit b t) = flipBit (flipBit b t) t := by
        simp only [qgStep]; rw [this, if_pos h]
      rw [s1, s2, flipBit_flipBit']
    · have s1 : qgStep (QG.mcx cs t) b = b := by simp [qgStep, h]
      rw [s1, s1]
  | mcmt cs t => exact absurd hg (by simp [Good])

/-- push-forward form: a list of good gates moves the amplitude of `b` to `qgEval L b`. -/
theorem ampSem_good (B : Blk R) (L : List QG) (hL : ∀ g ∈ L, Good g) (ψ : Bits → R) (b : Bits) :
    ampSem B L ψ (qgEval L b) = ψ b := by
  induction L generalizing ψ b with
  | nil => rfl
  | cons g L ih =>
    have hg := hL g List.mem_cons_self
    show ampSem B L (ampStep B g ψ) (qgEval L (qgStep g b)) = ψ b
    rw [ih (fun x hx => hL x (List.mem_cons_of_mem _ hx)), good_amp B hg, good_invol hg]

/-- … so with a right inverse `Finv` of the label map the list acts as `ψ ↦ ψ ∘ Finv`. -/
theorem ampSem_good_inv (B : Blk R) (L : List QG) (hL : ∀ g ∈ L, Good g) (Finv : Bits → Bits)
    (hinv : ∀ b, qgEval L (Finv b) = b) (ψ : Bits → R) (b : Bits) :
    ampSem B L ψ b = ψ (Finv b) := by
  have := ampSem_good B L hL ψ (Finv b)
  rwa [hinv] at this

/-! ### the gate lists of the rotation are good -/

theorem good_xs (l : List Nat) : ∀ g ∈ l.map QG.x, Good g := by
  intro g hg
  rw [List.mem_map] at hg
  obtain ⟨q, _, rfl⟩ := hg
  trivial

theorem good_sandwich (n m : Nat) (p1 p2 : List Bool) :
    ∀ g ∈ xsFor n m p1 ++ [QG.mcx (others n m) m] ++ xsFor n m p2, Good g := by
  intro g hg
  rw [List.mem_append, List.mem_append, List.mem_singleton] at hg
  rcases hg with (hg | rfl) | hg
  · exact good_xs _ g hg
  · show m ∉ others n m
    rw [mem_others]; omega
  · exact good_xs _ g hg

theorem good_mcmtXs (n : Nat) (r c : List Bool) : ∀ g ∈ mcmtXs n r c, Good g := good_xs _

theorem good_walk {n : Nat} : ∀ (d : Nat) {r c : List Bool} {w : Walk}, walk n d r c = some w →
    (∀ g ∈ w.gates, Good g) ∧ (∀ g ∈ undoMcxs n w.mems, Good g)
  | 0, r, c, w, h => by
    simp only [walk, Option.some.injEq] at h
    subst h
    exact ⟨fun g hg => by simp at hg, fun g hg => by simp [undoMcxs] at hg⟩
  | d + 1, r, c, w, h => by
    obtain ⟨s, w', hs, hw', hg, hmem, _, _⟩ := walk_succ h
    obtain ⟨ih1, ih2⟩ := good_walk d hw'
    obtain ⟨m, hf, hcase⟩ := applyMcxs_spec hs
    have hm := (firstDiff_spec hf).1
    have hsg : (∀ g ∈ s.gates, Good g) ∧ (∀ g ∈ undoOne n s.mem, Good g) := by
      rcases hcase with ⟨_, e1, e2, _, _⟩ | ⟨_, e1, e2, _, _⟩
      · rw [e1, e2, undoOne_memOf n m _ hm]
        exact ⟨good_sandwich n m _ _, good_sandwich n m _ _⟩
      · rw [e1, e2, undoOne_memOf n m _ hm]
        exact ⟨good_sandwich n m _ _, good_sandwich n m _ _⟩
    constructor
    · intro g hgm
      rw [hg, List.mem_append] at hgm
      rcases hgm with h1 | h1
      · exact hsg.1 g h1
      · exact ih1 g h1
    · intro g hgm
      rw [hmem, undoMcxs_cons, List.mem_append] at hgm
      rcases hgm with h1 | h1
      · exact ih2 g h1
      · exact hsg.2 g h1

/-! ### the rotation -/

/-- replace the `n` low wires of a label by the bits of `k`. -/
def relabel (n k : Nat) (b : Bits) : Bits := fun q => if q < n then k.testBit q else b q

instance (l : List Bool) (b : Bits) : Decidable (Reads l b) := by
  unfold Reads; infer_instance

theorem reads_iff (n k : Nat) (b : Bits) : Reads (bitsLE n k) b ↔ ∀ q, q < n → b q = k.testBit q := by
  unfold Reads
  rw [bitsLE_length]
  constructor
  · intro h q hq; rw [h q hq, bitsLE_getD n k hq]
  · intro h q hq; rw [h q hq, bitsLE_getD n k hq]

theorem reads_relabel (n k : Nat) (b : Bits) : Reads (bitsLE n k) (relabel n k b) := by
  rw [reads_iff]; intro q hq; simp [relabel, hq]

theorem relabel_of_reads {n k : Nat} {b : Bits} (h : Reads (bitsLE n k) b) : relabel n k b = b := by
  rw [reads_iff] at h
  funext q
  by_cases hq : q < n
  · simp [relabel, hq, h q hq]
  · simp [relabel, hq]

section Rot
variable {n row col : Nat}

/-- **one rotation's sub-circuit on amplitudes.**  For `col < row < 2^n` the gate list
`qrRotation n row col` with the MCMT's block `[[p, q], [s, t]]` acts on every amplitude function
as the two-level matrix: the label reading `row` gets `s·ψ(col-label) + t·ψ(row-label)`, the label
reading `col` gets `p·ψ(col-label) + q·ψ(row-label)` (same spectator wires), all other labels
keep their amplitude. -/
theorem rotation_amp (hrow : row < 2 ^ n) (hlt : col < row) {L : List QG}
    (hL : qrRotation n row col = some L) (B : Blk R) (ψ : Bits → R) (b : Bits) :
    ampSem B L ψ b =
      if Reads (bitsLE n row) b then B.s * ψ (relabel n col b) + B.t * ψ b
      else if Reads (bitsLE n col) b then B.p * ψ b + B.q * ψ (relabel n row b)
      else ψ b := by
  have hcol : col < 2 ^ n := by omega
  have hne : row ≠ col := by omega
  obtain ⟨⟨w, hw⟩, _⟩ := qr_walk_total hrow hcol hne
  obtain ⟨t, ht, htn, hr1, hc0, hctl⟩ := qr_orientation hrow hlt hw
  -- shape of the list
  have hLs : L = (w.gates ++ mcmtXs n w.row w.col) ++ [QG.mcmt (mcmtCtrls n w.row w.col) t]
      ++ (mcmtXs n w.row w.col ++ undoMcxs n w.mems) := by
    unfold qrRotation at hL
    simp only [hw, ht] at hL
    injection hL with hL
    rw [← hL]; simp
  obtain ⟨gw, gu⟩ := good_walk _ hw
  have gP : ∀ g ∈ w.gates ++ mcmtXs n w.row w.col, Good g := by
    intro g hg; rw [List.mem_append] at hg
    exact hg.elim (gw g) (good_mcmtXs n _ _ g)
  have gQ : ∀ g ∈ mcmtXs n w.row w.col ++ undoMcxs n w.mems, Good g := by
    intro g hg; rw [List.mem_append] at hg
    exact hg.elim (good_mcmtXs n _ _ g) (gu g)
  -- the frame and its inverse
  let F : Bits → Bits := qgEval (w.gates ++ mcmtXs n w.row w.col)
  let G : Bits → Bits := qgEval (mcmtXs n w.row w.col ++ undoMcxs n w.mems)
  have hGF : ∀ x, G (F x) = x := fun x => (qr_frame_inverse hw x).1
  have hFG : ∀ x, F (G x) = x := fun x => (qr_frame_inverse hw x).2
  have hsem : ampSem B L ψ b
      = ampStep B (QG.mcmt (mcmtCtrls n w.row w.col) t) (fun x => ψ (G x)) (F b) := by
    rw [hLs, ampSem_append B _ (mcmtXs n w.row w.col ++ undoMcxs n w.mems),
      ampSem_append B (w.gates ++ mcmtXs n w.row w.col) [_], ampSem_good_inv B _ gQ F hGF]
    have : ampSem B (w.gates ++ mcmtXs n w.row w.col) ψ = fun x => ψ (G x) := by
      funext x; exact ampSem_good_inv B _ gP G hFG ψ x
    rw [this]; rfl
  -- F does not touch wires ≥ n
  have hhigh : ∀ x q, n ≤ q → F x q = x q := by
    intro x q hq
    show qgEval (w.gates ++ mcmtXs n w.row w.col) x q = x q
    rw [qgEval_append, (qr_mcmt_pattern hrow hcol hne hw ht _).2.2.2.1 q hq,
      (qr_walk_maps hrow hcol hne hw x).2.2 q hq]
  -- the two labels of the block
  have hlab : ∀ x, (Reads (bitsLE n row) x →
        (mcmtCtrls n w.row w.col).all (fun q => F x q) = true ∧ F x t = true) ∧
      (Reads (bitsLE n col) x →
        (mcmtCtrls n w.row w.col).all (fun q => F x q) = true ∧ F x t = false) :=
    fun x => qr_block_labels hrow hlt hw ht x
  have hall : ∀ x, (mcmtCtrls n w.row w.col).all (fun q => F x q) = true ↔
      ∀ q, q < n → q ≠ t → F x q = true := by
    intro x
    rw [hctl, List.all_eq_true]
    constructor
    · intro h q h1 h2; exact h q (by simp [h1, h2])
    · intro h q hq
      simp only [List.mem_filter, List.mem_range, bne_iff_ne, ne_eq] at hq
      exact h q hq.1 hq.2
  -- two labels with all controls `1`, equal targets and equal spectators coincide
  have hsame : ∀ x y, (mcmtCtrls n w.row w.col).all (fun q => F x q) = true →
      (mcmtCtrls n w.row w.col).all (fun q => F y q) = true → F x t = F y t →
      (∀ q, n ≤ q → x q = y q) → x = y := by
    intro x y hx hy hxt hsp
    have : F x = F y := by
      funext q
      by_cases hq : q < n
      · by_cases hqt : q = t
        · rw [hqt]; exact hxt
        · rw [(hall x).1 hx q hq hqt, (hall y).1 hy q hq hqt]
      · rw [hhigh x q (by omega), hhigh y q (by omega)]; exact hsp q (by omega)
    rw [← hGF x, ← hGF y, this]
  have hsetF : ∀ x y (v : Bool), (mcmtCtrls n w.row w.col).all (fun q => F x q) = true →
      (mcmtCtrls n w.row w.col).all (fun q => F y q) = true → F y t = v →
      (∀ q, n ≤ q → x q = y q) → setBit (F x) t v = F y := by
    intro x y v hx hy hyt hsp
    funext q
    by_cases hqt : q = t
    · simp [setBit, hqt, hyt]
    · simp only [setBit, hqt, if_false]
      by_cases hq : q < n
      · rw [(hall x).1 hx q hq hqt, (hall y).1 hy q hq hqt]
      · rw [hhigh x q (by omega), hhigh y q (by omega)]; exact hsp q (by omega)
  rw [hsem]
  simp only [ampStep]
  by_cases hR : Reads (bitsLE n row) b
  · obtain ⟨ha, hb1⟩ := (hlab b).1 hR
    obtain ⟨hca, hcb⟩ := (hlab (relabel n col b)).2 (reads_relabel n col b)
    have hsp : ∀ q, n ≤ q → b q = relabel n col b q := by
      intro q hq; simp [relabel, show ¬ q < n by omega]
    rw [if_pos hR, if_pos ha, if_pos hb1,
      hsetF b (relabel n col b) false ha hca hcb hsp,
      hsetF b b true ha ha hb1 (fun _ _ => rfl), hGF, hGF]
  · rw [if_neg hR]
    by_cases hC : Reads (bitsLE n col) b
    · obtain ⟨ha, hb0⟩ := (hlab b).2 hC
      obtain ⟨hra, hrb⟩ := (hlab (relabel n row b)).1 (reads_relabel n row b)
      have hsp : ∀ q, n ≤ q → b q = relabel n row b q := by
        intro q hq; simp [relabel, show ¬ q < n by omega]
      have hb0' : ¬ (F b t = true) := by rw [hb0]; simp
      rw [if_pos hC, if_pos ha, if_neg hb0',
        hsetF b b false ha ha hb0 (fun _ _ => rfl),
        hsetF b (relabel n row b) true ha hra hrb hsp, hGF, hGF]
    · rw [if_neg hC]
      have hnot : ¬ ((mcmtCtrls n w.row w.col).all (fun q => F b q) = true) := by
        intro ha
        cases hv : F b t with
        | true =>
          obtain ⟨hra, hrb⟩ := (hlab (relabel n row b)).1 (reads_relabel n row b)
          have := hsame b (relabel n row b) ha hra (by rw [hv, hrb])
            (fun q hq => by simp [relabel, show ¬ q < n by omega])
          exact hR (this ▸ reads_relabel n row b)
        | false =>
          obtain ⟨hca, hcb⟩ := (hlab (relabel n col b)).2 (reads_relabel n col b)
          have := hsame b (relabel n col b) ha hca (by rw [hv, hcb])
            (fun q hq => by simp [relabel, show ¬ q < n by omega])
          exact hC (this ▸ reads_relabel n col b)
      rw [if_neg hnot, hGF]

end Rot

end Qclib.QrFull
