import QclibModel.Proofs.BlackBox
import Mathlib.Tactic.LinearCombination
/-
  C19, circuit level (any commutative ring with rotation laws): linearity of the gates,
  `U†U = UU† = I`, and the assembly of the rounds into a two-coefficient recurrence.
-/
namespace Qclib
open RotSem BlackBox
set_option linter.unusedSectionVars false

section
variable {Θ R : Type} [AddCommGroup Θ] [CommRing R] [RotSem Θ R] [RotLaws Θ R]

/-! ### Linearity -/

/-- `x·χ₁ + y·χ₂` -/
def lin (x : R) (χ₁ : State R) (y : R) (χ₂ : State R) : State R := fun b => x * χ₁ b + y * χ₂ b

theorem applyMcu_lin (cs : List (Nat × Bool)) (m : Mat2 R) (t : Nat) (x y : R) (χ₁ χ₂ : State R) :
    applyMcu cs m t (lin x χ₁ y χ₂) = lin x (applyMcu cs m t χ₁) y (applyMcu cs m t χ₂) := by
  funext b
  simp only [applyMcu, lin]
  split
  · split <;> ring
  · rfl

theorem applyFam_lin (f : Bits → Mat2 R) (t : Nat) (x y : R) (χ₁ χ₂ : State R) :
    applyFam f t (lin x χ₁ y χ₂) = lin x (applyFam f t χ₁) y (applyFam f t χ₂) := by
  funext b
  simp only [applyFam, lin]
  split <;> ring

theorem bdenote_lin (g : BG Θ) (x y : R) (χ₁ χ₂ : State R) :
    bdenote g (lin x χ₁ y χ₂) = lin x (bdenote g χ₁) y (bdenote g χ₂) := by
  cases g <;> simp only [bdenote, muxIdeal, applyMcu_lin, applyFam_lin]
  funext b; simp only [scale, lin]; ring

theorem bsem_lin (c : List (BG Θ)) (x y : R) (χ₁ χ₂ : State R) :
    bsem c (lin x χ₁ y χ₂) = lin x (bsem c χ₁) y (bsem c χ₂) := by
  induction c generalizing χ₁ χ₂ with
  | nil => rfl
  | cons g c ih => rw [bsem_cons, bdenote_lin, ih]; rfl

/-! ### `U` is invertible with inverse `U†` -/

theorem applyFam_one (ψ : State R) : applyFam (fun _ => (1 : Mat2 R)) 0 ψ = ψ := by
  funext b
  cases h : b 0
  · simp [applyFam, h, setBit_self' b 0 false h]
  · simp [applyFam, h, setBit_self' b 0 true h]

theorem mux_cancel (ax : Axis) (k : Nat) (a a' : Nat → Θ) (h : ∀ j, a' j + a j = 0)
    (ψ : State R) : muxIdeal ax k a' (muxIdeal ax k a ψ) = ψ := by
  simp only [muxIdeal]
  rw [applyFam_comp _ _ (fun b v => by simp only [ctrlIdx_setBit0])]
  have : (fun b => (rotMat ax (a' (ctrlIdx k b)) * rotMat ax (a (ctrlIdx k b)) : Mat2 R))
      = fun _ => 1 := by
    funext b; rw [rot_add, h, rot_zero]
  rw [this, applyFam_one]

theorem h_cancel (q : Nat) (ψ : State R) :
    bdenote (BG.h q : BG Θ) (bdenote (BG.h q : BG Θ) ψ) = ψ := by
  funext b
  have hr : (2 : R) * (rh Θ * rh Θ) = 1 := RotLaws.rh_sq
  simp only [bdenote, applyMcu, ctrlOk, List.all_nil, matH, if_true, setBit_eq, setBit_setBit]
  cases h : b q
  · have h0 : setBit b q false = b := setBit_self' b q false h
    simp only [h0, Bool.false_eq_true, if_false]
    linear_combination (ψ b) * hr
  · have h1 : setBit b q true = b := setBit_self' b q true h
    simp only [h1, if_true, Bool.false_eq_true, if_false]
    linear_combination (ψ b) * hr

theorem hLayer_cancel (n : Nat) (ψ : State R) :
    bsem (hLayer n ++ hLayerRev n : List (BG Θ)) ψ = ψ := by
  induction n generalizing ψ with
  | zero => rfl
  | succ n ih =>
    have : (hLayer (n+1) ++ hLayerRev (n+1) : List (BG Θ))
        = hLayer n ++ ([BG.h (n+1)] ++ [BG.h (n+1)] ++ hLayerRev n) := by
      simp [hLayer, hLayerRev]
    rw [this, bsem_append, bsem_append, bsem_append, bsem_single, bsem_single, h_cancel,
      ← bsem_append, ih]

theorem hLayerRev_cancel (n : Nat) (ψ : State R) :
    bsem (hLayerRev n ++ hLayer n : List (BG Θ)) ψ = ψ := by
  induction n generalizing ψ with
  | zero => rfl
  | succ n ih =>
    have : (hLayerRev (n+1) ++ hLayer (n+1) : List (BG Θ))
        = [BG.h (n+1)] ++ ((hLayerRev n ++ hLayer n) ++ [BG.h (n+1)]) := by
      simp [hLayer, hLayerRev]
    rw [this, bsem_append, bsem_append, ih, bsem_single, bsem_single, h_cancel]

/-- `U† ∘ U = id` on every state. -/
theorem gateUdg_gateU (n : Nat) (θ φ : Nat → Θ) (ψ : State R) :
    bsem (gateUdg n θ φ) (bsem (gateU n θ φ) ψ) = ψ := by
  rw [gateU, gateUdg, bsem_append, bsem_append]
  have hz : ∀ χ : State R,
      bsem [BG.ucrzDg n φ, BG.ucryDg n θ] (bsem [BG.ucry n θ, BG.ucrz n φ] χ) = χ := by
    intro χ
    simp only [bsem_cons, bsem_nil, bdenote]
    rw [mux_cancel _ _ _ _ (fun j => by simp), mux_cancel _ _ _ _ (fun j => by simp)]
  rw [hz, ← bsem_append, hLayer_cancel]

/-- `U ∘ U† = id` on every state. -/
theorem gateU_gateUdg (n : Nat) (θ φ : Nat → Θ) (ψ : State R) :
    bsem (gateU n θ φ) (bsem (gateUdg n θ φ) ψ) = ψ := by
  rw [gateU, gateUdg, bsem_append, bsem_append]
  rw [← bsem_append (hLayerRev n) (hLayer n), hLayerRev_cancel]
  simp only [bsem_cons, bsem_nil, bdenote]
  rw [mux_cancel _ _ _ _ (fun j => by simp), mux_cancel _ _ _ _ (fun j => by simp)]

/-! ### The rounds on the plane spanned by the flag-0 and flag-1 parts of `ψ = U|0…0⟩` -/

/-- `x·(flag-0 part of ψ) + y·(flag-1 part of ψ)` with `ψ = U|0…0⟩` (pointwise definition). -/
noncomputable def planeState (n : Nat) (θ φ : Nat → Θ) (x y : R) : State R :=
  fun b => if b 0 then y * uState n θ φ b else x * uState n θ φ b

/-- The flag-0 ("good") part of `ψ`. -/
noncomputable def goodPart (n : Nat) (θ φ : Nat → Θ) : State R := planeState n θ φ 1 0

/-- The recurrence of the (unnormalised) coefficients under one loop pass; `s2 = ‖good part‖²`. -/
def ampStep (s2 : R) (p : R × R) : R × R :=
  (-p.1 - 2 * p.2 + 2 * (p.1 + p.2) * s2, -p.2 + 2 * (p.1 + p.2) * s2)

theorem planeState_one_one (n : Nat) (θ φ : Nat → Θ) :
    planeState n θ φ (1 : R) 1 = uState n θ φ := by
  funext b; simp [planeState]

theorem planeState_lin (n : Nat) (θ φ : Nat → Θ) (x y : R) :
    planeState n θ φ x y = lin y (uState n θ φ) (x - y) (goodPart n θ φ) := by
  funext b
  simp only [planeState, goodPart, lin]
  cases b 0 <;> simp <;> ring

theorem it_plane (n : Nat) (θ φ : Nat → Θ) (x y : R) :
    bdenote (BG.it 0 : BG Θ) (planeState n θ φ x y) = planeState n θ φ (-x) y := by
  funext b
  rw [denote_it]
  simp only [planeState]
  cases b 0 <;> simp

theorem is_zeroState (n : Nat) :
    bdenote (BG.is n : BG Θ) (zeroState : State R) = lin (-1) zeroState 0 zeroState := by
  funext b
  rw [denote_is]
  simp only [lin, zeroState]
  by_cases h : ∀ i, b i = false
  · have h' : ∀ i, i ≤ n → b i = false := fun i _ => h i
    rw [if_pos h', if_pos h]; ring
  · rw [if_neg h]; simp

/-- The one fact about the circuit that is *assumed* in the assembly: `I_s` acts on `U†·(good
part)` as `I − 2·s2·|0…0⟩⟨…|`, i.e. `U†·(good part)` vanishes on the labels that are zero on wires
`0..n` but not above, and its amplitude at `|0…0⟩` is `s2` (`= ⟨ψ|P₀ψ⟩ = ‖good part‖²`). -/
def IsOverlap (n : Nat) (θ φ : Nat → Θ) (s2 : R) : Prop :=
  ∀ b, bdenote (BG.is n : BG Θ) (bsem (gateUdg n θ φ) (goodPart n θ φ : State R)) b
      = bsem (gateUdg n θ φ) (goodPart n θ φ : State R) b - 2 * s2 * zeroState b

theorem round_plane (n : Nat) (θ φ : Nat → Θ) (s2 : R) (hS : IsOverlap n θ φ s2)
    (T : State R) (x y : R) (hT : bsem (gateU n θ φ) T = planeState n θ φ x y) :
    bsem (gateU n θ φ) (bsem (round n θ φ) T)
      = planeState n θ φ (ampStep s2 (x, y)).1 (ampStep s2 (x, y)).2 := by
  have hW : bdenote (BG.is n : BG Θ) (bsem (gateUdg n θ φ) (goodPart n θ φ : State R))
      = lin 1 (bsem (gateUdg n θ φ) (goodPart n θ φ)) (-2 * s2) zeroState := by
    funext b; rw [hS b]; simp only [lin]; ring
  rw [round, bsem_append, bsem_append, bsem_append, hT, bsem_single, bsem_single, it_plane,
    planeState_lin, bsem_lin, ← gateU_zeroState, gateUdg_gateU, bdenote_lin, is_zeroState, hW,
    bsem_lin, bsem_lin, bsem_lin, gateU_gateUdg, gateU_zeroState]
  funext b
  simp only [lin, planeState, goodPart, ampStep]
  cases b 0 <;> simp <;> ring

theorem rounds_snoc (n : Nat) (θ φ : Nat → Θ) (r : Nat) :
    rounds n θ φ (r+1) = rounds n θ φ r ++ round n θ φ := by
  induction r with
  | zero => simp [rounds]
  | succ r ih =>
    calc rounds n θ φ (r+1+1) = round n θ φ ++ rounds n θ φ (r+1) := rfl
      _ = round n θ φ ++ (rounds n θ φ r ++ round n θ φ) := by rw [ih]
      _ = (round n θ φ ++ rounds n θ φ r) ++ round n θ φ := by rw [List.append_assoc]
      _ = rounds n θ φ (r+1) ++ round n θ φ := rfl

/-- After `r` loop passes and the final `U`, the state is on the plane with coefficients given by
`r` iterations of `ampStep` from `(1, 1)`. -/
theorem core_plane (n : Nat) (θ φ : Nat → Θ) (s2 : R) (hS : IsOverlap n θ φ s2) (r : Nat) :
    bsem (core n r θ φ) (zeroState : State R)
      = planeState n θ φ ((ampStep s2)^[r] (1, 1)).1 ((ampStep s2)^[r] (1, 1)).2 := by
  induction r with
  | zero =>
    simp only [core, rounds, List.nil_append, Function.iterate_zero, id]
    rw [gateU_zeroState, planeState_one_one]
  | succ r ih =>
    rw [core, rounds_snoc, bsem_append, bsem_append, Function.iterate_succ_apply']
    apply round_plane n θ φ s2 hS
    rw [← bsem_append]; exact ih

end
end Qclib
