import QclibModel.Proofs.SparseCvoTotalRccx
import QclibModel.Proofs.SparseReal
/-
  C06 — qiskit's `RCCXGate` from its definition `h t; t t; cx b t; tdg t; cx a t; t t; cx b t;
  tdg t; h t`: in the amplitude semantics this circuit IS the matrix `applyRccx` used by
  Spec/Sparse.lean (`Y` on the target for `a = b = 1`, `Z` for `a = 1, b = 0`, identity for
  `a = 0`) — over any commutative ring with a primitive 8th root of unity `ω = e^{iπ/4}` and
  `2·rh² = 1` (`rccx_decomp`), and in particular over `ℂ` (`rccx_decomp_real`).
-/
namespace Qclib.Sparse
open Qclib RotSem
section
variable {Θ R : Type} [CommRing R] [RotSem Θ R]

/-- `RCCXGate().definition` with `T = p θ`, `T† = p θ'` on wires `a, b` (controls) and `t` -/
def rccxCirc (θ θ' : Θ) (a b t : Nat) : Circ Θ :=
  [G.h t, G.p θ t, G.cx b t, G.p θ' t, G.cx a t, G.p θ t, G.cx b t, G.p θ' t, G.h t]

theorem flipBit_setBit_same (w : Bits) (t : Nat) (v : Bool) :
    flipBit (setBit w t v) t = setBit w t (!v) := by
  funext i; by_cases h : i = t <;> simp [flipBit, setBit, h]

/-- the relative-phase Toffoli from its gate definition, in any commutative ring -/
theorem rccx_decomp (θ θ' : Θ) (ω iu : R) (hω : (ex θ * ex θ : R) = ω)
    (hω' : (ex θ' * ex θ' : R) = -(ω * ω * ω)) (h4 : ω * ω * (ω * ω) = -1)
    (hr : (2 : R) * (rh Θ * rh Θ) = 1) (hiu : iu = ω * ω)
    (a b t : Nat) (hat : a ≠ t) (hbt : b ≠ t) (ψ : State R) :
    sem (rccxCirc θ θ' a b t) ψ = applyRccx iu a b t ψ := by
  funext w
  simp only [rccxCirc, sem, List.foldl, denote_h, denote_p, denote_cx, setBit_eq, setBit_ne _ _ hat,
    setBit_ne _ _ hbt, setBit_setBit, flipBit_setBit_same, hω, hω', applyRccx, hiu]
  cases ha : w a <;> cases hb : w b <;> cases ht : w t <;> simp <;>
    rw [setBit_self' w t _ ht]
  · linear_combination (rh Θ * rh Θ * (ψ w - ψ (setBit w t true)) * (ω ^ 4 - 1)) * h4 + ψ w * hr
  · linear_combination (-(rh Θ * rh Θ * (ψ (setBit w t false) - ψ w) * (ω ^ 4 - 1))) * h4 + ψ w * hr
  · linear_combination (-2 * (rh Θ * rh Θ) * ψ w) * h4 + ψ w * hr
  · linear_combination (-2 * (rh Θ * rh Θ) * ψ w) * h4 + ψ w * hr
  · linear_combination (-2 * (rh Θ * rh Θ) * ψ w) * h4 + ψ w * hr
  · linear_combination (2 * (rh Θ * rh Θ) * ψ w) * h4 - ψ w * hr
  · linear_combination (rh Θ * rh Θ * (ω * ω) * (ψ w + ψ (setBit w t true))) * h4
      - (ω * ω * ψ (setBit w t true)) * hr
  · linear_combination (-(rh Θ * rh Θ * (ω * ω) * (ψ (setBit w t false) + ψ w))) * h4
      + (ω * ω * ψ (setBit w t false)) * hr
end

/-- qiskit's `RCCXGate.definition` (`T = p(π/4)`, `T† = p(−π/4)`) denotes `applyRccx` with the
complex imaginary unit. -/
theorem rccx_decomp_real (a b t : Nat) (hat : a ≠ t) (hbt : b ≠ t) (ψ : State ℂ) :
    sem (rccxCirc (Real.pi / 4) (-(Real.pi / 4)) a b t) ψ = applyRccx Complex.I a b t ψ := by
  have h1 : Complex.exp (((-(Real.pi / 4) : ℝ) : ℂ) * Complex.I)
      * Complex.exp (((Real.pi / 4 : ℝ) : ℂ) * Complex.I) = 1 := by
    rw [← Complex.exp_add]
    have : ((-(Real.pi / 4) : ℝ) : ℂ) * Complex.I + ((Real.pi / 4 : ℝ) : ℂ) * Complex.I = 0 := by
      push_cast; ring
    rw [this, Complex.exp_zero]
  have h2 : Complex.exp (((Real.pi / 4 : ℝ) : ℂ) * Complex.I)
      * Complex.exp (((Real.pi / 4 : ℝ) : ℂ) * Complex.I) = Complex.I := by
    rw [← Complex.exp_add]
    have : ((Real.pi / 4 : ℝ) : ℂ) * Complex.I + ((Real.pi / 4 : ℝ) : ℂ) * Complex.I
        = (Real.pi : ℂ) / 2 * Complex.I := by push_cast; ring
    rw [this, Complex.exp_pi_div_two_mul_I]
  have h4 : Complex.exp (((Real.pi / 4 : ℝ) : ℂ) * Complex.I)
      * Complex.exp (((Real.pi / 4 : ℝ) : ℂ) * Complex.I)
      * (Complex.exp (((Real.pi / 4 : ℝ) : ℂ) * Complex.I)
        * Complex.exp (((Real.pi / 4 : ℝ) : ℂ) * Complex.I)) = -1 := by
    rw [h2, Complex.I_mul_I]
  refine rccx_decomp (Θ := ℝ) (R := ℂ) (Real.pi / 4) (-(Real.pi / 4))
    (Complex.exp (((Real.pi / 4 : ℝ) : ℂ) * Complex.I)) Complex.I (ex_sq _) ?_ h4
    (instRotLawsReal).rh_sq h2.symm a b t hat hbt ψ
  rw [ex_sq]
  linear_combination (Complex.exp (((-(Real.pi / 4) : ℝ) : ℂ) * Complex.I)) * h4
    - (Complex.exp (((Real.pi / 4 : ℝ) : ℂ) * Complex.I)
        * Complex.exp (((Real.pi / 4 : ℝ) : ℂ) * Complex.I)
        * Complex.exp (((Real.pi / 4 : ℝ) : ℂ) * Complex.I)) * h1

end Qclib.Sparse
