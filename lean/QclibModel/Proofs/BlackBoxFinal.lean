import QclibModel.Proofs.BlackBoxAmp
import QclibModel.Proofs.BlackBoxOverlap
import QclibModel.Proofs.BlackBoxReal
import QclibModel.Proofs.BlackBoxRot
/-
  C19: from the two-coefficient recurrence of the circuit (`core_plane`) to
  `sin((2r+1)θ)·a_k` on the flag-0 branch, over ℝ/ℂ.
-/
namespace Qclib
open RotSem BlackBox Complex

/-- The unnormalised recurrence `ampStep (sin²θ)` is the normalised one (`roundStep θ`) in the
coordinates `(x·sin θ, y·cos θ)`. -/
theorem ampStep_roundStep (θ x y : ℝ) :
    roundStep θ (x * Real.sin θ, y * Real.cos θ)
      = ((ampStep (Real.sin θ ^ 2) (x, y)).1 * Real.sin θ,
         (ampStep (Real.sin θ ^ 2) (x, y)).2 * Real.cos θ) := by
  have hs := Real.sin_sq_add_cos_sq θ
  simp only [roundStep, refS, refT, ampStep, Prod.mk.injEq]
  constructor
  · linear_combination (-(2 * y * Real.sin θ)) * hs
  · linear_combination (-(2 * y * Real.cos θ)) * hs

theorem ampStep_iter (θ : ℝ) (r : Nat) :
    (((ampStep (Real.sin θ ^ 2))^[r] (1, 1)).1 * Real.sin θ,
     ((ampStep (Real.sin θ ^ 2))^[r] (1, 1)).2 * Real.cos θ)
      = (roundStep θ)^[r] (Real.sin θ, Real.cos θ) := by
  induction r with
  | zero => simp
  | succ r ih =>
    rw [Function.iterate_succ_apply', Function.iterate_succ_apply', ← ih, ampStep_roundStep]

/-- Good coefficient after `r` rounds: `x_r·sin θ = (−1)^r·sin((2r+1)θ)`. -/
theorem ampStep_good (θ : ℝ) (r : Nat) :
    ((ampStep (Real.sin θ ^ 2))^[r] (1, 1)).1 * Real.sin θ
      = (-1) ^ r * Real.sin ((2 * r + 1) * θ) := by
  have h := ampStep_iter θ r
  rw [rounds_closed] at h
  exact (Prod.mk.inj h).1

theorem ampStep_cast (s2 : ℝ) (r : Nat) :
    (ampStep ((s2 : ℝ) : ℂ))^[r] (1, 1)
      = ((((ampStep s2)^[r] (1, 1)).1 : ℂ), (((ampStep s2)^[r] (1, 1)).2 : ℂ)) := by
  induction r with
  | zero => simp
  | succ r ih =>
    rw [Function.iterate_succ_apply', ih, Function.iterate_succ_apply']
    simp only [ampStep, Prod.mk.injEq]
    constructor <;> push_cast <;> ring

/-- `U|0…0⟩` on a flag-0 label, for the angle lists the model computes over ℝ. -/
theorem uState_flag0 (n : Nat) (re im : Nat → ℝ) (b : Bits)
    (hk : ‖(⟨re (ctrlIdx n b), im (ctrlIdx n b)⟩ : ℂ)‖ ≤ 1) (hz : ZeroAbove n b)
    (h0 : b 0 = false) :
    (uState n (BlackBox.theta realTrig re im) (BlackBox.phi realTrig re im) b : ℂ)
      = (((Real.sqrt 2)⁻¹ : ℝ) : ℂ) ^ n * ⟨re (ctrlIdx n b), im (ctrlIdx n b)⟩ := by
  have hrh : (RotSem.rh ℝ : ℂ) = (((Real.sqrt 2)⁻¹ : ℝ) : ℂ) := rfl
  have hz' : ∀ i, n < i → b i = false := hz
  simp only [uState, theta_real re im _ hk, phi_real, hrh]
  rw [if_pos hz', h0]
  simp only [Bool.false_eq_true, if_false]
  rw [oracle_flag0 _ hk]

theorem inv_sqrt_two_pow_mem (n : Nat) :
    0 ≤ (Real.sqrt 2)⁻¹ ^ n ∧ (Real.sqrt 2)⁻¹ ^ n ≤ 1 := by
  have h0 : 0 ≤ (Real.sqrt 2)⁻¹ := inv_nonneg.mpr (Real.sqrt_nonneg 2)
  have h1 : (Real.sqrt 2)⁻¹ ≤ 1 := by
    apply inv_le_one_of_one_le₀
    rw [show (1 : ℝ) = Real.sqrt 1 by simp]
    exact Real.sqrt_le_sqrt (by norm_num)
  exact ⟨pow_nonneg h0 n, pow_le_one₀ h0 h1⟩

/-- The whole circuit on `|0…0⟩`, flag-0 labels, given the overlap fact `IsOverlap`. -/
theorem amplification (n r : Nat) (re im : Nat → ℝ)
    (h : ∀ k, k < 2 ^ n → ‖(⟨re k, im k⟩ : ℂ)‖ ≤ 1)
    (hS : IsOverlap n (BlackBox.theta realTrig re im) (BlackBox.phi realTrig re im)
      ((((Real.sqrt 2)⁻¹ ^ n) ^ 2 : ℝ) : ℂ))
    (b : Bits) (hz : ZeroAbove n b) (h0 : b 0 = false) :
    bsem (circuit n r (BlackBox.theta realTrig re im) (BlackBox.phi realTrig re im))
        (zeroState : State ℂ) b
      = (Real.sin ((2 * r + 1) * Real.arcsin ((Real.sqrt 2)⁻¹ ^ n)) : ℂ)
          * ⟨re (ctrlIdx n b), im (ctrlIdx n b)⟩ := by
  obtain ⟨hs0, hs1⟩ := inv_sqrt_two_pow_mem n
  have hsin : Real.sin (Real.arcsin ((Real.sqrt 2)⁻¹ ^ n)) = (Real.sqrt 2)⁻¹ ^ n :=
    Real.sin_arcsin (by linarith) hs1
  have key := ampStep_good (Real.arcsin ((Real.sqrt 2)⁻¹ ^ n)) r
  rw [hsin] at key
  have keyC := congrArg (fun t : ℝ => (t : ℂ)) key
  simp only [Complex.ofReal_mul, Complex.ofReal_pow, Complex.ofReal_neg, Complex.ofReal_one] at keyC
  rw [circuit_eq_core, core_plane n _ _ _ hS r, ampStep_cast]
  simp only [scale, planeState, h0, Bool.false_eq_true, if_false]
  rw [uState_flag0 n re im b (h _ (ctrlIdx_lt n b)) hz h0]
  have hsgn : ((if r % 2 = 1 then -1 else 1 : ℂ)) * (-1) ^ r = 1 := by
    rcases Nat.even_or_odd r with he | ho
    · have : ¬ r % 2 = 1 := by have := Nat.even_iff.mp he; omega
      rw [if_neg this, he.neg_one_pow]; norm_num
    · rw [if_pos (Nat.odd_iff.mp ho), ho.neg_one_pow]; norm_num
  generalize ((ampStep (((Real.sqrt 2)⁻¹ ^ n) ^ 2))^[r] (1, 1)).1 = x at keyC ⊢
  generalize (⟨re (ctrlIdx n b), im (ctrlIdx n b)⟩ : ℂ) = a
  generalize (Real.sin ((2 * r + 1) * Real.arcsin ((Real.sqrt 2)⁻¹ ^ n))) = S at keyC ⊢
  push_cast at keyC ⊢
  linear_combination (S * a) * hsgn + ((if r % 2 = 1 then -1 else 1 : ℂ) * a) * keyC

/-- Every amplitude of a unit vector has modulus `≤ 1`. -/
theorem norm_le_one_of_unit (n : Nat) (re im : Nat → ℝ)
    (hnorm : ∑ k ∈ Finset.range (2 ^ n), Complex.normSq ⟨re k, im k⟩ = 1) :
    ∀ k, k < 2 ^ n → ‖(⟨re k, im k⟩ : ℂ)‖ ≤ 1 := by
  intro k hk
  have h1 : Complex.normSq ⟨re k, im k⟩ ≤ 1 := by
    rw [← hnorm]
    exact Finset.single_le_sum (f := fun k => Complex.normSq ⟨re k, im k⟩)
      (fun i _ => Complex.normSq_nonneg _) (Finset.mem_range.mpr hk)
  rw [Complex.norm_def]
  exact Real.sqrt_le_one.mpr h1

/-- For a unit vector the model's angles satisfy the overlap fact with `s2 = 2^{-n}`. -/
theorem isOverlap_real (n : Nat) (re im : Nat → ℝ)
    (hnorm : ∑ k ∈ Finset.range (2 ^ n), Complex.normSq ⟨re k, im k⟩ = 1) :
    IsOverlap n (BlackBox.theta realTrig re im) (BlackBox.phi realTrig re im)
      ((((Real.sqrt 2)⁻¹ ^ n) ^ 2 : ℝ) : ℂ) := by
  have hle := norm_le_one_of_unit n re im hnorm
  have hrh : (RotSem.rh ℝ : ℂ) = (((Real.sqrt 2)⁻¹ : ℝ) : ℂ) := rfl
  have hs2 : ((((Real.sqrt 2)⁻¹ ^ n) ^ 2 : ℝ) : ℂ) = (RotSem.rh ℝ : ℂ) ^ n * (RotSem.rh ℝ : ℂ) ^ n := by
    rw [hrh]; push_cast; ring
  rw [hs2]
  apply isOverlap
  have hterm : ∀ k ∈ Finset.range (2 ^ n),
      (RotSem.cs (BlackBox.theta realTrig re im k) : ℂ) * RotSem.cs (BlackBox.theta realTrig re im k)
        = ((Complex.normSq ⟨re k, im k⟩ : ℝ) : ℂ) := by
    intro k hk
    have hk' := hle k (Finset.mem_range.mp hk)
    rw [theta_real re im k hk', cs_thetaOf _ hk', Complex.normSq_eq_norm_sq]
    push_cast; ring
  rw [Finset.sum_congr rfl hterm, ← Complex.ofReal_sum, hnorm, Complex.ofReal_one]

/-- The whole circuit on `|0…0⟩`, flag-0 labels — no assumption beyond `Σ|a_k|² = 1`. -/
theorem amplification_full (n r : Nat) (re im : Nat → ℝ)
    (hnorm : ∑ k ∈ Finset.range (2 ^ n), Complex.normSq ⟨re k, im k⟩ = 1)
    (b : Bits) (hz : ZeroAbove n b) (h0 : b 0 = false) :
    bsem (circuit n r (BlackBox.theta realTrig re im) (BlackBox.phi realTrig re im))
        (zeroState : State ℂ) b
      = (Real.sin ((2 * r + 1) * Real.arcsin ((Real.sqrt 2)⁻¹ ^ n)) : ℂ)
          * ⟨re (ctrlIdx n b), im (ctrlIdx n b)⟩ :=
  amplification n r re im (norm_le_one_of_unit n re im hnorm) (isOverlap_real n re im hnorm) b hz h0

/-- Flag-1 labels: the output is the flag-1 part of `U|0…0⟩` rescaled by
`cos((2r+1)θ)/cos θ` (stated without division). -/
theorem amplification_flag1 (n r : Nat) (re im : Nat → ℝ)
    (hnorm : ∑ k ∈ Finset.range (2 ^ n), Complex.normSq ⟨re k, im k⟩ = 1)
    (b : Bits) (h1 : b 0 = true) :
    bsem (circuit n r (BlackBox.theta realTrig re im) (BlackBox.phi realTrig re im))
        (zeroState : State ℂ) b * (Real.cos (Real.arcsin ((Real.sqrt 2)⁻¹ ^ n)) : ℂ)
      = (Real.cos ((2 * r + 1) * Real.arcsin ((Real.sqrt 2)⁻¹ ^ n)) : ℂ)
          * bsem (gateU n (BlackBox.theta realTrig re im) (BlackBox.phi realTrig re im))
              (zeroState : State ℂ) b := by
  obtain ⟨hs0, hs1⟩ := inv_sqrt_two_pow_mem n
  have hsin : Real.sin (Real.arcsin ((Real.sqrt 2)⁻¹ ^ n)) = (Real.sqrt 2)⁻¹ ^ n :=
    Real.sin_arcsin (by linarith) hs1
  have h := ampStep_iter (Real.arcsin ((Real.sqrt 2)⁻¹ ^ n)) r
  rw [rounds_closed, hsin] at h
  have key := (Prod.mk.inj h).2
  have keyC := congrArg (fun t : ℝ => (t : ℂ)) key
  simp only [Complex.ofReal_mul, Complex.ofReal_pow, Complex.ofReal_neg, Complex.ofReal_one] at keyC
  rw [circuit_eq_core, core_plane n _ _ _ (isOverlap_real n re im hnorm) r, ampStep_cast,
    gateU_zeroState]
  simp only [scale, planeState, h1, if_true]
  have hsgn : ((if r % 2 = 1 then -1 else 1 : ℂ)) * (-1) ^ r = 1 := by
    rcases Nat.even_or_odd r with he | ho
    · have : ¬ r % 2 = 1 := by have := Nat.even_iff.mp he; omega
      rw [if_neg this, he.neg_one_pow]; norm_num
    · rw [if_pos (Nat.odd_iff.mp ho), ho.neg_one_pow]; norm_num
  generalize ((ampStep (((Real.sqrt 2)⁻¹ ^ n) ^ 2))^[r] (1, 1)).2 = y at keyC ⊢
  generalize (uState n (BlackBox.theta realTrig re im) (BlackBox.phi realTrig re im) b : ℂ) = u
  generalize (Real.cos ((2 * r + 1) * Real.arcsin ((Real.sqrt 2)⁻¹ ^ n))) = C at keyC ⊢
  generalize (Real.cos (Real.arcsin ((Real.sqrt 2)⁻¹ ^ n))) = c at keyC ⊢
  push_cast at keyC ⊢
  linear_combination (C * u) * hsgn + ((if r % 2 = 1 then -1 else 1 : ℂ) * u) * keyC

end Qclib
