import QclibModel.Proofs.UcgLevel
import QclibModel.Proofs.UcgIndex
import Mathlib.Algebra.BigOperators.Group.Finset.Basic
/-
  C12: the level loop sends `v` to `|t⟩` (invariant over the levels).
-/
namespace Qclib.Ucg

variable {K : Type} [Field K] [StarRing K]

/-- children of the next level when the phase used for parent `k` is `ph k`
(`parent[k] * conj(ph k)`); both `_apply_diagonal` variants have this form. -/
def stepChildren (nrm : K → K → K) (ph : Nat → K) (c : Nat → K) : Nat → K :=
  fun k => nrm (c (2 * k)) (c (2 * k + 1)) * star (ph k)

/-- the state "`c` on the labels that agree with `t` on the wires below `q`". -/
def Inv (q t : Nat) (c : Nat → K) (ψ : Vec K) : Prop :=
  ∀ i, ψ i = if i % 2 ^ q = t % 2 ^ q then c (i / 2 ^ q) else 0

variable {nrm : K → K → K} {isZero : K → Bool}

omit [StarRing K] in
theorem muxApply_inv (q t : Nat) (c : Nat → K) (ψ : Vec K) (hψ : Inv q t c ψ) (m : Nat → Mat2 K)
    (i : Nat) :
    muxApply m q ψ i =
      if i % 2 ^ q = t % 2 ^ q then
        (if i / 2 ^ q % 2 = 1 then (m (i / 2 ^ q / 2)).c * c (2 * (i / 2 ^ q / 2)) + (m (i / 2 ^ q / 2)).d * c (2 * (i / 2 ^ q / 2) + 1)
         else (m (i / 2 ^ q / 2)).a * c (2 * (i / 2 ^ q / 2)) + (m (i / 2 ^ q / 2)).b * c (2 * (i / 2 ^ q / 2) + 1))
      else 0 := by
  have hlo : i % 2 ^ q < 2 ^ q := Nat.mod_lt _ (pow_pos2 q)
  unfold muxApply
  simp only [hψ (i % 2 ^ q + 2 ^ q * _), idx_mod _ _ _ hlo, idx_div _ _ _ hlo]
  by_cases h : i % 2 ^ q = t % 2 ^ q
  · simp only [h, if_true]
  · simp only [h, if_false, mul_zero, add_zero, ite_self]

omit [StarRing K] in
theorem row_value (M : Mat2 K) (c0 c1 p : K) (bit : Bool) (b : Nat) (hb : b = 0 ∨ b = 1)
    (hL : (if bit then M.a * c0 + M.b * c1 = 0 ∧ M.c * c0 + M.d * c1 = p
      else M.a * c0 + M.b * c1 = p ∧ M.c * c0 + M.d * c1 = 0)) :
    (if b = 1 then M.c * c0 + M.d * c1 else M.a * c0 + M.b * c1) = if b = bit.toNat then p else 0 := by
  rcases hb with rfl | rfl <;> cases bit <;> simp_all

/-- **One level** (no `preserve_previous`): if `φ` is the multiplexer of the level applied to the
invariant state, up to the residual diagonal `d`, then `φ` is the invariant state of the next
level with children `parent·conj(d[2k+bit])`. -/
theorem level_step (hN : NrmSpec nrm) (hz : ZeroSpec isZero) (q t : Nat) (c : Nat → K)
    (ψ φ : Vec K) (hψ : Inv q t c ψ) (d : Nat → K) (hd : ∀ k, d k * star (d k) = 1)
    (hφ : ∀ i, d (i / 2 ^ q) * φ i
      = muxApply (buildMux (ringOps K nrm isZero) (t.testBit q) c) q ψ i) :
    Inv (q + 1) t (stepChildren nrm (fun k => d (2 * k + (t.testBit q).toNat)) c) φ := by
  intro i
  have hφi : φ i = star (d (i / 2 ^ q)) * muxApply (buildMux (ringOps K nrm isZero) (t.testBit q) c) q ψ i := by
    rw [← hφ i, ← mul_assoc, mul_comm (star _), hd, one_mul]
  rw [hφi, muxApply_inv q t c ψ hψ]
  simp only [mod_succ_iff, div_succ]
  by_cases hlo : i % 2 ^ q = t % 2 ^ q
  · simp only [hlo, if_true, true_and]
    have hL : SendsTo (buildMux (ringOps K nrm isZero) (t.testBit q) c (i / 2 ^ q / 2))
        (c (2 * (i / 2 ^ q / 2))) (c (2 * (i / 2 ^ q / 2) + 1))
        (nrm (c (2 * (i / 2 ^ q / 2))) (c (2 * (i / 2 ^ q / 2) + 1))) (t.testBit q) :=
      (muxEntry_level hN hz (t.testBit q) (c (2 * (i / 2 ^ q / 2))) (c (2 * (i / 2 ^ q / 2) + 1))).2
    have hr := two_mul_div_add_mod (i / 2 ^ q)
    rw [row_value _ _ _ _ _ (i / 2 ^ q % 2) (by omega) hL, Nat.toNat_testBit]
    by_cases hb : i / 2 ^ q % 2 = t / 2 ^ q % 2
    · simp only [hb, if_true, stepChildren]
      rw [← hb, hr, mul_comm]
    · simp only [hb, if_false, mul_zero]
  · simp only [hlo, if_false, false_and, mul_zero]

theorem half_even (h : Nat) : 2 * h / 2 = h := by omega
theorem half_odd (h : Nat) : (2 * h + 1) / 2 = h := by omega
theorem mod_even (h : Nat) : 2 * h % 2 = 0 := by omega
theorem mod_odd (h : Nat) : (2 * h + 1) % 2 = 1 := by omega

omit [StarRing K] in
/-- value of a controlled gate / multiplexer at the two labels of a sibling pair. -/
theorem muxApply_at (m : Nat → Mat2 K) (q : Nat) (ψ : Vec K) (lo h : Nat) (hlo : lo < 2 ^ q) :
    muxApply m q ψ (lo + 2 ^ q * (2 * h)) = (m h).a * ψ (lo + 2 ^ q * (2 * h)) + (m h).b * ψ (lo + 2 ^ q * (2 * h + 1)) ∧
    muxApply m q ψ (lo + 2 ^ q * (2 * h + 1)) = (m h).c * ψ (lo + 2 ^ q * (2 * h)) + (m h).d * ψ (lo + 2 ^ q * (2 * h + 1)) := by
  unfold muxApply
  simp only [idx_mod _ _ _ hlo, idx_div _ _ _ hlo, half_even, half_odd, mod_even, mod_odd]
  simp

theorem agreesOff_at (q t lo h b : Nat) (hlo : lo < 2 ^ q) (hb : b < 2) :
    agreesOff q t (lo + 2 ^ q * (2 * h + b)) ↔ (lo = t % 2 ^ q ∧ h = t / 2 ^ q / 2) := by
  unfold agreesOff
  rw [idx_mod _ _ _ hlo, idx_div _ _ _ hlo]
  have : (2 * h + b) / 2 = h := by omega
  rw [this]

/-- **`_preserve_previous` does not change the action on the invariant state**: the extracted
entry `r_gate = t / 2^(q+1)`, applied as a gate controlled on all other wires carrying the bits
of `t`, followed by the multiplexer with that entry replaced by the identity, acts on the
invariant state exactly as the complete multiplexer. -/
theorem preserve_same (q t : Nat) (c : Nat → K) (ψ : Vec K) (hψ : Inv q t c ψ) (m : Nat → Mat2 K)
    (i : Nat) :
    muxApply (replaceEntry (ringOps K nrm isZero) m (t / 2 ^ q / 2)) q
        (ctrlApply (m (t / 2 ^ q / 2)) q t ψ) i = muxApply m q ψ i := by
  have hlo : i % 2 ^ q < 2 ^ q := Nat.mod_lt _ (pow_pos2 q)
  have e0 := muxApply_at (fun _ => m (t / 2 ^ q / 2)) q ψ (i % 2 ^ q) (i / 2 ^ q / 2) hlo
  have a0 := agreesOff_at q t (i % 2 ^ q) (i / 2 ^ q / 2) 0 hlo (by omega)
  have a1 := agreesOff_at q t (i % 2 ^ q) (i / 2 ^ q / 2) 1 hlo (by omega)
  rw [Nat.add_zero] at a0
  unfold replaceEntry eye
  rw [muxApply, muxApply]
  simp only [ctrlApply]
  by_cases hA : i % 2 ^ q = t % 2 ^ q ∧ i / 2 ^ q / 2 = t / 2 ^ q / 2
  · rw [if_pos (a0.2 hA), if_pos (a1.2 hA), e0.1, e0.2, if_pos hA.2, ← hA.2]
    by_cases hb : i / 2 ^ q % 2 = 1 <;> simp [hb, ringOps]
  · rw [if_neg (fun h => hA (a0.1 h)), if_neg (fun h => hA (a1.1 h))]
    by_cases hh : i / 2 ^ q / 2 = t / 2 ^ q / 2
    · have hne : ¬ i % 2 ^ q = t % 2 ^ q := fun h => hA ⟨h, hh⟩
      rw [hψ (i % 2 ^ q + 2 ^ q * (2 * (i / 2 ^ q / 2))), hψ (i % 2 ^ q + 2 ^ q * (2 * (i / 2 ^ q / 2) + 1)),
        idx_mod _ _ _ hlo, idx_mod _ _ _ hlo, if_neg hne, if_neg hne]
      simp
    · rw [if_neg hh]

/-! ### The whole level loop -/

/-- children vectors of all levels, the phase used for parent `k` at the level with target `q`
being `ph q k`. -/
def genChildren (nrm : K → K → K) (ph : Nat → Nat → K) (v : Nat → K) : Nat → Nat → K
  | 0 => v
  | q + 1 => stepChildren nrm (ph q) (genChildren nrm ph v q)

/-- the disentangling circuit: for `q = 0, 1, …` first `pre q` (the gate pulled out by
`_preserve_previous`, or nothing), then the UCGate circuit `Uc q` of the level. -/
def fwd (pre Uc : Nat → Vec K → Vec K) : Nat → Vec K → Vec K
  | 0, ψ => ψ
  | q + 1, ψ => Uc q (pre q (fwd pre Uc q ψ))

/-- phases picked by `_apply_diagonal`: `conj(diag)[bit::2]`. -/
def phOf (t : Nat) (d : Nat → Nat → K) : Nat → Nat → K :=
  fun q k => d q (2 * k + (t.testBit q).toNat)

/-- multiplexer of the level with target wire `q`. -/
def lvlMux (nrm : K → K → K) (isZero : K → Bool) (t : Nat) (d : Nat → Nat → K) (v : Nat → K)
    (q : Nat) : Nat → Mat2 K :=
  buildMux (ringOps K nrm isZero) (t.testBit q) (genChildren nrm (phOf t d) v q)

/-- the list handed to `UCGate` (entry `r_gate` replaced by the identity under preserve). -/
def usedMux (nrm : K → K → K) (isZero : K → Bool) (preserve : Bool) (t : Nat) (d : Nat → Nat → K)
    (v : Nat → K) (q : Nat) : Nat → Mat2 K :=
  if preserve then replaceEntry (ringOps K nrm isZero) (lvlMux nrm isZero t d v q) (rGateAt t q)
  else lvlMux nrm isZero t d v q

/-- the gate `_preserve_previous` puts in front of the UCGate. -/
def preGate (nrm : K → K → K) (isZero : K → Bool) (preserve : Bool) (t : Nat) (d : Nat → Nat → K)
    (v : Nat → K) (q : Nat) : Vec K → Vec K :=
  if preserve then ctrlApply (lvlMux nrm isZero t d v q (rGateAt t q)) q t else id

/-- K4 specification of the UCGate circuits: `Diag(d) · circuit = multiplexer`. -/
def UcSpec (nrm : K → K → K) (isZero : K → Bool) (preserve : Bool) (n t : Nat) (d : Nat → Nat → K)
    (v : Nat → K) (Uc : Nat → Vec K → Vec K) : Prop :=
  ∀ q, q < n → ∀ (ψ : Vec K) (i : Nat),
    d q (i / 2 ^ q) * Uc q ψ i = muxApply (usedMux nrm isZero preserve t d v q) q ψ i

theorem fwd_inv (hN : NrmSpec nrm) (hz : ZeroSpec isZero) (preserve : Bool) (n t : Nat)
    (d : Nat → Nat → K) (hd : ∀ q k, d q k * star (d q k) = 1) (v : Nat → K)
    (Uc : Nat → Vec K → Vec K) (hU : UcSpec nrm isZero preserve n t d v Uc) :
    ∀ q, q ≤ n → Inv q t (genChildren nrm (phOf t d) v q)
      (fwd (preGate nrm isZero preserve t d v) Uc q v) := by
  intro q
  induction q with
  | zero =>
    intro _ i
    simp [genChildren, fwd, Nat.mod_one]
  | succ q ih =>
    intro hq
    have ihq := ih (by omega)
    refine level_step hN hz q t _ _ _ ihq (d q) (hd q) ?_
    intro i
    rw [fwd, hU q (by omega)]
    cases preserve
    · rfl
    · simp only [usedMux, preGate, if_true, rGateAt_eq]
      exact preserve_same q t _ _ ihq _ i

open Finset in
omit [StarRing K] in
theorem sum_pairs (f : Nat → K) (m : Nat) :
    ∑ i ∈ range (2 * m), f i = ∑ k ∈ range m, (f (2 * k) + f (2 * k + 1)) := by
  induction m with
  | zero => simp
  | succ m ih =>
    rw [show 2 * (m + 1) = 2 * m + 1 + 1 by omega, sum_range_succ, sum_range_succ, ih, sum_range_succ]
    rw [add_assoc]

open Finset in
/-- **Norms telescope.** -/
theorem step_normsq (hN : NrmSpec nrm) (ph : Nat → K) (hph : ∀ k, ph k * star (ph k) = 1)
    (c : Nat → K) (m : Nat) :
    ∑ k ∈ range m, stepChildren nrm ph c k * star (stepChildren nrm ph c k)
      = ∑ i ∈ range (2 * m), c i * star (c i) := by
  rw [sum_pairs]
  refine sum_congr rfl (fun k _ => ?_)
  unfold stepChildren
  rw [star_mul, star_star, hN.real, ← hN.sq]
  have := hph k
  linear_combination (nrm (c (2 * k)) (c (2 * k + 1)) * nrm (c (2 * k)) (c (2 * k + 1))) * this

open Finset in
theorem gen_normsq (hN : NrmSpec nrm) (ph : Nat → Nat → K) (hph : ∀ q k, ph q k * star (ph q k) = 1)
    (v : Nat → K) (n : Nat) : ∀ q, q ≤ n →
    ∑ k ∈ range (2 ^ (n - q)), genChildren nrm ph v q k * star (genChildren nrm ph v q k)
      = ∑ i ∈ range (2 ^ n), v i * star (v i) := by
  intro q
  induction q with
  | zero => intro _; rfl
  | succ q ih =>
    intro hq
    rw [genChildren, step_normsq hN (ph q) (hph q), ← ih (by omega)]
    have : 2 * 2 ^ (n - (q + 1)) = 2 ^ (n - q) := by
      rw [show n - q = (n - (q + 1)) + 1 by omega, Nat.pow_succ, Nat.mul_comm]
    rw [this]

theorem nrm_zero (hN : NrmSpec nrm) : nrm 0 0 = 0 := by
  have := hN.sq 0 0
  simp only [zero_mul, add_zero] at this
  exact mul_self_eq_zero.1 this

/-- nothing appears above the `n`-wire range. -/
theorem gen_above (hN : NrmSpec nrm) (ph : Nat → Nat → K) (v : Nat → K) (n : Nat)
    (hv : ∀ i, 2 ^ n ≤ i → v i = 0) : ∀ q, q ≤ n → ∀ k, 2 ^ (n - q) ≤ k →
    genChildren nrm ph v q k = 0 := by
  intro q
  induction q with
  | zero => intro _ k hk; exact hv k hk
  | succ q ih =>
    intro hq k hk
    have h2 : 2 ^ (n - q) = 2 * 2 ^ (n - (q + 1)) := by
      rw [show n - q = (n - (q + 1)) + 1 by omega, Nat.pow_succ, Nat.mul_comm]
    rw [genChildren, stepChildren, ih (by omega) (2 * k) (by omega), ih (by omega) (2 * k + 1) (by omega),
      nrm_zero hN, zero_mul]

/-- with support on indices `≥ t`, the children of every level vanish below `t / 2^q`. -/
theorem gen_below (hN : NrmSpec nrm) (ph : Nat → Nat → K) (v : Nat → K) (t : Nat)
    (hv : ∀ i, i < t → v i = 0) : ∀ q k, k < t / 2 ^ q → genChildren nrm ph v q k = 0 := by
  intro q
  induction q with
  | zero => intro k hk; exact hv k (by simpa using hk)
  | succ q ih =>
    intro k hk
    rw [div_succ] at hk
    rw [genChildren, stepChildren, ih (2 * k) (by omega), ih (2 * k + 1) (by omega),
      nrm_zero hN, zero_mul]

open Finset in
/-- **Column `t`, forward direction**: the level loop sends `v` to `|t⟩` exactly. -/
theorem fwd_column (hN : NrmSpec nrm) (hz : ZeroSpec isZero) (preserve : Bool) (n t : Nat)
    (hn : 1 ≤ n) (ht : t < 2 ^ n)
    (d : Nat → Nat → K) (hd : ∀ q k, d q k * star (d q k) = 1) (hlast : ∀ k, d (n - 1) k = 1)
    (v : Nat → K) (hv : ∑ i ∈ range (2 ^ n), v i * star (v i) = 1)
    (hv0 : ∀ i, 2 ^ n ≤ i → v i = 0)
    (Uc : Nat → Vec K → Vec K) (hU : UcSpec nrm isZero preserve n t d v Uc) :
    fwd (preGate nrm isZero preserve t d v) Uc n v = delta t := by
  funext i
  have hI := fwd_inv hN hz preserve n t d hd v Uc hU n (Nat.le_refl n) i
  rw [hI, Nat.mod_eq_of_lt ht]
  obtain ⟨m, rfl⟩ : ∃ m, n = m + 1 := ⟨n - 1, by omega⟩
  have hph : ∀ q k, phOf t d q k * star (phOf t d q k) = 1 := fun q k => hd q _
  by_cases hi : i < 2 ^ (m + 1)
  · rw [Nat.mod_eq_of_lt hi, Nat.div_eq_of_lt hi]
    have hs := gen_normsq hN (phOf t d) hph v (m + 1) m (by omega)
    rw [show m + 1 - m = 1 by omega, hv] at hs
    simp only [Nat.pow_one, sum_range_succ, sum_range_zero, zero_add] at hs
    have h1 := hN.one _ _ hs
    simp only [delta, genChildren, stepChildren, phOf]
    rw [Nat.mul_zero, Nat.zero_add] at *
    rw [h1, show m + 1 - 1 = m by omega] at *
    rw [hlast, star_one, mul_one]
  · have hz' := gen_above hN (phOf t d) v (m + 1) hv0 (m + 1) (Nat.le_refl _) (i / 2 ^ (m + 1))
      (by rw [Nat.sub_self, Nat.pow_zero]; exact (Nat.le_div_iff_mul_le (pow_pos2 _)).2 (by omega))
    rw [hz', ite_self]
    simp only [delta]
    rw [if_neg (by omega)]

end Qclib.Ucg
