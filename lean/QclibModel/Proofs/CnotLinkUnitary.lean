import QclibModel.Model.Unitary
import QclibModel.Proofs.CnotUnitary
import QclibModel.Proofs.CnotLinkUcr
/-
  C10 link, part 2: the gate lists of the C02 model (`Model/Unitary.lean`: `Uni.buildQsd`,
  `Uni.buildCsd`, `Uni.csdList`, `Uni.middle` — the lists whose denotation `C02_qsd_full`,
  `C02_csd_full`, `C02_qsd_iso_full` prove equal to the input matrix) against the recursion shapes
  of the C10 model (`Model/CnotShape.lean`: `Cnot.buildQsd`, `Cnot.buildCsd`).

  `ugPrim` reads every object the C02 model emits as the `Prim` of `Model/CnotShape.lean` it is (so
  the ONLY price table is `Prim.cost`): a `UnitaryGate` on two wires is `u2`, on fewer `u1`; `UCRZGate`
  / `UCRYGate` / `UCGate` on `[target] + controls` are `ucrz` / `ucry` / `ucg` of `len(controls)`; the
  gates of the CZ multiplexer, which the C02 model emits EXPANDED (`ry`, `cz`), are `u1` and one
  entangler `cx 1`.  `norm` is the common normal form of the two descriptions (a `ucrCZ k` is
  `2^k − 1` entanglers, one-qubit objects are dropped, the A.2 visibility flag — which the C02 model
  does not carry — is erased); it preserves `raw`.

  Main results (all `n`, all `iso`, EVERY tape, every angle operations `o`):
    `qsd_link`  `norm (ugPrims (Uni.buildQsd o n iso tape).1) = norm (Cnot.buildQsd n iso)`, the number
                of two-qubit leaves is `vis (Cnot.buildQsd n iso) + inlineLeaves n iso`, and every
                emitted object is one the table prices;
    `csd_link`  the same for `Uni.buildCsd` / `Cnot.buildCsd` (no two-qubit leaf above `n = 2`).
  Core Lean only.
-/
namespace Qclib.CnotLink
open Qclib Qclib.Cnot

/-! ### reading the C02 model's objects as `Prim`s -/

/-- a gate of the expanded CZ multiplexer: an entangler is one CNOT, anything else is one-qubit. -/
def gPrim {Θ : Type} (g : G Θ) : Prim := if isEnt g then Prim.cx 1 else Prim.u1

/-- the `Prim` of `Model/CnotShape.lean` that an object emitted by the C02 model is. -/
def ugPrim {Θ : Type} : Uni.UG Θ → Prim
  | .g g => gPrim g
  | .unitary ws => if ws.length = 2 then Prim.u2 false else Prim.u1
  | .ucrz _ ws => Prim.ucrz (ws.length - 1)
  | .ucry _ ws => Prim.ucry (ws.length - 1)
  | .ucg _ ws => Prim.ucg (ws.length - 1)

def ugPrims {Θ : Type} (l : List (Uni.UG Θ)) : List Prim := l.map ugPrim

/-- **CNOT cost of a gate list of the C02 model**, by the price table `Prim.cost`. -/
def ugCnots {Θ : Type} (l : List (Uni.UG Θ)) : Nat := raw (ugPrims l)

/-- a `UnitaryGate` leaf on exactly two wires. -/
def isLeaf2 {Θ : Type} : Uni.UG Θ → Bool
  | .unitary ws => ws.length == 2
  | _ => false

/-- number of two-qubit leaves. -/
def leaves2 {Θ : Type} (l : List (Uni.UG Θ)) : Nat := l.countP isLeaf2

/-- is the object one `ugPrim` prices faithfully?  A `G` gate must be `ry` or `cz` (what the CZ
multiplexer consists of), a leaf has at most two wires, a multiplexer has a target, a `UCGate`
carries `2^len(controls)` blocks. -/
def ugPriced {Θ : Type} : Uni.UG Θ → Bool
  | .g (.ry _ _) => true
  | .g (.cz _ _) => true
  | .g _ => false
  | .unitary ws => ws.length ≤ 2
  | .ucrz _ ws => 1 ≤ ws.length
  | .ucry _ ws => 1 ≤ ws.length
  | .ucg nb ws => 1 ≤ ws.length && nb == 2 ^ (ws.length - 1)

/-- CNOTs after qiskit's `_apply_a2`, when `inl` of the two-qubit leaves are composed inline (not
an instruction `qsd2q`, hence invisible to the pass): every visible leaf but the last saves one. -/
def ugCnotsA2 {Θ : Type} (a2 : Bool) (inl : Nat) (l : List (Uni.UG Θ)) : Nat :=
  ugCnots l - (if a2 then leaves2 l - inl - 1 else 0)

/-- two-qubit leaves of `build_unitary(·, "qsd", iso)` that are not appended by `_qsd` as an
instruction: the block at the bottom of the isometry chain, present iff the chain gets there
(`n − 2 ≤ iso`); for `n = 2` the circuit itself. -/
def inlineLeaves (n iso : Nat) : Nat := if 2 ≤ n ∧ n ≤ iso + 2 then 1 else 0

/-! ### the common normal form -/

def normP : Prim → List Prim
  | .u1 => []
  | .u2 _ => [Prim.u2 false]
  | .ucrCZ k => List.replicate (2 ^ k - 1) (Prim.cx 1)
  | p => [p]

/-- normal form of a list of `Prim`s: one-qubit objects dropped, visibility erased, the CZ
multiplexer expanded to its entanglers. -/
def norm (l : List Prim) : List Prim := l.flatMap normP

@[simp] theorem norm_nil : norm [] = [] := rfl
@[simp] theorem norm_cons (p : Prim) (l : List Prim) : norm (p :: l) = normP p ++ norm l := by
  simp [norm]
@[simp] theorem norm_append (a b : List Prim) : norm (a ++ b) = norm a ++ norm b := by
  simp [norm]

theorem raw_replicate_cx (m : Nat) : raw (List.replicate m (Prim.cx 1)) = m := by
  induction m with
  | zero => rfl
  | succ m ih => rw [List.replicate_succ, raw_cons, ih]; simp [Prim.cost]; omega

theorem raw_normP (p : Prim) : raw (normP p) = p.cost := by
  cases p <;> simp [normP, Prim.cost, raw_replicate_cx]

/-- the normal form costs what the list costs. -/
theorem raw_norm (l : List Prim) : raw (norm l) = raw l := by
  induction l with
  | nil => rfl
  | cons p l ih => rw [norm_cons, raw_append, raw_cons, raw_normP, ih]

/-! ### list algebra -/

@[simp] theorem ugPrims_append {Θ : Type} (a b : List (Uni.UG Θ)) :
    ugPrims (a ++ b) = ugPrims a ++ ugPrims b := by simp [ugPrims]
@[simp] theorem ugPrims_cons {Θ : Type} (x : Uni.UG Θ) (l : List (Uni.UG Θ)) :
    ugPrims (x :: l) = ugPrim x :: ugPrims l := rfl
@[simp] theorem ugPrims_nil {Θ : Type} : ugPrims ([] : List (Uni.UG Θ)) = [] := rfl
@[simp] theorem leaves2_append {Θ : Type} (a b : List (Uni.UG Θ)) :
    leaves2 (a ++ b) = leaves2 a + leaves2 b := List.countP_append
@[simp] theorem leaves2_nil {Θ : Type} : leaves2 ([] : List (Uni.UG Θ)) = 0 := rfl
@[simp] theorem leaves2_cons {Θ : Type} (x : Uni.UG Θ) (l : List (Uni.UG Θ)) :
    leaves2 (x :: l) = leaves2 l + (if isLeaf2 x = true then 1 else 0) := List.countP_cons

theorem ugCnots_eq_of_norm {Θ : Type} {l : List (Uni.UG Θ)} {s : List Prim}
    (h : norm (ugPrims l) = norm s) : ugCnots l = raw s := by
  rw [ugCnots, ← raw_norm, h, raw_norm]

/-! ### the middle circuit: `ucr(RY, 2θ, CZ, last_control=False)` on `[n-1] + range(n-1)` -/

theorem norm_map_gPrim {Θ : Type} (c : Circ Θ) :
    norm (c.map gPrim) = List.replicate (entCount c) (Prim.cx 1) := by
  induction c with
  | nil => rfl
  | cons g c ih =>
    rw [List.map_cons, norm_cons, ih]
    unfold entCount
    rw [List.countP_cons]
    by_cases h : isEnt g = true
    · simp [gPrim, h, normP, List.replicate_succ]
    · simp [gPrim, h, normP]

theorem ugPrims_map_g {Θ : Type} (c : Circ Θ) : ugPrims (c.map Uni.UG.g) = c.map gPrim := by
  simp [ugPrims, ugPrim, Function.comp_def]

theorem gPrim_mapWires {Θ : Type} (f : Nat → Nat) (g : G Θ) : gPrim (g.mapWires f) = gPrim g := by
  simp [gPrim]

/-- the gate list the C02 model emits for the middle circuit on `n` qubits has, after dropping the
rotations, exactly `2^(n−1) − 1` entanglers: `norm [ucrCZ (n−1)]`. -/
theorem norm_middle {Θ : Type} (o : Uni.UOps Θ) (n : Nat) (theta : List Θ) :
    norm (ugPrims (Uni.middle o n theta)) = norm [Prim.ucrCZ (n - 1)] := by
  unfold Uni.middle
  rw [ugPrims_map_g]
  unfold place
  rw [List.map_map]
  have : (gPrim ∘ G.mapWires fun i => (Uni.topFirst n).getD i 0) = (gPrim : G Θ → Prim) := by
    funext g; exact gPrim_mapWires _ g
  rw [this, norm_map_gPrim, entCount_ucr]
  simp [normP]

theorem leaves2_middle {Θ : Type} (o : Uni.UOps Θ) (n : Nat) (theta : List Θ) :
    leaves2 (Uni.middle o n theta) = 0 := by
  unfold Uni.middle leaves2
  rw [List.countP_map]
  apply List.countP_eq_zero.mpr
  intro g _
  simp [isLeaf2]

theorem ryOrCz_ucr {Θ : Type} (o : AOps Θ) (k : Nat) :
    ∀ (a : Nat → Θ) (last : Bool), ∀ g ∈ ucr o Axis.Y Ent.CZ k a last,
      ugPriced (Uni.UG.g g) = true := by
  induction k with
  | zero =>
    intro a last g hg
    simp only [ucr] at hg
    split at hg
    · simp at hg
    · simp only [List.mem_singleton] at hg; subst hg; rfl
  | succ k ih =>
    intro a last g hg
    simp only [ucr, List.mem_append, List.mem_reverse, List.mem_singleton] at hg
    rcases hg with ((hg | hg) | hg) | hg
    · exact ih _ _ g hg
    · subst hg; rfl
    · exact ih _ _ g hg
    · cases last
      · simp at hg
      · simp only [if_true, List.mem_singleton] at hg; subst hg; rfl

theorem ugPriced_mapWires {Θ : Type} (f : Nat → Nat) (g : G Θ) :
    ugPriced (Uni.UG.g (g.mapWires f)) = ugPriced (Uni.UG.g g) := by
  cases g <;> rfl

theorem priced_middle {Θ : Type} (o : Uni.UOps Θ) (n : Nat) (theta : List Θ) :
    (Uni.middle o n theta).all ugPriced = true := by
  unfold Uni.middle place
  rw [List.all_eq_true]
  intro x hx
  simp only [List.mem_map] at hx
  obtain ⟨g', ⟨g, hg, rfl⟩, rfl⟩ := hx
  rw [ugPriced_mapWires]
  exact ryOrCz_ucr _ _ _ _ g hg

/-! ### the recursions of the C02 model, unfolded (same shape as `Proofs/UnitaryFullQsd.lean`) -/

/-- the local function `qsdPair` of `Uni.buildQsd`, named: `_qsd(gate1, gate2)` for blocks on `n`
qubits. -/
def uPair {Θ : Type} (o : Uni.UOps Θ) (n : Nat) (t : Uni.Tape Θ) : List (Uni.UG Θ) × Uni.Tape Θ :=
  let d := (Uni.pop t).1
  let w := Uni.buildQsd o n 0 (Uni.pop t).2
  let v := Uni.buildQsd o n 0 w.2
  (w.1 ++ [Uni.UG.ucrz (d.map o.negDbl) (Uni.topFirst (n + 1))] ++ v.1, v.2)

theorem uBuildQsd_node {Θ : Type} (o : Uni.UOps Θ) (n iso : Nat) (tape : Uni.Tape Θ) :
    Uni.buildQsd o (n + 3) iso tape =
      (let l := if iso ≠ 0 then Uni.buildQsd o (n + 2) (iso - 1) (Uni.pop tape).2
                else uPair o (n + 2) (Uni.pop tape).2
       let r := uPair o (n + 2) l.2
       (l.1 ++ Uni.middle o (n + 3) (Uni.pop tape).1 ++ r.1, r.2)) := by
  rw [Uni.buildQsd]
  rfl

theorem uBuildQsd_leaf {Θ : Type} (o : Uni.UOps Θ) (n iso : Nat) (hn : n ≤ 2) (tape : Uni.Tape Θ) :
    Uni.buildQsd o n iso tape = ([Uni.UG.unitary (List.range n)], tape) := by
  match n, hn with
  | 0, _ => rfl
  | 1, _ => rfl
  | 2, _ => rfl

theorem uCsdList_step {Θ : Type} (o : Uni.UOps Θ) (n s : Nat) (tape : Uni.Tape Θ) :
    Uni.csdList o n (s + 2) tape =
      (let p := Uni.popN (2 ^ (n - (s + 2))) tape
       let l := Uni.csdList o n (s + 1) p.2
       let r := Uni.csdList o n (s + 1) l.2
       (l.1 ++ [Uni.UG.ucry ((p.1.flatMap id).map o.dbl)
          ((s + 1) :: (List.range (s + 1) ++ (List.range (n - (s + 1) - 1)).map (fun q => q + (s + 1) + 1)))]
          ++ r.1, r.2)) := by
  rw [Uni.csdList]

theorem uBuildCsd_node {Θ : Type} (o : Uni.UOps Θ) (n iso : Nat) (tape : Uni.Tape Θ) :
    Uni.buildCsd o (n + 3) iso tape =
      (let l := if iso ≠ 0 then Uni.buildCsd o (n + 2) (iso - 1) (Uni.pop tape).2
                else Uni.csdList o (n + 3) (n + 2) (Uni.pop tape).2
       let r := Uni.csdList o (n + 3) (n + 2) l.2
       (l.1 ++ Uni.middle o (n + 3) (Uni.pop tape).1 ++ r.1, r.2)) := by
  rw [Uni.buildCsd]

theorem uBuildCsd_leaf {Θ : Type} (o : Uni.UOps Θ) (n iso : Nat) (hn : n ≤ 2) (tape : Uni.Tape Θ) :
    Uni.buildCsd o n iso tape = ([Uni.UG.unitary (List.range n)], tape) := by
  match n, hn with
  | 0, _ => rfl
  | 1, _ => rfl
  | 2, _ => rfl

/-! ### QSD -/

/-- what the link says of one gate list `l` of the C02 model against a shape `s` with `inl`
inline two-qubit leaves. -/
structure Linked {Θ : Type} (l : List (Uni.UG Θ)) (s : List Prim) (inl : Nat) : Prop where
  seq : norm (ugPrims l) = norm s
  leaves : leaves2 l = vis s + inl
  priced : l.all ugPriced = true

theorem Linked.append {Θ : Type} {a b : List (Uni.UG Θ)} {s t : List Prim} {i j : Nat}
    (ha : Linked a s i) (hb : Linked b t j) : Linked (a ++ b) (s ++ t) (i + j) where
  seq := by rw [ugPrims_append, norm_append, norm_append, ha.seq, hb.seq]
  leaves := by rw [leaves2_append, vis_append, ha.leaves, hb.leaves]; omega
  priced := by rw [List.all_append, ha.priced, hb.priced]; rfl

theorem linked_middle {Θ : Type} (o : Uni.UOps Θ) (n : Nat) (theta : List Θ) :
    Linked (Uni.middle o (n + 3) theta) [Prim.ucrCZ (n + 2)] 0 where
  seq := norm_middle o (n + 3) theta
  leaves := by rw [leaves2_middle]; simp [Prim.isVis]
  priced := priced_middle o (n + 3) theta

theorem topFirst_length (n : Nat) : (Uni.topFirst (n + 1)).length = n + 1 := by
  simp [Uni.topFirst]

theorem linked_ucrz {Θ : Type} (angles : List Θ) (n : Nat) :
    Linked [Uni.UG.ucrz angles (Uni.topFirst (n + 1))] [Prim.ucrz n] 0 where
  seq := by simp [ugPrim, topFirst_length]
  leaves := by simp [isLeaf2, Prim.isVis]
  priced := by simp [ugPriced, topFirst_length]

/-- the half-size block as `_qsd` embeds it: same objects as `build_unitary(·, "qsd")`, and a
two-qubit block becomes visible to A.2. -/
theorem qsdSub_norm (n : Nat) : norm (qsdSub (n + 2)) = norm (Cnot.buildQsd (n + 2) 0) := by
  cases n with
  | zero => simp [qsdSub, Cnot.buildQsd, normP]
  | succ n => rw [qsdSub_succ]

theorem qsdSub_vis (n : Nat) :
    vis (qsdSub (n + 2)) = vis (Cnot.buildQsd (n + 2) 0) + inlineLeaves (n + 2) 0 := by
  cases n with
  | zero => simp [qsdSub, Cnot.buildQsd, Prim.isVis, inlineLeaves]
  | succ n => rw [qsdSub_succ]; simp [inlineLeaves]

theorem linked_sub {Θ : Type} {l : List (Uni.UG Θ)} {n : Nat}
    (h : Linked l (Cnot.buildQsd (n + 2) 0) (inlineLeaves (n + 2) 0)) : Linked l (qsdSub (n + 2)) 0 where
  seq := by rw [h.seq, qsdSub_norm]
  leaves := by rw [h.leaves, qsdSub_vis]; rfl
  priced := h.priced

theorem linked_pair {Θ : Type} (o : Uni.UOps Θ) (n : Nat)
    (ih : ∀ (t : Uni.Tape Θ),
      Linked (Uni.buildQsd o (n + 2) 0 t).1 (Cnot.buildQsd (n + 2) 0) (inlineLeaves (n + 2) 0))
    (t : Uni.Tape Θ) : Linked (uPair o (n + 2) t).1 (Cnot.qsdPair n) 0 := by
  unfold uPair Cnot.qsdPair
  exact ((linked_sub (ih _)).append (linked_ucrz _ (n + 2))).append (linked_sub (ih _))

theorem inlineLeaves_succ (n j : Nat) : inlineLeaves (n + 3) (j + 1) = inlineLeaves (n + 2) j := by
  unfold inlineLeaves
  by_cases h : n ≤ j
  · rw [if_pos (by omega), if_pos (by omega)]
  · rw [if_neg (by omega), if_neg (by omega)]

theorem inlineLeaves_three_zero (n : Nat) : inlineLeaves (n + 3) 0 = 0 := by
  simp [inlineLeaves]

/-- **QSD link**, all `n`, all `iso`, every tape. -/
theorem qsd_link {Θ : Type} (o : Uni.UOps Θ) (n : Nat) :
    ∀ (iso : Nat) (tape : Uni.Tape Θ),
      Linked (Uni.buildQsd o n iso tape).1 (Cnot.buildQsd n iso) (inlineLeaves n iso) := by
  induction n with
  | zero =>
    intro iso tape
    rw [uBuildQsd_leaf o 0 iso (by omega)]
    exact ⟨by simp [ugPrim, Cnot.buildQsd, normP], by simp [isLeaf2, Cnot.buildQsd, Prim.isVis, inlineLeaves],
      by simp [ugPriced]⟩
  | succ n ih =>
    intro iso tape
    match n, ih with
    | 0, _ =>
      rw [uBuildQsd_leaf o 1 iso (by omega)]
      exact ⟨by simp [ugPrim, Cnot.buildQsd, normP],
        by simp [isLeaf2, Cnot.buildQsd, Prim.isVis, inlineLeaves], by simp [ugPriced]⟩
    | 1, _ =>
      rw [uBuildQsd_leaf o 2 iso (by omega)]
      exact ⟨by simp [ugPrim, Cnot.buildQsd, normP],
        by simp [isLeaf2, Cnot.buildQsd, Prim.isVis, inlineLeaves], by simp [ugPriced]⟩
    | n + 2, ih =>
      rw [uBuildQsd_node, Cnot.buildQsd_succ']
      have hp := linked_pair o n (ih 0)
      cases iso with
      | zero =>
        have h := ((hp (Uni.pop tape).2).append (linked_middle o n (Uni.pop tape).1)).append
          (hp (uPair o (n + 2) (Uni.pop tape).2).2)
        simpa [inlineLeaves_three_zero] using h
      | succ j =>
        have h := ((ih j (Uni.pop tape).2).append (linked_middle o n (Uni.pop tape).1)).append
          (hp (Uni.buildQsd o (n + 2) j (Uni.pop tape).2).2)
        simpa [inlineLeaves_succ] using h

/-! ### CSD -/

theorem csdWires_length (n s : Nat) (hs : s + 2 ≤ n) :
    ((s + 1) :: (List.range (s + 1) ++ (List.range (n - (s + 1) - 1)).map (fun q => q + (s + 1) + 1))).length
      = (n - 1) + 1 := by
  simp only [List.length_cons, List.length_append, List.length_range, List.length_map]
  omega

/-- `_unitary(gate_list, n, "csd")` for blocks of `s` qubits: the C02 model emits, object for
object, the list of the C10 shape (`s ≤ n`). -/
theorem csdList_link {Θ : Type} (o : Uni.UOps Θ) (n : Nat) (s : Nat) :
    s ≤ n → ∀ (tape : Uni.Tape Θ), Linked (Uni.csdList o n s tape).1 (Cnot.csdList n s) 0 := by
  induction s with
  | zero =>
    intro _ tape
    exact ⟨rfl, rfl, rfl⟩
  | succ s ih =>
    intro hs tape
    cases s with
    | zero =>
      refine ⟨?_, ?_, ?_⟩
      · simp [Uni.csdList, Cnot.csdList, ugPrim]
      · simp [Uni.csdList, Cnot.csdList, isLeaf2, Prim.isVis]
      · simp only [Uni.csdList, List.all_cons, List.all_nil, ugPriced, List.length_range]
        simp; omega
    | succ s =>
      rw [uCsdList_step, Cnot.csdList]
      have hu : ∀ angles : List Θ, Linked [Uni.UG.ucry angles
          ((s + 1) :: (List.range (s + 1) ++ (List.range (n - (s + 1) - 1)).map (fun q => q + (s + 1) + 1)))]
          [Prim.ucry (n - 1)] 0 := fun angles =>
        ⟨by simp only [ugPrims_cons, ugPrims_nil, ugPrim, csdWires_length n s hs]; rfl,
         by simp [isLeaf2, Prim.isVis],
         by simp only [List.all_cons, List.all_nil, ugPriced, csdWires_length n s hs]; simp⟩
      exact ((ih (by omega) _).append (hu _)).append (ih (by omega) _)

/-- **CSD link**, all `n`, all `iso`, every tape. -/
theorem csd_link {Θ : Type} (o : Uni.UOps Θ) (n : Nat) :
    ∀ (iso : Nat) (tape : Uni.Tape Θ),
      Linked (Uni.buildCsd o n iso tape).1 (Cnot.buildCsd n iso) (inlineLeaves n iso) := by
  induction n with
  | zero =>
    intro iso tape
    rw [uBuildCsd_leaf o 0 iso (by omega)]
    exact ⟨by simp [ugPrim, Cnot.buildCsd, normP],
      by simp [isLeaf2, Cnot.buildCsd, Prim.isVis, inlineLeaves], by simp [ugPriced]⟩
  | succ n ih =>
    intro iso tape
    match n, ih with
    | 0, _ =>
      rw [uBuildCsd_leaf o 1 iso (by omega)]
      exact ⟨by simp [ugPrim, Cnot.buildCsd, normP],
        by simp [isLeaf2, Cnot.buildCsd, Prim.isVis, inlineLeaves], by simp [ugPriced]⟩
    | 1, _ =>
      rw [uBuildCsd_leaf o 2 iso (by omega)]
      exact ⟨by simp [ugPrim, Cnot.buildCsd, normP],
        by simp [isLeaf2, Cnot.buildCsd, Prim.isVis, inlineLeaves], by simp [ugPriced]⟩
    | n + 2, ih =>
      rw [uBuildCsd_node, Cnot.buildCsd]
      have hl := csdList_link o (n + 3) (n + 2) (by omega)
      cases iso with
      | zero =>
        have h := ((hl (Uni.pop tape).2).append (linked_middle o n (Uni.pop tape).1)).append
          (hl (Uni.csdList o (n + 3) (n + 2) (Uni.pop tape).2).2)
        simpa [inlineLeaves_three_zero] using h
      | succ j =>
        have h := ((ih j (Uni.pop tape).2).append (linked_middle o n (Uni.pop tape).1)).append
          (hl (Uni.buildCsd o (n + 2) j (Uni.pop tape).2).2)
        simpa [inlineLeaves_succ] using h

/-! ### counts: what the link gives for `raw`, `vis` and the A.2 figure -/

theorem Linked.cnots {Θ : Type} {l : List (Uni.UG Θ)} {s : List Prim} {inl : Nat}
    (h : Linked l s inl) : ugCnots l = raw s := ugCnots_eq_of_norm h.seq

/-- with the inline leaves discounted, the A.2 figure of the gate list is `cnotsOf` of the shape. -/
theorem Linked.a2 {Θ : Type} {l : List (Uni.UG Θ)} {s : List Prim} {inl : Nat}
    (h : Linked l s inl) (a2 : Bool) : ugCnotsA2 a2 inl l = cnotsOf a2 s := by
  unfold ugCnotsA2 cnotsOf
  rw [h.cnots, h.leaves, Nat.add_sub_cancel]

/-- when the only inline leaf is the whole circuit (`vis s = 0`), it need not be discounted. -/
theorem Linked.a2_zero {Θ : Type} {l : List (Uni.UG Θ)} {s : List Prim} {inl : Nat}
    (h : Linked l s inl) (hv : inl = 0 ∨ (vis s = 0 ∧ inl = 1)) (a2 : Bool) :
    ugCnotsA2 a2 0 l = cnotsOf a2 s := by
  unfold ugCnotsA2 cnotsOf
  rw [h.cnots, h.leaves]
  rcases hv with h0 | ⟨h1, h2⟩
  · rw [h0]; rfl
  · rw [h1, h2]

theorem inlineLeaves_zero_iso (n : Nat) :
    inlineLeaves n 0 = 0 ∨ (vis (Cnot.buildQsd n 0) = 0 ∧ inlineLeaves n 0 = 1) := by
  by_cases h : n = 2
  · subst h; right; exact ⟨rfl, rfl⟩
  · left; unfold inlineLeaves; rw [if_neg (by omega)]

/-- two-qubit blocks of `build_unitary(·, "qsd")` on `n ≥ 2` qubits that A.2 sees, plus the circuit
itself when `n = 2`: `4^(n−2)`. -/
theorem vis_buildQsd_zero_total (n : Nat) :
    vis (Cnot.buildQsd (n + 2) 0) + inlineLeaves (n + 2) 0 = 4 ^ n := by
  rw [← qsdSub_vis, vis_qsdSub]

theorem vis_csdList (n s : Nat) : vis (Cnot.csdList n s) = 0 := by
  induction s with
  | zero => rfl
  | succ s ih =>
    cases s with
    | zero => simp [Cnot.csdList, Prim.isVis]
    | succ s => rw [Cnot.csdList]; simp [ih, Prim.isVis]

theorem vis_buildCsd (n : Nat) : ∀ iso : Nat, vis (Cnot.buildCsd n iso) = 0 := by
  induction n with
  | zero => intro iso; simp [Cnot.buildCsd, Prim.isVis]
  | succ n ih =>
    intro iso
    match n, ih with
    | 0, _ => simp [Cnot.buildCsd, Prim.isVis]
    | 1, _ => simp [Cnot.buildCsd, Prim.isVis]
    | n + 2, ih =>
      rw [Cnot.buildCsd]
      cases iso with
      | zero => simp [vis_csdList, Prim.isVis]
      | succ j => simp [vis_csdList, Prim.isVis, ih j]

end Qclib.CnotLink
