import QclibModel.Proofs.SparsePivotTotalA
/-
  C06 — PivotInitialize, whole circuit (part B): the classical action of the gates of one
  `_pivoting` call on a label is `_next_state` on the key carried by the label — for EVERY key,
  not only the pivot and the low block; `_next_state` is injective on keys.
-/
namespace Qclib.Sparse
open Qclib

/-- **one step, all keys**: running the emitted CX fan / X sandwich / MCX / X sandwich on a label
relabels the key it carries by `_next_state` (`nextKey`). -/
theorem stepB_key (r : Nat → Nat) (n lo d : Nat) (cv : Bool) (tcx : List Nat) (zero : Str)
    (hr : ∀ i j, i < n → j < n → r i = r j → i = j) (hlo : lo ≤ n) (hd : d < lo)
    (hdt : d ∉ tcx) (hnd : tcx.Nodup) (htn : ∀ k ∈ tcx, k < n) (hz : zero.length = n)
    (b : Bits) :
    keyOf r n (stepB r n lo d cv tcx zero b) = nextKey d cv tcx lo zero (keyOf r n b) := by
  have hdn : d < n := by omega
  have hb1 : ∀ i, i < n → fanFold (r d) cv (tcx.map r) b (r i)
      = if (b (r d) == cv) && tcx.contains i then !b (r i) else b (r i) := by
    intro i hi
    rw [fanFold_apply _ _ _ _ (map_nodup_inj r n hr tcx htn hnd), map_contains_inj r n hr tcx htn i hi]
    intro hmem
    obtain ⟨k, hk, e⟩ := List.mem_map.mp hmem
    exact hdt (hr k d (htn k hk) hdn e ▸ hk)
  have hfk : ∀ i, bitAt (fanKey d cv tcx (keyOf r n b)) i
      = if i < n then fanFold (r d) cv (tcx.map r) b (r i) else false := by
    intro i
    rw [bitAt_fanKey, keyOf_length, bitAt_keyOf, bitAt_keyOf, if_pos hdn]
    by_cases hi : i < n
    · rw [if_pos hi, if_pos hi, hb1 i hi]; simp [hi]
    · simp [hi]
  have hremain : ∀ k, k ∈ (List.range n).drop lo ↔ lo ≤ k ∧ k < n := fun k => mem_drop_range_iff k n lo
  have hxs_nd : ((((List.range n).drop lo).filter (fun k => bitAt zero k == false)).map r).Nodup := by
    apply map_nodup_inj r n hr
    · intro k hk; exact ((hremain k).mp (List.mem_filter.mp hk).1).2
    · exact (List.nodup_range.sublist (List.drop_sublist _ _)).filter _
  have hfire : ctrlOk ((((List.range n).drop lo).map r).map (fun c => (c, true)))
          (xsFold ((((List.range n).drop lo).filter (fun k => bitAt zero k == false)).map r)
            (fanFold (r d) cv (tcx.map r) b)) = true
      ↔ ((fanKey d cv tcx (keyOf r n b)).drop lo == zero.drop lo) = true := by
    rw [ctrlOk_ones, drop_beq_iff _ _ _ (by rw [fanKey_length, keyOf_length, hz])]
    have hval : ∀ k, lo ≤ k → k < n →
        (xsFold ((((List.range n).drop lo).filter (fun k => bitAt zero k == false)).map r)
            (fanFold (r d) cv (tcx.map r) b) (r k) = true
          ↔ fanFold (r d) cv (tcx.map r) b (r k) = bitAt zero k) := by
      intro k hk1 hk2
      rw [xsFold_apply _ hxs_nd, map_contains_inj r n hr _
        (fun k hk => ((hremain k).mp (List.mem_filter.mp hk).1).2) k hk2]
      have hc : (((List.range n).drop lo).filter (fun k => bitAt zero k == false)).contains k
          = (bitAt zero k == false) := by
        rw [Bool.eq_iff_iff, List.contains_iff_mem, List.mem_filter, hremain]
        exact ⟨fun h => h.2, fun h => ⟨⟨hk1, hk2⟩, h⟩⟩
      rw [hc]
      cases bitAt zero k <;> cases fanFold (r d) cv (tcx.map r) b (r k) <;> simp
    constructor
    · intro h k hk
      rw [hfk]
      by_cases hkn : k < n
      · rw [if_pos hkn]
        exact (hval k hk hkn).mp (h (r k) (List.mem_map.mpr ⟨k, (hremain k).mpr ⟨hk, hkn⟩, rfl⟩))
      · rw [if_neg hkn, bitAt_ge zero k (by omega)]
    · intro h q hq
      obtain ⟨k, hk, rfl⟩ := List.mem_map.mp hq
      obtain ⟨hk1, hk2⟩ := (hremain k).mp hk
      rw [hval k hk1 hk2]
      have := h k hk1
      rw [hfk, if_pos hk2] at this
      exact this
  apply eq_of_bitAt _ _ (by
    rw [keyOf_length, nextKey_length _ _ _ _ _ _ (by rw [keyOf_length]; exact hdn), keyOf_length])
  intro i
  rw [bitAt_nextKey _ _ _ _ _ _ (by rw [keyOf_length]; exact hdn), bitAt_keyOf, stepB_eq, hfk]
  by_cases hi : i < n
  · rw [if_pos hi, if_pos hi]
    by_cases hf : ((fanKey d cv tcx (keyOf r n b)).drop lo == zero.drop lo) = true
    · rw [if_pos (hfire.mpr hf)]
      by_cases e : i = d
      · subst e
        rw [if_pos ⟨hf, rfl⟩, flipBit_eq, hb1 i hi, bitAt_keyOf, if_pos hi]
        simp [hdt]
      · rw [if_neg (fun h => e h.2), flipBit_ne]
        intro e'; exact e (hr i d hi hdn e')
    · rw [if_neg (fun h => hf (hfire.mp h)), if_neg (fun h => hf h.1)]
  · rw [if_neg hi, if_neg hi]
    have : ¬ i = d := by omega
    rw [if_neg (fun h => this h.2)]

/-- a step leaves every wire that carries no key character alone -/
theorem stepB_out (r : Nat → Nat) (n lo d : Nat) (cv : Bool) (tcx : List Nat) (zero : Str)
    (hlo : lo ≤ n) (hd : d < lo) (htn : ∀ k ∈ tcx, k < n) (b : Bits) (w : Nat)
    (hw : ∀ i, i < n → r i ≠ w) : stepB r n lo d cv tcx zero b w = b w := by
  have hfan : ∀ (ts : List Nat) (b : Bits), (∀ k ∈ ts, k < n) →
      fanFold (r d) cv (ts.map r) b w = b w := by
    intro ts
    induction ts with
    | nil => intro b _; rfl
    | cons k ts ih =>
      intro b hts
      show fanFold (r d) cv (ts.map r) (mcxTau [(r d, cv)] (r k) b) w = b w
      rw [ih _ (fun k' hk' => hts k' (List.mem_cons_of_mem _ hk')), mcxTau]
      split
      · exact flipBit_ne _ (fun e => hw k (hts k (List.mem_cons_self ..)) e.symm)
      · rfl
  rw [stepB_eq]
  split
  · rw [flipBit_ne _ (fun e => hw d (by omega) e.symm), hfan tcx b htn]
  · exact hfan tcx b htn


/-! ### `_next_state` is injective on keys -/

/-- the MCX (with its X sandwich) on a key: flip character `d` iff the key agrees with
`index_zero` from position `lo` on -/
def mcxKey (d lo : Nat) (zero u : Str) : Str :=
  if u.drop lo == zero.drop lo then u.set d (!bitAt u d) else u

theorem bitAt_fanKey_d (d : Nat) (cv : Bool) (tcx : List Nat) (s : Str) (hdt : d ∉ tcx) :
    bitAt (fanKey d cv tcx s) d = bitAt s d := by
  rw [bitAt_fanKey]; simp [hdt]

theorem nextKey_eq_mcxKey (d : Nat) (cv : Bool) (tcx : List Nat) (lo : Nat) (zero s : Str)
    (hd : d < s.length) (hdt : d ∉ tcx) :
    nextKey d cv tcx lo zero s = mcxKey d lo zero (fanKey d cv tcx s) := by
  rw [nextKey_eq, mcxKey, take_cons_drop_eq_set _ _ _ (by rw [fanKey_length]; exact hd),
    bitAt_fanKey_d _ _ _ _ hdt]

theorem fanKey_fanKey (d : Nat) (cv : Bool) (tcx : List Nat) (s : Str) (hdt : d ∉ tcx) :
    fanKey d cv tcx (fanKey d cv tcx s) = s := by
  apply eq_of_bitAt _ _ (by rw [fanKey_length, fanKey_length])
  intro i
  rw [bitAt_fanKey, bitAt_fanKey_d _ _ _ _ hdt, fanKey_length, bitAt_fanKey]
  by_cases h : ((bitAt s d == cv) && tcx.contains i && decide (i < s.length)) = true
  · rw [if_pos h, if_pos h, Bool.not_not]
  · rw [if_neg h, if_neg h]

theorem mcxKey_length (d lo : Nat) (zero u : Str) : (mcxKey d lo zero u).length = u.length := by
  unfold mcxKey; split <;> simp

theorem mcxKey_mcxKey (d lo : Nat) (zero u : Str) (hd : d < lo) (hdu : d < u.length) :
    mcxKey d lo zero (mcxKey d lo zero u) = u := by
  unfold mcxKey
  by_cases h : (u.drop lo == zero.drop lo) = true
  · rw [if_pos h, List.drop_set_of_lt hd, if_pos h, List.set_set]
    apply eq_of_bitAt _ _ (by simp)
    intro i
    rw [bitAt_set _ _ _ _ hdu, bitAt_set _ _ _ _ hdu]
    by_cases e : i = d
    · subst e; simp
    · simp [e]
  · rw [if_neg h, if_neg h]

/-- **`_next_state` never merges two keys** (it is the composition of two involutions). -/
theorem nextKey_injective (d : Nat) (cv : Bool) (tcx : List Nat) (lo : Nat) (zero s1 s2 : Str)
    (hd : d < lo) (h1 : d < s1.length) (h2 : d < s2.length) (hdt : d ∉ tcx)
    (h : nextKey d cv tcx lo zero s1 = nextKey d cv tcx lo zero s2) : s1 = s2 := by
  rw [nextKey_eq_mcxKey _ _ _ _ _ _ h1 hdt, nextKey_eq_mcxKey _ _ _ _ _ _ h2 hdt] at h
  have h' := congrArg (mcxKey d lo zero) h
  rw [mcxKey_mcxKey _ _ _ _ hd (by rw [fanKey_length]; exact h1),
    mcxKey_mcxKey _ _ _ _ hd (by rw [fanKey_length]; exact h2)] at h'
  have h'' := congrArg (fanKey d cv tcx) h'
  rwa [fanKey_fanKey _ _ _ _ hdt, fanKey_fanKey _ _ _ _ hdt] at h''

end Qclib.Sparse
