import Mathlib.Data.Complex.Basic
import Mathlib.Analysis.Real.Sqrt
import Mathlib.LinearAlgebra.Matrix.ConjTranspose
import Mathlib.Data.Matrix.Mul
import Mathlib.Algebra.BigOperators.Group.Finset.Basic
import Mathlib.Tactic.Ring
import Mathlib.Tactic.FieldSimp
import Mathlib.Tactic.Linarith
import Mathlib.Tactic.LinearCombination
/-
  C02 / QR — matrix-level model of ONE iteration of `_build_qr_gate_sequence`
  (`qclib/unitary.py`): the "two-level" matrix `matrix_rotation` and what left-multiplying by it
  does.  Matrices are Mathlib matrices over `ℂ` indexed by `Fin N` (`N` need not be a power of two:
  the sweep never looks at qubits).

      matrix_rotation = np.eye(N)
      norm = np.linalg.norm([gate[col, col], gate[row, col]])
      a = gate[col, col] / norm ;  b = gate[row, col] / norm
      matrix_rotation[col, col] = conj(a) ; matrix_rotation[col, row] = conj(b)
      matrix_rotation[row, col] = b       ; matrix_rotation[row, row] = -a
-/
namespace Qclib.QrFull
open Matrix

abbrev Mat (N : ℕ) := Matrix (Fin N) (Fin N) ℂ

variable {N : ℕ}

/-- `np.eye(N)` with the four assignments `[c,c] = p`, `[c,r] = q`, `[r,c] = s`, `[r,r] = t` made in
this order (a later assignment wins, so the `if` chain tests the last one first). -/
def twoLevel (c r : Fin N) (p q s t : ℂ) : Mat N :=
  Matrix.of fun i j =>
    if i = r ∧ j = r then t else if i = r ∧ j = c then s else if i = c ∧ j = r then q
    else if i = c ∧ j = c then p else if i = j then 1 else 0

theorem twoLevel_apply (c r : Fin N) (p q s t : ℂ) (i j : Fin N) :
    twoLevel c r p q s t i j =
      if i = r ∧ j = r then t else if i = r ∧ j = c then s else if i = c ∧ j = r then q
      else if i = c ∧ j = c then p else if i = j then 1 else 0 := rfl

/-- outside rows/columns `{c, r}` a two-level matrix is the identity. -/
theorem twoLevel_outside (c r : Fin N) (p q s t : ℂ) (i j : Fin N)
    (h : (i ≠ c ∧ i ≠ r) ∨ (j ≠ c ∧ j ≠ r)) :
    twoLevel c r p q s t i j = (1 : Mat N) i j := by
  rw [twoLevel_apply, Matrix.one_apply]
  rcases h with ⟨h1, h2⟩ | ⟨h1, h2⟩ <;> simp [h1, h2]

theorem twoLevel_cc {c r : Fin N} (h : c ≠ r) (p q s t : ℂ) : twoLevel c r p q s t c c = p := by
  simp [twoLevel_apply, h]
theorem twoLevel_cr {c r : Fin N} (h : c ≠ r) (p q s t : ℂ) : twoLevel c r p q s t c r = q := by
  simp [twoLevel_apply, h]
theorem twoLevel_rc {c r : Fin N} (h : c ≠ r) (p q s t : ℂ) : twoLevel c r p q s t r c = s := by
  simp [twoLevel_apply, h]
theorem twoLevel_rr {c r : Fin N} (p q s t : ℂ) : twoLevel c r p q s t r r = t := by
  simp [twoLevel_apply]

theorem twoLevel_one (c r : Fin N) : twoLevel c r 1 0 0 1 = (1 : Mat N) := by
  ext i j
  rw [twoLevel_apply, Matrix.one_apply]
  by_cases h1 : i = r <;> by_cases h2 : j = r <;> by_cases h3 : i = c <;> by_cases h4 : j = c <;>
    simp_all

/-- left multiplication by a two-level matrix only recombines rows `c` and `r`. -/
theorem twoLevel_mul_apply {c r : Fin N} (h : c ≠ r) (p q s t : ℂ) (M : Mat N) (i j : Fin N) :
    (twoLevel c r p q s t * M) i j =
      if i = r then s * M c j + t * M r j else if i = c then p * M c j + q * M r j else M i j := by
  rw [Matrix.mul_apply]
  by_cases hir : i = r
  · subst hir
    have : ∀ k, twoLevel c i p q s t i k * M k j =
        (if k = c then s * M c j else 0) + (if k = i then t * M i j else 0) := by
      intro k
      rw [twoLevel_apply]
      by_cases h1 : k = i
      · subst h1; simp [h.symm]
      · by_cases h2 : k = c
        · subst h2; simp [h]
        · simp [h1, h2, Ne.symm h1]
    simp [this, Finset.sum_add_distrib]
  · by_cases hic : i = c
    · subst hic
      have : ∀ k, twoLevel i r p q s t i k * M k j =
          (if k = i then p * M i j else 0) + (if k = r then q * M r j else 0) := by
        intro k
        rw [twoLevel_apply]
        by_cases h1 : k = r
        · subst h1; simp [h, h.symm]
        · by_cases h2 : k = i
          · subst h2; simp [h]
          · simp [h1, h2, hir, Ne.symm h2]
      simp [this, Finset.sum_add_distrib, hir]
    · have : ∀ k, twoLevel c r p q s t i k * M k j = if k = i then M i j else 0 := by
        intro k
        rw [twoLevel_apply]
        by_cases h1 : k = i
        · subst h1; simp [hir, hic]
        · simp [hir, hic, h1, Ne.symm h1]
      simp [this, hir, hic]

theorem twoLevel_mul_twoLevel {c r : Fin N} (h : c ≠ r) (p q s t p' q' s' t' : ℂ) :
    twoLevel c r p q s t * twoLevel c r p' q' s' t' =
      twoLevel c r (p * p' + q * s') (p * q' + q * t') (s * p' + t * s') (s * q' + t * t') := by
  ext i j
  rw [twoLevel_mul_apply h]
  by_cases h1 : i = r
  · subst h1
    by_cases h2 : j = i
    · subst h2; simp [twoLevel_apply, h]
    · by_cases h3 : j = c
      · subst h3; simp [twoLevel_apply, h]
      · simp [twoLevel_apply, h, h.symm, h2, h3, Ne.symm h2, Ne.symm h3]
  · by_cases h1' : i = c
    · subst h1'
      by_cases h2 : j = r
      · subst h2; simp [twoLevel_apply, h]
      · by_cases h3 : j = i
        · subst h3; simp [twoLevel_apply, h]
        · simp [twoLevel_apply, h, h.symm, h2, h3, Ne.symm h2, Ne.symm h3]
    · simp [twoLevel_apply, h1, h1']

theorem twoLevel_conjTranspose {c r : Fin N} (h : c ≠ r) (p q s t : ℂ) :
    (twoLevel c r p q s t)ᴴ = twoLevel c r (star p) (star s) (star q) (star t) := by
  ext i j
  rw [Matrix.conjTranspose_apply, twoLevel_apply, twoLevel_apply]
  by_cases h1 : i = r <;> by_cases h2 : j = r <;> by_cases h3 : i = c <;> by_cases h4 : j = c <;>
    simp_all [eq_comm]

/-! ### the Givens rotation of the code -/

/-- `np.linalg.norm([x, y])`. -/
noncomputable def pairNorm (x y : ℂ) : ℝ := Real.sqrt (Complex.normSq x + Complex.normSq y)

theorem pairNorm_nonneg (x y : ℂ) : 0 ≤ pairNorm x y := Real.sqrt_nonneg _

theorem pairNorm_sq (x y : ℂ) : pairNorm x y ^ 2 = Complex.normSq x + Complex.normSq y :=
  Real.sq_sqrt (add_nonneg (Complex.normSq_nonneg _) (Complex.normSq_nonneg _))

theorem pairNorm_pos {x y : ℂ} (h : pairNorm x y ≠ 0) : 0 < pairNorm x y :=
  lt_of_le_of_ne (pairNorm_nonneg x y) (Ne.symm h)

/-- `norm = 0` exactly when both entries vanish (the code then divides by zero). -/
theorem pairNorm_eq_zero {x y : ℂ} : pairNorm x y = 0 ↔ x = 0 ∧ y = 0 := by
  unfold pairNorm
  rw [Real.sqrt_eq_zero (add_nonneg (Complex.normSq_nonneg _) (Complex.normSq_nonneg _))]
  constructor
  · intro h
    have hx := Complex.normSq_nonneg x
    have hy := Complex.normSq_nonneg y
    exact ⟨Complex.normSq_eq_zero.1 (by linarith), Complex.normSq_eq_zero.1 (by linarith)⟩
  · rintro ⟨rfl, rfl⟩; simp

/-- `a` of the code. -/
noncomputable def gA (M : Mat N) (c r : Fin N) : ℂ := M c c / (pairNorm (M c c) (M r c) : ℂ)
/-- `b` of the code. -/
noncomputable def gB (M : Mat N) (c r : Fin N) : ℂ := M r c / (pairNorm (M c c) (M r c) : ℂ)

/-- `matrix_rotation` of one iteration of `_build_qr_gate_sequence` (`c = col_idx`,
`r = row_idx`, `M = gate` at the start of the iteration). -/
noncomputable def givens (M : Mat N) (c r : Fin N) : Mat N :=
  twoLevel c r (star (gA M c r)) (star (gB M c r)) (gB M c r) (-(gA M c r))

/-- `|a|² + |b|² = 1` whenever `norm ≠ 0`. -/
theorem gA_gB_unit (M : Mat N) (c r : Fin N) (h : pairNorm (M c c) (M r c) ≠ 0) :
    star (gA M c r) * gA M c r + star (gB M c r) * gB M c r = 1 := by
  have hν : ((pairNorm (M c c) (M r c) : ℝ) : ℂ) ≠ 0 := by exact_mod_cast h
  have hsq : ((pairNorm (M c c) (M r c) : ℝ) : ℂ) ^ 2 =
      star (M c c) * M c c + star (M r c) * M r c := by
    have := pairNorm_sq (M c c) (M r c)
    have h2 : ((pairNorm (M c c) (M r c) ^ 2 : ℝ) : ℂ) =
        ((Complex.normSq (M c c) + Complex.normSq (M r c) : ℝ) : ℂ) := by rw [this]
    push_cast at h2
    rw [h2, Complex.normSq_eq_conj_mul_self, Complex.normSq_eq_conj_mul_self]
    rfl
  unfold gA gB
  rw [star_div₀, star_div₀]
  have hs : star ((pairNorm (M c c) (M r c) : ℝ) : ℂ) = ((pairNorm (M c c) (M r c) : ℝ) : ℂ) :=
    Complex.conj_ofReal _
  rw [hs]
  field_simp
  rw [hsq]

theorem gA_gB_unit' (M : Mat N) (c r : Fin N) (h : pairNorm (M c c) (M r c) ≠ 0) :
    gA M c r * star (gA M c r) + gB M c r * star (gB M c r) = 1 := by
  rw [mul_comm (gA M c r), mul_comm (gB M c r)]; exact gA_gB_unit M c r h

/-- `R · R† = 1`. -/
theorem givens_mul_conjTranspose (M : Mat N) {c r : Fin N} (hcr : c ≠ r)
    (h : pairNorm (M c c) (M r c) ≠ 0) : givens M c r * (givens M c r)ᴴ = 1 := by
  unfold givens
  rw [twoLevel_conjTranspose hcr, twoLevel_mul_twoLevel hcr, ← twoLevel_one c r]
  have h1 := gA_gB_unit M c r h
  have h2 := gA_gB_unit' M c r h
  congr 1
  · simp only [star_star]; exact h1
  · simp only [star_neg]; ring
  · simp only [star_star]; ring
  · simp only [star_neg]; linear_combination h2

/-- `R† · R = 1` (the identity the telescoping product uses). -/
theorem conjTranspose_mul_givens (M : Mat N) {c r : Fin N} (hcr : c ≠ r)
    (h : pairNorm (M c c) (M r c) ≠ 0) : (givens M c r)ᴴ * givens M c r = 1 := by
  unfold givens
  rw [twoLevel_conjTranspose hcr, twoLevel_mul_twoLevel hcr, ← twoLevel_one c r]
  have h1 := gA_gB_unit M c r h
  have h2 := gA_gB_unit' M c r h
  congr 1
  · simp only [star_star]; linear_combination h2
  · simp only [star_star]; ring
  · simp only [star_star, star_neg]; ring
  · simp only [star_star, star_neg]; linear_combination h1

/-- rows other than `c`, `r` are untouched by `gate = matrix_rotation @ gate`. -/
theorem givens_mul_other (M : Mat N) {c r : Fin N} (hcr : c ≠ r) {i : Fin N} (hc : i ≠ c)
    (hr : i ≠ r) (j : Fin N) : (givens M c r * M) i j = M i j := by
  unfold givens; rw [twoLevel_mul_apply hcr]; simp [hc, hr]

theorem givens_mul_row_c (M : Mat N) {c r : Fin N} (hcr : c ≠ r) (j : Fin N) :
    (givens M c r * M) c j = star (gA M c r) * M c j + star (gB M c r) * M r j := by
  unfold givens; rw [twoLevel_mul_apply hcr]; simp [hcr]

theorem givens_mul_row_r (M : Mat N) {c r : Fin N} (hcr : c ≠ r) (j : Fin N) :
    (givens M c r * M) r j = gB M c r * M c j - gA M c r * M r j := by
  unfold givens; rw [twoLevel_mul_apply hcr]; simp; ring

/-- the new sub-diagonal entry is annihilated: `(R·M)[row, col] = 0`. -/
theorem givens_mul_zero (M : Mat N) {c r : Fin N} (hcr : c ≠ r)
    (h : pairNorm (M c c) (M r c) ≠ 0) : (givens M c r * M) r c = 0 := by
  have hν : ((pairNorm (M c c) (M r c) : ℝ) : ℂ) ≠ 0 := by exact_mod_cast h
  rw [givens_mul_row_r M hcr]; unfold gA gB; field_simp; ring

/-- the pivot becomes the norm: `(R·M)[col, col] = norm` (a positive real). -/
theorem givens_mul_pivot (M : Mat N) {c r : Fin N} (hcr : c ≠ r)
    (h : pairNorm (M c c) (M r c) ≠ 0) :
    (givens M c r * M) c c = ((pairNorm (M c c) (M r c) : ℝ) : ℂ) := by
  have hν : ((pairNorm (M c c) (M r c) : ℝ) : ℂ) ≠ 0 := by exact_mod_cast h
  have h1 := gA_gB_unit M c r h
  rw [givens_mul_row_c M hcr]
  have e1 : M c c = gA M c r * ((pairNorm (M c c) (M r c) : ℝ) : ℂ) := by
    unfold gA; field_simp
  have e2 : M r c = gB M c r * ((pairNorm (M c c) (M r c) : ℝ) : ℂ) := by
    unfold gB; field_simp
  calc star (gA M c r) * M c c + star (gB M c r) * M r c
      = star (gA M c r) * (gA M c r * ((pairNorm (M c c) (M r c) : ℝ) : ℂ))
        + star (gB M c r) * (gB M c r * ((pairNorm (M c c) (M r c) : ℝ) : ℂ)) := by
          rw [← e1, ← e2]
    _ = (star (gA M c r) * gA M c r + star (gB M c r) * gB M c r)
          * ((pairNorm (M c c) (M r c) : ℝ) : ℂ) := by ring
    _ = _ := by rw [h1, one_mul]

end Qclib.QrFull
