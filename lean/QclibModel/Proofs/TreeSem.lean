import QclibModel.Proofs.TreeRoute
import QclibModel.Proofs.TreeAlloc
import Mathlib.Tactic.Ring
/-
  C11: closed form of the amplitudes produced by `bottom_up` on a whole tree (every level
  processed, as in `DcspInitialize`), in the amplitude-function semantics, for all tree shapes:

      sem (bottomUp o sl lvl t) ψ b = treeAmp o t b * ψ (clr (treeWires t) b)

  for every state `ψ` that vanishes whenever a wire of the tree is set (tree wires start in |0⟩;
  all other wires — spectators — are arbitrary, superpositions included).
-/
namespace Qclib
open RotSem

/-- Number of levels of a tree. -/
def BT.depth {α : Type} : BT α → Nat
  | .nil => 0
  | .node _ l r => max l.depth r.depth + 1

/-- `ψ` vanishes on every label in which some wire of `ws` is set. -/
def ZeroOn {R : Type} [Zero R] (ws : List Nat) (ψ : State R) : Prop :=
  ∀ b, (∃ w ∈ ws, b w = true) → ψ b = 0

section Labels

theorem clr_nil (b : Bits) : clr [] b = b := by
  funext i; simp [clr]

theorem clr_mem (ws : List Nat) (b : Bits) {i : Nat} (h : i ∈ ws) : clr ws b i = false := by
  simp [clr, h]

theorem clr_not_mem (ws : List Nat) (b : Bits) {i : Nat} (h : i ∉ ws) : clr ws b i = b i := by
  simp [clr, h]

theorem swapPairs_congr (S : Nat → Prop) : ∀ (ps : List (Nat × Nat)) (b b' : Bits),
    (∀ p ∈ ps, S p.1 ∧ S p.2) → (∀ w, S w → b w = b' w) →
    ∀ w, S w → swapPairs ps b w = swapPairs ps b' w
  | [], _, _, _, h, w, hw => h w hw
  | (x, y) :: ps, b, b', hS, h, w, hw => by
    have ih := swapPairs_congr S ps b b' (fun p hp => hS p (List.mem_cons_of_mem _ hp)) h
    have hxy := hS (x, y) (List.mem_cons_self ..)
    simp only [swapPairs, swapBits]
    by_cases h1 : w = x
    · simp only [h1, if_true]; exact ih y hxy.2
    · by_cases h2 : w = y
      · simp only [h2, if_true]
        split
        · exact ih y hxy.2
        · exact ih x hxy.1
      · simp only [h1, h2, if_false]; exact ih w hw

end Labels

section Wires
variable {Θ : Type}

theorem treeWires_nil : treeWires (.nil : BT (QV Θ)) = [] := rfl

theorem treeWires_node (v : QV Θ) (l r : BT (QV Θ)) :
    treeWires (.node v l r) = wire v.q :: (treeWires l ++ treeWires r) := by
  simp [treeWires, BT.preorder]

theorem leftmost_wires (t : BT (QV Θ)) : ∀ w ∈ treeWires (BT.leftmost t), w ∈ treeWires t := by
  cases t with
  | nil => intro w h; exact h
  | node v l r =>
    intro w h
    rw [treeWires_node]
    simp only [BT.leftmost] at h
    split at h
    · exact List.mem_cons_of_mem _ (List.mem_append_right _ h)
    · exact List.mem_cons_of_mem _ (List.mem_append_left _ h)

theorem chainPairs_wires : ∀ (l r : BT (QV Θ)) (p : Nat × Nat), p ∈ chainPairs l r →
    p.1 ∈ treeWires l ∧ p.2 ∈ treeWires r
  | .nil, _, p, h => by simp [chainPairs] at h
  | .node .., .nil, p, h => by simp [chainPairs] at h
  | .node vl ll lr, .node vr rl rr, p, h => by
    simp only [chainPairs, List.mem_cons] at h
    rcases h with rfl | h
    · exact ⟨by simp [treeWires_node], by simp [treeWires_node]⟩
    · obtain ⟨h1, h2⟩ := chainPairs_wires ll (BT.leftmost (.node vr rl rr)) p h
      exact ⟨by rw [treeWires_node]; exact List.mem_cons_of_mem _ (List.mem_append_left _ h1),
        leftmost_wires _ _ h2⟩

variable (o : TOps Θ)

/-- The relabelling of a node's swap network only moves wires of the two children. -/
theorem cswapPerm_outside (v : QV Θ) (l r : BT (QV Θ)) (b : Bits) (w : Nat)
    (hl : w ∉ treeWires l) (hr : w ∉ treeWires r) :
    cswapPerm o (.node v l r) b w = b w := by
  simp only [cswapPerm]
  split
  · apply swapPairs_other
    intro p hp
    obtain ⟨h1, h2⟩ := chainPairs_wires l r p hp
    exact ⟨fun h => hl (h ▸ h1), fun h => hr (h ▸ h2)⟩
  · rfl

/-- … and what it puts on the children's wires depends only on the node's bit and the
children's wires. -/
theorem cswapPerm_congr (v : QV Θ) (l r : BT (QV Θ)) (b b' : Bits)
    (hq : b (wire v.q) = b' (wire v.q))
    (h : ∀ w, (w ∈ treeWires l ∨ w ∈ treeWires r) → b w = b' w) :
    ∀ w, (w ∈ treeWires l ∨ w ∈ treeWires r) →
      cswapPerm o (.node v l r) b w = cswapPerm o (.node v l r) b' w := by
  intro w hw
  simp only [cswapPerm, hq]
  split
  · exact swapPairs_congr (fun w => w ∈ treeWires l ∨ w ∈ treeWires r) _ b b'
      (fun p hp => by
        obtain ⟨h1, h2⟩ := chainPairs_wires l r p hp
        exact ⟨Or.inl h1, Or.inr h2⟩) h w hw
  · exact h w hw

end Wires

section Amp
variable {Θ R : Type} [CommRing R] [RotSem Θ R]
variable (o : TOps Θ)

/-- `treeAmp` reads only the wires of its tree. -/
theorem treeAmp_congr : ∀ (t : BT (QV Θ)) (b b' : Bits), (∀ w ∈ treeWires t, b w = b' w) →
    (treeAmp o t b : R) = treeAmp o t b'
  | .nil, _, _, _ => rfl
  | .node v l r, b, b', h => by
    rw [treeWires_node] at h
    have hq : b (wire v.q) = b' (wire v.q) := h _ (List.mem_cons_self ..)
    have hc := cswapPerm_congr o v l r b b' hq (fun w hw => h w (List.mem_cons_of_mem _ (by
      rcases hw with hw | hw
      · exact List.mem_append_left _ hw
      · exact List.mem_append_right _ hw)))
    simp only [treeAmp]
    rw [treeAmp_congr l _ _ (fun w hw => hc w (Or.inl hw)),
      treeAmp_congr r _ _ (fun w hw => hc w (Or.inr hw))]
    simp only [nodeAmp, hq]

end Amp

section Closed
variable {Θ R : Type} [AddCommGroup Θ] [CommRing R] [RotSem Θ R] [RotLaws Θ R]
variable (o : TOps Θ)

/-- `RY(y); RZ(z)` on a wire that is `|0⟩` (each gate skipped when its angle is exactly 0). -/
theorem sem_nodeRots (hnz : ∀ x, o.neZero x = false → x = 0) (v : QV Θ) (ψ : State R)
    (hz : ∀ b, b (wire v.q) = true → ψ b = 0) (b : Bits) :
    sem (nodeRots o v) ψ b = nodeAmp v b * ψ (setBit b (wire v.q) false) := by
  have hex0 : (exb (0 : Θ) : R) = 1 := by rw [RotLaws.exb_eq, neg_zero, RotLaws.ex_zero]
  have h1 : ψ (setBit b (wire v.q) true) = 0 := hz _ (setBit_eq ..)
  -- after the (optional) RY
  have hry : ∀ b, sem (if o.neZero v.y then [G.ry v.y (wire v.q)] else []) ψ b
      = (if b (wire v.q) then (sn v.y : R) else cs v.y) * ψ (setBit b (wire v.q) false) := by
    intro b
    have h1 : ψ (setBit b (wire v.q) true) = 0 := hz _ (setBit_eq ..)
    cases hy : o.neZero v.y
    · have hy0 := hnz _ hy
      simp only [Bool.false_eq_true, if_false, sem_nil, hy0, RotLaws.sn_zero, RotLaws.cs_zero]
      cases hb : b (wire v.q)
      · simp only [Bool.false_eq_true, if_false, one_mul]; rw [← hb, setBit_self]
      · simp only [if_true, zero_mul]; exact hz b hb
    · simp only [if_true, sem_single, denote, applyMcu, ctrlOk, List.all_nil, matRY, h1]
      cases hb : b (wire v.q) <;> simp
  simp only [nodeRots, sem_append]
  cases hzz : o.neZero v.z
  · have hz0 := hnz _ hzz
    simp only [Bool.false_eq_true, if_false, sem_nil, hry, nodeAmp, hz0, RotLaws.ex_zero, hex0]
    cases b (wire v.q) <;> simp
  · simp only [if_true, sem_single, denote, applyMcu, ctrlOk, List.all_nil, matRZ, hry, nodeAmp,
      setBit_eq, setBit_setBit]
    cases hb : b (wire v.q) <;> simp <;> ring

/-- **Closed form of `bottom_up` on a whole tree.** -/
theorem bottomUp_closed (hnz : ∀ x, o.neZero x = false → x = 0) (sl : Nat) :
    ∀ (t : BT (QV Θ)) (lvl : Nat), lvl + t.depth ≤ sl → (treeWires t).Nodup →
    ∀ (ψ : State R), ZeroOn (treeWires t) ψ → ∀ b,
      sem (bottomUp o sl lvl t) ψ b = treeAmp o t b * ψ (clr (treeWires t) b)
  | .nil, _, _, _, ψ, _, b => by
    simp [bottomUp, sem_nil, treeAmp, treeWires_nil, clr_nil]
  | .node v l r, lvl, hd, hnd, ψ, hZ, b => by
    have hlt : lvl < sl := by simp only [BT.depth] at hd; omega
    have hdl : lvl + 1 + l.depth ≤ sl := by simp only [BT.depth] at hd; omega
    have hdr : lvl + 1 + r.depth ≤ sl := by simp only [BT.depth] at hd; omega
    rw [treeWires_node] at hnd hZ ⊢
    obtain ⟨hq, hlr⟩ := List.nodup_cons.1 hnd
    obtain ⟨hndl, hndr, hdisj⟩ := List.nodup_append.1 hlr
    have hql : wire v.q ∉ treeWires l := fun h => hq (List.mem_append_left _ h)
    have hqr : wire v.q ∉ treeWires r := fun h => hq (List.mem_append_right _ h)
    have hdis : ∀ w, w ∈ treeWires l → w ∉ treeWires r := fun w h1 h2 => hdisj w h1 w h2 rfl
    -- rotations of the node
    have h1 := sem_nodeRots (R := R) o hnz v ψ
      (fun b hb => hZ b ⟨_, List.mem_cons_self .., hb⟩)
    -- Z for the left child
    have hZl : ZeroOn (treeWires l) (sem (nodeRots o v) ψ) := by
      intro b ⟨w, hw, hbw⟩
      rw [h1]
      have : ψ (setBit b (wire v.q) false) = 0 := hZ _ ⟨w, List.mem_cons_of_mem _
        (List.mem_append_left _ hw), by
          rw [setBit_ne _ _ (fun (h : w = wire v.q) => hql (h ▸ hw))]; exact hbw⟩
      rw [this, mul_zero]
    have h2 := bottomUp_closed hnz sl l (lvl+1) hdl hndl _ hZl
    -- Z for the right child
    have hZr : ZeroOn (treeWires r) (sem (bottomUp o sl (lvl+1) l) (sem (nodeRots o v) ψ)) := by
      intro b ⟨w, hw, hbw⟩
      rw [h2, h1]
      have : ψ (setBit (clr (treeWires l) b) (wire v.q) false) = 0 := hZ _ ⟨w,
        List.mem_cons_of_mem _ (List.mem_append_right _ hw), by
          rw [setBit_ne _ _ (fun (h : w = wire v.q) => hqr (h ▸ hw)),
            clr_not_mem _ _ (fun h => hdis w h hw)]; exact hbw⟩
      rw [this, mul_zero, mul_zero]
    have h3 := bottomUp_closed hnz sl r (lvl+1) hdr hndr _ hZr
    -- the swap network
    have hc : ∀ p ∈ chainPairs l r, p.1 ≠ wire v.q ∧ p.2 ≠ wire v.q := by
      intro p hp
      obtain ⟨p1, p2⟩ := chainPairs_wires l r p hp
      exact ⟨fun h => hql (h ▸ p1), fun h => hqr (h ▸ p2)⟩
    simp only [bottomUp, hlt, if_true, sem_append]
    rw [sem_applyCswaps o v l r hc, h3, h2, h1]
    -- tidy up
    let π := cswapPerm o (.node v l r) b
    have hπq : π (wire v.q) = b (wire v.q) := cswapPerm_outside o v l r b _ hql hqr
    have e1 : (treeAmp o l (clr (treeWires r) π) : R) = treeAmp o l π :=
      treeAmp_congr o l _ _ (fun w hw => clr_not_mem _ _ (hdis w hw))
    have e2 : (nodeAmp v (clr (treeWires l) (clr (treeWires r) π)) : R) = nodeAmp v b := by
      simp only [nodeAmp]
      rw [clr_not_mem _ _ hql, clr_not_mem _ _ hqr, hπq]
    have e3 : setBit (clr (treeWires l) (clr (treeWires r) π)) (wire v.q) false
        = clr (wire v.q :: (treeWires l ++ treeWires r)) b := by
      funext i
      by_cases hi : i = wire v.q
      · subst hi; rw [setBit_eq, clr_mem _ _ (List.mem_cons_self ..)]
      · rw [setBit_ne _ _ hi]
        by_cases hil : i ∈ treeWires l
        · rw [clr_mem _ _ hil,
            clr_mem _ _ (List.mem_cons_of_mem _ (List.mem_append_left _ hil))]
        · rw [clr_not_mem _ _ hil]
          by_cases hir : i ∈ treeWires r
          · rw [clr_mem _ _ hir,
              clr_mem _ _ (List.mem_cons_of_mem _ (List.mem_append_right _ hir))]
          · rw [clr_not_mem _ _ hir, clr_not_mem _ _ (by
              simp only [List.mem_cons, List.mem_append]; tauto)]
            exact cswapPerm_outside o v l r b i hil hir
    show treeAmp o r π * (treeAmp o l (clr (treeWires r) π)
        * (nodeAmp v (clr (treeWires l) (clr (treeWires r) π))
          * ψ (setBit (clr (treeWires l) (clr (treeWires r) π)) (wire v.q) false))) = _
    rw [e1, e2, e3]
    simp only [treeAmp]
    ring

#print axioms bottomUp_closed

end Closed
end Qclib
