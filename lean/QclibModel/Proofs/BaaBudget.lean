import QclibModel.Spec.Baa
import QclibModel.Proofs.BaaTree
import Mathlib.Tactic.Ring
import Mathlib.Tactic.Linarith
/-
  C08, loss bookkeeping over an ordered commutative ring: every reachable node is within the
  budget, its accounted loss is `1 − ∏(1 − l_i)` along its path, the `l_i` are oracle answers; with
  budget 0 every loss on the path is 0.
-/
namespace Qclib.Baa

variable {K : Type} [CommRing K] [LinearOrder K] [IsStrictOrderedRing K]

omit [IsStrictOrderedRing K] in
theorem compose_ordered (a b : K) : compose (orderedOps K) a b = 1 - (1 - a) * (1 - b) := rfl

theorem reduceEntanglement_loss {α : Type} (O : Oracle α) (vec : Nat) (reg part : List Nat)
    (u : Bool) (e : EInfo α) (h : e ∈ reduceEntanglement O vec reg part u) :
    ∃ s ∈ O.schmidt vec (localPartition reg part) u, e.loss = s.loss ∧ e.rank = s.rank := by
  unfold reduceEntanglement at h
  obtain ⟨s, hs, rfl⟩ := List.mem_map.mp h
  exact ⟨s, hs, rfl, rfl⟩

omit [IsStrictOrderedRing K] in
/-- A child's loss is the composition of the oracle answer with the parent's loss, it is what the
guard compared with the budget, and the node loss is an oracle answer. -/
theorem childOf_loss (O : Oracle K) (P : Params K) (nd c : Node K)
    (h : ChildOf (orderedOps K) O P nd c) :
    c.totalLoss = 1 - (1 - c.nodeLoss) * (1 - nd.totalLoss) ∧ c.totalLoss ≤ P.maxLoss ∧
    ∃ vec lp u, ∃ s ∈ O.schmidt vec lp u, c.nodeLoss = s.loss := by
  obtain ⟨ent, part, e, k0, _, _, _, he, hle, hcn, _⟩ := h
  obtain ⟨_, _, _, _, _, _, _, hnl, htl, _⟩ := createNode_some _ O nd c e hcn
  obtain ⟨s, hs, hls, _⟩ := reduceEntanglement_loss O _ _ _ _ e he
  refine ⟨by rw [htl, hnl]; rfl, ?_, _, _, _, s, hs, by rw [hnl, hls]⟩
  rw [htl]
  simpa [orderedOps] using hle

omit [IsStrictOrderedRing K] in
theorem reach_budget (O : Oracle K) (P : Params K) (n vec k0 : Nat) (h0 : 0 ≤ P.maxLoss)
    (path : List (Node K)) (nd : Node K) (k : Nat)
    (h : Reach (orderedOps K) O P (rootNode (orderedOps K) n vec) k0 path nd k) :
    nd.totalLoss ≤ P.maxLoss :=
  Reach.induct (fun _ nd => nd.totalLoss ≤ P.maxLoss) (by simpa [rootNode, orderedOps] using h0)
    (fun _ nd c _ hc => (childOf_loss O P nd c hc).2.1) h

omit [LinearOrder K] [IsStrictOrderedRing K] in
theorem chainLoss_cons (l : K) (ls : List K) :
    chainLoss (l :: ls) = 1 - (1 - l) * (1 - chainLoss ls) := by
  simp only [chainLoss, List.map_cons, List.prod_cons]
  ring

omit [IsStrictOrderedRing K] in
theorem reach_chain (O : Oracle K) (P : Params K) (n vec k0 : Nat)
    (path : List (Node K)) (nd : Node K) (k : Nat)
    (h : Reach (orderedOps K) O P (rootNode (orderedOps K) n vec) k0 path nd k) :
    nd.totalLoss = chainLoss (path.map (·.nodeLoss)) ∧
    (∀ x ∈ path, x = rootNode (orderedOps K) n vec ∨
      ∃ v lp u, ∃ s ∈ O.schmidt v lp u, x.nodeLoss = s.loss) := by
  refine Reach.induct (fun path nd => nd.totalLoss = chainLoss (path.map (·.nodeLoss)) ∧
    (∀ x ∈ path, x = rootNode (orderedOps K) n vec ∨
      ∃ v lp u, ∃ s ∈ O.schmidt v lp u, x.nodeLoss = s.loss)) ?_ ?_ h
  · refine ⟨?_, fun x hx => Or.inl (by simpa using hx)⟩
    simp [rootNode, orderedOps, chainLoss]
  · intro path nd c hi hc
    obtain ⟨h1, _, h3⟩ := childOf_loss O P nd c hc
    refine ⟨?_, ?_⟩
    · rw [List.map_cons, chainLoss_cons, ← hi.1, h1]
    · intro x hx
      rcases List.mem_cons.mp hx with rfl | hx
      · exact Or.inr h3
      · exact hi.2 x hx

/-- `chainLoss` of losses in `[0,1]` is in `[0,1]`. -/
theorem chainLoss_mem_unit (ls : List K) (h : ∀ l ∈ ls, 0 ≤ l ∧ l ≤ 1) :
    0 ≤ chainLoss ls ∧ chainLoss ls ≤ 1 := by
  induction ls with
  | nil => simp [chainLoss]
  | cons l ls ih =>
    have hl := h l (by simp)
    have := ih (fun x hx => h x (by simp [hx]))
    rw [chainLoss_cons]
    have h1 : 0 ≤ (1 - l) * (1 - chainLoss ls) := mul_nonneg (by linarith) (by linarith)
    have h2 : (1 - l) * (1 - chainLoss ls) ≤ 1 * 1 :=
      mul_le_mul (by linarith) (by linarith) (by linarith) (by linarith)
    constructor <;> linarith

omit [IsStrictOrderedRing K] in
/-- Budget 0 and non-negative oracle losses: every loss on the path, and the total, is 0. -/
theorem reach_zero (O : Oracle K) (P : Params K) (n vec k0 : Nat) (hP : P.maxLoss = 0)
    (hO : ∀ v lp u, ∀ s ∈ O.schmidt v lp u, 0 ≤ s.loss)
    (path : List (Node K)) (nd : Node K) (k : Nat)
    (h : Reach (orderedOps K) O P (rootNode (orderedOps K) n vec) k0 path nd k) :
    nd.totalLoss = 0 ∧ ∀ x ∈ path, x.nodeLoss = 0 := by
  refine Reach.induct (fun path nd => nd.totalLoss = 0 ∧ ∀ x ∈ path, x.nodeLoss = 0) ?_ ?_ h
  · refine ⟨rfl, fun x hx => ?_⟩
    simp only [List.mem_singleton] at hx
    subst hx
    rfl
  · intro path nd c hi hc
    obtain ⟨h1, h2, v, lp, u, s, hs, h3⟩ := childOf_loss O P nd c hc
    have hs0 := hO v lp u s hs
    rw [hi.1] at h1
    have hc0 : c.nodeLoss = 0 := by
      have : c.totalLoss = c.nodeLoss := by rw [h1]; ring
      rw [hP, this] at h2
      rw [← h3] at hs0
      exact le_antisymm h2 hs0
    refine ⟨by rw [h1, hc0]; ring, ?_⟩
    intro x hx
    rcases List.mem_cons.mp hx with rfl | hx
    · exact hc0
    · exact hi.2 x hx

end Qclib.Baa
