import QclibModel.Proofs.TreeUcrW
import QclibModel.Proofs.TreeSplitSem
import QclibModel.Proofs.TreeTopDown
/-
  C11: the top-down multiplexer cascade on one chain block prepares `chainAmp` (`ChainSem`).
  Level `d` of the block is one `levelMux` (C13 placed on the chain wires, `levelMux_rep`) acting
  on the `d`-th chain wire, controlled by the chain wires above it, first wire = most significant.
-/
namespace Qclib
open RotSem

/-! ### Index arithmetic -/

theorem idxMsb_append (cs : List Nat) (c : Nat) (b : Bits) :
    idxMsb (cs ++ [c]) b = 2 * idxMsb cs b + (if b c then 1 else 0) := by
  induction cs with
  | nil => simp [idxMsb]
  | cons x cs ih =>
    simp only [List.cons_append, idxMsb, ih, List.length_append, List.length_cons, List.length_nil,
      Nat.pow_succ]
    split <;> omega

theorem idxMsb_lt (cs : List Nat) (b : Bits) : idxMsb cs b < 2^cs.length := by
  induction cs with
  | nil => simp [idxMsb]
  | cons x cs ih =>
    simp only [idxMsb, List.length_cons, Nat.pow_succ]
    split <;> omega

theorem idxMsb_congr (cs : List Nat) (b b' : Bits) (h : ∀ c ∈ cs, b c = b' c) :
    idxMsb cs b = idxMsb cs b' := by
  induction cs with
  | nil => rfl
  | cons x cs ih =>
    simp only [idxMsb, h x (List.mem_cons_self ..),
      ih (fun c hc => h c (List.mem_cons_of_mem _ hc))]

theorem getD_mem' {α : Type} (d : α) : ∀ (l : List α) (j : Nat), j < l.length → l.getD j d ∈ l
  | [], j, h => by simp at h
  | x :: xs, 0, _ => by simp
  | x :: xs, j+1, h => by
    simp only [List.getD_cons_succ]
    exact List.mem_cons_of_mem _ (getD_mem' d xs j (by simpa using h))

theorem children_getD {α : Type} (h : Nat) : ∀ (ts : List (BT α)),
    (∀ x ∈ ts, complete (h+2) x) → ∀ j, j < ts.length →
    (children ts).getD (2*j) .nil = (ts.getD j .nil).left
      ∧ (children ts).getD (2*j+1) .nil = (ts.getD j .nil).right
  | [], _, j, hj => by simp at hj
  | t :: ts, hc, j, hj => by
    rw [children_cons_complete h t ts (hc t (List.mem_cons_self ..))]
    cases j with
    | zero => simp
    | succ j =>
      have ih := children_getD h ts (fun x hx => hc x (List.mem_cons_of_mem _ hx)) j
        (by simpa using hj)
      rw [show 2 * (j + 1) = 2 * j + 1 + 1 by omega, show 2 * j + 1 + 1 + 1 = (2 * j + 1) + 1 + 1 by omega]
      simp only [List.getD_cons_succ]
      exact ih

/-! ### One level -/

section
variable {Θ R : Type} [AddCommGroup Θ] [CommRing R] [RotSem Θ R] [RotLaws Θ R]

theorem applyFam_zero_target (f : Bits → Mat2 R) (q : Nat) (ψ : State R)
    (hz : ∀ b, b q = true → ψ b = 0) (b : Bits) :
    applyFam f q ψ b = (if b q then (f b).c else (f b).a) * ψ (setBit b q false) := by
  have h1 : ψ (setBit b q true) = 0 := hz _ (setBit_eq ..)
  simp only [applyFam, h1]
  cases b q <;> simp

theorem rotZY_entries (y z : Θ) (x : Bool) :
    (if x then ((rotMat Axis.Z z * rotMat Axis.Y y : Mat2 R)).c
      else ((rotMat Axis.Z z * rotMat Axis.Y y : Mat2 R)).a)
      = if x then (sn y : R) * ex z else cs y * exb z := by
  cases x <;> simp [rotMat, matRZ, matRY, Mat2.mul_a, Mat2.mul_c] <;> ring

variable (o : TOps Θ) (half : Θ → Θ) (negl : Θ → Bool)

/-- The cascade from an inner chain node downwards. -/
theorem chain_general (haops : o.aops = stdOps half negl)
    (hhalf : ∀ a, half a + half a = a) (hadd : ∀ a b, half (a + b) = half a + half b)
    (hnegl : ∀ a, negl a = true → a = 0)
    (hnz : ∀ x, o.neZero x = false → x = 0) (hzero : o.zero = 0) :
    ∀ (h : Nat) (t : BT (QV Θ)) (ctrl : List Nat) (rest : List (BT (QV Θ))),
    (∀ x ∈ t :: rest, complete h x) → (t :: rest).length = 2^ctrl.length →
    (ctrl ++ leftSpine t).Nodup →
    ∀ (ψ : State R), ZeroOn (leftSpine t) ψ → ∀ b,
      sem (topDownChain o t ctrl (t :: rest)) ψ b
        = chainAmp (leftSpine t) ((t :: rest).getD (idxMsb ctrl b) .nil) b
          * ψ (clr (leftSpine t) b)
  | 0, .nil, _, _, _, _, _, ψ, _, b => by
    simp [topDownChain, sem_nil, leftSpine, chainAmp, clr_nil]
  | 0, .node .., _, _, hc, _, _, _, _, _ => by
    have := hc _ (List.mem_cons_self ..); simp [complete] at this
  | h+1, .nil, _, _, hc, _, _, _, _, _ => by
    have := hc _ (List.mem_cons_self ..); simp [complete] at this
  | h+1, .node v l r, ctrl, rest, hc, hlen, hnd, ψ, hZ, b => by
    let d : QV Θ := ⟨o.zero, o.zero, none⟩
    let q := wire v.q
    have hsp : leftSpine (.node v l r) = q :: leftSpine l := rfl
    rw [hsp] at hnd hZ ⊢
    obtain ⟨hndc, hndq, hdisj⟩ := List.nodup_append.1 hnd
    obtain ⟨hqL, hndL⟩ := List.nodup_cons.1 hndq
    have hctrlq : ∀ c ∈ ctrl, c ≠ q := fun c hc' => hdisj c hc' q (List.mem_cons_self ..)
    have hctrlL : ∀ c ∈ ctrl, c ∉ leftSpine l := fun c hc' hcl =>
      hdisj c hc' c (List.mem_cons_of_mem _ hcl) rfl
    -- the selected target
    let sel : Bits → BT (QV Θ) := fun b => (BT.node v l r :: rest).getD (idxMsb ctrl b) .nil
    have hsel : ∀ b, complete (h+1) (sel b) := by
      intro b
      have hlt : idxMsb ctrl b < (BT.node v l r :: rest).length := by
        rw [hlen]; exact idxMsb_lt _ _
      have : sel b ∈ BT.node v l r :: rest := by
        show (BT.node v l r :: rest).getD (idxMsb ctrl b) .nil ∈ _
        exact getD_mem' _ _ _ hlt
      exact hc _ this
    -- the level multiplexer
    have hrep := levelMux_rep (R := R) o half negl haops hhalf hadd hnegl hnz hzero q ctrl hctrlq
      (.node v l r) rest rfl hlen
    have hz1 : ∀ b, b q = true → ψ b = 0 := fun b hb => hZ b ⟨q, List.mem_cons_self .., hb⟩
    have h1 : ∀ b, sem (levelMux o ctrl (BT.node v l r :: rest)) ψ b
        = nodeAmpW q ((sel b).valD d) b * ψ (setBit b q false) := by
      intro b
      rw [hrep.2 ψ, applyFam_zero_target _ _ _ hz1, idx_eq_idxMsb, rotZY_entries]
      rfl
    simp only [topDownChain, sem_append]
    cases h with
    | zero =>
      -- last level: no further multiplexers
      have hl0 := (complete_zero_iff l).1 (hc _ (List.mem_cons_self ..)).1
      subst hl0
      simp only [topDownChain, sem_nil, leftSpine]
      rw [h1 b]
      obtain ⟨vj, lj, rj, hj, -, -⟩ := (complete_succ_iff 0 (sel b)).1 (hsel b)
      have hj' : (BT.node v .nil r :: rest).getD (idxMsb ctrl b) .nil = .node vj lj rj := hj
      rw [hj']
      have hv : (sel b).valD d = vj := by rw [hj]; rfl
      rw [hv]
      have hclr : clr [q] b = setBit b q false := by
        funext i; by_cases hi : i = q <;> simp [clr, setBit, hi]
      simp only [chainAmp, hclr]
      cases b q <;> simp
    | succ h =>
      -- recurse into the left child with one more control
      have hcl : complete (h+1) l := (hc _ (List.mem_cons_self ..)).1
      have hcons := children_cons_complete h (.node v l r) rest (hc _ (List.mem_cons_self ..))
      obtain ⟨hall, hlen2⟩ := children_complete_succ h (.node v l r :: rest) hc
      simp only [BT.left, BT.right] at hcons
      rw [hcons] at hall hlen2 ⊢
      have hlen' : (l :: r :: children rest).length = 2^(ctrl ++ [q]).length := by
        rw [hlen2, hlen, List.length_append, List.length_singleton, Nat.pow_succ]; omega
      have hnd' : ((ctrl ++ [q]) ++ leftSpine l).Nodup := by
        rw [List.append_assoc, List.singleton_append]; exact hnd
      have hZ1 : ZeroOn (leftSpine l) (sem (levelMux o ctrl (BT.node v l r :: rest)) ψ) := by
        intro b ⟨w, hw, hbw⟩
        rw [h1 b, hZ _ ⟨w, List.mem_cons_of_mem _ hw, by
          rw [setBit_ne _ _ (fun (h : w = q) => hqL (h ▸ hw))]; exact hbw⟩, mul_zero]
      have ih := chain_general haops hhalf hadd hnegl hnz hzero (h+1) l (ctrl ++ [q])
        (r :: children rest) hall hlen' hnd' _ hZ1 b
      rw [ih, h1]
      -- index bookkeeping
      have hj : idxMsb ctrl (clr (leftSpine l) b) = idxMsb ctrl b :=
        idxMsb_congr _ _ _ (fun c hc' => clr_not_mem _ _ (hctrlL c hc'))
      have hsel' : sel (clr (leftSpine l) b) = sel b := by
        show (BT.node v l r :: rest).getD _ .nil = (BT.node v l r :: rest).getD _ .nil
        rw [hj]
      have hlt : idxMsb ctrl b < (BT.node v l r :: rest).length := by
        rw [hlen]; exact idxMsb_lt _ _
      obtain ⟨hc0, hc1⟩ := children_getD h (.node v l r :: rest) hc _ hlt
      rw [hcons] at hc0 hc1
      obtain ⟨vj, lj, rj, hjn, -, -⟩ := (complete_succ_iff (h+1) (sel b)).1 (hsel b)
      have hjn' : (BT.node v l r :: rest).getD (idxMsb ctrl b) .nil = .node vj lj rj := hjn
      rw [hjn'] at hc0 hc1
      simp only [BT.left, BT.right] at hc0 hc1
      have hv : (sel b).valD d = vj := by rw [hjn]; rfl
      have hamp : (nodeAmpW q ((sel (clr (leftSpine l) b)).valD d) (clr (leftSpine l) b) : R)
          = nodeAmpW q vj b := by
        rw [hsel', hv]
        simp only [nodeAmpW, clr_not_mem _ _ hqL]
      have hlab : setBit (clr (leftSpine l) b) q false = clr (q :: leftSpine l) b := by
        funext i
        by_cases hi : i = q
        · subst hi; rw [setBit_eq, clr_mem _ _ (List.mem_cons_self ..)]
        · rw [setBit_ne _ _ hi]
          by_cases hil : i ∈ leftSpine l
          · rw [clr_mem _ _ hil, clr_mem _ _ (List.mem_cons_of_mem _ hil)]
          · rw [clr_not_mem _ _ hil, clr_not_mem _ _ (by
              simp only [List.mem_cons]; tauto)]
      rw [hamp, hlab, idxMsb_append, hjn']
      simp only [chainAmp]
      cases hb : b q
      · simp only [Bool.false_eq_true, if_false, Nat.add_zero, hc0]; ring
      · simp only [if_true, hc1]; ring

/-- **`ChainSem`**: the top-down cascade on a complete chain block prepares `chainAmp`. -/
theorem chainSem (haops : o.aops = stdOps half negl)
    (hhalf : ∀ a, half a + half a = a) (hadd : ∀ a b, half (a + b) = half a + half b)
    (hnegl : ∀ a, negl a = true → a = 0)
    (hnz : ∀ x, o.neZero x = false → x = 0) (hzero : o.zero = 0) : ChainSem o R := by
  intro h t hc hnd ψ0 hZ b
  have := chain_general (R := R) o half negl haops hhalf hadd hnegl hnz hzero h t [] []
    (by intro x hx; rw [List.mem_singleton.1 hx]; exact hc) (by simp) (by simpa using hnd) ψ0 hZ b
  simpa [idxMsb] using this

#print axioms chainSem

end
end Qclib
