import QclibModel.Proofs.RotReal
import QclibModel.Proofs.PqmProof
namespace Qclib
open Complex

/-! ### Helper facts about the concrete rotation semantics `RotSem ℝ ℂ` -/

private theorem ex_sq_real (θ : ℝ) :
    (RotSem.ex θ : ℂ) * RotSem.ex θ = Complex.exp ((θ : ℂ) * Complex.I) := by
  show Complex.exp (((θ / 2 : ℝ) : ℂ) * Complex.I) * Complex.exp (((θ / 2 : ℝ) : ℂ) * Complex.I)
    = Complex.exp ((θ : ℂ) * Complex.I)
  rw [← Complex.exp_add]; congr 1; push_cast; ring

private theorem rh_sq_real : (RotSem.rh ℝ : ℂ) * RotSem.rh ℝ = 1 / 2 := by
  have h := (instRotLawsReal).rh_sq
  have h2 : (2 : ℂ) ≠ 0 := two_ne_zero
  rw [eq_div_iff h2, mul_comm]; exact h

/-- `z0 = (e^{-iπ/2n})^d = cos x - i sin x`, `x = π d / 2n`. -/
private theorem pqm_z0 (n : Nat) (hn : 0 < n) (d : Nat) :
    ((RotSem.ex (-(Real.pi / (2 * n)) : ℝ) : ℂ) * RotSem.ex (-(Real.pi / (2 * n)) : ℝ)) ^ d
      = (Real.cos (Real.pi * d / (2 * n)) : ℂ) - (Real.sin (Real.pi * d / (2 * n)) : ℂ) * Complex.I := by
  have hn' : (n : ℂ) ≠ 0 := by exact_mod_cast hn.ne'
  rw [ex_sq_real, ← Complex.exp_nat_mul]
  have : (d : ℂ) * (((-(Real.pi / (2 * n)) : ℝ) : ℂ) * Complex.I)
      = (((-(Real.pi * d / (2 * n)) : ℝ)) : ℂ) * Complex.I := by
    push_cast; field_simp
  rw [this, Complex.exp_mul_I, ← Complex.ofReal_cos, ← Complex.ofReal_sin, Real.cos_neg,
    Real.sin_neg]
  push_cast; ring

/-- `z1 = (e^{-iπ/2n}·e^{iπ/n})^d = cos x + i sin x`. -/
private theorem pqm_z1 (n : Nat) (hn : 0 < n) (d : Nat) :
    (((RotSem.ex (-(Real.pi / (2 * n)) : ℝ) : ℂ) * RotSem.ex (-(Real.pi / (2 * n)) : ℝ))
        * ((RotSem.ex (Real.pi / n : ℝ) : ℂ) * RotSem.ex (Real.pi / n : ℝ))) ^ d
      = (Real.cos (Real.pi * d / (2 * n)) : ℂ) + (Real.sin (Real.pi * d / (2 * n)) : ℂ) * Complex.I := by
  have hn' : (n : ℂ) ≠ 0 := by exact_mod_cast hn.ne'
  rw [ex_sq_real, ex_sq_real, ← Complex.exp_add, ← Complex.exp_nat_mul]
  have : (d : ℂ) * ((((-(Real.pi / (2 * n)) : ℝ)) : ℂ) * Complex.I
        + ((Real.pi / n : ℝ) : ℂ) * Complex.I)
      = (((Real.pi * d / (2 * n) : ℝ)) : ℂ) * Complex.I := by
    push_cast; field_simp; ring
  rw [this, Complex.exp_mul_I, ← Complex.ofReal_cos, ← Complex.ofReal_sin]

/-- With `θm = -π/(2n)`, `θc = π/n` and the auxiliary initially `|0⟩` (`ψ` vanishes on labels with
the auxiliary bit set): the output amplitude on `aux = 0` is `cos(π d/2n)·ψ b`. -/
theorem pqm_amp0 (n : Nat) (hn : 0 < n) (classical : Bool) (pattern : Nat → Bool)
    (mem pat : Nat → Nat) (aux : Nat) (hw : PqmWires n mem pat aux) (ψ : State ℂ)
    (haux : ∀ b, b aux = true → ψ b = 0) (b : Bits) (hb : b aux = false) :
    sem (pqm n classical pattern mem pat aux (-(Real.pi / (2 * n)) : ℝ) (Real.pi / n : ℝ)) ψ b
      = (Real.cos (Real.pi * (pqmDist n classical pattern mem pat b) / (2 * n)) : ℂ) * ψ b := by
  rw [pqm_correct n classical pattern mem pat aux hw]
  have h1 : ψ (setBit b aux true) = 0 := haux _ (setBit_eq b aux true)
  have h0 : setBit b aux false = b := by rw [← hb, setBit_self]
  simp only [pqmIdeal, hb, h0, h1, pqm_z0 n hn, pqm_z1 n hn, rh_sq_real]
  simp only [Bool.false_eq_true, if_false, mul_zero, add_zero]
  ring

/-- … and on `aux = 1` it is `-i·sin(π d/2n)·ψ b`. -/
theorem pqm_amp1 (n : Nat) (hn : 0 < n) (classical : Bool) (pattern : Nat → Bool)
    (mem pat : Nat → Nat) (aux : Nat) (hw : PqmWires n mem pat aux) (ψ : State ℂ)
    (haux : ∀ b, b aux = true → ψ b = 0) (b : Bits) (hb : b aux = false) :
    sem (pqm n classical pattern mem pat aux (-(Real.pi / (2 * n)) : ℝ) (Real.pi / n : ℝ)) ψ
        (setBit b aux true)
      = -Complex.I * (Real.sin (Real.pi * (pqmDist n classical pattern mem pat b) / (2 * n)) : ℂ)
          * ψ b := by
  rw [pqm_correct n classical pattern mem pat aux hw]
  have h1 : ψ (setBit b aux true) = 0 := haux _ (setBit_eq b aux true)
  have h0 : setBit b aux false = b := by rw [← hb, setBit_self]
  simp only [pqmIdeal, setBit_eq, setBit_setBit, pqmDist_setBit_aux hw, h0, h1, pqm_z0 n hn,
    pqm_z1 n hn, rh_sq_real]
  simp only [if_true, mul_zero, add_zero]
  ring

end Qclib
