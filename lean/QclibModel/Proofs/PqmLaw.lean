import QclibModel.Proofs.RotReal
import QclibModel.Proofs.PqmProof
namespace Qclib
open Complex

/-- With `θm = -π/(2n)`, `θc = π/n` and the auxiliary initially `|0⟩` (`ψ` vanishes on labels with
the auxiliary bit set): the output amplitude on `aux = 0` is `cos(π d/2n)·ψ b`. -/
theorem pqm_amp0 (n : Nat) (hn : 0 < n) (classical : Bool) (pattern : Nat → Bool)
    (mem pat : Nat → Nat) (aux : Nat) (hw : PqmWires n mem pat aux) (ψ : State ℂ)
    (haux : ∀ b, b aux = true → ψ b = 0) (b : Bits) (hb : b aux = false) :
    sem (pqm n classical pattern mem pat aux (-(Real.pi / (2 * n)) : ℝ) (Real.pi / n : ℝ)) ψ b
      = (Real.cos (Real.pi * (pqmDist n classical pattern mem pat b) / (2 * n)) : ℂ) * ψ b := by
  sorry

/-- … and on `aux = 1` it is `-i·sin(π d/2n)·ψ b`. -/
theorem pqm_amp1 (n : Nat) (hn : 0 < n) (classical : Bool) (pattern : Nat → Bool)
    (mem pat : Nat → Nat) (aux : Nat) (hw : PqmWires n mem pat aux) (ψ : State ℂ)
    (haux : ∀ b, b aux = true → ψ b = 0) (b : Bits) (hb : b aux = false) :
    sem (pqm n classical pattern mem pat aux (-(Real.pi / (2 * n)) : ℝ) (Real.pi / n : ℝ)) ψ
        (setBit b aux true)
      = -Complex.I * (Real.sin (Real.pi * (pqmDist n classical pattern mem pat b) / (2 * n)) : ℂ)
          * ψ b := by
  sorry

end Qclib
