import QclibModel.Proofs.QrFullSweep
import Mathlib.LinearAlgebra.Matrix.Block
/-
  C02 / QR — the residual `gate` left by the sweep on a UNITARY input, and how `_get_row_col`
  (the first thing `_build_qr_circuit` does with every element of `gate_sequence`) treats it.
-/
namespace Qclib.QrFull
open Matrix

variable {N : ℕ}

/-- an upper-triangular matrix with `M† M = 1` is diagonal. -/
theorem upper_unitary_diag (M : Mat N) (hM : Mᴴ * M = 1) (hlow : ∀ i j : Fin N, j < i → M i j = 0) :
    ∀ i j : Fin N, i ≠ j → M i j = 0 := by
  have hinv : M⁻¹ = Mᴴ := Matrix.inv_eq_left_inv hM
  have : Invertible M := invertibleOfLeftInverse _ _ hM
  have hbt : BlockTriangular M (id : Fin N → Fin N) := fun i j hji => hlow i j hji
  have hbt' := blockTriangular_inv_of_blockTriangular hbt
  rw [hinv] at hbt'
  intro i j hij
  rcases lt_or_gt_of_ne hij with h | h
  · have := hbt' (i := j) (j := i) h
    rw [conjTranspose_apply] at this
    simpa using this
  · exact hlow i j h

theorem diag_entry_normSq (M : Mat N) (hM : Mᴴ * M = 1) (hd : ∀ i j : Fin N, i ≠ j → M i j = 0)
    (c : Fin N) : star (M c c) * M c c = 1 := by
  have h := congrFun (congrFun hM c) c
  rw [Matrix.mul_apply, Matrix.one_apply_eq] at h
  rw [Finset.sum_eq_single c] at h
  · simpa [conjTranspose_apply] using h
  · intro k _ hk; rw [hd k c hk]; simp
  · intro hc; exact absurd (Finset.mem_univ c) hc

/-- **residual of a unitary**: diagonal, `1` in all positions but the last, a unit-modulus number
(the "phase") in the last. -/
theorem final_unitary_diag (U : Mat N) (hU : Uᴴ * U = 1) (h : SweepOk (pairs N) U) :
    (∀ i j : Fin N, i ≠ j → final (pairs N) U i j = 0) ∧
    (∀ c : Fin N, c.val + 1 < N → final (pairs N) U c c = 1) ∧
    (∀ c : Fin N, star (final (pairs N) U c c) * final (pairs N) U c c = 1) := by
  have hun := final_unitary (pairs N) (fun p hp => pairs_ne hp) U h hU
  obtain ⟨hlow, hpos⟩ := final_triangular U h
  have hd := upper_unitary_diag _ hun hlow
  refine ⟨hd, ?_, diag_entry_normSq _ hun hd⟩
  intro c hc
  obtain ⟨x, hx, hxe⟩ := hpos c hc
  have h1 := diag_entry_normSq _ hun hd c
  rw [hxe] at h1 ⊢
  have hs : star ((x : ℝ) : ℂ) = ((x : ℝ) : ℂ) := Complex.conj_ofReal x
  rw [hs] at h1
  have h2 : x * x = 1 := by exact_mod_cast h1
  have h3 : x = 1 := by nlinarith
  rw [h3]; simp

/-! ### `_get_row_col` -/

/-- the scan order of `_get_row_col`: `for row_idx in range(N): for col_idx in range(row_idx)`;
entries are `(row, col)`. -/
def scanOrder (N : ℕ) : List (Fin N × Fin N) :=
  (List.finRange N).flatMap (fun r => ((List.finRange N).filter (fun c => c < r)).map (fun c => (r, c)))

theorem mem_scanOrder {p : Fin N × Fin N} : p ∈ scanOrder N ↔ p.2 < p.1 := by
  obtain ⟨r, c⟩ := p
  simp only [scanOrder, List.mem_flatMap, List.mem_filter, List.mem_finRange,
    List.mem_map, true_and, decide_eq_true_eq, Prod.mk.injEq]
  constructor
  · rintro ⟨a, b, hb, rfl, rfl⟩; exact hb
  · intro h; exact ⟨r, c, h, rfl, rfl⟩

open Classical in
/-- `_get_row_col`'s search: the LAST below-diagonal position (in scan order) whose entry is
`!= 0` and `!= 1`; `none` when there is none (Python: `col`, `row` stay unbound and
`_row_and_col_qubits(col, n_qubits, row)` raises `UnboundLocalError`).  Returns `(row, col)`. -/
noncomputable def getRowCol (G : Mat N) : Option (Fin N × Fin N) :=
  ((scanOrder N).filter (fun p => decide (G p.1 p.2 ≠ 0 ∧ G p.1 p.2 ≠ 1))).getLast?

/-- the 2×2 matrix `[[a, c], [b, d]]` that `_get_row_col` returns, re-embedded where the circuit
of C02_qr_orientation puts it (`|0⟩ ↔ col`, `|1⟩ ↔ row`). -/
noncomputable def embedBlock (G : Mat N) (c r : Fin N) : Mat N :=
  twoLevel c r (G c c) (G c r) (G r c) (G r r)

/-- a matrix with nothing but `0` below the diagonal cannot be located. -/
theorem getRowCol_none (G : Mat N) (h : ∀ i j : Fin N, j < i → G i j = 0) : getRowCol G = none := by
  classical
  unfold getRowCol
  rw [List.getLast?_eq_none_iff, List.filter_eq_nil_iff]
  intro p hp
  have := h p.1 p.2 (mem_scanOrder.1 hp)
  simp [this]

theorem getRowCol_unique (G : Mat N) {c r : Fin N} (hcr : c < r)
    (h1 : G r c ≠ 0) (h2 : G r c ≠ 1)
    (hothers : ∀ i j : Fin N, j < i → (i, j) ≠ (r, c) → G i j = 0) :
    getRowCol G = some (r, c) := by
  classical
  unfold getRowCol
  cases hg : ((scanOrder N).filter (fun p => decide (G p.1 p.2 ≠ 0 ∧ G p.1 p.2 ≠ 1))).getLast? with
  | none =>
    rw [List.getLast?_eq_none_iff, List.filter_eq_nil_iff] at hg
    have := hg (r, c) (mem_scanOrder.2 hcr)
    simp [h1, h2] at this
  | some p =>
    have hp := List.mem_of_getLast? hg
    rw [List.mem_filter] at hp
    obtain ⟨hp1, hp2⟩ := hp
    have hp2' : G p.1 p.2 ≠ 0 ∧ G p.1 p.2 ≠ 1 := by simpa using hp2
    by_contra hne
    have : p ≠ (r, c) := fun e => hne (by rw [e])
    exact hp2'.1 (hothers p.1 p.2 (mem_scanOrder.1 hp1) this)

/-- a two-level matrix is recovered from the block `_get_row_col` cuts out of it. -/
theorem embedBlock_twoLevel {c r : Fin N} (hcr : c ≠ r) (p q s t : ℂ) :
    embedBlock (twoLevel c r p q s t) c r = twoLevel c r p q s t := by
  unfold embedBlock
  rw [twoLevel_cc hcr, twoLevel_cr hcr, twoLevel_rc hcr, twoLevel_rr]

/-- `_get_row_col` on the matrix appended for `(col, row)`: found, at `(row, col)`, provided
`b = gate[row, col] / norm` is neither `0` nor `1`. -/
theorem getRowCol_factor (M : Mat N) {c r : Fin N} (hcr : c < r)
    (h0 : gB M c r ≠ 0) (h1 : gB M c r ≠ 1) :
    getRowCol (givens M c r)ᴴ = some (r, c) ∧ embedBlock (givens M c r)ᴴ c r = (givens M c r)ᴴ := by
  have hne : c ≠ r := ne_of_lt hcr
  unfold givens
  rw [twoLevel_conjTranspose hne]
  refine ⟨getRowCol_unique _ hcr ?_ ?_ ?_, embedBlock_twoLevel hne _ _ _ _⟩
  · rw [twoLevel_rc hne]; simpa using h0
  · rw [twoLevel_rc hne]; simpa using h1
  · intro i j hji hne2
    rw [twoLevel_apply]
    have hij : i ≠ j := ne_of_gt hji
    by_cases a1 : i = r <;> by_cases a2 : j = r <;> by_cases a3 : i = c <;> by_cases a4 : j = c <;>
      simp_all
    · exact absurd hji (not_lt_of_gt hcr)

/-- `_get_row_col` finds nothing when every below-diagonal entry is `0` or `1`. -/
theorem getRowCol_none' (G : Mat N) (h : ∀ i j : Fin N, j < i → G i j = 0 ∨ G i j = 1) :
    getRowCol G = none := by
  classical
  unfold getRowCol
  rw [List.getLast?_eq_none_iff, List.filter_eq_nil_iff]
  intro p hp
  rcases h p.1 p.2 (mem_scanOrder.1 hp) with h | h <;> simp [h]

/-- … which is what happens to the matrix appended for `(col, row)` when `b = 0`
(`gate[row, col] = 0` at that moment) or `b = 1`. -/
theorem getRowCol_factor_none (M : Mat N) {c r : Fin N} (hcr : c < r)
    (h : gB M c r = 0 ∨ gB M c r = 1) : getRowCol (givens M c r)ᴴ = none := by
  have hne : c ≠ r := ne_of_lt hcr
  unfold givens
  rw [twoLevel_conjTranspose hne]
  apply getRowCol_none'
  intro i j hji
  by_cases hrc : i = r ∧ j = c
  · obtain ⟨rfl, rfl⟩ := hrc
    rw [twoLevel_rc hne]; simpa using h
  · left
    rw [twoLevel_apply]
    have hij : i ≠ j := ne_of_gt hji
    by_cases a1 : i = r <;> by_cases a2 : j = r <;> by_cases a3 : i = c <;> by_cases a4 : j = c <;>
      simp_all
    · exact absurd hji (not_lt_of_gt hcr)

/-- a diagonal matrix whose only diagonal entry different from `1` sits at `r` is recovered from
its `(c, r)` block. -/
theorem embedBlock_diag_at (G : Mat N) (hd : ∀ i j : Fin N, i ≠ j → G i j = 0) {c r : Fin N}
    (hcr : c ≠ r) (h1 : ∀ i : Fin N, i ≠ r → G i i = 1) : embedBlock G c r = G := by
  ext i j
  unfold embedBlock
  rw [twoLevel_apply, hd c r hcr, hd r c hcr.symm, h1 c hcr]
  by_cases a1 : i = r <;> by_cases a2 : j = r <;> by_cases a3 : i = c <;> by_cases a4 : j = c <;>
    by_cases a5 : i = j <;> simp_all

/-- … whereas cutting a block with two `1`s on the diagonal out of a diagonal matrix gives the
identity: a phase elsewhere on the diagonal is lost. -/
theorem embedBlock_diag_one (G : Mat N) (hd : ∀ i j : Fin N, i ≠ j → G i j = 0) {c r : Fin N}
    (hcr : c ≠ r) (hc : G c c = 1) (hr : G r r = 1) : embedBlock G c r = 1 := by
  unfold embedBlock
  rw [hd c r hcr, hd r c hcr.symm, hc, hr, twoLevel_one]

end Qclib.QrFull
