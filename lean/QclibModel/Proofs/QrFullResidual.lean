import QclibModel.Proofs.QrFullSweep
import QclibModel.Proofs.QrFullLocate
import Mathlib.LinearAlgebra.Matrix.Block
/-
  C02 / QR — the residual `gate` left by the sweep on a UNITARY input, and how `_get_row_col`
  (the first thing `_build_qr_circuit` does with every element of `gate_sequence`) treats it.
-/
namespace Qclib.QrFull
open Matrix

variable {N : ℕ}

/-- an upper-triangular matrix with `M† M = 1` is diagonal. -/
theorem upper_unitary_diag (M : Mat N) (hM : Mᴴ * M = 1) (hlow : ∀ i j : Fin N, j < i → M i j = 0) :
    ∀ i j : Fin N, i ≠ j → M i j = 0 := by
  have hinv : M⁻¹ = Mᴴ := Matrix.inv_eq_left_inv hM
  have : Invertible M := invertibleOfLeftInverse _ _ hM
  have hbt : BlockTriangular M (id : Fin N → Fin N) := fun i j hji => hlow i j hji
  have hbt' := blockTriangular_inv_of_blockTriangular hbt
  rw [hinv] at hbt'
  intro i j hij
  rcases lt_or_gt_of_ne hij with h | h
  · have := hbt' (i := j) (j := i) h
    rw [conjTranspose_apply] at this
    simpa using this
  · exact hlow i j h

theorem diag_entry_normSq (M : Mat N) (hM : Mᴴ * M = 1) (hd : ∀ i j : Fin N, i ≠ j → M i j = 0)
    (c : Fin N) : star (M c c) * M c c = 1 := by
  have h := congrFun (congrFun hM c) c
  rw [Matrix.mul_apply, Matrix.one_apply_eq] at h
  rw [Finset.sum_eq_single c] at h
  · simpa [conjTranspose_apply] using h
  · intro k _ hk; rw [hd k c hk]; simp
  · intro hc; exact absurd (Finset.mem_univ c) hc

/-- **residual of a unitary**: diagonal, `1` in all positions but the last, a unit-modulus number
(the "phase") in the last. -/
theorem final_unitary_diag (U : Mat N) (hU : Uᴴ * U = 1) (h : SweepOk (pairs N) U) :
    (∀ i j : Fin N, i ≠ j → final (pairs N) U i j = 0) ∧
    (∀ c : Fin N, c.val + 1 < N → final (pairs N) U c c = 1) ∧
    (∀ c : Fin N, star (final (pairs N) U c c) * final (pairs N) U c c = 1) := by
  have hun := final_unitary (pairs N) (fun p hp => pairs_ne hp) U h hU
  obtain ⟨hlow, hpos⟩ := final_triangular U h
  have hd := upper_unitary_diag _ hun hlow
  refine ⟨hd, ?_, diag_entry_normSq _ hun hd⟩
  intro c hc
  obtain ⟨x, hx, hxe⟩ := hpos c hc
  have h1 := diag_entry_normSq _ hun hd c
  rw [hxe] at h1 ⊢
  have hs : star ((x : ℝ) : ℂ) = ((x : ℝ) : ℂ) := Complex.conj_ofReal x
  rw [hs] at h1
  have h2 : x * x = 1 := by exact_mod_cast h1
  have h3 : x = 1 := by nlinarith
  rw [h3]; simp

/-! ### `_get_row_col` BEFORE the repair 9d72fec (`getRowColOld`: no default, `none` = the code raised) -/

/-- the scan order of `_get_row_col`: `for row_idx in range(N): for col_idx in range(row_idx)`;
entries are `(row, col)`. -/
def scanOrder (N : ℕ) : List (Fin N × Fin N) :=
  (List.finRange N).flatMap (fun r => ((List.finRange N).filter (fun c => c < r)).map (fun c => (r, c)))

theorem mem_scanOrder {p : Fin N × Fin N} : p ∈ scanOrder N ↔ p.2 < p.1 := by
  obtain ⟨r, c⟩ := p
  simp only [scanOrder, List.mem_flatMap, List.mem_filter, List.mem_finRange,
    List.mem_map, true_and, decide_eq_true_eq, Prod.mk.injEq]
  constructor
  · rintro ⟨a, b, hb, rfl, rfl⟩; exact hb
  · intro h; exact ⟨r, c, h, rfl, rfl⟩

open Classical in
/-- `_get_row_col`'s search: the LAST below-diagonal position (in scan order) whose entry is
`!= 0` and `!= 1`; `none` when there is none (Python: `col`, `row` stay unbound and
`_row_and_col_qubits(col, n_qubits, row)` raises `UnboundLocalError`).  Returns `(row, col)`. -/
noncomputable def getRowColOld (G : Mat N) : Option (Fin N × Fin N) :=
  ((scanOrder N).filter (fun p => decide (G p.1 p.2 ≠ 0 ∧ G p.1 p.2 ≠ 1))).getLast?

/-- the 2×2 matrix `[[a, c], [b, d]]` that `_get_row_col` returns, re-embedded where the circuit
of C02_qr_orientation puts it (`|0⟩ ↔ col`, `|1⟩ ↔ row`). -/
noncomputable def embedBlock (G : Mat N) (c r : Fin N) : Mat N :=
  twoLevel c r (G c c) (G c r) (G r c) (G r r)

/-- a matrix with nothing but `0` below the diagonal cannot be located. -/
theorem getRowColOld_none (G : Mat N) (h : ∀ i j : Fin N, j < i → G i j = 0) : getRowColOld G = none := by
  classical
  unfold getRowColOld
  rw [List.getLast?_eq_none_iff, List.filter_eq_nil_iff]
  intro p hp
  have := h p.1 p.2 (mem_scanOrder.1 hp)
  simp [this]

theorem getRowColOld_unique (G : Mat N) {c r : Fin N} (hcr : c < r)
    (h1 : G r c ≠ 0) (h2 : G r c ≠ 1)
    (hothers : ∀ i j : Fin N, j < i → (i, j) ≠ (r, c) → G i j = 0) :
    getRowColOld G = some (r, c) := by
  classical
  unfold getRowColOld
  cases hg : ((scanOrder N).filter (fun p => decide (G p.1 p.2 ≠ 0 ∧ G p.1 p.2 ≠ 1))).getLast? with
  | none =>
    rw [List.getLast?_eq_none_iff, List.filter_eq_nil_iff] at hg
    have := hg (r, c) (mem_scanOrder.2 hcr)
    simp [h1, h2] at this
  | some p =>
    have hp := List.mem_of_getLast? hg
    rw [List.mem_filter] at hp
    obtain ⟨hp1, hp2⟩ := hp
    have hp2' : G p.1 p.2 ≠ 0 ∧ G p.1 p.2 ≠ 1 := by simpa using hp2
    by_contra hne
    have : p ≠ (r, c) := fun e => hne (by rw [e])
    exact hp2'.1 (hothers p.1 p.2 (mem_scanOrder.1 hp1) this)

/-- a two-level matrix is recovered from the block `_get_row_col` cuts out of it. -/
theorem embedBlock_twoLevel {c r : Fin N} (hcr : c ≠ r) (p q s t : ℂ) :
    embedBlock (twoLevel c r p q s t) c r = twoLevel c r p q s t := by
  unfold embedBlock
  rw [twoLevel_cc hcr, twoLevel_cr hcr, twoLevel_rc hcr, twoLevel_rr]

/-- `_get_row_col` on the matrix appended for `(col, row)`: found, at `(row, col)`, provided
`b = gate[row, col] / norm` is neither `0` nor `1`. -/
theorem getRowColOld_factor (M : Mat N) {c r : Fin N} (hcr : c < r)
    (h0 : gB M c r ≠ 0) (h1 : gB M c r ≠ 1) :
    getRowColOld (givens M c r)ᴴ = some (r, c) ∧ embedBlock (givens M c r)ᴴ c r = (givens M c r)ᴴ := by
  have hne : c ≠ r := ne_of_lt hcr
  unfold givens
  rw [twoLevel_conjTranspose hne]
  refine ⟨getRowColOld_unique _ hcr ?_ ?_ ?_, embedBlock_twoLevel hne _ _ _ _⟩
  · rw [twoLevel_rc hne]; simpa using h0
  · rw [twoLevel_rc hne]; simpa using h1
  · intro i j hji hne2
    rw [twoLevel_apply]
    have hij : i ≠ j := ne_of_gt hji
    by_cases a1 : i = r <;> by_cases a2 : j = r <;> by_cases a3 : i = c <;> by_cases a4 : j = c <;>
      simp_all
    · exact absurd hji (not_lt_of_gt hcr)

/-- `_get_row_col` finds nothing when every below-diagonal entry is `0` or `1`. -/
theorem getRowColOld_none' (G : Mat N) (h : ∀ i j : Fin N, j < i → G i j = 0 ∨ G i j = 1) :
    getRowColOld G = none := by
  classical
  unfold getRowColOld
  rw [List.getLast?_eq_none_iff, List.filter_eq_nil_iff]
  intro p hp
  rcases h p.1 p.2 (mem_scanOrder.1 hp) with h | h <;> simp [h]

/-- … which is what happens to the matrix appended for `(col, row)` when `b = 0`
(`gate[row, col] = 0` at that moment) or `b = 1`. -/
theorem getRowColOld_factor_none (M : Mat N) {c r : Fin N} (hcr : c < r)
    (h : gB M c r = 0 ∨ gB M c r = 1) : getRowColOld (givens M c r)ᴴ = none := by
  have hne : c ≠ r := ne_of_lt hcr
  unfold givens
  rw [twoLevel_conjTranspose hne]
  apply getRowColOld_none'
  intro i j hji
  by_cases hrc : i = r ∧ j = c
  · obtain ⟨rfl, rfl⟩ := hrc
    rw [twoLevel_rc hne]; simpa using h
  · left
    rw [twoLevel_apply]
    have hij : i ≠ j := ne_of_gt hji
    by_cases a1 : i = r <;> by_cases a2 : j = r <;> by_cases a3 : i = c <;> by_cases a4 : j = c <;>
      simp_all
    · exact absurd hji (not_lt_of_gt hcr)

/-- a diagonal matrix whose only diagonal entry different from `1` sits at `r` is recovered from
its `(c, r)` block. -/
theorem embedBlock_diag_at (G : Mat N) (hd : ∀ i j : Fin N, i ≠ j → G i j = 0) {c r : Fin N}
    (hcr : c ≠ r) (h1 : ∀ i : Fin N, i ≠ r → G i i = 1) : embedBlock G c r = G := by
  ext i j
  unfold embedBlock
  rw [twoLevel_apply, hd c r hcr, hd r c hcr.symm, h1 c hcr]
  by_cases a1 : i = r <;> by_cases a2 : j = r <;> by_cases a3 : i = c <;> by_cases a4 : j = c <;>
    by_cases a5 : i = j <;> simp_all

/-- … whereas cutting a block with two `1`s on the diagonal out of a diagonal matrix gives the
identity: a phase elsewhere on the diagonal is lost. -/
theorem embedBlock_diag_one (G : Mat N) (hd : ∀ i j : Fin N, i ≠ j → G i j = 0) {c r : Fin N}
    (hcr : c ≠ r) (hc : G c c = 1) (hr : G r r = 1) : embedBlock G c r = 1 := by
  unfold embedBlock
  rw [hd c r hcr, hd r c hcr.symm, hc, hr, twoLevel_one]

/-! ### `_get_row_col` as it is now (repair 33a8d4e): hits override the default `(N-1, N-2)`;
without a hit the matrix must be the identity except possibly its last diagonal entry, else
`ValueError` -/

/-- `matrix[i][j]` with natural-number indices (`0` outside the matrix; never read there). -/
def entry (G : Mat N) (i j : ℕ) : ℂ := if h : i < N ∧ j < N then G ⟨i, h.1⟩ ⟨j, h.2⟩ else 0

theorem entry_fin (G : Mat N) (i j : Fin N) : entry G i.val j.val = G i j := by
  simp [entry]

theorem entry_lt (G : Mat N) {i j : ℕ} (hi : i < N) (hj : j < N) : entry G i j = G ⟨i, hi⟩ ⟨j, hj⟩ := by
  simp [entry, hi, hj]

open Classical in
/-- `(row, col)` at the end of `_get_row_col(G, n)`, `none` = `ValueError`: the generic, executable
search `QrLoc.getRowColG` (Model/QrLocate.lean, the function the driver runs) at `α = ℂ` with
classical decidable equality — by definition. -/
noncomputable def getRowCol (G : Mat N) : Option (ℕ × ℕ) := QrLoc.getRowColG N (entry G)

open Classical in
theorem getRowCol_eq_generic (G : Mat N) : getRowCol G = QrLoc.getRowColG N (entry G) := rfl

/-- the 2×2 block at natural-number levels `(c, r)` re-embedded (identity if out of range). -/
noncomputable def embedAt (G : Mat N) (c r : ℕ) : Mat N :=
  if h : c < N ∧ r < N then embedBlock G ⟨c, h.1⟩ ⟨r, h.2⟩ else 1

/-- the matrix the sub-circuit built for `G` implements: the block `_get_row_col` cuts out, on
`|0⟩ ↔ col`, `|1⟩ ↔ row`; `none` where `_get_row_col` raises. -/
noncomputable def codeMatrix (G : Mat N) : Option (Mat N) :=
  (getRowCol G).map (fun p => embedAt G p.2 p.1)

theorem embedAt_fin (G : Mat N) (c r : Fin N) : embedAt G c.val r.val = embedBlock G c r := by
  simp [embedAt]

/-- "identity except possibly the last diagonal entry". -/
def IdButLast (G : Mat N) : Prop :=
  (∀ i j : Fin N, i ≠ j → G i j = 0) ∧ (∀ i : Fin N, i.val + 1 < N → G i i = 1)

open Classical in
theorem isIdButLast_entry (G : Mat N) : QrLoc.isIdButLast N (entry G) = true ↔ IdButLast G := by
  rw [QrLoc.isIdButLast_iff]
  constructor
  · intro h
    constructor
    · intro i j hij
      have := h i.val j.val i.isLt j.isLt (by
        rintro ⟨e1, e2⟩; exact hij (Fin.ext (by omega)))
      rw [entry_fin, if_neg (fun e => hij (Fin.ext e))] at this
      exact this
    · intro i hi
      have := h i.val i.val i.isLt i.isLt (by omega)
      rw [entry_fin, if_pos rfl] at this
      exact this
  · rintro ⟨hd, h1⟩ i j hi hj hne
    rw [entry_lt G hi hj]
    by_cases e : i = j
    · subst e
      rw [if_pos rfl]
      exact h1 ⟨i, hi⟩ (by simp only; omega)
    · rw [if_neg e]
      exact hd ⟨i, hi⟩ ⟨j, hj⟩ (fun h => e (congrArg Fin.val h))

/-- nothing but `0`/`1` below the diagonal and identity-but-last: the default. -/
theorem getRowCol_default (G : Mat N) (h : ∀ i j : Fin N, j < i → G i j = 0 ∨ G i j = 1)
    (hid : IdButLast G) : getRowCol G = some (N - 1, N - 2) := by
  classical
  apply QrLoc.getRowColG_default
  · intro r c hcr hr
    rw [entry_lt G hr (by omega)]
    exact h ⟨r, hr⟩ ⟨c, by omega⟩ hcr
  · exact (isIdButLast_entry G).2 hid

/-- nothing but `0`/`1` below the diagonal and NOT identity-but-last: `ValueError`. -/
theorem getRowCol_none (G : Mat N) (h : ∀ i j : Fin N, j < i → G i j = 0 ∨ G i j = 1)
    (hid : ¬ IdButLast G) : getRowCol G = none := by
  classical
  apply QrLoc.getRowColG_none
  · intro r c hcr hr
    rw [entry_lt G hr (by omega)]
    exact h ⟨r, hr⟩ ⟨c, by omega⟩ hcr
  · exact fun hh => hid ((isIdButLast_entry G).1 hh)

theorem factor_lower (M : Mat N) {c r : Fin N} (hcr : c < r) (i j : Fin N) (hji : j < i)
    (hne : ¬ (i = r ∧ j = c)) : (givens M c r)ᴴ i j = 0 := by
  have hne' : c ≠ r := ne_of_lt hcr
  unfold givens
  rw [twoLevel_conjTranspose hne', twoLevel_apply]
  have hij : i ≠ j := ne_of_gt hji
  by_cases a1 : i = r <;> by_cases a2 : j = r <;> by_cases a3 : i = c <;> by_cases a4 : j = c <;>
    simp_all
  · exact absurd hji (not_lt_of_gt hcr)

theorem factor_rc (M : Mat N) {c r : Fin N} (hcr : c < r) : (givens M c r)ᴴ r c = gB M c r := by
  have hne' : c ≠ r := ne_of_lt hcr
  unfold givens
  rw [twoLevel_conjTranspose hne', twoLevel_rc hne']; simp

theorem factor_cc (M : Mat N) {c r : Fin N} (hcr : c < r) : (givens M c r)ᴴ c c = gA M c r := by
  have hne' : c ≠ r := ne_of_lt hcr
  unfold givens
  rw [twoLevel_conjTranspose hne', twoLevel_cc hne']; simp

theorem factor_rr (M : Mat N) {c r : Fin N} (hcr : c < r) :
    (givens M c r)ᴴ r r = -star (gA M c r) := by
  have hne' : c ≠ r := ne_of_lt hcr
  unfold givens
  rw [twoLevel_conjTranspose hne', twoLevel_rr]; simp

/-- the matrix appended for `(col, row)` is located at `(row, col)` when `b ∉ {0, 1}`. -/
theorem getRowCol_factor (M : Mat N) {c r : Fin N} (hcr : c < r)
    (h0 : gB M c r ≠ 0) (h1 : gB M c r ≠ 1) :
    getRowCol (givens M c r)ᴴ = some (r.val, c.val) ∧
    codeMatrix (givens M c r)ᴴ = some (givens M c r)ᴴ := by
  classical
  have hloc : getRowCol (givens M c r)ᴴ = some (r.val, c.val) := by
    apply QrLoc.getRowColG_unique N _ (show c.val < r.val from hcr) r.isLt
    · rw [entry_fin, factor_rc M hcr]; exact h0
    · rw [entry_fin, factor_rc M hcr]; exact h1
    · intro i j hji hi hne
      left
      rw [entry_lt _ hi (by omega)]
      apply factor_lower M hcr ⟨i, hi⟩ ⟨j, by omega⟩ hji
      rintro ⟨e1, e2⟩
      apply hne
      rw [← e1, ← e2]
  refine ⟨hloc, ?_⟩
  rw [codeMatrix, hloc, Option.map_some, embedAt_fin]
  exact congrArg some (getRowColOld_factor M hcr h0 h1).2

theorem factor_lower01 (M : Mat N) {c r : Fin N} (hcr : c < r)
    (h : gB M c r = 0 ∨ gB M c r = 1) :
    ∀ i j : Fin N, j < i → (givens M c r)ᴴ i j = 0 ∨ (givens M c r)ᴴ i j = 1 := by
  intro i j hji
  by_cases hrc : i = r ∧ j = c
  · obtain ⟨rfl, rfl⟩ := hrc
    rw [factor_rc M hcr]; exact h
  · exact Or.inl (factor_lower M hcr i j hji hrc)

/-- `b = 1`: no hit, and the entry `1` below the diagonal makes the acceptance test fail. -/
theorem getRowCol_factor_one (M : Mat N) {c r : Fin N} (hcr : c < r) (h : gB M c r = 1) :
    getRowCol (givens M c r)ᴴ = none := by
  apply getRowCol_none _ (factor_lower01 M hcr (Or.inr h))
  rintro ⟨hd, _⟩
  have := hd r c (ne_of_gt hcr)
  rw [factor_rc M hcr, h] at this
  exact one_ne_zero this

/-- `b = 0`: `R† = diag(…, a, …, −conj a, …)` is accepted (at the default) exactly when `a = 1` and
`row` is the last index, i.e. when `R† = diag(1, …, 1, −1)`; otherwise `ValueError`. -/
theorem getRowCol_factor_zero (M : Mat N) {c r : Fin N} (hcr : c < r) (h : gB M c r = 0) :
    (gA M c r = 1 ∧ r.val + 1 = N → getRowCol (givens M c r)ᴴ = some (N - 1, N - 2)) ∧
    (¬ (gA M c r = 1 ∧ r.val + 1 = N) → getRowCol (givens M c r)ᴴ = none) := by
  have hne : c ≠ r := ne_of_lt hcr
  have hlow := factor_lower01 M hcr (Or.inl h)
  have hcN : c.val + 1 < N := by have : c.val < r.val := hcr; have := r.isLt; omega
  constructor
  · rintro ⟨ha, hr⟩
    apply getRowCol_default _ hlow
    constructor
    · intro i j hij
      unfold givens
      rw [twoLevel_conjTranspose hne, twoLevel_apply, h]
      by_cases a1 : i = r <;> by_cases a2 : j = r <;> by_cases a3 : i = c <;> by_cases a4 : j = c <;>
        simp_all
    · intro i hi
      have hir : i ≠ r := fun e => by rw [e] at hi; omega
      by_cases hic : i = c
      · rw [hic, factor_cc M hcr, ha]
      · unfold givens
        rw [twoLevel_conjTranspose hne, twoLevel_outside _ _ _ _ _ _ _ _ (Or.inl ⟨hic, hir⟩)]
        simp
  · intro hnot
    apply getRowCol_none _ hlow
    rintro ⟨_, h1⟩
    have ha : gA M c r = 1 := by rw [← factor_cc M hcr]; exact h1 c hcN
    apply hnot
    refine ⟨ha, ?_⟩
    by_contra hr
    have hrN : r.val + 1 < N := by have := r.isLt; omega
    have := h1 r hrN
    rw [factor_rr M hcr, ha] at this
    norm_num at this

/-- a matrix `diag(1, …, 1, z)` is accepted at the default and is its own code matrix. -/
theorem codeMatrix_diag (hN : 2 ≤ N) (G : Mat N) (hid : IdButLast G) :
    getRowCol G = some (N - 1, N - 2) ∧ codeMatrix G = some G := by
  obtain ⟨hd, h1⟩ := hid
  have hloc := getRowCol_default G (fun i j hji => Or.inl (hd i j (ne_of_gt hji))) ⟨hd, h1⟩
  refine ⟨hloc, ?_⟩
  rw [codeMatrix, hloc, Option.map_some]
  have e := embedAt_fin G ⟨N - 2, by omega⟩ ⟨N - 1, by omega⟩
  simp only at e
  rw [e]
  congr 1
  apply embedBlock_diag_at G hd
  · intro h; have := congrArg Fin.val h; simp at this; omega
  · intro i hi
    apply h1
    have : i.val ≠ N - 1 := fun e => hi (Fin.ext e)
    have := i.isLt
    omega

end Qclib.QrFull
