import QclibModel.Proofs.SchmidtAlg
/-
  C07 / C08: a sum over the `2^n` entries of a vector, re-indexed by (row, column) of its
  bipartition matrix (`sepIndexAx` / `undoIndexAx` are mutually inverse), and the two consequences
  used for overlaps: `⟨v|t⟩ = ⟨sepMat v, sepMat t⟩` and `⟨v|undoVec T⟩ = ⟨sepMat v, T⟩`.
-/
namespace Qclib.Schmidt
open Finset

theorem sumTo_sep_reindex {R : Type} [AddCommMonoid R] {n : Nat} {src : List Nat}
    (hv : ValidAxes n src) (g : Nat → R) :
    sumTo (2 ^ n) g
      = sumTo (2 ^ (n - src.length)) (fun r => sumTo (2 ^ src.length) (fun c =>
          g (undoIndexAx n src r c))) := by
  simp only [sumTo_eq_sum]
  rw [← Finset.sum_product']
  symm
  refine Finset.sum_nbij' (fun p => undoIndexAx n src p.1 p.2) (fun i => sepIndexAx n src i)
    ?_ ?_ ?_ ?_ ?_
  · intro p _
    simp only [Finset.mem_range]
    exact undoIndexAx_lt n src p.1 p.2
  · intro i _
    have := sepIndexAx_lt hv i
    simp only [Finset.mem_product, Finset.mem_range]
    exact this
  · intro p hp
    simp only [Finset.mem_product, Finset.mem_range] at hp
    exact sep_undo_index hv p.1 p.2 hp.1 hp.2
  · intro i hi
    exact undo_sep_index hv i (Finset.mem_range.mp hi)
  · intro p _
    rfl

/-- `⟨v|t⟩` is the entry-wise inner product of the two bipartition matrices. -/
theorem sumTo_inner_sepMat {R : Type} [CommRing R] [StarRing R] {n : Nat} {src : List Nat}
    (hv : ValidAxes n src) (v t : Nat → R) :
    sumTo (2 ^ n) (fun i => star (v i) * t i)
      = inner2 star (2 ^ (n - src.length)) (2 ^ src.length) (sepMat n src v) (sepMat n src t) := by
  rw [sumTo_sep_reindex hv]
  rfl

/-- `⟨v|undo(T)⟩ = ⟨sepMat v, T⟩`. -/
theorem sumTo_inner_undoVec {R : Type} [CommRing R] [StarRing R] {n : Nat} {src : List Nat}
    (hv : ValidAxes n src) (v : Nat → R) (T : Nat → Nat → R) :
    sumTo (2 ^ n) (fun i => star (v i) * undoVec n src T i)
      = inner2 star (2 ^ (n - src.length)) (2 ^ src.length) (sepMat n src v) T := by
  unfold inner2 sepMat undoVec
  rw [sumTo_sep_reindex hv]
  refine sumTo_congr _ _ _ (fun r hr => sumTo_congr _ _ _ (fun c hc => ?_))
  rw [sep_undo_index hv r c hr hc]

theorem inner2_congr {R : Type} [CommRing R] [StarRing R] (rows cols : Nat)
    (A A' B B' : Nat → Nat → R)
    (hA : ∀ r c, r < rows → c < cols → A r c = A' r c)
    (hB : ∀ r c, r < rows → c < cols → B r c = B' r c) :
    inner2 star rows cols A B = inner2 star rows cols A' B' := by
  unfold inner2
  exact sumTo_congr _ _ _ (fun r hr => sumTo_congr _ _ _ (fun c hc => by
    rw [hA r c hr hc, hB r c hr hc]))

/-- The approximate state `_create_node` builds for a higher-rank answer —
`schmidt_composition(U, V, σ[:r]/N, partition)` with `N = sqrt(1 − fidelity_loss)`,
`fidelity_loss = 1 − Σ_{i<r} σ_i²` — has overlap `N` with the vector, and `conj(N)·N = Σ_{i<r} σ_i²`,
under the SVD specification. -/
theorem lowrank_overlap {K : Type} [Field K] [StarRing K] {m : Nat} {lp : List Nat}
    (hva : ValidAxes m lp) (v : Nat → K) (k r : Nat) (hle : r ≤ k) (U : Nat → Nat → K)
    (σ : Nat → K) (V : Nat → Nat → K) (N : K)
    (hU : ∀ i j, i < k → j < k → gramCols (2 ^ (m - lp.length)) U i j = if i = j then 1 else 0)
    (hV : ∀ i j, i < k → j < k → gramRows (2 ^ lp.length) V i j = if i = j then 1 else 0)
    (hσ : ∀ i, star (σ i) = σ i) (hNs : star N = N) (hN : N ≠ 0)
    (hNN : N * N = sumTo r (fun i => σ i * σ i))
    (hsvd : ∀ x y, x < 2 ^ (m - lp.length) → y < 2 ^ lp.length →
      sepMat m lp v x y = composeMat k U σ V x y) :
    sumTo (2 ^ m) (fun i => star (v i) * schmidtCompose m lp r U (renorm N σ) V i) = N ∧
    star N * N = sumTo r (fun i => σ i * σ i) := by
  refine ⟨?_, by rw [hNs, hNN]⟩
  unfold schmidtCompose
  rw [sumTo_inner_undoVec hva,
    inner2_congr _ _ _ (composeMat k U σ V) _ (composeMat r U (renorm N σ) V) hsvd
      (fun _ _ _ _ => rfl)]
  exact overlap_truncation _ _ k r hle U σ V N hU hV hσ hN hNN

end Qclib.Schmidt
