import QclibModel.Model.Schmidt
/-
  C09 / C07: the rank rule of `low_rank_approximation` returns the least power of two
  `≥ min(low_rank, eff)` (`low_rank ≤ 0` or `≥ eff` ⇒ `eff`).  Core Lean only.
-/
namespace Qclib.Schmidt

theorem le_clp2 (x : Nat) : x ≤ clp2 x := by
  unfold clp2 ceilLog2
  split
  · rename_i h; simp; exact h
  · rename_i h
    have := @Nat.lt_log2_self (x - 1)
    omega

theorem clp2_le_of_le_pow {x k : Nat} (h : x ≤ 2 ^ k) : clp2 x ≤ 2 ^ k := by
  unfold clp2 ceilLog2
  split
  · exact Nat.pow_le_pow_right (by decide) (Nat.zero_le k)
  · rename_i hx
    have h0 : x - 1 ≠ 0 := by omega
    have hlt : x - 1 < 2 ^ k := by
      have : 0 < 2 ^ k := Nat.pos_of_ne_zero (by simp)
      omega
    have := (Nat.log2_lt h0).mpr hlt
    exact Nat.pow_le_pow_right (by decide) (by omega)

theorem clp2_pow2 (k : Nat) : clp2 (2 ^ k) = 2 ^ k :=
  Nat.le_antisymm (clp2_le_of_le_pow (Nat.le_refl _)) (le_clp2 _)

theorem cappedRank_le (lr : Int) (eff : Nat) : cappedRank lr eff ≤ eff := by
  unfold cappedRank; split <;> omega

theorem cappedRank_nat (r eff : Nat) :
    cappedRank (r : Int) eff = if r = 0 then eff else min r eff := by
  unfold cappedRank
  by_cases h0 : r = 0
  · subst h0; simp
  · rw [if_neg h0]
    split
    · rename_i h; simp only [Int.toNat_natCast]; omega
    · rename_i h; omega

theorem cappedRank_nonpos (lr : Int) (eff : Nat) (h : lr ≤ 0) : cappedRank lr eff = eff := by
  unfold cappedRank; rw [if_neg]; omega

theorem cappedRank_eq_zero (lr : Int) (eff : Nat) : cappedRank lr eff = 0 ↔ eff = 0 := by
  unfold cappedRank
  split
  · rename_i h; omega
  · exact Iff.rfl

theorem rankRule_none (lr : Int) (eff : Nat) : rankRule lr eff = none ↔ eff = 0 := by
  rw [← cappedRank_eq_zero lr eff]
  unfold rankRule
  simp only []
  by_cases h : cappedRank lr eff = 0
  · simp [h]
  · simp [h]

theorem rankRule_some {lr : Int} {eff r : Nat} (h : rankRule lr eff = some r) :
    0 < cappedRank lr eff ∧ r = clp2 (cappedRank lr eff) := by
  unfold rankRule at h
  simp only [] at h
  split at h
  · cases h
  · rename_i h0
    cases h
    exact ⟨by omega, rfl⟩

end Qclib.Schmidt
