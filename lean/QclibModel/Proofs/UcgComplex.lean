import QclibModel.Proofs.UcgColumn
import Mathlib.Data.Complex.Basic
import Mathlib.Analysis.Real.Sqrt
/-
  C12: the specifications `NrmSpec` / `ZeroSpec` hold in `ℂ` for `√(|a|² + |b|²)` and `· = 0`.
-/
namespace Qclib.Ucg
open Complex

/-- `numpy.linalg.norm([a, b])` in `ℂ`. -/
noncomputable def cnrm (a b : ℂ) : ℂ := ((Real.sqrt (normSq a + normSq b) : ℝ) : ℂ)

noncomputable def cIsZero (x : ℂ) : Bool := @decide (x = 0) (Classical.propDecidable _)

theorem zeroSpec_complex : ZeroSpec cIsZero := by
  intro x; simp [cIsZero]

theorem nrmSpec_complex : NrmSpec cnrm where
  real a b := by simp [cnrm]
  sq a b := by
    have h : 0 ≤ normSq a + normSq b := add_nonneg (normSq_nonneg a) (normSq_nonneg b)
    rw [cnrm, ← ofReal_mul, Real.mul_self_sqrt h]
    simp [mul_conj]
  zero a b h := by
    have h0 : 0 ≤ normSq a + normSq b := add_nonneg (normSq_nonneg a) (normSq_nonneg b)
    rw [cnrm, ofReal_eq_zero, Real.sqrt_eq_zero h0] at h
    have ha := normSq_nonneg a
    have hb := normSq_nonneg b
    exact ⟨normSq_eq_zero.1 (by linarith), normSq_eq_zero.1 (by linarith)⟩
  one a b h := by
    have : ((normSq a + normSq b : ℝ) : ℂ) = 1 := by
      rw [← h]; simp [mul_conj]
    have h1 : normSq a + normSq b = 1 := by exact_mod_cast this
    rw [cnrm, h1, Real.sqrt_one, ofReal_one]

end Qclib.Ucg
