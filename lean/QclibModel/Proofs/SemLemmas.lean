import QclibModel.Proofs.RotLaws
import Mathlib.Algebra.Group.Basic
import Mathlib.Tactic.Ring
/-
  Shared lemmas about the amplitude-function semantics (Sem/Basic.lean, Sem/Denote.lean):
  basis labels (`setBit`, `flipBit`), `sem` on appended lists, and the pointwise action of the
  common gates.  Used by every circuit-level proof.
-/
namespace Qclib
open RotSem

section Helpers
variable {Θ R : Type} [CommRing R] [RotSem Θ R]

/-! ### Labels -/

theorem setBit_eq (b : Bits) (q : Nat) (v : Bool) : setBit b q v q = v := by simp [setBit]

theorem setBit_ne (b : Bits) {q i : Nat} (v : Bool) (h : i ≠ q) : setBit b q v i = b i := by
  simp [setBit, h]

theorem setBit_setBit (b : Bits) (q : Nat) (v v' : Bool) :
    setBit (setBit b q v) q v' = setBit b q v' := by
  funext i; by_cases h : i = q <;> simp [setBit, h]

theorem setBit_self (b : Bits) (q : Nat) : setBit b q (b q) = b := by
  funext i; by_cases h : i = q <;> simp [setBit, h]

theorem setBit_not (b : Bits) (q : Nat) : setBit b q (!b q) = flipBit b q := by
  funext i; by_cases h : i = q <;> simp [setBit, flipBit, h]

theorem flipBit_eq (b : Bits) (q : Nat) : flipBit b q q = !b q := by simp [flipBit]

theorem flipBit_ne (b : Bits) {q i : Nat} (h : i ≠ q) : flipBit b q i = b i := by
  simp [flipBit, h]

theorem flipBit_flipBit (b : Bits) (q : Nat) : flipBit (flipBit b q) q = b := by
  funext i; by_cases h : i = q <;> simp [flipBit, h]

/-! ### `sem` on lists -/

theorem sem_append (c1 c2 : Circ Θ) (ψ : State R) :
    sem (c1 ++ c2) ψ = sem c2 (sem c1 ψ) := by
  simp [sem, List.foldl_append]

theorem sem_nil (ψ : State R) : sem ([] : Circ Θ) ψ = ψ := rfl

theorem sem_single (g : G Θ) (ψ : State R) : sem [g] ψ = denote g ψ := rfl

/-! ### Single gates -/

theorem denote_x (q : Nat) (ψ : State R) (b : Bits) :
    denote (G.x q : G Θ) ψ b = ψ (flipBit b q) := by
  rw [← setBit_not]
  simp only [denote, applyMcu, ctrlOk, List.all_nil, Mat2.X]
  cases h : b q <;> simp

theorem denote_cx (c t : Nat) (ψ : State R) (b : Bits) :
    denote (G.cx c t : G Θ) ψ b = if b c then ψ (flipBit b t) else ψ b := by
  rw [← setBit_not]
  simp only [denote, applyMcu, ctrlOk, Mat2.X]
  cases hc : b c <;> cases h : b t <;> simp [hc]

theorem denote_p (θ : Θ) (q : Nat) (ψ : State R) (b : Bits) :
    denote (G.p θ q) ψ b = (if b q then ex θ * ex θ else 1) * ψ b := by
  simp only [denote, applyMcu, ctrlOk, List.all_nil, matP]
  cases h : b q
  · have : setBit b q false = b := by rw [← h, setBit_self]
    simp [this]
  · have : setBit b q true = b := by rw [← h, setBit_self]
    simp [this]

theorem denote_cp (θ : Θ) (c t : Nat) (ψ : State R) (b : Bits) :
    denote (G.cp θ c t) ψ b
      = (if b t then (if b c then ex θ * ex θ else 1) else 1) * ψ b := by
  simp only [denote, applyMcu, ctrlOk, matP]
  cases hc : b c
  · simp [hc]
  · cases h : b t
    · have : setBit b t false = b := by rw [← h, setBit_self]
      simp [hc, this]
    · have : setBit b t true = b := by rw [← h, setBit_self]
      simp [hc, this]

theorem denote_h (q : Nat) (ψ : State R) (b : Bits) :
    denote (G.h q : G Θ) ψ b
      = if b q then rh Θ * ψ (setBit b q false) + -(rh Θ) * ψ (setBit b q true)
        else rh Θ * ψ (setBit b q false) + rh Θ * ψ (setBit b q true) := by
  simp [denote, applyMcu, ctrlOk, matH]


/-- `setBit` with the value the label already has (explicit-value form). -/
theorem setBit_self' (b : Bits) (t : Nat) (v : Bool) (h : b t = v) : setBit b t v = b := by
  subst h; exact setBit_self b t

theorem setBit_comm (b : Bits) {p q : Nat} (u v : Bool) (h : p ≠ q) :
    setBit (setBit b p u) q v = setBit (setBit b q v) p u := by
  funext i
  by_cases hp : i = p <;> by_cases hq : i = q <;> simp_all [setBit]

theorem flipBit_comm (b : Bits) (p q : Nat) :
    flipBit (flipBit b p) q = flipBit (flipBit b q) p := by
  funext i
  by_cases hp : i = p <;> by_cases hq : i = q <;> simp_all [flipBit]

theorem denote_cz (c t : Nat) (ψ : State R) (b : Bits) :
    denote (G.cz c t : G Θ) ψ b = (if b c && b t then -1 else 1) * ψ b := by
  simp only [denote, applyMcu, ctrlOk, Mat2.Z]
  cases hc : b c <;> cases h : b t
  · simp [hc, h]
  · simp [hc, h]
  · have : setBit b t false = b := by rw [← h, setBit_self]
    simp [hc, h, this]
  · have : setBit b t true = b := by rw [← h, setBit_self]
    simp [hc, h, this]

theorem denote_ccx (a c t : Nat) (ψ : State R) (b : Bits) :
    denote (G.ccx a c t : G Θ) ψ b = if b a && b c then ψ (flipBit b t) else ψ b := by
  rw [← setBit_not]
  simp only [denote, applyMcu, ctrlOk, Mat2.X]
  cases ha : b a <;> cases hc : b c <;> cases h : b t <;> simp [ha, hc]

theorem denote_gphase (θ : Θ) (ψ : State R) (b : Bits) :
    denote (G.gphase θ) ψ b = ex θ * ex θ * ψ b := rfl

theorem denote_swap (p q : Nat) (ψ : State R) (b : Bits) :
    denote (G.swap p q : G Θ) ψ b = ψ (swapBits p q b) := rfl

end Helpers
end Qclib
