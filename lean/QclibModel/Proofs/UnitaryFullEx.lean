import QclibModel.Proofs.UnitaryFullQsd
import QclibModel.Proofs.UnitaryFullCsd
import QclibModel.Proofs.RotReal
/-
  C02 — non-vacuity of the whole-recursion hypotheses (`QsdSynth`) in the `ℝ → ℂ` instance:
  a complete, valid record for `n = 3`, `X = CZ` between the two top qubits (`θ = 0`, `u0 = 1`,
  `u1 = Z ⊗ 1` so that the A.1-flipped block `u1·Z` is the identity, all eigen data trivial), in
  mode `iso = 0` and `iso = 1`; and the conjugation law `conj e^{ia/2} = e^{-ia/2}`.
-/
namespace Qclib.Uni
open Qclib Matrix RotSem

/-- `conj e^{ia/2} = e^{-ia/2}` in the `ℝ → ℂ` instance. -/
theorem hex_real (a : ℝ) : star (ex a : ℂ) = ex (-a) := by
  show (starRingEnd ℂ) (Complex.exp (((a / 2 : ℝ) : ℂ) * Complex.I))
    = Complex.exp ((((-a) / 2 : ℝ) : ℂ) * Complex.I)
  rw [← Complex.exp_conj]
  congr 1
  simp only [map_mul, Complex.conj_ofReal, Complex.conj_I]
  push_cast
  ring

theorem dOf_zero {n : Nat} (α : List ℝ) (hα : ∀ i, α.getD i 0 = 0) :
    (dOf α : QI n → ℂ) = fun _ => 1 := by
  funext j
  simp only [dOf, hα]
  rw [← RotLaws.ex_add, add_zero, RotLaws.ex_zero]

theorem CSmat_zero (n : Nat) : (CSmat n (fun _ => (0 : ℝ)) : Matrix (QI (n + 1)) (QI (n + 1)) ℂ) = 1 := by
  have hc : (cs ((0 : ℝ) + 0) : ℂ) = 1 := by rw [add_zero]; exact RotLaws.cs_zero
  have hs : (sn ((0 : ℝ) + 0) : ℂ) = 0 := by rw [add_zero]; exact RotLaws.sn_zero
  simp only [CSmat, hc, hs, neg_zero]
  have h1 : (diagonal fun _ : QI n => (1 : ℂ)) = 1 := diagonal_one
  have h0 : (diagonal fun _ : QI n => (0 : ℂ)) = 0 := diagonal_zero
  rw [h1, h0]
  exact fromBlocks_one

theorem bd_one (n : Nat) :
    bd (1 : Matrix (QI n) (QI n) ℂ) 1 = (1 : Matrix (QI (n + 1)) (QI (n + 1)) ℂ) := fromBlocks_one

/-- the trivial pair: `(1, U2)` with `U2 = 1` (given as any matrix equal to `1`), `V = 1`, `α = 0`. -/
theorem pair_trivial (U2 : Matrix (QI 2) (QI 2) ℂ) (hU2 : U2 = 1) :
    QsdSynth (Θ := ℝ) (.pair 2 (1 : Matrix (QI 2) (QI 2) ℂ) U2) ([0, 0, 0, 0] :: ([] ++ []))
      ([applyMat 2 (diagonal (dOf ([0, 0, 0, 0] : List ℝ)) * (1 : Matrix (QI 2) (QI 2) ℂ)ᴴ * U2)]
        ++ [applyMat 2 (1 : Matrix (QI 2) (QI 2) ℂ)]) := by
  have hα : ∀ i, ([0, 0, 0, 0] : List ℝ).getD i 0 = 0 := by
    intro i
    match i with
    | 0 | 1 | 2 | 3 => rfl
    | _ + 4 => rfl
  refine QsdSynth.pair 2 1 U2 1 [0, 0, 0, 0] [] [] _ _ ?_ ?_ ?_
    (QsdSynth.leaf 2 0 _ (by omega)) (QsdSynth.leaf 2 0 _ (by omega))
  · simp
  · subst hU2
    rw [dOf_zero _ hα]
    simp
  · subst hU2; simp

/-- a complete valid record for `X = CZ(1, 2)` on three qubits, `iso = 0`. -/
theorem synth_cz3 : ∃ (tape : Tape ℝ) (leaves : List (Leaf ℂ)),
    QsdSynth (.one 3 0 (CZtop 1 : Matrix (QI 3) (QI 3) ℂ)) tape leaves ∧ tape.length = 3
      ∧ leaves.length = 4 := by
  refine ⟨_, _, QsdSynth.node 0 (CZtop 1) 1 (Zlow 1) 1 1 [0, 0, 0, 0] _ _ _ _ ?_
    (pair_trivial 1 rfl) (pair_trivial (Zlow 1 * Zlow 1) (Zh_mul_Zh (κ := QI 1))), rfl, rfl⟩
  have hθ : (fun j => ([0, 0, 0, 0] : List ℝ).getD j 0) = fun _ => (0 : ℝ) := by
    funext i
    match i with
    | 0 | 1 | 2 | 3 => rfl
    | _ + 4 => rfl
  rw [hθ, CSmat_zero, bd_one, Matrix.mul_one, Matrix.mul_one]
  rfl

/-- … and in isometry mode `iso = 1` (only `v0 = 1` is synthesised on the left). -/
theorem synth_cz3_iso : ∃ (tape : Tape ℝ) (leaves : List (Leaf ℂ)),
    QsdSynth (.one 3 1 (CZtop 1 : Matrix (QI 3) (QI 3) ℂ)) tape leaves ∧ tape.length = 2
      ∧ leaves.length = 3 := by
  refine ⟨_, _, QsdSynth.nodeIso 0 0 (CZtop 1) 1 (Zlow 1) 1 1 [0, 0, 0, 0] _ _ _ _ ?_
    (QsdSynth.leaf 2 0 1 (by omega))
    (pair_trivial (Zlow 1 * Zlow 1) (Zh_mul_Zh (κ := QI 1))), rfl, rfl⟩
  have hθ : (fun j => ([0, 0, 0, 0] : List ℝ).getD j 0) = fun _ => (0 : ℝ) := by
    funext i
    match i with
    | 0 | 1 | 2 | 3 => rfl
    | _ + 4 => rfl
  rw [hθ, CSmat_zero, bd_one, Matrix.mul_one, Matrix.mul_one]
  rfl

/-! ### CSD -/

/-- a list of two two-qubit blocks, both the identity (given as any `B` with `B 0 = B 1 = 1`), on
three qubits: two `cossin` calls with `θ = 0`, two `UCGate` leaves. -/
theorem list_trivial (B : Nat → Matrix (QI 2) (QI 2) ℂ) (hB : ∀ h, h < 2 → B h = 1) :
    ∃ (leaves : List (Leaf ℂ)), leaves.length = 2 ∧
      CsdSynth (Θ := ℝ) (.list 3 2 B) ([[0, 0], [0, 0]] ++ ([] ++ [])) leaves := by
  refine ⟨_, ?_, CsdSynth.step 3 0 (by omega) B (fun _ => 1) (fun _ => 1) (fun _ => 1) (fun _ => 1)
    [[0, 0], [0, 0]] [] [] _ _ rfl ?_ ?_ (CsdSynth.ucg 3 _) (CsdSynth.ucg 3 _)⟩
  · rfl
  · intro l hl
    simp only [List.mem_cons, List.not_mem_nil, or_false] at hl
    rcases hl with rfl | rfl <;> rfl
  · intro h hh
    have hθ : (fun j => (([[0, 0], [0, 0]] : List (List ℝ)).getD h []).getD j 0) = fun _ => (0 : ℝ) := by
      funext j
      match h, hh with
      | 0, _ =>
        match j with
        | 0 | 1 => rfl
        | _ + 2 => rfl
      | 1, _ =>
        match j with
        | 0 | 1 => rfl
        | _ + 2 => rfl
    rw [hB h hh, hθ, CSmat_zero, bd_one, Matrix.mul_one, Matrix.mul_one]

/-- a complete valid CSD record for `X = CZ(1, 2)` on three qubits, `iso = 0`: one top `cossin`, two
multiplexed `cossin` pairs, four `UCGate` leaves. -/
theorem csynth_cz3 : ∃ (tape : Tape ℝ) (leaves : List (Leaf ℂ)),
    CsdSynth (.one 3 0 (CZtop 1 : Matrix (QI 3) (QI 3) ℂ)) tape leaves ∧ tape.length = 5
      ∧ leaves.length = 4 := by
  obtain ⟨lL, hlL, hL⟩ := list_trivial (altern (fun _ => (1 : Matrix (QI 2) (QI 2) ℂ)) (fun _ => 1))
    (by intro h _; unfold altern; split <;> rfl)
  obtain ⟨lR, hlR, hR⟩ := list_trivial
    (altern (fun _ => (1 : Matrix (QI 2) (QI 2) ℂ)) (fun _ => Zlow 1 * Zlow 1))
    (by intro h _; unfold altern; split
        · exact Zh_mul_Zh (κ := QI 1)
        · rfl)
  refine ⟨_, _, CsdSynth.node 0 (CZtop 1) 1 (Zlow 1) 1 1 [0, 0, 0, 0] _ _ _ _ ?_ hL hR, rfl,
    by simp [hlL, hlR]⟩
  have hθ : (fun j => ([0, 0, 0, 0] : List ℝ).getD j 0) = fun _ => (0 : ℝ) := by
    funext i
    match i with
    | 0 | 1 | 2 | 3 => rfl
    | _ + 4 => rfl
  rw [hθ, CSmat_zero, bd_one, Matrix.mul_one, Matrix.mul_one]
  rfl

end Qclib.Uni
