import QclibModel.Model.SparsePivot
import QclibModel.Proofs.SparseSelect
/-
  C06 — pivot.py: bit-level description of `_next_state` on one key and its consequences
  (the pivot goes to the free low-block index, low-block keys stay, exit condition).
-/
namespace Qclib.Sparse
open Qclib

variable {α : Type}

/-- the key after the CX fan (`n_index` before the MCX test) -/
def fanKey (d : Nat) (cv : Bool) (tcx : List Nat) (index : Str) : Str :=
  if bitAt index d == cv then
    (List.range index.length).map (fun k => if tcx.contains k then !(bitAt index k) else bitAt index k)
  else index

theorem fanKey_length (d : Nat) (cv : Bool) (tcx : List Nat) (s : Str) :
    (fanKey d cv tcx s).length = s.length := by
  unfold fanKey; split <;> simp

theorem bitAt_map_range (n : Nat) (f : Nat → Bool) (i : Nat) :
    bitAt ((List.range n).map f) i = if i < n then f i else false := by
  unfold bitAt
  rw [List.getD_eq_getElem?_getD]
  by_cases h : i < n
  · simp [h]
  · simp [h]

theorem bitAt_fanKey (d : Nat) (cv : Bool) (tcx : List Nat) (s : Str) (i : Nat) :
    bitAt (fanKey d cv tcx s) i =
      if (bitAt s d == cv) && tcx.contains i && decide (i < s.length) then !bitAt s i else bitAt s i := by
  unfold fanKey
  by_cases hc : (bitAt s d == cv) = true
  · rw [if_pos hc, bitAt_map_range]
    by_cases hi : i < s.length
    · simp [hc, hi]
    · simp [hi, bitAt_ge s i (by omega)]
  · simp [hc]

theorem nextKey_eq (d : Nat) (cv : Bool) (tcx : List Nat) (lo : Nat) (zero s : Str) :
    nextKey d cv tcx lo zero s =
      if (fanKey d cv tcx s).drop lo == zero.drop lo then
        (fanKey d cv tcx s).take d ++ [!(bitAt s d)] ++ (fanKey d cv tcx s).drop (d + 1)
      else fanKey d cv tcx s := rfl

theorem nextKey_length (d : Nat) (cv : Bool) (tcx : List Nat) (lo : Nat) (zero s : Str)
    (hd : d < s.length) : (nextKey d cv tcx lo zero s).length = s.length := by
  rw [nextKey_eq]
  split
  · rw [take_cons_drop_eq_set _ _ _ (by rw [fanKey_length]; exact hd), List.length_set, fanKey_length]
  · exact fanKey_length _ _ _ _

/-- the MCX with its X sandwich fires iff the key equals `index_zero` on the low block -/
theorem drop_beq_iff (a b : Str) (lo : Nat) (hl : a.length = b.length) :
    (a.drop lo == b.drop lo) = true ↔ ∀ k, lo ≤ k → bitAt a k = bitAt b k := by
  rw [beq_iff_eq]
  constructor
  · intro h k hk
    have : bitAt (a.drop lo) (k - lo) = bitAt (b.drop lo) (k - lo) := by rw [h]
    simp only [bitAt, List.getD_eq_getElem?_getD, List.getElem?_drop] at this
    have e : lo + (k - lo) = k := by omega
    rw [e] at this
    simpa [bitAt, List.getD_eq_getElem?_getD] using this
  · intro h
    apply eq_of_bitAt _ _ (by simp [hl])
    intro j
    have := h (lo + j) (by omega)
    simpa [bitAt, List.getD_eq_getElem?_getD, List.getElem?_drop] using this

theorem bitAt_nextKey (d : Nat) (cv : Bool) (tcx : List Nat) (lo : Nat) (zero s : Str)
    (hd : d < s.length) (i : Nat) :
    bitAt (nextKey d cv tcx lo zero s) i =
      if ((fanKey d cv tcx s).drop lo == zero.drop lo) = true ∧ i = d then !bitAt s d
      else bitAt (fanKey d cv tcx s) i := by
  rw [nextKey_eq]
  by_cases hf : ((fanKey d cv tcx s).drop lo == zero.drop lo) = true
  · rw [if_pos hf, take_cons_drop_eq_set _ _ _ (by rw [fanKey_length]; exact hd),
      bitAt_set _ _ _ _ (by rw [fanKey_length]; exact hd)]
    by_cases e : i = d
    · simp [hf, e]
    · simp [e]
  · rw [if_neg hf]; simp [hf]

/-- data of one `_pivoting` call as the model computes them from `index_nonzero`, `index_zero` -/
structure PivotChoice (n t : Nat) (nz zero : Str) where
  d : Nat
  cv : Bool
  tcx : List Nat
  hd : d < n - t
  hcv : cv = bitAt nz d
  hdiff : bitAt nz d ≠ bitAt zero d
  htcx : ∀ k, k < n → (tcx.contains k = true ↔ (k ≠ d ∧ bitAt nz k ≠ bitAt zero k))

/-- **the pivot lands on the free index**: `_next_state` maps `index_nonzero` to `index_zero`. -/
theorem nextKey_pivot (n t : Nat) (nz zero : Str) (hnz : nz.length = n) (hz : zero.length = n)
    (c : PivotChoice n t nz zero) :
    nextKey c.d c.cv c.tcx (n - t) zero nz = zero := by
  have hdn : c.d < nz.length := by have := c.hd; omega
  have hfan : ∀ i, i ≠ c.d → bitAt (fanKey c.d c.cv c.tcx nz) i = bitAt zero i := by
    intro i hi
    rw [bitAt_fanKey]
    by_cases hin : i < n
    · have hc := c.htcx i hin
      by_cases hne : bitAt nz i = bitAt zero i
      · have : c.tcx.contains i = false := by
          cases hcon : c.tcx.contains i
          · rfl
          · exact absurd hne (hc.mp hcon).2
        rw [this]; simp [hne]
      · have : c.tcx.contains i = true := hc.mpr ⟨hi, hne⟩
        rw [this, c.hcv, hnz]
        simp only [beq_self_eq_true, hin, decide_true, Bool.and_self, if_true]
        cases h1 : bitAt nz i <;> cases h2 : bitAt zero i <;> simp_all
    · have e1 := bitAt_ge nz i (by omega)
      have e2 := bitAt_ge zero i (by omega)
      simp [hin, hnz, e1, e2]
  have hfire : ((fanKey c.d c.cv c.tcx nz).drop (n - t) == zero.drop (n - t)) = true := by
    rw [drop_beq_iff _ _ _ (by rw [fanKey_length, hnz, hz])]
    intro k hk
    exact hfan k (by have := c.hd; omega)
  apply eq_of_bitAt _ _ (by rw [nextKey_length _ _ _ _ _ _ hdn, hnz, hz])
  intro i
  rw [bitAt_nextKey _ _ _ _ _ _ hdn]
  by_cases e : i = c.d
  · subst e
    rw [if_pos ⟨hfire, rfl⟩]
    have := c.hdiff
    cases h1 : bitAt nz c.d <;> cases h2 : bitAt zero c.d <;> simp_all
  · rw [if_neg (fun h => e h.2)]
    exact hfan i e

/-- low block: the first `n − t` characters are `'0'` -/
def inLow (n t : Nat) (s : Str) : Prop := ∀ i, i < n - t → bitAt s i = false

/-- **low-block keys other than `index_zero` are not moved** (so the pivot never lands on an
occupied index and amplitudes already in place stay). -/
theorem nextKey_low_fixed (n t : Nat) (nz zero : Str) (hz : zero.length = n)
    (hzlow : inLow n t zero) (c : PivotChoice n t nz zero) (s : Str) (hs : s.length = n)
    (hlow : inLow n t s) (hne : s ≠ zero) :
    nextKey c.d c.cv c.tcx (n - t) zero s = s := by
  have hdn : c.d < s.length := by have := c.hd; omega
  have hcvt : c.cv = true := by
    have h0 := hzlow c.d c.hd
    have := c.hdiff
    rw [c.hcv]
    cases h1 : bitAt nz c.d
    · rw [h1, h0] at this; exact absurd rfl this
    · rfl
  have hsd : bitAt s c.d = false := hlow c.d c.hd
  have hfan : fanKey c.d c.cv c.tcx s = s := by
    unfold fanKey; rw [hsd, hcvt]; rfl
  rw [nextKey_eq, hfan]
  have : ¬ ((s.drop (n - t) == zero.drop (n - t)) = true) := by
    rw [drop_beq_iff _ _ _ (by rw [hs, hz])]
    intro h
    apply hne
    apply eq_of_bitAt _ _ (by rw [hs, hz])
    intro j
    by_cases hj : j < n - t
    · rw [hlow j hj, hzlow j hj]
    · exact h j (by omega)
  rw [if_neg this]

/-- `int(key, 2)` of a key with `k` leading zeros is below `2^(len − k)` -/
theorem strToNat_lt (s : Str) : strToNat s < 2 ^ s.length := by
  unfold strToNat
  suffices h : ∀ (l : Str) (acc : Nat),
      l.foldl (fun acc b => 2 * acc + (if b then 1 else 0)) acc < (acc + 1) * 2 ^ l.length by
    simpa using h s 0
  intro l
  induction l with
  | nil => intro acc; simp
  | cons b l ih =>
    intro acc
    simp only [List.foldl_cons, List.length_cons]
    have := ih (2 * acc + (if b then 1 else 0))
    have h2 : (2 * acc + (if b = true then 1 else 0) + 1) * 2 ^ l.length ≤ (acc + 1) * 2 ^ (l.length + 1) := by
      rw [pow_succ]
      have : (2 * acc + (if b = true then 1 else 0) + 1) ≤ (acc + 1) * 2 := by split <;> omega
      calc _ ≤ (acc + 1) * 2 * 2 ^ l.length := Nat.mul_le_mul_right _ this
        _ = _ := by ring
    omega

theorem strToNat_replicate_append (k : Nat) (s : Str) :
    strToNat (List.replicate k false ++ s) = strToNat s := by
  unfold strToNat
  rw [List.foldl_append]
  congr 1
  induction k with
  | zero => rfl
  | succ k ih => simp [List.replicate_succ, ih]

/-- **exit condition**: when `_get_index_nz` returns `None`, every key of the tracked state is an
integer below `2^t`, so the dense hand-off on `t` qubits loses nothing. -/
theorem exit_all_low (n t : Nat) (ht : t ≤ n) (st : Dict α) (hlen : ∀ k ∈ st.keys, k.length = n)
    (hexit : getIndexNz (n - t) st = none) : ∀ k ∈ st.keys, strToNat k < 2 ^ t := by
  intro k hk
  unfold getIndexNz at hexit
  rw [List.find?_eq_none] at hexit
  have h := hexit k hk
  have hk' : k.take (n - t) = List.replicate (n - t) false := by simpa using h
  have : k = List.replicate (n - t) false ++ k.drop (n - t) := by
    conv_lhs => rw [← List.take_append_drop (n - t) k]
    rw [hk']
  rw [this, strToNat_replicate_append]
  have hl : (k.drop (n - t)).length = t := by rw [List.length_drop, hlen k hk]; omega
  have := strToNat_lt (k.drop (n - t))
  rwa [hl] at this

end Qclib.Sparse

namespace Qclib.Sparse
open Qclib
variable {α : Type}

theorem mem_drop_range_iff (k n m : Nat) : k ∈ (List.range n).drop m ↔ m ≤ k ∧ k < n := by
  rw [List.range_eq_range', List.drop_range', List.mem_range'_1]
  omega

/-- The model's `_pivoting` makes a legitimate choice (`index_differ` is found among the high
positions, `ctrl_state` is the pivot's bit there, `target_cx` are exactly the other differing
positions) and its new state is `_next_state` with that choice. -/
theorem pivoting_choice (n t : Nat) (aux : Bool) (nz zero : Str) (st : Dict α)
    (hzlow : inLow n t zero) (hnzhigh : ¬ inLow n t nz) :
    ∃ c : PivotChoice n t nz zero,
      (pivoting n t aux nz zero st).2.st = nextState c.d c.cv c.tcx (n - t) zero st ∧
      (pivoting n t aux nz zero st).2.differ = c.d ∧ (pivoting n t aux nz zero st).2.cv = c.cv := by
  have hex : ∃ k, k < n - t ∧ bitAt nz k ≠ bitAt zero k := by
    by_contra h
    apply hnzhigh
    intro i hi
    by_contra hb
    exact h ⟨i, hi, by rw [hzlow i hi]; exact hb⟩
  obtain ⟨k0, hk0, hk0ne⟩ := hex
  cases hfind : (List.range (n - t)).find? (fun k => bitAt nz k != bitAt zero k) with
  | none =>
    rw [List.find?_eq_none] at hfind
    have := hfind k0 (List.mem_range.mpr hk0)
    simp at this
    exact absurd this hk0ne
  | some d =>
    have hd_mem := List.mem_of_find?_eq_some hfind
    have hd_p := List.find?_some hfind
    rw [List.mem_range] at hd_mem
    have hdne : bitAt nz d ≠ bitAt zero d := by simpa using hd_p
    let tcx := (List.range (n - t)).filter (fun k => d != k && bitAt nz k != bitAt zero k)
                ++ ((List.range n).drop (n - t)).filter (fun k => bitAt nz k != bitAt zero k)
    refine ⟨⟨d, bitAt nz d, tcx, hd_mem, rfl, hdne, ?_⟩, ?_, ?_, ?_⟩
    · intro k hk
      rw [List.contains_iff_mem]
      simp only [tcx, List.mem_append, List.mem_filter, List.mem_range, mem_drop_range_iff k n (n - t)]
      constructor
      · rintro (⟨h1, h2⟩ | ⟨⟨h1, _⟩, h2⟩)
        · simp only [Bool.and_eq_true, bne_iff_ne, ne_eq] at h2
          exact ⟨fun e => h2.1 e.symm, h2.2⟩
        · exact ⟨by omega, by simpa using h2⟩
      · rintro ⟨h1, h2⟩
        by_cases hk' : k < n - t
        · left; refine ⟨hk', ?_⟩
          simp only [Bool.and_eq_true, bne_iff_ne, ne_eq]
          exact ⟨fun e => h1 e.symm, h2⟩
        · right; exact ⟨⟨by omega, hk⟩, by simpa using h2⟩
    · simp only [pivoting, hfind, Option.getD_some]; rfl
    · simp only [pivoting, hfind, Option.getD_some]
    · simp only [pivoting, hfind, Option.getD_some]

end Qclib.Sparse
