import QclibModel.Proofs.WidthLinkCore
import QclibModel.Model.Mcsu
/-
  C15 link for C04 — the executable gate-list generators of `Model/Mcsu.lean` (`ldmcsu`,
  `ldmcSpecial`, `multiTarget`), instantiated as `Drivers/C04.lean` instantiates them (controls on
  wires `0..k-1`, target(s) right after), only touch wires below the width the class declares
  (`Widths.declaredWidth`), and touch the top wire (so the width is tight).  Wires of a skeleton
  gate: `msgWires` (an `mcxv` / `lmcx` sub-circuit is appended on exactly its wire list `ws`).
  Core Lean only.  Helper names carry the prefix `mcsu_`.
-/
namespace Qclib
namespace WL
open Mcsu

variable {K : Type}

/-- The wires a skeleton gate of `Mcsu.SG` is appended on. -/
def msgWires : SG K → List Nat
  | .x q | .h q | .un _ q => [q]
  | .cx c t | .cun _ c t _ => [c, t]
  | .ccx a b t => [a, b, t]
  | .mcxv _ _ ws _ _ _ => ws
  | .lmcx _ ws _ _ => ws

/-- Every wire of the gate lies in the wire set `S`. -/
def mcsu_GIn (S : List Nat) (g : SG K) : Prop := ∀ w ∈ msgWires g, w ∈ S

/-- Every wire of every gate lies in the wire set `S`. -/
def mcsu_In (S : List Nat) (c : List (SG K)) : Prop := ∀ g ∈ c, mcsu_GIn S g

variable {S : List Nat}

theorem mcsu_in_nil : mcsu_In S ([] : List (SG K)) := fun _ h => absurd h List.not_mem_nil

theorem mcsu_in_cons {g : SG K} {c : List (SG K)} : mcsu_In S (g :: c) ↔ mcsu_GIn S g ∧ mcsu_In S c := by
  constructor
  · intro h
    exact ⟨h g List.mem_cons_self, fun g' hg' => h g' (List.mem_cons_of_mem _ hg')⟩
  · rintro ⟨hg, hc⟩ g' hg'
    rcases List.mem_cons.mp hg' with rfl | h
    · exact hg
    · exact hc g' h

theorem mcsu_in_append {a b : List (SG K)} : mcsu_In S (a ++ b) ↔ mcsu_In S a ∧ mcsu_In S b := by
  constructor
  · intro h
    exact ⟨fun g hg => h g (List.mem_append_left _ hg), fun g hg => h g (List.mem_append_right _ hg)⟩
  · rintro ⟨ha, hb⟩ g hg
    rcases List.mem_append.mp hg with h | h
    · exact ha g h
    · exact hb g h

theorem mcsu_in_ite {p : Prop} [Decidable p] {a b : List (SG K)} (ha : mcsu_In S a) (hb : mcsu_In S b) :
    mcsu_In S (if p then a else b) := by
  split
  · exact ha
  · exact hb

theorem mcsu_gin_mono {S' : List Nat} {g : SG K} (h : mcsu_GIn S g) (hs : ∀ w ∈ S, w ∈ S') : mcsu_GIn S' g :=
  fun w hw => hs w (h w hw)

theorem mcsu_in_mono {S' : List Nat} {c : List (SG K)} (h : mcsu_In S c) (hs : ∀ w ∈ S, w ∈ S') : mcsu_In S' c :=
  fun g hg => mcsu_gin_mono (h g hg) hs

theorem mcsu_below_of_in {n : Nat} {c : List (SG K)} (h : mcsu_In S c) (hs : ∀ w ∈ S, w < n) :
    Below msgWires n c :=
  fun g hg w hw => hs w (h g hg w hw)

/-! ### Wire slicing -/

theorem mcsu_mem_pySlice {α : Type} {l : List α} {a b : Nat} {x : α} (h : x ∈ pySlice l a b) : x ∈ l :=
  List.mem_of_mem_take (List.mem_of_mem_drop h)

theorem mcsu_mem_wires1 {cw ts : List Nat} {w : Nat} (h : w ∈ wires1 cw ts) : w ∈ cw ++ ts := by
  unfold wires1 at h
  simp only [List.mem_append] at h ⊢
  rcases h with (h | h) | h
  · exact Or.inl (List.mem_of_mem_take h)
  · exact Or.inl (mcsu_mem_pySlice h)
  · exact Or.inr h

theorem mcsu_mem_wires2 {cw ts : List Nat} {w : Nat} (h : w ∈ wires2 cw ts) : w ∈ cw ++ ts := by
  unfold wires2 at h
  simp only [List.mem_append] at h ⊢
  rcases h with (h | h) | h
  · exact Or.inl (List.mem_of_mem_drop h)
  · exact Or.inl (mcsu_mem_pySlice h)
  · exact Or.inr h

theorem mcsu_ts_sub_wires1 {cw ts : List Nat} {w : Nat} (h : w ∈ ts) : w ∈ wires1 cw ts := by
  unfold wires1
  exact List.mem_append_right _ h

theorem mcsu_gin_mcxHalf1 (cw ts : List Nat) (cs : Option (List Bool)) :
    mcsu_GIn (cw ++ ts) (mcxHalf1 cw ts cs : SG K) := fun _ hw => mcsu_mem_wires1 hw

theorem mcsu_gin_mcxHalf2 (cw ts : List Nat) (cs : Option (List Bool)) (ao inv : Bool) :
    mcsu_GIn (cw ++ ts) (mcxHalf2 cw ts cs ao inv : SG K) := fun _ hw => mcsu_mem_wires2 hw

theorem mcsu_unGate_eq {o : ROps K} {m : CMat K} {q : Nat} {g : SG K} (h : unGate o m q = some g) :
    g = .un m q := by
  unfold unGate at h
  split at h
  · exact (Option.some.inj h).symm
  · cases h

theorem mcsu_gin_unGate {o : ROps K} {m : CMat K} {q : Nat} {g : SG K} (h : unGate o m q = some g)
    (hq : q ∈ S) : mcsu_GIn S g := by
  rw [mcsu_unGate_eq h]
  intro w hw
  simp only [msgWires, List.mem_singleton] at hw
  exact hw ▸ hq

theorem mcsu_gin_h {q : Nat} (hq : q ∈ S) : mcsu_GIn S (.h q : SG K) := by
  intro w hw
  simp only [msgWires, List.mem_singleton] at hw
  exact hw ▸ hq

theorem mcsu_gin_x {q : Nat} (hq : q ∈ S) : mcsu_GIn S (.x q : SG K) := by
  intro w hw
  simp only [msgWires, List.mem_singleton] at hw
  exact hw ▸ hq

theorem mcsu_gin_cx {a b : Nat} (ha : a ∈ S) (hb : b ∈ S) : mcsu_GIn S (.cx a b : SG K) := by
  intro w hw
  simp only [msgWires, List.mem_cons, List.not_mem_nil, or_false] at hw
  rcases hw with rfl | rfl
  · exact ha
  · exact hb

theorem mcsu_gin_cun {m : CMat K} {v : Bool} {a b : Nat} (ha : a ∈ S) (hb : b ∈ S) :
    mcsu_GIn S (.cun m a b v : SG K) := by
  intro w hw
  simp only [msgWires, List.mem_cons, List.not_mem_nil, or_false] at hw
  rcases hw with rfl | rfl
  · exact ha
  · exact hb

theorem mcsu_gin_ccx {a b c : Nat} (ha : a ∈ S) (hb : b ∈ S) (hc : c ∈ S) :
    mcsu_GIn S (.ccx a b c : SG K) := by
  intro w hw
  simp only [msgWires, List.mem_cons, List.not_mem_nil, or_false] at hw
  rcases hw with rfl | rfl | rfl
  · exact ha
  · exact hb
  · exact hc

theorem mcsu_t_mem (cw : List Nat) (t : Nat) : t ∈ cw ++ [t] :=
  List.mem_append_right _ List.mem_cons_self

/-! ### `Ldmcsu` -/

theorem mcsu_in_linearDepthMcv {o : ROps K} {u : CMat K} {cw : List Nat} {t : Nat}
    {cs : Option (List Bool)} {gso : Bool} {c : List (SG K)}
    (h : linearDepthMcv o u cw t cs gso = some c) : mcsu_In (cw ++ [t]) c := by
  simp only [linearDepthMcv] at h
  split at h
  · next ga gai h1 h2 =>
    cases h
    have hga := mcsu_gin_unGate (S := cw ++ [t]) h1 (mcsu_t_mem cw t)
    have hgai := mcsu_gin_unGate (S := cw ++ [t]) h2 (mcsu_t_mem cw t)
    refine mcsu_in_append.mpr ⟨mcsu_in_ite mcsu_in_nil (mcsu_in_cons.mpr ⟨mcsu_gin_mcxHalf1 _ _ _, mcsu_in_nil⟩), ?_⟩
    simp only [mcsu_in_cons]
    exact ⟨hga, mcsu_gin_mcxHalf2 _ _ _ _ _, hgai, mcsu_gin_mcxHalf1 _ _ _, hga, mcsu_gin_mcxHalf2 _ _ _ _ _, hgai,
      mcsu_in_nil⟩
  · cases h

theorem mcsu_uses_linearDepthMcv {o : ROps K} {u : CMat K} {cw : List Nat} {t : Nat}
    {cs : Option (List Bool)} {gso : Bool} {c : List (SG K)}
    (h : linearDepthMcv o u cw t cs gso = some c) : Uses msgWires t c := by
  simp only [linearDepthMcv] at h
  split at h
  · next ga gai h1 h2 =>
    cases h
    refine uses_append_right _ (uses_cons_self _ ?_)
    rw [mcsu_unGate_eq h1]
    exact List.mem_cons_self
  · cases h

theorem mcsu_in_halfLinearDepthMcv {o : ROps K} {x : K} {z : Cx K} {cw : List Nat} {t : Nat}
    {cs : Option (List Bool)} {inv : Bool} {c : List (SG K)}
    (h : halfLinearDepthMcv o x z cw t cs inv = some c) : mcsu_In (cw ++ [t]) c := by
  simp only [halfLinearDepthMcv] at h
  split at h
  · next gs gsi gh h1 h2 h3 =>
    have hgs := mcsu_gin_unGate (S := cw ++ [t]) h1 (mcsu_t_mem cw t)
    have hgsi := mcsu_gin_unGate (S := cw ++ [t]) h2 (mcsu_t_mem cw t)
    have hgh := mcsu_gin_unGate (S := cw ++ [t]) h3 (mcsu_t_mem cw t)
    split at h
    · cases h
      simp only [mcsu_in_cons]
      exact ⟨mcsu_gin_h (mcsu_t_mem cw t), hgs, mcsu_gin_mcxHalf2 _ _ _ _ _, hgsi, hgh, mcsu_in_nil⟩
    · cases h
      simp only [mcsu_in_cons]
      exact ⟨mcsu_gin_mcxHalf1 _ _ _, hgh, hgs, mcsu_gin_mcxHalf2 _ _ _ _ _, hgsi, mcsu_gin_h (mcsu_t_mem cw t), mcsu_in_nil⟩
  · cases h

theorem mcsu_in_ldmcsu {o : ROps K} {u : CMat K} {eig : Cx K × Cx K × CMat K} {cw : List Nat} {t : Nat}
    {cs : Option (List Bool)} {c : List (SG K)}
    (h : ldmcsu o u eig cw t cs = some c) : mcsu_In (cw ++ [t]) c := by
  unfold ldmcsu at h
  split at h
  · cases h
  · next c0 =>
    cases h
    exact mcsu_in_cons.mpr ⟨mcsu_gin_cun List.mem_cons_self (mcsu_t_mem _ t), mcsu_in_nil⟩
  · simp only [] at h
    split at h
    · split at h
      · next a b c' ha hb hc =>
        cases h
        exact mcsu_in_append.mpr ⟨mcsu_in_append.mpr ⟨mcsu_in_halfLinearDepthMcv ha, mcsu_in_linearDepthMcv hb⟩,
          mcsu_in_halfLinearDepthMcv hc⟩
      · cases h
    · split at h
      · next b hb =>
        cases h
        have hh : mcsu_In (cw ++ [t]) ([.h t] : List (SG K)) :=
          mcsu_in_cons.mpr ⟨mcsu_gin_h (mcsu_t_mem cw t), mcsu_in_nil⟩
        exact mcsu_in_append.mpr ⟨mcsu_in_append.mpr ⟨mcsu_in_ite hh mcsu_in_nil, mcsu_in_linearDepthMcv hb⟩,
          mcsu_in_ite hh mcsu_in_nil⟩
      · cases h

theorem mcsu_uses_ldmcsu {o : ROps K} {u : CMat K} {eig : Cx K × Cx K × CMat K} {cw : List Nat} {t : Nat}
    {cs : Option (List Bool)} {c : List (SG K)}
    (h : ldmcsu o u eig cw t cs = some c) : Uses msgWires t c := by
  unfold ldmcsu at h
  split at h
  · cases h
  · next c0 =>
    cases h
    exact uses_cons_self _ (List.mem_cons_of_mem _ List.mem_cons_self)
  · simp only [] at h
    split at h
    · split at h
      · next a b c' ha hb hc =>
        cases h
        exact uses_append_left _ (uses_append_right _ (mcsu_uses_linearDepthMcv hb))
      · cases h
    · split at h
      · next b hb =>
        cases h
        exact uses_append_left _ (uses_append_right _ (mcsu_uses_linearDepthMcv hb))
      · cases h

/-! ### `LdMcSpecialUnitary` -/

theorem mcsu_mem_zeroWires : ∀ {cw : List Nat} {r : List Bool} {zs : List Nat},
    zeroWires cw r = some zs → ∀ w ∈ zs, w ∈ cw
  | _, [], zs, h => by
    simp only [zeroWires] at h
    cases h
    intro w hw; cases hw
  | [], v :: r, zs, h => by
    simp only [zeroWires] at h
    split at h
    · exact mcsu_mem_zeroWires h
    · cases h
  | c :: cw, v :: r, zs, h => by
    simp only [zeroWires, Option.map_eq_some_iff] at h
    obtain ⟨zs', hz, rfl⟩ := h
    intro w hw
    have ih := mcsu_mem_zeroWires hz
    split at hw
    · exact List.mem_cons_of_mem _ (ih w hw)
    · rcases List.mem_cons.mp hw with rfl | hw
      · exact List.mem_cons_self
      · exact List.mem_cons_of_mem _ (ih w hw)

theorem mcsu_in_ctrlXsSG {cw : List Nat} {cs : List Bool} {xs : List (SG K)} {S : List Nat}
    (h : ctrlXsSG cw cs = some xs) (hs : ∀ w ∈ cw, w ∈ S) : mcsu_In S xs := by
  simp only [ctrlXsSG, Option.map_eq_some_iff] at h
  obtain ⟨zs, hz, rfl⟩ := h
  intro g hg
  obtain ⟨q, hq, rfl⟩ := List.mem_map.mp hg
  exact mcsu_gin_x (hs q (mcsu_mem_zeroWires hz q hq))

theorem mcsu_in_ctrlByAbc {o : ROps K} {z : Zyz K} {anc t : Nat} {c : List (SG K)} {S : List Nat}
    (h : ctrlByAbc o z anc t = some c) (ha : anc ∈ S) (ht : t ∈ S) : mcsu_In S c := by
  simp only [ctrlByAbc] at h
  split at h
  · next gc gb ga h1 h2 h3 =>
    cases h
    simp only [mcsu_in_cons]
    exact ⟨mcsu_gin_unGate h1 ht, mcsu_gin_cx ha ht, mcsu_gin_unGate h2 ht, mcsu_gin_cx ha ht, mcsu_gin_unGate h3 ht, mcsu_in_nil⟩
  · cases h

theorem mcsu_uses_ctrlByAbc {o : ROps K} {z : Zyz K} {anc t : Nat} {c : List (SG K)}
    (h : ctrlByAbc o z anc t = some c) : Uses msgWires t c := by
  simp only [ctrlByAbc] at h
  split at h
  · next gc gb ga h1 h2 h3 =>
    cases h
    refine uses_cons_self _ ?_
    rw [mcsu_unGate_eq h1]
    exact List.mem_cons_self
  · cases h

theorem mcsu_gin_smallMcx {cw : List Nat} {t : Nat} {g : SG K} {S : List Nat}
    (h : smallMcx cw t = some g) (hs : ∀ w ∈ cw, w ∈ S) (ht : t ∈ S) : mcsu_GIn S g := by
  unfold smallMcx at h
  split at h
  · cases h
    exact mcsu_gin_cx (hs _ List.mem_cons_self) ht
  · cases h
    exact mcsu_gin_ccx (hs _ List.mem_cons_self) (hs _ (List.mem_cons_of_mem _ List.mem_cons_self)) ht
  · cases h

theorem mcsu_getLastD_mem : ∀ {l : List Nat} {d : Nat}, l ≠ [] → l.getLastD d ∈ l
  | [], _, h => absurd rfl h
  | a :: l, d, _ => by
    rw [List.getLastD_cons]
    cases l with
    | nil => exact List.mem_cons_self
    | cons b l => exact List.mem_cons_of_mem _ (mcsu_getLastD_mem (List.cons_ne_nil b l))

theorem mcsu_in_ldmcSpecial {o : ROps K} {zu za zb zc : Zyz K} {cw : List Nat} {t : Nat}
    {cs : Option (List Bool)} {c : List (SG K)}
    (h : ldmcSpecial o zu za zb zc cw t cs = some c) : mcsu_In (cw ++ [t]) c := by
  simp only [ldmcSpecial] at h
  split at h
  · cases h
  · next hlen =>
    have hne : cw ≠ [] := fun h0 => hlen (by rw [h0]; rfl)
    have hsub : ∀ w ∈ cw, w ∈ cw ++ [t] := fun w hw => List.mem_append_left _ hw
    split at h
    · cases h
    · next xs hxs =>
      have hx := mcsu_in_ctrlXsSG (S := cw ++ [t]) hxs hsub
      simp only [Option.map_eq_some_iff] at h
      obtain ⟨b, hb, rfl⟩ := h
      refine mcsu_in_append.mpr ⟨mcsu_in_append.mpr ⟨hx, ?_⟩, hx⟩
      split at hb
      · split at hb
        · next gc gm gb ga h1 h2 h3 h4 =>
          cases hb
          have hm := mcsu_gin_smallMcx (S := cw ++ [t]) h2 hsub (mcsu_t_mem cw t)
          simp only [mcsu_in_cons]
          exact ⟨mcsu_gin_unGate h1 (mcsu_t_mem cw t), hm, mcsu_gin_unGate h3 (mcsu_t_mem cw t), hm,
            mcsu_gin_unGate h4 (mcsu_t_mem cw t), mcsu_in_nil⟩
        · cases hb
      · have hanc : cw.getLastD 0 ∈ cw ++ [t] := hsub _ (mcsu_getLastD_mem hne)
        have hl : ∀ (k : Nat) (ao inv : Bool), mcsu_GIn (cw ++ [t])
            (.lmcx k (cw.dropLast ++ [t] ++ [cw.getLastD 0]) ao inv : SG K) := by
          intro k ao inv w hw
          simp only [msgWires, List.mem_append, List.mem_singleton] at hw
          rcases hw with (hw | rfl) | rfl
          · exact hsub _ (List.mem_of_mem_take (List.dropLast_eq_take ▸ hw))
          · exact mcsu_t_mem cw _
          · exact hanc
        split at hb
        · next gc gb ga h1 h2 h3 =>
          cases hb
          simp only [mcsu_in_append, mcsu_in_cons]
          exact ⟨⟨⟨⟨mcsu_in_ctrlByAbc h1 hanc (mcsu_t_mem cw t), hl _ _ _, mcsu_in_nil⟩,
            mcsu_in_ctrlByAbc h2 hanc (mcsu_t_mem cw t)⟩, hl _ _ _, mcsu_in_nil⟩, mcsu_in_ctrlByAbc h3 hanc (mcsu_t_mem cw t)⟩
        · cases hb

theorem mcsu_uses_ldmcSpecial {o : ROps K} {zu za zb zc : Zyz K} {cw : List Nat} {t : Nat}
    {cs : Option (List Bool)} {c : List (SG K)}
    (h : ldmcSpecial o zu za zb zc cw t cs = some c) : Uses msgWires t c := by
  simp only [ldmcSpecial] at h
  split at h
  · cases h
  · split at h
    · cases h
    · next xs hxs =>
      simp only [Option.map_eq_some_iff] at h
      obtain ⟨b, hb, rfl⟩ := h
      refine uses_append_left _ (uses_append_right _ ?_)
      split at hb
      · split at hb
        · next gc gm gb ga h1 h2 h3 h4 =>
          cases hb
          refine uses_cons_self _ ?_
          rw [mcsu_unGate_eq h1]
          exact List.mem_cons_self
        · cases hb
      · split at hb
        · next gc gb ga h1 h2 h3 =>
          cases hb
          exact uses_append_left _ (uses_append_left _ (uses_append_left _ (uses_append_left _
            (mcsu_uses_ctrlByAbc h1))))
        · cases hb

/-! ### `MultiTargetMCSU2` -/

theorem mcsu_allSome_mem {α : Type} : ∀ {l : List (Option α)} {r : List α},
    allSome l = some r → ∀ a ∈ r, some a ∈ l
  | [], r, h => by
    simp only [allSome] at h
    cases h
    intro a ha; cases ha
  | none :: l, r, h => by
    simp only [allSome] at h
    cases h
  | some b :: l, r, h => by
    simp only [allSome, Option.map_eq_some_iff] at h
    obtain ⟨r', hr, rfl⟩ := h
    intro a ha
    rcases List.mem_cons.mp ha with rfl | ha
    · exact List.mem_cons_self
    · exact List.mem_cons_of_mem _ (mcsu_allSome_mem hr a ha)

theorem mcsu_getD_lt {l : List Nat} {n i : Nat} (hl : ∀ w ∈ l, w < n) (hn : 0 < n) :
    l.getD i 0 < n := by
  rw [List.getD_eq_getElem?_getD]
  cases h : l[i]? with
  | none => exact hn
  | some a => exact hl a (List.mem_of_getElem? h)

/-- The gates of an `allSome` of `unGate`s over an indexed list sit on the wires `base + i`,
`i <` the length of the list. -/
theorem mcsu_below_allSome_unGate {o : ROps K} {ms : List (CMat K)} {f : CMat K → CMat K} {base n : Nat}
    {r : List (SG K)}
    (h : allSome ((ms.zipIdx).map (fun (p : CMat K × Nat) => unGate o (f p.1) (base + p.2))) = some r)
    (hn : base + ms.length ≤ n) : Below msgWires n r := by
  intro g hg w hw
  have hm := mcsu_allSome_mem h g hg
  obtain ⟨⟨m, i⟩, hmi, hgi⟩ := List.mem_map.mp hm
  have hi := (List.mem_zipIdx' hmi).1
  rw [mcsu_unGate_eq hgi] at hw
  simp only [msgWires, List.mem_singleton] at hw
  omega

theorem mcsu_below_mcxHalf1 {cw ts : List Nat} {cs : Option (List Bool)} {n : Nat}
    (hcw : ∀ w ∈ cw, w < n) (hts : ∀ w ∈ ts, w < n) :
    ∀ w ∈ msgWires (mcxHalf1 cw ts cs : SG K), w < n := by
  intro w hw
  rcases List.mem_append.mp (mcsu_gin_mcxHalf1 cw ts cs w hw) with h | h
  · exact hcw w h
  · exact hts w h

theorem mcsu_below_mcxHalf2 {cw ts : List Nat} {cs : Option (List Bool)} {ao inv : Bool} {n : Nat}
    (hcw : ∀ w ∈ cw, w < n) (hts : ∀ w ∈ ts, w < n) :
    ∀ w ∈ msgWires (mcxHalf2 cw ts cs ao inv : SG K), w < n := by
  intro w hw
  rcases List.mem_append.mp (mcsu_gin_mcxHalf2 cw ts cs ao inv w hw) with h | h
  · exact hcw w h
  · exact hts w h

/-- General form: controls and targets below `n`, and room for one A-gate wire per unitary after
the controls (`cw.length + us.length ≤ n`). -/
theorem mcsu_below_multiTarget {o : ROps K} {us : List (CMat K)} {cw ts : List Nat}
    {cs : Option (List Bool)} {c : List (SG K)} {n : Nat}
    (h : multiTarget o us cw ts cs = some c)
    (hcw : ∀ w ∈ cw, w < n) (hts : ∀ w ∈ ts, w < n) (hlen : cw.length + us.length ≤ n) :
    Below msgWires n c := by
  unfold multiTarget at h
  split at h
  · cases h
    intro g hg w hw
    obtain ⟨⟨u, i⟩, hui, rfl⟩ := List.mem_map.mp hg
    have hi := (List.mem_zipIdx' hui).1
    have hn : 0 < n := by omega
    simp only [msgWires, List.mem_cons, List.not_mem_nil, or_false] at hw
    rcases hw with rfl | rfl
    · exact mcsu_getD_lt hcw hn
    · exact mcsu_getD_lt hts hn
  · simp only [] at h
    split at h
    · next ga gai hga hgai =>
      cases h
      have hhs : Below msgWires n ((us.zipIdx).flatMap (fun (p : CMat K × Nat) =>
          if !secondaryReal o p.1 && mainReal o p.1 then [(SG.h (ts.getD p.2 0) : SG K)] else [])) := by
        refine below_flatMap ?_
        rintro ⟨u, i⟩ hui
        have hi := (List.mem_zipIdx' hui).1
        refine below_ite (fun _ => below_singleton.mpr ?_) (fun _ => below_nil)
        intro w hw
        simp only [msgWires, List.mem_singleton] at hw
        rw [hw]
        exact mcsu_getD_lt hts (by omega)
      have hl : cw.length + (us.map (fun u => computeGateA o (getXZ o u).1 (getXZ o u).2)).length ≤ n := by
        rw [List.length_map]; exact hlen
      have h1 := mcsu_below_allSome_unGate (f := fun m => m) hga hl
      have h2 := mcsu_below_allSome_unGate (f := fun m => adj o m) hgai hl
      simp only [below_append, below_cons]
      exact ⟨⟨⟨⟨⟨⟨⟨⟨⟨hhs, mcsu_below_mcxHalf1 hcw hts, below_nil⟩, h1⟩, mcsu_below_mcxHalf2 hcw hts, below_nil⟩,
        h2⟩, mcsu_below_mcxHalf1 hcw hts, below_nil⟩, h1⟩, mcsu_below_mcxHalf2 hcw hts, below_nil⟩, h2⟩, hhs⟩
    · cases h

/-- General form of tightness: the `i`-th target wire (`i <` number of unitaries) is touched. -/
theorem mcsu_uses_multiTarget {o : ROps K} {us : List (CMat K)} {cw ts : List Nat}
    {cs : Option (List Bool)} {c : List (SG K)} {i w : Nat}
    (h : multiTarget o us cw ts cs = some c) (hi : i < us.length) (hw : ts[i]? = some w) :
    Uses msgWires w c := by
  unfold multiTarget at h
  split at h
  · cases h
    refine ⟨SG.cun us[i] (cw.getD 0 0) (ts.getD i 0) (oneCtrlVal cs), ?_, ?_⟩
    · refine List.mem_map.mpr ⟨(us[i], i), ?_, rfl⟩
      rw [List.mem_zipIdx_iff_getElem?]
      exact List.getElem?_eq_getElem hi
    · simp only [msgWires, List.getD_eq_getElem?_getD, hw, Option.getD_some]
      exact List.mem_cons_of_mem _ List.mem_cons_self
  · simp only [] at h
    split at h
    · next ga gai hga hgai =>
      cases h
      simp only [List.append_assoc]
      refine uses_append_right _ (uses_cons_self _ ?_)
      exact mcsu_ts_sub_wires1 (List.mem_of_getElem? hw)
    · cases h

/-! ### Final theorems: the C04 generators, instantiated as in `Drivers/C04.lean`, stay below the
declared width of their class and touch its top wire -/

theorem mcsu_lt_of_mem_range_append {k w : Nat} (h : w ∈ List.range k ++ [k]) : w < k + 1 := by
  rcases List.mem_append.mp h with h | h
  · exact Nat.lt_succ_of_lt (List.mem_range.mp h)
  · rw [List.mem_singleton.mp h]; exact Nat.lt_succ_self k

/-- `Ldmcsu`: for every number of controls `k`, every matrix, eigen-data, real-number operations and
control string, when the generator (controls on wires `0..k-1`, target on wire `k`, as the driver
calls it) returns a gate list, every gate of it only touches wires below the width the class
declares (`k + 1`). -/
theorem ldmcsu_below (o : ROps K) (u : CMat K) (eig : Cx K × Cx K × CMat K) (k : Nat)
    (cs : Option (List Bool)) (c : List (SG K))
    (h : ldmcsu o u eig (List.range k) k cs = some c) :
    Below msgWires (Widths.declaredWidth .ldmcsu { k := k }) c :=
  mcsu_below_of_in (mcsu_in_ldmcsu h) (fun _ hw => mcsu_lt_of_mem_range_append hw)

/-- `Ldmcsu`, tightness: the top wire `k` (the target) is touched by some gate, so the declared
width `k + 1` cannot be lowered. -/
theorem ldmcsu_uses_top (o : ROps K) (u : CMat K) (eig : Cx K × Cx K × CMat K) (k : Nat)
    (cs : Option (List Bool)) (c : List (SG K))
    (h : ldmcsu o u eig (List.range k) k cs = some c) :
    Uses msgWires k c :=
  mcsu_uses_ldmcsu h

/-- `LdMcSpecialUnitary`: for every `k`, all ZYZ angles, real-number operations and control string,
when the generator (controls `0..k-1`, target `k`) returns a gate list, every gate of it only
touches wires below the declared width `k + 1`. -/
theorem ldmcSpecial_below (o : ROps K) (zu za zb zc : Zyz K) (k : Nat)
    (cs : Option (List Bool)) (c : List (SG K))
    (h : ldmcSpecial o zu za zb zc (List.range k) k cs = some c) :
    Below msgWires (Widths.declaredWidth .ldMcSpecialUnitary { k := k }) c :=
  mcsu_below_of_in (mcsu_in_ldmcSpecial h) (fun _ hw => mcsu_lt_of_mem_range_append hw)

/-- `LdMcSpecialUnitary`, tightness: the top wire `k` (the target) is touched by some gate. -/
theorem ldmcSpecial_uses_top (o : ROps K) (zu za zb zc : Zyz K) (k : Nat)
    (cs : Option (List Bool)) (c : List (SG K))
    (h : ldmcSpecial o zu za zb zc (List.range k) k cs = some c) :
    Uses msgWires k c :=
  mcsu_uses_ldmcSpecial h

/-- `MultiTargetMCSU2`: for every number of controls `k` (also `0` and `1`) and of targets `t`
(also `0`), one unitary per target (`us.length = t`), controls on wires `0..k-1` and targets on
`k..k+t-1` as the driver calls it: when the generator returns a gate list, every gate of it only
touches wires below the declared width `k + t`.  (Without `us.length = t` this is false: with more
unitaries than targets the A-gates go on the wires `k + i`, `i < us.length`.) -/
theorem multiTarget_below (o : ROps K) (us : List (CMat K)) (k t : Nat)
    (cs : Option (List Bool)) (c : List (SG K)) (hus : us.length = t)
    (h : multiTarget o us (List.range k) ((List.range t).map (· + k)) cs = some c) :
    Below msgWires (Widths.declaredWidth .multiTargetMCSU2 { k := k, t := t }) c := by
  show Below msgWires (k + t) c
  refine mcsu_below_multiTarget h ?_ ?_ ?_
  · intro w hw
    exact Nat.lt_of_lt_of_le (List.mem_range.mp hw) (Nat.le_add_right k t)
  · intro w hw
    obtain ⟨i, hi, rfl⟩ := List.mem_map.mp hw
    have := List.mem_range.mp hi
    omega
  · rw [List.length_range, hus]; exact Nat.le_refl _

/-- `MultiTargetMCSU2`, tightness: with at least one target (`1 ≤ t`, one unitary per target) the
top wire `k + t - 1` (the last target) is touched by some gate. -/
theorem multiTarget_uses_top (o : ROps K) (us : List (CMat K)) (k t : Nat)
    (cs : Option (List Bool)) (c : List (SG K)) (hus : us.length = t) (ht : 1 ≤ t)
    (h : multiTarget o us (List.range k) ((List.range t).map (· + k)) cs = some c) :
    Uses msgWires (k + t - 1) c := by
  refine mcsu_uses_multiTarget (i := t - 1) h (by omega) ?_
  rw [List.getElem?_map, List.getElem?_range (by omega)]
  simp only [Option.map_some]
  congr 1
  omega

/-! ### Non-vacuity (concrete instances, closed by `decide`)

The toy `ROps Unit` below exists ONLY for these examples: its tests return constants, so that
`unGate` succeeds and the generators return `some` on concrete non-trivial parameters; the examples
then check the `Below`/`Uses` facts on the gate list actually produced.  `iz` is the constant answer
of `isZero`: `true` takes the "real secondary diagonal" branches, `false` the general-SU(2) ones. -/

/-- Toy real-number operations on `Unit` (non-vacuity examples only). -/
def mcsu_toyROps (iz : Bool) : ROps Unit :=
  { zero := (), one := (), two := (), add := fun _ _ => (), sub := fun _ _ => (),
    mul := fun _ _ => (), div := fun _ _ => (), neg := fun _ => (), sqrt := fun _ => (),
    cosH := fun _ => (), sinH := fun _ => (), root4 := fun _ _ => ((), ()),
    isZero := fun _ => iz, isNeg := fun _ => false, close := fun _ _ _ => true }

/-- Toy 2×2 matrix over `Unit` (non-vacuity examples only). -/
def mcsu_toyM : CMat Unit := ⟨⟨(), ()⟩, ⟨(), ()⟩, ⟨(), ()⟩, ⟨(), ()⟩⟩

/-- Toy ZYZ angles over `Unit` (non-vacuity examples only). -/
def mcsu_toyZ : Zyz Unit := ⟨(), (), ()⟩

-- `Ldmcsu`, k = 3 (real branch) and k = 7 (general branch, control string with zeros)
example : ∃ c, ldmcsu (mcsu_toyROps true) mcsu_toyM (⟨(), ()⟩, ⟨(), ()⟩, mcsu_toyM) (List.range 3) 3 none = some c
    ∧ c.length = 8 ∧ Below msgWires (Widths.declaredWidth .ldmcsu { k := 3 }) c
    ∧ Uses msgWires 3 c :=
  ⟨_, rfl, by decide, by decide, by decide⟩

example : ∃ c, ldmcsu (mcsu_toyROps false) mcsu_toyM (⟨(), ()⟩, ⟨(), ()⟩, mcsu_toyM) (List.range 7) 7
      (some [true, false, true, true, false, true, true]) = some c
    ∧ c.length = 18 ∧ Below msgWires (Widths.declaredWidth .ldmcsu { k := 7 }) c
    ∧ Uses msgWires 7 c :=
  ⟨_, rfl, by decide, by decide, by decide⟩

-- `LdMcSpecialUnitary`, k = 2 (small branch) and k = 7 (linear-MCX branch, control string with zeros)
example : ∃ c, ldmcSpecial (mcsu_toyROps true) mcsu_toyZ mcsu_toyZ mcsu_toyZ mcsu_toyZ (List.range 2) 2 none = some c
    ∧ c.length = 5 ∧ Below msgWires (Widths.declaredWidth .ldMcSpecialUnitary { k := 2 }) c
    ∧ Uses msgWires 2 c :=
  ⟨_, rfl, by decide, by decide, by decide⟩

example : ∃ c, ldmcSpecial (mcsu_toyROps true) mcsu_toyZ mcsu_toyZ mcsu_toyZ mcsu_toyZ (List.range 7) 7
      (some [true, false, true, true, false, true, true]) = some c
    ∧ c.length = 21 ∧ Below msgWires (Widths.declaredWidth .ldMcSpecialUnitary { k := 7 }) c
    ∧ Uses msgWires 7 c :=
  ⟨_, rfl, by decide, by decide, by decide⟩

-- `MultiTargetMCSU2`, k = 3, t = 2; k = 7, t = 2; and the one-control branch k = 1, t = 3
example : ∃ c, multiTarget (mcsu_toyROps false) [mcsu_toyM, mcsu_toyM] (List.range 3)
      ((List.range 2).map (· + 3)) none = some c
    ∧ c.length = 12
    ∧ Below msgWires (Widths.declaredWidth .multiTargetMCSU2 { k := 3, t := 2 }) c
    ∧ Uses msgWires (3 + 2 - 1) c :=
  ⟨_, rfl, by decide, by decide, by decide⟩

example : ∃ c, multiTarget (mcsu_toyROps false) [mcsu_toyM, mcsu_toyM] (List.range 7)
      ((List.range 2).map (· + 7)) none = some c
    ∧ c.length = 12
    ∧ Below msgWires (Widths.declaredWidth .multiTargetMCSU2 { k := 7, t := 2 }) c
    ∧ Uses msgWires (7 + 2 - 1) c :=
  ⟨_, rfl, by decide, by decide, by decide⟩

example : ∃ c, multiTarget (mcsu_toyROps true) [mcsu_toyM, mcsu_toyM, mcsu_toyM] (List.range 1)
      ((List.range 3).map (· + 1)) none = some c
    ∧ c.length = 3
    ∧ Below msgWires (Widths.declaredWidth .multiTargetMCSU2 { k := 1, t := 3 }) c
    ∧ Uses msgWires (1 + 3 - 1) c :=
  ⟨_, rfl, by decide, by decide, by decide⟩

-- The hypothesis `us.length = t` of `multiTarget_below` is needed: three unitaries on two
-- targets put an A-gate on wire `k + 2 = 4`, which is not below `k + t = 4`.
example : ∃ c, multiTarget (mcsu_toyROps false) [mcsu_toyM, mcsu_toyM, mcsu_toyM] (List.range 2)
      ((List.range 2).map (· + 2)) none = some c
    ∧ ¬ Below msgWires (Widths.declaredWidth .multiTargetMCSU2 { k := 2, t := 2 }) c :=
  ⟨_, rfl, by decide⟩


end WL
end Qclib
