import QclibModel.Proofs.IsometryCcdOrth
/-
  C03 — the WHOLE column-by-column circuit `_ccd(iso, n, m)` with the per-gate specifications as
  hypotheses, INCLUDING what `UCGate(…, up_to_diagonal=True)` really implements: every scheduled
  multiplexer (the MCG's and the UCG's) is followed by an unknown unimodular diagonal, which
  `_update_isometry` folds into the working isometry, and whose accumulated effect on the processed
  columns is what the closing `DiagonalGate(exp(-i·angle(diag)))` removes.

  The circuit is described by its data (`CcdData`): the 2×2 matrices of every scheduled gate, the
  two diagonals of every step, the closing diagonal.  `ccdCircuit D n m` is its action on a column
  (rows are numbers, as in `Model/Isometry.lean`: `applyOn`, `mcMat`, `ucMat`, `hasMcg`).  The
  specifications are
    * `Lemma2Spec`: each 2×2 matrix zeroes the component Lemma 2 (`C03_lemma2`) says it zeroes, in
      the column of the working isometry it was computed from (the trajectory includes all diagonals);
    * `UnitarySpec`: the 2×2 matrices are unitary, the diagonal entries unimodular;
    * the closing diagonal is `conj` of the final diagonal of the working isometry.
-/
namespace Qclib.Iso

open Finset

variable {R : Type} [CommRing R]

/-- pointwise multiplication by a diagonal. -/
def mulD (δ : Nat → R) (v : Nat → R) : Nat → R := fun r => δ r * v r

/-- the data of a run of `_ccd`. -/
structure CcdData (R : Type) where
  /-- `_mc_unitary(iso, k, i)` -/
  U : Nat → Nat → Mat2 R
  /-- block `j` of `_uc_unitaries(iso, n, k, i)` (only `j ≥ start` is used) -/
  L : Nat → Nat → Nat → Mat2 R
  /-- diagonal left by the MCG's `UCGate(up_to_diagonal=True)` of step `(k, i)` -/
  dm : Nat → Nat → Nat → R
  /-- diagonal left by the UCG's `UCGate(up_to_diagonal=True)` of step `(k, i)` -/
  du : Nat → Nat → Nat → R
  /-- entries of the closing `DiagonalGate` on the `m` low wires -/
  dz : Nat → R

/-- the column after the (optional) MCG of step `(k, i)` and its diagonal. -/
def afterMcD (D : CcdData R) (n k i : Nat) (w : Nat → R) : Nat → R :=
  if hasMcg k i then mulD (D.dm k i) (applyOn i (mcMat n k i (D.U k i)) w) else w

/-- step `(k, i)` of `_g_k` as the circuit really acts: MCG·diagonal (when scheduled), UCG·diagonal. -/
def stepD (D : CcdData R) (n k i : Nat) (w : Nat → R) : Nat → R :=
  mulD (D.du k i) (applyOn i (ucMat k i (D.L k i)) (afterMcD D n k i w))

/-- the first `s` steps of `G_k`. -/
def gkD (D : CcdData R) (n k : Nat) : Nat → (Nat → R) → (Nat → R)
  | 0, v => v
  | s + 1, v => stepD D n k s (gkD D n k s v)

/-- `G_{K-1} ⋯ G_0` on a column. -/
def sweepD (D : CcdData R) (n : Nat) : Nat → (Nat → R) → (Nat → R)
  | 0, v => v
  | K + 1, v => gkD D n K n (sweepD D n K v)

/-- `_ccd(iso, n, m)` before the final `inverse()`: `G_0, …, G_{2^m-1}`, then (only if `m > 0`) the
`DiagonalGate` on the wires `0 … m-1` (row `r` is multiplied by entry `r mod 2^m`). -/
def ccdCircuit (D : CcdData R) (n m : Nat) (v : Nat → R) : Nat → R :=
  if 0 < m then mulD (fun r => D.dz (r % 2 ^ m)) (sweepD D n (2 ^ m) v) else sweepD D n (2 ^ m) v

/-- **Lemma-2 specification along the run**: for every column `k < K` and step `i < n`, in the
column `k` of the working isometry as it is when the gate is computed (after `G_0 … G_{k-1}`, the
steps `< i` of `G_k`, and all their diagonals), the MCG matrix zeroes row `k + 2^i` and the UCG
blocks zero the non-`basis` row of their pair (after the MCG and its diagonal). -/
def Lemma2Spec (D : CcdData R) (n K : Nat) (F : Nat → Nat → R) : Prop :=
  ∀ k, k < K → ∀ i, i < n →
    (hasMcg k i = true → McZeroes k i (D.U k i) (gkD D n k i (sweepD D n k (F k)))) ∧
    UcZeroes n k i (D.L k i) (afterMcD D n k i (gkD D n k i (sweepD D n k (F k))))

/-- all 2×2 matrices unitary, all step diagonals unimodular. -/
def UnitarySpec (conj : R →+* R) (D : CcdData R) : Prop :=
  (∀ k i, IsUnitary2 conj (D.U k i)) ∧ (∀ k i j, IsUnitary2 conj (D.L k i j)) ∧
  (∀ k i r, conj (D.dm k i r) * D.dm k i r = 1) ∧ (∀ k i r, conj (D.du k i r) * D.du k i r = 1)

/-- the column is supported (on the rows `< 2^n`) on row `c` only. -/
def Single (n c : Nat) (u : Nat → R) : Prop := ∀ r, r < 2 ^ n → r ≠ c → u r = 0

/-! ### support -/

theorem supp_mulD (n k i : Nat) (δ w : Nat → R) (hw : Supp n k i w) : Supp n k i (mulD δ w) := by
  intro r hr hc
  show δ r * w r = 0
  rw [hw r hr hc, mul_zero]

theorem afterMcD_supp (D : CcdData R) (n k i : Nat) (hi : i < n) (hk : k < 2 ^ n) (w : Nat → R)
    (hw : Supp n k i w) : Supp n k i (afterMcD D n k i w) := by
  unfold afterMcD
  cases hm : hasMcg k i
  · simpa using hw
  · simp only [if_true]
    exact supp_mulD n k i _ _ (mc_step_supp n k i hi hk hm _ w hw)

theorem afterMcD_pivot (D : CcdData R) (n k i : Nat) (hi : i < n) (w : Nat → R)
    (hm : hasMcg k i = true) (hU : McZeroes k i (D.U k i) w) :
    afterMcD D n k i w (k + 2 ^ i) = 0 := by
  unfold afterMcD
  rw [if_pos hm]
  show _ * applyOn i (mcMat n k i (D.U k i)) w (k + 2 ^ i) = 0
  rw [mc_step_pivot n k i hi hm _ w hU, mul_zero]

/-- one step of the real circuit advances the support invariant. -/
theorem stepD_supp (D : CcdData R) (n k i : Nat) (hi : i < n) (hk : k < 2 ^ n) (w : Nat → R)
    (hw : Supp n k i w) (hU : hasMcg k i = true → McZeroes k i (D.U k i) w)
    (hL : UcZeroes n k i (D.L k i) (afterMcD D n k i w)) :
    Supp n k (i + 1) (stepD D n k i w) := by
  unfold stepD
  exact supp_mulD n k (i + 1) _ _
    (uc_step_supp n k i hi _ _ (afterMcD_supp D n k i hi hk w hw)
      (fun hm => afterMcD_pivot D n k i hi w hm (hU hm)) hL)

/-- along `G_k` of the real circuit, the column the gates were computed from keeps the invariant. -/
theorem gkD_supp (D : CcdData R) (n k : Nat) (hk : k < 2 ^ n) (v : Nat → R)
    (hv : ∀ r, r < k → v r = 0)
    (hspec : ∀ i, i < n →
      (hasMcg k i = true → McZeroes k i (D.U k i) (gkD D n k i v)) ∧
      UcZeroes n k i (D.L k i) (afterMcD D n k i (gkD D n k i v)))
    (s : Nat) (hs : s ≤ n) : Supp n k s (gkD D n k s v) := by
  induction s with
  | zero =>
    intro r _ hc
    rcases hc with hc | hc
    · simp [Nat.mod_one] at hc
    · exact hv r hc
  | succ s ih =>
    have hs' : s < n := by omega
    exact stepD_supp D n k s hs' hk _ (ih (by omega)) (hspec s hs').1 (hspec s hs').2

theorem gkD_single (D : CcdData R) (n k : Nat) (hk : k < 2 ^ n) (v : Nat → R)
    (hv : ∀ r, r < k → v r = 0)
    (hspec : ∀ i, i < n →
      (hasMcg k i = true → McZeroes k i (D.U k i) (gkD D n k i v)) ∧
      UcZeroes n k i (D.L k i) (afterMcD D n k i (gkD D n k i v))) :
    Single n k (gkD D n k n v) := by
  intro r hr hne
  apply gkD_supp D n k hk v hv hspec n (Nat.le_refl n) r hr
  rw [Nat.mod_eq_of_lt hr, Nat.mod_eq_of_lt hk]
  exact Or.inl hne

/-! ### processed columns keep their shape (their phase may change) -/

theorem stepD_single (D : CcdData R) (n k i c : Nat) (hi : i < n) (hk : k < 2 ^ n) (hc : c < k)
    (u : Nat → R) (hu : Single n c u) : Single n c (stepD D n k i u) := by
  have hvan : ∀ (w : Nat → R), Single n c w → ∀ r, k ≤ r → r < 2 ^ n → w r = 0 :=
    fun w hw r h1 h2 => hw r h2 (by omega)
  have h1 : Single n c (afterMcD D n k i u) := by
    unfold afterMcD
    cases hm : hasMcg k i
    · simpa using hu
    · simp only [if_true]
      intro r hr hne
      show _ * applyOn i (mcMat n k i (D.U k i)) u r = 0
      rw [applyOn_mc_preserves_lt n k i hi hk hm _ u (hvan u hu) r hr, hu r hr hne, mul_zero]
  intro r hr hne
  show _ * applyOn i (ucMat k i (D.L k i)) (afterMcD D n k i u) r = 0
  rw [applyOn_uc_preserves_lt n k i hi _ _ (hvan _ h1) r hr, h1 r hr hne, mul_zero]

theorem gkD_single_lt (D : CcdData R) (n k c s : Nat) (hs : s ≤ n) (hk : k < 2 ^ n) (hc : c < k)
    (u : Nat → R) (hu : Single n c u) : Single n c (gkD D n k s u) := by
  induction s with
  | zero => exact hu
  | succ s ih => exact stepD_single D n k s c (by omega) hk hc _ (ih (by omega))

/-! ### inner products -/

theorem ip_mulD (conj : R →+* R) (n : Nat) (δ u v : Nat → R) (hδ : ∀ r, conj (δ r) * δ r = 1) :
    ip conj n (mulD δ u) (mulD δ v) = ip conj n u v := by
  unfold ip mulD
  apply sum_congr rfl
  intro r _
  rw [map_mul]
  linear_combination (conj (u r) * v r) * hδ r

theorem ip_stepD (conj : R →+* R) (D : CcdData R) (hD : UnitarySpec conj D) (n k i : Nat)
    (hi : i < n) (u v : Nat → R) :
    ip conj n (stepD D n k i u) (stepD D n k i v) = ip conj n u v := by
  obtain ⟨hU, hL, hdm, hdu⟩ := hD
  have hmc : ip conj n (afterMcD D n k i u) (afterMcD D n k i v) = ip conj n u v := by
    unfold afterMcD
    cases hm : hasMcg k i
    · simp
    · simp only [if_true]
      rw [ip_mulD conj n _ _ _ (hdm k i)]
      apply ip_applyOn conj n i hi _ (pairConst_mcMat n k i hi _)
      intro r; unfold mcMat; split
      · exact hU k i
      · exact isUnitary2_one conj
  unfold stepD
  rw [ip_mulD conj n _ _ _ (hdu k i), ← hmc]
  apply ip_applyOn conj n i hi _ (pairConst_ucMat k i _)
  intro r; unfold ucMat; split
  · exact isUnitary2_one conj
  · exact hL k i _

theorem ip_gkD (conj : R →+* R) (D : CcdData R) (hD : UnitarySpec conj D) (n k s : Nat)
    (hs : s ≤ n) (u v : Nat → R) : ip conj n (gkD D n k s u) (gkD D n k s v) = ip conj n u v := by
  induction s with
  | zero => rfl
  | succ s ih =>
    show ip conj n (stepD D n k s _) (stepD D n k s _) = _
    rw [ip_stepD conj D hD n k s (by omega)]
    exact ih (by omega)

theorem ip_sweepD (conj : R →+* R) (D : CcdData R) (hD : UnitarySpec conj D) (n K : Nat)
    (u v : Nat → R) : ip conj n (sweepD D n K u) (sweepD D n K v) = ip conj n u v := by
  induction K with
  | zero => rfl
  | succ K ih =>
    show ip conj n (gkD D n K n _) (gkD D n K n _) = _
    rw [ip_gkD conj D hD n K n (Nat.le_refl n)]
    exact ih

/-! ### the sweep of the real circuit on an isometry -/

/-- **The sweep with the diagonals.**  Orthonormal columns `F 0 … F (K-1)`, `K ≤ 2^n`; data meeting
`Lemma2Spec` and `UnitarySpec`.  Then for every `K' ≤ K`, after `G_{K'-1} ⋯ G_0` (diagonals
included) every column `c < K'` is supported on row `c` only. -/
theorem sweepD_single (conj : R →+* R) (D : CcdData R) (n K : Nat) (hK : K ≤ 2 ^ n)
    (F : Nat → Nat → R) (hD : UnitarySpec conj D) (hspec : Lemma2Spec D n K F)
    (horth : ∀ c c', c < c' → c' < K → ip conj n (F c) (F c') = 0)
    (hnorm : ∀ c, c < K → ip conj n (F c) (F c) = 1) :
    ∀ K', K' ≤ K → ∀ c, c < K' → Single n c (sweepD D n K' (F c)) := by
  intro K'
  induction K' with
  | zero => intro _ c hc; omega
  | succ K' ih =>
    intro hK' c hc
    have ih' := ih (by omega)
    show Single n c (gkD D n K' n (sweepD D n K' (F c)))
    by_cases hcK : c = K'
    · subst hcK
      apply gkD_single D n c (by omega) _ _ (hspec c (by omega))
      -- the column being processed is orthogonal to the processed ones, hence vanishes above its pivot
      intro r hr
      have hsingle := ih' r hr
      have h0 : ip conj n (sweepD D n c (F r)) (sweepD D n c (F c)) = 0 := by
        rw [ip_sweepD conj D hD]; exact horth r c hr (by omega)
      have h1 : ip conj n (sweepD D n c (F r)) (sweepD D n c (F r)) = 1 := by
        rw [ip_sweepD conj D hD]; exact hnorm r (by omega)
      rw [ip_of_single conj n r (by omega) _ _ hsingle] at h0 h1
      calc sweepD D n c (F c) r
          = (conj (sweepD D n c (F r) r) * sweepD D n c (F r) r) * sweepD D n c (F c) r := by
            rw [h1, one_mul]
        _ = sweepD D n c (F r) r * (conj (sweepD D n c (F r) r) * sweepD D n c (F c) r) := by ring
        _ = 0 := by rw [h0, mul_zero]
    · exact gkD_single_lt D n K' c n (Nat.le_refl n) (by omega) (by omega) _ (ih' c (by omega))

/-- **`_ccd` as a whole (before `inverse()`).**  For an isometry with orthonormal columns
`F 0 … F (2^m - 1)` on `n ≥ m` qubits and a run whose gates meet their specifications:
(1) after all `G_k` — with every diagonal `UCGate(up_to_diagonal=True)` leaves behind — column `c`
of the working isometry is `φ_c·e_c` with `conj φ_c · φ_c = 1`;
(2) if the closing `DiagonalGate` holds `conj φ_c` (`exp(-i·angle φ_c)`), then for `m > 0` the whole
circuit maps column `c` to exactly `e_c` (for `m = 0` no diagonal is emitted and column `0` goes to
`φ_0·e_0`);
(3) the circuit preserves inner products of arbitrary columns (it is unitary), given that the
closing diagonal is unimodular. -/
theorem ccd_full (conj : R →+* R) (D : CcdData R) (n m : Nat) (hm : m ≤ n) (F : Nat → Nat → R)
    (hD : UnitarySpec conj D) (hspec : Lemma2Spec D n (2 ^ m) F)
    (horth : ∀ c c', c < c' → c' < 2 ^ m → ip conj n (F c) (F c') = 0)
    (hnorm : ∀ c, c < 2 ^ m → ip conj n (F c) (F c) = 1) :
    (∀ c, c < 2 ^ m → Single n c (sweepD D n (2 ^ m) (F c)) ∧
      conj (sweepD D n (2 ^ m) (F c) c) * sweepD D n (2 ^ m) (F c) c = 1) ∧
    ((∀ c, c < 2 ^ m → D.dz c = conj (sweepD D n (2 ^ m) (F c) c)) →
      ∀ c, c < 2 ^ m → ∀ r, r < 2 ^ n →
        ccdCircuit D n m (F c) r
          = if r = c then (if 0 < m then 1 else sweepD D n (2 ^ m) (F c) c) else 0) ∧
    ((∀ c, c < 2 ^ m → conj (D.dz c) * D.dz c = 1) →
      ∀ u v, ip conj n (ccdCircuit D n m u) (ccdCircuit D n m v) = ip conj n u v) := by
  have hK : 2 ^ m ≤ 2 ^ n := Nat.pow_le_pow_right (by decide) hm
  have hs := sweepD_single conj D n (2 ^ m) hK F hD hspec horth hnorm (2 ^ m) (Nat.le_refl _)
  have hph : ∀ c, c < 2 ^ m →
      conj (sweepD D n (2 ^ m) (F c) c) * sweepD D n (2 ^ m) (F c) c = 1 := by
    intro c hc
    have h1 : ip conj n (sweepD D n (2 ^ m) (F c)) (sweepD D n (2 ^ m) (F c)) = 1 := by
      rw [ip_sweepD conj D hD]; exact hnorm c hc
    rwa [ip_of_single conj n c (by omega) _ _ (hs c hc)] at h1
  refine ⟨fun c hc => ⟨hs c hc, hph c hc⟩, ?_, ?_⟩
  · intro hdz c hc r hr
    unfold ccdCircuit
    by_cases hm0 : 0 < m
    · rw [if_pos hm0, if_pos hm0]
      show D.dz (r % 2 ^ m) * sweepD D n (2 ^ m) (F c) r = _
      by_cases hrc : r = c
      · subst hrc
        rw [if_pos rfl, Nat.mod_eq_of_lt hc, hdz r hc, hph r hc]
      · rw [if_neg hrc, hs c hc r hr hrc, mul_zero]
    · rw [if_neg hm0, if_neg hm0]
      by_cases hrc : r = c
      · subst hrc; rw [if_pos rfl]
      · rw [if_neg hrc, hs c hc r hr hrc]
  · intro hdz u v
    unfold ccdCircuit
    by_cases hm0 : 0 < m
    · rw [if_pos hm0, if_pos hm0, ip_mulD conj n _ _ _
        (fun r => hdz _ (Nat.mod_lt _ (Nat.pos_of_ne_zero (by simp)))), ip_sweepD conj D hD]
    · rw [if_neg hm0, if_neg hm0, ip_sweepD conj D hD]

omit [CommRing R] in
/-- **`circuit.inverse()`.**  Any left inverse of the circuit (on the rows `< 2^n`) — which is what
`QuantumCircuit.inverse()` is for a unitary circuit — maps `e_c` to column `c` of the isometry,
whenever the circuit maps column `c` to `e_c`. -/
theorem ccd_inverse (n : Nat) (W Winv : (Nat → R) → (Nat → R)) (e v : Nat → R)
    (hinv : ∀ r, r < 2 ^ n → Winv (W v) r = v r)
    (hcongr : ∀ u u' : Nat → R, (∀ r, r < 2 ^ n → u r = u' r) → ∀ r, r < 2 ^ n → Winv u r = Winv u' r)
    (hW : ∀ r, r < 2 ^ n → W v r = e r) : ∀ r, r < 2 ^ n → Winv e r = v r := by
  intro r hr
  rw [← hinv r hr]
  exact (hcongr _ _ hW r hr).symm

/-- `Lemma2Spec` is what the code's way of choosing the matrices guarantees: if every matrix of the
run is the one a `Zeroing` chooser (e.g. `codeChooser` = `_unitary` on the pairs of `_mc_unitary` /
`_uc_unitaries`, `codeChooser_zeroing`) picks from the current column of the working isometry —
whatever the diagonals are — the run meets `Lemma2Spec`. -/
theorem lemma2Spec_of_chooser (ch : Chooser R) (D : CcdData R) (n K : Nat) (F : Nat → Nat → R)
    (hch : ∀ k, k < K → ch.Zeroing n k)
    (hU : ∀ k, k < K → ∀ i, i < n → D.U k i = ch.mc k i (gkD D n k i (sweepD D n k (F k))))
    (hL : ∀ k, k < K → ∀ i, i < n →
      D.L k i = ch.uc k i (afterMcD D n k i (gkD D n k i (sweepD D n k (F k))))) :
    Lemma2Spec D n K F := by
  intro k hk i hi
  refine ⟨fun hm => ?_, ?_⟩
  · rw [hU k hk i hi]; exact (hch k hk i hi _).1 hm
  · rw [hL k hk i hi]; exact (hch k hk i hi _).2

/-! ### the run the code performs: matrices chosen from the working isometry -/

section coderun

/-- step `(k, i)` of `_g_k` on the whole working isometry `S` (`S c` = column `c`), as the code
performs it: `_mc_unitary` from column `k`, the MCG and its diagonal applied to every column
(`_update_isometry`), `_uc_unitaries` from the updated column `k`, the UCG and its diagonal applied to
every column. -/
def stepFam (ch : Chooser R) (dm du : Nat → Nat → Nat → R) (n k i : Nat) (S : Nat → Nat → R) :
    Nat → Nat → R :=
  let S1 : Nat → Nat → R := fun c =>
    if hasMcg k i then mulD (dm k i) (applyOn i (mcMat n k i (ch.mc k i (S k))) (S c)) else S c
  fun c => mulD (du k i) (applyOn i (ucMat k i (ch.uc k i (S1 k))) (S1 c))

def gkFam (ch : Chooser R) (dm du : Nat → Nat → Nat → R) (n k : Nat) :
    Nat → (Nat → Nat → R) → (Nat → Nat → R)
  | 0, S => S
  | s + 1, S => stepFam ch dm du n k s (gkFam ch dm du n k s S)

def sweepFam (ch : Chooser R) (dm du : Nat → Nat → Nat → R) (n : Nat) :
    Nat → (Nat → Nat → R) → (Nat → Nat → R)
  | 0, S => S
  | K + 1, S => gkFam ch dm du n K n (sweepFam ch dm du n K S)

/-- the data of that run. -/
def dataOf (ch : Chooser R) (dm du : Nat → Nat → Nat → R) (dz : Nat → R) (n : Nat)
    (F : Nat → Nat → R) : CcdData R where
  U := fun k i => ch.mc k i (gkFam ch dm du n k i (sweepFam ch dm du n k F) k)
  L := fun k i =>
    let S := gkFam ch dm du n k i (sweepFam ch dm du n k F)
    ch.uc k i (if hasMcg k i then
      mulD (dm k i) (applyOn i (mcMat n k i (ch.mc k i (S k))) (S k)) else S k)
  dm := dm
  du := du
  dz := dz

/-- the circuit described by `dataOf`, applied to column `c`, reproduces the run. -/
theorem gkD_dataOf (ch : Chooser R) (dm du : Nat → Nat → Nat → R) (dz : Nat → R) (n : Nat)
    (F : Nat → Nat → R) (k s c : Nat) :
    gkD (dataOf ch dm du dz n F) n k s (sweepFam ch dm du n k F c)
      = gkFam ch dm du n k s (sweepFam ch dm du n k F) c := by
  induction s with
  | zero => rfl
  | succ s ih =>
    show stepD _ n k s (gkD _ n k s _) = stepFam ch dm du n k s _ c
    rw [ih]
    rfl

theorem sweepD_dataOf (ch : Chooser R) (dm du : Nat → Nat → Nat → R) (dz : Nat → R) (n : Nat)
    (F : Nat → Nat → R) (K c : Nat) :
    sweepD (dataOf ch dm du dz n F) n K (F c) = sweepFam ch dm du n K F c := by
  induction K with
  | zero => rfl
  | succ K ih =>
    show gkD _ n K n (sweepD _ n K (F c)) = gkFam ch dm du n K n _ c
    rw [ih, gkD_dataOf]

/-- the run of a `Zeroing` chooser meets `Lemma2Spec`, whatever the diagonals. -/
theorem dataOf_lemma2 (ch : Chooser R) (dm du : Nat → Nat → Nat → R) (dz : Nat → R) (n K : Nat)
    (F : Nat → Nat → R) (hch : ∀ k, k < K → ch.Zeroing n k) :
    Lemma2Spec (dataOf ch dm du dz n F) n K F := by
  apply lemma2Spec_of_chooser ch _ n K F hch
  · intro k _ i _
    rw [sweepD_dataOf, gkD_dataOf]
    rfl
  · intro k _ i _
    rw [sweepD_dataOf, gkD_dataOf]
    rfl

theorem dataOf_unitary (conj : R →+* R) (ch : Chooser R) (hch : ch.Unitary conj)
    (dm du : Nat → Nat → Nat → R) (dz : Nat → R) (n : Nat) (F : Nat → Nat → R)
    (hdm : ∀ k i r, conj (dm k i r) * dm k i r = 1) (hdu : ∀ k i r, conj (du k i r) * du k i r = 1) :
    UnitarySpec conj (dataOf ch dm du dz n F) :=
  ⟨fun k i => (hch k i _).1, fun k i j => (hch k i _).2 j, hdm, hdu⟩

/-- **The run of the code, unconditionally in the matrices.**  For a chooser that satisfies
Lemma 2 and is unitary (the code's `_unitary`: `codeChooser_zeroing`, `codeChooser_unitary`;
over `ℂ`: `complexChooser`), ANY unimodular diagonals left by the `UCGate`s, and orthonormal
columns: the working isometry after all `G_k` has `φ_c·e_c` in column `c`, `conj φ_c·φ_c = 1`. -/
theorem ccd_code_run (conj : R →+* R) (ch : Chooser R) (n m : Nat) (hm : m ≤ n)
    (hz : ∀ k, k < 2 ^ m → ch.Zeroing n k) (hu : ch.Unitary conj)
    (dm du : Nat → Nat → Nat → R)
    (hdm : ∀ k i r, conj (dm k i r) * dm k i r = 1) (hdu : ∀ k i r, conj (du k i r) * du k i r = 1)
    (F : Nat → Nat → R)
    (horth : ∀ c c', c < c' → c' < 2 ^ m → ip conj n (F c) (F c') = 0)
    (hnorm : ∀ c, c < 2 ^ m → ip conj n (F c) (F c) = 1) :
    ∀ c, c < 2 ^ m → Single n c (sweepFam ch dm du n (2 ^ m) F c) ∧
      conj (sweepFam ch dm du n (2 ^ m) F c c) * sweepFam ch dm du n (2 ^ m) F c c = 1 := by
  intro c hc
  have h := (ccd_full conj (dataOf ch dm du (fun _ => 1) n F) n m hm F
    (dataOf_unitary conj ch hu dm du _ n F hdm hdu)
    (dataOf_lemma2 ch dm du _ n (2 ^ m) F hz) horth hnorm).1 c hc
  rw [sweepD_dataOf] at h
  exact h

end coderun

/-! ### a concrete run (non-vacuity) -/

section example_run

/-- one qubit, `m = 1`: the unitary `[[0, -1], [1, 0]]` over `ℤ` (trivial conjugation). -/
def exF : Nat → Nat → Int := fun c r =>
  if c = 0 then (if r = 1 then 1 else 0) else (if r = 0 then -1 else 0)

/-- its run: `G_0` = the Lemma-2 matrix `[[0, 1], [-1, 0]]` of the pair `(0, 1)`, after which the
`UCGate` leaves the diagonal `(1, -1)` behind; `G_1` = identity (block below `start`); closing
diagonal `(1, -1)`. -/
def exD : CcdData Int where
  U := fun _ _ => Mat2.one
  L := fun k _ _ => if k = 0 then ⟨0, 1, -1, 0⟩ else Mat2.one
  dm := fun _ _ _ => 1
  du := fun k _ r => if k = 0 ∧ r = 1 then -1 else 1
  dz := fun c => if c = 1 then -1 else 1

theorem exD_unitary : UnitarySpec (RingHom.id Int) exD := by
  refine ⟨fun k i => by simp [IsUnitary2, exD, Mat2.one], fun k i j => ?_, fun k i r => by simp [exD],
    fun k i r => ?_⟩
  · by_cases hk : k = 0 <;> simp [IsUnitary2, exD, Mat2.one, hk]
  · by_cases h : k = 0 ∧ r = 1 <;> simp [exD, h]

theorem exD_lemma2 : Lemma2Spec exD 1 (2 ^ 1) exF := by
  intro k hk i hi
  have hi0 : i = 0 := by omega
  subst hi0
  have hk' : k = 0 ∨ k = 1 := by omega
  rcases hk' with rfl | rfl
  · refine ⟨fun h => absurd h (by decide), fun j h1 h2 => ?_⟩
    have hj : j = 0 := by
      have : j < 1 := h2
      omega
    subst hj
    exact ⟨fun _ => by decide, fun h => absurd h (by decide)⟩
  · refine ⟨fun h => absurd h (by decide), fun j h1 h2 => ?_⟩
    have h1' : 1 ≤ j := h1
    have h2' : j < 1 := h2
    omega

/-- the phases the diagonals leave: column `1` ends as `-e_1`, and the closing diagonal `(1, -1)`
is the conjugate of the final diagonal — the whole circuit maps the columns to `e_0`, `e_1`. -/
theorem exD_result :
    (List.range 2).map (sweepD exD 1 2 (exF 0)) = [1, 0] ∧
    (List.range 2).map (sweepD exD 1 2 (exF 1)) = [0, -1] ∧
    (List.range 2).map (ccdCircuit exD 1 1 (exF 1)) = [0, 1] := by decide

end example_run

end Qclib.Iso
