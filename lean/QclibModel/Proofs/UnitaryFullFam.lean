import QclibModel.Proofs.UnitaryFullMiddle
/-
  C02 — multiplexed matrices: `applyMatFam s M` applies to the wires `0 … s-1` the matrix `M b`
  selected by the OTHER wires of the label `b` (the `s`-qubit generalisation of `applyFam`).  This is
  the denotation of a list of `2^(n-s)` blocks of `s` qubits each, as `_unitary(gate_list, n, "csd")`
  synthesises it: block number = the number read on the wires `s … n-1` (`hiIdx`).
-/
namespace Qclib.Uni
open Qclib Matrix RotSem

section fam
variable {R : Type} [CommRing R]

/-- the family does not look at the wires `0 … s-1`. -/
def LowFree {α : Type} (s : Nat) (M : Bits → α) : Prop := ∀ (j : QI s) (b : Bits), M (over s j b) = M b

/-- apply to the wires `0 … s-1` the matrix selected by the label. -/
def applyMatFam (s : Nat) (M : Bits → Matrix (QI s) (QI s) R) (ψ : State R) : State R :=
  fun b => ∑ j, M b (enc s b) j * ψ (over s j b)

theorem applyMatFam_const (s : Nat) (M : Matrix (QI s) (QI s) R) (ψ : State R) :
    applyMatFam s (fun _ => M) ψ = applyMat s M ψ := rfl

/-- pointwise product ↔ composition (the right factor acts first and must not look at the low wires). -/
theorem applyMatFam_mul (s : Nat) (M N : Bits → Matrix (QI s) (QI s) R) (hN : LowFree s N)
    (ψ : State R) :
    applyMatFam s (fun b => M b * N b) ψ = applyMatFam s M (applyMatFam s N ψ) := by
  funext b
  simp only [applyMatFam, enc_over, over_over, hN _ b, Matrix.mul_apply, Finset.sum_mul,
    Finset.mul_sum]
  rw [Finset.sum_comm]
  refine Finset.sum_congr rfl (fun j _ => Finset.sum_congr rfl (fun k _ => ?_))
  ring

theorem applyMatFam_congr (s : Nat) (M N : Bits → Matrix (QI s) (QI s) R) (h : ∀ b, M b = N b)
    (ψ : State R) : applyMatFam s M ψ = applyMatFam s N ψ := by
  have : M = N := funext h
  rw [this]

/-- 2×2 block families over wire `s`. -/
theorem applyMatFam_blocks (s : Nat) (A B C D : Bits → Matrix (QI s) (QI s) R) (ψ : State R)
    (b : Bits) :
    applyMatFam (s + 1)
        (fun b => (fromBlocks (A b) (B b) (C b) (D b) : Matrix (QI (s + 1)) (QI (s + 1)) R)) ψ b
      = if b s then
          (∑ j, C b (enc s b) j * ψ (setBit (over s j b) s false))
            + ∑ j, D b (enc s b) j * ψ (setBit (over s j b) s true)
        else
          (∑ j, A b (enc s b) j * ψ (setBit (over s j b) s false))
            + ∑ j, B b (enc s b) j * ψ (setBit (over s j b) s true) := by
  simp only [applyMatFam]
  rw [sum_QI_succ]
  cases hb : b s
  · rw [enc_succ_false s b hb]
    simp only [fromBlocks_apply₁₁, fromBlocks_apply₁₂, over_succ_inl, over_succ_inr,
      Bool.false_eq_true, if_false]
  · rw [enc_succ_true s b hb]
    simp only [fromBlocks_apply₂₁, fromBlocks_apply₂₂, over_succ_inl, over_succ_inr, if_true]

/-- a family of block-diagonal matrices over wire `s` ↔ the family one level down that also looks
at wire `s`. -/
theorem applyMatFam_blockDiag (s : Nat) (A D : Bits → Matrix (QI s) (QI s) R) (ψ : State R) :
    applyMatFam (s + 1)
        (fun b => (fromBlocks (A b) 0 0 (D b) : Matrix (QI (s + 1)) (QI (s + 1)) R)) ψ
      = applyMatFam s (fun b => if b s then D b else A b) ψ := by
  funext b
  rw [applyMatFam_blocks]
  cases hb : b s
  · have e : ∀ j, setBit (over s j b) s false = over s j b := fun j =>
      setBit_self' _ _ _ (by rw [over_ge s j b (Nat.le_refl s), hb])
    simp only [Bool.false_eq_true, if_false, Matrix.zero_apply, zero_mul, Finset.sum_const_zero,
      add_zero, e, applyMatFam, hb]
  · have e : ∀ j, setBit (over s j b) s true = over s j b := fun j =>
      setBit_self' _ _ _ (by rw [over_ge s j b (Nat.le_refl s), hb])
    simp only [if_true, Matrix.zero_apply, zero_mul, Finset.sum_const_zero, zero_add, e,
      applyMatFam, hb]

/-- families of 2×2 blocks of diagonals ↔ a uniformly controlled one-qubit gate on wire `s`. -/
theorem applyMatFam_diagBlocks (s : Nat) (p q r t : Bits → QI s → R) (ψ : State R) :
    applyMatFam (s + 1) (fun b => (fromBlocks (diagonal (p b)) (diagonal (q b)) (diagonal (r b))
        (diagonal (t b)) : Matrix (QI (s + 1)) (QI (s + 1)) R)) ψ
      = applyFam (fun b => ⟨p b (enc s b), q b (enc s b), r b (enc s b), t b (enc s b)⟩) s ψ := by
  funext b
  rw [applyMatFam_blocks]
  have key : ∀ (d : QI s → R) (v : Bool),
      (∑ j, (diagonal d : Matrix (QI s) (QI s) R) (enc s b) j * ψ (setBit (over s j b) s v))
        = d (enc s b) * ψ (setBit b s v) := by
    intro d v
    rw [Finset.sum_eq_single (enc s b)]
    · rw [diagonal_apply_eq, over_enc]
    · intro j _ hj
      rw [diagonal_apply_ne _ (Ne.symm hj), zero_mul]
    · intro h; exact absurd (Finset.mem_univ _) h
  simp only [key, applyFam]

end fam

/-! ### the block number: the number read on the wires `t … t+d-1` -/

/-- wire `t+i` is bit `i`. -/
def hiIdx (t d : Nat) (b : Bits) : Nat := ctrlIdxW (fun j => j - 1 + t) d b

theorem hiIdx_succ_top (t d : Nat) (b : Bits) :
    hiIdx t (d + 1) b = hiIdx t d b + (if b (t + d) then 2 ^ d else 0) := by
  show ctrlIdxW _ d b + (if b (d + 1 - 1 + t) then 2 ^ d else 0) = _
  rw [Nat.add_sub_cancel, Nat.add_comm d t]
  rfl

/-- peeling the LOWEST wire: `hiIdx t (d+1) = bit t + 2·hiIdx (t+1) d`. -/
theorem hiIdx_succ_low (t d : Nat) (b : Bits) :
    hiIdx t (d + 1) b = (if b t then 1 else 0) + 2 * hiIdx (t + 1) d b := by
  induction d with
  | zero =>
    rw [hiIdx_succ_top]
    simp [hiIdx, ctrlIdxW]
  | succ d ih =>
    rw [hiIdx_succ_top, ih, hiIdx_succ_top (t + 1) d]
    have e : t + (d + 1) = t + 1 + d := by omega
    rw [e, Nat.pow_succ]
    cases b (t + 1 + d) <;> (simp; try omega)

theorem hiIdx_over (s t d : Nat) (h : s ≤ t) (j : QI s) (b : Bits) :
    hiIdx t d (over s j b) = hiIdx t d b := by
  induction d with
  | zero => rfl
  | succ d ih =>
    rw [hiIdx_succ_top, hiIdx_succ_top, ih, over_ge s j b (by omega)]

theorem hiIdx_lt (t d : Nat) (b : Bits) : hiIdx t d b < 2 ^ d := by
  induction d with
  | zero => simp [hiIdx, ctrlIdxW]
  | succ d ih =>
    rw [hiIdx_succ_top, Nat.pow_succ]
    split <;> omega

end Qclib.Uni
