import QclibModel.Model.Validate
import Mathlib.Algebra.Order.Field.Basic
import Mathlib.Algebra.Order.Ring.Abs
import Mathlib.Algebra.BigOperators.Group.Finset.Basic
import Mathlib.Algebra.Order.BigOperators.Ring.Finset
import Mathlib.Tactic.Linarith
import Mathlib.Tactic.Ring
import Mathlib.Tactic.Positivity
/-
  C16: the validator interpreter of `Model/Validate.lean` read over a linearly ordered field
  (exact arithmetic, decimal literals as exact rationals, no NaN / inf).  Generic lemmas only; the
  statements about the step lists generated from the source are in `Props/C16.lean`.
-/
namespace Qclib.Validate

open Finset

variable {K : Type} [Field K] [LinearOrder K] [IsStrictOrderedRing K]

/-- exact value of a decimal literal -/
def Dec.val (K : Type) [Field K] (d : Dec) : K := (d.m : K) / 10 ^ d.e

/-- The model's number operations in an ordered field. -/
def fieldNOps (K : Type) [Field K] [LinearOrder K] [IsStrictOrderedRing K] : NOps K where
  ofNat n := (n : K)
  ofDec d := d.val K
  add := (· + ·)
  sub := (· - ·)
  mul := (· * ·)
  abs x := |x|
  le a b := decide (a ≤ b)
  eq a b := decide (a = b)
  isInf _ := false

theorem Dec.val_nonneg (d : Dec) : (0 : K) ≤ d.val K := by
  unfold Dec.val; positivity

/-! ### powers of two -/

theorem isPow2_iff (n : Nat) : isPow2 n = true ↔ ∃ k, n = 2 ^ k := by
  unfold isPow2
  constructor
  · intro h
    simp only [Bool.and_eq_true, decide_eq_true_eq, beq_iff_eq] at h
    exact ⟨Nat.log2 n, h.2.symm⟩
  · rintro ⟨k, rfl⟩
    simp only [Bool.and_eq_true, decide_eq_true_eq, beq_iff_eq, Nat.log2_two_pow, and_true]
    exact Nat.pos_of_ne_zero (by positivity)

/-! ### sums -/

omit [LinearOrder K] [IsStrictOrderedRing K] in
theorem foldl_add_range (n : Nat) (f : Nat → K) (a : K) :
    (List.range n).foldl (fun acc k => acc + f k) a = a + ∑ k ∈ range n, f k := by
  induction n with
  | zero => simp
  | succ n ih => rw [List.range_succ, List.foldl_append, ih, Finset.sum_range_succ]; simp [add_assoc]

theorem sumRange_eq (n : Nat) (f : Nat → K) : sumRange (fieldNOps K) n f = ∑ k ∈ range n, f k := by
  unfold sumRange
  show (List.range n).foldl (fun acc k => acc + f k) ((0 : Nat) : K) = _
  rw [foldl_add_range, Nat.cast_zero, zero_add]

/-- `Σ_k |a_k|²` of the vector `A.ent · 0`. -/
def normSqSum (A : Arr K) : K := ∑ k ∈ range A.rows, ((A.ent k 0).re ^ 2 + (A.ent k 0).im ^ 2)

theorem vecNormSq_eq (A : Arr K) : vecNormSq (fieldNOps K) A = normSqSum A := by
  unfold vecNormSq normSqSum
  rw [sumRange_eq]
  apply Finset.sum_congr rfl
  intro k _
  show (A.ent k 0).re * (A.ent k 0).re + (A.ent k 0).im * (A.ent k 0).im = _
  ring

/-- real part of entry `(i,j)` of `V†V`: `Σ_k Re(conj(a_ki) a_kj)` -/
def gramLRe (A : Arr K) (i j : Nat) : K :=
  ∑ k ∈ range A.rows, ((A.ent k i).re * (A.ent k j).re + (A.ent k i).im * (A.ent k j).im)
/-- imaginary part of entry `(i,j)` of `V†V` -/
def gramLIm (A : Arr K) (i j : Nat) : K :=
  ∑ k ∈ range A.rows, ((A.ent k i).re * (A.ent k j).im - (A.ent k i).im * (A.ent k j).re)
/-- real part of entry `(i,j)` of `U U†`: `Σ_k Re(a_ik conj(a_jk))` -/
def gramRRe (A : Arr K) (i j : Nat) : K :=
  ∑ k ∈ range A.cols, ((A.ent i k).re * (A.ent j k).re + (A.ent i k).im * (A.ent j k).im)
/-- imaginary part of entry `(i,j)` of `U U†` -/
def gramRIm (A : Arr K) (i j : Nat) : K :=
  ∑ k ∈ range A.cols, ((A.ent i k).im * (A.ent j k).re - (A.ent i k).re * (A.ent j k).im)

theorem gram_left (A : Arr K) (i j : Nat) :
    gram (fieldNOps K) A .left i j = ⟨gramLRe A i j, gramLIm A i j⟩ := by
  unfold gram csumRange gramLRe gramLIm
  simp only [sumRange_eq]
  rfl

theorem gram_right (A : Arr K) (i j : Nat) :
    gram (fieldNOps K) A .right i j = ⟨gramRRe A i j, gramRIm A i j⟩ := by
  unfold gram csumRange gramRRe gramRIm
  simp only [sumRange_eq]
  rfl

/-! ### closeness tests -/

/-- `np.isclose(x, δ)` for a complex `x = re + i·im` against `δ ∈ {0,1}`, through squares:
`|x − δ|² ≤ (atol + rtol·δ)²`. -/
def EntryClose (rtol atol : K) (re im : K) (δ : Nat) : Prop :=
  (re - (δ : K)) ^ 2 + im ^ 2 ≤ (atol + rtol * (δ : K)) ^ 2

theorem entryClose_iff (rtol atol : Dec) (x : Cx K) (δ : Nat) :
    entryClose (fieldNOps K) rtol atol x δ = true ↔ EntryClose (rtol.val K) (atol.val K) x.re x.im δ := by
  unfold entryClose EntryClose
  show decide ((x.re - (δ : K)) * (x.re - (δ : K)) + (x.im - ((0 : Nat) : K)) * (x.im - ((0 : Nat) : K))
      ≤ (atol.val K + rtol.val K * |(δ : K)|) * (atol.val K + rtol.val K * |(δ : K)|)) = true ↔ _
  rw [decide_eq_true_eq, abs_of_nonneg (Nat.cast_nonneg δ), Nat.cast_zero, sub_zero]
  constructor <;> intro h <;> nlinarith [h]

/-- all entries of an `n × n` Gram matrix are close to the identity's -/
def GramClose (rtol atol : K) (n : Nat) (re im : Nat → Nat → K) : Prop :=
  ∀ i, i < n → ∀ j, j < n → EntryClose rtol atol (re i j) (im i j) (if i = j then 1 else 0)

theorem gramCloseB_left_iff (A : Arr K) (rtol atol : Dec) :
    gramCloseB (fieldNOps K) A .left rtol atol = true ↔
      GramClose (rtol.val K) (atol.val K) A.cols (gramLRe A) (gramLIm A) := by
  unfold gramCloseB GramClose gramSize
  simp only [List.all_eq_true, List.mem_range, entryClose_iff, gram_left]

theorem gramCloseB_right_iff (A : Arr K) (rtol atol : Dec) :
    gramCloseB (fieldNOps K) A .right rtol atol = true ↔
      GramClose (rtol.val K) (atol.val K) A.rows (gramRRe A) (gramRIm A) := by
  unfold gramCloseB GramClose gramSize
  simp only [List.all_eq_true, List.mem_range, entryClose_iff, gram_right]

/-- `math.isclose(s, 1.0, rel_tol=ρ, abs_tol=α)` in exact arithmetic. -/
def CloseTo1 (ρ α s : K) : Prop := |s - 1| ≤ max (ρ * max |s| 1) α

theorem mathIsclose_iff (rel abs : Dec) (s : K) :
    mathIsclose (fieldNOps K) rel abs s ((fieldNOps K).ofNat 1) = true ↔ CloseTo1 (rel.val K) (abs.val K) s := by
  have hρ : (0 : K) ≤ rel.val K := Dec.val_nonneg rel
  have hα : (0 : K) ≤ abs.val K := Dec.val_nonneg abs
  unfold mathIsclose CloseTo1
  show (if decide (s = ((1 : Nat) : K)) = true then true
        else if (false || false) = true then false
        else (decide (|((1 : Nat) : K) - s| ≤ |rel.val K * ((1 : Nat) : K)|)
              || decide (|((1 : Nat) : K) - s| ≤ |rel.val K * s|)
              || decide (|((1 : Nat) : K) - s| ≤ abs.val K))) = true ↔ _
  simp only [Nat.cast_one, mul_one, Bool.or_self, Bool.false_eq_true, if_false, decide_eq_true_eq]
  by_cases h : s = 1
  · subst h
    simp only [if_true, sub_self, abs_zero, true_iff]
    exact le_max_of_le_right hα
  · simp only [h, if_false, Bool.or_eq_true, decide_eq_true_eq]
    rw [abs_mul, abs_of_nonneg hρ, abs_sub_comm 1 s, mul_max_of_nonneg _ _ hρ, mul_one, le_max_iff, le_max_iff]
    constructor
    · rintro ((h1 | h2) | h3)
      · exact Or.inl (Or.inr h1)
      · exact Or.inl (Or.inl h2)
      · exact Or.inr h3
    · rintro ((h1 | h2) | h3)
      · exact Or.inl (Or.inr h1)
      · exact Or.inl (Or.inl h2)
      · exact Or.inr h3

omit [IsStrictOrderedRing K] in
/-- with `rel_tol = 0.0` the test is the plain absolute one -/
theorem closeTo1_rel0 (α s : K) (hα : 0 ≤ α) : CloseTo1 0 α s ↔ |s - 1| ≤ α := by
  unfold CloseTo1
  rw [zero_mul, max_eq_right hα]

/-! ### the interpreter -/

section interp
variable {α : Type} (o : NOps α) (A : Arr α)

theorem run_ok_iff (l : List Step) : run o A l = .ok () ↔ ∀ s ∈ l, runStep o A s = .ok () := by
  induction l with
  | nil => simp [run]
  | cons s r ih =>
    rw [run]
    cases hs : runStep o A s with
    | error e => simp [hs]
    | ok u => cases u; simp [ih, hs]

theorem evalAtom_err (a : Atom) (e : String) (h : evalAtom o A a = .error e) : e = "ValueError" := by
  cases a <;> simp only [evalAtom] at h <;> (try split at h) <;> simp_all

theorem evalCond_err (c : Cond) (e : String) (h : evalCond o A c = .error e) : e = "ValueError" := by
  induction c with
  | atom a => exact evalAtom_err o A a e h
  | not c ih =>
    rw [evalCond] at h
    cases hc : evalCond o A c with
    | error x => rw [hc] at h; simp only [Except.error.injEq] at h; exact ih (h ▸ hc)
    | ok b => rw [hc] at h; simp at h
  | or a b iha ihb =>
    rw [evalCond] at h
    cases ha : evalCond o A a with
    | error x => rw [ha] at h; simp only [Except.error.injEq] at h; exact iha (h ▸ ha)
    | ok v => cases v <;> rw [ha] at h <;> simp at h; exact ihb h
  | and a b iha ihb =>
    rw [evalCond] at h
    cases ha : evalCond o A a with
    | error x => rw [ha] at h; simp only [Except.error.injEq] at h; exact iha (h ▸ ha)
    | ok v => cases v <;> rw [ha] at h <;> simp at h; exact ihb h

/-- every `raise` of the step list is a `ValueError` -/
def onlyValueError (l : List Step) : Bool :=
  l.all fun s => match s with
    | .rejectIf _ e => e == "ValueError"
    | _ => true

theorem run_err (l : List Step) (hl : onlyValueError l = true) (e : String) (h : run o A l = .error e) :
    e = "ValueError" := by
  induction l with
  | nil => simp [run] at h
  | cons s r ih =>
    have hr : onlyValueError r = true := by
      unfold onlyValueError at hl ⊢
      rw [List.all_cons, Bool.and_eq_true] at hl
      exact hl.2
    rw [run] at h
    cases hs : runStep o A s with
    | ok u =>
      cases u
      rw [hs] at h
      exact ih hr h
    | error x =>
      rw [hs] at h
      simp only [Except.error.injEq] at h
      subst h
      cases s with
      | log2 d => simp only [runStep] at hs; split at hs <;> simp_all
      | rejectIf c exc =>
        have hexc : exc = "ValueError" := by
          unfold onlyValueError at hl
          rw [List.all_cons, Bool.and_eq_true] at hl
          simpa using hl.1
        simp only [runStep] at hs
        cases hc : evalCond o A c with
        | error y => rw [hc] at hs; simp only [Except.error.injEq] at hs; exact evalCond_err o A c _ (hs ▸ hc)
        | ok b =>
          cases b <;> rw [hc] at hs <;> simp at hs
          rw [← hs]; exact hexc
      | skipIf c =>
        simp only [runStep] at hs
        cases hc : evalCond o A c with
        | error y => rw [hc] at hs; simp only [Except.error.injEq] at hs; exact evalCond_err o A c _ (hs ▸ hc)
        | ok b => rw [hc] at hs; simp at hs

/-- accepted, or rejected with `ValueError` -/
theorem run_dichotomy (l : List Step) (hl : onlyValueError l = true) :
    run o A l = .ok () ∨ run o A l = .error "ValueError" := by
  cases h : run o A l with
  | ok u => cases u; exact Or.inl rfl
  | error e => rw [run_err o A l hl e h]; exact Or.inr rfl

end interp

/-! ### entry points -/

section entry
variable {α : Type} (o : NOps α) (V : Validators) (A : Arr α)

/-- If the constructor's statements contain the validator `v` before the first `build`, then an
accepted input was accepted by `v`. -/
theorem entryDecide_sound (need : List Ev) (steps : List Step)
    (hneed : ∀ e ∈ need, ∃ v, (e = .validate v ∨ e = .validateEach v ∨ e = .guard v) ∧ V.steps v = steps)
    (evs : List Ev) (hg : guardedBy need evs = true) (hok : entryDecide o V A evs = .ok ()) :
    run o A steps = .ok () := by
  induction evs with
  | nil => simp [guardedBy] at hg
  | cons e rest ih =>
    by_cases hm : need.contains e = true
    · obtain ⟨v, hv, hs⟩ := hneed e (by simpa using hm)
      rcases hv with rfl | rfl | rfl <;>
      · simp only [entryDecide, hs] at hok
        cases hr : run o A steps with
        | ok u => rfl
        | error x => rw [hr] at hok; simp at hok
    · cases e with
      | build w =>
        simp only [guardedBy, hm, Bool.false_eq_true, if_false] at hg
      | validate v =>
        simp only [guardedBy, hm, Bool.false_eq_true, if_false] at hg
        simp only [entryDecide] at hok
        cases hr : run o A (V.steps v) with
        | ok u => cases u; rw [hr] at hok; exact ih hg hok
        | error x => rw [hr] at hok; simp at hok
      | validateEach v =>
        simp only [guardedBy, hm, Bool.false_eq_true, if_false] at hg
        simp only [entryDecide] at hok
        cases hr : run o A (V.steps v) with
        | ok u => cases u; rw [hr] at hok; exact ih hg hok
        | error x => rw [hr] at hok; simp at hok
      | guard v =>
        simp only [guardedBy, hm, Bool.false_eq_true, if_false] at hg
        simp only [entryDecide] at hok
        cases hr : run o A (V.steps v) with
        | ok u => cases u; rw [hr] at hok; exact ih hg hok
        | error x => rw [hr] at hok; simp at hok
      | requireTrue p exc =>
        simp only [guardedBy, hm, Bool.false_eq_true, if_false] at hg
        simp only [entryDecide] at hok
        cases hr : evalCond o A (V.preds p) with
        | ok b => cases b <;> rw [hr] at hok <;> simp at hok; exact ih hg hok
        | error x => rw [hr] at hok; simp at hok
      | ignored p =>
        simp only [guardedBy, hm, Bool.false_eq_true, if_false] at hg
        simp only [entryDecide] at hok; exact ih hg hok
      | misapplied p =>
        simp only [guardedBy, hm, Bool.false_eq_true, if_false] at hg
        simp only [entryDecide] at hok; exact ih hg hok
      | opaqueGuard x =>
        simp only [guardedBy, hm, Bool.false_eq_true, if_false] at hg
        simp only [entryDecide] at hok; exact ih hg hok

end entry

end Qclib.Validate
