import QclibModel.Model.Isometry
import Mathlib.Data.Matrix.ColumnRowPartitioned
import Mathlib.Data.Matrix.Block
import Mathlib.LinearAlgebra.Matrix.ConjTranspose
import Mathlib.Algebra.Star.Basic
import Mathlib.Data.Complex.Basic
import Mathlib.LinearAlgebra.Matrix.Notation
import Mathlib.Algebra.BigOperators.Fin
import Mathlib.Tactic.FinCases
import Mathlib.Tactic.NormNum
import Mathlib.Tactic.Ring
/-
  C03 — `_extend_to_unitary` of `qclib/isometry.py`: the isometry `V` (`V† V = 1`) is completed
  to a square matrix `[V | conj(N)]` where `N = scipy.linalg.null_space(V.T)`.  The numerical
  kernel is specified by `Vᵀ N = 0` and `N† N = 1` (and, for squareness, by the number of its
  columns).  Proved here, over any commutative `StarRing`:

  * `extend_orth`        : `V† · conj(N) = 0`;
  * `extend_null_iso`    : `conj(N)† · conj(N) = 1`;
  * `extend_isometry`    : `[V | conj(N)]† · [V | conj(N)] = 1`;
  * `extend_unitary`     : when `|ι| = |μ| + |ν|` also `[V | conj(N)] · [V | conj(N)]† = 1`;
  * an `example` over `ℂ` that WITHOUT the conjugation the extension is not an isometry
    (`V† N ≠ 0` although `Vᵀ N = 0`).

  Namespace `Qclib.Iso.Extend`.
-/
namespace Qclib.Iso.Extend

open Matrix

section algebra
variable {ι μ ν R : Type} [CommRing R] [StarRing R]

/-- Entrywise conjugate `np.conj(N)`. -/
def conjM (N : Matrix ι ν R) : Matrix ι ν R := N.map star

/-- `_extend_to_unitary`: the columns of `V` followed by the columns of `np.conj(Nsp)`. -/
def extend (V : Matrix ι μ R) (Nsp : Matrix ι ν R) : Matrix ι (μ ⊕ ν) R :=
  Matrix.fromCols V (conjM Nsp)

theorem conjM_eq (N : Matrix ι ν R) : conjM N = N.map (starRingEnd R) := rfl

theorem conjTranspose_eq (N : Matrix ι ν R) : Nᴴ = Nᵀ.map (starRingEnd R) := rfl

theorem conjM_conjTranspose (N : Matrix ι ν R) : (conjM N)ᴴ = Nᵀ := by
  ext i j; simp [conjM]

variable [Fintype ι]

/-- **The conjugated null space is orthogonal to the isometry.**  From the bilinear
specification of `null_space(V.T)`, `Vᵀ N = 0`, the sesquilinear orthogonality
`V† · conj(N) = 0` follows. -/
theorem extend_orth (V : Matrix ι μ R) (Nsp : Matrix ι ν R) (hnull : Vᵀ * Nsp = 0) :
    Vᴴ * conjM Nsp = 0 := by
  rw [conjM_eq, conjTranspose_eq, ← Matrix.map_mul, hnull]
  ext i j; simp

/-- …and symmetrically `conj(N)† · V = 0`. -/
theorem extend_orth' (V : Matrix ι μ R) (Nsp : Matrix ι ν R) (hnull : Vᵀ * Nsp = 0) :
    (conjM Nsp)ᴴ * V = 0 := by
  have h := congrArg conjTranspose (extend_orth V Nsp hnull)
  rwa [conjTranspose_mul, conjTranspose_conjTranspose, conjTranspose_zero] at h

/-- **The conjugated null space is still orthonormal**: `conj(N)† conj(N) = 1`. -/
theorem extend_null_iso [DecidableEq ν] (Nsp : Matrix ι ν R) (hiso : Nspᴴ * Nsp = 1) :
    (conjM Nsp)ᴴ * conjM Nsp = 1 := by
  have h := congrArg (fun M => M.map (starRingEnd R)) hiso
  simp only [Matrix.map_mul] at h
  rw [conjM_conjTranspose, conjM_eq]
  have e : Nspᴴ.map (starRingEnd R) = Nspᵀ := by
    ext i j; simp [Matrix.map_apply, conjTranspose_apply, starRingEnd_apply]
  rw [e] at h
  rw [h]
  ext i j
  by_cases hij : i = j <;> simp [Matrix.one_apply, hij]

/-- **The extension is an isometry**: `[V | conj(N)]† [V | conj(N)] = 1`, given `V† V = 1` and
the specification `Vᵀ N = 0`, `N† N = 1` of the null-space kernel. -/
theorem extend_isometry [DecidableEq μ] [DecidableEq ν] (V : Matrix ι μ R) (Nsp : Matrix ι ν R)
    (hV : Vᴴ * V = 1) (hnull : Vᵀ * Nsp = 0) (hiso : Nspᴴ * Nsp = 1) :
    (extend V Nsp)ᴴ * extend V Nsp = 1 := by
  unfold extend
  rw [conjTranspose_fromCols_eq_fromRows_conjTranspose, fromRows_mul_fromCols, hV,
    extend_orth V Nsp hnull, extend_orth' V Nsp hnull, extend_null_iso Nsp hiso,
    Matrix.fromBlocks_one]

/-- **The extension is unitary.**  If moreover the null-space kernel returns the right number of
columns, `|ι| = |μ| + |ν|` (`2^n = 2^m + (2^n - 2^m)`), then `[V | conj(N)]` is unitary on both
sides. -/
theorem extend_unitary [DecidableEq ι] [Fintype μ] [Fintype ν] [DecidableEq μ] [DecidableEq ν]
    (V : Matrix ι μ R) (Nsp : Matrix ι ν R)
    (hV : Vᴴ * V = 1) (hnull : Vᵀ * Nsp = 0) (hiso : Nspᴴ * Nsp = 1)
    (hcard : Fintype.card ι = Fintype.card μ + Fintype.card ν) :
    (extend V Nsp)ᴴ * extend V Nsp = 1 ∧ extend V Nsp * (extend V Nsp)ᴴ = 1 := by
  have h1 := extend_isometry V Nsp hV hnull hiso
  refine ⟨h1, ?_⟩
  have e : ι ≃ μ ⊕ ν := Fintype.equivOfCardEq (by rw [Fintype.card_sum, hcard])
  unfold extend at h1 ⊢
  rw [conjTranspose_fromCols_eq_fromRows_conjTranspose] at h1 ⊢
  exact (fromCols_mul_fromRows_eq_one_comm e _ _ _ _).mpr h1

/-- When the isometry is already square (`log_lines == log_cols`) the code returns it unchanged;
it is then unitary on both sides. -/
theorem square_unitary [DecidableEq ι] (V : Matrix ι ι R) (hV : Vᴴ * V = 1) : V * Vᴴ = 1 :=
  mul_eq_one_comm.mp hV

end algebra

/-! ### non-vacuity, and the contrast without the conjugation -/

section examples
open Complex

/-- `V = (3/5, 4i/5)ᵀ`, one column of a one-qubit isometry. -/
noncomputable def exV : Matrix (Fin 2) (Fin 1) ℂ := !![3 / 5; 4 / 5 * I]
/-- `N = (4/5, 3i/5)ᵀ` spans the null space of `Vᵀ` and has norm `1`. -/
noncomputable def exN : Matrix (Fin 2) (Fin 1) ℂ := !![4 / 5; 3 / 5 * I]

/-- The example meets every hypothesis of `extend_unitary`. -/
theorem ex_spec : exVᴴ * exV = 1 ∧ exVᵀ * exN = 0 ∧ exNᴴ * exN = 1 ∧
    Fintype.card (Fin 2) = Fintype.card (Fin 1) + Fintype.card (Fin 1) := by
  refine ⟨?_, ?_, ?_, by simp⟩ <;>
  · ext i j
    fin_cases i; fin_cases j
    simp [exV, exN, Matrix.mul_apply, Fin.sum_univ_two, Complex.ext_iff, Complex.conj_ofNat]
    try norm_num

/-- Hence `[V | conj(N)]` is unitary (an instance of `extend_unitary`). -/
example : (extend exV exN)ᴴ * extend exV exN = 1 ∧ extend exV exN * (extend exV exN)ᴴ = 1 :=
  extend_unitary exV exN ex_spec.1 ex_spec.2.1 ex_spec.2.2.1 ex_spec.2.2.2

/-- **Without the conjugation the extension is not an isometry**: `Vᵀ N = 0` is bilinear, and
for this `V`, `N` (which meet the whole specification) `V† N = 24/25 ≠ 0`, so `[V | N]` does not
have orthonormal columns. -/
theorem ex_unconjugated : exVᴴ * exN ≠ 0 := by
  intro h
  have h00 := congrFun (congrFun h 0) 0
  simp [exV, exN, Matrix.mul_apply, Fin.sum_univ_two, Complex.ext_iff, Complex.conj_ofNat] at h00
  norm_num at h00

end examples

end Qclib.Iso.Extend
