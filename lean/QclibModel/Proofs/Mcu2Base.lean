import Mathlib.Analysis.SpecialFunctions.Log.Base
import Mathlib.Analysis.SpecialFunctions.Trigonometric.Inverse
import Mathlib.Analysis.SpecialFunctions.Trigonometric.Bounds
import Mathlib.Analysis.SpecialFunctions.Complex.Circle
/-
  `MCU._get_num_base_ctrl_qubits` over ℝ (C04, part B): the returned count is the least integer
  `b` with `angle / 2^(b-1) ≤ arccos(1 - ε²/2)`, and `arccos(1 - ε²/2) = 2·arcsin(ε/2)`, so
  `2·sin(angle / 2^b) ≤ ε`.
-/
namespace Qclib.Mcu2
open Real

/-- `np.arccos(1 - error**2 / 2)`. -/
noncomputable def thetaEps (ε : ℝ) : ℝ := arccos (1 - ε ^ 2 / 2)

/-- `int(np.ceil(np.log2(angle / np.arccos(1 - error**2 / 2)))) + 1` in exact arithmetic. -/
noncomputable def numBaseR (angle ε : ℝ) : ℤ := ⌈logb 2 (angle / thetaEps ε)⌉ + 1

theorem thetaEps_pos {ε : ℝ} (h : ε ≠ 0) : 0 < thetaEps ε := by
  rw [thetaEps, arccos_pos]
  have : 0 < ε ^ 2 := by positivity
  linarith

theorem thetaEps_eq {ε : ℝ} (h0 : 0 ≤ ε) (h2 : ε ≤ 2) : thetaEps ε = 2 * arcsin (ε / 2) := by
  have hy0 : 0 ≤ arcsin (ε / 2) := arcsin_nonneg.mpr (by linarith)
  have hy1 : arcsin (ε / 2) ≤ π / 2 := arcsin_le_pi_div_two _
  have hs : sin (arcsin (ε / 2)) = ε / 2 := sin_arcsin (by linarith) (by linarith)
  have hc : cos (2 * arcsin (ε / 2)) = 1 - ε ^ 2 / 2 := by
    rw [cos_two_mul, cos_sq', hs]
    ring
  rw [thetaEps, ← hc, arccos_cos (by linarith) (by linarith)]

/-- `b - 1` is the least integer `n` with `angle / 2^n ≤ θ_ε`. -/
theorem numBase_le_iff {angle ε : ℝ} (ha : 0 < angle) (hε : ε ≠ 0) (n : ℤ) :
    numBaseR angle ε - 1 ≤ n ↔ angle / (2 : ℝ) ^ n ≤ thetaEps ε := by
  have hθ := thetaEps_pos hε
  have hq : 0 < angle / thetaEps ε := div_pos ha hθ
  have h2n : (0 : ℝ) < (2 : ℝ) ^ n := by positivity
  unfold numBaseR
  rw [add_sub_cancel_right, Int.ceil_le, logb_le_iff_le_rpow (by norm_num) hq, rpow_intCast,
    div_le_iff₀ hθ, div_le_iff₀' h2n]

theorem numBase_spec {angle ε : ℝ} (ha : 0 < angle) (hε : ε ≠ 0) :
    angle / (2 : ℝ) ^ (numBaseR angle ε - 1) ≤ thetaEps ε ∧
      ∀ b' : ℤ, b' < numBaseR angle ε → thetaEps ε < angle / (2 : ℝ) ^ (b' - 1) := by
  refine ⟨(numBase_le_iff ha hε _).mp le_rfl, fun b' hb' => ?_⟩
  by_contra hcon
  have := (numBase_le_iff ha hε (b' - 1)).mpr (not_lt.mp hcon)
  omega

/-- With `b` base controls the half-angle of the omitted root is at most `arcsin(ε/2)`. -/
theorem numBase_half {angle ε : ℝ} (ha : 0 < angle) (h0 : 0 < ε) (h2 : ε ≤ 2) :
    angle / (2 : ℝ) ^ (numBaseR angle ε) ≤ arcsin (ε / 2) := by
  have h1 := (numBase_spec ha (ne_of_gt h0)).1
  rw [thetaEps_eq h0.le h2] at h1
  have hz : (2 : ℝ) ^ (numBaseR angle ε) = (2 : ℝ) ^ (numBaseR angle ε - 1) * 2 := by
    rw [← zpow_add_one₀ (by norm_num : (2 : ℝ) ≠ 0)]
    congr 1
    ring
  rw [hz, ← div_div, div_le_iff₀ (by norm_num : (0 : ℝ) < 2)]
  linarith

theorem numBase_sin {angle ε : ℝ} (ha : 0 < angle) (h0 : 0 < ε) (h2 : ε ≤ 2) :
    2 * sin (angle / (2 : ℝ) ^ (numBaseR angle ε)) ≤ ε := by
  have hh := numBase_half ha h0 h2
  have hpos : 0 ≤ angle / (2 : ℝ) ^ (numBaseR angle ε) := by positivity
  have := sin_le_sin_of_le_of_le_pi_div_two (by linarith [pi_pos]) (arcsin_le_pi_div_two (ε / 2)) hh
  rw [sin_arcsin (by linarith) (by linarith)] at this
  linarith

/-- `|1 - e^{ix}| = 2·|sin(x/2)| ≤ 2·sin(a/2)` for `|x| ≤ a ≤ π`. -/
theorem norm_one_sub_exp_le {x a : ℝ} (hx : |x| ≤ a) (ha : a ≤ π) :
    ‖1 - Complex.exp (Complex.I * x)‖ ≤ 2 * sin (a / 2) := by
  rw [← norm_neg, neg_sub, Complex.norm_exp_I_mul_ofReal_sub_one, norm_mul, Real.norm_eq_abs,
    Real.norm_eq_abs, abs_of_pos (by norm_num : (0 : ℝ) < 2)]
  have hx2 : |x / 2| ≤ π := by
    rw [abs_div, abs_of_pos (by norm_num : (0 : ℝ) < 2)]
    linarith [pi_pos, abs_nonneg x]
  rw [abs_sin_eq_sin_abs_of_abs_le_pi hx2, abs_div, abs_of_pos (by norm_num : (0 : ℝ) < 2)]
  have := sin_le_sin_of_le_of_le_pi_div_two (x := |x| / 2) (y := a / 2)
    (by linarith [pi_pos, abs_nonneg x]) (by linarith) (by linarith)
  linarith

end Qclib.Mcu2
