import QclibModel.Model.Baa
/-
  C08, structure of the search: where the children of a node come from, reachability, the nodes
  the traversal visits and the node `adaptiveApproximation` returns are reachable.  Core Lean only,
  any loss arithmetic.
-/
namespace Qclib.Baa

variable {α : Type}

/-! ### selections return members -/

theorem foldl_select_mem {β : Type} (c : β → β → Bool) (xs : List β) (x : β) :
    xs.foldl (fun best y => if c y best then y else best) x ∈ x :: xs := by
  induction xs generalizing x with
  | nil => simp
  | cons y ys ih =>
    simp only [List.foldl_cons]
    have h := ih (if c y x then y else x)
    rcases List.mem_cons.mp h with h1 | h1
    · rw [h1]; split <;> simp
    · simp [h1]

theorem firstMinBy_mem {β γ : Type} (lt : γ → γ → Bool) (key : β → γ) (l : List β) (b : β)
    (h : firstMinBy lt key l = some b) : b ∈ l := by
  cases l with
  | nil => simp [firstMinBy] at h
  | cons x xs =>
    simp only [firstMinBy, Option.some.injEq] at h
    rw [← h]
    exact foldl_select_mem (fun y best => lt (key y) (key best)) xs x

theorem searchBest_mem (L : LossOps α) (nodes : List (Node α)) (b : Node α)
    (h : searchBest L nodes = some b) : b ∈ nodes := by
  cases nodes with
  | nil => simp [searchBest] at h
  | cons n0 rest =>
    simp only [searchBest] at h
    have h2 := firstMinBy_mem _ _ _ _ h
    exact (List.mem_filter.mp (List.mem_filter.mp h2).1).1

/-! ### `_create_node` -/

theorem createNode_some (L : LossOps α) (O : Oracle α) (parent c : Node α) (e : EInfo α)
    (h : createNode L O parent e = some c) :
    ∃ idx orig, parent.entries.findIdx? (fun x => x.qubits == e.register) = some idx ∧
      parent.entries[idx]? = some orig ∧ orig.qubits = e.register ∧
      c.nodeSaved = savedCnots O e orig ∧ c.totalSaved = parent.totalSaved + savedCnots O e orig ∧
      c.nodeLoss = e.loss ∧ c.totalLoss = compose L e.loss parent.totalLoss ∧
      c.entries = parent.entries.eraseIdx idx ++ newEntries e orig := by
  unfold createNode at h
  split at h
  · simp at h
  · rename_i idx hidx
    split at h
    · simp at h
    · rename_i orig horig
      simp only [Option.some.injEq] at h
      subst h
      refine ⟨idx, orig, hidx, horig, ?_, rfl, rfl, rfl, rfl, rfl⟩
      have h1 := List.findIdx?_eq_some_iff_getElem.mp hidx
      obtain ⟨hlt, hp, _⟩ := h1
      have : parent.entries[idx] = orig := by
        have := List.getElem?_eq_getElem hlt
        rw [this] at horig
        exact Option.some.inj horig
      rw [this] at hp
      simpa using hp

/-! ### where children come from -/

/-- `c` is produced from `node` by one admissible step: an entangled register `ent` (rank 0), a
candidate bipartition `part` of it, one oracle answer `e` for that bipartition whose composed
loss fits the budget, and `_create_node` — and the child saves at least one CNOT in total. -/
def ChildOf (L : LossOps α) (O : Oracle α) (P : Params α) (node c : Node α) : Prop :=
  ∃ ent part e k0, ent ∈ node.entries ∧ ent.rank = 0 ∧
    part ∈ (candidates L O P.strategy ent (clampK k0 ent.qubits.length)).1 ∧
    e ∈ reduceEntanglement O ent.vec ent.qubits part P.ulr ∧
    L.le (compose L e.loss node.totalLoss) P.maxLoss = true ∧
    createNode L O node e = some c ∧ 0 < c.totalSaved

theorem addInfos_mem (L : LossOps α) (O : Oracle α) (P : Params α) (node : Node α)
    (infos : List (EInfo α)) (ch : List (Node α)) (c : Node α)
    (h : c ∈ addInfos L O P node ch infos) :
    c ∈ ch ∨ ∃ e ∈ infos, L.le (compose L e.loss node.totalLoss) P.maxLoss = true ∧
      createNode L O node e = some c ∧ 0 < c.totalSaved := by
  unfold addInfos at h
  induction infos generalizing ch with
  | nil => exact Or.inl h
  | cons e es ih =>
    simp only [List.foldl_cons] at h
    rcases ih _ h with h1 | ⟨e', he', hr⟩
    · split at h1
      · rename_i hle
        split at h1
        · rename_i nn hnn
          split at h1
          · rename_i hpos
            rcases List.mem_append.mp h1 with h2 | h2
            · exact Or.inl h2
            · simp only [List.mem_singleton] at h2
              subst h2
              exact Or.inr ⟨e, by simp, hle, hnn, hpos⟩
          · exact Or.inl h1
        · exact Or.inl h1
      · exact Or.inl h1
    · exact Or.inr ⟨e', by simp [he'], hr⟩

theorem partsFold_mem (L : LossOps α) (O : Oracle α) (P : Params α) (node : Node α) (ent : Entry)
    (parts : List (List Nat)) (a0 : ExpAcc α) (c : Node α)
    (h : c ∈ (parts.foldl (fun (a : ExpAcc α) part =>
      { a with
        children := addInfos L O P node a.children (reduceEntanglement O ent.vec ent.qubits part P.ulr)
        log := a.log ++ [⟨ent.vec, ent.qubits, part, P.ulr⟩] }) a0).children) :
    c ∈ a0.children ∨ ∃ part ∈ parts, ∃ e ∈ reduceEntanglement O ent.vec ent.qubits part P.ulr,
      L.le (compose L e.loss node.totalLoss) P.maxLoss = true ∧
      createNode L O node e = some c ∧ 0 < c.totalSaved := by
  induction parts generalizing a0 with
  | nil => exact Or.inl h
  | cons p ps ih =>
    simp only [List.foldl_cons] at h
    rcases ih _ h with h1 | ⟨part, hp, hr⟩
    · rcases addInfos_mem L O P node _ _ c h1 with h2 | ⟨e, he, hr⟩
      · exact Or.inl h2
      · exact Or.inr ⟨p, by simp, e, he, hr⟩
    · exact Or.inr ⟨part, by simp [hp], hr⟩

theorem expandReg_mem (L : LossOps α) (O : Oracle α) (P : Params α) (node : Node α)
    (acc : ExpAcc α) (ent : Entry) (c : Node α)
    (h : c ∈ (expandReg L O P node acc ent).children) :
    c ∈ acc.children ∨
      ∃ part ∈ (candidates L O P.strategy ent (clampK acc.maxK ent.qubits.length)).1,
      ∃ e ∈ reduceEntanglement O ent.vec ent.qubits part P.ulr,
      L.le (compose L e.loss node.totalLoss) P.maxLoss = true ∧
      createNode L O node e = some c ∧ 0 < c.totalSaved := by
  unfold expandReg at h
  rcases partsFold_mem L O P node ent _
    { acc with maxK := clampK acc.maxK ent.qubits.length,
               log := acc.log ++ (candidates L O P.strategy ent (clampK acc.maxK ent.qubits.length)).2 }
    c h with h1 | h1
  · exact Or.inl h1
  · exact Or.inr h1

theorem regsFold_mem (L : LossOps α) (O : Oracle α) (P : Params α) (node : Node α)
    (ents : List Entry) (acc : ExpAcc α) (c : Node α)
    (h : c ∈ (ents.foldl (expandReg L O P node) acc).children) :
    c ∈ acc.children ∨ ∃ ent ∈ ents, ∃ k0,
      ∃ part ∈ (candidates L O P.strategy ent (clampK k0 ent.qubits.length)).1,
      ∃ e ∈ reduceEntanglement O ent.vec ent.qubits part P.ulr,
      L.le (compose L e.loss node.totalLoss) P.maxLoss = true ∧
      createNode L O node e = some c ∧ 0 < c.totalSaved := by
  induction ents generalizing acc with
  | nil => exact Or.inl h
  | cons x xs ih =>
    simp only [List.foldl_cons] at h
    rcases ih _ h with h1 | ⟨ent, hent, hr⟩
    · rcases expandReg_mem L O P node acc x c h1 with h2 | hr
      · exact Or.inl h2
      · exact Or.inr ⟨x, by simp, acc.maxK, hr⟩
    · exact Or.inr ⟨ent, by simp [hent], hr⟩

/-- Every child kept by `_build_approximation_tree` (also after the `greedy` / `canonical`
reduction to the single best child) is an admissible step. -/
theorem expand_children (L : LossOps α) (O : Oracle α) (P : Params α) (node : Node α) (maxK : Nat)
    (c : Node α) (h : c ∈ (expand L O P node maxK).children) : ChildOf L O P node c := by
  have key : ∀ c, c ∈ ((node.entries.filter (fun e => e.rank == 0)).foldl (expandReg L O P node)
      ⟨[], maxK, []⟩).children → ChildOf L O P node c := by
    intro c hc
    rcases regsFold_mem L O P node _ _ c hc with h1 | ⟨ent, hent, k0, part, hpart, e, he, hle, hcn, hpos⟩
    · simp at h1
    · have := List.mem_filter.mp hent
      exact ⟨ent, part, e, k0, this.1, by simpa using this.2, hpart, he, hle, hcn, hpos⟩
  unfold expand at h
  simp only at h
  split at h
  · exact key c h
  · split at h
    · split at h
      · rename_i b hb
        simp only [List.mem_singleton] at h
        subst h
        exact key _ (searchBest_mem L _ _ hb)
      · exact key c h
    · exact key c h

/-! ### reachability -/

/-- `Reach … root k0 path nd k`: `nd` is obtained from `root` by admissible steps; `path` lists the
nodes from `nd` back to `root`; `k` is the running `max_k` the recursive call on `nd` receives. -/
inductive Reach (L : LossOps α) (O : Oracle α) (P : Params α) (root : Node α) (k0 : Nat) :
    List (Node α) → Node α → Nat → Prop
  | root : Reach L O P root k0 [root] root k0
  | child {path : List (Node α)} {nd c : Node α} {k : Nat} :
      Reach L O P root k0 path nd k → c ∈ (expand L O P nd k).children →
      Reach L O P root k0 (c :: path) c (expand L O P nd k).maxK

/-- Invariants proved for admissible steps hold at every reachable node. -/
theorem Reach.induct {L : LossOps α} {O : Oracle α} {P : Params α} {root : Node α} {k0 : Nat}
    (Inv : List (Node α) → Node α → Prop) (h0 : Inv [root] root)
    (hstep : ∀ path nd c, Inv path nd → ChildOf L O P nd c → Inv (c :: path) c)
    {path : List (Node α)} {nd : Node α} {k : Nat} (h : Reach L O P root k0 path nd k) :
    Inv path nd := by
  induction h with
  | root => exact h0
  | child _ hc ih => exact hstep _ _ _ ih (expand_children L O P _ _ _ hc)

theorem walk_reach (L : LossOps α) (O : Oracle α) (P : Params α) (root : Node α) (k0 : Nat)
    (fuel depth : Nat) (nd : Node α) (k : Nat) (path : List (Node α))
    (h : Reach L O P root k0 path nd k) :
    ∀ v ∈ walk L O P fuel depth nd k, ∃ path' k', Reach L O P root k0 path' v.node k' := by
  induction fuel generalizing depth nd k path with
  | zero =>
    intro v hv
    simp only [walk, List.mem_singleton] at hv
    subst hv
    exact ⟨path, k, h⟩
  | succ fuel ih =>
    intro v hv
    simp only [walk, List.mem_cons, List.mem_flatMap] at hv
    rcases hv with hv | ⟨c, hc, hv⟩
    · subst hv
      exact ⟨path, k, h⟩
    · have hr := Reach.child h hc
      split at hv
      · simp only [List.mem_singleton] at hv
        subst hv
        exact ⟨_, _, hr⟩
      · exact ih _ _ _ _ hr v hv

theorem search_reach (L : LossOps α) (O : Oracle α) (P : Params α) (n vec maxK : Nat) (b : Node α)
    (h : search L O P n vec maxK = some b) :
    ∃ path k, Reach L O P (rootNode L n vec) maxK path b k := by
  unfold search at h
  have hm := searchBest_mem L _ _ h
  unfold leavesOf at hm
  obtain ⟨v, hv, rfl⟩ := List.mem_map.mp hm
  exact walk_reach L O P _ _ _ _ _ _ _ Reach.root v (List.mem_filter.mp hv).1

/-- The canonical pre-run of `adaptive_approximation`: budget `1.0`, `max_k = 0`, no low rank. -/
def preParams (L : LossOps α) : Params α := ⟨L.one, .canonical, false⟩

/-- The node returned is either the early exit — reachable in the canonical pre-run and within
the budget by the guard — or reachable in the search with the caller's parameters. -/
theorem adaptive_reach (L : LossOps α) (O : Oracle α) (P : Params α) (n vec maxK : Nat) (b : Node α)
    (h : adaptiveApproximation L O P n vec maxK = some b) :
    (L.le b.totalLoss P.maxLoss = true ∧
      ∃ path k, Reach L O (preParams L) (rootNode L n vec) 0 path b k) ∨
    (∃ path k, Reach L O P (rootNode L n vec) maxK path b k) := by
  unfold adaptiveApproximation at h
  split at h
  · split at h
    · simp at h
    · rename_i prod hprod
      split at h
      · rename_i hle
        simp only [Option.some.injEq] at h
        subst h
        exact Or.inl ⟨hle, search_reach L O _ n vec 0 _ hprod⟩
      · exact Or.inr (search_reach L O P n vec maxK b h)
  · exact Or.inr (search_reach L O P n vec maxK b h)

end Qclib.Baa
