import QclibModel.Proofs.TreeAlloc
/-
  C11: which wires the multiplexers of `top_down` are placed on.  For a sub-tree root `t`
  (a node at the split level) `top_down` walks down `t.left.left…`; at depth `d` it appends the
  multiplexers `levelMux ctrl targets` with `targets` = all nodes of the sub-tree at depth `d` and
  `ctrl` = wires of the chain nodes above.  Core Lean only.
-/
namespace Qclib

/-- All nodes `d` levels below the given ones (`children` iterated). -/
def levelNodes {α : Type} : Nat → List (BT α) → List (BT α)
  | 0, ts => ts
  | d+1, ts => levelNodes d (children ts)

/-- `t.left.left…` (`d` times). -/
def BT.leftDesc {α : Type} : Nat → BT α → BT α
  | 0, t => t
  | d+1, t => BT.leftDesc d t.left

section
variable {F : Type} (o : TOps F)

/-- Unfolding of the chain walk (any tree shape): one `levelMux` per node of the left spine, the
controls being the spine wires above it. -/
theorem topDownChain_unfold : ∀ (t : BT (QV F)) (ctrl : List Nat) (targets : List (BT (QV F))),
    topDownChain o t ctrl targets
      = (List.range (leftSpine t).length).flatMap
          (fun d => levelMux o (ctrl ++ (leftSpine t).take d) (levelNodes d targets))
  | .nil, _, _ => by simp [topDownChain, leftSpine]
  | .node v l r, ctrl, targets => by
    simp only [topDownChain, leftSpine, List.length_cons]
    rw [topDownChain_unfold l, List.range_succ_eq_map, List.flatMap_cons, List.flatMap_map]
    simp only [List.take_zero, List.append_nil, levelNodes]
    congr 1
    have : ∀ d, ctrl ++ [wire v.q] ++ List.take d (leftSpine l)
        = ctrl ++ List.take (Nat.succ d) (wire v.q :: leftSpine l) := by
      intro d
      simp only [List.take_succ_cons, List.append_assoc, List.singleton_append]
    simp only [this]

end

section
variable {α : Type}

theorem children_cons_complete (h : Nat) (t : BT α) (ts : List (BT α)) (ht : complete (h+2) t) :
    children (t :: ts) = t.left :: t.right :: children ts := by
  obtain ⟨v, l, r, rfl, hl, hr⟩ := (complete_succ_iff (h+1) t).1 ht
  have hln : l.nonNil = [l] := by simp [BT.nonNil, complete_isNil _ _ hl]
  have hrn : r.nonNil = [r] := by simp [BT.nonNil, complete_isNil _ _ hr]
  simp only [children, List.flatMap_cons, BT.left, BT.right, hln, hrn]; rfl

/-- In complete trees the nodes `d` levels down are `2^d` per start node, all complete, and the
first of them is the `d`-fold left descendant of the first start node. -/
theorem levelNodes_complete : ∀ (d h : Nat) (t : BT α) (rest : List (BT α)),
    (∀ x ∈ t :: rest, complete (h + d + 1) x) →
    (∃ rest', levelNodes d (t :: rest) = BT.leftDesc d t :: rest')
      ∧ (levelNodes d (t :: rest)).length = (rest.length + 1) * 2^d
      ∧ ∀ x ∈ levelNodes d (t :: rest), complete (h + 1) x
  | 0, h, t, rest, hc => ⟨⟨rest, rfl⟩, by simp [levelNodes], hc⟩
  | d+1, h, t, rest, hc => by
    have hc' : ∀ x ∈ t :: rest, complete (h + d + 2) x := fun x hx => by
      have := hc x hx; rwa [show h + (d + 1) + 1 = h + d + 2 by omega] at this
    obtain ⟨hall, hlen⟩ := children_complete_succ (h + d) (t :: rest) hc'
    have hcons := children_cons_complete (h + d) t rest (hc' t (List.mem_cons_self ..))
    rw [hcons] at hall hlen
    obtain ⟨⟨rest', hr'⟩, hl', ha'⟩ := levelNodes_complete d h t.left (t.right :: children rest) hall
    simp only [levelNodes, hcons]
    refine ⟨⟨rest', hr'⟩, ?_, ha'⟩
    rw [hl']
    simp only [List.length_cons] at hlen ⊢
    rw [Nat.pow_succ]
    have : (children rest).length + 1 + 1 = 2 * (rest.length + 1) := hlen
    rw [this]
    ac_rfl

end

section
variable {F : Type} (o : TOps F)

theorem leftSpine_length_complete : ∀ (h : Nat) (t : BT (QV F)), complete h t →
    (leftSpine t).length = h
  | 0, .nil, _ => rfl
  | 0, .node .., hc => by simp [complete] at hc
  | h+1, .nil, hc => by simp [complete] at hc
  | h+1, .node v l r, hc => by
    simp only [leftSpine, List.length_cons, leftSpine_length_complete h l hc.1]

theorem leftSpine_get_complete : ∀ (d h : Nat) (t : BT (QV F)), complete (h + d + 1) t →
    (leftSpine t)[d]? = some (wire ((BT.leftDesc d t).valD ⟨o.zero, o.zero, none⟩).q)
  | 0, h, .nil, hc => by simp [complete] at hc
  | 0, h, .node v l r, _ => by simp [leftSpine, BT.leftDesc, BT.valD]
  | d+1, h, .nil, hc => by simp [complete] at hc
  | d+1, h, .node v l r, hc => by
    have hl : complete (h + d + 1) l := by
      have := hc.1; rwa [show h + (d + 1) = h + d + 1 by omega] at this
    simp only [leftSpine, BT.leftDesc, BT.left, List.getElem?_cons_succ]
    exact leftSpine_get_complete d h l hl

/-- **Placement of the top-down multiplexers** on a complete sub-tree with `h+1` levels: the
walk emits, for `d = 0 … h`, `levelMux` with controls = the first `d` wires of the sub-tree's left
spine (the chain ancestors of the target, reversed inside `levelMux`), and targets = the `2^d`
nodes at depth `d`, whose first node is the `d`-th node of the left spine — so the target wire
`levelMux` reads (`wire targets[0].q`) is the `d`-th spine wire. -/
theorem topDownChain_spec (h : Nat) (t : BT (QV F)) (ht : complete (h+1) t) :
    topDownChain o t [] [t]
        = (List.range (h+1)).flatMap
            (fun d => levelMux o ((leftSpine t).take d) (levelNodes d [t]))
    ∧ ∀ d, d ≤ h →
        (∃ rest, levelNodes d [t] = BT.leftDesc d t :: rest)
        ∧ (levelNodes d [t]).length = 2^d
        ∧ ((leftSpine t).take d).length = d
        ∧ (leftSpine t)[d]? = some (wire ((BT.leftDesc d t).valD ⟨o.zero, o.zero, none⟩).q) := by
  constructor
  · rw [topDownChain_unfold, leftSpine_length_complete _ _ ht]
    simp
  · intro d hd
    have hc : ∀ x ∈ [t], complete ((h - d) + d + 1) x := by
      intro x hx
      rw [List.mem_singleton.1 hx, show h - d + d + 1 = h + 1 by omega]; exact ht
    obtain ⟨h1, h2, -⟩ := levelNodes_complete d (h - d) t [] hc
    refine ⟨h1, by simpa using h2, ?_, ?_⟩
    · rw [List.length_take, leftSpine_length_complete _ _ ht]; omega
    · exact leftSpine_get_complete o d (h - d) t (by
        rw [show h - d + d + 1 = h + 1 by omega]; exact ht)

theorem children_append {α : Type} (xs ys : List (BT α)) :
    children (xs ++ ys) = children xs ++ children ys := by
  simp [children, List.flatMap_append]

theorem levelNodes_append {α : Type} : ∀ (d : Nat) (xs ys : List (BT α)),
    levelNodes d (xs ++ ys) = levelNodes d xs ++ levelNodes d ys
  | 0, _, _ => rfl
  | d+1, xs, ys => by simp only [levelNodes, children_append, levelNodes_append d]

/-- `top_down` descends to the split level and starts one chain walk per sub-tree root there. -/
theorem topDown_eq_flatMap (sl : Nat) : ∀ (d lvl h : Nat) (t : BT (QV F)), lvl + d = sl →
    complete (h + d + 1) t →
    topDown o sl lvl t = (levelNodes d [t]).flatMap (fun t => topDownChain o t [] [t])
  | 0, lvl, h, .nil, _, hc => by simp [complete] at hc
  | 0, lvl, h, .node v l r, hl, _ => by
    simp only [topDown, levelNodes, List.flatMap_cons, List.flatMap_nil, List.append_nil]
    rw [if_neg (by omega)]
  | d+1, lvl, h, .nil, _, hc => by simp [complete] at hc
  | d+1, lvl, h, .node v l r, hl, hc => by
    have hcl : complete (h + d + 1) l := by
      have := hc.1; rwa [show h + (d + 1) = h + d + 1 by omega] at this
    have hcr : complete (h + d + 1) r := by
      have := hc.2; rwa [show h + (d + 1) = h + d + 1 by omega] at this
    have hch : children [BT.node v l r] = [l] ++ [r] := by
      have := children_cons_complete (h + d) (.node v l r) []
        (by rw [show h + d + 2 = h + (d + 1) + 1 by omega]; exact hc)
      simpa [children, BT.left, BT.right] using this
    simp only [topDown, levelNodes]
    rw [if_pos (by omega), hch, levelNodes_append, List.flatMap_append,
      topDown_eq_flatMap sl d (lvl+1) h l (by omega) hcl,
      topDown_eq_flatMap sl d (lvl+1) h r (by omega) hcr]

#print axioms topDownChain_spec

end
end Qclib
