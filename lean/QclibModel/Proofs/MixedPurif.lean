import QclibModel.Proofs.MixedBits
import Mathlib.Algebra.BigOperators.Group.Finset.Basic
import Mathlib.Algebra.Star.Basic
import Mathlib.Tactic.Ring
/-
  C14: the purification vector of the model in closed form, its reduced state, and the in-circuit
  plan.  Amplitudes live in an arbitrary commutative ring; `sqrt` is an arbitrary function (the
  theorems assume `sqrt (p i)` is self-adjoint and squares to `p i` where needed).
-/
namespace Qclib.Mixed
open Finset

/-- The model's amplitude operations read in a commutative ring. -/
def ringPOps (R : Type) [CommRing R] (sqrt : R → R) : POps R := ⟨0, 1, (· + ·), (· * ·), sqrt⟩

section
variable {R : Type} [CommRing R] (sqrt : R → R)

/-- Closed form of the accumulation loop after `m` iterations, at flat index `x·2^a + i`. -/
theorem purifLoop_closed (a : Nat) (ψ : Nat → Nat → R) (p : Nat → R) (m x i : Nat) (hi : i < 2 ^ a) :
    purifLoop (ringPOps R sqrt) a ψ p m (x * 2 ^ a + i) = if i < m then sqrt (p i) * ψ i x else 0 := by
  induction m with
  | zero => simp [purifLoop, ringPOps]
  | succ m ih =>
    show purifLoop (ringPOps R sqrt) a ψ p m (x * 2 ^ a + i)
        + (sqrt (p m) * ψ m ((x * 2 ^ a + i) / 2 ^ a))
          * (if (x * 2 ^ a + i) % 2 ^ a = m then (1 : R) else 0) = _
    rw [ih, index_div hi, index_mod hi]
    by_cases h1 : i < m
    · have h2 : i ≠ m := by omega
      have h3 : i < m + 1 := by omega
      simp [h1, h2, h3]
    · by_cases h2 : i = m
      · subst h2; simp
      · have h3 : ¬ i < m + 1 := by omega
        simp [h1, h2, h3]

theorem purification_closed (a k lenP : Nat) (ψ : Nat → Nat → R) (p : Nat → R) (x i : Nat)
    (hi : i < 2 ^ a) :
    purification (ringPOps R sqrt) a k lenP ψ p (x * 2 ^ a + i)
      = if i < min k lenP then sqrt (p i) * ψ i x else 0 :=
  purifLoop_closed sqrt a ψ p (min k lenP) x i hi

/-- Tracing out the aux index of the purification vector. -/
theorem purification_reduced [StarRing R] (a k lenP : Nat) (hk : min k lenP ≤ 2 ^ a)
    (ψ : Nat → Nat → R) (p : Nat → R)
    (hreal : ∀ i, i < min k lenP → star (sqrt (p i)) = sqrt (p i))
    (hsq : ∀ i, i < min k lenP → sqrt (p i) * sqrt (p i) = p i) (x y : Nat) :
    (∑ i ∈ range (2 ^ a),
        purification (ringPOps R sqrt) a k lenP ψ p (x * 2 ^ a + i)
          * star (purification (ringPOps R sqrt) a k lenP ψ p (y * 2 ^ a + i)))
      = ∑ i ∈ range (min k lenP), p i * (ψ i x * star (ψ i y)) := by
  have hterm : ∀ i, i ∈ range (2 ^ a) →
      purification (ringPOps R sqrt) a k lenP ψ p (x * 2 ^ a + i)
          * star (purification (ringPOps R sqrt) a k lenP ψ p (y * 2 ^ a + i))
        = if i < min k lenP then p i * (ψ i x * star (ψ i y)) else 0 := by
    intro i hi
    have hi' : i < 2 ^ a := mem_range.1 hi
    rw [purification_closed sqrt a k lenP ψ p x i hi', purification_closed sqrt a k lenP ψ p y i hi']
    by_cases h : i < min k lenP
    · rw [if_pos h, if_pos h, if_pos h, star_mul', hreal i h]
      have e := hsq i h
      calc sqrt (p i) * ψ i x * (sqrt (p i) * star (ψ i y))
          = (sqrt (p i) * sqrt (p i)) * (ψ i x * star (ψ i y)) := by ring
        _ = p i * (ψ i x * star (ψ i y)) := by rw [e]
    · rw [if_neg h, if_neg h, if_neg h, zero_mul]
  rw [sum_congr rfl hterm]
  rw [← sum_subset (range_mono hk) (fun i _ hni => by
    rw [if_neg (by simpa using hni)])]
  apply sum_congr rfl
  intro i hi
  rw [if_pos (mem_range.1 hi)]

/-! ### In-circuit plan -/

/-- the state after the first `m` controlled sub-initializers -/
def stageAmp (lenP : Nat) (ψ : Nat → Nat → R) (p : Nat → R) (a n m : Nat) : State R :=
  fun b =>
    auxState (ringPOps R sqrt) lenP p (readReg 0 a b)
      * (if readReg 0 a b < m then ψ (readReg 0 a b) (readReg a n b)
         else if readReg a n b = 0 then 1 else 0)

omit [CommRing R] in
theorem runSteps_range (V : Nat → State R → State R) (a n m : Nat) (φ : State R) :
    runSteps V (inCircuitSteps a n (m + 1)) φ = V m (runSteps V (inCircuitSteps a n m) φ) := by
  unfold runSteps inCircuitSteps
  rw [List.range_succ, List.map_append, List.foldl_append]
  rfl

theorem incircuit_stage (a n k lenP : Nat) (hk : k ≤ 2 ^ a) (ψ : Nat → Nat → R) (p : Nat → R)
    (V : Nat → State R → State R)
    (hV : ∀ i, i < k → IsCtrlPrep a n (ctrlLits a i) (ψ i) (V i))
    (m : Nat) (hm : m ≤ k) :
    runSteps V (inCircuitSteps a n m) (stageAmp sqrt lenP ψ p a n 0) = stageAmp sqrt lenP ψ p a n m := by
  induction m with
  | zero => rfl
  | succ m ih =>
    rw [runSteps_range, ih (by omega)]
    have hm2 : m < 2 ^ a := by omega
    funext b
    rw [hV m (by omega) (stageAmp sqrt lenP ψ p a n m) ?pre b]
    case pre =>
      intro b hc hx
      have hi : readReg 0 a b = m := (ctrlOk_ctrlLits_iff hm2 b).1 hc
      unfold stageAmp
      rw [hi, if_neg (by omega), if_neg hx, mul_zero]
    by_cases hc : ctrlOk (ctrlLits a m) b = true
    · have hi : readReg 0 a b = m := (ctrlOk_ctrlLits_iff hm2 b).1 hc
      rw [if_pos hc]
      unfold stageAmp
      rw [readReg_clear_other b (by omega : 0 + a ≤ a), readReg_clear_self, hi,
        if_neg (by omega), if_pos rfl, if_pos (by omega), mul_one]
    · have hi : readReg 0 a b ≠ m := fun h => hc ((ctrlOk_ctrlLits_iff hm2 b).2 h)
      rw [if_neg hc]
      unfold stageAmp
      by_cases h1 : readReg 0 a b < m
      · rw [if_pos h1, if_pos (by omega)]
      · rw [if_neg h1, if_neg (show ¬ readReg 0 a b < m + 1 by omega)]

end
end Qclib.Mixed
