import QclibModel.Proofs.TreeSem
import QclibModel.Proofs.TreeAngles
/-
  C11: assembling allocation + closed form for the model of `DcspInitialize`.
-/
namespace Qclib
open RotSem

theorem complete_depth {α : Type} : ∀ (n : Nat) (t : BT α), complete n t → t.depth = n
  | 0, .nil, _ => rfl
  | 0, .node .., h => by simp [complete] at h
  | n+1, .nil, h => by simp [complete] at h
  | n+1, .node v l r, h => by
    simp only [BT.depth, complete_depth n l h.1, complete_depth n r h.2, Nat.max_self]

/-- What the model of `DcspInitialize` produces for `2^n` amplitudes, `n ≥ 1`. -/
structure DcspSpec {F : Type} (o : TOps F) (n : Nat) (leaves : Nat → SV F) (out : TreeOut F) : Prop where
  gates_eq : out.gates = bottomUp o n 0 out.alloc.tree
  shape : complete n out.alloc.tree
  angles_eq : angles out.alloc.tree = angleTree o (stateTree o n leaves)
  wires : treeWires out.alloc.tree = qubitOrder n (2^n - 1)
  spineW : leftSpine out.alloc.tree = (List.range n).reverse
  width : out.alloc.circWidth = 2^n - 1

theorem dcsp_spec {F : Type} (o : TOps F) (n : Nat) (hn : 1 ≤ n) (leaves : Nat → SV F) :
    ∃ out, dcsp o (2^n) leaves = some out ∧ DcspSpec o n leaves out := by
  obtain ⟨m, rfl⟩ : ∃ m, n = m + 1 := ⟨n - 1, by omega⟩
  have hc := angleTree_complete o m leaves
  obtain ⟨a, ha, hq, -, hw, -, hws, spec⟩ :=
    addRegister_complete (m+1) 1 (by omega) (by omega) _ hc
  rw [show m + 1 - 1 = m by omega] at hq ha spec
  have hnq : a.nqubits = 2^(m+1) - 1 := by rw [Nat.pow_succ]; omega
  refine ⟨⟨1, dcspDeclared (2^(m+1)), a, m + 1, bottomUp o (m + 1) 0 a.tree⟩, ?_, ?_⟩
  · simp only [dcsp, Nat.log2_two_pow]
    rw [if_neg (by omega), show m + 1 - 1 = m by omega, ha]
  · have hall := spec.allq (by omega)
    refine ⟨rfl, spec.shape, spec.angles_eq, ?_, ?_, ?_⟩
    · show treeWires a.tree = _
      rw [treeWires_eq_allocWires _ hall, hws, hnq]
    · show leftSpine a.tree = _
      rw [spec.spineW, hnq, qubitOrder_take]
    · show a.circWidth = _
      rw [hw, hnq]

section
variable {Θ R : Type} [AddCommGroup Θ] [CommRing R] [RotSem Θ R] [RotLaws Θ R]

/-- **Closed form of the `DcspInitialize` circuit**: on every state `ψ` in which the `2^n - 1`
tree wires are `|0⟩` (spectator wires arbitrary), the output amplitude at label `b` is
`treeAmp b` times the input amplitude at `b` with the tree wires cleared. -/
theorem dcsp_closed (o : TOps Θ) (hnz : ∀ x, o.neZero x = false → x = 0) (n : Nat)
    (leaves : Nat → SV Θ) (out : TreeOut Θ) (hs : DcspSpec o n leaves out)
    (ψ : State R) (hψ : ZeroOn (treeWires out.alloc.tree) ψ) (b : Bits) :
    sem out.gates ψ b
      = treeAmp o out.alloc.tree b * ψ (clr (treeWires out.alloc.tree) b) := by
  rw [hs.gates_eq]
  exact bottomUp_closed o hnz n out.alloc.tree 0
    (by rw [complete_depth _ _ hs.shape]; omega)
    (by rw [hs.wires]; exact qubitOrder_nodup _ _) ψ hψ b

end
end Qclib
