import QclibModel.Proofs.Mcu2OpSem
import QclibModel.Proofs.McsuSem
import QclibModel.Proofs.RotReal
import Mathlib.Tactic.LinearCombination
/-
  C04, part B — the two one-parameter groups the operator theorem for `Ldmcu` / `Qdmcu` is about
  exist in the form the code computes them:

  * `eigPow P P' λ μ r = P·diag(λ r, μ r)·P'` (`Ldmcu._gate_u`, `Qdmcu.custom_sqrtm`: the power of
    `U` through `orthonormal_eig`; `λ r = e^{iαr}`, `μ r = e^{iβr}` are multiplicative characters
    and `P'` the inverse of the eigenvector matrix) is a one-parameter group with
    `eigPow … 1 = P·diag(λ 1, μ 1)·P' = U`;
  * `rxPow I π r = RX(π·r) = [[cos, -i·sin], [-i·sin, cos]](π r / 2)` over any `RotLaws` instance
    with a square root `I` of `-1` and an additive `π : ℚ → Θ` with `cs (π 1) = 0`
    (`cos(π/2) = 0`) is a one-parameter group with anti-diagonal half-turns;
  * both for `Θ = ℝ`, `R = ℂ`.
-/
namespace Qclib.Mcu2
open RotSem Mcsu

section eig
variable {R : Type} [CommRing R]

/-- `P·diag(λ r, μ r)·P'`. -/
def eigPow (P P' : Mat2 R) (lam mu : ℚ → R) (r : ℚ) : Mat2 R :=
  P * Mat2.diag (lam r) (mu r) * P'

theorem diag_mul_diag (p q p' q' : R) :
    (Mat2.diag p q : Mat2 R) * Mat2.diag p' q' = Mat2.diag (p * p') (q * q') := by
  apply Mat2.ext' <;> simp [mat_mul_def, Mat2.mul, Mat2.diag]

theorem eigPow_oneParam (P P' : Mat2 R) (h1 : P * P' = 1) (h2 : P' * P = 1) (lam mu : ℚ → R)
    (hl : ∀ a b, lam (a + b) = lam a * lam b) (hl0 : lam 0 = 1)
    (hm : ∀ a b, mu (a + b) = mu a * mu b) (hm0 : mu 0 = 1) : OneParam (eigPow P P' lam mu) := by
  constructor
  · intro a b
    have cancel : ∀ X : Mat2 R, P' * (P * X) = X := by
      intro X
      rw [← mat_mul_assoc, h2, mat_one_mul]
    simp only [eigPow, mat_mul_assoc, cancel]
    rw [← mat_mul_assoc (Mat2.diag (lam a) (mu a)), diag_mul_diag, hl, hm]
  · have : (Mat2.diag (lam 0) (mu 0) : Mat2 R) = 1 := by rw [hl0, hm0]; rfl
    simp only [eigPow, this, mat_mul_one, h1]

end eig

section rx
variable {Θ R : Type} [AddCommGroup Θ] [CommRing R] [RotSem Θ R] [RotLaws Θ R]

/-- `RX(θ) = [[cos θ/2, -i sin θ/2], [-i sin θ/2, cos θ/2]]` (`I` a square root of `-1`). -/
def matRX (I : R) (θ : Θ) : Mat2 R := ⟨cs θ, -(I * sn θ), -(I * sn θ), cs θ⟩

/-- `RX(π·r)`: `r` half-turns. -/
def rxPow (I : R) (pi : ℚ → Θ) (r : ℚ) : Mat2 R := matRX I (pi r)

theorem matRX_add (I : R) (hI : I * I = -1) (a b : Θ) :
    (matRX I (a + b) : Mat2 R) = matRX I a * matRX I b := by
  apply Mat2.ext' <;>
    simp only [matRX, mat_mul_def, Mat2.mul, RotLaws.cs_add, RotLaws.sn_add]
  · linear_combination (-((sn a : R) * sn b)) * hI
  · ring
  · ring
  · linear_combination (-((sn a : R) * sn b)) * hI

theorem pi_zero (pi : ℚ → Θ) (hadd : ∀ a b, pi (a + b) = pi a + pi b) : pi 0 = 0 := by
  have := hadd 0 0
  rw [add_zero] at this
  have h2 : pi 0 + pi 0 = pi 0 + 0 := by rw [add_zero]; exact this.symm
  exact add_left_cancel h2

theorem pi_neg (pi : ℚ → Θ) (hadd : ∀ a b, pi (a + b) = pi a + pi b) (r : ℚ) :
    pi (-r) = -pi r := by
  have := hadd (-r) r
  rw [neg_add_cancel, pi_zero pi hadd] at this
  exact eq_neg_of_add_eq_zero_left this.symm

theorem rxPow_oneParam (I : R) (hI : I * I = -1) (pi : ℚ → Θ)
    (hadd : ∀ a b, pi (a + b) = pi a + pi b) : OneParam (rxPow (R := R) I pi) := by
  constructor
  · intro a b
    simp only [rxPow, hadd, matRX_add I hI]
  · simp only [rxPow, pi_zero pi hadd, matRX, RotLaws.cs_zero, RotLaws.sn_zero, mul_zero, neg_zero]
    rfl

theorem rxPow_halfTurn (I : R) (pi : ℚ → Θ) (hadd : ∀ a b, pi (a + b) = pi a + pi b)
    (h1 : (cs (pi 1) : R) = 0) : HalfTurn (rxPow (R := R) I pi) := by
  constructor
  · exact h1
  · exact h1
  · show (cs (pi (-1)) : R) = 0
    rw [pi_neg pi hadd, RotLaws.cs_neg, h1]
  · show (cs (pi (-1)) : R) = 0
    rw [pi_neg pi hadd, RotLaws.cs_neg, h1]

end rx

/-! ### The real instance -/

/-- `r` half-turns as a real angle. -/
noncomputable def piQ (r : ℚ) : ℝ := (r : ℝ) * Real.pi

theorem piQ_add (a b : ℚ) : piQ (a + b) = piQ a + piQ b := by
  simp only [piQ]; push_cast; ring

theorem cs_piQ_one : (cs (piQ 1) : ℂ) = 0 := by
  show ((Real.cos (piQ 1 / 2) : ℝ) : ℂ) = 0
  simp [piQ, Real.cos_pi_div_two]

/-- `crx(s·π/p)` over `ℂ`. -/
noncomputable def rxReal : ℚ → Mat2 ℂ := rxPow Complex.I piQ

theorem rxReal_oneParam : OneParam rxReal :=
  rxPow_oneParam Complex.I Complex.I_mul_I piQ piQ_add

theorem rxReal_halfTurn : HalfTurn rxReal := rxPow_halfTurn Complex.I piQ piQ_add cs_piQ_one

/-- `e^{iαr}`. -/
noncomputable def expChar (α : ℝ) (r : ℚ) : ℂ := Complex.exp (Complex.I * ((α : ℂ) * (r : ℂ)))

theorem expChar_add (α : ℝ) (a b : ℚ) : expChar α (a + b) = expChar α a * expChar α b := by
  simp only [expChar]
  rw [← Complex.exp_add]
  congr 1
  push_cast
  ring

theorem expChar_zero (α : ℝ) : expChar α 0 = 1 := by
  simp [expChar]

/-- `U^r = P·diag(e^{iαr}, e^{iβr})·P'` over `ℂ`. -/
noncomputable def urReal (P P' : Mat2 ℂ) (α β : ℝ) : ℚ → Mat2 ℂ :=
  eigPow P P' (expChar α) (expChar β)

theorem urReal_oneParam (P P' : Mat2 ℂ) (h1 : P * P' = 1) (h2 : P' * P = 1) (α β : ℝ) :
    OneParam (urReal P P' α β) :=
  eigPow_oneParam P P' h1 h2 _ _ (expChar_add α) (expChar_zero α) (expChar_add β) (expChar_zero β)

theorem urReal_one (P P' : Mat2 ℂ) (α β : ℝ) :
    urReal P P' α β 1
      = P * Mat2.diag (Complex.exp (Complex.I * α)) (Complex.exp (Complex.I * β)) * P' := by
  simp [urReal, eigPow, expChar]

end Qclib.Mcu2
