import QclibModel.Proofs.McxPerm
/-
  C05: the model `vchainBody` of `McxVchainDirty._define` rewritten as
  `first gate ++ sweep ++ first gate ++ sweep`, and its denotation for every branch.
-/
set_option linter.unusedSectionVars false

namespace Qclib
open RotSem

theorem flatMap_congr' {α β : Type} {l : List α} {f g : α → List β} (h : ∀ x ∈ l, f x = g x) :
    l.flatMap f = l.flatMap g := by
  induction l with
  | nil => rfl
  | cons x l ih =>
    rw [List.flatMap_cons, List.flatMap_cons, h x List.mem_cons_self,
      ih (fun y hy => h y (List.mem_cons_of_mem _ hy))]

section lists
variable {Θ : Type} (o : McxAngles Θ)

theorem chainL_eq (t : Nat → Nat) (n : Nat) :
    (chainL t n : Circ Θ) = (List.range n).map (fun i => G.cx (t (n - 1 - i)) (t (n - i))) := by
  induction n with
  | zero => rfl
  | succ n ih =>
    rw [chainL, ih, List.range_succ_eq_map, List.map_cons, List.map_map]
    congr 1
    apply List.map_congr_left
    intro i hi
    have := List.mem_range.mp hi
    simp only [Function.comp, Nat.succ_eq_add_one]
    congr 2 <;> omega

theorem chainR_eq (t : Nat → Nat) (n : Nat) :
    (chainR t n : Circ Θ) = (List.range n).map (fun i => G.cx (t i) (t (i + 1))) := by
  induction n with
  | zero => rfl
  | succ n ih => rw [chainR, ih, List.range_succ, List.map_append]; rfl

theorem tmt_left (nt : Nat) (x y : Nat) (t : Nat → Nat) :
    ((List.range (nt - 1)).map (fun i => (G.cx (2 + nt - i - 2) (2 + nt - i - 1) : G Θ))).map
        (G.mapWires (tmtWires x y t)) = chainL t (nt - 1) := by
  rw [chainL_eq, List.map_map]
  apply List.map_congr_left
  intro i hi
  have := List.mem_range.mp hi
  have h1 : ¬ (2 + nt - i - 2 = 0) := by omega
  have h2 : ¬ (2 + nt - i - 2 = 1) := by omega
  have h3 : ¬ (2 + nt - i - 1 = 0) := by omega
  have h4 : ¬ (2 + nt - i - 1 = 1) := by omega
  simp only [Function.comp, G.mapWires, tmtWires, if_neg h1, if_neg h2, if_neg h3, if_neg h4]
  congr 2 <;> omega

theorem tmt_right (nt : Nat) (x y : Nat) (t : Nat → Nat) :
    ((List.range (nt - 1)).map (fun i => (G.cx (i + 2) (i + 3) : G Θ))).map
        (G.mapWires (tmtWires x y t)) = chainR t (nt - 1) := by
  rw [chainR_eq, List.map_map]
  apply List.map_congr_left
  intro i hi
  have h1 : ¬ (i + 2 = 0) := by omega
  have h2 : ¬ (i + 2 = 1) := by omega
  have h3 : ¬ (i + 3 = 0) := by omega
  have h4 : ¬ (i + 3 = 1) := by omega
  simp only [Function.comp, G.mapWires, tmtWires, if_neg h1, if_neg h2, if_neg h3, if_neg h4]
  rfl

theorem tmtOn_l (nt x y : Nat) (t : Nat → Nat) :
    (tmtOn nt .l x y t : Circ Θ) = chainL t (nt - 1) ++ [G.ccx x y (t 0)] := by
  simp only [tmtOn, toffoliMultiTarget, List.map_append, tmt_left]
  rfl

theorem tmtOn_r (nt x y : Nat) (t : Nat → Nat) :
    (tmtOn nt .r x y t : Circ Θ) = [G.ccx x y (t 0)] ++ chainR t (nt - 1) := by
  simp only [tmtOn, toffoliMultiTarget, List.map_append, tmt_right]
  rfl

theorem tmtOn_both (nt x y : Nat) (t : Nat → Nat) :
    (tmtOn nt .both x y t : Circ Θ)
      = chainL t (nt - 1) ++ [G.ccx x y (t 0)] ++ chainR t (nt - 1) := by
  simp only [tmtOn, toffoliMultiTarget, List.map_append, tmt_left, tmt_right]
  rfl

/-- `Toffoli(cancel='right')` of ladder level `m ≥ 1`. -/
def tofR (c a : Nat → Nat) (m : Nat) : Circ Θ := toffoli o .right (c (m + 1)) (a (m - 1)) (a m)
/-- `Toffoli(cancel='left')` of ladder level `m ≥ 1`. -/
def tofL (c a : Nat → Nat) (m : Nat) : Circ Θ := toffoli o .left (c (m + 1)) (a (m - 1)) (a m)

theorem sweep_flat (c a : Nat → Nat) (n : Nat) :
    sweep o c a n
      = (List.range n).flatMap (fun i => tofR o c a (n - i)) ++ toffoli o .none (c 0) (c 1) (a 0)
          ++ (List.range n).flatMap (fun i => tofL o c a (i + 1)) := by
  induction n with
  | zero => simp [sweep]
  | succ n ih =>
    have e1 : (List.range (n + 1)).flatMap (fun i => tofR o c a (n + 1 - i))
        = tofR o c a (n + 1) ++ (List.range n).flatMap (fun i => tofR o c a (n - i)) := by
      rw [List.range_succ_eq_map, List.flatMap_cons, List.flatMap_map]
      congr 1
      apply flatMap_congr'
      intro i _
      show tofR o c a (n + 1 - (i + 1)) = tofR o c a (n - i)
      congr 1
      omega
    have e2 : (List.range (n + 1)).flatMap (fun i => tofL o c a (i + 1))
        = (List.range n).flatMap (fun i => tofL o c a (i + 1)) ++ tofL o c a (n + 1) := by
      rw [List.range_succ, List.flatMap_append, List.flatMap_singleton]
    rw [sweep, ih, e1, e2]
    simp only [tofR, tofL, List.append_assoc, Nat.add_sub_cancel]

/-- The first gate of a pass: the exact (multi-target) Toffoli, or in relative-phase mode the
right- or left-cancelled Toffoli on `t 0`. -/
def firstGate (k nt : Nat) (c a t : Nat → Nat) (rp : Bool) (j : Nat) (side : Side) : Circ Θ :=
  if rp = true then
    (if j = 1 then toffoli o .left (c (k - 1)) (a (k - 3)) (t 0)
     else toffoli o .right (c (k - 1)) (a (k - 3)) (t 0))
  else tmtOn nt side (c (k - 1)) (a (k - 3)) t

/-- One pass of the general branch: first gate, then the sweep over all borrowed qubits. -/
theorem action_reset (n nt : Nat) (c a t : Nat → Nat) (rp : Bool) (j : Nat) (side : Side) :
    actionCircuit o (n + 3) nt c a t rp j side ++ resetCircuit o (n + 3) c a
      = firstGate o (n + 3) nt c a t rp j side ++ sweep o c a n := by
  have hr : List.range (n + 3 - 1) = 0 :: (List.map Nat.succ (List.range n) ++ [n + 1]) := by
    have : n + 3 - 1 = n + 1 + 1 := by omega
    rw [this, List.range_succ_eq_map, List.range_succ, List.map_append]
    rfl
  have hreset : resetCircuit o (n + 3) c a = (List.range n).flatMap (fun i => tofL o c a (i + 1)) := by
    have : n + 3 - 2 - 1 = n := by omega
    simp only [resetCircuit, this, tofL]
    apply flatMap_congr'
    intro i _
    have e : 2 + i = i + 1 + 1 := by omega
    rw [e]
    rfl
  rw [sweep_flat, hreset]
  simp only [actionCircuit, hr, List.flatMap_cons, List.flatMap_append, List.flatMap_map,
    List.append_assoc]
  congr 1
  · -- i = 0
    have h0 : 0 < n + 3 - 2 := by omega
    simp only [firstGate, if_pos h0]
    cases rp
    · simp
    · by_cases hj : j = 1
      · simp [hj]
      · simp [hj]
  · congr 1
    · apply flatMap_congr'
      intro i hi
      have := List.mem_range.mp hi
      have h1 : i.succ < n + 3 - 2 := by omega
      have h2 : i.succ ≠ 0 := by omega
      simp only [if_pos h1, h2, ne_eq, not_false_eq_true, true_or, if_true, false_and, and_false,
        if_false, tofR]
      have e1 : n + 3 - i.succ - 1 = n - i + 1 := by omega
      have e2 : n + 3 - 2 - i.succ - 1 = n - i - 1 := by omega
      have e3 : n + 3 - 2 - i.succ = n - i := by omega
      rw [e1, e2, e3]
    · congr 1
      have h1 : ¬ (n + 1 < n + 3 - 2) := by omega
      have h2 : n + 1 ≠ 0 := by omega
      have e1 : n + 3 - (n + 1) - 2 = 0 := by omega
      have e2 : n + 3 - (n + 1) - 1 = 1 := by omega
      have e3 : n + 3 - 2 - (n + 1) = 0 := by omega
      simp only [if_neg h1, if_neg h2, e1, e2, e3]

end lists

section sem
variable {Θ R : Type} [CommRing R] [RotSem Θ R] (o : McxAngles Θ) (hp : Pi8 R o)

omit [CommRing R] [RotSem Θ R] in
theorem all1_flipBit (c : Nat → Nat) (n : Nat) (b : Bits) (q : Nat) (h : ∀ i, i < n → c i ≠ q) :
    all1 c n (flipBit b q) = all1 c n b :=
  all1_congr c n b _ (fun i hi => flipBit_ne b (h i hi))

include hp

/-- General branch, exact mode: two passes `T_l ; S ; T_r ; S` flip all targets iff all controls
are 1, for every state (`k = n + 3` controls, `n + 1` borrowed qubits, `m + 1` targets). -/
theorem general_exact (n m : Nat) (c a t : Nat → Nat) (L : VLayout (n + 3) (m + 1) c a t)
    (ψ : State R) :
    sem (firstGate o (n + 3) (m + 1) c a t false 0 .l ++ sweep o c a n
        ++ (firstGate o (n + 3) (m + 1) c a t false 1 .r ++ sweep o c a n)) ψ
      = condFlipAll (all1 c (n + 3)) ((List.range (m + 1)).map t) ψ := by
  obtain ⟨σ, π, hsem, hinv⟩ := sweep_sem (R := R) o hp c a n
    (fun i i' hi hi' => L.hca i i' (by omega) (by omega))
    (fun i i' hi hi' => L.haa i i' (by omega) (by omega))
  have hfree : ∀ i, i < m + 1 → FreeAt (t i) σ π := fun i hi => hinv.free _
    (fun i' hi' => L.hct i' i (by omega) hi) (fun i' hi' => L.hat i' i (by omega) hi)
  have hkeepc : ∀ b i, i < n + 3 → (π b) (c i) = b (c i) := fun b i hi =>
    hinv.keep b _ (fun i' hi' => (L.hca i i' hi (by omega)).symm)
  have e3 : n + 3 - 3 = n := by omega
  have e1 : n + 3 - 1 = n + 2 := by omega
  simp only [firstGate, Bool.false_eq_true, if_false, tmtOn_l, tmtOn_r, e1, e3,
    Nat.add_sub_cancel, sem_append, sem_single, hsem, denote_ccx_condFlip]
  have hK : ∀ g ∈ (chainR t m : Circ Θ), ∃ u v, g = G.cx u v ∧ FreeAt u σ π ∧ FreeAt v σ π := by
    intro g hg
    obtain ⟨i, hi, rfl⟩ := chainR_mem t m g hg
    exact ⟨_, _, rfl, hfree i (by omega), hfree (i + 1) (by omega)⟩
  rw [← cxs_sp_comm σ π (chainR t m) hK, sandwich σ π (a n) (t 0) (all1 c (n + 2)) (fun b => b (c (n + 2)))
    (hfree 0 (by omega)) hinv.top
    (fun b => all1_congr c (n + 2) b _ (fun i hi => hkeepc b i (by omega)))
    (fun b => hkeepc b (n + 2) (by omega))
    (fun b => all1_flipBit c (n + 2) b _ (fun i hi => L.hct i 0 (by omega) (by omega)))
    (fun b => flipBit_ne b (L.hct (n + 2) 0 (by omega) (by omega)))
    (L.hat n 0 (by omega) (by omega)) hinv.invol,
    chain_sem t _ m (fun i j hi hj => L.htt i j (by omega) (by omega))]
  · funext b
    simp only [condFlipAll, all1, Bool.and_comm]
  · intro b i hi
    rw [flipBit_ne b (L.hct (n + 2) i (by omega) (by omega)),
      all1_flipBit c (n + 2) b _ (fun i' hi' => L.hct i' i (by omega) (by omega))]

/-- General branch, relative-phase mode: the two passes equal the relative-phase Toffoli family
controlled on all of `c 0 … c (n+1)` with last control `c (n+2)`, on `t 0`. -/
theorem general_relphase (n nt : Nat) (c a t : Nat → Nat) (L : VLayout (n + 3) (nt + 1) c a t)
    (ψ : State R) :
    sem (firstGate o (n + 3) (nt + 1) c a t true 0 .l ++ sweep o c a n
        ++ (firstGate o (n + 3) (nt + 1) c a t true 1 .r ++ sweep o c a n)) ψ
      = sp (relSgn (all1 c (n + 2)) (c (n + 2)) (t 0)) (relPerm (all1 c (n + 2)) (c (n + 2)) (t 0))
          ψ := by
  obtain ⟨σ, π, hsem, hinv⟩ := sweep_sem (R := R) o hp c a n
    (fun i i' hi hi' => L.hca i i' (by omega) (by omega))
    (fun i i' hi hi' => L.haa i i' (by omega) (by omega))
  have hkeepc : ∀ b i, i < n + 3 → (π b) (c i) = b (c i) := fun b i hi =>
    hinv.keep b _ (fun i' hi' => (L.hca i i' hi (by omega)).symm)
  have hf : FreeAt (t 0) σ π := hinv.free _
    (fun i' hi' => L.hct i' 0 (by omega) (by omega)) (fun i' hi' => L.hat i' 0 (by omega) (by omega))
  have e3 : n + 3 - 3 = n := by omega
  have e1 : n + 3 - 1 = n + 2 := by omega
  have h10 : ¬ ((0 : Nat) = 1) := by omega
  simp only [firstGate, if_true, if_neg h10, e1, e3]
  rw [← List.append_assoc, sem_append, hsem,
    halves o hp (c (n + 2)) (a n) (t 0) σ π (all1 c (n + 2)) _ hsem
      (L.hct (n + 2) 0 (by omega) (by omega)) (L.hat n 0 (by omega) (by omega)) hf
      (fun b => hkeepc b (n + 2) (by omega)) hinv.top
      (fun b => all1_congr c (n + 2) b _ (fun i hi => hkeepc b i (by omega)))
      (fun b v => all1_setBit c (n + 2) b _ v (fun i hi => L.hct i 0 (by omega) (by omega))),
    sp_invol σ π hinv.invol.invπ hinv.invol.invσ, relTof_sp]

omit hp in
theorem vchainBody_general (n nt : Nat) (c a t : Nat → Nat) (rp : Bool)
    (h : ¬ (rp = false ∧ n + 3 = 3 ∧ nt < 2)) :
    vchainBody o (n + 3) nt c a t rp false
      = firstGate o (n + 3) nt c a t rp 0 .l ++ sweep o c a n
        ++ (firstGate o (n + 3) nt c a t rp 1 .r ++ sweep o c a n) := by
  have h2 : ¬ (n + 3 = 2) := by omega
  have h1 : ¬ (n + 3 = 1) := by omega
  simp only [vchainBody, if_neg h2, if_neg h1, if_neg h, vchainRound, Bool.false_eq_true, if_false,
    List.append_nil, action_reset]

/-- Every branch of `McxVchainDirty._define` in exact mode (no `ctrl_state`): all targets are
flipped iff all controls are 1, on every state. -/
theorem body_exact (k nt : Nat) (hk : 1 ≤ k) (hnt : 1 ≤ nt) (c a t : Nat → Nat)
    (L : VLayout k nt c a t) (rp : Bool) (hrp : rp = false ∨ k ≤ 2) (ψ : State R) :
    sem (vchainBody o k nt c a t rp false) ψ
      = condFlipAll (all1 c k) ((List.range nt).map t) ψ := by
  obtain ⟨m, rfl⟩ : ∃ m, nt = m + 1 := ⟨nt - 1, by omega⟩
  by_cases h2 : k = 2
  · subst h2
    simp only [vchainBody, if_true, tmtOn_both, Nat.add_sub_cancel, sem_append, sem_single,
      denote_ccx_condFlip]
    rw [chain_sem t _ m (fun i j hi hj => L.htt i j (by omega) (by omega))]
    · funext b
      simp only [condFlipAll, all1, Bool.true_and]
    · intro b i hi
      rw [flipBit_ne b (L.hct 0 i (by omega) (by omega)),
        flipBit_ne b (L.hct 1 i (by omega) (by omega))]
  by_cases h1 : k = 1
  · subst h1
    simp only [vchainBody, if_neg h2, if_true]
    rw [cx_fan_sem (c 0) t (m + 1) (fun i hi => L.hct 0 i (by omega) hi)]
    funext b
    simp only [condFlipAll, all1, Bool.true_and]
  obtain ⟨n, rfl⟩ : ∃ n, k = n + 3 := ⟨k - 3, by omega⟩
  have hrp' : rp = false := by
    rcases hrp with h | h
    · exact h
    · omega
  subst hrp'
  by_cases h3 : (false = false ∧ n + 3 = 3 ∧ m + 1 < 2)
  · obtain ⟨_, hn, hm⟩ := h3
    have hn0 : n = 0 := by omega
    have hm0 : m = 0 := by omega
    subst hn0 hm0
    simp only [vchainBody, if_neg h2, if_neg h1]
    rw [if_pos (by decide)]
    funext b
    simp [sem_single, denote_mcx_condFlip, condFlip, condFlipAll, all1, flipAll, Bool.and_assoc]
  · rw [vchainBody_general o n (m + 1) c a t false h3]
    exact general_exact o hp n m c a t L ψ

/-- Relative-phase mode, `k ≥ 3` controls (no `ctrl_state`): the relative-phase Toffoli family
with the first `k-1` controls as condition and `c (k-1)` as the distinguished control, on `t 0`
only. -/
theorem body_relphase (k nt : Nat) (hk : 3 ≤ k) (hnt : 1 ≤ nt) (c a t : Nat → Nat)
    (L : VLayout k nt c a t) (ψ : State R) :
    sem (vchainBody o k nt c a t true false) ψ
      = sp (relSgn (all1 c (k - 1)) (c (k - 1)) (t 0)) (relPerm (all1 c (k - 1)) (c (k - 1)) (t 0))
          ψ := by
  obtain ⟨m, rfl⟩ : ∃ m, nt = m + 1 := ⟨nt - 1, by omega⟩
  obtain ⟨n, rfl⟩ : ∃ n, k = n + 3 := ⟨k - 3, by omega⟩
  rw [vchainBody_general o n (m + 1) c a t true (by simp)]
  exact general_relphase o hp n m c a t L ψ

end sem
end Qclib
