import QclibModel.Model.SparseCvo
import QclibModel.Sem.Basic
import Mathlib.Data.List.Basic
/-
  C06 — the Hamming-order argument of CVO-QRAM: among distinct equal-length patterns sorted by
  non-decreasing number of ones, the ones of a later pattern are never contained in an earlier
  pattern, so the rotation controlled on the ones of the later pattern does not fire on a branch
  that already carries an earlier pattern.
-/
namespace Qclib.Sparse
open Qclib

def weight (s : Str) : Nat := s.count true

theorem bitAt_cons_zero (x : Bool) (s : Str) : bitAt (x :: s) 0 = x := rfl
theorem bitAt_cons_succ (x : Bool) (s : Str) (q : Nat) : bitAt (x :: s) (q + 1) = bitAt s q := rfl

/-- containment of the ones plus `weight a ≤ weight b` forces equality -/
theorem eq_of_ones_subset : ∀ (a b : Str), a.length = b.length →
    (∀ q, bitAt b q = true → bitAt a q = true) → weight a ≤ weight b → a = b
  | [], [], _, _, _ => rfl
  | [], _ :: _, h, _, _ => by simp at h
  | _ :: _, [], h, _, _ => by simp at h
  | x :: a, y :: b, hl, hsub, hw => by
    have hl' : a.length = b.length := by simpa using hl
    have hsub' : ∀ q, bitAt b q = true → bitAt a q = true := fun q hq => hsub (q + 1) hq
    have h0 : y = true → x = true := fun hy => hsub 0 hy
    have wa : weight (x :: a) = weight a + (if x then 1 else 0) := by
      cases x <;> simp [weight]
    have wb : weight (y :: b) = weight b + (if y then 1 else 0) := by
      cases y <;> simp [weight]
    rw [wa, wb] at hw
    cases y with
    | true =>
      have hx : x = true := h0 rfl
      subst hx
      simp at hw
      rw [eq_of_ones_subset a b hl' hsub' hw]
    | false =>
      cases x with
      | false =>
        simp at hw
        rw [eq_of_ones_subset a b hl' hsub' hw]
      | true =>
        simp at hw
        have e := eq_of_ones_subset a b hl' hsub' (by omega)
        subst e
        omega

/-- **Hamming order.**  Distinct, equal length, sorted by weight ⇒ for every earlier `pi` and later
`pj` there is a position where `pj` has a one and `pi` a zero. -/
theorem order_witness (n : Nat) (ps : List Str) (hlen : ∀ p ∈ ps, p.length = n)
    (hnd : ps.Pairwise (· ≠ ·)) (hs : ps.Pairwise (fun a b => weight a ≤ weight b)) :
    ps.Pairwise (fun pi pj => ∃ q, bitAt pj q = true ∧ bitAt pi q = false) := by
  have h := (hnd.and hs)
  refine h.imp_of_mem ?_
  intro a b ha hb ⟨hne, hw⟩
  by_contra hcon
  apply hne
  apply eq_of_ones_subset a b (by rw [hlen a ha, hlen b hb]) _ hw
  intro q hq
  by_contra hq'
  exact hcon ⟨q, hq, by simpa using hq'⟩

theorem bitAt_reverse (s : Str) (k : Nat) (h : k < s.length) :
    bitAt s.reverse k = bitAt s (s.length - 1 - k) := by
  unfold bitAt
  rw [List.getD_eq_getElem?_getD, List.getD_eq_getElem?_getD, List.getElem?_reverse h]

theorem bitAt_true_lt (s : Str) (q : Nat) (h : bitAt s q = true) : q < s.length := by
  by_contra hq
  have : s[q]? = none := List.getElem?_eq_none (by omega)
  simp [bitAt, List.getD_eq_getElem?_getD, this] at h

theorem mem_selectControls (s : Str) (k : Nat) :
    k ∈ selectControls s ↔ k < s.length ∧ bitAt s (s.length - 1 - k) = true := by
  unfold selectControls
  rw [List.mem_filter, List.mem_range]
  constructor
  · rintro ⟨hk, hb⟩; exact ⟨hk, by rw [← bitAt_reverse s k hk]; exact hb⟩
  · rintro ⟨hk, hb⟩; exact ⟨hk, by rw [bitAt_reverse s k hk]; exact hb⟩

/-- control literals of the rotation that loads `p`: memory wire of every one of `p` -/
def cvoCtrl (n : Nat) (aux : Bool) (p : Str) : List (Nat × Bool) :=
  (selectControls p).map (fun k => (memW n aux k, true))

/-- a basis label whose memory register carries pattern `p` -/
def carries (n : Nat) (aux : Bool) (p : Str) (b : Bits) : Prop :=
  ∀ k, k < n → b (memW n aux k) = bitAt p (n - 1 - k)

theorem cvo_fires_own (n : Nat) (aux : Bool) (p : Str) (hl : p.length = n) (b : Bits)
    (hb : carries n aux p b) : ctrlOk (cvoCtrl n aux p) b = true := by
  unfold ctrlOk cvoCtrl
  rw [List.all_eq_true]
  intro cv hcv
  rw [List.mem_map] at hcv
  obtain ⟨k, hk, rfl⟩ := hcv
  rw [mem_selectControls, hl] at hk
  simp [hb k hk.1, hk.2]

theorem cvo_not_fires (n : Nat) (aux : Bool) (pi pj : Str) (hli : pi.length = n)
    (hlj : pj.length = n) (hw : ∃ q, bitAt pj q = true ∧ bitAt pi q = false) (b : Bits)
    (hb : carries n aux pi b) : ctrlOk (cvoCtrl n aux pj) b = false := by
  obtain ⟨q, hq1, hq0⟩ := hw
  have hqn : q < n := hlj ▸ bitAt_true_lt pj q hq1
  unfold ctrlOk cvoCtrl
  rw [List.all_eq_false]
  refine ⟨(memW n aux (n - 1 - q), true), ?_, ?_⟩
  · rw [List.mem_map]
    refine ⟨n - 1 - q, ?_, rfl⟩
    rw [mem_selectControls, hlj]
    refine ⟨by omega, ?_⟩
    have : n - 1 - (n - 1 - q) = q := by omega
    rw [this]; exact hq1
  · have := hb (n - 1 - q) (by omega)
    have e : n - 1 - (n - 1 - q) = q := by omega
    rw [e, hq0] at this
    simp [this]

end Qclib.Sparse
