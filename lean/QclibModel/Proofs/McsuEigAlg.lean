import QclibModel.Proofs.McsuFullSpec
/-
  C04 (part A), the eigenbasis path of `Ldmcsu._define` (general SU(2): both diagonals non-real)
  — the 2×2 algebra.

  Time order of the path on the target (`X₁`, `X₂` = what the half-1 / half-2 MCX does to the
  target: `X` when the half fires, `1` otherwise):

    H, S, X₂, S', Hq,   A, X₂, A', X₁, A, X₂, A',   X₁, Hq, S, X₂, S', H

  (`S` = `s_op` of `half_linear_depth_mcv`, `Hq = [[-1,1],[1,1]]/√2`, `A` = `_compute_gate_a` of the
  diagonal matrix of eigenvalues).  In operator order this is `eigProd`.

  * over any commutative ring, from `H² = Hq² = 1`, `S S' = S' S = 1`, `A A' = A' A = 1`: the three
    cases "not both halves fire" give the identity (`eigProd_none/half1/half2`), and the both-fire
    product factors as `W₀ · (X · (A' X A X)² · X) · W₀'` (`eigBoth_factor`);
  * over `ℝ`/`ℂ` with `Real.sqrt` (`realOps`): for `V = [[a, b], [-conj b, a]]`, `a` real,
    `a² + |b|² = 1`, `a > -1`, and eigenvalues `e₁ = conj e₂`, `|e₂| = 1`, with the fourth-root
    specification `r⁴ = e₂`, the both-fire product is `V · diag(e₁, e₂) · V†` (`eig_both_real`).
-/
set_option linter.unusedSimpArgs false
set_option linter.unusedSectionVars false
namespace Qclib.Mcsu
open Complex

/-! ### Any commutative ring -/

section gen
variable {R : Type} [CommRing R]

/-- The operator-order product of the eigen path, given what the two half MCX do to the target. -/
def eigProd (H S S' Hq A A' X1 X2 : Mat2 R) : Mat2 R :=
  H * S' * X2 * S * Hq * X1 * A' * X2 * A * X1 * A' * X2 * A * Hq * S' * X2 * S * H

/-- Both halves fire. -/
def eigBoth (H S S' Hq A A' : Mat2 R) : Mat2 R := eigProd H S S' Hq A A' Mat2.X Mat2.X

/-- What the circuit theorem needs of the six one-qubit matrices: the two Hadamard-like gates are
involutions, `S'` inverts `S`, `A'` inverts `A`. -/
structure EigInv (H S S' Hq A A' : Mat2 R) : Prop where
  hH : H * H = 1
  hq : Hq * Hq = 1
  hS : S * S' = 1
  hS' : S' * S = 1
  hA : A * A' = 1
  hA' : A' * A = 1

theorem cancel_left {P Q : Mat2 R} (h : P * Q = 1) (M : Mat2 R) : P * (Q * M) = M := by
  rw [← mat_mul_assoc, h, mat_one_mul]

theorem cancel_X (M : Mat2 R) : (Mat2.X : Mat2 R) * (Mat2.X * M) = M :=
  cancel_left mat_X_mul_X M

/-- No half fires: identity. -/
theorem eigProd_none {H S S' Hq A A' : Mat2 R} (h : EigInv H S S' Hq A A') :
    eigProd H S S' Hq A A' 1 1 = 1 := by
  unfold eigProd
  simp only [mat_mul_assoc, mat_one_mul, mat_mul_one, cancel_left h.hS, cancel_left h.hS', cancel_left h.hA, cancel_left h.hA',
    cancel_left h.hq, cancel_left h.hH, cancel_X, h.hS', h.hS, h.hH, h.hq, h.hA, h.hA', mat_X_mul_X]

/-- Only the first half fires: identity. -/
theorem eigProd_half1 {H S S' Hq A A' : Mat2 R} (h : EigInv H S S' Hq A A') :
    eigProd H S S' Hq A A' Mat2.X 1 = 1 := by
  unfold eigProd
  simp only [mat_mul_assoc, mat_one_mul, mat_mul_one, cancel_left h.hS, cancel_left h.hS', cancel_left h.hA, cancel_left h.hA',
    cancel_left h.hq, cancel_left h.hH, cancel_X, h.hS', h.hS, h.hH, h.hq, h.hA, h.hA', mat_X_mul_X]

/-- Only the second half fires: identity. -/
theorem eigProd_half2 {H S S' Hq A A' : Mat2 R} (h : EigInv H S S' Hq A A') :
    eigProd H S S' Hq A A' 1 Mat2.X = 1 := by
  unfold eigProd
  simp only [mat_mul_assoc, mat_one_mul, mat_mul_one, cancel_left h.hS, cancel_left h.hS', cancel_left h.hA, cancel_left h.hA',
    cancel_left h.hq, cancel_left h.hH, cancel_X, h.hS', h.hS, h.hH, h.hq, h.hA, h.hA', mat_X_mul_X]

/-- Both halves fire: the basis change `W₀ = H S' X S Hq` around `X·(A' X A X)²·X`. -/
theorem eigBoth_factor (H S S' Hq A A' : Mat2 R) :
    eigBoth H S S' Hq A A'
      = (H * S' * Mat2.X * S * Hq) * (Mat2.X * coreW A A' * Mat2.X)
          * (Hq * S' * Mat2.X * S * H) := by
  unfold eigBoth eigProd coreW
  simp only [mat_mul_assoc, cancel_X]

end gen

/-! ### The real instance -/

/-- Scalar multiple of a complex 2×2 matrix. -/
def sc (s : ℂ) (m : Mat2 ℂ) : Mat2 ℂ := ⟨s * m.a, s * m.b, s * m.c, s * m.d⟩

theorem sc_mul_left (s : ℂ) (m n : Mat2 ℂ) : sc s m * n = sc s (m * n) := by
  apply Mat2.ext' <;> simp only [sc, mat_mul_def, Mat2.mul] <;> ring

theorem sc_mul_right (s : ℂ) (m n : Mat2 ℂ) : m * sc s n = sc s (m * n) := by
  apply Mat2.ext' <;> simp only [sc, mat_mul_def, Mat2.mul] <;> ring

theorem sc_sc (s : ℂ) (hs : s * s = 1) (m : Mat2 ℂ) : sc s (sc s m) = m := by
  apply Mat2.ext' <;> simp only [sc] <;> rw [← mul_assoc, hs, one_mul]

/-- `s_op` of `half_linear_depth_mcv` as one half-angle step. -/
theorem halfS_eq (r4 : ℝ → ℝ → ℝ × ℝ) (cosH sinH : ℝ → ℝ) (x p q : ℝ) :
    toMat (halfS (realOps r4 cosH sinH) x ⟨p, q⟩)
      = Mm (Real.sqrt ((p + 1) / 2)) (q / Real.sqrt (2 * (p + 1))) (x / Real.sqrt (2 * (p + 1))) := by
  apply Mat2.ext' <;> apply Complex.ext <;>
    simp [halfS, sMat, realOps, toMat, toC, Cx.conj, Mm]

/-- **`half_linear_depth_mcv`'s `S`.**  For real `x` and `z = p + iq` with `x² + |z|² = 1` and
`Re z > -1`: `S` is unitary and `S†·X·S = [[conj z, x], [-x, z]]·X` (operator order). -/
theorem halfS_props (r4 : ℝ → ℝ → ℝ × ℝ) (cosH sinH : ℝ → ℝ) (x p q : ℝ)
    (hn : p ^ 2 + q ^ 2 + x ^ 2 = 1) (hs : 0 < p + 1) :
    let S := toMat (halfS (realOps r4 cosH sinH) x ⟨p, q⟩)
    S * adjC S = 1 ∧ adjC S * S = 1 ∧ adjC S * Mat2.X * S = Mm p (-q) (-x) * Mat2.X := by
  intro S
  obtain ⟨_, s1, s2, s3, s4⟩ := half_step p q x hn hs
  set c := Real.sqrt ((p + 1) / 2) with hc
  set d := Real.sqrt (2 * (p + 1)) with hd
  have hS : S = Mm c (q / d) (x / d) := halfS_eq r4 cosH sinH x p q
  have hadj : adjC S = Mm c (-(q / d)) (-(x / d)) := by rw [hS, adjC_Mm]
  refine ⟨?_, ?_, ?_⟩
  · rw [hadj, hS]; exact Mm_unitary _ _ _ s4
  · rw [hadj, hS]
    have := Mm_unitary c (-(q / d)) (-(x / d)) (by linear_combination s4)
    simpa using this
  · have hx1 : adjC S * Mat2.X * S * Mat2.X = adjC S * adjC S := by
      rw [mat_mul_assoc, mat_mul_assoc, ← mat_mul_assoc Mat2.X S, hS, Mm_conjX, ← adjC_Mm, ← hS]
    have hsq : adjC S * adjC S = Mm p (-q) (-x) := by
      rw [hadj, Mm_sq]
      congr 1
      · linear_combination s1
      · linear_combination -s2
      · linear_combination -s3
    calc adjC S * Mat2.X * S = adjC S * Mat2.X * S * (Mat2.X * Mat2.X) := by
          rw [mat_X_mul_X, mat_mul_one]
      _ = adjC S * Mat2.X * S * Mat2.X * Mat2.X := by rw [← mat_mul_assoc]
      _ = Mm p (-q) (-x) * Mat2.X := by rw [hx1, hsq]

/-- The model's `h_gate` of `half_linear_depth_mcv` in the real instance. -/
theorem hEquiv_eq (r4 : ℝ → ℝ → ℝ × ℝ) (cosH sinH : ℝ → ℝ) :
    toMat (hEquiv (realOps r4 cosH sinH))
      = ⟨-((1 / Real.sqrt 2 : ℝ) : ℂ), ((1 / Real.sqrt 2 : ℝ) : ℂ), ((1 / Real.sqrt 2 : ℝ) : ℂ),
          ((1 / Real.sqrt 2 : ℝ) : ℂ)⟩ := by
  apply Mat2.ext' <;> apply Complex.ext <;>
    simp only [hEquiv, realOps, toMat, toC, Complex.neg_re, Complex.ofReal_re, Complex.neg_im,
      Complex.ofReal_im, neg_zero]

theorem inv_sqrt2_sq : (2 : ℂ) * (((1 / Real.sqrt 2 : ℝ) : ℂ) * ((1 / Real.sqrt 2 : ℝ) : ℂ)) = 1 := by
  have h2 : Real.sqrt 2 * Real.sqrt 2 = 2 := Real.mul_self_sqrt (by norm_num)
  have h0 : Real.sqrt 2 ≠ 0 := by
    intro h; rw [h] at h2; norm_num at h2
  have : (2 : ℝ) * ((1 / Real.sqrt 2) * (1 / Real.sqrt 2)) = 1 := by
    field_simp
    linarith
  exact_mod_cast this

/-- A Hadamard-like matrix `[[h, h], [h, -h]]` and `[[-r, r], [r, r]]` with `2h² = 2r² = 1` are
involutions. -/
theorem hMat_sq (h : ℂ) (hh : 2 * (h * h) = 1) : (⟨h, h, h, -h⟩ : Mat2 ℂ) * ⟨h, h, h, -h⟩ = 1 := by
  apply Mat2.ext' <;> simp only [mat_mul_def, Mat2.mul, mat_one_def, Mat2.one] <;>
    first | linear_combination hh | ring

theorem hqMat_sq (r : ℂ) (hr : 2 * (r * r) = 1) : (⟨-r, r, r, r⟩ : Mat2 ℂ) * ⟨-r, r, r, r⟩ = 1 := by
  apply Mat2.ext' <;> simp only [mat_mul_def, Mat2.mul, mat_one_def, Mat2.one] <;>
    first | linear_combination hr | ring

/-- The basis change of the path: `H·([[a+ib₂, -b₁], [b₁, a-ib₂]]·X)·Hq·X = s·V` and
`X·Hq·([[…]]·X)·H = s·V†` with the sign `s = 2hr` and `V = [[a, b], [-conj b, a]]`. -/
theorem basis_change (h r : ℂ) (a br bi : ℝ) :
    (⟨h, h, h, -h⟩ : Mat2 ℂ) * (Mm a bi br * Mat2.X) * ⟨-r, r, r, r⟩ * Mat2.X
        = sc (2 * h * r) (toMat (su2Mat a 0 br bi))
    ∧ (Mat2.X : Mat2 ℂ) * ⟨-r, r, r, r⟩ * (Mm a bi br * Mat2.X) * ⟨h, h, h, -h⟩
        = sc (2 * h * r) (adjC (toMat (su2Mat a 0 br bi))) := by
  constructor <;> apply Mat2.ext' <;>
    simp only [sc, mat_mul_def, Mat2.mul, Mm, Mat2.X, toMat, toC, su2Mat, adjC] <;>
    apply Complex.ext <;> simp <;> ring

/-- **The both-fire product of the eigen path, real instance.**  `V = [[a, b], [-conj b, a]]` with
`a` real, `a² + |b|² = 1`, `a > -1` (what `np.linalg.eig` returns for a normal 2×2 matrix: unit
columns, real positive diagonal); eigenvalues `e₁ = p - iq`, `e₂ = p + iq` on the unit circle;
`r⁴ = e₂` for the fourth root the `x = 0` branch of `_compute_gate_a` takes.  Then `S`, `A` are
unitary, `H`, `Hq` involutions, and the operator-order product of the eighteen gates with both
halves firing is `V · diag(e₁, e₂) · V†`. -/
theorem eig_both_real (r4 : ℝ → ℝ → ℝ × ℝ) (cosH sinH : ℝ → ℝ) (a br bi p q : ℝ) (h : ℂ)
    (hh : 2 * (h * h) = 1) (hV : a ^ 2 + br ^ 2 + bi ^ 2 = 1) (ha : 0 < a + 1)
    (he : p ^ 2 + q ^ 2 = 1) (hr : (⟨(r4 p q).1, (r4 p q).2⟩ : ℂ) ^ 4 = ⟨p, q⟩) :
    let o := realOps r4 cosH sinH
    let H : Mat2 ℂ := ⟨h, h, h, -h⟩
    let S := toMat (halfS o (-br) ⟨a, -bi⟩)
    let Hq := toMat (hEquiv o)
    let A := toMat (computeGateA o 0 ⟨p, q⟩)
    EigInv H S (adjC S) Hq A (adjC A)
      ∧ eigBoth H S (adjC S) Hq A (adjC A)
          = toMat (su2Mat a 0 br bi) * ⟨⟨p, -q⟩, 0, 0, ⟨p, q⟩⟩ * adjC (toMat (su2Mat a 0 br bi)) := by
  intro o H S Hq A
  obtain ⟨hS, hS', hSX⟩ := halfS_props r4 cosH sinH (-br) a (-bi) (by linear_combination hV) ha
  obtain ⟨hA, hA', hcore⟩ := gate_a_diag r4 cosH sinH p q he hr
  have hq : Hq = ⟨-((1 / Real.sqrt 2 : ℝ) : ℂ), ((1 / Real.sqrt 2 : ℝ) : ℂ),
      ((1 / Real.sqrt 2 : ℝ) : ℂ), ((1 / Real.sqrt 2 : ℝ) : ℂ)⟩ := hEquiv_eq r4 cosH sinH
  set r : ℂ := ((1 / Real.sqrt 2 : ℝ) : ℂ) with hrdef
  have hr2 : 2 * (r * r) = 1 := inv_sqrt2_sq
  have hinv : EigInv H S (adjC S) Hq A (adjC A) :=
    ⟨hMat_sq h hh, by rw [hq]; exact hqMat_sq r hr2, hS, hS', hA, hA'⟩
  refine ⟨hinv, ?_⟩
  rw [eigBoth_factor]
  change (H * adjC S * Mat2.X * S * Hq) * (Mat2.X * coreW A (adjC A) * Mat2.X)
      * (Hq * adjC S * Mat2.X * S * H) = _
  rw [hcore]
  have hSX' : adjC S * Mat2.X * S = Mm a bi br * Mat2.X := by
    have := hSX
    simpa using this
  obtain ⟨b1, b2⟩ := basis_change h r a br bi
  -- regroup: (H (S'XS) Hq X) · D · (X Hq (S'XS) H)
  have e1 : H * adjC S * Mat2.X * S * Hq
      = (H * (Mm a bi br * Mat2.X) * Hq * Mat2.X) * Mat2.X := by
    rw [← hSX']
    simp only [mat_mul_assoc, cancel_X, mat_X_mul_X, mat_mul_one]
  have e2 : Hq * adjC S * Mat2.X * S * H
      = Mat2.X * (Mat2.X * Hq * (Mm a bi br * Mat2.X) * H) := by
    rw [← hSX']
    simp only [mat_mul_assoc, cancel_X]
  rw [e1, e2, hq, b1, b2]
  have hs : (2 * h * r) * (2 * h * r) = 1 := by
    linear_combination (2 * (r * r)) * hh + hr2
  have hD : (Mat2.X : Mat2 ℂ) * (Mat2.X * ⟨⟨p, -q⟩, 0, 0, ⟨p, q⟩⟩ * Mat2.X) * Mat2.X
      = ⟨⟨p, -q⟩, 0, 0, ⟨p, q⟩⟩ := by
    simp only [mat_mul_assoc, cancel_X, mat_X_mul_X, mat_mul_one]
  calc sc (2 * h * r) (toMat (su2Mat a 0 br bi)) * Mat2.X
          * (Mat2.X * ⟨⟨p, -q⟩, 0, 0, ⟨p, q⟩⟩ * Mat2.X)
          * (Mat2.X * sc (2 * h * r) (adjC (toMat (su2Mat a 0 br bi))))
      = sc (2 * h * r) (sc (2 * h * r) (toMat (su2Mat a 0 br bi)
          * ((Mat2.X : Mat2 ℂ) * (Mat2.X * ⟨⟨p, -q⟩, 0, 0, ⟨p, q⟩⟩ * Mat2.X) * Mat2.X)
          * adjC (toMat (su2Mat a 0 br bi)))) := by
        simp only [sc_mul_left, sc_mul_right, mat_mul_assoc]
    _ = _ := by rw [sc_sc _ hs, hD]

end Qclib.Mcsu
