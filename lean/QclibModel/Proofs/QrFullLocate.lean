import QclibModel.Model.QrLocate
/-
  C02 / QR — facts about the generic location search `getRowColG` (Model/QrLocate.lean).
  Core Lean only.
-/
namespace Qclib.QrLoc

theorem mem_scanNat {N : Nat} {p : Nat × Nat} : p ∈ scanNat N ↔ p.2 < p.1 ∧ p.1 < N := by
  obtain ⟨r, c⟩ := p
  simp only [scanNat, List.mem_flatMap, List.mem_range, List.mem_map, Prod.mk.injEq]
  constructor
  · rintro ⟨a, ha, b, hb, rfl, rfl⟩; exact ⟨hb, ha⟩
  · rintro ⟨h1, h2⟩; exact ⟨r, h2, c, h1, rfl, rfl⟩

/-- "last hit wins, and remember whether there was one" as a fold. -/
theorem foldl_last {β : Type} (P : β → Bool) (l : List β) (d : β × Bool) :
    l.foldl (fun (acc : β × Bool) p => if P p then (p, true) else acc) d =
      match (l.filter P).getLast? with
      | some q => (q, true)
      | none => d := by
  induction l generalizing d with
  | nil => rfl
  | cons x l ih =>
    rw [List.foldl_cons, ih]
    by_cases hx : P x = true
    · rw [if_pos hx, List.filter_cons_of_pos hx, List.getLast?_cons]
      cases (l.filter P).getLast? <;> rfl
    · rw [if_neg hx, List.filter_cons_of_neg hx]

variable {α : Type} [DecidableEq α] [Zero α] [One α]

theorem isHit_iff (M : Nat → Nat → α) (p : Nat × Nat) :
    isHit M p = true ↔ M p.1 p.2 ≠ 0 ∧ M p.1 p.2 ≠ 1 := by
  simp [isHit]

theorem isIdButLast_iff (N : Nat) (M : Nat → Nat → α) :
    isIdButLast N M = true ↔
      ∀ i j, i < N → j < N → ¬ (i = N - 1 ∧ j = N - 1) → M i j = if i = j then 1 else 0 := by
  simp only [isIdButLast, List.all_eq_true, List.mem_range]
  constructor
  · intro h i j hi hj hne
    have := h i hi j hj
    rw [if_neg hne] at this
    by_cases e : i = j
    · rw [if_pos e] at this ⊢; simpa using this
    · rw [if_neg e] at this ⊢; simpa using this
  · intro h i hi j hj
    by_cases hne : i = N - 1 ∧ j = N - 1
    · rw [if_pos hne]
    · rw [if_neg hne]
      have := h i j hi hj hne
      by_cases e : i = j
      · rw [if_pos e] at this ⊢; simpa using this
      · rw [if_neg e] at this ⊢; simpa using this

/-- the three outcomes, by the list of hits. -/
theorem getRowColG_eq (N : Nat) (M : Nat → Nat → α) :
    getRowColG N M =
      match ((scanNat N).filter (isHit M)).getLast? with
      | some q => some q
      | none => if isIdButLast N M then some (N - 1, N - 2) else none := by
  unfold getRowColG
  simp only [foldl_last]
  cases ((scanNat N).filter (isHit M)).getLast? <;> simp

theorem no_hit_iff (N : Nat) (M : Nat → Nat → α) :
    ((scanNat N).filter (isHit M)).getLast? = none ↔
      ∀ r c, c < r → r < N → M r c = 0 ∨ M r c = 1 := by
  rw [List.getLast?_eq_none_iff, List.filter_eq_nil_iff]
  constructor
  · intro hg r c h1 h2
    have := hg (r, c) (mem_scanNat.2 ⟨h1, h2⟩)
    rw [isHit_iff] at this
    by_cases e0 : M r c = 0
    · exact Or.inl e0
    · by_cases e1 : M r c = 1
      · exact Or.inr e1
      · exact absurd ⟨e0, e1⟩ this
  · intro h p hp
    obtain ⟨h1, h2⟩ := mem_scanNat.1 hp
    rw [isHit_iff]
    rcases h p.1 p.2 h1 h2 with e | e <;> simp [e]

/-- no hit and identity-but-last-diagonal: accepted at the default `(N-1, N-2)`. -/
theorem getRowColG_default (N : Nat) (M : Nat → Nat → α)
    (h : ∀ r c, c < r → r < N → M r c = 0 ∨ M r c = 1) (hid : isIdButLast N M = true) :
    getRowColG N M = some (N - 1, N - 2) := by
  rw [getRowColG_eq, (no_hit_iff N M).2 h]; simp [hid]

/-- no hit and not identity-but-last-diagonal: rejected (`ValueError`). -/
theorem getRowColG_none (N : Nat) (M : Nat → Nat → α)
    (h : ∀ r c, c < r → r < N → M r c = 0 ∨ M r c = 1) (hid : ¬ isIdButLast N M = true) :
    getRowColG N M = none := by
  rw [getRowColG_eq, (no_hit_iff N M).2 h]; simp [hid]

/-- a returned position is a hit below the diagonal, or the default of an accepted matrix. -/
theorem getRowColG_some {N : Nat} {M : Nat → Nat → α} {p : Nat × Nat} (h : getRowColG N M = some p) :
    (p.2 < p.1 ∧ p.1 < N ∧ M p.1 p.2 ≠ 0 ∧ M p.1 p.2 ≠ 1) ∨
    (p = (N - 1, N - 2) ∧ isIdButLast N M = true ∧ ∀ r c, c < r → r < N → M r c = 0 ∨ M r c = 1) := by
  rw [getRowColG_eq] at h
  cases hg : ((scanNat N).filter (isHit M)).getLast? with
  | none =>
    right
    rw [hg] at h
    by_cases hid : isIdButLast N M = true
    · simp [hid] at h
      exact ⟨h.symm, hid, (no_hit_iff N M).1 hg⟩
    · simp [hid] at h
  | some q =>
    left
    rw [hg] at h
    simp only [Option.some.injEq] at h
    subst h
    have hp := List.mem_of_getLast? hg
    rw [List.mem_filter, isHit_iff] at hp
    obtain ⟨h1, h2⟩ := mem_scanNat.1 hp.1
    exact ⟨h1, h2, hp.2.1, hp.2.2⟩

/-- exactly one hit: it is found. -/
theorem getRowColG_unique (N : Nat) (M : Nat → Nat → α) {r c : Nat} (hcr : c < r) (hr : r < N)
    (h0 : M r c ≠ 0) (h1 : M r c ≠ 1)
    (hothers : ∀ i j, j < i → i < N → (i, j) ≠ (r, c) → M i j = 0 ∨ M i j = 1) :
    getRowColG N M = some (r, c) := by
  rw [getRowColG_eq]
  cases hg : ((scanNat N).filter (isHit M)).getLast? with
  | none =>
    rcases (no_hit_iff N M).1 hg r c hcr hr with e | e
    · exact absurd e h0
    · exact absurd e h1
  | some q =>
    have hp := List.mem_of_getLast? hg
    rw [List.mem_filter, isHit_iff] at hp
    obtain ⟨a1, a2⟩ := mem_scanNat.1 hp.1
    by_cases e : q = (r, c)
    · rw [e]
    · rcases hothers _ _ a1 a2 e with e' | e'
      · exact absurd e' hp.2.1
      · exact absurd e' hp.2.2

end Qclib.QrLoc
