import QclibModel.Proofs.Mcu2OpRot
import QclibModel.Proofs.Mcu2Run
/-
  C04, part B — the `Ldmcu` ladder in the amplitude semantics, on computational-basis inputs of
  the controls.

  `sim_step` links the classical-propagation run of `Proofs/Mcu2Run.lean` (`stepG`) to the
  amplitude semantics: if the controls of the input `ψ` are in the basis state `x` and the state
  reached so far is `rot (matOf a) wires ψ` — wire `q < k` carries `Rx (a q)`, the target `k`
  carries `Ur (a k)`, applied to the input — then a scheduled gate whose control has received an
  integer number of half-turns (`stepG … = some a'`) leads to `rot (matOf a') wires ψ`.
  With `C04_ladder_run_partial` (`run12`, `run34`) the four sweeps map `ψ` to `Ur [all x] ` on the
  target: `ladder_basis`.
-/
namespace Qclib.Mcu2

variable {R : Type} [CommRing R]

/-! ### Integer numbers of half-turns -/

theorem mat_mul_a (A B : Mat2 R) : (A * B).a = A.a * B.a + A.b * B.c := rfl
theorem mat_mul_b (A B : Mat2 R) : (A * B).b = A.a * B.b + A.b * B.d := rfl
theorem mat_mul_c (A B : Mat2 R) : (A * B).c = A.c * B.a + A.d * B.c := rfl
theorem mat_mul_d (A B : Mat2 R) : (A * B).d = A.c * B.b + A.d * B.d := rfl

/-- `Rx m` for an integer `m` is anti-diagonal when `m` is odd and diagonal when `m` is even
(`RX(π·m) = (-iX)^m`). -/
theorem rx_int {Rx : ℚ → Mat2 R} (hR : OneParam Rx) (hH : HalfTurn Rx) (m : ℤ) :
    (m % 2 = 1 → (Rx (m : ℚ)).a = 0 ∧ (Rx (m : ℚ)).d = 0)
      ∧ (m % 2 = 0 → (Rx (m : ℚ)).b = 0 ∧ (Rx (m : ℚ)).c = 0) := by
  have step : ∀ (r s : ℚ), ((Rx s).a = 0 ∧ (Rx s).d = 0) →
      (((Rx r).a = 0 ∧ (Rx r).d = 0) → (Rx (r + s)).b = 0 ∧ (Rx (r + s)).c = 0)
      ∧ (((Rx r).b = 0 ∧ (Rx r).c = 0) → (Rx (r + s)).a = 0 ∧ (Rx (r + s)).d = 0) := by
    intro r s hs
    rw [hR.add]
    constructor
    · intro hr
      simp [mat_mul_b, mat_mul_c, hs.1, hs.2, hr.1, hr.2]
    · intro hr
      simp [mat_mul_a, mat_mul_d, hs.1, hs.2, hr.1, hr.2]
  induction m using Int.induction_on with
  | zero =>
    refine ⟨fun h => absurd h (by decide), fun _ => ?_⟩
    have : Rx ((0 : ℤ) : ℚ) = 1 := by rw [Int.cast_zero, hR.zero]
    rw [this]
    exact ⟨rfl, rfl⟩
  | succ n ih =>
    have hc : (((n : ℤ) + 1 : ℤ) : ℚ) = ((n : ℤ) : ℚ) + 1 := by push_cast; ring
    rw [hc]
    have st := step ((n : ℤ) : ℚ) 1 ⟨hH.a1, hH.d1⟩
    constructor
    · intro h
      exact st.2 (ih.2 (by omega))
    · intro h
      exact st.1 (ih.1 (by omega))
  | pred n ih =>
    have hc : ((-(n : ℤ) - 1 : ℤ) : ℚ) = ((-(n : ℤ) : ℤ) : ℚ) + (-1) := by push_cast; ring
    rw [hc]
    have st := step ((-(n : ℤ) : ℤ) : ℚ) (-1) ⟨hH.am, hH.dm⟩
    constructor
    · intro h
      exact st.2 (ih.2 (by omega))
    · intro h
      exact st.1 (ih.1 (by omega))

/-! ### The state reached after a prefix of the ladder -/

/-- The one-qubit matrix on wire `q` after it has received `a q`: a power of `U` on the target
`k`, a number of half-turns on a control. -/
def matOf (k : Nat) (Ur Rx : ℚ → Mat2 R) (a : Acc) : Nat → Mat2 R :=
  fun q => if q = k then Ur (a q) else Rx (a q)

/-- The matrix of a ladder gate with weight `w` acting on wire `t`. -/
def gmat (k : Nat) (Ur Rx : ℚ → Mat2 R) (t : Nat) (w : ℚ) : Mat2 R := if t = k then Ur w else Rx w

/-- The wires of the gate: controls `0 … k-1`, target `k`. -/
abbrev wiresOf (k : Nat) : List Nat := List.range (k + 1)

/-- The controls of `ψ` are in the basis state `x`. -/
def CtrlBasis (k : Nat) (x : Nat → Bool) (ψ : State R) : Prop := ∀ c, c < k → SuppAt c (x c) ψ

theorem foldl_stepG_none (x : Nat → Bool) (w : Nat × Nat → ℚ) (L : List (Nat × Nat)) :
    L.foldl (stepG x w) none = none := by
  induction L with
  | nil => rfl
  | cons pr L ih => exact ih

section sim
variable {Ur Rx : ℚ → Mat2 R} (hU : OneParam Ur) (hR : OneParam Rx) (hH : HalfTurn Rx)
include hU hR hH

/-- **One scheduled gate**: the classical-propagation step is the amplitude semantics on product
states. -/
theorem sim_step (k : Nat) (x : Nat → Bool) (ψ : State R) (hs : CtrlBasis k x ψ)
    (w : Nat × Nat → ℚ) (a a' : Acc) (pr : Nat × Nat) (h1 : pr.1 < pr.2) (h2 : pr.2 ≤ k)
    (hstep : stepG x w (some a) pr = some a') :
    applyMcu [(pr.1, true)] (gmat k Ur Rx pr.2 (w pr)) pr.2
        (rot (matOf k Ur Rx a) (wiresOf k) ψ)
      = rot (matOf k Ur Rx a') (wiresOf k) ψ := by
  obtain ⟨c, t⟩ := pr
  simp only at h1 h2 hstep ⊢
  have hck : c ≠ k := by omega
  -- the control has received an integer number of half-turns
  simp only [stepG, seen, seenVal] at hstep
  by_cases hden : (a c).den = 1
  · rw [if_pos hden] at hstep
    simp only [Option.some.injEq] at hstep
    have hcast : (((a c).num : ℤ) : ℚ) = a c := Rat.coe_int_num_of_den_eq_one hden
    have hrx := rx_int hR hH (a c).num
    rw [hcast] at hrx
    have hMc : matOf k Ur Rx a c = Rx (a c) := by simp [matOf, hck]
    have hM : if decide ((a c).num % 2 = 1) then
          (matOf k Ur Rx a c).a = 0 ∧ (matOf k Ur Rx a c).d = 0
        else (matOf k Ur Rx a c).b = 0 ∧ (matOf k Ur Rx a c).c = 0 := by
      rw [hMc]
      by_cases hodd : (a c).num % 2 = 1
      · simp only [hodd, decide_true, if_true]; exact hrx.1 hodd
      · simp only [hodd, decide_false, Bool.false_eq_true, if_false]; exact hrx.2 (by omega)
    rw [cg_rot (matOf k Ur Rx a) (wiresOf k) List.nodup_range (by omega : c ≠ t)
      (List.mem_range.mpr (by omega)) (List.mem_range.mpr (by omega)) (x c)
      (decide ((a c).num % 2 = 1)) ψ (hs c (by omega)) hM]
    apply rot_congr
    intro q _
    rw [← hstep]
    cases hb : xor (x c) (decide ((a c).num % 2 = 1))
    · simp only [Bool.false_eq_true, if_false]
    · simp only [if_true]
      by_cases hq : q = t
      · subst hq
        rw [Function.update_self]
        simp only [matOf, gmat, Function.update_self]
        split
        · rw [add_comm, hU.add]
        · rw [add_comm, hR.add]
      · rw [Function.update_of_ne hq]
        simp only [matOf, Function.update_of_ne hq]
  · rw [if_neg hden] at hstep
    exact absurd hstep (by simp)

/-- **A scheduled list of gates.** -/
theorem sim_list {Θ : Type} [RotSem Θ R] (k : Nat) (x : Nat → Bool) (ψ : State R)
    (hs : CtrlBasis k x ψ) (w : Nat × Nat → ℚ) (gate : Nat × Nat → LG Θ) (L : List (Nat × Nat))
    (hL : ∀ pr ∈ L, pr.1 < pr.2 ∧ pr.2 ≤ k)
    (hg : ∀ pr ∈ L, ∀ φ : State R, denoteLG Ur Rx (gate pr) φ
      = applyMcu [(pr.1, true)] (gmat k Ur Rx pr.2 (w pr)) pr.2 φ)
    (a a' : Acc) (h : L.foldl (stepG x w) (some a) = some a') :
    semLG Ur Rx (L.map gate) (rot (matOf k Ur Rx a) (wiresOf k) ψ)
      = rot (matOf k Ur Rx a') (wiresOf k) ψ := by
  induction L generalizing a with
  | nil =>
    simp only [List.foldl_nil, Option.some.injEq] at h
    subst h
    rfl
  | cons pr L ih =>
    rw [List.foldl_cons] at h
    cases hst : stepG x w (some a) pr with
    | none => rw [hst, foldl_stepG_none] at h; exact absurd h (by simp)
    | some a1 =>
      rw [hst] at h
      rw [List.map_cons, semLG_cons, hg pr List.mem_cons_self,
        sim_step hU hR hH k x ψ hs w a a1 pr (hL pr List.mem_cons_self).1
          (hL pr List.mem_cons_self).2 hst]
      exact ih (fun p hp => hL p (List.mem_cons_of_mem _ hp))
        (fun p hp => hg p (List.mem_cons_of_mem _ hp)) a1 h

end sim

/-! ### The four sweeps -/

theorem runSweep_some (x : Nat → Bool) (n : Nat) (first fwd : Bool) (s : Option Acc) (a' : Acc)
    (h : runSweep x n first fwd s = some a') : ∃ a, s = some a := by
  cases s with
  | none =>
    unfold runSweep at h
    rw [foldl_stepG_none] at h
    exact absurd h (by simp)
  | some a => exact ⟨a, rfl⟩

section sweeps
variable {Θ : Type} [RotSem Θ R] {Ur Rx : ℚ → Mat2 R}

/-- The gates of sweeps 1 and 2 (`first = True`, `k + 1` wires): a controlled root of `U` when the
target is wire `k`, a controlled `RX` otherwise. -/
theorem c1c2_first_denote (k : Nat) (fwd : Bool) (pr : Nat × Nat) (φ : State R) :
    denoteLG (Θ := Θ) Ur Rx (if pr.2 = k + 1 - 1 ∧ true = true then
        LG.croot pr.1 pr.2 true (param pr) (signal pr true fwd)
      else LG.crx pr.1 pr.2 (param pr) (signal pr true fwd)) φ
      = applyMcu [(pr.1, true)] (gmat k Ur Rx pr.2 (wt pr true fwd)) pr.2 φ := by
  by_cases h : pr.2 = k
  · have : pr.2 = k + 1 - 1 ∧ true = true := ⟨by omega, rfl⟩
    rw [if_pos this]
    simp only [denoteLG, gmat, h, if_true]
    rfl
  · have : ¬ (pr.2 = k + 1 - 1 ∧ true = true) := by omega
    rw [if_neg this]
    simp only [denoteLG, gmat, h, if_false]
    rfl

/-- The gates of sweeps 3 and 4 (`first = False`, `k` wires) are controlled `RX` gates between
control wires. -/
theorem c1c2_second_denote (k : Nat) (fwd : Bool) (pr : Nat × Nat) (hpr : pr.2 < k) (φ : State R) :
    denoteLG (Θ := Θ) Ur Rx (if pr.2 = k - 1 ∧ false = true then
        LG.croot pr.1 pr.2 true (param pr) (signal pr false fwd)
      else LG.crx pr.1 pr.2 (param pr) (signal pr false fwd)) φ
      = applyMcu [(pr.1, true)] (gmat k Ur Rx pr.2 (wt pr false fwd)) pr.2 φ := by
  have : ¬ (pr.2 = k - 1 ∧ false = true) := by simp
  rw [if_neg this]
  have h : pr.2 ≠ k := by omega
  simp only [denoteLG, gmat, h, if_false]
  rfl

variable (hU : OneParam Ur) (hR : OneParam Rx) (hH : HalfTurn Rx)
include hU hR hH

/-- One sweep, run from the product state with accumulated weights `a`. -/
theorem sweep_sim (k : Nat) (x : Nat → Bool) (ψ : State R) (hs : CtrlBasis k x ψ) (n : Nat)
    (first fwd : Bool) (hn : (n = k + 1 ∧ first = true) ∨ (n = k ∧ first = false)) (a a' : Acc)
    (h : runSweep x n first fwd (some a) = some a') :
    semLG Ur Rx (c1c2 n first fwd : List (LG Θ)) (rot (matOf k Ur Rx a) (wiresOf k) ψ)
      = rot (matOf k Ur Rx a') (wiresOf k) ψ := by
  unfold c1c2
  refine sim_list hU hR hH k x ψ hs (fun pr => wt pr first fwd) _ (qubitPairs n fwd) ?_ ?_ a a' h
  · intro pr hpr
    have := mem_bounds hpr
    rcases hn with ⟨hn1, _⟩ | ⟨hn1, _⟩ <;> omega
  · intro pr hpr φ
    have hb := mem_bounds hpr
    rcases hn with ⟨hn1, hf⟩ | ⟨hn1, hf⟩
    · subst hn1 hf
      exact c1c2_first_denote k fwd pr φ
    · subst hn1 hf
      exact c1c2_second_denote n fwd pr hb.2.2 φ

/-- **The ladder on a basis input of the controls** (every `k ≥ 1`, every control input `x`, every
state of the target and of all spectator wires): the four sweeps apply `U^[all controls are 1]`
to the target and restore the controls, phases included. -/
theorem ladder_basis (k : Nat) (hk : 1 ≤ k) (x : Nat → Bool) (ψ : State R)
    (hs : CtrlBasis k x ψ) :
    semLG Ur Rx (ladder k : List (LG Θ)) ψ = g1 (Ur (andQ x k)) k ψ := by
  have h12 := run12 k x
  have h34 := run34 k x
  obtain ⟨a1, ha1⟩ := runSweep_some _ _ _ _ _ _ h12
  obtain ⟨a3, ha3⟩ := runSweep_some _ _ _ _ _ _ h34
  rw [ha1] at h12
  rw [ha3] at h34
  have hstart : rot (matOf k Ur Rx (fun _ => 0)) (wiresOf k) ψ = ψ := by
    apply rot_one
    intro q _
    simp only [matOf]
    split
    · exact hU.zero
    · exact hR.zero
  have hend : rot (matOf k Ur Rx (fun q => if q = k ∧ 1 ≤ k then andQ x k else 0)) (wiresOf k) ψ
      = g1 (Ur (andQ x k)) k ψ := by
    rw [rot_pull _ (wiresOf k) (List.mem_range.mpr (by omega : k < k + 1))]
    have hk' : matOf k Ur Rx (fun q => if q = k ∧ 1 ≤ k then andQ x k else 0) k
        = Ur (andQ x k) := by
      simp [matOf, hk]
    rw [hk', rot_one]
    intro q hq
    have hqk : q ≠ k := fun e => by
      subst e
      exact (List.Nodup.not_mem_erase List.nodup_range) hq
    simp only [matOf, hqk, if_false, false_and]
    exact hR.zero
  unfold ladder
  rw [semLG_append, semLG_append, semLG_append]
  conv_lhs => rw [← hstart]
  rw [sweep_sim hU hR hH k x ψ hs (k + 1) true true (Or.inl ⟨rfl, rfl⟩) _ a1 ha1,
    sweep_sim hU hR hH k x ψ hs (k + 1) true false (Or.inl ⟨rfl, rfl⟩) a1 _ h12,
    sweep_sim hU hR hH k x ψ hs k false true (Or.inr ⟨rfl, rfl⟩) _ a3 ha3,
    sweep_sim hU hR hH k x ψ hs k false false (Or.inr ⟨rfl, rfl⟩) a3 _ h34, hend]

end sweeps
end Qclib.Mcu2
