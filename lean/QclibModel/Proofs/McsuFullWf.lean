import QclibModel.Proofs.McsuFullSem
import QclibModel.Proofs.McxCtrl
import QclibModel.Proofs.Inverse
import QclibModel.Proofs.McsuCtrl
/-
  C04 (part A), unconditional circuit statements — the `.inverse()` of a dirty-ancilla V-chain.

  `linear_depth_mcv` appends `mcx_2.inverse()`; the driver prints it as `invCirc` of the expanded
  V-chain (reversed list, every `u(θ,φ,λ)` replaced by `u(-θ,-λ,-φ)`).  Every gate of the V-chain on
  a pairwise-distinct wire layout is well formed (target not among its controls) and belongs to the
  alphabet on which `invCirc` is qiskit's gate-wise inverse, so `invCirc c` undoes `c`
  (`sem_inv_left` of C15); as `c` denotes the ideal MCX (C05_vchain), which is an involution,
  `invCirc c` denotes the ideal MCX too.
-/
set_option linter.unusedSectionVars false
namespace Qclib.Mcsu
open RotSem

variable {Θ : Type}

/-- Gates on which `invCirc` agrees with qiskit's gate-wise `inverse()` (`G.inv`). -/
def plainG : G Θ → Bool
  | .x _ | .h _ | .cx _ _ | .cz _ _ | .ccx _ _ _ | .mcx _ _ | .u _ _ _ _ | .swap _ _
  | .cswap _ _ _ => true
  | _ => false

/-- Well formed and in the alphabet of `invCirc`. -/
def okG (g : G Θ) : Bool := g.wf && plainG g

/-- Every gate of the circuit is `okG`. -/
def OkC (c : Circ Θ) : Prop := ∀ g ∈ c, okG g = true

theorem OkC.nil : OkC ([] : Circ Θ) := by intro g hg; simp at hg

theorem OkC.append {c d : Circ Θ} (hc : OkC c) (hd : OkC d) : OkC (c ++ d) := by
  intro g hg
  rcases List.mem_append.mp hg with h | h
  · exact hc g h
  · exact hd g h

theorem OkC.flatMap {α : Type} (l : List α) (f : α → Circ Θ) (h : ∀ i ∈ l, OkC (f i)) :
    OkC (l.flatMap f) := by
  intro g hg
  obtain ⟨i, hi, hgi⟩ := List.mem_flatMap.mp hg
  exact h i hi g hgi

theorem OkC.map {α : Type} (l : List α) (f : α → G Θ) (h : ∀ i ∈ l, okG (f i) = true) :
    OkC (l.map f) := by
  intro g hg
  obtain ⟨i, hi, rfl⟩ := List.mem_map.mp hg
  exact h i hi

theorem OkC.ite {p : Prop} [Decidable p] {c d : Circ Θ} (hc : OkC c) (hd : OkC d) :
    OkC (if p then c else d) := by
  split
  · exact hc
  · exact hd

theorem ok_cx (c t : Nat) (h : c ≠ t) : okG (G.cx c t : G Θ) = true := by
  simp [okG, G.wf, plainG, h]

theorem ok_ccx (a b t : Nat) (h1 : a ≠ t) (h2 : b ≠ t) : okG (G.ccx a b t : G Θ) = true := by
  simp [okG, G.wf, plainG, h1, h2]

theorem ok_block (θ z : Θ) (c0 t : Nat) (h : c0 ≠ t) :
    OkC ([G.u θ z z t, G.cx c0 t, G.u θ z z t] : Circ Θ) := by
  intro g hg
  simp only [List.mem_cons, List.not_mem_nil, or_false] at hg
  rcases hg with rfl | rfl | rfl <;> simp [okG, G.wf, plainG, h]

theorem ok_toffoli (o : McxAngles Θ) (cn : Cancel) (c0 c1 t : Nat) (h0 : c0 ≠ t) (h1 : c1 ≠ t) :
    OkC (toffoli o cn c0 c1 t) := by
  have hc : OkC ([G.cx c1 t] : Circ Θ) := by
    intro g hg
    rw [List.mem_singleton.mp hg]
    exact ok_cx _ _ h1
  cases cn
  · rw [toffoli_none]; exact ((ok_block _ _ _ _ h0).append hc).append (ok_block _ _ _ _ h0)
  · rw [toffoli_left]; exact hc.append (ok_block _ _ _ _ h0)
  · rw [toffoli_right]; exact (ok_block _ _ _ _ h0).append hc

theorem ok_chainL (t : Nat → Nat) (n : Nat) (h : ∀ i, i < n → t i ≠ t (i + 1)) :
    OkC (chainL t n : Circ Θ) := by
  rw [chainL_eq]
  apply OkC.map
  intro i hi
  have := List.mem_range.mp hi
  have e : n - i = n - 1 - i + 1 := by omega
  rw [e]
  exact ok_cx _ _ (h _ (by omega))

theorem ok_chainR (t : Nat → Nat) (n : Nat) (h : ∀ i, i < n → t i ≠ t (i + 1)) :
    OkC (chainR t n : Circ Θ) := by
  rw [chainR_eq]
  apply OkC.map
  intro i hi
  exact ok_cx _ _ (h _ (List.mem_range.mp hi))

theorem ok_tmtOn (nt : Nat) (side : Side) (x y : Nat) (t : Nat → Nat) (hx : x ≠ t 0)
    (hy : y ≠ t 0) (ht : ∀ i, i < nt - 1 → t i ≠ t (i + 1)) : OkC (tmtOn nt side x y t : Circ Θ) := by
  have hc : OkC ([G.ccx x y (t 0)] : Circ Θ) := by
    intro g hg
    rw [List.mem_singleton.mp hg]
    exact ok_ccx _ _ _ hx hy
  cases side
  · rw [tmtOn_l]; exact (ok_chainL t _ ht).append hc
  · rw [tmtOn_r]; exact hc.append (ok_chainR t _ ht)
  · rw [tmtOn_both]; exact ((ok_chainL t _ ht).append hc).append (ok_chainR t _ ht)

section layout
variable (o : McxAngles Θ) (k nt : Nat) (c a t : Nat → Nat) (L : VLayout k nt c a t)
include L

theorem tt_succ (i : Nat) (hi : i < nt - 1) : t i ≠ t (i + 1) := by
  intro e
  have := L.htt i (i + 1) (by omega) (by omega) e
  omega

theorem ok_action (hk : 3 ≤ k) (hnt : 1 ≤ nt) (rp : Bool) (j : Nat) (side : Side) :
    OkC (actionCircuit o k nt c a t rp j side) := by
  unfold actionCircuit
  apply OkC.flatMap
  intro i hi
  have hi' := List.mem_range.mp hi
  dsimp only
  split
  · rename_i hlt
    have h0 : c (k - i - 1) ≠ (if i = 0 then t 0 else a (k - 2 - i)) := by
      split
      · exact L.hct _ _ (by omega) (by omega)
      · exact L.hca _ _ (by omega) (by omega)
    have h1 : a (k - 2 - i - 1) ≠ (if i = 0 then t 0 else a (k - 2 - i)) := by
      split
      · exact L.hat _ _ (by omega) (by omega)
      · intro e
        have := L.haa _ _ (by omega) (by omega) e
        omega
    split
    · split
      · exact ok_toffoli o _ _ _ _ h0 h1
      · exact ok_toffoli o _ _ _ _ h0 h1
    · exact ok_tmtOn nt side _ _ t (L.hct _ _ (by omega) (by omega))
        (L.hat _ _ (by omega) (by omega)) (tt_succ k nt c a t L)
  · rename_i hge
    have hi2 : i = k - 2 := by omega
    apply ok_toffoli
    · split
      · exact L.hct _ _ (by omega) (by omega)
      · exact L.hca _ _ (by omega) (by omega)
    · split
      · exact L.hct _ _ (by omega) (by omega)
      · exact L.hca _ _ (by omega) (by omega)

theorem ok_reset : OkC (resetCircuit o k c a) := by
  unfold resetCircuit
  apply OkC.flatMap
  intro i hi
  have hi' := List.mem_range.mp hi
  apply ok_toffoli
  · exact L.hca _ _ (by omega) (by omega)
  · intro e
    have := L.haa _ _ (by omega) (by omega) e
    omega

theorem ok_round (hk : 3 ≤ k) (hnt : 1 ≤ nt) (rp ao : Bool) (j : Nat) (side : Side) :
    OkC (vchainRound o k nt c a t rp ao j side) := by
  unfold vchainRound
  refine ((ok_action o k nt c a t L hk hnt rp j side).append (ok_reset o k nt c a t L)).append ?_
  split
  · exact ok_tmtOn nt .r _ _ t (L.hct _ _ (by omega) (by omega))
      (L.hat _ _ (by omega) (by omega)) (tt_succ k nt c a t L)
  · exact OkC.nil

theorem ok_body (hk : 1 ≤ k) (hnt : 1 ≤ nt) (rp ao : Bool) : OkC (vchainBody o k nt c a t rp ao) := by
  unfold vchainBody
  split
  · exact ok_tmtOn nt .both _ _ t (L.hct _ _ (by omega) (by omega))
      (L.hct _ _ (by omega) (by omega)) (tt_succ k nt c a t L)
  · split
    · apply OkC.map
      intro j hj
      exact ok_cx _ _ (L.hct _ _ (by omega) (List.mem_range.mp hj))
    · split
      · rename_i h3
        apply OkC.map
        intro j hj
        have hj' := List.mem_range.mp hj
        have e0 := L.hct 0 j (by omega) hj'
        have e1 := L.hct 1 j (by omega) hj'
        have e2 := L.hct 2 j (by omega) hj'
        simp [okG, G.wf, plainG, e0.symm, e1.symm, e2.symm]
      · split
        · exact ok_round o k nt c a t L (by omega) hnt rp ao 0 .l
        · exact (ok_round o k nt c a t L (by omega) hnt rp ao 0 .l).append
            (ok_round o k nt c a t L (by omega) hnt rp ao 1 .r)

/-- Every gate of `McxVchainDirty(...).definition` on a pairwise-distinct wire layout is well
formed and in the alphabet on which `invCirc` is the gate-wise inverse. -/
theorem ok_vchainW (cs : Option (List Bool)) (rp ao : Bool) (circ : Circ Θ)
    (h : vchainW o k nt c a t cs rp ao = some circ) : OkC circ := by
  simp only [vchainW] at h
  split at h
  · exact absurd h (by simp)
  · rename_i hk
    split at h
    · exact absurd h (by simp)
    · rename_i xs hxs
      simp only [Option.some.injEq] at h
      subst h
      obtain ⟨rfl, -⟩ := ctrlXs_eq k c cs xs hxs
      have hx : OkC ((csFlips c cs).map (fun w => (G.x w : G Θ))) := by
        apply OkC.map; intro i _; rfl
      exact (hx.append (ok_body o k nt c a t L (by omega) (by omega) rp ao)).append hx

end layout

/-! ### `invCirc` undoes an `OkC` circuit -/

section inverse
variable {R : Type} [AddCommGroup Θ] [CommRing R] [RotSem Θ R] [RotLaws Θ R]

theorem invG_eq_inv (g : G Θ) (h : plainG g = true) : invG (fun x : Θ => -x) g = g.inv := by
  cases g <;> first | rfl | simp [plainG] at h

theorem invCirc_eq_inv (c : Circ Θ) (h : OkC c) : invCirc (fun x : Θ => -x) c = Circ.inv c := by
  rw [invCirc_eq, Circ.inv]
  apply List.map_congr_left
  intro g hg
  have := h g (List.mem_reverse.mp hg)
  simp only [okG, Bool.and_eq_true] at this
  exact invG_eq_inv g this.2

theorem OkC.wf {c : Circ Θ} (h : OkC c) : ∀ g ∈ c, g.wf = true := by
  intro g hg
  have := h g hg
  simp only [okG, Bool.and_eq_true] at this
  exact this.1

/-- If an `OkC` circuit denotes an involution `P`, so does its `invCirc`. -/
theorem invCirc_sem_of_invol (c : Circ Θ) (h : OkC c) (P : State R → State R)
    (hP : ∀ ψ, P (P ψ) = ψ) (hc : ∀ ψ : State R, sem c ψ = P ψ) (ψ : State R) :
    sem (invCirc (fun x : Θ => -x) c) ψ = P ψ := by
  rw [invCirc_eq_inv c h]
  have h1 := sem_inv_left (R := R) c h.wf (P ψ)
  rw [hc, hP] at h1
  exact h1

end inverse

/-! ### The ideal MCX is an involution -/

section invol
variable {R : Type}

theorem mcxIdeal_invol (lits : List (Nat × Bool)) (ts : List Nat)
    (h : ∀ cv ∈ lits, cv.1 ∉ ts) (ψ : State R) :
    mcxIdeal lits ts (mcxIdeal lits ts ψ) = ψ := by
  funext b
  have e : ctrlOk lits (flipAll ts b) = ctrlOk lits b := by
    unfold ctrlOk
    apply all_congr_mem
    intro cv hcv
    rw [flipAll_get_not_mem ts b cv.1 (h cv hcv)]
  simp only [mcxIdeal, e, flipAll_invol]
  split <;> rfl

end invol

end Qclib.Mcsu
