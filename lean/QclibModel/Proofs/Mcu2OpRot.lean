import QclibModel.Proofs.Mcu2OpSem
import QclibModel.Proofs.McsuSem
import Mathlib.Data.List.Nodup
/-
  C04, part B — one-qubit gates on several wires, controlled gates on states whose control wire
  is in a basis state, and products of one-qubit gates over a list of wires (`rot`).

  This is the operator-level vocabulary of the `Ldmcu` ladder: on a computational-basis input of
  the controls the state after every prefix of the ladder is `rot M wires ψ` — a one-qubit matrix
  `M q` on each wire `q` applied to the input.
-/
namespace Qclib.Mcu2
open Mcsu

variable {R : Type} [CommRing R]

/-- A one-qubit gate on wire `q`. -/
abbrev g1 (M : Mat2 R) (q : Nat) (ψ : State R) : State R := applyMcu [] M q ψ

theorem g1_apply (M : Mat2 R) (q : Nat) (ψ : State R) (b : Bits) :
    g1 M q ψ b = if b q then M.c * ψ (setBit b q false) + M.d * ψ (setBit b q true)
      else M.a * ψ (setBit b q false) + M.b * ψ (setBit b q true) := by
  simp [g1, applyMcu, ctrlOk]

theorem mcuFam_nil (M : Mat2 R) : mcuFam [] M = fun _ => M := by
  funext b; simp [mcuFam, ctrlOk]

theorem g1_eq_fam (M : Mat2 R) (q : Nat) (ψ : State R) : g1 M q ψ = applyFam (fun _ => M) q ψ := by
  rw [g1, applyMcu_eq_fam, mcuFam_nil]

theorem g1_comp (A B : Mat2 R) (q : Nat) (ψ : State R) : g1 A q (g1 B q ψ) = g1 (A * B) q ψ := by
  rw [g1_eq_fam, g1_eq_fam, g1_eq_fam, applyFam_comp q _ _ (TFree_const q B)]

theorem g1_one (q : Nat) (ψ : State R) : g1 (1 : Mat2 R) q ψ = ψ := by
  rw [g1_eq_fam, applyFam_one]

theorem g1_comm (A B : Mat2 R) {p q : Nat} (h : p ≠ q) (ψ : State R) :
    g1 A p (g1 B q ψ) = g1 B q (g1 A p ψ) := by
  simp only [g1_eq_fam]
  exact applyFam_comm p q h _ _ (TFree_const q A) (TFree_const p B) ψ

/-- A singly controlled gate commutes with a one-qubit gate on a third wire. -/
theorem cg_g1_comm (c t : Nat) (v : Bool) (G B : Mat2 R) {q : Nat} (hc : c ≠ q) (ht : t ≠ q)
    (ψ : State R) :
    applyMcu [(c, v)] G t (g1 B q ψ) = g1 B q (applyMcu [(c, v)] G t ψ) := by
  rw [g1_eq_fam, g1_eq_fam, applyMcu_eq_fam, applyMcu_eq_fam]
  refine applyFam_comm t q ht _ _ (mcuFam_free _ _ q ?_) (TFree_const t B) ψ
  intro cv hcv
  simp only [List.mem_singleton] at hcv
  subst hcv
  exact hc

/-! ### States whose wire `c` is in the basis state `v` -/

/-- Every amplitude with `b c ≠ v` vanishes. -/
def SuppAt (c : Nat) (v : Bool) (ψ : State R) : Prop := ∀ b, b c ≠ v → ψ b = 0

theorem supp_g1 {c : Nat} {v : Bool} {ψ : State R} (h : SuppAt c v ψ) (B : Mat2 R) {q : Nat}
    (hq : c ≠ q) : SuppAt c v (g1 B q ψ) := by
  intro b hb
  have h0 : ∀ w, ψ (setBit b q w) = 0 := fun w => h _ (by rw [setBit_ne b w hq]; exact hb)
  rw [g1_apply]
  simp [h0]

/-- A diagonal matrix on `c` keeps the basis state of `c`. -/
theorem supp_diag {c : Nat} {v : Bool} {ψ : State R} (h : SuppAt c v ψ) (M : Mat2 R)
    (hb : M.b = 0) (hc : M.c = 0) : SuppAt c v (g1 M c ψ) := by
  intro b hbv
  rw [g1_apply]
  cases hbc : b c
  · have : ψ (setBit b c false) = 0 := h _ (by rw [setBit_eq, ← hbc]; exact hbv)
    simp [this, hb]
  · have : ψ (setBit b c true) = 0 := h _ (by rw [setBit_eq, ← hbc]; exact hbv)
    simp [this, hc]

/-- An anti-diagonal matrix on `c` flips the basis state of `c`. -/
theorem supp_anti {c : Nat} {v : Bool} {ψ : State R} (h : SuppAt c v ψ) (M : Mat2 R)
    (ha : M.a = 0) (hd : M.d = 0) : SuppAt c (!v) (g1 M c ψ) := by
  intro b hbv
  rw [g1_apply]
  cases hbc : b c
  · have hv : v = false := by
      cases v
      · rfl
      · exact absurd (by rw [hbc]; rfl) hbv
    have : ψ (setBit b c true) = 0 := h _ (by rw [setBit_eq, hv]; decide)
    simp [this, ha]
  · have hv : v = true := by
      cases v
      · exact absurd (by rw [hbc]; rfl) hbv
      · rfl
    have : ψ (setBit b c false) = 0 := h _ (by rw [setBit_eq, hv]; decide)
    simp [this, hd]

/-- On a state whose control wire is in the basis state `v`, a controlled gate is the gate itself
(`v = 1`) or the identity (`v = 0`). -/
theorem cg_on_supp {c t : Nat} (hct : c ≠ t) {v : Bool} {φ : State R} (h : SuppAt c v φ)
    (G : Mat2 R) :
    applyMcu [(c, true)] G t φ = if v then g1 G t φ else φ := by
  funext b
  have hset : ∀ w, (setBit b t w) c = b c := fun w => setBit_ne b w hct
  cases hbc : b c <;> cases v
  · simp [applyMcu, ctrlOk, hbc]
  · -- b c = 0, v = 1: both sides vanish
    have h0 : ∀ w, φ (setBit b t w) = 0 := fun w => h _ (by rw [hset, hbc]; decide)
    have hb0 : φ b = 0 := h _ (by rw [hbc]; decide)
    simp [applyMcu, ctrlOk, hbc, g1, h0, hb0]
  · -- b c = 1, v = 0
    have h0 : ∀ w, φ (setBit b t w) = 0 := fun w => h _ (by rw [hset, hbc]; decide)
    have hb0 : φ b = 0 := h _ (by rw [hbc]; decide)
    simp [applyMcu, ctrlOk, hbc, h0, hb0]
  · simp [applyMcu, ctrlOk, hbc, g1]

/-! ### Products of one-qubit gates over a list of wires -/

/-- `M q` on every wire `q` of the list (head applied last). -/
def rot (M : Nat → Mat2 R) : List Nat → State R → State R
  | [], ψ => ψ
  | q :: qs, ψ => g1 (M q) q (rot M qs ψ)

theorem rot_congr {M M' : Nat → Mat2 R} (qs : List Nat) (h : ∀ q ∈ qs, M q = M' q) (ψ : State R) :
    rot M qs ψ = rot M' qs ψ := by
  induction qs with
  | nil => rfl
  | cons q qs ih =>
    simp only [rot]
    rw [h q List.mem_cons_self, ih (fun q' hq' => h q' (List.mem_cons_of_mem _ hq'))]

theorem rot_one (M : Nat → Mat2 R) (qs : List Nat) (h : ∀ q ∈ qs, M q = 1) (ψ : State R) :
    rot M qs ψ = ψ := by
  induction qs with
  | nil => rfl
  | cons q qs ih =>
    simp only [rot]
    rw [h q List.mem_cons_self, g1_one, ih (fun q' hq' => h q' (List.mem_cons_of_mem _ hq'))]

theorem g1_rot_comm (M : Nat → Mat2 R) (B : Mat2 R) {q : Nat} (qs : List Nat) (hq : q ∉ qs)
    (ψ : State R) : g1 B q (rot M qs ψ) = rot M qs (g1 B q ψ) := by
  induction qs with
  | nil => rfl
  | cons p qs ih =>
    have hp : q ≠ p := fun e => hq (e ▸ List.mem_cons_self)
    have hq' : q ∉ qs := fun e => hq (List.mem_cons_of_mem _ e)
    simp only [rot]
    rw [g1_comm B (M p) hp, ih hq']

theorem cg_rot_comm (M : Nat → Mat2 R) (c t : Nat) (v : Bool) (G : Mat2 R) (qs : List Nat)
    (hc : c ∉ qs) (ht : t ∉ qs) (ψ : State R) :
    applyMcu [(c, v)] G t (rot M qs ψ) = rot M qs (applyMcu [(c, v)] G t ψ) := by
  induction qs with
  | nil => rfl
  | cons p qs ih =>
    have hcp : c ≠ p := fun e => hc (e ▸ List.mem_cons_self)
    have htp : t ≠ p := fun e => ht (e ▸ List.mem_cons_self)
    simp only [rot]
    rw [cg_g1_comm c t v G (M p) hcp htp,
      ih (fun e => hc (List.mem_cons_of_mem _ e)) (fun e => ht (List.mem_cons_of_mem _ e))]

/-- Pull the gate of one wire to the front. -/
theorem rot_pull (M : Nat → Mat2 R) {q : Nat} (qs : List Nat) (hq : q ∈ qs) (ψ : State R) :
    rot M qs ψ = g1 (M q) q (rot M (qs.erase q) ψ) := by
  induction qs with
  | nil => simp at hq
  | cons p qs ih =>
    by_cases hp : p = q
    · subst hp
      simp [rot]
    · have hq' : q ∈ qs := by
        rcases List.mem_cons.mp hq with e | e
        · exact absurd e.symm hp
        · exact e
      have he : (p :: qs).erase q = p :: qs.erase q := by
        simp [hp]
      rw [he]
      simp only [rot]
      rw [ih hq', g1_comm (M p) (M q) hp]

theorem supp_rot {c : Nat} {v : Bool} {ψ : State R} (h : SuppAt c v ψ) (M : Nat → Mat2 R)
    (qs : List Nat) (hc : c ∉ qs) : SuppAt c v (rot M qs ψ) := by
  induction qs with
  | nil => exact h
  | cons p qs ih =>
    have hcp : c ≠ p := fun e => hc (e ▸ List.mem_cons_self)
    exact supp_g1 (ih (fun e => hc (List.mem_cons_of_mem _ e))) (M p) hcp

/-- **One controlled gate on a product state.**  `ψ` has wire `c` in the basis state `xc`; the
matrix `M c` on that wire is diagonal (`e = false`) or anti-diagonal (`e = true`).  Then the gate
`G` on `t` controlled by `c` multiplies `G` onto the matrix of wire `t` iff `xc ⊕ e = 1`. -/
theorem cg_rot (M : Nat → Mat2 R) (qs : List Nat) (hn : qs.Nodup) {c t : Nat} (hct : c ≠ t)
    (hc : c ∈ qs) (ht : t ∈ qs) (xc e : Bool) (ψ : State R) (hs : SuppAt c xc ψ)
    (hM : if e then (M c).a = 0 ∧ (M c).d = 0 else (M c).b = 0 ∧ (M c).c = 0) (G : Mat2 R) :
    applyMcu [(c, true)] G t (rot M qs ψ)
      = rot (if xor xc e then Function.update M t (G * M t) else M) qs ψ := by
  have ht' : t ∈ qs.erase c := (List.mem_erase_of_ne (fun h => hct h.symm)).mpr ht
  have hn1 : (qs.erase c).Nodup := hn.erase c
  have hcq : c ∉ (qs.erase c).erase t := by
    intro h
    exact (List.Nodup.not_mem_erase hn) (List.mem_of_mem_erase h)
  have htq : t ∉ (qs.erase c).erase t := List.Nodup.not_mem_erase hn1
  set rest := (qs.erase c).erase t with hrest
  have hpull : ∀ M' : Nat → Mat2 R,
      rot M' qs ψ = g1 (M' c) c (g1 (M' t) t (rot M' rest ψ)) := by
    intro M'
    rw [rot_pull M' qs hc, rot_pull M' (qs.erase c) ht']
  rw [hpull M]
  have s0 : SuppAt c xc (rot M rest ψ) := supp_rot hs M rest hcq
  have s1 : SuppAt c xc (g1 (M t) t (rot M rest ψ)) := supp_g1 s0 (M t) hct
  have s2 : SuppAt c (xor xc e) (g1 (M c) c (g1 (M t) t (rot M rest ψ))) := by
    cases e
    · simp only [Bool.xor_false]
      exact supp_diag s1 (M c) hM.1 hM.2
    · simp only [Bool.xor_true]
      exact supp_anti s1 (M c) hM.1 hM.2
  rw [cg_on_supp hct s2 G]
  cases hx : xor xc e
  · simp only [Bool.false_eq_true, if_false]
    rw [hpull M]
  · simp only [if_true]
    rw [hpull (Function.update M t (G * M t))]
    have e1 : Function.update M t (G * M t) c = M c := Function.update_of_ne hct _ _
    have e2 : Function.update M t (G * M t) t = G * M t := Function.update_self _ _ _
    have e3 : rot (Function.update M t (G * M t)) rest ψ = rot M rest ψ :=
      rot_congr rest (fun q hq => Function.update_of_ne (fun (h : q = t) => htq (h ▸ hq)) _ _) ψ
    rw [e1, e2, e3, g1_comm G (M c) (fun h => hct h.symm), g1_comp]

end Qclib.Mcu2
