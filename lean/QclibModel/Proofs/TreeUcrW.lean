import QclibModel.Proofs.UcrProof
import QclibModel.Model.Tree
/-
  The multiplexer `ucr` PLACED on arbitrary wires (target wire `t`, control of level `j ≥ 1` on
  wire `cw j`) denotes the ideal multiplexer on those wires, and from it the semantics of
  `levelMux` (the two multiplexers `tree_walk.top_down` appends per level).

  Same structure as Proofs/UcrProof.lean (C13) with wire 0 replaced by `t`: every gate is
  `applyFam f t` for a family `f` that does not look at wire `t` (`RepAt`), such operators compose
  by pointwise matrix multiplication, and the two-sided invariant is proved by induction on `k`.
-/
namespace Qclib
open RotSem

/-! ### 1. Operators on wire `t` given by a matrix family independent of wire `t` -/

section repAt
variable {Θ R : Type} [CommRing R] [RotSem Θ R]

/-- The family does not look at wire `t`. -/
def BitFree (t : Nat) (f : Bits → Mat2 R) : Prop := ∀ b v, f (setBit b t v) = f b

theorem applyFam_comp_at (t : Nat) (f g : Bits → Mat2 R) (hg : BitFree t g) (ψ : State R) :
    applyFam f t (applyFam g t ψ) = applyFam (fun b => f b * g b) t ψ := by
  funext b
  simp only [applyFam, setBit_same, setBit_setBit, hg b]
  by_cases h : b t = true <;> simp [h] <;> ring

/-- `c` denotes the wire-`t` operator with matrix family `f`. -/
def RepAt (t : Nat) (c : Circ Θ) (f : Bits → Mat2 R) : Prop :=
  BitFree t f ∧ ∀ ψ : State R, sem c ψ = applyFam f t ψ

theorem RepAt.congr {t : Nat} {c : Circ Θ} {f g : Bits → Mat2 R} (h : RepAt t c f)
    (hfg : ∀ b, f b = g b) : RepAt t c g := by
  have : f = g := funext hfg
  rwa [← this]

theorem RepAt.nil (t : Nat) : RepAt t ([] : Circ Θ) (fun _ => (1 : Mat2 R)) := by
  refine ⟨fun _ _ => rfl, fun ψ => ?_⟩
  funext b
  by_cases h : b t = true
  · simp [sem, applyFam, h, setBit_self' b t true h]
  · have h' : b t = false := by simpa using h
    simp [sem, applyFam, h', setBit_self' b t false h']

theorem RepAt.append {t : Nat} {c d : Circ Θ} {f g : Bits → Mat2 R} (hc : RepAt t c f)
    (hd : RepAt t d g) : RepAt t (c ++ d) (fun b => g b * f b) := by
  refine ⟨fun b v => ?_, fun ψ => ?_⟩
  · show g (setBit b t v) * f (setBit b t v) = g b * f b
    rw [hc.1 b v, hd.1 b v]
  · rw [sem_append, hc.2, hd.2, applyFam_comp_at _ _ _ hc.1]

theorem applyMcu_nil_at (t : Nat) (m : Mat2 R) (ψ : State R) :
    applyMcu [] m t ψ = applyFam (fun _ => m) t ψ := by
  funext b
  simp [applyMcu, applyFam, ctrlOk]

theorem applyMcu_one_at (c t : Nat) (m : Mat2 R) (ψ : State R) :
    applyMcu [(c, true)] m t ψ = applyFam (fun b => if b c then m else 1) t ψ := by
  funext b
  by_cases hc : b c = true
  · simp [applyMcu, applyFam, ctrlOk, hc]
  · have hc' : b c = false := by simpa using hc
    by_cases h : b t = true
    · simp [applyMcu, applyFam, ctrlOk, hc', h, setBit_self' b t true h]
    · have h' : b t = false := by simpa using h
      simp [applyMcu, applyFam, ctrlOk, hc', h', setBit_self' b t false h']

theorem RepAt.rot (ax : Axis) (θ : Θ) (t : Nat) :
    RepAt t [rotG ax θ t] (fun _ => (rotMat ax θ : Mat2 R)) := by
  refine ⟨fun _ _ => rfl, fun ψ => ?_⟩
  cases ax
  · exact applyMcu_nil_at t (matRY θ) ψ
  · exact applyMcu_nil_at t (matRZ θ) ψ

theorem RepAt.ent (e : Ent) {c t : Nat} (hct : c ≠ t) :
    RepAt t ([entG e c t] : Circ Θ) (fun b => if b c then (entMat e : Mat2 R) else 1) := by
  refine ⟨fun b v => ?_, fun ψ => ?_⟩
  · simp only [setBit_other b v hct]
  · cases e
    · exact applyMcu_one_at c t Mat2.X ψ
    · exact applyMcu_one_at c t Mat2.Z ψ

/-! ### Index and pending entangler on the control wires `cw 1 … cw k` -/

/-- The number read on the control wires: wire `cw (i+1)` is bit `i`. -/
def ctrlIdxW (cw : Nat → Nat) : Nat → Bits → Nat
  | 0, _ => 0
  | k+1, b => ctrlIdxW cw k b + (if b (cw (k+1)) then 2^k else 0)

/-- The pending entangler factor of level `k`. -/
def EkW (e : Ent) (cw : Nat → Nat) : Nat → Bits → Mat2 R
  | 0, _ => 1
  | k+1, b => if b (cw (k+1)) then entMat e else 1

theorem EkW_zero (e : Ent) (cw : Nat → Nat) (b : Bits) : (EkW e cw 0 b : Mat2 R) = 1 := rfl

theorem EkW_succ (e : Ent) (cw : Nat → Nat) (k : Nat) (b : Bits) :
    (EkW e cw (k+1) b : Mat2 R) = if b (cw (k+1)) then entMat e else 1 := rfl

theorem EkW_cases (e : Ent) (cw : Nat → Nat) (k : Nat) (b : Bits) :
    (EkW e cw k b : Mat2 R) = 1 ∨ (EkW e cw k b : Mat2 R) = entMat e := by
  cases k with
  | zero => exact Or.inl rfl
  | succ k =>
    by_cases h : b (cw (k+1)) = true
    · right; simp [EkW_succ, h]
    · left; simp [EkW_succ, h]

theorem EkW_sq (e : Ent) (cw : Nat → Nat) (k : Nat) (b : Bits) :
    (EkW e cw k b * EkW e cw k b : Mat2 R) = 1 := by
  rcases EkW_cases (R := R) e cw k b with h | h <;> rw [h]
  · exact Mat2.one_mul' _
  · exact ent_sq e

theorem EkW_sq_assoc (e : Ent) (cw : Nat → Nat) (k : Nat) (b : Bits) (M : Mat2 R) :
    EkW e cw k b * (EkW e cw k b * M) = M := by
  rw [← Mat2.mul_assoc', EkW_sq, Mat2.one_mul']

theorem ctrlIdxW_congr {cw cw' : Nat → Nat} (b : Bits) (k : Nat)
    (h : ∀ j, 1 ≤ j → j ≤ k → cw j = cw' j) : ctrlIdxW cw k b = ctrlIdxW cw' k b := by
  induction k with
  | zero => rfl
  | succ k ih =>
    simp only [ctrlIdxW]
    rw [ih (fun j h1 hj => h j h1 (Nat.le_succ_of_le hj)), h (k+1) (by omega) (Nat.le_refl _)]

/-! ### Renaming the canonical wires -/

/-- Canonical wire 0 (target) goes to `t`, canonical wire `j ≥ 1` (control of level `j`) to `cw j`. -/
def rhoW (t : Nat) (cw : Nat → Nat) : Nat → Nat := fun i => if i = 0 then t else cw i

theorem rhoW_zero (t : Nat) (cw : Nat → Nat) : rhoW t cw 0 = t := rfl

theorem rhoW_succ (t : Nat) (cw : Nat → Nat) (k : Nat) : rhoW t cw (k+1) = cw (k+1) := rfl

theorem mapWires_rotG (f : Nat → Nat) (ax : Axis) (θ : Θ) (q : Nat) :
    (rotG ax θ q : G Θ).mapWires f = rotG ax θ (f q) := by
  cases ax <;> rfl

theorem mapWires_entG (f : Nat → Nat) (e : Ent) (c t : Nat) :
    (entG e c t : G Θ).mapWires f = entG e (f c) (f t) := by
  cases e <;> rfl

theorem ucr_zero_last (o : AOps Θ) (ax : Axis) (e : Ent) (a : Nat → Θ) :
    ucr o ax e 0 a true = ucr o ax e 0 a false := by
  simp only [ucr]

theorem ucr_succ_last (o : AOps Θ) (ax : Axis) (e : Ent) (k : Nat) (a : Nat → Θ) :
    ucr o ax e (k+1) a true = ucr o ax e (k+1) a false ++ [entG e (k+1) 0] := by
  rw [ucr_succ, ucr_succ]; simp

/-! ### 3. `place` on `tq :: ctrl.reverse` is the renaming `rhoW` -/

/-- Renamings that agree on the wires `≤ k` rename `ucr … k …` (whose gates only mention the wires
`0 … k`) in the same way. -/
theorem ucr_map_congr (o : AOps Θ) (ax : Axis) (e : Ent) (f g : Nat → Nat) (k : Nat) :
    (∀ i, i ≤ k → f i = g i) → ∀ (a : Nat → Θ) (last : Bool),
    (ucr o ax e k a last).map (G.mapWires f) = (ucr o ax e k a last).map (G.mapWires g) := by
  induction k with
  | zero =>
    intro h a last
    simp only [ucr]
    split
    · rfl
    · simp only [List.map_cons, List.map_nil, mapWires_rotG, h 0 (Nat.le_refl 0)]
  | succ k ih =>
    intro h a last
    have h' : ∀ i, i ≤ k → f i = g i := fun i hi => h i (Nat.le_succ_of_le hi)
    rw [ucr_succ]
    cases last <;>
      simp only [List.map_append, List.map_reverse, ih h', List.map_cons, List.map_nil,
        mapWires_entG, h 0 (Nat.zero_le _), h (k+1) (Nat.le_refl _), if_true,
        Bool.false_eq_true, if_false]

/-- The control wires as `place` sees them: level `j` sits on `ctrl[ctrl.length - j]`. -/
def cwOf (ctrl : List Nat) : Nat → Nat := fun j => ctrl.getD (ctrl.length - j) 0

theorem placeWire (tq : Nat) (ctrl : List Nat) (i : Nat) (hi : i ≤ ctrl.length) :
    (tq :: ctrl.reverse).getD i 0 = rhoW tq (cwOf ctrl) i := by
  cases i with
  | zero => rfl
  | succ j =>
    rw [rhoW_succ, List.getD_cons_succ]
    simp only [cwOf]
    rw [List.getD_eq_getElem?_getD, List.getD_eq_getElem?_getD,
      List.getElem?_reverse (by omega)]
    congr 2
    omega

theorem place_ucr (o : AOps Θ) (ax : Axis) (e : Ent) (tq : Nat) (ctrl : List Nat)
    (a : Nat → Θ) (last : Bool) :
    place (ucr o ax e ctrl.length a last) (tq :: ctrl.reverse)
      = (ucr o ax e ctrl.length a last).map (G.mapWires (rhoW tq (cwOf ctrl))) :=
  ucr_map_congr o ax e _ _ ctrl.length (fun i hi => placeWire tq ctrl i hi) a last

theorem place_ucr_reverse (o : AOps Θ) (ax : Axis) (e : Ent) (tq : Nat) (ctrl : List Nat)
    (a : Nat → Θ) (last : Bool) :
    place (ucr o ax e ctrl.length a last).reverse (tq :: ctrl.reverse)
      = ((ucr o ax e ctrl.length a last).map (G.mapWires (rhoW tq (cwOf ctrl)))).reverse := by
  rw [← place_ucr]
  simp only [place, List.map_reverse]

theorem cwOf_ne (tq : Nat) (ctrl : List Nat) (hctrl : ∀ c ∈ ctrl, c ≠ tq) :
    ∀ j, 1 ≤ j → j ≤ ctrl.length → cwOf ctrl j ≠ tq := by
  intro j h1 hj
  have hlt : ctrl.length - j < ctrl.length := by omega
  simp only [cwOf, List.getD_eq_getElem?_getD, List.getElem?_eq_getElem hlt, Option.getD_some]
  exact hctrl _ (List.getElem_mem hlt)

/-- The controls read MSB-first: the FIRST control wire is the most significant bit. -/
def idxMsb : List Nat → Bits → Nat
  | [], _ => 0
  | c :: cs, b => (if b c then 2^cs.length else 0) + idxMsb cs b

/-- The index `levelMux` uses: controls `ctrl` handed to `append` as `[target] + ctrl[::-1]`. -/
def idxW (ctrl : List Nat) (b : Bits) : Nat := ctrlIdxW (cwOf ctrl) ctrl.length b

theorem idx_eq_idxMsb (ctrl : List Nat) (b : Bits) : idxW ctrl b = idxMsb ctrl b := by
  induction ctrl with
  | nil => rfl
  | cons c cs ih =>
    have hrec : ctrlIdxW (cwOf (c :: cs)) cs.length b = ctrlIdxW (cwOf cs) cs.length b := by
      apply ctrlIdxW_congr
      intro j h1 hj
      have : (c :: cs).length - j = (cs.length - j) + 1 := by simp only [List.length_cons]; omega
      simp only [cwOf, this, List.getD_cons_succ]
    have hhead : cwOf (c :: cs) (cs.length + 1) = c := by
      simp [cwOf]
    show ctrlIdxW (cwOf (c :: cs)) (cs.length + 1) b = _
    simp only [ctrlIdxW, idxMsb, hrec, hhead]
    rw [← ih, idxW, Nat.add_comm]

end repAt

/-! ### 2. The invariant on arbitrary wires -/

section inv
variable {Θ R : Type} [AddCommGroup Θ] [CommRing R] [RotSem Θ R] [RotLaws Θ R]

theorem ucr_mapWires_inv (half : Θ → Θ) (negl : Θ → Bool)
    (hhalf : ∀ a, half a + half a = a) (hadd : ∀ a b, half (a + b) = half a + half b)
    (hnegl : ∀ a, negl a = true → a = 0)
    {ax : Axis} {e : Ent} (hv : validPair ax e = true) (t : Nat) (cw : Nat → Nat) (k : Nat) :
    (∀ j, 1 ≤ j → j ≤ k → cw j ≠ t) → ∀ a : Nat → Θ,
    RepAt t ((ucr (stdOps half negl) ax e k a false).map (G.mapWires (rhoW t cw)))
        (fun b => (EkW e cw k b * rotMat ax (a (ctrlIdxW cw k b)) : Mat2 R)) ∧
    RepAt t ((ucr (stdOps half negl) ax e k a false).map (G.mapWires (rhoW t cw))).reverse
        (fun b => (rotMat ax (a (ctrlIdxW cw k b)) * EkW e cw k b : Mat2 R)) := by
  induction k with
  | zero =>
    intro _ a
    have key : RepAt t ((ucr (stdOps half negl) ax e 0 a false).map (G.mapWires (rhoW t cw)))
        (fun _ => (rotMat ax (a 0) : Mat2 R)) := by
      simp only [ucr]
      by_cases h : (stdOps half negl).negl (a 0) = true
      · rw [if_pos h, hnegl _ h, rot_zero]; exact RepAt.nil t
      · rw [if_neg h]
        simp only [List.map_cons, List.map_nil, mapWires_rotG, rhoW_zero]
        exact RepAt.rot ax (a 0) t
    have hrev : ((ucr (stdOps half negl) ax e 0 a false).map (G.mapWires (rhoW t cw))).reverse
        = (ucr (stdOps half negl) ax e 0 a false).map (G.mapWires (rhoW t cw)) := by
      simp only [ucr]; split <;> rfl
    constructor
    · exact key.congr (fun b => by simp only [EkW_zero, ctrlIdxW, Mat2.one_mul'])
    · rw [hrev]
      exact key.congr (fun b => by simp only [EkW_zero, ctrlIdxW, Mat2.mul_one'])
  | succ k ih =>
    intro hcw a
    have hcw' : ∀ j, 1 ≤ j → j ≤ k → cw j ≠ t := fun j h1 hj => hcw j h1 (Nat.le_succ_of_le hj)
    have hp : ∀ j, a j = half (a j + a (j + 2^k)) + half (a j - a (j + 2^k)) :=
      fun j => (half_sum half hhalf hadd _ _).symm
    have hq : ∀ j, a (j + 2^k) = half (a j + a (j + 2^k)) - half (a j - a (j + 2^k)) :=
      fun j => (half_diff half hhalf hadd _ _).symm
    obtain ⟨hα, hαr⟩ := ih hcw' (fun j => half (a j + a (j + 2^k)))
    obtain ⟨hβ, hβr⟩ := ih hcw' (fun j => half (a j - a (j + 2^k)))
    have hE := RepAt.ent (Θ := Θ) (R := R) e (hcw (k+1) (by omega) (Nat.le_refl _))
    rw [ucr_succ]
    simp only [stdOps, Bool.false_eq_true, if_false, List.append_nil, List.map_append,
      List.map_reverse, List.map_cons, List.map_nil, mapWires_entG, rhoW_zero, rhoW_succ,
      List.reverse_append, List.reverse_reverse, List.reverse_cons, List.reverse_nil,
      List.nil_append, ← List.append_assoc]
    constructor
    · refine ((hα.append hE).append hβr).congr (fun b => ?_)
      simp only [EkW_succ, ctrlIdxW]
      by_cases hb : b (cw (k+1)) = true
      · simp only [hb, if_true]
        exact (step_true hv _ (EkW_cases e cw k b) _ _).trans (by rw [← hq])
      · have hb' : b (cw (k+1)) = false := by simpa using hb
        simp only [hb', Bool.false_eq_true, if_false, Nat.add_zero]
        exact (step_false hv _ (EkW_cases e cw k b) _ _).trans (by rw [← hp])
    · refine ((hβ.append hE).append hαr).congr (fun b => ?_)
      simp only [EkW_succ, ctrlIdxW]
      by_cases hb : b (cw (k+1)) = true
      · simp only [hb, if_true]
        exact (stepr_true hv _ (EkW_cases e cw k b) _ _).trans (by rw [← hq])
      · have hb' : b (cw (k+1)) = false := by simpa using hb
        simp only [hb', Bool.false_eq_true, if_false, Nat.add_zero]
        exact (stepr_false hv _ (EkW_cases e cw k b) _ _).trans (by rw [← hp])

/-- The renamed `last_control = True` circuit, and its reverse, denote the ideal multiplexer on
wire `t` with controls `cw 1 … cw k`. -/
theorem ucr_mapWires_last (half : Θ → Θ) (negl : Θ → Bool)
    (hhalf : ∀ a, half a + half a = a) (hadd : ∀ a b, half (a + b) = half a + half b)
    (hnegl : ∀ a, negl a = true → a = 0)
    {ax : Axis} {e : Ent} (hv : validPair ax e = true) (t : Nat) (cw : Nat → Nat) (k : Nat)
    (hcw : ∀ j, 1 ≤ j → j ≤ k → cw j ≠ t) (a : Nat → Θ) :
    RepAt t ((ucr (stdOps half negl) ax e k a true).map (G.mapWires (rhoW t cw)))
        (fun b => (rotMat ax (a (ctrlIdxW cw k b)) : Mat2 R)) ∧
    RepAt t ((ucr (stdOps half negl) ax e k a true).map (G.mapWires (rhoW t cw))).reverse
        (fun b => (rotMat ax (a (ctrlIdxW cw k b)) : Mat2 R)) := by
  obtain ⟨h1, h2⟩ := ucr_mapWires_inv (R := R) half negl hhalf hadd hnegl hv t cw k hcw a
  cases k with
  | zero =>
    rw [ucr_zero_last]
    exact ⟨h1.congr (fun b => by simp only [EkW_zero, Mat2.one_mul']),
      h2.congr (fun b => by simp only [EkW_zero, Mat2.mul_one'])⟩
  | succ k =>
    have hE := RepAt.ent (Θ := Θ) (R := R) e (hcw (k+1) (by omega) (Nat.le_refl _))
    rw [ucr_succ_last]
    simp only [List.map_append, List.map_cons, List.map_nil, mapWires_entG, rhoW_zero, rhoW_succ,
      List.reverse_append, List.reverse_cons, List.reverse_nil, List.nil_append]
    constructor
    · refine (h1.append hE).congr (fun b => ?_)
      show EkW e cw (k+1) b * (EkW e cw (k+1) b * _) = _
      exact EkW_sq_assoc e cw (k+1) b _
    · refine (hE.append h2).congr (fun b => ?_)
      show _ * EkW e cw (k+1) b * EkW e cw (k+1) b = _
      rw [Mat2.mul_assoc', EkW_sq, Mat2.mul_one']

/-! ### 4. The pair of multiplexers of one level -/

/-- `ucrY` followed by the reversed `ucrZ`, with the `last_control` flags chosen as `top_down`
does, on target `tq` and controls `ctrl` (placed as `[target] + ctrl[::-1]`). -/
theorem mux_pair_rep (half : Θ → Θ) (negl : Θ → Bool)
    (hhalf : ∀ a, half a + half a = a) (hadd : ∀ a b, half (a + b) = half a + half b)
    (hnegl : ∀ a, negl a = true → a = 0)
    (tq : Nat) (ctrl : List Nat) (hctrl : ∀ c ∈ ctrl, c ≠ tq) (ya za : Nat → Θ)
    (anyY anyZ : Bool) (hY0 : anyY = false → ∀ i, ya i = 0) (hZ0 : anyZ = false → ∀ i, za i = 0) :
    RepAt tq
      ((if anyY then place (ucr (stdOps half negl) .Y .CX ctrl.length ya (!anyZ))
          (tq :: ctrl.reverse) else [])
        ++ (if anyZ then place (ucr (stdOps half negl) .Z .CX ctrl.length za (!anyY)).reverse
          (tq :: ctrl.reverse) else []))
      (fun b => (rotMat Axis.Z (za (idxW ctrl b)) * rotMat Axis.Y (ya (idxW ctrl b)) : Mat2 R)) := by
  have hcw := cwOf_ne tq ctrl hctrl
  have hvY : validPair .Y .CX = true := rfl
  have hvZ : validPair .Z .CX = true := rfl
  cases anyY <;> cases anyZ <;>
    simp only [Bool.false_eq_true, if_false, if_true, Bool.not_true, Bool.not_false,
      List.append_nil, List.nil_append, place_ucr, place_ucr_reverse]
  · refine (RepAt.nil (Θ := Θ) (R := R) tq).congr (fun b => ?_)
    rw [hY0 rfl, hZ0 rfl, rot_zero, rot_zero, Mat2.one_mul']
  · refine (ucr_mapWires_last (R := R) half negl hhalf hadd hnegl hvZ tq (cwOf ctrl) ctrl.length
      hcw za).2.congr (fun b => ?_)
    rw [hY0 rfl, rot_zero, Mat2.mul_one']; rfl
  · refine (ucr_mapWires_last (R := R) half negl hhalf hadd hnegl hvY tq (cwOf ctrl) ctrl.length
      hcw ya).1.congr (fun b => ?_)
    rw [hZ0 rfl, rot_zero, Mat2.one_mul']; rfl
  · refine ((ucr_mapWires_inv (R := R) half negl hhalf hadd hnegl hvY tq (cwOf ctrl) ctrl.length
      hcw ya).1.append (ucr_mapWires_inv (R := R) half negl hhalf hadd hnegl hvZ tq (cwOf ctrl)
      ctrl.length hcw za).2).congr (fun b => ?_)
    show _ * EkW Ent.CX (cwOf ctrl) ctrl.length b * (EkW Ent.CX (cwOf ctrl) ctrl.length b * _) = _
    rw [Mat2.mul_assoc', EkW_sq_assoc]; rfl

end inv

/-! ### `levelMux` -/

section level
variable {Θ : Type}

/-- `angle_y` of the `i`-th target (`o.zero` beyond the list, like `ys.getD i o.zero`). -/
def yOf (o : TOps Θ) (targets : List (BT (QV Θ))) (i : Nat) : Θ :=
  ((targets.getD i .nil).valD ⟨o.zero, o.zero, none⟩).y

/-- `angle_z` of the `i`-th target. -/
def zOf (o : TOps Θ) (targets : List (BT (QV Θ))) (i : Nat) : Θ :=
  ((targets.getD i .nil).valD ⟨o.zero, o.zero, none⟩).z

theorem getD_map_valD {β : Type} (o : TOps Θ) (p : QV Θ → β) (targets : List (BT (QV Θ)))
    (i : Nat) :
    (targets.map fun t => p (t.valD ⟨o.zero, o.zero, none⟩)).getD i (p ⟨o.zero, o.zero, none⟩)
      = p ((targets.getD i .nil).valD ⟨o.zero, o.zero, none⟩) := by
  simp only [List.getD_eq_getElem?_getD, List.getElem?_map]
  cases targets[i]? <;> rfl

theorem levelMux_cons (o : TOps Θ) (ctrl : List Nat) (t0 : BT (QV Θ)) (rest : List (BT (QV Θ))) :
    levelMux o ctrl (t0 :: rest) =
      (if ((t0 :: rest).map fun t => (t.valD ⟨o.zero, o.zero, none⟩).y).any o.neZero then
        place (ucr o.aops .Y .CX (Nat.log2 (t0 :: rest).length)
          (fun i => ((t0 :: rest).map fun t => (t.valD ⟨o.zero, o.zero, none⟩).y).getD i o.zero)
          (!((t0 :: rest).map fun t => (t.valD ⟨o.zero, o.zero, none⟩).z).any o.neZero))
          (wire (t0.valD ⟨o.zero, o.zero, none⟩).q :: ctrl.reverse) else [])
      ++ (if ((t0 :: rest).map fun t => (t.valD ⟨o.zero, o.zero, none⟩).z).any o.neZero then
        place (ucr o.aops .Z .CX (Nat.log2 (t0 :: rest).length)
          (fun i => ((t0 :: rest).map fun t => (t.valD ⟨o.zero, o.zero, none⟩).z).getD i o.zero)
          (!((t0 :: rest).map fun t => (t.valD ⟨o.zero, o.zero, none⟩).y).any o.neZero)).reverse
          (wire (t0.valD ⟨o.zero, o.zero, none⟩).q :: ctrl.reverse) else []) := rfl

theorem getD_zero_of_any_false [Zero Θ] (o : TOps Θ)
    (hnz : ∀ x, o.neZero x = false → x = 0) (hzero : o.zero = 0) (l : List Θ)
    (h : l.any o.neZero = false) (i : Nat) : l.getD i o.zero = 0 := by
  rw [List.getD_eq_getElem?_getD]
  by_cases hi : i < l.length
  · rw [List.getElem?_eq_getElem hi, Option.getD_some]
    have := List.any_eq_false.1 h _ (List.getElem_mem hi)
    exact hnz _ (by simpa using this)
  · rw [List.getElem?_eq_none (by omega)]
    exact hzero

end level

section final
variable {Θ R : Type} [AddCommGroup Θ] [CommRing R] [RotSem Θ R] [RotLaws Θ R]

/-- Semantics of `levelMux`: on target wire `tq` the operator `RZ(z_i)·RY(y_i)` where `i` is the
number read on the control wires `ctrl` (first control = most significant bit, see
`idx_eq_idxMsb`) and `y_i`, `z_i` are the angles of the `i`-th target node. -/
theorem levelMux_rep (o : TOps Θ) (half : Θ → Θ) (negl : Θ → Bool)
    (haops : o.aops = stdOps half negl)
    (hhalf : ∀ a, half a + half a = a) (hadd : ∀ a b, half (a + b) = half a + half b)
    (hnegl : ∀ a, negl a = true → a = 0)
    (hnz : ∀ x, o.neZero x = false → x = 0) (hzero : o.zero = 0)
    (tq : Nat) (ctrl : List Nat) (hctrl : ∀ c ∈ ctrl, c ≠ tq)
    (t0 : BT (QV Θ)) (rest : List (BT (QV Θ)))
    (ht0 : wire (t0.valD ⟨o.zero, o.zero, none⟩).q = tq)
    (hlen : (t0 :: rest).length = 2 ^ ctrl.length) :
    RepAt tq (levelMux o ctrl (t0 :: rest))
      (fun b => (rotMat Axis.Z (zOf o (t0 :: rest) (idxW ctrl b))
        * rotMat Axis.Y (yOf o (t0 :: rest) (idxW ctrl b)) : Mat2 R)) := by
  have hk : Nat.log2 (t0 :: rest).length = ctrl.length := by rw [hlen, Nat.log2_two_pow]
  have hys : ∀ i, ((t0 :: rest).map fun t => (t.valD ⟨o.zero, o.zero, none⟩).y).getD i o.zero
      = yOf o (t0 :: rest) i := fun i => getD_map_valD o (fun v => v.y) (t0 :: rest) i
  have hzs : ∀ i, ((t0 :: rest).map fun t => (t.valD ⟨o.zero, o.zero, none⟩).z).getD i o.zero
      = zOf o (t0 :: rest) i := fun i => getD_map_valD o (fun v => v.z) (t0 :: rest) i
  rw [levelMux_cons, hk, ht0, haops]
  refine (mux_pair_rep (R := R) half negl hhalf hadd hnegl tq ctrl hctrl _ _ _ _
    (fun h i => getD_zero_of_any_false o hnz hzero _ h i)
    (fun h i => getD_zero_of_any_false o hnz hzero _ h i)).congr (fun b => ?_)
  show rotMat Axis.Z (List.getD _ _ _) * rotMat Axis.Y (List.getD _ _ _) = _
  rw [hys, hzs]

end final

#print axioms ucr_mapWires_inv
#print axioms levelMux_rep

end Qclib
