import QclibModel.Model.Plesch
import QclibModel.Proofs.SchmidtRank
/-
  C01 (low-rank assembly): the decision logic of `LowRankInitialize._encode` (T1) and the shape of
  the plan for rank 1 / rank ≥ 2 (T2).  Pure integer logic, every size.
-/
namespace Qclib.Plesch
open Qclib.Schmidt

/-! ### T1: `_encode` dispatch -/

/-- **`_encode` dispatch.**  For all `rows`, `cols` exactly one of the four guards describes the
arm that is taken (the guards are tested in the order `cols = 1`, `rows // 2 = cols`,
`rows > cols`, else). -/
theorem encode_dispatch (rows cols : Nat) :
    (encodeBranch rows cols = .sp ↔ cols = 1) ∧
    (encodeBranch rows cols = .isoCsd ↔ cols ≠ 1 ∧ rows / 2 = cols) ∧
    (encodeBranch rows cols = .iso ↔ cols ≠ 1 ∧ rows / 2 ≠ cols ∧ cols < rows) ∧
    (encodeBranch rows cols = .unitary ↔ cols ≠ 1 ∧ rows / 2 ≠ cols ∧ rows ≤ cols) := by
  unfold encodeBranch
  by_cases h1 : cols = 1
  · simp only [h1, if_true]
    simp
  · by_cases h2 : rows / 2 = cols
    · simp [h1, h2]
    · by_cases h3 : rows > cols
      · simp only [h1, h2, h3, if_false, if_true]
        refine ⟨by simp, by simp, by simp; try omega, by simp; try omega⟩
      · simp only [h1, h2, h3, if_false]
        refine ⟨by simp, by simp, by simp; try omega, by simp; try omega⟩

example : encodeBranch 8 1 = .sp ∧ encodeBranch 8 4 = .isoCsd ∧ encodeBranch 8 2 = .iso ∧
    encodeBranch 8 8 = .unitary := by decide

/-- The arms are mutually exclusive and exhaustive (a function), stated explicitly. -/
theorem encode_dispatch_total (rows cols : Nat) :
    encodeBranch rows cols = .sp ∨ encodeBranch rows cols = .isoCsd ∨
    encodeBranch rows cols = .iso ∨ encodeBranch rows cols = .unitary := by
  cases encodeBranch rows cols <;> simp

private theorem two_pow_eq_one {c : Nat} : 2 ^ c = 1 ↔ c = 0 := by
  constructor
  · intro h
    cases c with
    | zero => rfl
    | succ c => have : 0 < 2 ^ c := Nat.pos_of_ne_zero (by simp)
                rw [Nat.pow_succ] at h; omega
  · rintro rfl; rfl

private theorem half_pow_eq {a c : Nat} : 2 ^ a / 2 = 2 ^ c ↔ a = c + 1 := by
  constructor
  · intro h
    cases a with
    | zero => have : 0 < 2 ^ c := Nat.pos_of_ne_zero (by simp)
              simp at h; omega
    | succ a =>
      rw [Nat.pow_succ, Nat.mul_div_cancel _ (by decide : 0 < 2)] at h
      have := (Nat.pow_right_inj (by decide : 1 < 2)).mp h
      omega
  · rintro rfl
    rw [Nat.pow_succ, Nat.mul_div_cancel _ (by decide : 0 < 2)]

/-- **`_encode` dispatch on the shapes that occur** (`rows = 2^a`, `cols = 2^c`, `c ≤ a`: a column
block of a unitary on `a` qubits): state preparation iff one column; the csd isometry iff exactly
half the columns (`a = c+1`, `c ≥ 1`); the general isometry iff `a ≥ c+2`; the unitary iff square. -/
theorem encode_dispatch_pow2 (a c : Nat) (hca : c ≤ a) :
    (encodeBranch (2 ^ a) (2 ^ c) = .sp ↔ c = 0) ∧
    (encodeBranch (2 ^ a) (2 ^ c) = .isoCsd ↔ 1 ≤ c ∧ a = c + 1) ∧
    (encodeBranch (2 ^ a) (2 ^ c) = .iso ↔ 1 ≤ c ∧ c + 2 ≤ a) ∧
    (encodeBranch (2 ^ a) (2 ^ c) = .unitary ↔ 1 ≤ c ∧ a = c) := by
  obtain ⟨h1, h2, h3, h4⟩ := encode_dispatch (2 ^ a) (2 ^ c)
  have hlt : 2 ^ c < 2 ^ a ↔ c < a := Nat.pow_lt_pow_iff_right (by decide)
  have hle : 2 ^ a ≤ 2 ^ c ↔ a ≤ c := Nat.pow_le_pow_iff_right (by decide)
  rw [h1, h2, h3, h4]
  simp only [two_pow_eq_one, half_pow_eq, hlt, hle, ne_eq]
  clear h1 h2 h3 h4 hlt hle
  refine ⟨trivial, ?_, ?_, ?_⟩ <;> constructor <;> intro h <;> omega

example : encodeBranch (2 ^ 3) (2 ^ 1) = .iso := by decide

/-- `Schmidt.encKind` (the string the C07 plan records) is `branchName ∘ encodeBranch`. -/
theorem encKind_eq_branchName (rows cols : Nat) (iso uni : String) :
    encKind rows cols iso uni = branchName (encodeBranch rows cols) iso uni := by
  unfold encKind encodeBranch
  split
  · rfl
  · split
    · rfl
    · split <;> rfl

/-! ### T2: the plan for rank 1 and for rank ≥ 2 -/

theorem ceilLog2_clp2 (m : Nat) : ceilLog2 (clp2 m) = ceilLog2 m := by
  have h := clp2_pow2 (ceilLog2 m)
  unfold clp2 at h ⊢
  exact (Nat.pow_right_inj (by decide : 1 < 2)).mp h

/-- What `lowRankPlan` returns, field by field. -/
theorem lowRankPlan_some {n : Nat} {P : List Nat} {lr : Int} {eff : Nat} {iso uni : String}
    {plan : Plan} (h : lowRankPlan n P lr eff iso uni = some plan) :
    rankRule lr eff = some plan.rank ∧ plan.rank = 2 ^ plan.ebits ∧
    plan.ebits = toQubits plan.rank ∧
    plan.regA = (isort (fun a b => decide (a ≤ b)) P).reverse ∧
    plan.regB = (restAxes n (isort (fun a b => decide (a ≤ b)) P)).reverse ∧
    plan.regSv = plan.regB.take plan.ebits ∧
    plan.cxs = (List.range plan.ebits).map (fun j => (plan.regB.getD j 0, plan.regA.getD j 0)) ∧
    plan.encSv = (if plan.ebits > 0 then some (encKind plan.rank 1 iso uni) else none) ∧
    plan.encU = encKind (2 ^ plan.regB.length) plan.rank iso uni ∧
    plan.encV = encKind (2 ^ plan.regA.length) plan.rank iso uni := by
  unfold lowRankPlan at h
  split at h
  · cases h
  · rename_i rank hr
    cases h
    refine ⟨hr, ?_, rfl, rfl, rfl, rfl, rfl, rfl, rfl, rfl⟩
    obtain ⟨_, hr2⟩ := rankRule_some hr
    simp only [toQubits]
    rw [hr2, ceilLog2_clp2]
    rfl

/-- **Rank 1.**  `e_bits = 0`: no singular-value block, no CNOT, and `U`, `V.T` have a single
column, so both `_encode` calls are (independent) nested state preparations. -/
theorem rank1 {n : Nat} {P : List Nat} {lr : Int} {eff : Nat} {iso uni : String} {plan : Plan}
    (h : lowRankPlan n P lr eff iso uni = some plan) (h1 : plan.rank = 1) :
    plan.ebits = 0 ∧ plan.cxs = [] ∧ plan.encSv = none ∧ plan.encU = "sp" ∧ plan.encV = "sp" ∧
    plan.regSv = [] := by
  obtain ⟨_, _, he, _, _, hsv, hcx, hesv, heu, hev⟩ := lowRankPlan_some h
  have he0 : plan.ebits = 0 := by rw [he, h1]; rfl
  refine ⟨he0, ?_, ?_, ?_, ?_, ?_⟩
  · rw [hcx, he0]; rfl
  · rw [hesv, he0]; rfl
  · rw [heu, h1]; simp [encKind]
  · rw [hev, h1]; simp [encKind]
  · rw [hsv, he0]; rfl

/-- **Rank ≥ 2** (a power of two): at least one e-bit, one CNOT per e-bit, and the singular values
(`rank × 1`) go to a nested state preparation. -/
theorem rank_ge2 {n : Nat} {P : List Nat} {lr : Int} {eff : Nat} {iso uni : String} {plan : Plan}
    (h : lowRankPlan n P lr eff iso uni = some plan) (h2 : 2 ≤ plan.rank) :
    1 ≤ plan.ebits ∧ plan.cxs.length = plan.ebits ∧ plan.encSv = some "sp" ∧
    plan.rank = 2 ^ plan.ebits := by
  obtain ⟨_, hr, _, _, _, _, hcx, hesv, _, _⟩ := lowRankPlan_some h
  have he1 : 1 ≤ plan.ebits := by
    cases hz : plan.ebits with
    | zero => rw [hz] at hr; simp at hr; omega
    | succ k => omega
  refine ⟨he1, ?_, ?_, hr⟩
  · rw [hcx]; simp
  · rw [hesv, if_pos (by omega)]; simp [encKind]

example : ∃ plan, lowRankPlan 3 [0] 1 2 "ccd" "qsd" = some plan ∧ plan.rank = 1 :=
  ⟨_, rfl, by decide⟩
example : ∃ plan, lowRankPlan 3 [0] 0 2 "ccd" "qsd" = some plan ∧ 2 ≤ plan.rank :=
  ⟨_, rfl, by decide⟩

/-- `n < 2`: the whole gate is `TopDownInitialize(params).definition`. -/
theorem lowRankTop_iff (n : Nat) : lowRankTop n = true ↔ n < 2 := by simp [lowRankTop]

end Qclib.Plesch
