import QclibModel.Proofs.Mcu2OpLadder
import QclibModel.Proofs.McxCtrl
/-
  C04, part B — from basis inputs of the controls to every state (linearity of the semantics),
  the `ctrl_state` X layers, and the operator theorem for `Ldmcu`:

    `⟦ldmcu k cs⟧ = C^k(U)` with the controls reading `cs`,   every `k ≥ 1`, every state.
-/
namespace Qclib.Mcu2

variable {R : Type} [CommRing R]

/-! ### Additivity of the semantics -/

/-- Pointwise sum of two amplitude functions. -/
def sadd (ψ φ : State R) : State R := fun b => ψ b + φ b

theorem applyMcu_sadd (cs : List (Nat × Bool)) (m : Mat2 R) (t : Nat) (ψ φ : State R) :
    applyMcu cs m t (sadd ψ φ) = sadd (applyMcu cs m t ψ) (applyMcu cs m t φ) := by
  funext b
  simp only [applyMcu, sadd]
  split
  · split <;> ring
  · rfl

/-- The gates of the skeleton that are multi-controlled one-qubit gates (everything but the
primitive gates of the shared alphabet, which the `Ldmcu` ladder does not contain). -/
def noPrim {Θ : Type} : LG Θ → Bool
  | .prim _ => false
  | _ => true

section add
variable {Θ : Type} [RotSem Θ R] (Ur Rx : ℚ → Mat2 R)

theorem denoteLG_sadd (g : LG Θ) (hg : noPrim g = true) (ψ φ : State R) :
    denoteLG Ur Rx g (sadd ψ φ) = sadd (denoteLG Ur Rx g ψ) (denoteLG Ur Rx g φ) := by
  cases g with
  | prim g => exact absurd hg (by simp [noPrim])
  | x q => exact applyMcu_sadd _ _ _ _ _
  | root t p s => exact applyMcu_sadd _ _ _ _ _
  | croot c t cv p s => exact applyMcu_sadd _ _ _ _ _
  | crx c t p s => exact applyMcu_sadd _ _ _ _ _
  | mtmcsu2 _ _ _ => rfl
  | call _ _ _ _ _ _ => rfl

theorem semLG_sadd (gs : List (LG Θ)) (hg : ∀ g ∈ gs, noPrim g = true) (ψ φ : State R) :
    semLG Ur Rx gs (sadd ψ φ) = sadd (semLG Ur Rx gs ψ) (semLG Ur Rx gs φ) := by
  induction gs generalizing ψ φ with
  | nil => rfl
  | cons g gs ih =>
    rw [semLG_cons, semLG_cons, semLG_cons, denoteLG_sadd Ur Rx g (hg g List.mem_cons_self)]
    exact ih (fun g' hg' => hg g' (List.mem_cons_of_mem _ hg')) _ _

theorem ladder_noPrim (k : Nat) : ∀ g ∈ (ladder k : List (LG Θ)), noPrim g = true := by
  intro g hg
  simp only [ladder, c1c2, List.mem_append, List.mem_map] at hg
  rcases hg with ((⟨pr, _, rfl⟩ | ⟨pr, _, rfl⟩) | ⟨pr, _, rfl⟩) | ⟨pr, _, rfl⟩ <;>
    (split <;> rfl)

end add

/-! ### From basis inputs to all states -/

/-- Wires `j … k-1` of `ψ` are in the basis state `x`. -/
def SuppFrom (j k : Nat) (x : Nat → Bool) (ψ : State R) : Prop :=
  ∀ c, j ≤ c → c < k → SuppAt c (x c) ψ

/-- The part of `ψ` with wire `j` reading `v`. -/
def slice (j : Nat) (v : Bool) (ψ : State R) : State R := fun b => if b j = v then ψ b else 0

theorem slice_sadd (j : Nat) (ψ : State R) : sadd (slice j false ψ) (slice j true ψ) = ψ := by
  funext b
  simp only [sadd, slice]
  cases b j <;> simp

/-- **Two additive operators that agree on every state whose `k` control wires are in a basis
state agree on all states.** -/
theorem ext_of_basis (k : Nat) (T1 T2 : State R → State R)
    (h1 : ∀ ψ φ, T1 (sadd ψ φ) = sadd (T1 ψ) (T1 φ))
    (h2 : ∀ ψ φ, T2 (sadd ψ φ) = sadd (T2 ψ) (T2 φ))
    (hb : ∀ x ψ, CtrlBasis k x ψ → T1 ψ = T2 ψ) (ψ : State R) : T1 ψ = T2 ψ := by
  have key : ∀ j, j ≤ k → ∀ x ψ, SuppFrom j k x ψ → T1 ψ = T2 ψ := by
    intro j
    induction j with
    | zero =>
      intro _ x ψ hs
      exact hb x ψ (fun c hc => hs c (Nat.zero_le c) hc)
    | succ j ih =>
      intro hj x ψ hs
      have hsl : ∀ v, SuppFrom j k (Function.update x j v) (slice j v ψ) := by
        intro v c hc1 hc2 b hbc
        by_cases hcj : c = j
        · subst hcj
          rw [Function.update_self] at hbc
          simp [slice, hbc]
        · rw [Function.update_of_ne hcj] at hbc
          have : ψ b = 0 := hs c (by omega) hc2 b hbc
          simp [slice, this]
      have e0 := ih (by omega) _ _ (hsl false)
      have e1 := ih (by omega) _ _ (hsl true)
      rw [← slice_sadd j ψ, h1, h2, e0, e1]
  exact key k (Nat.le_refl k) (fun _ => true) ψ (fun c hc1 hc2 => absurd hc1 (by omega))

/-! ### The ideal gate on a basis input of the controls -/

theorem ctrlOk_patLits_none (k : Nat) (b : Bits) :
    ctrlOk (patLits k (fun i => i) none) b = true ↔ ∀ i, i < k → b i = true := by
  simp [ctrlOk, patLits, csBit]

theorem mcu_on_basis (k : Nat) (x : Nat → Bool) (ψ : State R) (hs : CtrlBasis k x ψ)
    (U : Mat2 R) :
    applyMcu (patLits k (fun i => i) none) U k ψ = if allBelow x k then g1 U k ψ else ψ := by
  funext b
  have hset : ∀ (w : Bool) (i : Nat), i < k → (setBit b k w) i = b i :=
    fun w i hi => setBit_ne b w (by omega)
  by_cases hall : allBelow x k = true
  · rw [if_pos hall]
    have hx := (allBelow_iff x k).mp hall
    by_cases hc : ctrlOk (patLits k (fun i => i) none) b = true
    · rw [g1_apply]
      simp only [applyMcu, hc, if_true]
    · -- some control of `b` reads 0 while `x` is all ones: every amplitude involved vanishes
      have hc' : ctrlOk (patLits k (fun i => i) none) b = false := by simpa using hc
      have : ¬ ∀ i, i < k → b i = true := fun h => hc ((ctrlOk_patLits_none k b).mpr h)
      obtain ⟨i, hi⟩ := Classical.not_forall.mp this
      obtain ⟨hik, hbi⟩ := Classical.not_imp.mp hi
      have h0 : ∀ w, ψ (setBit b k w) = 0 := fun w =>
        hs i hik _ (by rw [hset w i hik, hx i hik]; exact hbi)
      have hb0 : ψ b = 0 := hs i hik _ (by rw [hx i hik]; exact hbi)
      rw [g1_apply]
      simp [applyMcu, hc', h0, hb0]
  · rw [if_neg hall]
    by_cases hc : ctrlOk (patLits k (fun i => i) none) b = true
    · -- `b` is all ones but `x` is not
      have hb1 := (ctrlOk_patLits_none k b).mp hc
      have : ¬ ∀ i, i < k → x i = true := fun h => hall ((allBelow_iff x k).mpr h)
      obtain ⟨i, hi⟩ := Classical.not_forall.mp this
      obtain ⟨hik, hxi⟩ := Classical.not_imp.mp hi
      have hne : b i ≠ x i := by rw [hb1 i hik]; exact fun e => hxi e.symm
      have h0 : ∀ w, ψ (setBit b k w) = 0 := fun w =>
        hs i hik _ (by rw [hset w i hik]; exact hne)
      have hb0 : ψ b = 0 := hs i hik _ hne
      simp [applyMcu, hc, h0, hb0]
    · have hc' : ctrlOk (patLits k (fun i => i) none) b = false := by simpa using hc
      simp [applyMcu, hc']

/-! ### The ladder on every state -/

section full
variable {Θ : Type} [RotSem Θ R] {Ur Rx : ℚ → Mat2 R}
variable (hU : OneParam Ur) (hR : OneParam Rx) (hH : HalfTurn Rx)
include hU hR hH

/-- **The four sweeps of `Ldmcu` denote the multi-controlled `U`** (controls all ones), for every
`k ≥ 1` and every state `ψ` (superposed controls, target and spectators). -/
theorem ladder_all (k : Nat) (hk : 1 ≤ k) (ψ : State R) :
    semLG Ur Rx (ladder k : List (LG Θ)) ψ
      = applyMcu (patLits k (fun i => i) none) (Ur 1) k ψ := by
  refine ext_of_basis k _ _ (fun ψ φ => semLG_sadd Ur Rx _ (ladder_noPrim k) ψ φ)
    (fun ψ φ => applyMcu_sadd _ _ _ ψ φ) ?_ ψ
  intro x ψ hs
  rw [ladder_basis hU hR hH k hk x ψ hs, mcu_on_basis k x ψ hs]
  unfold andQ
  split
  · rfl
  · rw [hU.zero, g1_one]

omit hU hR hH in
theorem semLG_xs (l : List Nat) (ψ : State R) :
    semLG Ur Rx (l.map (fun w => (LG.x w : LG Θ))) ψ = fun b => ψ (flipAll l b) := by
  induction l generalizing ψ with
  | nil => rfl
  | cons w l ih =>
    rw [List.map_cons, semLG_cons, ih]
    funext b
    show denote (G.x w : G Θ) ψ (flipAll l b) = _
    rw [denote_x, flipAll_cons, flipAll_flipBit]

omit hU hR hH in
theorem ctrlXsL_eq (k : Nat) (cs : Option (List Bool)) (xs : List (LG Θ))
    (h : ctrlXsL k cs = some xs) :
    xs = (csFlips (fun i => i) cs).map (fun w => (LG.x w : LG Θ))
      ∧ ∀ i, csBit cs i = false → i < k := by
  simp only [ctrlXsL, Option.map_eq_some_iff] at h
  obtain ⟨xs0, h0, rfl⟩ := h
  obtain ⟨rfl, hlt⟩ := ctrlXs_eq k (fun i => i) cs xs0 h0
  refine ⟨?_, hlt⟩
  induction csFlips (fun i => i) cs with
  | nil => rfl
  | cons w l ih => simp only [List.map_cons, List.filterMap_cons, ih]

/-- **`Ldmcu(U, k, ctrl_state).definition` denotes the multi-controlled `U`** — every `k ≥ 1`,
every accepted pattern, every state. -/
theorem ldmcu_sem (k : Nat) (hk : 1 ≤ k) (cs : Option (List Bool)) (gs : List (LG Θ))
    (h : ldmcu k cs = some gs) (ψ : State R) :
    semLG Ur Rx gs ψ = applyMcu (patLits k (fun i => i) cs) (Ur 1) k ψ := by
  have hk0 : ¬ k = 0 := by omega
  simp only [ldmcu, if_neg hk0] at h
  split at h
  · exact absurd h (by simp)
  · rename_i xs hxs
    simp only [Option.some.injEq] at h
    subst h
    obtain ⟨rfl, hlt⟩ := ctrlXsL_eq k cs xs hxs
    have hid : ∀ i j, i < k → j < k → (fun i : Nat => i) i = (fun i : Nat => i) j → i = j :=
      fun i j _ _ e => e
    have hnd := csFlips_nodup k (fun i => i) cs hlt hid
    have hkl : k ∉ csFlips (fun i => i) cs := by
      rw [csFlips_mem k (fun i => i) cs k hlt]
      rintro ⟨i, hi, _, e⟩
      have : i = k := e
      omega
    rw [semLG_append, semLG_append, semLG_xs, semLG_xs, ladder_all hU hR hH k hk]
    funext b
    have hc : ctrlOk (patLits k (fun i => i) none) (flipAll (csFlips (fun i => i) cs) b)
        = ctrlOk (patLits k (fun i => i) cs) b := by
      have e1 := all1_fl k (fun i => i) cs hlt hid b k (Nat.le_refl k)
      have e2 : ∀ b' : Bits, all1 (fun i => i) k b' = ctrlOk (patLits k (fun i => i) none) b' := by
        intro b'
        have := all1_fl k (fun i => i) none (fun i hi => by simp [csBit] at hi) hid b' k
          (Nat.le_refl k)
        simpa only [csFlips, flipAll_nil] using this
      rw [← e2]
      exact e1
    have hbk : (flipAll (csFlips (fun i => i) cs) b) k = b k := flipAll_get_not_mem _ _ _ hkl
    have hset : ∀ w, flipAll (csFlips (fun i => i) cs)
        (setBit (flipAll (csFlips (fun i => i) cs) b) k w) = setBit b k w := by
      intro w
      funext q
      rw [flipAll_get _ hnd]
      by_cases hq : q = k
      · subst hq
        simp [hkl, setBit_eq]
      · rw [setBit_ne _ w hq, setBit_ne _ w hq, flipAll_get _ hnd]
        by_cases hm : q ∈ csFlips (fun i => i) cs <;> simp [hm]
    simp only [applyMcu, hc, hbk, hset, flipAll_invol]

end full

/-- The model accepts every pattern no longer than the control register (all `2^k` patterns of
length `k` included) and `None`. -/
theorem ldmcu_defined {Θ : Type} (k : Nat) (hk : 1 ≤ k) (cs : Option (List Bool))
    (hp : ∀ p, cs = some p → p.length ≤ k) : ∃ gs : List (LG Θ), ldmcu k cs = some gs := by
  have hk0 : ¬ k = 0 := by omega
  have hx : ∃ xs : Circ Θ, ctrlXs k (fun i => i) cs = some xs := by
    cases cs with
    | none => exact ⟨[], rfl⟩
    | some p =>
      simp only [ctrlXs]
      rw [if_pos]
      · exact ⟨_, rfl⟩
      · rw [List.all_eq_true]
        intro i hi
        have := List.mem_range.mp hi
        rw [List.length_reverse] at this
        have := hp p rfl
        simp only [Bool.or_eq_true, decide_eq_true_eq]
        right
        omega
  obtain ⟨xs, hxs⟩ := hx
  simp only [ldmcu, if_neg hk0, ctrlXsL, hxs, Option.map_some]
  exact ⟨_, rfl⟩

end Qclib.Mcu2
