import QclibModel.Proofs.McsuEigAlg
/-
  C04 (part A), the eigenbasis path of `Ldmcsu._define` — circuit level.

  `ldmcsu_eig_sem`: the gate list the model emits in the branch "both diagonals non-real",
  interpreted with the ideal MCX for the exact `McxVchainDirty` placements (`IdealMv`) and with the
  *bracket* property `MvBracket` for the `action_only` pair (the chain that leaves its borrowed
  wires dirty and the `.inverse()` copy that cleans them), denotes the multi-controlled gate whose
  matrix is the both-fire product `eigBoth`, on every state.

  `ldmcsu_eig_spec`: real instance (`Real.sqrt`, amplitudes in `ℂ`): with the `np.linalg.eig`
  specification (`V = [[a, b], [-conj b, a]]`, `a` real, unit columns, `U = V·diag(e₁,e₂)·V†`,
  `e₁ = conj e₂` on the unit circle) and the fourth-root specification, the list denotes "apply `U`
  to the target iff the controls read the pattern".
-/
set_option linter.unusedSimpArgs false
set_option linter.unusedSectionVars false
namespace Qclib.Mcsu

/-! ### The bracket hypothesis for the action-only V-chain pair -/

section bracket
variable {R : Type} [CommRing R]

/-- **Bracket hypothesis for the `McxVchainDirty(…, action_only=True)` pair**: around any one-qubit
gate on the target, the action-only chain and qiskit's `.inverse()` of it act like the pair of
ideal MCX gates (the dirt the first leaves on the borrowed wires is removed by the second). -/
def MvBracket (M : McxSem R) (k nt : Nat) (ws : List Nat) (cs : Option (List Bool))
    (l : List (Nat × Bool)) (t : Nat) : Prop :=
  ∀ (B : Mat2 R) (φ : State R),
    M.mv k nt ws cs true true (applyMcu [] B t (M.mv k nt ws cs true false φ))
      = applyMcu l Mat2.X t (applyMcu [] B t (applyMcu l Mat2.X t φ))

/-- What suffices for the bracket (and is what the action-only chain provides): the chain is the
ideal MCX followed by a "dirt" operator `D`, the inverse copy is `Dinv` followed by the ideal MCX,
`Dinv` undoes `D`, and `D` commutes with every one-qubit gate on the target. -/
theorem mvBracket_of_dirt (M : McxSem R) (k nt : Nat) (ws : List Nat) (cs : Option (List Bool))
    (l : List (Nat × Bool)) (t : Nat) (D Dinv : State R → State R)
    (h1 : ∀ φ, M.mv k nt ws cs true false φ = D (applyMcu l Mat2.X t φ))
    (h2 : ∀ φ, M.mv k nt ws cs true true φ = applyMcu l Mat2.X t (Dinv φ))
    (h3 : ∀ φ, Dinv (D φ) = φ)
    (h4 : ∀ (B : Mat2 R) φ, D (applyMcu [] B t φ) = applyMcu [] B t (D φ)) :
    MvBracket M k nt ws cs l t := by
  intro B φ
  rw [h1, h2, ← h4, h3]

/-- Two one-qubit gates on the same wire merge. -/
theorem un_merge (t : Nat) (B C : Mat2 R) (φ : State R) :
    applyMcu [] C t (applyMcu [] B t φ) = applyMcu [] (C * B) t φ := by
  simp only [applyMcu_eq_fam, mcuFam_nil]
  rw [applyFam_comp t _ _ (TFree_const t B)]

/-- The bracket around three successive one-qubit gates on the target. -/
theorem bracket3 (M : McxSem R) (k nt : Nat) (ws : List Nat) (cs : Option (List Bool))
    (l : List (Nat × Bool)) (t : Nat) (hB : MvBracket M k nt ws cs l t) (B1 B2 B3 : Mat2 R)
    (φ : State R) :
    M.mv k nt ws cs true true (applyMcu [] B3 t (applyMcu [] B2 t (applyMcu [] B1 t
        (M.mv k nt ws cs true false φ))))
      = applyMcu l Mat2.X t (applyMcu [] B3 t (applyMcu [] B2 t (applyMcu [] B1 t
          (applyMcu l Mat2.X t φ)))) := by
  rw [un_merge, un_merge, hB, ← un_merge, ← un_merge]

end bracket

/-! ### The eighteen-gate sequence with ideal MCX gates -/

section seq
variable {R : Type} [CommRing R]

/-- Time order `H, S, MCX₂, S', Hq, A, MCX₂, A', MCX₁, A, MCX₂, A', MCX₁, Hq, S, MCX₂, S', H`
(innermost = first). -/
def eigSeq (l1 l2 : List (Nat × Bool)) (t : Nat) (H S S' Hq A A' : Mat2 R) (ψ : State R) :
    State R :=
  applyMcu [] H t (applyMcu [] S' t (applyMcu l2 Mat2.X t (applyMcu [] S t (applyMcu [] Hq t
  (applyMcu l1 Mat2.X t
  (applyMcu [] A' t (applyMcu l2 Mat2.X t (applyMcu [] A t (applyMcu l1 Mat2.X t
  (applyMcu [] A' t (applyMcu l2 Mat2.X t (applyMcu [] A t
  (applyMcu [] Hq t (applyMcu [] S' t (applyMcu l2 Mat2.X t (applyMcu [] S t
  (applyMcu [] H t ψ)))))))))))))))))

theorem eigProd_fam (l1 l2 : List (Nat × Bool)) {H S S' Hq A A' : Mat2 R}
    (h : EigInv H S S' Hq A A') (b : Bits) :
    eigProd H S S' Hq A A' (mcuFam l1 Mat2.X b) (mcuFam l2 Mat2.X b)
      = mcuFam (l1 ++ l2) (eigBoth H S S' Hq A A') b := by
  simp only [mcuFam, ctrlOk_append]
  cases h1 : ctrlOk l1 b <;> cases h2 : ctrlOk l2 b <;> simp
  · exact eigProd_none h
  · exact eigProd_half2 h
  · exact eigProd_half1 h
  · rfl

/-- **The eigen path with ideal MCX gates.**  For literal lists `l1`, `l2` not mentioning the
target: the eighteen-gate sequence is the multi-controlled gate with literals `l1 ++ l2` and the
both-fire product as matrix — on every state. -/
theorem eig_seq (l1 l2 : List (Nat × Bool)) (t : Nat) {H S S' Hq A A' : Mat2 R}
    (h : EigInv H S S' Hq A A') (h1 : Avoids l1 t) (h2 : Avoids l2 t) (ψ : State R) :
    eigSeq l1 l2 t H S S' Hq A A' ψ = applyMcu (l1 ++ l2) (eigBoth H S S' Hq A A') t ψ := by
  have f1 := mcuFam_free l1 (Mat2.X : Mat2 R) t h1
  have f2 := mcuFam_free l2 (Mat2.X : Mat2 R) t h2
  have fH := TFree_const (R := R) t H
  have fS := TFree_const (R := R) t S
  have fS' := TFree_const (R := R) t S'
  have fq := TFree_const (R := R) t Hq
  have fA := TFree_const (R := R) t A
  have fA' := TFree_const (R := R) t A'
  unfold eigSeq
  simp only [applyMcu_eq_fam, mcuFam_nil]
  rw [applyFam_comp t _ _ fS', applyFam_comp t _ _ f2, applyFam_comp t _ _ fS,
    applyFam_comp t _ _ fq, applyFam_comp t _ _ f1, applyFam_comp t _ _ fA',
    applyFam_comp t _ _ f2, applyFam_comp t _ _ fA, applyFam_comp t _ _ f1,
    applyFam_comp t _ _ fA', applyFam_comp t _ _ f2, applyFam_comp t _ _ fA,
    applyFam_comp t _ _ fq, applyFam_comp t _ _ fS', applyFam_comp t _ _ f2,
    applyFam_comp t _ _ fS, applyFam_comp t _ _ fH]
  exact applyFam_congr t (fun b => eigProd_fam l1 l2 h b) ψ

end seq

/-! ### The model's gate list in the eigen branch -/

section model
variable {K : Type}

/-- `x_vecs`, `z_vecs` of `_define`. -/
def eigXZ (o : ROps K) (v : CMat K) : K × Cx K :=
  (o.neg v.b.re, ⟨v.d.re, o.sub v.d.im v.b.im⟩)

/-- `np.diag(eig_vals)`. -/
def eigD (o : ROps K) (e1 e2 : Cx K) : CMat K := ⟨e1, Cx.zero o, Cx.zero o, e2⟩

/-- `s_op` of the two `half_linear_depth_mcv` calls. -/
def eigS (o : ROps K) (v : CMat K) : CMat K := halfS o (eigXZ o v).1 (eigXZ o v).2

/-- `op_a` of the `linear_depth_mcv(np.diag(eig_vals), …)` call. -/
def eigA (o : ROps K) (e1 e2 : Cx K) : CMat K :=
  computeGateA o (getXZ o (eigD o e1 e2)).1 (getXZ o (eigD o e1 e2)).2

theorem eig_unGate_some (o : ROps K) (m : CMat K) (q : Nat) (g : SG K)
    (h : unGate o m q = some g) : g = SG.un m q := by
  unfold unGate at h
  split at h
  · exact (Option.some.inj h).symm
  · exact absurd h (by simp)

theorem halfLd_some (o : ROps K) (x : K) (z : Cx K) (cw : List Nat) (t : Nat)
    (cs : Option (List Bool)) (inv : Bool) (g : List (SG K))
    (h : halfLinearDepthMcv o x z cw t cs inv = some g) :
    g = if inv then
        [.h t, .un (halfS o x z) t, mcxHalf2 cw [t] cs true false, .un (adj o (halfS o x z)) t,
          .un (hEquiv o) t]
      else
        [mcxHalf1 cw [t] cs, .un (hEquiv o) t, .un (halfS o x z) t,
          mcxHalf2 cw [t] cs false false, .un (adj o (halfS o x z)) t, .h t] := by
  unfold halfLinearDepthMcv at h
  dsimp only at h
  split at h
  · rename_i gs gsi gh e1 e2 e3
    rw [eig_unGate_some o _ _ _ e1, eig_unGate_some o _ _ _ e2, eig_unGate_some o _ _ _ e3] at h
    cases inv
    · simp only [Bool.false_eq_true, if_false, Option.some.injEq] at h ⊢
      exact h.symm
    · simp only [if_true, Option.some.injEq] at h ⊢
      exact h.symm
  · exact absurd h (by simp)

theorem linLd_some_gso (o : ROps K) (u : CMat K) (cw : List Nat) (t : Nat)
    (cs : Option (List Bool)) (g : List (SG K))
    (h : linearDepthMcv o u cw t cs true = some g) :
    g = [.un (computeGateA o (getXZ o u).1 (getXZ o u).2) t, mcxHalf2 cw [t] cs true true,
          .un (adj o (computeGateA o (getXZ o u).1 (getXZ o u).2)) t, mcxHalf1 cw [t] cs,
          .un (computeGateA o (getXZ o u).1 (getXZ o u).2) t, mcxHalf2 cw [t] cs false false,
          .un (adj o (computeGateA o (getXZ o u).1 (getXZ o u).2)) t] := by
  unfold linearDepthMcv at h
  dsimp only at h
  split at h
  · rename_i ga gai e1 e2
    rw [eig_unGate_some o _ _ _ e1, eig_unGate_some o _ _ _ e2] at h
    simp only [if_true, List.nil_append, Option.some.injEq] at h
    exact h.symm
  · exact absurd h (by simp)

/-- In the eigen branch `ldmcsu` is the concatenation of the three parts. -/
theorem ldmcsu_eig_unfold (o : ROps K) (u : CMat K) (eig : Cx K × Cx K × CMat K) (cw : List Nat)
    (t : Nat) (cs : Option (List Bool)) (hk : 2 ≤ cw.length) (hm : mainReal o u = false)
    (hs : secondaryReal o u = false) (gs : List (SG K))
    (hg : ldmcsu o u eig cw t cs = some gs) :
    ∃ a b c, halfLinearDepthMcv o (eigXZ o eig.2.2).1 (eigXZ o eig.2.2).2 cw t cs true = some a
      ∧ linearDepthMcv o (eigD o eig.1 eig.2.1) cw t cs true = some b
      ∧ halfLinearDepthMcv o (eigXZ o eig.2.2).1 (eigXZ o eig.2.2).2 cw t cs false = some c
      ∧ gs = a ++ b ++ c := by
  match cw, hk with
  | c :: d :: r, _ =>
    simp only [ldmcsu, hm, hs, Bool.not_false, Bool.and_self, if_true] at hg
    split at hg
    · rename_i a b c' ea eb ec
      exact ⟨a, b, c', ea, eb, ec, (Option.some.inj hg).symm⟩
    · exact absurd hg (by simp)

end model

/-! ### The circuit theorem -/

section circ
variable {K R : Type} [CommRing R]

/-- The eigen path of the model, from what its three kinds of MCX placements denote: the exact
first-half chain `e1`, the exact second-half chain `e2`, the action-only pair `hB`. -/
theorem ldmcsu_eig_core (o : ROps K) (ι : CMat K → Mat2 R) (rh : R) (M : McxSem R)
    (u : CMat K) (eig : Cx K × Cx K × CMat K) (cw : List Nat) (t : Nat)
    (cs : Option (List Bool)) (gs : List (SG K)) (hk : 2 ≤ cw.length) (hn : (cw ++ [t]).Nodup)
    (hm : mainReal o u = false) (hs : secondaryReal o u = false)
    (hg : ldmcsu o u eig cw t cs = some gs)
    (e1 : ∀ φ, denoteSG ι rh M (mcxHalf1 cw [t] cs : SG K) φ
      = applyMcu (litsOf (ctl1 cw) (csK1 (cs.getD []) cw.length).reverse) Mat2.X t φ)
    (e2 : ∀ φ, denoteSG ι rh M (mcxHalf2 cw [t] cs false false : SG K) φ
      = applyMcu (litsOf (ctl2 cw) (csK2 (cs.getD []) cw.length).reverse) Mat2.X t φ)
    (hB : MvBracket M (k2 cw.length) 1 (wires2 cw [t]) (cs.map (csK2 · cw.length))
      (litsOf (ctl2 cw) (csK2 (cs.getD []) cw.length).reverse) t)
    (hI : EigInv (⟨rh, rh, rh, -rh⟩ : Mat2 R) (ι (eigS o eig.2.2)) (ι (adj o (eigS o eig.2.2)))
      (ι (hEquiv o)) (ι (eigA o eig.1 eig.2.1)) (ι (adj o (eigA o eig.1 eig.2.1))))
    (W : Mat2 R)
    (hW : eigBoth (⟨rh, rh, rh, -rh⟩ : Mat2 R) (ι (eigS o eig.2.2)) (ι (adj o (eigS o eig.2.2)))
      (ι (hEquiv o)) (ι (eigA o eig.1 eig.2.1)) (ι (adj o (eigA o eig.1 eig.2.1))) = W)
    (ψ : State R) :
    semSG ι rh M gs ψ = applyMcu (litsOf cw (cs.getD []).reverse) W t ψ := by
  have htc : t ∉ cw := by
    intro h
    have := List.nodup_append.mp hn
    exact this.2.2 t h t (by simp) rfl
  obtain ⟨a, b, c, ea, eb, ec, rfl⟩ := ldmcsu_eig_unfold o u eig cw t cs hk hm hs gs hg
  have ha := halfLd_some o _ _ cw t cs true a ea
  have hb := linLd_some_gso o _ cw t cs b eb
  have hc := halfLd_some o _ _ cw t cs false c ec
  simp only [if_true, Bool.false_eq_true, if_false] at ha hc
  subst ha hb hc
  have e3 : ∀ inv φ, denoteSG ι rh M (mcxHalf2 cw [t] cs true inv : SG K) φ
      = M.mv (k2 cw.length) 1 (wires2 cw [t]) (cs.map (csK2 · cw.length)) true inv φ :=
    fun _ _ => rfl
  simp only [semSG, List.foldl_append, List.foldl_cons, List.foldl_nil, e1, e2, e3]
  simp only [denoteSG]
  rw [bracket3 M _ _ _ _ _ t hB]
  have hseq := eig_seq (litsOf (ctl1 cw) (csK1 (cs.getD []) cw.length).reverse)
    (litsOf (ctl2 cw) (csK2 (cs.getD []) cw.length).reverse) t hI
    (litsOf_avoids _ _ t (fun h => htc (List.mem_of_mem_take h)))
    (litsOf_avoids _ _ t (fun h => htc (List.mem_of_mem_drop h))) ψ
  rw [pattern_split, hW] at hseq
  exact hseq

/-- **`Ldmcsu._define`, eigenbasis path (model) denotes the multi-controlled gate.**  For `k ≥ 2`
controls on pairwise different wires, a target outside them, any pattern: if the model emits a gate
list in the branch "both diagonals non-real", then — exact V-chains read as ideal MCX (`IdealMv`),
the action-only pair satisfying `MvBracket` on the second half's wire list — the list denotes
"`W` on the target iff the controls read the pattern" on every state, where `W` is the both-fire
product of the images of the model's matrices (`H`, `s_op`, its adjoint, `h_gate`, `op_a`, its
adjoint), assumed involutions / mutually inverse (`EigInv`; proved in the real instance). -/
theorem ldmcsu_eig_sem (o : ROps K) (ι : CMat K → Mat2 R) (rh : R) (M : McxSem R)
    (hM : IdealMv M) (u : CMat K) (eig : Cx K × Cx K × CMat K) (cw : List Nat) (t : Nat)
    (cs : Option (List Bool)) (gs : List (SG K)) (hk : 2 ≤ cw.length) (hn : (cw ++ [t]).Nodup)
    (hm : mainReal o u = false) (hs : secondaryReal o u = false)
    (hg : ldmcsu o u eig cw t cs = some gs)
    (hB : MvBracket M (k2 cw.length) 1 (wires2 cw [t]) (cs.map (csK2 · cw.length))
      (litsOf (ctl2 cw) (csK2 (cs.getD []) cw.length).reverse) t)
    (hI : EigInv (⟨rh, rh, rh, -rh⟩ : Mat2 R) (ι (eigS o eig.2.2)) (ι (adj o (eigS o eig.2.2)))
      (ι (hEquiv o)) (ι (eigA o eig.1 eig.2.1)) (ι (adj o (eigA o eig.1 eig.2.1))))
    (W : Mat2 R)
    (hW : eigBoth (⟨rh, rh, rh, -rh⟩ : Mat2 R) (ι (eigS o eig.2.2)) (ι (adj o (eigS o eig.2.2)))
      (ι (hEquiv o)) (ι (eigA o eig.1 eig.2.1)) (ι (adj o (eigA o eig.1 eig.2.1))) = W)
    (ψ : State R) :
    semSG ι rh M gs ψ = applyMcu (litsOf cw (cs.getD []).reverse) W t ψ :=
  ldmcsu_eig_core o ι rh M u eig cw t cs gs hk hn hm hs hg
    (fun φ => mcxHalf1_sem ι rh M hM cw t cs hk hn φ)
    (fun φ => mcxHalf2_sem ι rh M hM cw t cs false hk hn φ) hB hI W hW ψ

end circ

/-! ### The real instance -/

section real
open Complex

theorem eigS_real (r4 : ℝ → ℝ → ℝ × ℝ) (cosH sinH : ℝ → ℝ) (a br bi : ℝ) :
    eigS (realOps r4 cosH sinH) (su2Mat a 0 br bi)
      = halfS (realOps r4 cosH sinH) (-br) ⟨a, -bi⟩ := by
  simp [eigS, eigXZ, su2Mat, realOps]

theorem eigA_real (r4 : ℝ → ℝ → ℝ × ℝ) (cosH sinH : ℝ → ℝ) (e1 : Cx ℝ) (p q : ℝ) :
    eigA (realOps r4 cosH sinH) e1 ⟨p, q⟩ = computeGateA (realOps r4 cosH sinH) 0 ⟨p, q⟩ := by
  simp [eigA, eigD, getXZ, secondaryReal, Cx.zero, realOps]

/-- The eigenvector matrix of a matrix with a non-real secondary diagonal is not `-I`: with unit
columns and a real diagonal, `a > -1` (so `half_linear_depth_mcv` does not divide by zero). -/
theorem eig_a_pos (r4 : ℝ → ℝ → ℝ × ℝ) (cosH sinH : ℝ → ℝ) (u : CMat ℝ) (a br bi p q : ℝ)
    (hV : a ^ 2 + br ^ 2 + bi ^ 2 = 1)
    (hU : toMat u = toMat (su2Mat a 0 br bi) * ⟨⟨p, -q⟩, 0, 0, ⟨p, q⟩⟩
      * adjC (toMat (su2Mat a 0 br bi)))
    (hs : secondaryReal (realOps r4 cosH sinH) u = false) : 0 < a + 1 := by
  by_contra hneg
  have ha : a ≤ -1 := by linarith
  have h1 : 1 ≤ a ^ 2 := by nlinarith
  have hbr : br = 0 := by
    have : br ^ 2 = 0 := by nlinarith [sq_nonneg br, sq_nonneg bi]
    exact pow_eq_zero_iff (by norm_num) |>.mp this
  have hbi : bi = 0 := by
    have : bi ^ 2 = 0 := by nlinarith [sq_nonneg br, sq_nonneg bi]
    exact pow_eq_zero_iff (by norm_num) |>.mp this
  subst hbr hbi
  have hb := congrArg Mat2.b hU
  have hc := congrArg Mat2.c hU
  simp [toMat, toC, su2Mat, adjC, mat_mul_def, Mat2.mul, Complex.ext_iff] at hb hc
  have : secondaryReal (realOps r4 cosH sinH) u = true := by
    simp [secondaryReal, realOps, hb.2, hc.2]
  rw [this] at hs
  exact absurd hs (by simp)

/-- **`Ldmcsu(U, k, ctrl_state).definition`, eigenbasis path, real instance of the model**
(`Real.sqrt`, exact `isclose(·, 0)` tests, amplitudes in `ℂ`).  Hypotheses: the `np.linalg.eig`
specification — the matrix of eigenvectors is `V = [[a, b], [-conj b, a]]` with `a` real and
`a² + |b|² = 1`, the eigenvalues are `e₁ = p - iq`, `e₂ = p + iq` with `p² + q² = 1`, and
`U = V·diag(e₁, e₂)·V†` —, the fourth-root specification `r⁴ = e₂` for the root the `x = 0` branch
of `_compute_gate_a` takes, the ideal-MCX reading of the exact V-chains and the bracket property
of the action-only pair.  Conclusion: for `k ≥ 2` controls on pairwise different wires, every
pattern and every state, the emitted list denotes "apply `U` to the target iff control `cw[i]`
reads `ctrl_state[::-1][i]`". -/
theorem ldmcsu_eig_spec (r4 : ℝ → ℝ → ℝ × ℝ) (cosH sinH : ℝ → ℝ) (u : CMat ℝ)
    (a br bi p q : ℝ) (rh : ℂ) (hrh : 2 * (rh * rh) = 1) (M : McxSem ℂ) (hM : IdealMv M)
    (hV : a ^ 2 + br ^ 2 + bi ^ 2 = 1) (he : p ^ 2 + q ^ 2 = 1)
    (hU : toMat u = toMat (su2Mat a 0 br bi) * ⟨⟨p, -q⟩, 0, 0, ⟨p, q⟩⟩
      * adjC (toMat (su2Mat a 0 br bi)))
    (hr : (⟨(r4 p q).1, (r4 p q).2⟩ : ℂ) ^ 4 = ⟨p, q⟩)
    (cw : List Nat) (t : Nat) (cs : Option (List Bool)) (gs : List (SG ℝ))
    (hk : 2 ≤ cw.length) (hn : (cw ++ [t]).Nodup)
    (hm : mainReal (realOps r4 cosH sinH) u = false)
    (hs : secondaryReal (realOps r4 cosH sinH) u = false)
    (hg : ldmcsu (realOps r4 cosH sinH) u (⟨p, -q⟩, ⟨p, q⟩, su2Mat a 0 br bi) cw t cs = some gs)
    (hB : MvBracket M (k2 cw.length) 1 (wires2 cw [t]) (cs.map (csK2 · cw.length))
      (litsOf (ctl2 cw) (csK2 (cs.getD []) cw.length).reverse) t)
    (ψ : State ℂ) :
    semSG toMat rh M gs ψ = applyMcu (litsOf cw (cs.getD []).reverse) (toMat u) t ψ := by
  have hpos := eig_a_pos r4 cosH sinH u a br bi p q hV hU hs
  obtain ⟨hinv, hboth⟩ := eig_both_real r4 cosH sinH a br bi p q rh hrh hV hpos he hr
  have hI : EigInv (⟨rh, rh, rh, -rh⟩ : Mat2 ℂ)
      (toMat (eigS (realOps r4 cosH sinH) (su2Mat a 0 br bi)))
      (toMat (adj (realOps r4 cosH sinH) (eigS (realOps r4 cosH sinH) (su2Mat a 0 br bi))))
      (toMat (hEquiv (realOps r4 cosH sinH)))
      (toMat (eigA (realOps r4 cosH sinH) ⟨p, -q⟩ ⟨p, q⟩))
      (toMat (adj (realOps r4 cosH sinH) (eigA (realOps r4 cosH sinH) ⟨p, -q⟩ ⟨p, q⟩))) := by
    rw [eigS_real, eigA_real, toMat_adj, toMat_adj]
    exact hinv
  have hW : eigBoth (⟨rh, rh, rh, -rh⟩ : Mat2 ℂ)
      (toMat (eigS (realOps r4 cosH sinH) (su2Mat a 0 br bi)))
      (toMat (adj (realOps r4 cosH sinH) (eigS (realOps r4 cosH sinH) (su2Mat a 0 br bi))))
      (toMat (hEquiv (realOps r4 cosH sinH)))
      (toMat (eigA (realOps r4 cosH sinH) ⟨p, -q⟩ ⟨p, q⟩))
      (toMat (adj (realOps r4 cosH sinH) (eigA (realOps r4 cosH sinH) ⟨p, -q⟩ ⟨p, q⟩)))
      = toMat u := by
    rw [eigS_real, eigA_real, toMat_adj, toMat_adj, hU]
    exact hboth
  exact ldmcsu_eig_sem (realOps r4 cosH sinH) toMat rh M hM u _ cw t cs gs hk hn hm hs hg hB hI
    (toMat u) hW ψ

end real

end Qclib.Mcsu
