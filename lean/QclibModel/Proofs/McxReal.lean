import QclibModel.Proofs.McxToffoli
import QclibModel.Proofs.RotReal
/-
  The concrete instance of `Pi8`: angles `π/4`, `-π/4`, `0` over `ℝ → ℂ`
  (`cs θ = cos(θ/2)`, `sn θ = sin(θ/2)`), i.e. `c = cos(π/8)`, `s = sin(π/8)`.
-/
namespace Qclib
open Complex

/-- `theta = pi/4`, `-theta`, `0` as real numbers. -/
noncomputable def realAngles : McxAngles ℝ := ⟨Real.pi / 4, -(Real.pi / 4), 0⟩

theorem pi8_real : Pi8 ℂ realAngles where
  ex_z := by
    show Complex.exp ((((0 : ℝ) / 2 : ℝ) : ℂ) * Complex.I) = 1
    simp
  cs_nq := by
    show ((Real.cos (-(Real.pi / 4) / 2) : ℝ) : ℂ) = (Real.cos (Real.pi / 4 / 2) : ℂ)
    rw [neg_div, Real.cos_neg]
  sn_nq := by
    show ((Real.sin (-(Real.pi / 4) / 2) : ℝ) : ℂ) = -(Real.sin (Real.pi / 4 / 2) : ℂ)
    rw [neg_div, Real.sin_neg]; push_cast; ring
  sq := by
    show ((Real.cos (Real.pi / 4 / 2) : ℝ) : ℂ) * (Real.cos (Real.pi / 4 / 2) : ℂ)
      + (Real.sin (Real.pi / 4 / 2) : ℂ) * (Real.sin (Real.pi / 4 / 2) : ℂ) = 1
    have h := Real.cos_sq_add_sin_sq (Real.pi / 4 / 2)
    have h' : Real.cos (Real.pi / 4 / 2) * Real.cos (Real.pi / 4 / 2)
        + Real.sin (Real.pi / 4 / 2) * Real.sin (Real.pi / 4 / 2) = 1 := by nlinarith [h]
    exact_mod_cast h'
  dbl := by
    show ((Real.cos (Real.pi / 4 / 2) : ℝ) : ℂ) * (Real.cos (Real.pi / 4 / 2) : ℂ)
      - (Real.sin (Real.pi / 4 / 2) : ℂ) * (Real.sin (Real.pi / 4 / 2) : ℂ)
      = 2 * ((Real.cos (Real.pi / 4 / 2) : ℂ) * (Real.sin (Real.pi / 4 / 2) : ℂ))
    have hc : Real.cos (2 * (Real.pi / 4 / 2)) = Real.sin (2 * (Real.pi / 4 / 2)) := by
      have : 2 * (Real.pi / 4 / 2) = Real.pi / 4 := by ring
      rw [this, Real.cos_pi_div_four, Real.sin_pi_div_four]
    rw [Real.cos_two_mul', Real.sin_two_mul] at hc
    have h' : Real.cos (Real.pi / 4 / 2) * Real.cos (Real.pi / 4 / 2)
        - Real.sin (Real.pi / 4 / 2) * Real.sin (Real.pi / 4 / 2)
        = 2 * (Real.cos (Real.pi / 4 / 2) * Real.sin (Real.pi / 4 / 2)) := by nlinarith [hc]
    exact_mod_cast h'

end Qclib
