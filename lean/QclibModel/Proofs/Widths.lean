import QclibModel.Model.Widths
import Mathlib.Tactic.Ring
import Mathlib.Tactic.Linarith
/-
  C15 — the width table: declared width = sum of the registers `_define` allocates, for every class
  and every parameter in the class's domain.
-/
namespace Qclib
namespace Widths

/-! ### `clog2` -/

theorem clog2_two_pow (n : Nat) : clog2 (2 ^ n) = n := by
  have hp : 1 ≤ 2 ^ n := Nat.one_le_two_pow
  have hne : 2 * 2 ^ n - 1 ≠ 0 := by omega
  apply Nat.le_antisymm
  · have : Nat.log2 (2 * 2 ^ n - 1) < n + 1 := (Nat.log2_lt hne).mpr (by rw [Nat.pow_succ]; omega)
    exact Nat.lt_succ_iff.mp this
  · exact (Nat.le_log2 hne).mpr (by omega)

theorem clog2_le {m n : Nat} (h : m ≤ 2 ^ n) : clog2 m ≤ n := by
  by_cases hm : 2 * m - 1 = 0
  · simp only [clog2, hm]; exact Nat.zero_le _
  · have : Nat.log2 (2 * m - 1) < n + 1 := (Nat.log2_lt hm).mpr (by rw [Nat.pow_succ]; omega)
    exact Nat.lt_succ_iff.mp this

theorem clog2_pos {m : Nat} (h : 2 ≤ m) : 1 ≤ clog2 m :=
  (Nat.le_log2 (by omega)).mpr (by omega)

/-! ### The tree registers -/

theorem levelNodes_get {n i : Nat} (h : i < n) : (levelNodes n)[i]? = some (2 ^ i) := by
  simp only [levelNodes, List.getElem?_map, List.getElem?_range h, Option.map_some]

theorem levelNodes_take_sum : ∀ (k n : Nat), k ≤ n → ((levelNodes n).take k).sum + 1 = 2 ^ k
  | 0, _, _ => by simp
  | k + 1, n, h => by
    have ih := levelNodes_take_sum k n (by omega)
    have hk : k < (levelNodes n).length := by simp only [levelNodes, List.length_map, List.length_range]; omega
    have hg : (levelNodes n)[k] = 2 ^ k := by
      have := levelNodes_get (n := n) (i := k) (by omega)
      rw [List.getElem?_eq_getElem hk] at this
      exact Option.some.inj this
    rw [List.take_succ_eq_append_getElem hk, List.sum_append, hg]
    simp only [List.sum_cons, List.sum_nil, Nat.pow_succ]
    omega

theorem tree_ge (sl d : Nat) : sl + d + 1 ≤ 2 ^ sl * (d + 1) := by
  have h : sl + 1 ≤ 2 ^ sl := Nat.lt_two_pow_self
  nlinarith [Nat.zero_le (sl * d)]

/-- For the complete tree with `n` levels and `sl < n`: output + ancilla registers hold
`2^sl · (n − sl + 1) − 1` qubits. -/
theorem treeRegisters_sum {n sl : Nat} (h : sl < n) :
    (treeRegisters n sl).map List.sum = some (2 ^ sl * (n - sl + 1) - 1) := by
  have hS := levelNodes_take_sum sl n (by omega)
  have hge := tree_ge sl (n - sl)
  have hn : sl + (n - sl) = n := by omega
  rw [hn] at hge
  simp only [treeRegisters, levelNodes_get h, Option.map_some]
  generalize ((levelNodes n).take sl).sum = S at hS ⊢
  generalize hP : 2 ^ sl = P at hS hge ⊢
  rw [Nat.mul_succ] at hge ⊢
  generalize P * (n - sl) = Q at hge ⊢
  congr 1
  split <;> simp only [List.sum_cons, List.sum_nil] <;> omega

/-! ### The table -/

theorem width_table (c : Cls) (p : Params) (h : InDomain c p) :
    circuitWidth c p = some (declaredWidth c p) := by
  cases c <;> simp only [InDomain] at h
  case topDown =>
    obtain ⟨n, hn, hl⟩ := h
    simp only [circuitWidth, circuitRegisters, declaredWidth, denseQubits, hl, Nat.log2_two_pow]
    rw [treeRegisters_sum (by omega)]
    simp
  case lowRank | baa | ucg | ucge | isometry | blackBox =>
    simp [circuitWidth, circuitRegisters, declaredWidth, denseQubits]
  case svd =>
    simp only [circuitWidth, circuitRegisters, declaredWidth, Option.map_some, List.sum_cons, List.sum_nil]
    congr 1
    omega
  case bdsp =>
    obtain ⟨n, hl, hs1, hsn⟩ := h
    simp only [circuitWidth, circuitRegisters, declaredWidth, denseQubits, hl, Nat.log2_two_pow]
    rw [treeRegisters_sum (by omega), show n - (n - p.s) = p.s by omega, Nat.mul_comm]
  case dcsp =>
    obtain ⟨n, hn, hl⟩ := h
    simp only [circuitWidth, circuitRegisters, declaredWidth, denseQubits, hl, Nat.log2_two_pow]
    rw [treeRegisters_sum (by omega), show n - (n - 1) + 1 = 2 by omega]
    obtain ⟨k, rfl⟩ : ∃ k, n = k + 1 := ⟨n - 1, by omega⟩
    rw [show k + 1 - 1 = k by omega, Nat.pow_succ]
  case mixed =>
    obtain ⟨⟨n, hn, hl⟩, _⟩ := h
    simp only [circuitWidth, circuitRegisters, declaredWidth, denseQubits, hl, Nat.log2_two_pow, clog2_two_pow,
      Option.map_some, List.sum_cons, List.sum_nil]
    congr 1
    omega
  case merge | linearMcx | toffoli | ldmcsu | qdmcu | mcg | multiTargetMCSU2 =>
    simp [circuitWidth, circuitRegisters, declaredWidth]
  case mcxVchainDirty =>
    simp only [circuitWidth, circuitRegisters, declaredWidth, Option.map_some, List.sum_cons, List.sum_nil]
    congr 1
    omega
  case ldmcu | ldMcSpecialUnitary | mcu =>
    simp only [circuitWidth, circuitRegisters, declaredWidth, Option.map_some]
    congr 1
    split <;> simp only [List.sum_cons, List.sum_nil] <;> omega
  case pivot =>
    simp only [circuitWidth, circuitRegisters, declaredWidth]
    cases ha : p.aux
    · simp
    · obtain ⟨h2, hle⟩ := h ha
      have h1 := clog2_pos h2
      have h3 := clog2_le hle
      simp only [if_true, regPred, show p.n - (p.n - clog2 p.m) = clog2 p.m by omega,
        if_neg (show ¬ clog2 p.m = 0 by omega), Option.map_some, List.sum_cons, List.sum_nil]
      congr 1
      omega
  case cvoqram =>
    simp only [circuitWidth, circuitRegisters, declaredWidth, regPred]
    cases p.aux
    · simp only [Bool.false_eq_true, if_false, Option.map_some, List.sum_cons, List.sum_nil]
      congr 1
      omega
    · simp only [if_true, if_neg (show ¬ p.n = 0 by omega), Option.map_some, List.sum_cons, List.sum_nil]
      congr 1
      omega
  case fnPoints =>
    simp only [circuitWidth, circuitRegisters, declaredWidth, regPred, if_neg (show ¬ p.n = 0 by omega),
      Option.map_some, List.sum_cons, List.sum_nil]
    congr 1
    omega
  case pqm =>
    simp only [circuitWidth, circuitRegisters, declaredWidth, Option.map_some]
    congr 1
    cases p.classical <;> simp only [Bool.false_eq_true, if_false, if_true, List.sum_cons, List.sum_nil] <;> omega

end Widths
end Qclib
