import QclibModel.Proofs.Mcu2ErrSem
import QclibModel.Proofs.Mcu2ErrRun
/-
  C04, part B — the approximate gate `MCU`, part 3: what one call of `MCU._c1c2` emits and what it
  denotes.

  `mcuC1c2 nq b first fwd` (a fold with the pending multi-target lists as accumulators) emits
  * with no extra control (`e = 0`): the `Ldmcu` sweep without the root of base control 0;
  * with `e ≥ 1` extra controls: the gates of the base controls `c ≥ 1`, translated by `e`, in
    schedule order, followed — in the descending sweeps — by ONE multi-target call carrying all
    the `RX` gates of base control 0 (the pair `(0, 1)` is the last of the schedule), controlled
    by the wires `0 … e`.
  `sweepM_sem`: in the semantics `semM` the emitted list acts as the fold of `opM` over the list
  `LM`, a permutation of the kept, translated schedule that respects the dependency order.
-/
namespace Qclib.Mcu2

variable {Θ : Type}

/-! ### The fold of `MCU._c1c2` -/

/-- The body of the loop of `MCU._c1c2` with `n_qubits_base = nb` and `extra_q = e`. -/
def stepN (nb e : Nat) (first fwd : Bool)
    (acc : List (LG Θ) × List (Nat × Int) × List Nat) (pr : Nat × Nat) :
    List (LG Θ) × List (Nat × Int) × List Nat :=
  let (out, ulist, tgts) := acc
  let p := param pr
  let s := signal pr first fwd
  if pr.2 = nb - 1 ∧ first = true then
    if pr.1 ≠ 0 then (out ++ [LG.croot (pr.1 + e) (pr.2 + e) true p s], ulist, tgts)
    else (out, ulist, tgts)
  else if pr.1 = 0 ∧ e ≥ 1 then
    let ulist' := ulist ++ [(p, s)]
    let tgts' := tgts ++ [pr.2 + e]
    if pr.2 = 1 then
      (out ++ [LG.mtmcsu2 (List.range (e + 1)) tgts' ulist'], ulist', tgts')
    else (out, ulist', tgts')
  else (out ++ [LG.crx (pr.1 + e) (pr.2 + e) p s], ulist, tgts)

theorem mcuC1c2_eq (nq : Nat) (b : Int) (first fwd : Bool) :
    (mcuC1c2 nq b first fwd : List (LG Θ))
      = ((qubitPairs (if first then b + 1 else b).toNat fwd).foldl
          (stepN (if first then b + 1 else b).toNat
            ((nq : Int) - (if first then b + 1 else b)).toNat first fwd) ([], [], [])).1 := rfl

/-- The gate of a scheduled pair translated by `e`: a root of `U` onto the last base wire in the
sweeps with `first`, an `RX` otherwise. -/
def gateN (nb e : Nat) (first fwd : Bool) (pr : Nat × Nat) : LG Θ :=
  if pr.2 = nb - 1 ∧ first = true then
    LG.croot (pr.1 + e) (pr.2 + e) true (param pr) (signal pr first fwd)
  else LG.crx (pr.1 + e) (pr.2 + e) (param pr) (signal pr first fwd)

/-- Base control is not wire 0. -/
def nzB (pr : Nat × Nat) : Bool := pr.1 != 0

/-- The `RX` gates of base control 0 (deferred to the multi-target call when `e ≥ 1`). -/
def c0B (nb : Nat) (first : Bool) (pr : Nat × Nat) : Bool :=
  pr.1 == 0 && !(decide (pr.2 = nb - 1) && first)

/-- Everything but the root of base control 0. -/
def keepN (nb : Nat) (first : Bool) (pr : Nat × Nat) : Bool :=
  !(decide (pr.2 = nb - 1) && first && pr.1 == 0)

/-- `e = 0`: the sweep without the omitted root, in schedule order. -/
theorem fold_char0 (nb : Nat) (first fwd : Bool) (L : List (Nat × Nat))
    (out : List (LG Θ)) (ul : List (Nat × Int)) (tg : List Nat) :
    (L.foldl (stepN nb 0 first fwd) (out, ul, tg)).1
      = out ++ (L.filter (keepN nb first)).map (gateN nb 0 first fwd) := by
  induction L generalizing out with
  | nil => simp
  | cons pr L ih =>
    rw [List.foldl_cons]
    by_cases hA : pr.2 = nb - 1 ∧ first = true
    · by_cases h0 : pr.1 = 0
      · have hs : stepN nb 0 first fwd (out, ul, tg) pr = (out, ul, tg) := by
          simp [stepN, hA, h0]
        have hk : keepN nb first pr = false := by simp [keepN, hA.1, hA.2, h0]
        rw [hs, ih, List.filter_cons_of_neg (by simp [hk])]
      · have hs : stepN nb 0 first fwd (out, ul, tg) pr
            = (out ++ [gateN nb 0 first fwd pr], ul, tg) := by
          simp [stepN, gateN, hA, h0]
        have hk : keepN nb first pr = true := by simp [keepN, h0]
        rw [hs, ih, List.filter_cons_of_pos hk, List.map_cons, List.append_assoc]
        rfl
    · have hs : stepN nb 0 first fwd (out, ul, tg) pr
          = (out ++ [gateN nb 0 first fwd pr], ul, tg) := by
        simp [stepN, gateN, hA]
      have hk : keepN nb first pr = true := by
        simp only [keepN, Bool.not_eq_true', Bool.and_eq_false_iff, decide_eq_false_iff_not]
        by_cases h1 : pr.2 = nb - 1
        · left; right
          cases first
          · rfl
          · exact absurd ⟨h1, rfl⟩ hA
        · left; left; exact h1
      rw [hs, ih, List.filter_cons_of_pos hk, List.map_cons, List.append_assoc]
      rfl

/-- The deferred gate lists. -/
def defT (nb e : Nat) (first : Bool) (L : List (Nat × Nat)) : List Nat :=
  (L.filter (c0B nb first)).map fun pr => pr.2 + e

def defU (nb : Nat) (first fwd : Bool) (L : List (Nat × Nat)) : List (Nat × Int) :=
  (L.filter (c0B nb first)).map fun pr => (param pr, signal pr first fwd)

/-- `e ≥ 1`: the gates of the base controls `≥ 1` in order, then the multi-target call (emitted at
the pair `(0, 1)`, which must be the last of the list). -/
theorem fold_char1 (nb e : Nat) (he : 1 ≤ e) (first fwd : Bool) (L : List (Nat × Nat))
    (hlast : L.Pairwise (fun a _ => ¬ (c0B nb first a = true ∧ a.2 = 1)))
    (out : List (LG Θ)) (ul : List (Nat × Int)) (tg : List Nat) :
    (L.foldl (stepN nb e first fwd) (out, ul, tg)).1
      = out ++ (L.filter nzB).map (gateN nb e first fwd)
        ++ (if L.any (fun pr => c0B nb first pr && pr.2 == 1) then
            [LG.mtmcsu2 (List.range (e + 1)) (tg ++ defT nb e first L) (ul ++ defU nb first fwd L)]
          else []) := by
  induction L generalizing out ul tg with
  | nil => simp
  | cons pr L ih =>
    rw [List.foldl_cons]
    have hl' := (List.pairwise_cons.mp hlast).2
    by_cases hA : pr.2 = nb - 1 ∧ first = true
    · have hc0 : c0B nb first pr = false := by simp [c0B, hA.1, hA.2]
      by_cases h0 : pr.1 = 0
      · have hs : stepN nb e first fwd (out, ul, tg) pr = (out, ul, tg) := by
          simp [stepN, hA, h0]
        have hnz : nzB pr = false := by simp [nzB, h0]
        rw [hs, ih hl', List.filter_cons_of_neg (by simp [hnz]), List.any_cons, hc0]
        simp only [Bool.false_and, Bool.false_or, defT, defU,
          List.filter_cons_of_neg (by simp [hc0] : ¬ c0B nb first pr = true)]
      · have hs : stepN nb e first fwd (out, ul, tg) pr
            = (out ++ [gateN nb e first fwd pr], ul, tg) := by
          simp [stepN, gateN, hA, h0]
        have hnz : nzB pr = true := by simp [nzB, h0]
        rw [hs, ih hl', List.filter_cons_of_pos hnz, List.any_cons, hc0]
        simp only [Bool.false_and, Bool.false_or, defT, defU, List.map_cons, List.append_assoc,
          List.filter_cons_of_neg (by simp [hc0] : ¬ c0B nb first pr = true), List.singleton_append]
    · by_cases h0 : pr.1 = 0
      · have hc0 : c0B nb first pr = true := by
          simp only [c0B, h0, beq_self_eq_true, Bool.true_and, Bool.not_eq_true',
            Bool.and_eq_false_iff, decide_eq_false_iff_not]
          by_cases h1 : pr.2 = nb - 1
          · right
            cases first
            · rfl
            · exact absurd ⟨h1, rfl⟩ hA
          · left; exact h1
        have hnz : nzB pr = false := by simp [nzB, h0]
        by_cases h1 : pr.2 = 1
        · -- the multi-target call is emitted; nothing follows
          have hnil : L = [] := by
            cases L with
            | nil => rfl
            | cons q L =>
              exact absurd ⟨hc0, h1⟩ ((List.pairwise_cons.mp hlast).1 q List.mem_cons_self)
          subst hnil
          have hs : stepN nb e first fwd (out, ul, tg) pr
              = (out ++ [LG.mtmcsu2 (List.range (e + 1)) (tg ++ [pr.2 + e])
                  (ul ++ [(param pr, signal pr first fwd)])],
                ul ++ [(param pr, signal pr first fwd)], tg ++ [pr.2 + e]) := by
            simp only [stepN]
            rw [if_neg hA, if_pos ⟨h0, he⟩, if_pos h1]
          rw [hs]
          simp [hnz, hc0, h1, defT, defU]
        · have hs : stepN nb e first fwd (out, ul, tg) pr
              = (out, ul ++ [(param pr, signal pr first fwd)], tg ++ [pr.2 + e]) := by
            simp [stepN, hA, h0, he, h1]
          rw [hs, ih hl', List.filter_cons_of_neg (by simp [hnz]), List.any_cons, hc0]
          have : (pr.2 == 1) = false := by simp [h1]
          simp only [this, Bool.and_false, Bool.false_or, defT, defU,
            List.filter_cons_of_pos hc0, List.map_cons, List.append_assoc, List.singleton_append]
      · have hc0 : c0B nb first pr = false := by simp [c0B, h0]
        have hs : stepN nb e first fwd (out, ul, tg) pr
            = (out ++ [gateN nb e first fwd pr], ul, tg) := by
          simp [stepN, gateN, hA, h0]
        have hnz : nzB pr = true := by simp [nzB, h0]
        rw [hs, ih hl', List.filter_cons_of_pos hnz, List.any_cons, hc0]
        simp only [Bool.false_and, Bool.false_or, defT, defU, List.map_cons, List.append_assoc,
          List.filter_cons_of_neg (by simp [hc0] : ¬ c0B nb first pr = true), List.singleton_append]

/-! ### What a sweep denotes -/

/-- The emitted list of one `MCU._c1c2` call. -/
def outN (nb e : Nat) (first fwd : Bool) : List (LG Θ) :=
  ((qubitPairs nb fwd).foldl (stepN nb e first fwd) ([], [], [])).1

/-- Number of base wires of a sweep. -/
def nbOf (bn : Nat) (first : Bool) : Nat := if first then bn + 1 else bn

/-- The order in which the kept gates of a sweep are executed (actual wires). -/
def LM (e bn : Nat) (first fwd : Bool) : List (Nat × Nat) :=
  if e = 0 then ((qubitPairs (nbOf bn first) fwd).filter (keepB bn first)).map (shP 0)
  else ((qubitPairs (nbOf bn first) fwd).filter nzB).map (shP e)
    ++ ((qubitPairs (nbOf bn first) fwd).filter (c0B (nbOf bn first) first)).map (shP e)

theorem keepN_eq (bn : Nat) (first : Bool) (pr : Nat × Nat) :
    keepN (nbOf bn first) first pr = keepB bn first pr := by
  cases first
  · simp [keepN, keepB]
  · simp only [keepN, keepB, nbOf, if_true, Nat.add_sub_cancel, Bool.and_true, Bool.true_and]
    by_cases h1 : pr.2 = bn <;> by_cases h0 : pr.1 = 0 <;> simp [h1, h0]

theorem keepB_iff (bn : Nat) (first : Bool) (pr : Nat × Nat) :
    keepB bn first pr = (nzB pr || c0B (nbOf bn first) first pr) := by
  cases first
  · simp only [keepB, nzB, c0B, Bool.false_and, Bool.not_false, Bool.and_false, Bool.and_true]
    by_cases h0 : pr.1 = 0 <;> simp [h0]
  · simp only [keepB, nzB, c0B, nbOf, if_true, Nat.add_sub_cancel, Bool.and_true, Bool.true_and]
    by_cases h1 : pr.2 = bn <;> by_cases h0 : pr.1 = 0 <;> simp [h1, h0, bne]

theorem LM_perm (e bn : Nat) (first fwd : Bool) : (LM e bn first fwd).Perm (keptSh e bn first fwd) := by
  unfold LM keptSh
  by_cases he : e = 0
  · subst he
    rw [if_pos rfl]
    rfl
  · rw [if_neg he, ← List.map_append]
    apply List.Perm.map
    show List.Perm _ (List.filter (keepB bn first) (qubitPairs (nbOf bn first) fwd))
    have h1 : List.filter nzB (qubitPairs (nbOf bn first) fwd)
        = List.filter nzB (List.filter (keepB bn first) (qubitPairs (nbOf bn first) fwd)) := by
      rw [List.filter_filter]
      apply List.filter_congr
      intro pr _
      rw [keepB_iff]
      cases nzB pr <;> simp
    have h2 : List.filter (c0B (nbOf bn first) first) (qubitPairs (nbOf bn first) fwd)
        = List.filter (fun pr => !nzB pr)
            (List.filter (keepB bn first) (qubitPairs (nbOf bn first) fwd)) := by
      rw [List.filter_filter]
      apply List.filter_congr
      intro pr _
      rw [keepB_iff]
      cases hb0 : (pr.1 == 0) <;> simp [nzB, c0B, hb0, bne]
    rw [h1, h2]
    exact List.filter_append_perm _ _

theorem LM_mem {e bn : Nat} {first fwd : Bool} {pr : Nat × Nat} (h : pr ∈ LM e bn first fwd) :
    ∃ c t, pr = (c + e, t + e) ∧ startOf fwd ≤ c ∧ c < t ∧ t < nbOf bn first :=
  mem_keptSh (LM_perm e bn first fwd) h

theorem LM_dep_fwd (e bn : Nat) (first : Bool) :
    (LM e bn first true).Pairwise (fun a b => a.2 ≠ b.1) := by
  have hd := dep_fwd (nbOf bn first)
  have hsh : ∀ (p : Nat × Nat → Bool), (((qubitPairs (nbOf bn first) true).filter p).map (shP e)).Pairwise
      (fun a b => a.2 ≠ b.1) := by
    intro p
    rw [List.pairwise_map]
    refine (hd.sublist List.filter_sublist).imp ?_
    intro a b hab
    simp only [shP]
    omega
  unfold LM
  by_cases he : e = 0
  · subst he
    rw [if_pos rfl]
    exact hsh _
  · rw [if_neg he, List.pairwise_append]
    refine ⟨hsh _, hsh _, ?_⟩
    intro a ha b hb
    rw [List.mem_map] at ha hb
    obtain ⟨a', ha', rfl⟩ := ha
    obtain ⟨b', hb', rfl⟩ := hb
    have h1 := mem_bounds (List.mem_filter.mp ha').1
    have h2 := (List.mem_filter.mp hb').2
    simp only [c0B, Bool.and_eq_true, beq_iff_eq] at h2
    simp only [shP]
    omega

theorem LM_dep_bwd (e bn : Nat) (first : Bool) :
    (LM e bn first false).Pairwise (fun a b => a.1 ≠ b.2) := by
  have hd := dep_bwd (nbOf bn first)
  have hsh : ∀ (p : Nat × Nat → Bool), (((qubitPairs (nbOf bn first) false).filter p).map (shP e)).Pairwise
      (fun a b => a.1 ≠ b.2) := by
    intro p
    rw [List.pairwise_map]
    refine (hd.sublist List.filter_sublist).imp ?_
    intro a b hab
    simp only [shP]
    omega
  unfold LM
  by_cases he : e = 0
  · subst he
    rw [if_pos rfl]
    exact hsh _
  · have hnil : (qubitPairs (nbOf bn first) false).filter (c0B (nbOf bn first) first) = [] := by
      apply List.filter_eq_nil_iff.mpr
      intro pr hpr
      have := mem_bounds hpr
      simp only [startOf, Bool.false_eq_true, if_false] at this
      have h0 : pr.1 ≠ 0 := by omega
      simp [c0B, h0]
    rw [if_neg he, hnil, List.map_nil, List.append_nil]
    exact hsh _

/-- In the descending schedule the pair `(0, 1)` is the last one. -/
theorem last01 (nb : Nat) (first fwd : Bool) :
    (qubitPairs nb fwd).Pairwise (fun a _ => ¬ (c0B nb first a = true ∧ a.2 = 1)) := by
  have hs := (qubitPairs_sorted nb fwd).and (nodup_qubitPairs nb fwd)
  refine List.Pairwise.imp_of_mem ?_ hs
  intro a b ha hb hab
  have h1 := mem_bounds ha
  have h2 := mem_bounds hb
  rintro ⟨hc, ht⟩
  simp only [c0B, Bool.and_eq_true, beq_iff_eq] at hc
  cases fwd
  · simp only [startOf, Bool.false_eq_true, if_false] at h1
    omega
  · have hk := hab.1
    simp only [if_true, key] at hk
    apply hab.2
    apply Prod.ext <;> omega

section den
variable {R : Type} [CommRing R] [RotSem Θ R] (Ur Rx : ℚ → Mat2 R)

theorem semM_map {α : Type} (g : α → LG Θ) (L : List α) (ψ : State R) :
    semM Ur Rx (L.map g) ψ = L.foldl (fun s a => denoteM Ur Rx (g a) s) ψ := by
  simp [semM, List.foldl_map]

omit [CommRing R] in
theorem foldl_congr_mem {α : Type} (f g : State R → α → State R) (L : List α)
    (h : ∀ a ∈ L, ∀ s, f s a = g s a) (ψ : State R) : L.foldl f ψ = L.foldl g ψ := by
  induction L generalizing ψ with
  | nil => rfl
  | cons a L ih =>
    rw [List.foldl_cons, List.foldl_cons, h a List.mem_cons_self,
      ih (fun a' ha' => h a' (List.mem_cons_of_mem _ ha'))]

theorem wS_sh (e : Nat) (first fwd : Bool) (pr : Nat × Nat) :
    wS e first fwd (shP e pr) = wt pr first fwd := by
  simp [wS, shP]

theorem onesLits_one : onesLits 1 = [(0, true)] := rfl

/-- The gate the code emits for a kept pair is the gate `opM` of the translated pair. -/
theorem gateN_denote (e bn k : Nat) (hk : k = e + bn) (first fwd : Bool) (pr : Nat × Nat)
    (hb : pr.1 < pr.2 ∧ pr.2 < nbOf bn first) (hkeep : keepB bn first pr = true)
    (hc : pr.1 ≠ 0 ∨ e = 0) (φ : State R) :
    denoteM Ur Rx (gateN (nbOf bn first) e first fwd pr : LG Θ) φ
      = opM e k Ur Rx (wS e first fwd (shP e pr)) (shP e pr) φ := by
  rw [wS_sh]
  have hlits : (if (shP e pr).1 = e then onesLits (e + 1) else [((shP e pr).1, true)])
      = [(pr.1 + e, true)] := by
    have hsh : (shP e pr).1 = pr.1 + e := rfl
    rcases hc with hc | hc
    · rw [if_neg (by rw [hsh]; omega)]
      rfl
    · subst hc
      by_cases h0 : pr.1 = 0
      · rw [if_pos (by rw [hsh]; omega), h0]; rfl
      · rw [if_neg (by rw [hsh]; omega)]
        rfl
  unfold opM gateN
  rw [hlits]
  by_cases hA : pr.2 = nbOf bn first - 1 ∧ first = true
  · rw [if_pos hA]
    have : (shP e pr).2 = k := by
      obtain ⟨h1, rfl⟩ := hA
      simp only [nbOf, if_true, Nat.add_sub_cancel] at h1
      simp only [shP]; omega
    show applyMcu [(pr.1 + e, true)] (Ur (qw (param pr) (signal pr first fwd))) (shP e pr).2 φ = _
    simp only [gmat, this, if_true]
    rfl
  · rw [if_neg hA]
    have : (shP e pr).2 ≠ k := by
      simp only [shP]
      cases first
      · simp only [nbOf, Bool.false_eq_true, if_false] at hb; omega
      · simp only [nbOf, if_true, Nat.add_sub_cancel, and_true] at hA hb; omega
    show applyMcu [(pr.1 + e, true)] (Rx (qw (param pr) (signal pr first fwd))) (shP e pr).2 φ = _
    simp only [gmat, this, if_false]
    rfl

/-- **One call of `MCU._c1c2`** with `bn ≥ 1` base controls and `e` extra controls denotes the
fold of the gates `opM` over `LM`. -/
theorem sweepM_sem (e bn k : Nat) (hk : k = e + bn) (first fwd : Bool) (ψ : State R) :
    semM Ur Rx (outN (nbOf bn first) e first fwd : List (LG Θ)) ψ
      = (LM e bn first fwd).foldl (fun s pr => opM e k Ur Rx (wS e first fwd pr) pr s) ψ := by
  unfold outN LM
  by_cases he : e = 0
  · subst he
    have hf : List.filter (keepN (nbOf bn first) first) (qubitPairs (nbOf bn first) fwd)
        = List.filter (keepB bn first) (qubitPairs (nbOf bn first) fwd) :=
      List.filter_congr (fun pr _ => keepN_eq bn first pr)
    rw [if_pos rfl, fold_char0, List.nil_append, semM_map, List.foldl_map, hf]
    apply foldl_congr_mem
    intro pr hpr s
    obtain ⟨h1, h2⟩ := List.mem_filter.mp hpr
    have hb := mem_bounds h1
    exact gateN_denote Ur Rx 0 bn k hk first fwd pr hb.2 h2 (Or.inr rfl) s
  · have he1 : 1 ≤ e := by omega
    have hA : ∀ φ : State R,
        semM Ur Rx ((List.filter nzB (qubitPairs (nbOf bn first) fwd)).map
          (gateN (nbOf bn first) e first fwd : Nat × Nat → LG Θ)) φ
        = ((List.filter nzB (qubitPairs (nbOf bn first) fwd)).map (shP e)).foldl
          (fun s pr => opM e k Ur Rx (wS e first fwd pr) pr s) φ := by
      intro φ
      rw [semM_map, List.foldl_map]
      apply foldl_congr_mem
      intro pr hpr s
      obtain ⟨h1, h2⟩ := List.mem_filter.mp hpr
      have hb := mem_bounds h1
      have h0 : pr.1 ≠ 0 := by simpa [nzB] using h2
      have hkp : keepB bn first pr = true := by rw [keepB_iff, h2]; rfl
      exact gateN_denote Ur Rx e bn k hk first fwd pr hb.2 hkp (Or.inl h0) s
    have hB : ∀ φ : State R,
        semM Ur Rx (if (qubitPairs (nbOf bn first) fwd).any
            (fun pr => c0B (nbOf bn first) first pr && pr.2 == 1) then
          [(LG.mtmcsu2 (List.range (e + 1))
            ([] ++ defT (nbOf bn first) e first (qubitPairs (nbOf bn first) fwd))
            ([] ++ defU (nbOf bn first) first fwd (qubitPairs (nbOf bn first) fwd)) : LG Θ)]
          else []) φ
        = ((List.filter (c0B (nbOf bn first) first) (qubitPairs (nbOf bn first) fwd)).map
            (shP e)).foldl (fun s pr => opM e k Ur Rx (wS e first fwd pr) pr s) φ := by
      intro φ
      by_cases hany : (qubitPairs (nbOf bn first) fwd).any
          (fun pr => c0B (nbOf bn first) first pr && pr.2 == 1) = true
      · rw [if_pos hany, semM_cons, semM_nil]
        show ((([] : List Nat) ++ defT (nbOf bn first) e first _).zip
            (([] : List (Nat × Int)) ++ defU (nbOf bn first) first fwd _)).foldl _ φ = _
        rw [List.nil_append, List.nil_append, defT, defU, List.zip_map', List.foldl_map,
          List.foldl_map]
        apply foldl_congr_mem
        intro pr hpr s
        obtain ⟨h1, h2⟩ := List.mem_filter.mp hpr
        have hb := mem_bounds h1
        simp only [c0B, Bool.and_eq_true, beq_iff_eq, Bool.not_eq_true', Bool.and_eq_false_iff,
          decide_eq_false_iff_not] at h2
        rw [wS_sh]
        unfold opM
        have h1' : (shP e pr).1 = e := by simp only [shP]; omega
        have h2' : (shP e pr).2 ≠ k := by
          simp only [shP]
          cases first
          · simp only [nbOf, Bool.false_eq_true, if_false] at hb; omega
          · simp only [nbOf, if_true, Nat.add_sub_cancel] at h2 hb
            rcases h2.2 with h | h
            · omega
            · exact absurd h (by simp)
        rw [if_pos h1']
        simp only [gmat, h2', if_false]
        rfl
      · rw [if_neg hany, semM_nil]
        -- no pair `(0, 1)` among the deferred ones: there are no deferred gates at all
        have hnil : (qubitPairs (nbOf bn first) fwd).filter (c0B (nbOf bn first) first) = [] := by
          apply List.filter_eq_nil_iff.mpr
          intro pr hpr hc
          apply hany
          rw [List.any_eq_true]
          have hb := mem_bounds hpr
          have hc' := hc
          simp only [c0B, Bool.and_eq_true, beq_iff_eq, Bool.not_eq_true', Bool.and_eq_false_iff,
            decide_eq_false_iff_not] at hc'
          refine ⟨(0, 1), ?_, ?_⟩
          · obtain ⟨c, t⟩ := pr
            simp only at hb hc'
            apply mem_qubitPairs.mpr
            refine ⟨by omega, by omega, by omega⟩
          · simp only [c0B, beq_self_eq_true, Bool.true_and, Bool.and_true, Bool.not_eq_true',
              Bool.and_eq_false_iff, decide_eq_false_iff_not]
            cases first
            · right; rfl
            · left
              simp only [nbOf, if_true, Nat.add_sub_cancel] at hc' hb ⊢
              rcases hc'.2 with h | h
              · omega
              · exact absurd h (by simp)
        rw [hnil]
        rfl
    rw [if_neg he, fold_char1 _ e he1 first fwd _ (last01 _ first fwd), List.nil_append,
      semM_append, List.foldl_append, hA, hB]

end den

end Qclib.Mcu2
