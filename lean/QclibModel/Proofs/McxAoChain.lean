import QclibModel.Proofs.McsuFullWf
import QclibModel.Proofs.McxReal
/-
  C05/C04: `McxVchainDirty(..., action_only=True)`.

  In exact mode the general branch of the V-chain is `T_l ; S ; T_r ; S` (`general_exact`): two
  multi-target Toffolis and two sweeps over the borrowed qubits.  With `action_only=True` the code
  stops after the first pass and appends `T_r`: the circuit is `T_l ; S ; T_r`, the exact body
  without its final sweep.  The sweep `S` denotes an involutive signed relabelling `sp σ π`
  (`sweep_sem`), hence the action-only body denotes `S ∘ MCX` and its inverse `MCX ∘ S`, where `S`
  neither reads nor writes the last control, the targets and any spectator wire.
-/
set_option linter.unusedSectionVars false

namespace Qclib
open RotSem

/-! ### Parity form of `flipAll` (no `Nodup` needed) -/

/-- Parity of the number of occurrences of `q` in `l`. -/
def flipPar : List Nat → Nat → Bool
  | [], _ => false
  | w :: l, q => xor (decide (w = q)) (flipPar l q)

theorem flipAll_get_par (l : List Nat) (b : Bits) (q : Nat) :
    (flipAll l b) q = xor (b q) (flipPar l q) := by
  induction l generalizing b with
  | nil => simp [flipAll_nil, flipPar]
  | cons w l ih =>
    rw [flipAll_cons, ih, flipPar]
    by_cases h : w = q
    · subst h
      rw [flipBit_eq]
      cases b w <;> cases flipPar l w <;> simp
    · have h' : q ≠ w := fun e => h e.symm
      rw [flipBit_ne b h']
      simp [h]

theorem flipBit_setBit_same (b : Bits) (q : Nat) (v : Bool) :
    flipBit (setBit b q v) q = setBit (flipBit b q) q (!v) := by
  funext i
  by_cases h : i = q
  · subst h
    simp [flipBit, setBit]
  · simp [flipBit, setBit, h]

theorem flipAll_setBit (l : List Nat) (b : Bits) (q : Nat) (v : Bool) :
    flipAll l (setBit b q v) = setBit (flipAll l b) q (xor v (flipPar l q)) := by
  induction l generalizing b v with
  | nil => simp [flipAll_nil, flipPar]
  | cons w l ih =>
    rw [flipAll_cons, flipAll_cons, flipPar]
    by_cases h : w = q
    · subst h
      rw [flipBit_setBit_same, ih]
      cases v <;> cases flipPar l w <;> simp
    · have h' : q ≠ w := fun e => h e.symm
      rw [setBit_flipBit_ne b v h', ih]
      simp [h]

section conj
variable {R : Type} [CommRing R]

/-- Conjugating a signed relabelling by a layer of `x` gates on the wires `l`. -/
def conjσ (l : List Nat) (σ : Bits → R) : Bits → R := fun b => σ (flipAll l b)
/-- Conjugating a signed relabelling by a layer of `x` gates on the wires `l`. -/
def conjπ (l : List Nat) (π : Bits → Bits) : Bits → Bits := fun b => flipAll l (π (flipAll l b))

theorem conj_invol (l : List Nat) (σ : Bits → R) (π : Bits → Bits) (h : Invol σ π) :
    Invol (conjσ l σ) (conjπ l π) := by
  constructor
  · intro b
    simp only [conjπ, flipAll_invol, h.invπ]
  · intro b
    simp only [conjσ, conjπ, flipAll_invol, h.invσ]

theorem conj_free (l : List Nat) (σ : Bits → R) (π : Bits → Bits) (q : Nat) (h : FreeAt q σ π) :
    FreeAt q (conjσ l σ) (conjπ l π) := by
  constructor
  · intro b v
    simp only [conjσ, flipAll_setBit, h.sig]
  · intro b v
    simp only [conjπ, flipAll_setBit, h.perm]
    congr 1
    cases v <;> cases flipPar l q <;> rfl

theorem conj_keep (l : List Nat) (π : Bits → Bits) (q : Nat) (h : ∀ b, (π b) q = b q) (b : Bits) :
    (conjπ l π b) q = b q := by
  simp only [conjπ, flipAll_get_par, h]
  cases b q <;> cases flipPar l q <;> rfl

/-- `x`-layer ; `sp σ π` ; `x`-layer is the conjugated signed relabelling. -/
theorem conj_sp (l : List Nat) (σ : Bits → R) (π : Bits → Bits) (φ : State R) :
    (fun b => sp σ π (fun b' => φ (flipAll l b')) (flipAll l b))
      = sp (conjσ l σ) (conjπ l π) φ := rfl

end conj

/-! ### Commutation of signed relabellings with gates on free wires -/

section comm
variable {R : Type} [CommRing R]

theorem ctrlOk_free (lits : List (Nat × Bool)) (σ : Bits → R) (π : Bits → Bits)
    (h : ∀ cv ∈ lits, FreeAt cv.1 σ π) (b : Bits) : ctrlOk lits (π b) = ctrlOk lits b := by
  induction lits with
  | nil => rfl
  | cons cv lits ih =>
    simp only [ctrlOk, List.all_cons] at ih ⊢
    rw [(h cv List.mem_cons_self).get, ih (fun c hc => h c (List.mem_cons_of_mem _ hc))]

/-- A multi-controlled one-qubit gate all of whose wires are free for `(σ, π)` commutes with
`sp σ π`. -/
theorem applyMcu_sp_comm (σ : Bits → R) (π : Bits → Bits) (lits : List (Nat × Bool)) (M : Mat2 R)
    (t : Nat) (ht : FreeAt t σ π) (hl : ∀ cv ∈ lits, FreeAt cv.1 σ π) (ψ : State R) :
    applyMcu lits M t (sp σ π ψ) = sp σ π (applyMcu lits M t ψ) := by
  funext b
  simp only [applyMcu, sp, ht.sig, ht.perm, ht.get, ctrlOk_free lits σ π hl]
  by_cases h : ctrlOk lits b = true <;> by_cases h' : b t = true <;> simp [h, h'] <;> ring

end comm

section body
variable {Θ R : Type} [CommRing R] [RotSem Θ R] (o : McxAngles Θ) (hp : Pi8 R o)

/-- General branch with `action_only=True`: first gate, sweep, and the extra `'r'`-side
multi-target Toffoli — the exact body without its final sweep. -/
theorem vchainBody_general_ao (n nt : Nat) (c a t : Nat → Nat)
    (h : ¬ (n + 3 = 3 ∧ nt < 2)) :
    vchainBody o (n + 3) nt c a t false true
      = firstGate o (n + 3) nt c a t false 0 .l ++ sweep o c a n
        ++ firstGate o (n + 3) nt c a t false 1 .r := by
  have h2 : ¬ (n + 3 = 2) := by omega
  have h1 : ¬ (n + 3 = 1) := by omega
  have e : n + 3 - 2 - 1 = n + 3 - 3 := by omega
  have h' : ¬ (True ∧ n + 3 = 3 ∧ nt < 2) := fun hh => h hh.2
  simp only [vchainBody, if_neg h2, if_neg h1, if_neg h', vchainRound, if_true, action_reset,
    firstGate, Bool.false_eq_true, if_false, e]

include hp

/-- The action-only body of the general branch denotes `S ∘ MCX` with `S = sp σ π` the sweep. -/
theorem general_ao (n m : Nat) (c a t : Nat → Nat) (L : VLayout (n + 3) (m + 1) c a t) :
    ∃ (σ : Bits → R) (π : Bits → Bits),
      (∀ ψ : State R, sem (firstGate o (n + 3) (m + 1) c a t false 0 .l ++ sweep o c a n
          ++ firstGate o (n + 3) (m + 1) c a t false 1 .r) ψ
        = sp σ π (condFlipAll (all1 c (n + 3)) ((List.range (m + 1)).map t) ψ))
      ∧ SweepInv c a n σ π := by
  obtain ⟨σ, π, hsem, hinv⟩ := sweep_sem (R := R) o hp c a n
    (fun i i' hi hi' => L.hca i i' (by omega) (by omega))
    (fun i i' hi hi' => L.haa i i' (by omega) (by omega))
  refine ⟨σ, π, fun ψ => ?_, hinv⟩
  have hex := general_exact o hp n m c a t L ψ
  rw [← List.append_assoc, sem_append, hsem] at hex
  rw [← hex, sp_invol σ π hinv.invol.invπ hinv.invol.invσ]

/-- What `action_only=True` leaves on the wires: an involutive signed relabelling that reads only
the first `k-1` controls, writes only the `k-2` borrowed qubits, and does not see any other wire
(in particular not the last control `c (k-1)`, no target, no spectator). -/
structure AoInv (k : Nat) (c a : Nat → Nat) (σ : Bits → R) (π : Bits → Bits) : Prop where
  invol : Invol σ π
  free : ∀ q, (∀ i, i < k - 1 → c i ≠ q) → (∀ i, i < k - 2 → a i ≠ q) → FreeAt q σ π
  keep : ∀ b q, (∀ i, i < k - 2 → a i ≠ q) → (π b) q = b q

omit hp [RotSem Θ R] in
theorem aoInv_id (k : Nat) (c a : Nat → Nat) :
    AoInv k c a (fun _ : Bits => (1 : R)) (fun b => b) :=
  ⟨⟨fun _ => rfl, fun _ => by simp⟩, fun _ _ _ => ⟨fun _ _ => rfl, fun _ _ => rfl⟩,
    fun _ _ _ => rfl⟩

omit hp [RotSem Θ R] in
theorem sp_id (φ : State R) : sp (fun _ : Bits => (1 : R)) (fun b => b) φ = φ := by
  funext b
  simp [sp]

/-- Every branch of `McxVchainDirty._define` with `action_only=True` (no `ctrl_state`): the ideal
MCX followed by an `AoInv` relabelling (the identity in the branches `k = 1`, `k = 2` and
`k = 3, nt = 1`, which ignore the flag). -/
theorem body_ao (k nt : Nat) (hk : 1 ≤ k) (hnt : 1 ≤ nt) (c a t : Nat → Nat)
    (L : VLayout k nt c a t) :
    ∃ (σ : Bits → R) (π : Bits → Bits),
      (∀ ψ : State R, sem (vchainBody o k nt c a t false true) ψ
        = sp σ π (condFlipAll (all1 c k) ((List.range nt).map t) ψ)) ∧ AoInv k c a σ π := by
  by_cases hsmall : k = 2 ∨ k = 1 ∨ (k = 3 ∧ nt < 2)
  · have e : vchainBody o k nt c a t false true = vchainBody o k nt c a t false false := by
      rcases hsmall with h | h | h
      · simp only [vchainBody, if_pos h]
      · have h2 : ¬ (k = 2) := by omega
        simp only [vchainBody, if_neg h2, if_pos h]
      · have h2 : ¬ (k = 2) := by omega
        have h1 : ¬ (k = 1) := by omega
        have h3 : (True ∧ k = 3 ∧ nt < 2) := ⟨trivial, h⟩
        simp only [vchainBody, if_neg h2, if_neg h1, if_pos h3]
    refine ⟨fun _ => 1, fun b => b, fun ψ => ?_, aoInv_id k c a⟩
    rw [e, sp_id, body_exact o hp k nt hk hnt c a t L false (Or.inl rfl)]
  · obtain ⟨n, rfl⟩ : ∃ n, k = n + 3 := ⟨k - 3, by omega⟩
    obtain ⟨m, rfl⟩ : ∃ m, nt = m + 1 := ⟨nt - 1, by omega⟩
    have h3 : ¬ (n + 3 = 3 ∧ m + 1 < 2) := fun h => hsmall (Or.inr (Or.inr h))
    obtain ⟨σ, π, hsem, hinv⟩ := general_ao (R := R) o hp n m c a t L
    refine ⟨σ, π, fun ψ => ?_, ?_⟩
    · rw [vchainBody_general_ao o n (m + 1) c a t h3, hsem]
    · refine ⟨hinv.invol, fun q hc ha => ?_, fun b q ha => ?_⟩
      · exact hinv.free q (fun i hi => hc i (by omega)) (fun i hi => ha i (by omega))
      · exact hinv.keep b q (fun i hi => ha i (by omega))

end body

/-! ### `ctrl_state` -/

section ctrl
variable {Θ R : Type} [CommRing R] [RotSem Θ R]

/-- The `x`-layer conjugation turns "all controls 1" into "controls match the pattern", as an
identity between operators on amplitude functions. -/
theorem ctrl_fun (k : Nat) (c : Nat → Nat) (cs : Option (List Bool)) (ts : List Nat)
    (hlt : ∀ i, csBit cs i = false → i < k)
    (hcc : ∀ i j, i < k → j < k → c i = c j → i = j) (ψ : State R) :
    (fun b => condFlipAll (all1 c k) ts (fun b' => ψ (flipAll (csFlips c cs) b'))
        (flipAll (csFlips c cs) b)) = mcxIdeal (patLits k c cs) ts ψ := by
  funext b
  simp only [condFlipAll, mcxIdeal, all1_fl k c cs hlt hcc b k (Nat.le_refl k), flipAll_invol]
  rw [flipAll_flipAll_comm, flipAll_invol]

/-- `ctrl_state` around a body that denotes `S ∘ MCX(all ones)`: the whole circuit denotes
`S' ∘ MCX(pattern)` with `S'` the `x`-conjugate of `S`. -/
theorem ctrl_ao (k : Nat) (c : Nat → Nat) (cs : Option (List Bool)) (ts : List Nat)
    (xs body : Circ Θ) (hxs : ctrlXs k c cs = some xs)
    (hcc : ∀ i j, i < k → j < k → c i = c j → i = j) (σ : Bits → R) (π : Bits → Bits)
    (hbody : ∀ ψ : State R, sem body ψ = sp σ π (condFlipAll (all1 c k) ts ψ)) (ψ : State R) :
    sem (xs ++ body ++ xs) ψ
      = sp (conjσ (csFlips c cs) σ) (conjπ (csFlips c cs) π) (mcxIdeal (patLits k c cs) ts ψ) := by
  obtain ⟨rfl, hlt⟩ := ctrlXs_eq k c cs xs hxs
  rw [conj_xs, hbody, ← ctrl_fun k c cs ts hlt hcc ψ, ← conj_sp]
  funext b
  simp only [sp, flipAll_invol]

end ctrl

/-! ### The circuit `McxVchainDirty(k, nt, ctrl_state, action_only=True).definition` -/

section main
variable {Θ R : Type} [CommRing R] [RotSem Θ R]

omit [RotSem Θ R] in
theorem AoInv.conj {k : Nat} {c a : Nat → Nat} {σ : Bits → R} {π : Bits → Bits}
    (h : AoInv k c a σ π) (l : List Nat) : AoInv k c a (conjσ l σ) (conjπ l π) :=
  ⟨conj_invol l σ π h.invol, fun q hc ha => conj_free l σ π q (h.free q hc ha),
    fun b q ha => conj_keep l π q (fun b' => h.keep b' q ha) b⟩

omit [RotSem Θ R] in
/-- The targets are not control wires, so the ideal MCX is an involution. -/
theorem mcxIdeal_pat_invol (k nt : Nat) (c a t : Nat → Nat) (L : VLayout k nt c a t)
    (cs : Option (List Bool)) (ψ : State R) :
    mcxIdeal (patLits k c cs) ((List.range nt).map t)
      (mcxIdeal (patLits k c cs) ((List.range nt).map t) ψ) = ψ := by
  apply Mcsu.mcxIdeal_invol
  intro cv hcv hmem
  simp only [patLits, List.mem_map, List.mem_range] at hcv hmem
  obtain ⟨i, hi, rfl⟩ := hcv
  obtain ⟨j, hj, e⟩ := hmem
  exact L.hct i j hi hj e.symm

/-- **Forward direction** (needs only `Pi8`): the action-only V-chain denotes the ideal MCX
followed by an `AoInv` signed relabelling. -/
theorem vchain_action_only_fwd (o : McxAngles Θ) (hp : Pi8 R o) (k nt : Nat) (c a t : Nat → Nat)
    (L : VLayout k nt c a t) (cs : Option (List Bool)) (circ : Circ Θ)
    (h : vchainW o k nt c a t cs false true = some circ) :
    ∃ (σ : Bits → R) (π : Bits → Bits),
      (∀ ψ : State R, sem circ ψ
        = sp σ π (mcxIdeal (patLits k c cs) ((List.range nt).map t) ψ)) ∧ AoInv k c a σ π := by
  simp only [vchainW] at h
  split at h
  · exact absurd h (by simp)
  · rename_i hk
    split at h
    · exact absurd h (by simp)
    · rename_i xs hxs
      simp only [Option.some.injEq] at h
      subst h
      obtain ⟨σ, π, hbody, hinv⟩ := body_ao (R := R) o hp k nt (by omega) (by omega) c a t L
      exact ⟨_, _, fun ψ => ctrl_ao k c cs _ xs _ hxs L.hcc σ π hbody ψ, hinv.conj _⟩

variable [AddCommGroup Θ] [RotLaws Θ R]

/-- If a well-formed circuit denotes `S ∘ P` with `S`, `P` involutions, its gate-wise inverse
denotes `P ∘ S`. -/
theorem inv_of_SP (circ : Circ Θ) (hwf : ∀ g ∈ circ, g.wf = true) (S P : State R → State R)
    (hS : ∀ φ, S (S φ) = φ) (hP : ∀ φ, P (P φ) = φ) (hc : ∀ ψ : State R, sem circ ψ = S (P ψ))
    (ψ : State R) : sem (Circ.inv circ) ψ = P (S ψ) := by
  have h1 := sem_inv_left (R := R) circ hwf (P (S ψ))
  rw [hc, hP, hS] at h1
  exact h1

/-- **C05 (dirty-ancilla V-chain, `action_only=True`).**  For every number of controls `k ≥ 1`,
targets `nt ≥ 1`, every accepted `ctrl_state` and every pairwise-distinct wire layout, the circuit
`McxVchainDirty(k, nt, ctrl_state, action_only=True).definition` equals, on every state, the ideal
multi-controlled X followed (in time) by a signed relabelling `S = sp σ π` of the basis labels, and
its `.inverse()` (`Circ.inv`) equals `S` followed by the ideal MCX, where `S`
* is an involution (`Invol`),
* neither reads nor writes any wire other than the controls `c 0 … c (k-2)` and the borrowed qubits
  `a 0 … a (k-3)` (`FreeAt`): in particular the last control `c (k-1)`, every target and every
  spectator wire are free, so every gate acting on such wires only commutes with `S`
  (`applyMcu_sp_comm`),
* changes no wire other than the borrowed qubits.
(For `k = 1`, `k = 2` and `k = 3, nt = 1` the flag is ignored by the code and `S` is the
identity.) -/
theorem vchain_action_only (o : McxAngles Θ) (hp : Pi8 R o) (k nt : Nat) (c a t : Nat → Nat)
    (L : VLayout k nt c a t) (cs : Option (List Bool)) (circ : Circ Θ)
    (h : vchainW o k nt c a t cs false true = some circ) :
    ∃ (σ : Bits → R) (π : Bits → Bits),
      (∀ ψ : State R, sem circ ψ
        = sp σ π (mcxIdeal (patLits k c cs) ((List.range nt).map t) ψ))
      ∧ (∀ ψ : State R, sem (Circ.inv circ) ψ
        = mcxIdeal (patLits k c cs) ((List.range nt).map t) (sp σ π ψ))
      ∧ Invol σ π
      ∧ (∀ q, (∀ i, i < k - 1 → c i ≠ q) → (∀ i, i < k - 2 → a i ≠ q) → FreeAt q σ π)
      ∧ (∀ b q, (∀ i, i < k - 2 → a i ≠ q) → (π b) q = b q) := by
  obtain ⟨σ, π, hsem, hinv⟩ := vchain_action_only_fwd (R := R) o hp k nt c a t L cs circ h
  refine ⟨σ, π, hsem, fun ψ => ?_, hinv.invol, hinv.free, hinv.keep⟩
  exact inv_of_SP circ (Mcsu.ok_vchainW o k nt c a t L cs false true circ h).wf (sp σ π)
    (mcxIdeal (patLits k c cs) ((List.range nt).map t))
    (sp_invol σ π hinv.invol.invπ hinv.invol.invσ) (mcxIdeal_pat_invol k nt c a t L cs) hsem ψ

/-- The same with the printed inverse `Mcsu.invCirc (fun x => -x)` (reversed list, every
`u(θ,φ,λ)` replaced by `u(-θ,-λ,-φ)`) in place of `Circ.inv`: the two coincide on the V-chain. -/
theorem vchain_action_only_invCirc (o : McxAngles Θ) (hp : Pi8 R o) (k nt : Nat)
    (c a t : Nat → Nat) (L : VLayout k nt c a t) (cs : Option (List Bool)) (circ : Circ Θ)
    (h : vchainW o k nt c a t cs false true = some circ) :
    ∃ (σ : Bits → R) (π : Bits → Bits),
      (∀ ψ : State R, sem circ ψ
        = sp σ π (mcxIdeal (patLits k c cs) ((List.range nt).map t) ψ))
      ∧ (∀ ψ : State R, sem (Mcsu.invCirc (fun x : Θ => -x) circ) ψ
        = mcxIdeal (patLits k c cs) ((List.range nt).map t) (sp σ π ψ))
      ∧ Invol σ π
      ∧ (∀ q, (∀ i, i < k - 1 → c i ≠ q) → (∀ i, i < k - 2 → a i ≠ q) → FreeAt q σ π)
      ∧ (∀ b q, (∀ i, i < k - 2 → a i ≠ q) → (π b) q = b q) := by
  rw [Mcsu.invCirc_eq_inv circ (Mcsu.ok_vchainW o k nt c a t L cs false true circ h)]
  exact vchain_action_only o hp k nt c a t L cs circ h

/-- **The bracket** `mcx(action_only) ; mid ; mcx(action_only).inverse()`: if the middle circuit
commutes with the leftover relabelling (e.g. all its gates act on free wires only), the bracket
equals `MCX ; mid ; MCX` with the *ideal* MCX. -/
theorem vchain_action_only_bracket (o : McxAngles Θ) (hp : Pi8 R o) (k nt : Nat)
    (c a t : Nat → Nat) (L : VLayout k nt c a t) (cs : Option (List Bool)) (circ : Circ Θ)
    (h : vchainW o k nt c a t cs false true = some circ) :
    ∃ (σ : Bits → R) (π : Bits → Bits),
      (∀ q, (∀ i, i < k - 1 → c i ≠ q) → (∀ i, i < k - 2 → a i ≠ q) → FreeAt q σ π)
      ∧ ∀ (mid : Circ Θ), (∀ φ : State R, sem mid (sp σ π φ) = sp σ π (sem mid φ)) →
        ∀ ψ : State R, sem (circ ++ mid ++ Circ.inv circ) ψ
          = mcxIdeal (patLits k c cs) ((List.range nt).map t)
              (sem mid (mcxIdeal (patLits k c cs) ((List.range nt).map t) ψ)) := by
  obtain ⟨σ, π, hsem, hinvs, hinv, hfree, -⟩ := vchain_action_only (R := R) o hp k nt c a t L cs circ h
  refine ⟨σ, π, hfree, fun mid hmid ψ => ?_⟩
  rw [sem_append, sem_append, hsem, hinvs, hmid, sp_invol σ π hinv.invπ hinv.invσ]

end main

/-! ### Non-vacuity -/

/-- Seven controls with pattern `1011010`, five borrowed qubits, three targets, over `ℂ` with the
real angles `π/4, -π/4, 0`: the action-only circuit exists and the theorem applies to it (general
branch, so `S` is the genuine sweep). -/
example : ∃ circ, vchain realAngles 7 3 (some (parseCs "1011010")) false true = some circ ∧
    ∃ (σ : Bits → ℂ) (π : Bits → Bits),
      (∀ ψ : State ℂ, sem circ ψ
        = sp σ π (mcxIdeal (patLits 7 (fun i => i) (some (parseCs "1011010"))) [12, 13, 14] ψ))
      ∧ (∀ ψ : State ℂ, sem (Circ.inv circ) ψ
        = mcxIdeal (patLits 7 (fun i => i) (some (parseCs "1011010"))) [12, 13, 14] (sp σ π ψ))
      ∧ Invol σ π ∧ FreeAt 6 σ π ∧ FreeAt 12 σ π ∧ FreeAt 13 σ π ∧ FreeAt 14 σ π
      ∧ FreeAt 99 σ π := by
  have L : VLayout 7 3 (fun i => i) (fun i => 7 + i) (fun i => 7 + (7 - 2) + i) := by
    constructor <;> intros <;> omega
  refine ⟨_, rfl, ?_⟩
  obtain ⟨σ, π, h1, h2, h3, h4, -⟩ :=
    vchain_action_only (R := ℂ) realAngles pi8_real 7 3 _ _ _ L (some (parseCs "1011010")) _ rfl
  exact ⟨σ, π, h1, h2, h3, h4 6 (by intros; omega) (by intros; omega),
    h4 12 (by intros; omega) (by intros; omega), h4 13 (by intros; omega) (by intros; omega),
    h4 14 (by intros; omega) (by intros; omega), h4 99 (by intros; omega) (by intros; omega)⟩

end Qclib
